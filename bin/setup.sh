#!/bin/bash
# MANIFEST.setup_cmd: build the framework from files on disk only (offline).
set -e
cd "$(dirname "$0")/.."
mkdir -p spec/java/classes evidence
javac -nowarn -cp /opt/veriftools/tla/tla2tools.jar -d spec/java/classes spec/java/tlc2/module/*.java
sed 's/MODULE BigZ -/MODULE BigZPure -/' spec/BigZ.tla > spec/BigZPure.tla
# the accelerators must equal their TLA+ definitions before anything relies on them (every check re-runs this when the files change)
lib/l0equiv.sh
# warm the scratch-build cache for the tree as it is now (best effort: every check rebuilds by content hash anyway)
( B=$(lib/build.sh default 2>/dev/null | tail -1) && [ -d "$B" ] && lib/build_harness.sh "$B" >/dev/null 2>&1 ) || echo "note: warm-up build skipped"
echo "setup ok"
