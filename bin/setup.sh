#!/bin/bash
# MANIFEST.setup_cmd: build the framework from files on disk only (offline).
set -e
cd "$(dirname "$0")/.."
mkdir -p spec/java/classes evidence
javac -nowarn -cp /opt/veriftools/tla/tla2tools.jar -d spec/java/classes spec/java/tlc2/module/*.java
sed 's/MODULE BigZ -/MODULE BigZPure -/' spec/BigZ.tla > spec/BigZPure.tla
echo "setup ok"
