#!/usr/bin/env python3
"""C20 generator: TLC-enumerated expression trees (CxxExpr.tla output) -> C++ translation units + a driver main.
usage: cxxgen.py <tlc-output-z> <tlc-output-q> <outdir> <seed> <max_z> <max_q>   (max = 0: all)"""
import sys, re, json, struct, random, os

def parse_tuple(s):
    """<<"a", <<"b", "c">>>> -> ['a', ['b', 'c']]"""
    s = s.strip()
    toks = re.findall(r'<<|>>|"[^"]*"|,', s)
    pos = 0
    def rd():
        nonlocal pos
        t = toks[pos]
        if t == '<<':
            pos += 1; out = []
            while toks[pos] != '>>':
                if toks[pos] == ',': pos += 1; continue
                out.append(rd())
            pos += 1; return out
        pos += 1; return t[1:-1]
    return rd()

def dbl_fields(x):
    b = struct.unpack('<Q', struct.pack('<d', float(x)))[0]
    return [b >> 63, (b >> 52) & 0x7ff, (b >> 26) & 0x3ffffff, b & 0x3ffffff]

def to_json(t):
    if t[0] == 'dd': return ['d', dbl_fields(t[1])]
    if t[0] in ('v', 'si', 'ui'): return list(t)
    return [t[0]] + [to_json(x) for x in t[1:]]

def lit_si(h):
    v = int(h, 16)
    return '(-9223372036854775807L - 1)' if v == -(1 << 63) else f'({v}L)'

def cxx(t):
    op = t[0]
    if op == 'v': return {'qn': 'q.get_num()', 'qd': 'q.get_den()', 'z': 'zz'}.get(t[1], t[1])      # qn / qd: references INTO the rational q; zz: an independent mpz_class
    if op == 'si': return lit_si(t[1])
    if op == 'ui': return f'{int(t[1], 16)}UL'
    if op == 'dd': return f'({t[1]})'
    if len(t) == 2:
        x = cxx(t[1])
        return {'neg': f'(-{x})', 'pos': f'(+{x})', 'com': f'(~{x})', 'abs': f'abs({x})', 'sqrt': f'sqrt({x})', 'sgn': f'sgn({x})'}[op]
    l, r = cxx(t[1]), cxx(t[2])
    if op in ('gcd', 'lcm', 'cmp'): return f'{op}({l}, {r})'
    return f'({l} {op} {r})'

INT_ROOT = {'sgn', 'cmp', '<', '>', '==', '!=', '<=', '>='}
ENVZ = [('c', '-7', '5'), ('123456789abcdef0fedcba9876543210', '-ffffffffffffffff', '10000000000000000'), ('0', '1', '-deadbeefcafebabe0123456789'), ('-1', '8000000000000000', '7fffffffffffffff')]
ENVZQ = ['9', '-ffffffffffffffffffff', '0', '123456789abcdef01']      # the independent integer operand of the mixed mpz/mpq trees, per value class
ENVQ = [(('3', '4'), ('-5', '7')), (('123456789abcdef0123456789', '10000000000000001'), ('-1', 'ffffffffffffffff')), (('0', '1'), ('7', '2')), (('-22', '7'), ('1', '3'))]
COMPOUND_Z = ['+', '-', '*', '&', '|', '^']

def main():
    fz, fq, outdir, seed, mz, mq = sys.argv[1], sys.argv[2], sys.argv[3], int(sys.argv[4]), int(sys.argv[5]), int(sys.argv[6])
    rng = random.Random(seed)
    def load(f, kind):
        ts = [parse_tuple(m) for m in re.findall(r'<<"TREE", "%s", (<<.*>>)>>' % kind, open(f).read())]
        ts.sort(key=lambda x: json.dumps(x))
        return ts
    tz, tq = load(fz, 'z'), load(fq, 'q')
    depth = lambda t: 0 if t[0] in ('v', 'si', 'ui', 'dd') else 1 + max(depth(x) for x in t[1:])
    # the depth-1 trees (one operator, every leaf pair incl. the extreme built-in operands) are always all kept; sampling applies to depth >= 2
    if mz and len(tz) > mz: d1 = [t for t in tz if depth(t) <= 1 or (depth(t) == 2 and t[0] in ('/', '%') and depth(t[1]) == 0)]; rest = [t for t in tz if t not in d1]; tz = d1 + rng.sample(rest, min(len(rest), mz))
    mixed = lambda t: any(k in json.dumps(t) for k in ('"z"', '"qn"', '"qd"'))
    if mq and len(tq) > mq: d1 = [t for t in tq if depth(t) <= 1 or mixed(t)]; rest = [t for t in tq if t not in d1]; tq = d1 + rng.sample(rest, min(len(rest), mq))
    os.makedirs(outdir, exist_ok=True)
    items = []      # (kind, cxx statement pieces)
    n = 0
    for t in tz:
        n += 1; root_int = t[0] in INT_ROOT
        items.append(('z', n, to_json(t), cxx(t), 'int' if root_int else 'tmp'))
        if not root_int and n % 4 == 0:
            items.append(('z', n, to_json(t), cxx(t), 'a'))                       # the assigned variable occurs in the tree
        if not root_int and n % 5 == 0:
            op = COMPOUND_Z[n % 6]
            items.append(('z', n, [op, ['v', 'a'], to_json(t)], cxx(t), 'a' + op + '='))     # compound assignment = its expanded form
    for t in tq:
        n += 1; root_int = t[0] in INT_ROOT
        items.append(('q', n, to_json(t), cxx(t), 'int' if root_int else 'tmp'))
        if not root_int and (n % 4 == 0 or mixed(t)): items.append(('q', n, to_json(t), cxx(t), 'q'))      # mixed trees: always also with the target q (whose components are operands)
        if not root_int and n % 5 == 0:
            op = ['+', '-', '*'][n % 3]
            items.append(('q', n, [op, ['v', 'q'], to_json(t)], cxx(t), 'q' + op + '='))
    per = 350
    units = [items[i:i + per] for i in range(0, len(items), per)]
    # trees with a literal operand next to a class operand: evaluated a second time in units compiled WITH optimisation (k*.cc), where the __GMPXX_CONSTANT shortcuts are live
    lit = lambda tj: isinstance(tj, list) and len(tj) == 3 and any(isinstance(x, list) and x[0] in ('si', 'ui') for x in tj[1:]) and all((not isinstance(x, list)) or x[0] in ('si', 'ui', 'v', 'neg') for x in tj[1:])
    kitems = [it for it in items if lit(it[2])]
    kunits = [kitems[i:i + 120] for i in range(0, len(kitems), 120)]
    nplain = len(units); units = units + kunits
    hdr = '''#include <cstdio>
#include <cstdlib>
#include <string>
#include "mpirxx.h"
extern FILE *out;
extern mpz_class zz;
void ev_z(const char *tree, const char *tgt, int vc, const mpz_class &a0, const mpz_class &b0, const mpz_class &c0, const mpz_class &res);
void ev_q(const char *tree, const char *tgt, int vc, const mpq_class &q0, const mpq_class &r0, const mpq_class &res);
void set_env_z(int vc, mpz_class &a, mpz_class &b, mpz_class &c);
void set_env_q(int vc, mpq_class &q, mpq_class &r);
'''
    for ui, unit in enumerate(units):
        with open(os.path.join(outdir, (f'u{ui}.cc' if ui < nplain else f'k{ui}.cc')), 'w') as o:
            o.write(hdr + f'void unit{ui}(int vc) {{\n  mpz_class a, b, c, a0, b0, c0; mpq_class q, r, q0, r0;\n')
            for kind, n, tj, expr, tgt in unit:
                js = json.dumps(tj, separators=(',', ':')).replace('\\', '\\\\').replace('"', '\\"')
                if kind == 'z':
                    o.write('  set_env_z(vc, a, b, c); a0 = a; b0 = b; c0 = c;\n')
                    if tgt == 'int': o.write(f'  {{ long rv_ = {expr}; rv_ = (rv_ > 0) - (rv_ < 0); mpz_class t_(rv_); ev_z("{js}", "int", vc, a0, b0, c0, t_); }}\n')      # cmp: only the sign is defined
                    elif tgt == 'tmp': o.write(f'  {{ mpz_class t_; t_ = {expr}; ev_z("{js}", "t", vc, a0, b0, c0, t_); }}\n')
                    elif tgt == 'a': o.write(f'  {{ a = {expr}; ev_z("{js}", "a", vc, a0, b0, c0, a); }}\n')
                    else: o.write(f'  {{ a {tgt[1:]} {expr}; ev_z("{js}", "{tgt}", vc, a0, b0, c0, a); }}\n')
                else:
                    o.write('  set_env_q(vc, q, r); q0 = q; r0 = r;\n')
                    if tgt == 'int': o.write(f'  {{ long rv_ = {expr}; rv_ = (rv_ > 0) - (rv_ < 0); mpq_class t_(rv_); ev_q("{js}", "int", vc, q0, r0, t_); }}\n')
                    elif tgt == 'tmp': o.write(f'  {{ mpq_class t_; t_ = {expr}; ev_q("{js}", "t", vc, q0, r0, t_); }}\n')
                    elif tgt == 'q': o.write(f'  {{ q = {expr}; ev_q("{js}", "q", vc, q0, r0, q); }}\n')
                    else: o.write(f'  {{ q {tgt[1:]} {expr}; ev_q("{js}", "{tgt}", vc, q0, r0, q); }}\n')
            o.write('}\n')
    with open(os.path.join(outdir, 'main.cc'), 'w') as o:
        o.write(hdr.replace('extern FILE *out;', 'FILE *out;').replace('extern mpz_class zz;', 'mpz_class zz;'))
        for ui in range(len(units)): o.write(f'void unit{ui}(int);\n')
        o.write('static std::string hx(const mpz_class &z) { return z.get_str(16); }\n')
        o.write('void ev_z(const char *tree, const char *tgt, int vc, const mpz_class &a0, const mpz_class &b0, const mpz_class &c0, const mpz_class &res) {\n'
                '  fprintf(out, "{\\"e\\":\\"fn\\",\\"f\\":\\"cxx_z\\",\\"i\\":{\\"tree\\":%s,\\"tgt\\":\\"%s\\",\\"env\\":{\\"a\\":\\"%s\\",\\"b\\":\\"%s\\",\\"c\\":\\"%s\\"}},\\"o\\":{\\"v\\":\\"%s\\"}}\\n", tree, tgt, hx(a0).c_str(), hx(b0).c_str(), hx(c0).c_str(), hx(res).c_str()); }\n')
        o.write('void ev_q(const char *tree, const char *tgt, int vc, const mpq_class &q0, const mpq_class &r0, const mpq_class &res) {\n'
                '  fprintf(out, "{\\"e\\":\\"fn\\",\\"f\\":\\"cxx_q\\",\\"i\\":{\\"tree\\":%s,\\"tgt\\":\\"%s\\",\\"env\\":{\\"q\\":[\\"%s\\",\\"%s\\"],\\"r\\":[\\"%s\\",\\"%s\\"],\\"z\\":[\\"%s\\",\\"1\\"],\\"qn\\":[\\"%s\\",\\"1\\"],\\"qd\\":[\\"%s\\",\\"1\\"]}},\\"o\\":{\\"n\\":\\"%s\\",\\"d\\":\\"%s\\"}}\\n", tree, tgt,'
                ' hx(q0.get_num()).c_str(), hx(q0.get_den()).c_str(), hx(r0.get_num()).c_str(), hx(r0.get_den()).c_str(), hx(zz).c_str(), hx(q0.get_num()).c_str(), hx(q0.get_den()).c_str(), hx(res.get_num()).c_str(), hx(res.get_den()).c_str()); }\n')
        o.write('void set_env_z(int vc, mpz_class &a, mpz_class &b, mpz_class &c) { static const char *t[][3] = {' + ','.join('{"%s","%s","%s"}' % e for e in ENVZ) + '}; a.set_str(t[vc][0], 16); b.set_str(t[vc][1], 16); c.set_str(t[vc][2], 16); }\n')
        o.write('void set_env_q(int vc, mpq_class &q, mpq_class &r) { static const char *t[][4] = {' + ','.join('{"%s","%s","%s","%s"}' % (e[0][0], e[0][1], e[1][0], e[1][1]) for e in ENVQ) + '}; q.get_num().set_str(t[vc][0], 16); q.get_den().set_str(t[vc][1], 16); r.get_num().set_str(t[vc][2], 16); r.get_den().set_str(t[vc][3], 16); static const char *tz[] = {' + ','.join('"%s"' % e for e in ENVZQ) + '}; zz.set_str(tz[vc], 16); }\n')
        o.write('void conv_section(void);\nvoid stream_section(const char *);\nvoid mpf_section(void);\n')
        o.write('int main(int argc, char **argv) { out = fopen(argv[1], "w"); int nvc = atoi(argv[2]); if (!out) return 3;\n  for (int vc = 0; vc < nvc; vc++) {\n')
        for ui in range(len(units)): o.write(f'    fprintf(out, "{{\\"e\\":\\"reset\\",\\"drv\\":\\"cxx\\",\\"x\\":%d,\\"seed\\":\\"0\\"}}\\n", vc * 1000 + {ui}); unit{ui}(vc);\n')
        o.write('  }\n  fprintf(out, "{\\"e\\":\\"reset\\",\\"drv\\":\\"cxxconv\\",\\"x\\":0,\\"seed\\":\\"0\\"}\\n"); conv_section();\n  if (argc > 3) { stream_section(argv[3]); mpf_section(); }\n  fclose(out); return 0; }\n')
    print(len(items), 'expressions in', nplain, 'units;', len(kitems), 'literal-operand expressions again in', len(kunits), 'optimised units')

main()
