#!/usr/bin/env python3
"""mapranges.py <linker map> <executable> -> lines "hexaddr size name": every writable (.data/.bss/COMMON) chunk that a member
of libmpir.a contributes to the executable, named by the symbols nm finds inside it.  Used by the global-write detector.
mapranges.py <linker map> <executable> text -> lines "hexaddr size member": every .text chunk of a member of libmpir.a (used to tell
whether a direct call of malloc/free came from library code)."""
import re, sys, subprocess
mapf, exe = sys.argv[1], sys.argv[2]
if len(sys.argv) > 3 and sys.argv[3] == 'text':
    out = set(); L = open(mapf, errors='replace').read().splitlines(); k = 0
    while k < len(L):
        m = re.match(r'^ (\.text\S*)\s*(0x[0-9a-f]+)?\s*(0x[0-9a-f]+)?\s*(\S.*)?$', L[k])
        if m:
            sec, addr, size, src = m.groups()
            if addr is None and k + 1 < len(L):
                m2 = re.match(r'^\s+(0x[0-9a-f]+)\s+(0x[0-9a-f]+)\s+(\S.*)$', L[k + 1])
                if m2: addr, size, src = m2.groups(); k += 1
            if addr and size and src and 'libmpir.a(' in src and int(size, 16) > 0:
                out.add((int(addr, 16), int(size, 16), src.split('libmpir.a(')[1].rstrip(')')))
        k += 1
    for a, sz, member in sorted(out): print('%x %d %s' % (a, sz, member))
    sys.exit(0)
syms = []
for l in subprocess.run(['nm', '-S', '--defined-only', exe], capture_output=True, text=True).stdout.splitlines():
    p = l.split()
    if len(p) == 4 and p[2] in 'dDbBC':
        syms.append((int(p[0], 16), int(p[1], 16), p[3]))
chunks = []
lines = open(mapf, errors='replace').read().splitlines()
i = 0
cur = None
while i < len(lines):
    l = lines[i]
    m = re.match(r'^ (\.data\S*|\.bss\S*|COMMON|\.tbss\S*|\.tdata\S*)\s*(0x[0-9a-f]+)?\s*(0x[0-9a-f]+)?\s*(\S.*)?$', l)
    if m:
        sec, addr, size, src = m.groups()
        if addr is None and i + 1 < len(lines):
            m2 = re.match(r'^\s+(0x[0-9a-f]+)\s+(0x[0-9a-f]+)\s+(\S.*)$', lines[i + 1])
            if m2: addr, size, src = m2.groups(); i += 1
        if addr and size and src and 'libmpir.a(' in src and int(size, 16) > 0 and not sec.startswith('.t'):
            chunks.append((int(addr, 16), int(size, 16), sec, src.split('libmpir.a(')[1].rstrip(')')))
    i += 1
for a, s, sec, member in sorted(set(chunks)):
    names = [n for (sa, ss, n) in syms if sa >= a and sa < a + s]
    print('%x %d %s:%s' % (a, s, member, '+'.join(names[:4]) if names else sec))
