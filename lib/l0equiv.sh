#!/bin/bash
# Runs the L0 equivalence families (Java accelerators = normative TLA+ definitions) in parallel.
# Writes spec/.l0equiv.ok (hash of BigZ.tla + BigZ.java) on success.
HERE="$(cd "$(dirname "$0")/.." && pwd)"; cd "$HERE"
exec 7>"${TMPDIR:-/tmp}/.mpir-verif-l0equiv.lock"; flock 7          # one runner at a time (concurrent checks from a cold start)
H=$(cat spec/BigZ.tla spec/java/tlc2/module/BigZ.java spec/L0Equiv.tla | sha256sum | cut -c1-16)
[ "$1" != "--force" ] && [ -f spec/.l0equiv.ok ] && [ "$(cat spec/.l0equiv.ok)" = "$H" ] && { echo "L0Equiv: up to date"; exit 0; }
SCR=${VERIF_SCRATCH:-/var/tmp/mpir-verif-scratch}; mkdir -p "$SCR/l0"
FAIL=0
for f in Ints Bin2 Div2 Un1 PowM Primes Comb Radix; do
  printf 'CONSTANT Family = "%s"\n' $f > spec/L0Equiv_$f.cfg
  ( lib/tlc.sh --timeout 300 -- -config L0Equiv_$f.cfg L0Equiv.tla > "$SCR/l0/$f.out" 2>&1 ) &
done
wait
for f in Ints Bin2 Div2 Un1 PowM Primes Comb Radix; do
  if grep -q "No error has been found" "$SCR/l0/$f.out" && [ "$(grep -c 'Loading .* operator override' "$SCR/l0/$f.out")" -ge 40 ]; then echo "L0Equiv $f ok ($(grep -o 'Finished in.*' "$SCR/l0/$f.out"))"; else echo "L0Equiv $f FAILED"; tail -5 "$SCR/l0/$f.out"; FAIL=1; fi
  rm -f spec/L0Equiv_$f.cfg
done
[ $FAIL = 0 ] && echo "$H" > spec/.l0equiv.ok
rm -rf "$SCR/l0"
exit $FAIL
