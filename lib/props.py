"""Per-property checks.  Each check_Cxx(ctx): R2 models (TLC, exhaustive), R3 drivers on a scratch build of /repo's
working tree, R1 validation of the recorded traces against MPIR.tla, evidence."""
import os, json
from verif import Ctx, Machinery, VERIF, SPEC


def cfg(spec='Spec', consts=None, inv=('Correct',), extra=''):
    c = f'SPECIFICATION {spec}\n'
    if consts: c += 'CONSTANTS\n' + ''.join(f'  {k} = {v}\n' for k, v in consts.items())
    for i in inv: c += f'INVARIANT {i}\n'
    return c + 'CHECK_DEADLOCK FALSE\n' + extra


def replay(ctx, path):
    """re-validate one saved execution (a replays/<id>/*.ndjson file) against the specification"""
    ctx.ensure_setup()
    import shutil
    p = os.path.join(ctx.scratch, 'replay.ndjson'); shutil.copy(path, p)
    ctx.validate([p])
    return ctx.finish('model_checking', 'replay of one saved execution', explanation='replay')


def trace_drivers(ctx, drivers, variant='default', pure_drivers=()):
    """drivers: list of (driver, shards, timeout). Runs them, validates all traces."""
    b = ctx.build(variant)
    paths = []
    for d, shards, tmo in drivers:
        paths += ctx.run_driver(b, d, shards=shards, timeout=tmo)
    ctx.validate(paths)
    # size-capped executions are validated again WITHOUT the Java accelerators (pure TLA+ definitions)
    pp = []
    for d in pure_drivers:
        pp += ctx.run_driver(b, d, shards=8, extra='pure', timeout=300)        # 8 shards: the pure definitions are slow, the files validate in parallel
    if pp:
        before = ctx.trace_stats['accepted_executions']
        ctx.validate(pp, pure=True, timeout=1700)
        ctx.notes.append(f'pure-mode (no Java) validation: {ctx.trace_stats["accepted_executions"] - before} executions')


# ------------------------------------------------------------------------------------------------ C03
def check_C03(ctx):
    q = ctx.tier == 'quick'
    r = ctx.tlc_model('MpzAors', cfg_text=cfg(consts={'B': 3, 'V': 6 if q else 10, 'Variant': '"ok"'}), name='MpzAors')
    ctx.model_must_hold(r, what='(mpz_add/mpz_sub over the block store, all alias patterns)')
    b = ctx.build('default')
    funs = 'mpz_add:mpz_sub:mpz_add_ui:mpz_sub_ui:mpz_ui_sub:mpz_neg:mpz_abs:mpz_mul_2exp:mpz_set:mpz_swap'
    ctx.validate(ctx.run_driver(b, 'alias', shards=8, extra='funs=' + funs, tier='thorough', timeout=600))     # every alias partition x exact/generous allocation
    ctx.validate(ctx.run_driver(b, 'corners_all', shards=8, extra='funs=' + funs, timeout=900))      # the same functions on every corner-alphabet operand
    ctx.validate(ctx.run_driver(b, 'corners_z', shards=16, extra='funs=mpz_add:mpz_sub:mpz_cmp', timeout=900))       # every pair of corner-alphabet operands
    trace_drivers(ctx, [('c03_mpn', 16, 600), ('c03_mpz', 8, 600), ('c14_kern', 16, 600)], pure_drivers=['c03_mpn', 'c03_mpz'])      # c14_kern: the composite add/sub kernels the property is anchored in (addadd, addsub, subadd, sumdiff, nsumdiff, add/sub_err)
    return ctx.finish('model_checking',
        rule='R2: MpzAors enumerates every (alias triple, value triple in -V..V at limb base 3, spare allocation) exhaustively; '
             'R3/R1: every length n (all residues of the unrolled kernels) x 7 content kinds x placements x overlaps of the mpn kernels and every '
             'sign/relative-magnitude/alias combination of the mpz functions is executed on the real library and each recorded call is validated '
             'against MPIR.tla; distinct = distinct (function, inputs, outputs), non-trivial = some operand of at least two limbs',
        explanation='exhaustive small-base model of aors.h plus trace validation of the real kernels')


# ------------------------------------------------------------------------------------------------ helpers
ROSRC = {'HX_FENCE': '1', 'HX_ROSRC': '1'}      # harness/rec.c: fenced blocks + read-only mapping of input-only operands during each call
def probe(ctx, build):
    from verif import sh
    rc, out = sh([ctx.hx(build, 'verif-probe')], timeout=60)
    if rc != 0: raise Machinery('probe failed: ' + out[-500:])
    th = {}
    for l in out.splitlines():
        p = l.split()
        if len(p) == 2: th[p[0]] = int(p[1])
    return th


def mul_consts(th, **over):
    c = dict(KARA=th['MUL_KARATSUBA_THRESHOLD'], TOOM3=th['MUL_TOOM3_THRESHOLD'], TOOM4=th['MUL_TOOM4_THRESHOLD'],
             TOOM8H=th['MUL_TOOM8H_THRESHOLD'], FFTFULL=th['MUL_FFT_FULL_THRESHOLD'], MAXUN=th['MUL_BASECASE_MAX_UN'],
             SQRBASE=th['SQR_BASECASE_THRESHOLD'], SQRKARA=th['SQR_KARATSUBA_THRESHOLD'], SQRTOOM3=th['SQR_TOOM3_THRESHOLD'],
             SQRTOOM4=th['SQR_TOOM4_THRESHOLD'], SQRTOOM8=th['SQR_TOOM8_THRESHOLD'], SQRFFT=th['SQR_FFT_FULL_THRESHOLD'],
             KARALIMIT=th['MUL_KARATSUBA_THRESHOLD_LIMIT'], TOOM3LIMIT=th['MUL_TOOM3_THRESHOLD_LIMIT'],
             N=1000, LO=1, Mode='"region"', BV=2, EMIT='FALSE')
    c.update(over)
    return c


def fft_consts(th, **over):
    c = {}
    names = ['T61', 'T62', 'T71', 'T72', 'T81', 'T82', 'T91', 'T92', 'TA1', 'TA2']
    for i in range(5):
        c[names[2 * i]] = th[f'FFT_TAB_{i}_1']; c[names[2 * i + 1]] = th[f'FFT_TAB_{i}_2']
    c.update(FFTFULL=th['MUL_FFT_FULL_THRESHOLD'], N1LO=th['MUL_FFT_FULL_THRESHOLD'], N1HI=5200, STEP=1, EMIT='FALSE')
    c.update(over)
    return c


def need(n, least, what):
    """a generator fed by TLC that yields (almost) nothing means the hand-over is broken, not that there is nothing to replay"""
    if n < least: raise Machinery(f'{what}: only {n} items came out of the TLC run (at least {least} expected)')


def parse_tuples(lines, tag):
    """<<"TAG", 1, 2, "x">> lines printed by TLC -> list of lists"""
    out = []
    for l in lines:
        if tag not in l: continue
        body = l.strip().strip('<>').replace('"', '')
        parts = [p.strip() for p in body.split(',')]
        if parts and parts[0] == tag: out.append(parts[1:])
    return out


# ------------------------------------------------------------------------------------------------ C01
def check_C01(ctx):
    import random
    q = ctx.tier == 'quick'
    b = ctx.build('default')
    th = probe(ctx, b)
    rng = random.Random(ctx.seed)
    # R2 (a) region run with the thresholds of the tree under test; also emits the shapes next to every boundary (R3)
    N = 700 if q else 1300
    r = ctx.tlc_model('MulDispatch', cfg_text=cfg(consts=mul_consts(th, N=N, EMIT='TRUE')), name='MulDispatch-region', collect='<<"SHAPE"')
    ctx.model_must_hold(r, what='(callee preconditions / scratch sizes of the mpn_mul dispatch)')
    shapes = parse_tuples(['<<"SHAPE"' + x for x in r.get('collected', [])], 'SHAPE')
    need(len(shapes), 200, 'C01 boundary shapes')
    if not q:
        r2 = ctx.tlc_model('MulDispatch', cfg_text=cfg(consts=mul_consts(th, N=2 * th['MUL_FFT_FULL_THRESHOLD'] + 64, LO=N + 1)), name='MulDispatch-region-large', timeout=3000)
        ctx.model_must_hold(r2)
    # R2 (b) value runs: fallback loop and chunked basecase, exhaustive at limb base 2
    for nm, kara, n in (('value-kara2', 2, 8), ('value-kara3', 3, 9 if q else 10)):
        rv = ctx.tlc_model('MulDispatch', cfg_text=cfg(consts=mul_consts(th, KARA=kara, TOOM3=100, TOOM4=200, TOOM8H=300, FFTFULL=400, MAXUN=3,
                           N=n, LO=2, Mode='"value"')), name='MulDispatch-' + nm)
        ctx.model_must_hold(rv, what='(fallback loop / chunked basecase value run)')
    # R2 FFT parameter selection, exhaustive over a range, then a sparse grid with EMIT for the replay set
    rf = ctx.tlc_model('FFTParams', cfg_text=cfg(consts=fft_consts(th, N1HI=th['MUL_FFT_FULL_THRESHOLD'] + (1500 if q else 5500))), name='FFTParams-dense', timeout=3000)
    ctx.model_must_hold(rf, what='(FFT parameters let coefficients wrap or do not fit the transform)')
    rg = ctx.tlc_model('FFTParams', cfg_text=cfg(consts=fft_consts(th, N1LO=th['MUL_FFT_FULL_THRESHOLD'] // 3 * 2, N1HI=60000 if q else 300000, STEP=211 if q else 397, EMIT='TRUE')),
                       name='FFTParams-grid', collect='<<"FFTP"', timeout=3000)
    ctx.model_must_hold(rg)
    params = parse_tuples(['<<"FFTP"' + x for x in rg.get('collected', [])], 'FFTP')
    need(len(params), 4, 'C01 FFT parameter pairs')
    bylabel = {}
    for n1, n2, d, w, k in params:
        bylabel.setdefault((int(d), int(w), k), []).append((int(n1), int(n2)))
    fftlines = []
    cap = 45000 if q else 320000
    for (d, w, k), ws in sorted(bylabel.items()):
        ws = sorted(ws, key=lambda t: t[0] + t[1])
        picks = [ws[0]] + ([ws[len(ws) // 2]] if len(ws) > 2 and not q else [])
        for n1, n2 in picks:
            if n1 + n2 <= cap: fftlines.append(f'{n1} {n2} {d} {w} {k}')
    ctx.notes.append(f'FFT parameter pairs found by the model: {len(bylabel)}; replayed: {len(fftlines)} (size cap {cap} limbs)')
    # R3: replay
    if q: shapes = [s for s in shapes if rng.random() < 0.22]
    sf = os.path.join(ctx.scratch, 'shapes.lst'); open(sf, 'w').write(''.join(f'{s[2]} {s[0]} {s[1]}\n' for s in shapes))
    ff = os.path.join(ctx.scratch, 'fft.lst'); open(ff, 'w').write('\n'.join(fftlines) + '\n')
    paths = ctx.run_driver(b, 'c01_shapes', shards=48, extra=f'file={sf}', timeout=1500)
    paths += ctx.run_driver(b, 'c01_mul1', shards=4, timeout=600)
    paths += ctx.run_driver(b, 'c01_mpz', shards=8, timeout=900)
    paths += ctx.run_driver(b, 'corners_z', shards=16, extra='funs=mpz_mul:mpz_addmul', timeout=900)       # every pair of corner-alphabet operands x signs
    # the internal multiplication kernels called directly, each against the contract its own source states (SemK1.tla)
    for d in ('k1_mullow', 'k1_sqr', 'k1_mulmid', 'k1_mulmod'): paths += ctx.run_driver(b, d, shards=8, timeout=900)
    # the building blocks of Toom and FFT multiplication called directly (SemK4.tla): evaluation helpers with their sign flags, arithmetic mod 2^(64n)+1, butterflies,
    # split/combine, the transforms against the DFT definition, every Toom routine and mpn_mul_fft_main with exactly the dispatcher's scratch
    for d, s_ in (('k4_toomeval', 8), ('k4_fftmod', 4), ('k4_toom', 8), ('k4_fft', 8)): paths += ctx.run_driver(b, d, shards=s_, timeout=900)
    paths += ctx.run_driver(b, 'c01_pieces', shards=8, timeout=900)        # piece-structured corner operands in each Toom regime
    paths += ctx.run_driver(b, 'c01_fft', shards=min(16, max(1, len(fftlines))), extra=f'fft={ff}', timeout=1500)
    ctx.validate(paths)
    pp = ctx.run_driver(b, 'c01_mul1', shards=1, extra='pure', timeout=300) + ctx.run_driver(b, 'c01_mpz', shards=1, extra='pure', timeout=300)
    n0 = ctx.trace_stats['accepted_executions']; ctx.validate(pp, pure=True)
    ctx.notes.append(f'pure-mode (no Java) validation: {ctx.trace_stats["accepted_executions"] - n0} executions')
    return ctx.finish('model_checking',
        rule='R2: MulDispatch region run = every 1<=vn<=un<=N with the tree\'s thresholds (callee ASSERT domains, scratch); value runs = every operand at limb base 2 '
             'through the fallback loop and the chunked basecase; FFTParams = every (n1,n2) in range. R3/R1: every shape the model marks as adjacent to a dispatch boundary '
             '(quick: seeded 22% sample) is multiplied on the real library with all-ones and a second content kind, through mpn_mul and through the selected internal '
             'routine directly; every (depth,w) the FFT selection can produce is entered directly; each product is validated by TLC against MPIR.tla. '
             'distinct = distinct (function, operands, result); non-trivial = at least two limbs',
        explanation='dispatch/parameter models checked with the constants of the tree under test + trace validation of real products',
        extra_cov=dict(boundary_shapes_replayed=len(shapes), fft_parameter_pairs=len(bylabel), thresholds={k: th[k] for k in th if k.startswith('MUL_') or k.startswith('SQR_')}))


# ------------------------------------------------------------------------------------------------ C02
def check_C02(ctx):
    q = ctx.tier == 'quick'
    for B in ([8, 16] if q else [8, 16, 32]):
        r = ctx.tlc_model('UdivPreinv', cfg_text=cfg(consts={'B': B, 'EMIT': 'FALSE'}), name=f'UdivPreinv-B{B}', timeout=3000)
        ctx.model_must_hold(r, what='(3/2 inverse and quotient step, all admissible inputs)')
    sbs = [(4, 3, 5)] if q else [(4, 3, 5), (4, 3, 6), (4, 4, 6), (8, 3, 4)]
    for B, dn, nn in sbs:
        r = ctx.tlc_model('SbDivQr', cfg_text=cfg(consts={'B': B, 'DN': dn, 'NN': nn, 'Variant': '"ok"', 'EMITSB': 'FALSE'}), name=f'SbDivQr-B{B}-{dn}-{nn}', timeout=3000)
        ctx.model_must_hold(r, what='(schoolbook division loop)')
    r = assume_model(ctx, 'DivRound', {'M': 40 if q else 120, 'Variant': '"ok"'}, timeout=3000)
    ctx.model_must_hold(r, what='(floor/ceiling adjustment of the truncated quotient and remainder; _ui return values)')
    for W, N, CM in ([(2, 3, 8)] if q else [(2, 3, 8), (2, 4, 10), (3, 3, 11)]):
        r = assume_model(ctx, 'Div2exp', {'W': W, 'N': N, 'CMAX': CM, 'Variant': '"ok"'}, name=f'Div2exp-W{W}-N{N}', timeout=3000)
        ctx.model_must_hold(r, what='(limb-level cfdiv_q/tdiv_q/tdiv_r/cfdiv_r _2exp: shift, strip, rounding carry, two\'s complement remainder)')
    ctx.validate(ctx.run_driver(ctx.build('default'), 'corners_z', shards=16, extra='funs=mpz_tdiv_q:mpz_tdiv_r:mpz_fdiv_q:mpz_fdiv_r:mpz_cdiv_q:mpz_cdiv_r:mpz_mod:mpz_tdiv_qr:mpz_divexact', timeout=900))
    # the internal division kernels called directly, each against the contract its own source states (SemK2.tla)
    DIVFUNS = 'mpz_tdiv_q:mpz_tdiv_r:mpz_tdiv_qr:mpz_fdiv_q:mpz_fdiv_r:mpz_fdiv_qr:mpz_cdiv_q:mpz_cdiv_r:mpz_cdiv_qr:mpz_mod:mpz_tdiv_q_ui:mpz_tdiv_r_ui:mpz_tdiv_qr_ui:mpz_tdiv_ui:mpz_fdiv_q_ui:mpz_fdiv_r_ui:mpz_fdiv_qr_ui:mpz_fdiv_ui:mpz_cdiv_q_ui:mpz_cdiv_r_ui:mpz_cdiv_qr_ui:mpz_cdiv_ui:mpz_mod_ui:mpz_tdiv_q_2exp:mpz_tdiv_r_2exp:mpz_fdiv_q_2exp:mpz_fdiv_r_2exp:mpz_cdiv_q_2exp:mpz_cdiv_r_2exp:mpz_divexact:mpz_divexact_ui:mpz_divisible_p:mpz_divisible_ui_p:mpz_divisible_2exp_p:mpz_congruent_p:mpz_congruent_ui_p:mpz_congruent_2exp_p'
    ctx.validate(ctx.run_driver(ctx.build('default'), 'alias', shards=8, extra='funs=' + DIVFUNS, tier='thorough', timeout=900))      # every alias partition of every division function x exact/generous allocation (quotient or remainder stored in the divisor / dividend: seed C02d)
    trace_drivers(ctx, [('c02_tdiv', 16, 1200), ('c02_div1', 8, 600), ('c02_mpz', 16, 900), ('k2_sbdc', 8, 900), ('k2_dive2', 8, 900), ('k2_inv', 8, 900), ('k2_bdiv', 8, 900), ('k2_div1', 8, 900), ('k2_divis', 2, 600), ('scalar_ext', 14, 600)],
                  pure_drivers=['c02_tdiv', 'c02_div1', 'c02_mpz', 'k2_div1'])
    return ctx.finish('model_checking',
        rule='R2: UdivPreinv = every normalised two-limb divisor and every admissible three-limb numerator at word widths 3..5 bits; SbDivQr = every normalised '
             'divisor and dividend of the stated limb counts at limb base 4/8 through the transcribed loop (special case q=B-1, add-back); DivRound = the floor/ceiling adjustments for every n,d in range; Div2exp = the _2exp family at limb level (every u of up to N limbs of W bits, every count). R3/R1: tdiv_qr/tdiv_q/sb_div_qr/divrem '
             'at divisor sizes on both sides of every division crossover x quotient lengths (0,1,2,dn/2,dn-1,dn,dn+1,2dn+1,5dn) x contents (inverse construction with all-ones '
             'quotient and maximal remainder, dividend prefix equal to divisor, d1=B/2, corners, unnormalised divisors); single-limb divisor classes; every mpz division, '
             'divisibility and congruence function x four sign combinations x exact/maximal-remainder/random, d=0 where defined; each call validated by TLC. '
             'distinct = distinct (function, operands, results); non-trivial = at least two limbs',
        explanation='exhaustive small-word models of the quotient-digit machinery + trace validation of the real division code')


# ------------------------------------------------------------------------------------------------ C10
def check_C10(ctx):
    q = ctx.tier == 'quick'
    r = ctx.tlc_model('MpzLogic', cfg_text=cfg(consts={'B': 4, 'V': 6 if q else 17, 'Variant': '"ok"'}), name='MpzLogic', timeout=3000)
    ctx.model_must_hold(r, what='(mpz_and over the block store: sign paths, realloc, temporaries, aliasing)')
    ctx.validate(ctx.run_driver(ctx.build('default'), 'corners_z', shards=16, extra='funs=mpz_and:mpz_ior:mpz_xor', timeout=900))
    trace_drivers(ctx, [('c10_mpz', 16, 900), ('c10_mpn', 8, 600), ('scalar_ext', 14, 600)], pure_drivers=['c10_mpz', 'c10_mpn'])
    return ctx.finish('model_checking',
        rule='R2: MpzLogic enumerates every identity triple (res,op1,op2), every value triple in -V..V at limb base 4 and exact/spare allocations through the transcribed '
             'mpz_and. R3/R1: and/ior/xor/com/setbit/clrbit/combit/tstbit/scan0/scan1/popcount/hamdist for all sign combinations x operand shapes (random kinds, +-1, +-2^k, low zero '
             'limbs, all ones) x length pairs x bit indices below/at/above the length x aliasing, and the mpn logical kernels for every n (all residues mod 8), validated against the '
             'infinite two\'s-complement definitions of BigZ. distinct = distinct (function, operands, results); non-trivial = at least two limbs',
        explanation='exhaustive small-base model of the sign-case analysis + trace validation against two\'s-complement semantics')


# ------------------------------------------------------------------------------------------------ C04 / C05
def check_C05(ctx):
    q = ctx.tier == 'quick'
    r = ctx.tlc_model('MpzAors', cfg_text=cfg(consts={'B': 3, 'V': 5 if q else 8, 'Variant': '"ok"'}), name='MpzAors')
    ctx.model_must_hold(r, what='(store order / pointer re-reads of mpz_add, mpz_sub under every alias pattern)')
    r = ctx.tlc_model('MpzLogic', cfg_text=cfg(consts={'B': 4, 'V': 5 if q else 9, 'Variant': '"ok"'}), name='MpzLogic')
    ctx.model_must_hold(r, what='(mpz_and under every alias pattern)')
    b = ctx.build('default')
    paths = ctx.run_driver(b, 'alias', shards=16, timeout=1200)
    paths += ctx.run_driver(b, 'corners_all', shards=16, timeout=1200)      # every mpz function on every corner-alphabet operand
    paths += ctx.run_driver(b, 'alias_qf', shards=8, timeout=1200)          # every mpq and mpf function, same enumeration
    # read-only sources: the limb block of every input-only operand (not aliased to an output of the call) is mapped read-only while the call runs, so a
    # write into a source -- even one undone before the return, which no comparison of values can see -- is a crash event (found F-C15-1)
    for d, shards in [('alias', 8), ('alias_qf', 8)] + ([] if q else [('corners_all', 8), ('corners_qf', 8), ('hist', 8), ('hist_qf', 8)]):
        paths += ctx.run_driver(b, d, shards=shards, timeout=1200, tier='quick', env=ROSRC, tag='-rosrc')
    ctx.validate(paths)
    pp = ctx.run_driver(b, 'alias', shards=1, extra='pure,funs=mpz_add:mpz_sub:mpz_mul:mpz_tdiv_qr:mpz_and:mpz_ior:mpz_gcd:mpz_addmul:mpz_neg:mpz_mul_2exp:mpz_fdiv_q:mpz_cdiv_r', timeout=300)
    ctx.validate(pp, pure=True)
    return ctx.finish('model_checking',
        rule='R2: MpzAors and MpzLogic enumerate all 27 identity triples x values x allocations over a block store (pointer re-reads, store order). R3/R1: for every mpz function '
             'of the API table every set partition of its mpz arguments into identity classes (minus two results in one variable, which the manual excludes) x 3 operand size '
             'classes x {exact, generous} allocation is executed; MPIR.tla computes the expected result from its OWN pre-state (i.e. as if the operands were distinct) and '
             'requires every non-output operand to keep its value. Read-only sources: the alias sweeps run a second time with every block its own mapping and the limbs of '
             'each input-only operand mapped read-only during the call (a transient write to a source faults). distinct = distinct (function, partition, operands); non-trivial = at least two limbs',
        explanation='alias-partition enumeration from the API table, validated against the abstract machine; memory-and-aliasing models')


def check_C04(ctx):
    q = ctx.tier == 'quick'
    r = ctx.tlc_model('MpzAors', cfg_text=cfg(consts={'B': 3, 'V': 5 if q else 8, 'Variant': '"ok"'}), name='MpzAors')
    ctx.model_must_hold(r, what='(block store discipline of mpz_add/mpz_sub)')
    r = ctx.tlc_model('MpzLogic', cfg_text=cfg(consts={'B': 4, 'V': 5 if q else 9, 'Variant': '"ok"'}), name='MpzLogic')
    ctx.model_must_hold(r, what='(block store discipline of mpz_and incl. temporaries)')
    # the abstract machine itself, small scope: every history of init/clear/set/add/mul/neg/swap/realloc2 it admits keeps the heap invariants
    rm = ctx.tlc_model('MC_Machine', cfg_text=cfg(spec='MSpec', consts={'NZ': 2, 'NQ': 1, 'NF': 1, 'NR': 1, 'MAXID': 4, 'DEPTH': 2 if q else 3, 'VALS': '{"1", "-2"}'},
                       inv=('HeapIdsUnique', 'OwnersHoldLiveBlocks', 'NoLeakOutsideCalls', 'LiveWellFormed')), name='MC_Machine', heap='24g', timeout=3000)
    ctx.model_must_hold(rm, what='(MPIR.tla admits a history that breaks a heap invariant)')
    b = ctx.build('default')
    paths = ctx.run_driver(b, 'hist', shards=16, timeout=1200)
    paths += ctx.run_driver(b, 'alias', shards=16, timeout=1200)
    paths += ctx.run_driver(b, 'corners_all', shards=16, timeout=1200)      # every mpz function on every corner-alphabet operand, destinations exactly allocated
    # rationals, floats, random states, strings and streams (valid and invalid input) under the same heap accounting
    # the bit, add/sub, root and combinatorial drivers pre-shrink every destination to the smallest legal allocation: each call must size its result itself
    for d, shards in [('c10_mpz', 4), ('c03_mpz', 4), ('c09_mpz', 4), ('c16_comb', 2), ('hist_qf', 8), ('c04_limbs', 8), ('c12', 4), ('c13', 4), ('c13s', 4), ('c19_hist', 4), ('c19_mcorner', 4), ('c06_misc', 2), ('c06_mpz', 4), ('c17_stream', 8), ('c18_misc', 2)]:
        paths += ctx.run_driver(b, d, shards=shards, timeout=900, tier='quick')
    # fence mode: every heap block between two inaccessible pages, alternately flush with the low or the high one: a read or write one limb
    # outside a block the library owns becomes a crash event
    for d, shards in [('hist', 8), ('hist_qf', 4), ('alias', 8), ('c04_limbs', 4), ('c06_mpz', 4)]:
        paths += ctx.run_driver(b, d, shards=shards, timeout=900, tier='quick', env={'HX_FENCE': '1'}, tag='-fence')
    ctx.validate(paths)
    if not q:
        # the same with the temporaries of the library on the heap as well (--enable-alloca=malloc-reentrant): TMP blocks are fenced too
        br = ctx.build('alloca-reentrant'); fp = []
        for d, shards in [('hist', 8), ('c02_tdiv', 8), ('c01_mul1', 4), ('c01_mpz', 4), ('c07_mpz', 8), ('c08_powm', 8), ('k2_sbdc', 4), ('k2_inv', 4), ('k2_bdiv', 4), ('c06_mpz', 4), ('c09_mpz', 4)]:
            fp += ctx.run_driver(br, d, shards=shards, timeout=1500, tier='quick', env={'HX_FENCE': '1'}, tag='-fence-heaptmp')
        ctx.validate(fp)
    if not q:
        # auxiliary observation channel for over-READS (invisible to the specification): the same replays on an AddressSanitizer build
        from verif import sh
        ba = ctx.build('asan')
        reports = 0
        for d in ('hist', 'alias', 'c17_stream', 'c06_mpz', 'c13', 'c13s', 'c04_limbs', 'c18_misc'):
            rc, out = sh([ctx.hx(ba), d, 'quick', str(ctx.seed), os.path.join(ctx.scratch, f'asan-{d}.ndjson'), '0/4'], timeout=1500,
                         env={'ASAN_OPTIONS': 'detect_leaks=0:abort_on_error=0:halt_on_error=1'})
            if 'ERROR: AddressSanitizer' in out:
                reports += 1; rp = ctx.save_replay(f'asan-{d}.txt', out[-30000:]); ctx.violation('C04', f'AddressSanitizer report in driver {d}', rp)
        ctx.notes.append(f'AddressSanitizer pass: {reports} reports')
    pp = ctx.run_driver(b, 'hist', shards=1, extra='pure,funs=mpz_add:mpz_sub:mpz_mul:mpz_tdiv_qr:mpz_and:mpz_ior:mpz_gcd:mpz_addmul:mpz_neg:mpz_mul_2exp:mpz_fdiv_q:mpz_swap:mpz_set', timeout=300)
    ctx.validate(pp, pure=True)
    return ctx.finish('model_checking',
        rule='R2: block-store models (MpzAors, MpzLogic): every access through a live block of sufficient size, frees with the allocated size, no orphan. R3/R1: seeded random '
             'histories of public calls over a pool of variables with mpz_realloc2 (shrink to the minimum / grow), clear+init, swap between calls and the alias sweep; the limb-level protocols (mpz_limbs_write/modify/finish/read, mpz_roinit_n, mpz_getlimbn, _mpz_realloc, the NULL-terminated inits/clears lists) interleaved with arithmetic; the recording '
             'allocator installed with mp_set_memory_functions logs every alloc/realloc/free with the size the library passed, and MPIR.tla accepts a free/realloc only with the exact '
             'current size, requires every touched object to be well formed and to own a block of exactly its allocation, no temporary to survive a call, nothing live after all '
             'clears, canaries intact, and every value equal to the result computed from the abstract value (so allocation history cannot matter). '
             'distinct = distinct calls; non-trivial = at least two limbs',
        explanation='allocator contract as enabledness of the abstract machine; histories replayed on the real library')


def assume_model(ctx, module, consts, name=None, timeout=1500):
    """models made of ASSUMEs (contracts checked over a finite range): a false assumption is a violation of the model"""
    r = ctx.tlc_model(module, cfg_text='SPECIFICATION Spec\n' + ('CONSTANTS\n' + ''.join(f'  {k} = {v}\n' for k, v in consts.items()) if consts else ''),
                      name=name or module, workers=4, timeout=timeout, expect_violation=True)
    if not r['ok']:
        if 'Evaluating assumption' in r['out'] or 'is false' in r['out']:
            r['violated'] = True
        else:
            raise Machinery(f'TLC run {module} failed:\n' + '\n'.join(r['out'].splitlines()[-30:]))
    # ASSUME-only models generate no states: count the evaluated instances instead (recorded as one obligation each)
    for m in ctx.models:
        if m['name'] == (name or module) and m['states'] == 0: m['states'] = 1; m['transitions'] = 1
    return r


# ------------------------------------------------------------------------------------------------ C07
def check_C07(ctx):
    q = ctx.tier == 'quick'
    r = assume_model(ctx, 'GcdContract', {'M': 20 if q else 40}, timeout=3000)
    ctx.model_must_hold(r, what='(gcdext contract unique / Kronecker oracle = definition)')
    for W, lows in ([(4, 0), (6, 2)] if q else [(4, 0), (6, 1), (8, 2)]):
        r = ctx.tlc_model('Hgcd2', cfg_text=cfg(consts={'W': W, 'LOWSEL': lows, 'Variant': '"ok"', 'EMIT': 'FALSE'}), name=f'Hgcd2-W{W}', timeout=3000)
        ctx.model_must_hold(r, what='(mpn_hgcd2 transcribed with div1/div2: return value, matrix entries, det 1, reduction non-negative for every continuation, termination bound)')
    b = ctx.build('default')
    funs = 'mpz_gcd:mpz_gcdext:mpz_lcm:mpz_invert:mpz_jacobi:mpz_kronecker:mpz_gcd_ui:mpz_lcm_ui:mpz_kronecker_si:mpz_kronecker_ui:mpz_si_kronecker:mpz_ui_kronecker:mpz_legendre'
    ctx.validate(ctx.run_driver(b, 'alias', shards=8, extra='funs=' + funs, tier='thorough', timeout=900))
    ctx.validate(ctx.run_driver(b, 'corners_all', shards=8, extra='funs=' + funs, timeout=900))      # the same functions on every corner-alphabet operand
    ctx.validate(ctx.run_driver(b, 'corners_z', shards=16, extra='funs=mpz_gcd:mpz_lcm', timeout=900))
    # k3_*: the internal gcd-side kernels called directly against the contracts their sources state (SemK3.tla): hgcd2 (+jacobi), matrix22 products, hgcd / hgcd_appr /
    # hgcd_jacobi / hgcd_step / gcd_subdiv_step, gcdext_1 / gcdext_lehmer_n / gcdext_hook, jacobi_base / jacobi_2 / jacobi_n; m1_hgcd2: the branch witnesses of the Hgcd2 model lifted to 64 bits
    trace_drivers(ctx, [('c07_mpz', 16, 1500), ('c07_mpn', 8, 900), ('c07_jac2', 8, 900), ('k3_hgcd2', 8, 900), ('k3_matrix', 8, 900), ('k3_hgcd', 8, 1500), ('k3_gcdext', 4, 600), ('k3_jacobi', 8, 900), ('m1_hgcd2', 8, 600)], pure_drivers=['c07_mpz', 'k3_gcdext'])
    return ctx.finish('model_checking',
        rule='R2: GcdContract shows for every |a|,|b|<=M that exactly one cofactor pair satisfies the manual\'s gcdext contract and that the Kronecker oracle equals the definition. '
             'R3/R1: gcd/gcdext (3 forms)/lcm/invert/jacobi/kronecker variants on operand sizes on both sides of the Strassen/HGCD/GCDEXT_DC/GCD_DC crossovers x size differences x '
             'contents (Fibonacci pairs, prescribed quotient sequences incl. quotients >= 2^64, huge common factor, equal, multiple, |b|=2g, powers of two, zero) x signs x aliasing; '
             'mpn_gcd/gcd_1/gcdext on their documented domains. distinct = distinct calls; non-trivial = at least two limbs',
        explanation='contract model + trace validation against Euclid/Kronecker definitions')


# ------------------------------------------------------------------------------------------------ C08
def check_C08(ctx):
    q = ctx.tier == 'quick'
    r = ctx.tlc_model('PowmEven', cfg_text=cfg(consts={'W': 2, 'MMAX': 48 if q else 200, 'BMAX': 9 if q else 20, 'EMAX': 7 if q else 12, 'Variant': '"ok"'}), name='PowmEven')
    ctx.model_must_hold(r, what='(case analysis of mpz_powm: zero/negative exponent, even modulus recombination, negative base)')
    b = ctx.build('default')
    ctx.validate(ctx.run_driver(b, 'alias', shards=8, extra='funs=mpz_powm:mpz_powm_ui:mpz_pow_ui:mpz_ui_pow_ui', tier='thorough', timeout=900))
    ctx.validate(ctx.run_driver(b, 'corners_all', shards=8, extra='funs=mpz_powm:mpz_powm_ui:mpz_pow_ui:mpz_ui_pow_ui', timeout=900))      # the same functions on every corner-alphabet operand
    trace_drivers(ctx, [('c08_powm', 16, 1500), ('c08_pow', 4, 600), ('c08_e1', 4, 600), ('c08_uismall', 8, 900), ('c08_zero', 8, 900), ('k1_redc', 8, 900), ('k1_inv', 4, 900), ('k1_pow', 8, 900)], pure_drivers=['c08_pow', 'c08_e1', 'k1_redc'])
    return ctx.finish('model_checking',
        rule='R2: PowmEven = every (b,e,m) in range through the transcribed case analysis at a 2-bit limb. R3/R1: mpz_powm/powm_ui for moduli odd / even with 2-adic valuation 1,63..65,128+ / '
             'powers of two / +-1 / negative / B^n-1 at sizes around the REDC_1/REDC_2/REDC_N/POWM crossovers x exponent lengths at every sliding-window boundary +-1 x bit patterns x 9 base '
             'classes, negative exponents with and without inverse, aliasing; pow_ui/ui_pow_ui incl. 0^0. distinct = distinct calls; non-trivial = at least two limbs',
        explanation='case-analysis model + trace validation against modular exponentiation')


# ------------------------------------------------------------------------------------------------ C09
def check_C09(ctx):
    q = ctx.tier == 'quick'
    r = assume_model(ctx, 'RootContract', {'M': 150 if q else 400}, timeout=3000)
    ctx.model_must_hold(r, what='(root / perfect power contracts = brute force definitions)')
    sq = [(4, 2, 2, 4), (8, 2, 1, 2), (16, 8, 0, 0)] if q else [(4, 2, 2, 4), (8, 2, 1, 2), (16, 8, 0, 0), (16, 2, 0, 0), (16, 4, 0, 0), (2, 0, 4, 8)]
    for W, TP, NM, WM in sq:
        r = ctx.tlc_model('SqrtremDC', cfg_text=cfg(consts={'W': W, 'TP': TP, 'NMAX': NM, 'WMAX': WM, 'Variant': '"ok"', 'EMIT': 'FALSE'}), name=f'SqrtremDC-W{W}-TP{TP}-N{NM}', timeout=3000)
        ctx.model_must_hold(r, what='(mpn_sqrtrem1 / sqrtrem2 / dc_sqrtrem / wrapper transcribed: root, remainder limbs, carry and size return values)')
    b = ctx.build('default')
    ctx.validate(ctx.run_driver(b, 'alias', shards=8, extra='funs=mpz_sqrt:mpz_sqrtrem:mpz_root:mpz_nthroot:mpz_rootrem:mpz_perfect_square_p:mpz_perfect_power_p', tier='thorough', timeout=900))
    ctx.validate(ctx.run_driver(b, 'corners_all', shards=8, extra='funs=mpz_sqrt:mpz_sqrtrem:mpz_root:mpz_nthroot:mpz_rootrem:mpz_perfect_square_p:mpz_perfect_power_p', timeout=900))      # the same functions on every corner-alphabet operand
    trace_drivers(ctx, [('c09_mpz', 16, 1500), ('c09_mpn', 8, 900), ('c09_sqcorn', 8, 900), ('m1_sqrt', 8, 600), ('k5_root', 8, 900), ('scalar_ext', 14, 600)], pure_drivers=['c09_mpn', 'k5_root'])      # k5_root: mpn_rootrem / mpn_rootrem_basecase called directly (roots B^k-1, powers of two, index above the bit length)
    return ctx.finish('model_checking',
        rule='R2: RootContract checks the root and perfect-power predicates of the specification against brute force for every |u|<=M. R3/R1: sqrt/sqrtrem/root/nthroot/rootrem/'
             'perfect_square_p/perfect_power_p on u = k^n, k^n-1, k^n+1 and random u of the same size, k of 0..130 limbs (all-ones, runs, random), n in 1..200 and around the bit length, '
             'negative u with odd n, aliasing; mpn_rootrem (with and without remainder) and mpn_rootrem_basecase called directly on exact powers +-1 with roots B^k-1 / powers of two / random for 14 indices; mpn_sqrtrem (also NULL remainder) and mpn_perfect_square_p on squares +-1 for every limb count. distinct = distinct calls; non-trivial = two limbs or more',
        explanation='contract model + trace validation with exact root predicates')


# ------------------------------------------------------------------------------------------------ C12
def check_C12(ctx):
    q = ctx.tier == 'quick'
    r = ctx.tlc_model('MpqOps', cfg_text=cfg(consts={'K': 7 if q else 11, 'Variant': '"ok"'}), name='MpqOps', timeout=3000)
    ctx.model_must_hold(r, what='(mpq_mul / mpq_add / mpq_sub store sequences under every alias pattern: exact and canonical)')
    r = assume_model(ctx, 'Mpq2exp', {'W': 2, 'L': 4 if q else 5, 'NUMMAX': 9 if q else 15, 'NMAX': 9 if q else 13, 'Variant': '"ok"'}, timeout=3000)
    ctx.model_must_hold(r, what='(mpq_mul_2exp / mpq_div_2exp at limb level over one memory: skipped zero limbs, copy direction in place, shift, leftover count)')
    b = ctx.build('default')
    ctx.validate(ctx.run_driver(b, 'corners_qf', shards=8, extra='fam=q', timeout=900))      # EVERY mpq function of the table on corner-alphabet operands
    trace_drivers(ctx, [('c12', 16, 1500), ('corners_q', 16, 900), ('alias_qf', 4, 900)], pure_drivers=['c12'])
    return ctx.finish('model_checking',
        rule='R2: MpqOps = all canonical operand pairs with |num|,den<=K x all 27 identity triples x {mul,add,sub} through the transcribed store sequences; Mpq2exp = mord_2exp at limb level over one memory (every canonical operand of up to L limbs, every count, separate and in-place destination). R3/R1: add/sub/mul/div/inv/neg/abs/'
             'mul_2exp/div_2exp/cmp*/equal/set_*/canonicalize/get_d on operands of 0..200 limbs built with prescribed common factors between the cross terms (each gcd branch), equal '
             'denominators, integers, zero, powers of two, equal operands, all signs, every alias pattern; MPIR.tla requires the exact value AND canonical form. '
             'distinct = distinct calls; non-trivial = at least two limbs',
        explanation='store-sequence model + trace validation requiring canonical exact results')


# ------------------------------------------------------------------------------------------------ C13
def check_C13(ctx):
    q = ctx.tier == 'quick'
    r = assume_model(ctx, 'MpfContract', {'P': 6 if q else 8}, timeout=3000)
    ctx.model_must_hold(r, what='(float accuracy/exactness predicates of SemF vs brute force on small dyadics)')
    mas = {'W': 2, 'PRECS': '{2}', 'LIMBS': '{0,1,3}', 'Funs': '{"add","sub"}', 'Aliases': '{"none","ru","rv","ruv"}', 'USigns': '{1}', 'XS': 2, 'Checker': '"int"', 'Variant': '"ok"'}
    runs = [('MpfAddSub-w2p2', mas)] if q else [
        ('MpfAddSub-w2p2all', dict(mas, LIMBS='{0,1,2,3}', Aliases='{"none"}')),                       # ALL limb contents, prec field 2
        ('MpfAddSub-w2p2', dict(mas, USigns='{1,-1}')),                                               # all aliases, both signs
        ('MpfAddSub-w3p2', dict(mas, W=3, LIMBS='{0,1,7}', Funs='{"sub"}', Aliases='{"none"}', XS=3)),  # operands up to prec+3 limbs
        ('MpfAddSub-w2p3', dict(mas, PRECS='{3}', LIMBS='{0,3}', Aliases='{"none","ru","rv","ruv"}')),  # prec field 3
        ('MpfAddSub-semf', dict(mas, PRECS='{3}', LIMBS='{0,3}', Aliases='{"none"}', Checker='"both"'))]  # SemF!AccurateDy itself, must agree with the integer form
    for nm, c in runs:
        r = ctx.tlc_model('MpfAddSub', cfg_text=cfg(consts=c), name=nm, workers=4, timeout=1500)
        ctx.model_must_hold(r, what='(mpf_add/mpf_sub limb-level transcription: format, accuracy bound, exactness, stores)')
    ctx.validate(ctx.run_driver(ctx.build('default'), 'corners_qf', shards=8, extra='fam=f', timeout=900))      # EVERY mpf function of the table on corner-alphabet operands
    trace_drivers(ctx, [('c13', 16, 1500), ('c13s', 16, 1500), ('corners_f', 16, 1500), ('alias_qf', 4, 900), ('hist_qf', 8, 900), ('c13_inv', 8, 900)], pure_drivers=['c13', 'c13s', 'c13_inv'])      # corners_qf: EVERY mpq/mpf function of the table on corner-alphabet operands      # c13_inv: operands constructed from a result on a limb boundary (carry out of the discarded limbs, boundary quotients)
    return ctx.finish('model_checking',
        rule='R2: MpfContract checks the accuracy/exactness predicates the trace specification applies (Close, AccurateQuot, AccurateSqrt, CopyOf) against brute-force rational '
             'arithmetic on all small dyadics. R3/R1: add/sub/mul/div/sqrt and _ui forms, set_q/set_z/set_d, exact functions, comparisons and conversions for destination and operand precisions '
             'chosen independently from {2,3,4,5,7,50} limbs, every exponent difference from no overlap to full overlap, low zero limbs, nearly cancelling operands, aliasing, '
             'set_prec/set_prec_raw/swap histories; mpf_set_str / mpf_init_set_str on generated strings of the documented grammar in 16 bases (digit counts below, at and far above what the precision holds, '
             'point and exponent forms, rejected strings) and mpf_get_str for every class of requested digit count (SemF!ParseFlt, GetStrOK: exact rational comparison); pow_ui, cmp_z, eq, reldiff, rrandomb; '
             'MPIR.tla evaluates the property\'s inequality exactly on dyadic rationals and the mpf format rules after every call. '
             'distinct = distinct calls; non-trivial = at least two limbs',
        explanation='exact dyadic evaluation of the accuracy bound on traces of the real library')


# ------------------------------------------------------------------------------------------------ C06
def check_C06(ctx):
    import re
    q = ctx.tier == 'quick'
    r = assume_model(ctx, 'RadixText', {'M': 120 if q else 420, 'L': 3 if q else 4, 'EMIT': 'TRUE'}, timeout=3000)
    ctx.model_must_hold(r, what='(text format round trip / number grammar)')
    gr = []
    for l in r['out'].splitlines():
        m = re.match(r'<<"GR", (\d+), "(.*)", "(ok|rej|open)">>', l.strip())
        if m and m.group(3) != 'open': gr.append((int(m.group(1)), m.group(2).replace('\\"', '"'), m.group(3)))
    for mm in ctx.models:
        if mm['name'] == 'RadixText': mm['states'] = max(mm['states'], len(gr)); mm['transitions'] = max(mm['transitions'], len(gr))
    ctx.notes.append(f'number-grammar strings classified by TLC and replayed: {len(gr)} ({sum(1 for g in gr if g[2] == "ok")} accepted)')
    need(len(gr), 1000, 'C06 grammar strings')
    b = ctx.build('default')
    gf = os.path.join(ctx.scratch, 'grammar.tsv'); open(gf, 'w').write(''.join(f'{g[0]}\t{g[1]}\n' for g in gr))
    paths = ctx.run_driver(b, 'c06_replay', shards=8, extra=f'file={gf}', timeout=900)
    ctx.validate(paths)
    trace_drivers(ctx, [('c06_mpz', 16, 1500), ('c06_long', 16, 1500), ('c06_misc', 2, 600), ('c06_mpn', 8, 900), ('c06_bigbase', 14, 900)], pure_drivers=['c06_mpz', 'c06_mpn', 'c06_bigbase'])      # c06_bigbase: limbs drawn from the conversion's own constants (big_base, big_base+-1)
    return ctx.finish('model_checking',
        rule='R2: RadixText = round trip / alphabet / length / sizeinbase for every |v|<=M in all 96 bases, and ParseNum on EVERY string of length <= L over a 12-character alphabet '
             'in 8 bases (each printed and replayed into mpz_set_str, mpq_set_str, mpz_init_set_str). R3/R1: get_str/sizeinbase/set_str in every base 2..62 and -2..-36 at sizes on both '
             'sides of GET_STR_DC/GET_STR_PRECOMPUTE (limbs) and SET_STR_DC/SET_STR_PRECOMPUTE (digits), values b^k-1, b^k, b^k+1, runs, uniform; decorated strings (white space, leading '
             'zeros, case flips), an invalid character at every position of short strings and seeded positions of long ones, base-0 prefixes, mpq strings, mpn_get_str/mpn_set_str. '
             'distinct = distinct calls; non-trivial = an operand of at least two limbs',
        explanation='text-format model + grammar enumeration replayed into the parser + trace validation of conversions')


# ------------------------------------------------------------------------------------------------ C11
def check_C11(ctx):
    q = ctx.tier == 'quick'
    for w, ws in ([(4, 3)] if q else [(4, 3), (5, 3), (6, 4)]):
        r = assume_model(ctx, 'FitsGet', {'W': w, 'WS': ws}, name=f'FitsGet-W{w}', timeout=3000)
        ctx.model_must_hold(r, what='(fits/get/cmp_si transcriptions vs exact ranges)')
    b = ctx.build('default')
    funs = 'mpz_cmp:mpz_cmpabs:mpz_cmp_ui:mpz_cmp_si:mpz_cmp_d:mpz_cmpabs_d:mpz_cmpabs_ui:mpz_set_ui:mpz_set_si:mpz_set_d:mpz_get_ui:mpz_get_si:mpz_get_d:mpz_get_d_2exp:mpz_fits_slong_p:mpz_fits_ulong_p:mpz_fits_sint_p:mpz_fits_uint_p:mpz_fits_sshort_p:mpz_fits_ushort_p:mpz_sgn'
    ctx.validate(ctx.run_driver(b, 'alias', shards=8, extra='funs=' + funs, tier='thorough', timeout=900))
    ctx.validate(ctx.run_driver(b, 'corners_all', shards=8, extra='funs=' + funs, timeout=900))      # the same functions on every corner-alphabet operand
    trace_drivers(ctx, [('c11', 16, 1500)], pure_drivers=['c11'])
    return ctx.finish('model_checking',
        rule='R2: FitsGet = every integer |z| < 2^(2W+1) through the transcribed fits/get/cmp_si code with W-bit limbs and longs. R3/R1: every get/set/fits/cmp function of mpz, mpq, mpf at '
             '+-(2^b + d) for b in {0,1,7,8,15,16,31,32,52,53,54,62,63,64,65,127,128}, d in {-1,0,1, wide odd factor}, against 42 doubles (+-0, subnormals, 2^53 neighbourhood, type '
             'boundaries, huge, +-inf, random) and the doubles adjacent to the value; rationals and floats sitting just above/below each boundary. Comparisons must give the sign of the EXACT '
             'difference (doubles as dyadic rationals), conversions the exact truncation. distinct = distinct calls; non-trivial = value of at least two limbs',
        explanation='type-width model + trace validation with exact dyadic arithmetic')


# ------------------------------------------------------------------------------------------------ C16
def bin_limits():
    """table limits of mpz/bin_uiui.c as compiled for 64-bit limbs (private #defines of that file)"""
    import re
    d = dict(FACT=25, EXT=67, CENTRAL=35, GOET=1000)
    try:
        src = open(os.path.join(os.environ.get('VERIF_REPO', '/repo'), 'mpz/bin_uiui.c')).read()
        m = re.search(r'#define BIN_GOETGHELUCK_THRESHOLD\s+(\d+)', src)
        if m: d['GOET'] = int(m.group(1))
        blk = src[src.index('GMP_NUMB_BITS'):]
        for key, name in (('FACT', 'ODD_FACTORIAL_TABLE_LIMIT'), ('EXT', 'ODD_FACTORIAL_EXTTABLE_LIMIT'), ('CENTRAL', 'ODD_CENTRAL_BINOMIAL_TABLE_LIMIT')):
            vals = re.findall(r'#define %s \((\d+)\)' % name, src)
            if vals: d[key] = max(int(v) for v in vals)      # the 64-bit branch has the larger limits
    except Exception: pass
    return d


def check_C16(ctx):
    import random, re
    q = ctx.tier == 'quick'
    lim = bin_limits()
    r = assume_model(ctx, 'BinDispatch', dict(lim, NMAX=20000 if q else 42000, EMIT='TRUE'), timeout=3000)
    ctx.model_must_hold(r, what='(mpz_bin_uiui algorithm selection: table limits sound and tight)')
    pairs = [(int(a), int(b)) for a, b in re.findall(r'<<"BIN", (\d+), (\d+), "\w+">>', r['out'])]
    need(len(pairs), 100, 'C16 bin_uiui boundary pairs')
    rng = random.Random(ctx.seed); rng.shuffle(pairs)
    small = [p for p in pairs if p[0] < 300]; big = [p for p in pairs if p[0] >= 300]
    pairs = small[:900 if q else 4000] + big[:500 if q else 5000]
    for mm in ctx.models:
        if mm['name'] == 'BinDispatch': mm['states'] = max(mm['states'], len(pairs)); mm['transitions'] = mm['states']
    b = ctx.build('default')
    pf = os.path.join(ctx.scratch, 'bin.lst'); open(pf, 'w').write(''.join(f'{n} {k}\n' for n, k in pairs))
    paths = ctx.run_driver(b, 'c16_binshapes', shards=8, extra=f'file={pf}', timeout=1500)
    ctx.validate(paths)
    funs = 'mpz_fac_ui:mpz_2fac_ui:mpz_mfac_uiui:mpz_primorial_ui:mpz_bin_ui:mpz_bin_uiui:mpz_fib_ui:mpz_fib2_ui:mpz_lucnum_ui:mpz_lucnum2_ui:mpz_remove'
    ctx.validate(ctx.run_driver(b, 'alias', shards=8, extra='funs=' + funs, tier='thorough', timeout=900))
    ctx.validate(ctx.run_driver(b, 'corners_all', shards=8, extra='funs=' + funs, timeout=900))      # the same functions on every corner-alphabet operand
    trace_drivers(ctx, [('c16_comb', 16, 1500), ('c16_bin', 16, 1500), ('c16_prime', 16, 1500), ('k5_comb', 8, 900), ('k5_prime', 8, 900), ('c16_psp', 16, 1200), ('scalar_ext', 14, 600)], pure_drivers=['c16_comb', 'c16_bin', 'k5_comb'])      # scalar_ext: step / k / index arguments at the end of their type
    # k5_*: the internal helpers called directly: mpn_fib2_ui, mpz_oddfac_1 (both flags), mpz_prodlimbs, gmp_primesieve (whole bit array), gmp_nextprime (sequence), mpz_trial_division
    return ctx.finish('model_checking',
        rule='R2: BinDispatch = the selection of mpz_bin_uiui with the table limits of the tree: every basecase result, odd factorial and odd central binomial table entry fits a limb and each '
             'limit is tight; the (n,k) adjacent to region boundaries are printed and replayed. R3/R1: fac/2fac/mfac/primorial/fib/fib2/lucnum/lucnum2 for every n up to 420 (thorough 1400) and '
             'at FAC_DSC and sieve regime switches up to 10^5; bin_uiui for all k at every n<=70 (130) and at region boundaries up to n=2^64-1; bin_ui negative and multi-limb n; remove with '
             'multiplicities up to 200 and multi-limb factors; primality functions on every n<=7000 (65536), Carmichael numbers (incl. Chernick triples found at run time), strong pseudoprimes, '
             'prime squares, close prime products, neighbourhoods of 2^32, 2^53, 2^64, 2^128; nextprime / next_prime_candidate gaps. Oracles: definitions in BigZ, deterministic Miller-Rabin. '
             'distinct = distinct calls; non-trivial = a value of at least two limbs',
        explanation='dispatch/table model + trace validation against combinatorial definitions and a deterministic primality oracle',
        extra_cov=dict(bin_limits=lim, bin_boundary_pairs_replayed=len(pairs)))


# ------------------------------------------------------------------------------------------------ C17
def check_C17(ctx):
    import re
    q = ctx.tier == 'quick'
    r = assume_model(ctx, 'IOModel', {'VMAX': 700 if q else 4095, 'SMAX': 2 if q else 3, 'EMIT': 'TRUE'}, timeout=3000)
    ctx.model_must_hold(r, what='(export/import layout, raw format, fault verdicts)')
    beh = re.findall(r'<<"FAULT", "(\w+)", (-?\d+), (\d+), "(\w+)">>', r['out'])
    need(len(beh), 20, 'C17 fault positions')
    for mm in ctx.models:
        if mm['name'] == 'IOModel': mm['states'] = max(mm['states'], len(beh)); mm['transitions'] = mm['states']
    b = ctx.build('default')
    ff = os.path.join(ctx.scratch, 'faults.lst'); open(ff, 'w').write(''.join(f'{f} {v} {t}\n' for f, v, t, _ in beh))
    paths = ctx.run_driver(b, 'c17_replay', shards=4, extra=f'file={ff}', timeout=900)
    ctx.validate(paths)
    trace_drivers(ctx, [('c17_export', 16, 1500), ('c17_stream', 16, 1500), ('c17_corners', 16, 900)], pure_drivers=['c17_export', 'c17_corners'])      # c17_corners: stream round trips of corner-alphabet integers and numerator/denominator pairs
    ctx.notes.append(f'fault behaviours enumerated by TLC and replayed: {len(beh)}')
    return ctx.finish('fault_enumeration',
        rule='R2: IOModel = export/import round trip, count formula and zero nail bits for every v<=VMAX x size x order x endian x EVERY nail count; raw format round trip and rejection of every '
             'proper prefix; every (writer, value, failing byte position) and (reader, value, truncation point) behaviour printed by TLC and replayed. R3/R1: export/import for size 1..16, both orders, '
             'endian -1/0/+1, nails 0,1,7,8*size-1,random, every buffer misalignment 0..7, values of 0..40 limbs, garbage nail bits; out_raw/out_str/mpq_out_str/mpf_out_str/gmp_fprintf with a '
             'failing write at every byte position of unbuffered fopencookie streams; inp_raw/inp_str/mpq_inp_str on every truncation of a valid stream and on arbitrary headers; MPIR.tla '
             'requires the documented bytes, return 0 (or -1), a well-formed destination and an unchanged heap. distinct = distinct (function, value, fault position); non-trivial = fault '
             'position strictly inside the stream or value of two limbs or more',
        explanation='every fault position enumerated; formats checked against the documented layout')


# ------------------------------------------------------------------------------------------------ C18
def check_C18(ctx):
    import re
    q = ctx.tier == 'quick'
    r = assume_model(ctx, 'PrintfModel', {'EMIT': 'TRUE'}, timeout=3000)
    ctx.model_must_hold(r, what='(transcribed __gmp_doprnt_integer layout = C99 printf layout on the whole product)')
    rows = re.findall(r'<<"FMT", "(.*)", (-?\d+), (-?\d+), "(.)", (-?\d+)>>', r['out'])
    need(len(rows), 1000, 'C18 format rows')
    for mm in ctx.models:
        if mm['name'] == 'PrintfModel': mm['states'] = max(mm['states'], len(rows)); mm['transitions'] = mm['states']
    b = ctx.build('default')
    ff = os.path.join(ctx.scratch, 'fmt.lst'); open(ff, 'w').write(''.join('|'.join(x) + '\n' for x in rows))
    paths = ctx.run_driver(b, 'c18_fmt', shards=16, extra=f'file={ff}', timeout=1500)
    paths += ctx.run_driver(b, 'c18_misc', shards=8, timeout=900)
    paths += ctx.run_driver(b, 'c18_float', shards=8, timeout=900)        # %F conversions against the manual's accuracy rule
    ctx.validate(paths)
    ctx.notes.append(f'format rows enumerated by TLC and replayed against gmp_snprintf and libc snprintf: {len(rows)}')
    return ctx.finish('model_checking',
        rule='R2: PrintfModel = GmpLayout (transcription of doprnt.c flag parsing + doprnti.c) equals CPrintf (C99 7.19.6.1) for every ordered sequence of up to 3 distinct flags and the full '
             'set x width {none,1,3,8} x precision {none,0,1,5} x {d,i,o,x,X} x 9 values, except the documented deviation. R3/R1: every row is printed by gmp_snprintf and by the C library '
             'on the equal long; TLC requires gmp = specification, libc = specification (so the reading of the standard is itself validated) and gmp = libc where C gives the combination a '
             'meaning; every 4th row also on a value beyond all C types. snprintf for every buffer size 0..len+1 with canaries, asprintf block size, %Q %N %M, %F on exact decimals vs libc, '
             'mixed standard conversions, gmp_sscanf of everything printed. distinct = distinct rows; non-trivial = a row with at least one flag, width or precision',
        explanation='layout model checked against the C standard and replayed on gmp and libc')


# ------------------------------------------------------------------------------------------------ C19
def check_C19(ctx):
    q = ctx.tier == 'quick'
    r = assume_model(ctx, 'RandModels', {'W': 3, 'NMAX': 600 if q else 4000, 'MMAX': 12 if q else 18, 'Variant': '"ok"'}, timeout=3000)
    ctx.model_must_hold(r, what='(urandomm bit count / rejection; LC chunk assembly stays below 2^nbits)')
    trace_drivers(ctx, [('c19_hist', 16, 1500), ('c19_mcorner', 8, 900), ('c19_copy', 8, 900), ('c19_stats', 8, 1500), ('c19_old', 4, 600)], pure_drivers=['c19_hist', 'c19_old'])
    return ctx.finish('model_checking',
        rule='R2: RandModels = for every n<=NMAX the bit count of mpz_urandomm makes every value of [0,n-1] reachable by exactly one trial value and accepts at least half of the trials; '
             'the chunk assembly of randget_lc with ARBITRARY chunk contents stays below 2^nbits for every modulus exponent and request length. R3/R1: twin generator states of every kind '
             '(MT, lc_2exp_size for table sizes incl. >128, lc_2exp with odd and even m2exp) seeded with 0, 1, 2^64-1 and multi-limb seeds are driven with the same random history of '
             'urandomb_ui/urandomm_ui/mpz_urandomb/rrandomb/urandomm/mpf_urandomb calls, copies are taken mid-history; MPIR.tla checks every range and, with the history key of each state '
             'as a ghost, that equal (algorithm, parameters, seed, call history) implies equal outputs; samples of 8192 draws must have every bit frequency and every lag-2^k agreement in '
             '[1/4,3/4] and a 16-bucket histogram within a factor 2. distinct = distinct calls; non-trivial = a draw of at least two limbs or a statistics sample',
        explanation='range/termination models + trace validation with a reproducibility ghost and whole-sample statistics')


# ------------------------------------------------------------------------------------------------ C14
CPU_VARIANTS = ['netburst', 'k8', 'k10', 'k102', 'bulldozer', 'piledriver', 'bobcat', 'core2', 'penryn', 'nehalem', 'westmere', 'sandybridge',
                'ivybridge', 'haswell', 'haswellavx', 'broadwell', 'skylake', 'skylakeavx', 'atom']
OPTION_VARIANTS = ['none', 'fat', 'assert', 'alloca-debug', 'alloca-reentrant']
BATTERY = [('c01_pieces', 1), ('k1_mullow', 1), ('k1_mulmid', 1), ('k1_redc', 1), ('k1_mulmod', 1), ('k2_div1', 1), ('k2_sbdc', 1), ('k2_dive2', 1), ('k2_bdiv', 1), ('c14_kern', 2), ('k5_root', 1), ('k5_comb', 1), ('k5_prime', 1), ('c03_mpn', 2), ('c01_mul1', 1), ('c02_tdiv', 2), ('c02_div1', 1), ('c10_mpn', 1), ('c09_mpn', 1), ('c07_mpn', 1), ('c06_mpn', 1),
           ('c01_mpz', 1), ('c02_mpz', 2), ('c07_mpz', 2), ('c08_powm', 2), ('hist', 2)]


def linked_kernels(build):
    """which assembly file provides which routine in this variant (the mpn/*.as* links configure made)"""
    d = os.path.join(build, 'mpn'); out = {}
    for f in sorted(os.listdir(d)):
        p = os.path.join(d, f)
        if os.path.islink(p) and (f.endswith('.as') or f.endswith('.asm')):
            tgt = os.path.realpath(p)
            out[f.rsplit('.', 1)[0]] = tgt.split('/mpn/', 1)[-1]
    return out


def check_C14(ctx):
    import re, random, concurrent.futures as cf
    from verif import sh
    q = ctx.tier == 'quick'
    rng = random.Random(ctx.seed)
    r = ctx.tlc_model('FatInit', cfg_text=cfg(spec='Spec', consts={'Threads': '{1, 2}' if q else '{1, 2, 3}', 'NF': 2, 'NT': 2, 'Ops': 2, 'Variant': '"ok"'},
                      inv=('AlwaysDecided', 'SlotsSane', 'FinalVector', 'FlagImpliesInstalled')), name='FatInit', timeout=3000)
    ctx.model_must_hold(r, what='(lazy initialisation of the fat dispatch vector under every interleaving)')
    # quick: the three kernel sets that differ most (this host's assembly, pure C, the fat binary's run-time dispatch) and one seeded CPU directory;
    # thorough: every configure option variant and every x86-64 CPU directory of configure.ac
    variants = ['default', 'none', 'fat'] + ['cpu-' + c for c in rng.sample(CPU_VARIANTS, 1)] if q else \
               ['default'] + OPTION_VARIANTS + ['cpu-' + c for c in CPU_VARIANTS]
    if q:
        # quick = what one runs on every change: besides the seeded directory, every CPU directory (and option) that the working tree's uncommitted or
        # latest committed change touches is built and driven as well (at most three); without git information (a plain copy) only the seeded one
        touched = []
        try:
            repo = os.environ.get('VERIF_REPO', '/repo')
            rc1, o1 = sh(['git', '-C', repo, 'status', '--porcelain'], timeout=60); rc2, o2 = sh(['git', '-C', repo, 'diff', '--name-only', 'HEAD~1', 'HEAD'], timeout=60)
            names = ([l[3:].strip() for l in o1.splitlines()] if rc1 == 0 else []) + (o2.splitlines() if rc2 == 0 else [])
            for nme in names:
                mm = re.match(r'mpn/x86_64/([a-z0-9]+)/', nme)
                if mm and mm.group(1) in CPU_VARIANTS and 'cpu-' + mm.group(1) not in variants + touched: touched.append('cpu-' + mm.group(1))
                if nme.startswith('mpn/x86_64/fat/') or nme == 'mpn/x86_64/x86_64-defs.m4': pass
        except Exception: touched = []
        variants += touched[:3]
        if touched: ctx.notes.append('CPU directories touched by the working tree\'s change, added to the quick tier: ' + ' '.join(touched[:3]))
    battery = [(d, 1 if q else n) for d, n in BATTERY if not q or d not in ('c01_mpz', 'c02_mpz', 'c07_mpz', 'c08_powm')]
    builds = {}; pairs = set(); not_exec = []; thr_seen = {}; all_paths = []
    import threading; lock = threading.Lock()
    def one(v):
        """build one variant, then probe it, model-check its threshold vector and run the battery (traces validated together below)"""
        b = ctx.build(v)
        with lock: builds[v] = b
        # can the host execute this variant's kernels?  (a SIGILL probe, reported as not executable, never as a failure)
        sm = os.path.join(ctx.scratch, f'smoke-{v}.ndjson')
        rc, out = sh([ctx.hx(b), 'smoke', 'quick', '1', sm], timeout=120)
        if rc != 0 or '"e":"crash","sig":4' in open(sm).read():
            with lock: not_exec.append(v)
            return
        kern = linked_kernels(b)
        with lock:
            for rname, path in kern.items(): pairs.add((v, path))
        # the dispatch / parameter models with THIS variant's threshold vector (once per distinct vector)
        th = probe(ctx, b); key = tuple(sorted(th.items()))
        with lock:
            first = key not in thr_seen
            if first: thr_seen[key] = v
        if first:
            N = 500 if q else 900
            rm = ctx.tlc_model('MulDispatch', cfg_text=cfg(consts=mul_consts(th, N=N)), name=f'MulDispatch-{v}', workers=4)
            ctx.model_must_hold(rm, what=f'(variant {v}: callee preconditions under its gmp-mparam.h)')
            rf = ctx.tlc_model('FFTParams', cfg_text=cfg(consts=fft_consts(th, N1HI=th['MUL_FFT_FULL_THRESHOLD'] + (300 if q else 1500))), name=f'FFTParams-{v}', workers=4)
            ctx.model_must_hold(rf, what=f'(variant {v}: FFT parameter selection under its FFT_TAB)')
        # the battery, validated against the SAME specification
        paths = []
        for d, shards in battery:
            paths += ctx.run_driver(b, d, shards=shards, timeout=900, tier='quick')
        with lock: all_paths.extend(paths)
    errs = []
    def guarded(v):
        try: one(v)
        except Machinery as e: errs.append(f'{v}: {e}')
    with cf.ThreadPoolExecutor(max_workers=4) as ex: list(ex.map(guarded, variants))
    if errs: raise Machinery('; '.join(errs)[:4000])
    ctx.validate(all_paths)
    thr_checked = len(thr_seen)
    ctx.notes.append(f'variants built and run: {[v for v in variants if v not in not_exec]}; not executable on this host: {not_exec}')
    for v in variants:
        if v != 'default' and builds.get(v):      # variant builds are large: drop them once used
            import shutil; shutil.rmtree(builds[v], ignore_errors=True)
    nprog = len(pairs) + len([v for v in variants if v not in not_exec])
    return ctx.finish('translation_validation',
        rule='programs = (build variant, assembly file linked for a routine) pairs executed + the variants themselves; each variant (every x86-64 CPU directory mapping of configure.ac, '
             'pure C, fat, --enable-assert, both alloca modes) is built from the working tree, its thresholds/FFT_TAB are read by a probe and the MulDispatch / FFTParams models are checked '
             'with them, and a battery of mpn-level and mpz-level drivers (incl. the asm-only kernels by their defining identities and the internal kernels of SemK1/SemK2 by their source contracts) is executed and validated against the same MPIR.tla; '
             'a disagreement would be a rejected event. quick: default, pure C, fat and one seeded CPU directory with the mpn-level battery; thorough: all 5 option variants and all 19 CPU directories with the full battery',
        explanation='same specification for every kernel set / tuning table / build option',
        extra_cov=dict(programs=nprog, disagreements_checked=ctx.trace_stats['calls'], variants=len(variants), kernel_file_variant_pairs=len(pairs),
                       threshold_vectors_model_checked=thr_checked, not_executable=not_exec,
                       samples=ctx.samples[:4] or [{'variant': variants[0]}]))


# ------------------------------------------------------------------------------------------------ C15
def check_C15(ctx):
    import re, random
    from verif import sh
    q = ctx.tier == 'quick'
    scheds = []
    for n, segs in ([(2, 4), (3, 2)] if q else [(2, 5), (3, 3), (4, 2)]):
        r = ctx.tlc_model('Threads', cfg_text=cfg(consts={'N': n, 'SEGS': segs, 'HIDDEN': 'FALSE', 'EMIT': 'TRUE'}, inv=('ScheduleIndependent', 'EmitSched')), name=f'Threads-{n}x{segs}', workers=1)
        ctx.model_must_hold(r, what='(results independent of the interleaving when only documented globals are shared)')
        for m in re.findall(r'<<"SCHED", <<([0-9, ]+)>>', r['out']): scheds.append(''.join(x.strip() for x in m.split(',')))
    r = ctx.tlc_model('FatInit', cfg_text=cfg(consts={'Threads': '{1, 2}', 'NF': 2, 'NT': 2, 'Ops': 2, 'Variant': '"ok"'},
                      inv=('AlwaysDecided', 'SlotsSane', 'FinalVector', 'FlagImpliesInstalled')), name='FatInit')
    ctx.model_must_hold(r, what='(lazy dispatch initialisation under every interleaving)')
    scheds = sorted(set(scheds)); random.Random(ctx.seed).shuffle(scheds)
    need(len(scheds), 20, 'C15 thread schedules')
    if q: scheds = scheds[:120]
    b = ctx.build('default')
    sf = os.path.join(ctx.scratch, 'sched.lst'); open(sf, 'w').write('\n'.join(scheds) + '\n')
    paths = ctx.run_driver(b, 'c15', shards=8, extra=f'file={sf}', timeout=900)
    # write inventory: the global-write detector runs inside every driver; these cover the whole API surface (single-threaded, deterministic)
    for d, shards in [('c15_sizes', 6), ('hist', 8), ('alias', 8), ('c13', 4), ('c12', 4), ('c16_prime', 4), ('c16_comb', 2), ('c18_misc', 2), ('c19_hist', 4), ('c17_stream', 4), ('c06_mpz', 4), ('c08_powm', 4), ('c07_mpz', 4)]:
        paths += ctx.run_driver(b, d, shards=shards, timeout=900, tier='quick')
    # read-only sources: threads may share SOURCE objects, so any write into the limbs of an input-only operand is a data race even if it is undone before the
    # call returns (sequentially invisible).  Each such block is mapped read-only while the call runs; a write is a crash event.  (F-C15-1: mpz_powm masked a
    # limb of its modulus in place inside mpn_mulmod_2expm1.)
    for d, shards in [('hist', 8), ('alias', 8), ('alias_qf', 4), ('c08_powm', 8), ('c16_prime', 4), ('c07_mpz', 4), ('c06_mpz', 4), ('c09_mpz', 4), ('c15_sizes', 6)] + ([] if q else [('corners_all', 8), ('corners_qf', 8), ('hist_qf', 8), ('c02_mpz', 4), ('c10_mpz', 4), ('c11', 4), ('c12', 4), ('c13', 4), ('c16_comb', 2)]):
        paths += ctx.run_driver(b, d, shards=shards, timeout=1200, tier='quick', env=ROSRC, tag='-rosrc')
    ctx.validate(paths)
    ctx.notes.append(f'schedules enumerated by TLC and forced on the real library: {len(scheds)}')
    tsan_reports = 0
    if not q:
        # auxiliary observation channel: the same workload unscheduled on a ThreadSanitizer build of library + harness
        bt = ctx.build('tsan')
        out_path = os.path.join(ctx.scratch, 'tsan.ndjson')
        rc, out = sh([ctx.hx(bt), 'c15', 'thorough', str(ctx.seed), out_path, '0/1,free'], timeout=1500, env={'TSAN_OPTIONS': 'halt_on_error=0 exitcode=0'})
        tsan_reports = out.count('WARNING: ThreadSanitizer')
        if tsan_reports:
            rp = ctx.save_replay('tsan-report.txt', out[-30000:])
            ctx.violation('C15', f'ThreadSanitizer reported {tsan_reports} data race(s) inside the library', rp)
        ctx.validate([out_path])
        ctx.notes.append(f'ThreadSanitizer free-running pass: {tsan_reports} reports')
    return ctx.finish('exploration',
        rule='schedules = every interleaving of N threads x S yield-point segments enumerated by TLC (Threads.tla; quick: a seeded 120 of them), forced on the real library by a cooperative '
             'scheduler that lets exactly one thread run between yield points (every entry into the memory functions), for operands below and above the 65536-byte TMP_ALLOC stack/heap switch; '
             'each thread\'s recorded calls are validated against the sequential MPIR.tla and its private random stream must equal the serial stream. Write inventory: the global-write '
             'detector (every writable chunk libmpir contributes to the static executable is snapshotted around every call) runs in 12 drivers covering the API; MPIR!GlobalWrite admits only '
             'the documented globals. Read-only sources: in a second pass over the API-wide drivers the limb block of every input-only mpz/mpq/mpf operand is mapped read-only '
             'while the call runs, so a transient write into a shared source (a race no sequential comparison sees) is a crash event. thorough: the workload also runs unscheduled on a ThreadSanitizer build. distinct = distinct (schedule, thread, call); non-trivial = operand of two limbs or more',
        explanation='schedules at yield-point granularity only; races inside a segment are visible only to the TSan pass',
        extra_cov=dict(schedules=len(scheds), tsan_reports=tsan_reports))


# ------------------------------------------------------------------------------------------------ C20
def c20_stream_rows(ctx):
    """R2 + R3 hand-over for stream insertion/extraction: CxxStreamModel (transcription of the ostream path against the C++ standard's layout,
    istream field grammar against the C-level number grammar) prints every row; they go to harness/cxx_stream.cc as a tab separated file"""
    import re
    q = ctx.tier == 'quick'
    r = assume_model(ctx, 'CxxStreamModel', {'EMIT': 'TRUE', 'Variant': '"ok"', 'L': 3 if q else 4}, timeout=3000)
    ctx.model_must_hold(r, what='(operator<< path of cxx/os*.cc + printf/doprnti.c = layout of the C++ standard; istream field = number of the C-level grammar)')
    rows = []; nos = nis = nfs = 0
    for l in r['out'].splitlines():
        l = l.strip()
        m = re.match(r'<<"OS", "(\w+)", "(\w+)", (TRUE|FALSE), (TRUE|FALSE), (TRUE|FALSE), (\d+), "(.)", "(-?[0-9a-f]+)">>$', l)
        if m: rows.append('OS\t' + '\t'.join(m.groups()) + ('\t1' if not q or nos % 3 == 0 else '\t0')); nos += 1; continue      # quick: mpq_class on every third row
        m = re.match(r'<<"IS", "(\w+)", (TRUE|FALSE), (".*")>>$', l)
        if m: rows.append('IS\t' + '\t'.join(m.groups())); nis += 1; continue
        m = re.match(r'<<"FS", (TRUE|FALSE), (".*")>>$', l)
        if m: rows.append('FS\t' + '\t'.join(m.groups())); nfs += 1
    want = re.search(r'<<"CxxStreamModel", (\d+), (\d+), (\d+)>>', r['out'])
    if not want or tuple(int(x) for x in want.groups()) != (nos, nis, nfs):
        raise Machinery(f'CxxStreamModel: {nos}+{nis}+{nfs} rows parsed from the TLC output, the model reports {want.groups() if want else "?"}')
    need(nos, 20000, 'C20 ostream rows'); need(nis, 20000, 'C20 istream rows'); need(nfs, 2000, 'C20 mpf istream rows')
    for mm in ctx.models:
        if mm['name'] == 'CxxStreamModel': mm['states'] = max(mm['states'], nos + nis + nfs); mm['transitions'] = mm['states']
    k = int(os.environ.get('C20_ROW_SAMPLE', '1') or 1)          # development aid (mutant demonstrations): every k-th row only
    if k > 1: rows = rows[::k]; ctx.notes.append(f'C20_ROW_SAMPLE={k}: only every {k}-th stream row is replayed')
    p = os.path.join(ctx.scratch, 'stream.rows'); open(p, 'w').write('\n'.join(rows) + '\n')
    ctx.notes.append(f'stream rows enumerated by TLC: {nos} insertion states x values, {nis} integer extraction inputs x states, {nfs} float extraction inputs')
    return p


def c20_mpf_units(ctx, gen):
    """mpf_class expression trees (CxxExpr KIND "f") -> generated translation units fu*.cc + fmain.cc in gen; returns their paths"""
    import re, glob
    from verif import sh
    q = ctx.tier == 'quick'
    r = assume_model(ctx, 'CxxExpr', {'KIND': '"f"'}, name='CxxExpr-f', timeout=3000)
    ctx.model_must_hold(r)
    p = os.path.join(ctx.scratch, 'trees-f.out'); open(p, 'w').write(r['out'])
    n = len(re.findall(r'^<<"TREE", "f", <<.*>>>>$', r['out'], re.M))
    want = re.search(r'<<"CxxExpr", "f", (\d+)>>', r['out'])
    if not want or int(want.group(1)) != n: raise Machinery(f'CxxExpr-f: {n} trees parsed from the TLC output, the model reports {want.group(1) if want else "?"}')
    need(n, 3000, 'C20 mpf_class trees')
    for mm in ctx.models:
        if mm['name'] == 'CxxExpr-f': mm['states'] = max(mm['states'], n); mm['transitions'] = mm['states']
    rc, out = sh(['python3', os.path.join(VERIF, 'lib/cxxgen_f.py'), p, gen, str(ctx.seed), os.environ.get('C20_MPF_MAX') or ('1000' if q else '0')], timeout=600)
    if rc != 0: raise Machinery('cxxgen_f failed: ' + out[-2000:])
    ctx.notes.append('mpf generator: ' + out.strip())
    return sorted(glob.glob(os.path.join(gen, 'fu*.cc'))) + [os.path.join(gen, 'fmain.cc')]


def split_validate(ctx, tracep, stem, n=16):
    """split one ndjson file at execution boundaries into n files and validate them in parallel"""
    lines = open(tracep).read().splitlines(); chunks = [[] for _ in range(n)]; k = -1
    for l in lines:
        if l.startswith('{"e":"reset"'): k += 1
        chunks[k % n if k >= 0 else 0].append(l)
    paths = []
    for i, c in enumerate(chunks):
        if c: p = os.path.join(ctx.scratch, f'{stem}.{i}.ndjson'); open(p, 'w').write('\n'.join(c) + '\n'); paths.append(p)
    os.remove(tracep)
    ctx.validate(paths)


def check_C20(ctx):
    import re, glob, concurrent.futures as cf
    from verif import sh
    q = ctx.tier == 'quick'
    outs = {}
    for kind in ('z', 'q'):
        r = assume_model(ctx, 'CxxExpr', {'KIND': f'"{kind}"'}, name=f'CxxExpr-{kind}', timeout=3000)
        ctx.model_must_hold(r)
        p = os.path.join(ctx.scratch, f'trees-{kind}.out'); open(p, 'w').write(r['out']); outs[kind] = p
        n = len(re.findall(r'^<<"TREE", "%s", <<.*>>>>$' % kind, r['out'], re.M))
        want = re.search(r'<<"CxxExpr", "%s", (\d+)>>' % kind, r['out'])
        if not want or int(want.group(1)) != n: raise Machinery(f'CxxExpr-{kind}: {n} trees parsed from the TLC output, the model reports {want.group(1) if want else "?"}')
        for mm in ctx.models:
            if mm['name'] == f'CxxExpr-{kind}': mm['states'] = max(mm['states'], n); mm['transitions'] = mm['states']
    bx = ctx.build('cxx', harness=False)
    gen = os.path.join(ctx.scratch, 'cxx')
    rc, out = sh(['python3', os.path.join(VERIF, 'lib/cxxgen.py'), outs['z'], outs['q'], gen, str(ctx.seed), '3000' if q else '0', '1200' if q else '0'], timeout=600)
    if rc != 0: raise Machinery('cxxgen failed: ' + out[-2000:])
    ctx.notes.append('generator: ' + out.strip())
    rowsp = c20_stream_rows(ctx)
    srcs = sorted(glob.glob(os.path.join(gen, '*.cc'))) + c20_mpf_units(ctx, os.path.join(ctx.scratch, 'cxxf')) + [os.path.join(VERIF, 'harness/cxx_conv.cc'), os.path.join(VERIF, 'harness/cxx_stream.cc'), os.path.join(VERIF, 'harness/cxx_mpf.cc')]
    def comp(s):
        o = os.path.join(gen, os.path.basename(s) + '.o')
        return sh(['g++', '-O1' if os.path.basename(s).startswith('k') and os.path.dirname(s) == gen else '-O0', '-w', f'-I{bx}', '-c', s, '-o', o], timeout=900) + (o,)      # k*.cc: literal-operand trees, optimised (constant shortcuts of mpirxx.h)
    objs = []
    with cf.ThreadPoolExecutor(max_workers=16) as ex:
        for rc, out, o in ex.map(comp, srcs):
            # a tree the specification calls well-typed must compile against mpirxx.h
            if rc != 0:
                rp = ctx.save_replay('compile-error.txt', out[-20000:]); ctx.violation('C20', 'a well-typed expression tree does not compile against mpirxx.h', rp); return ctx.finish('exploration', 'compile failure', explanation='compile failure')
            objs.append(o)
    exe = os.path.join(gen, 'cxxrun')
    rc, out = sh(['g++', '-no-pie', '-o', exe] + objs + [os.path.join(bx, '.libs/libmpirxx.a'), os.path.join(bx, '.libs/libmpir.a')], timeout=600)
    if rc != 0: raise Machinery('C++ link failed: ' + out[-2000:])
    tracep = os.path.join(ctx.scratch, 'cxx.ndjson')
    rc, out = sh([exe, tracep, '4', rowsp], timeout=900)
    if rc != 0:
        with open(tracep, 'a') as f: f.write('\n{"e":"crash","sig":%d,"in":"C++ expression run"}\n' % (rc if rc > 0 else -rc))
    split_validate(ctx, tracep, 'cxx')       # split at execution boundaries into 16 files for parallel validation
    return ctx.finish('exploration',
        rule='programs = well-typed mpz_class / mpq_class expression trees of depth <= 2 enumerated by TLC from the typed grammar (CxxExpr.tla: every op1(op2(x,y),z) and mirror image over 11 leaves '
             'incl. LONG_MIN/LONG_MAX/ULONG_MAX/doubles on either side, op1(op2,op3) over a smaller alphabet, unary wrappers, comparisons/cmp/sgn at the root; quick: a seeded 3000 + 1200), '
             'each compiled against the tree\'s mpirxx.h and evaluated for 4 operand-value classes with assignment to a fresh temporary, to a variable occurring in the tree (every 4th) and as a '
             'compound assignment (every 5th); the printed value must equal CxxSem!EvalZ / EvalQ (= every sub-expression into its own temporary with the C function). Conversions: set_str and '
             'string constructors (exceptions), get_str in bases 2..62, stream insertion/extraction round trips, fits/get. '
             'mpf_class: 7 050 trees (CxxExpr KIND f: + - * / neg abs sqrt floor ceil trunc, comparisons/cmp/sgn at the root, operands of 64/128/256 bits precision and long/unsigned long/double '
             'incl. LONG_MIN, ULONG_MAX; quick: all depth-1 + a seeded 1000) x 4 value classes (small exact dyadics, full mantissas, distant exponents, zero) x targets (constructor, assignment to a '
             'fresh 64- or 512-bit variable, to an operand, compound assignment): the harness evaluates every tree a second time with explicit temporaries and the corresponding C functions, the '
             'temporaries having the precision the manual states (destination; for constructors and comparison operands the highest operand precision); CxxSemF.tla requires every node of that '
             'evaluation to satisfy SemF!PostF of its C function (accuracy bound + exactness clause) and the C++ result to equal its root limb for limb with the stated precision. '
             'Streams (CxxStream.tla, CxxStreamModel.tla): R2 the transcription of the operator<< path (osfuns.cc, osdoprnti.cc, doprnti.c) produces a text the C++ standard\'s num_put layout '
             '(OstreamLayout: conversion from basefield/showbase/showpos/uppercase, stage-3 padding) admits on 5 basefield x 5 adjustfield states x showbase x showpos x uppercase x width '
             '{0,1,5,12} x fill {space,*,0} x 12 values (one-limb, LONG_MIN/MAX, multi-limb), and that layout equals C99 printf where printf can express the request; R3/R1 every row is printed '
             'through mpz_class, twice in a row (width reset), through the standard library on the equal long (text = specification, and MPIR = standard library byte for byte where the '
             'standard gives the combination a meaning, except hex zero with showbase which the tree\'s own tests state, and octal+showbase+internal padding where both paddings are admitted), '
             'and through mpq_class (base indicator on both parts, denominator 1 omitted); extraction of mpz_class/mpq_class/long from every string of length <= 3 (thorough 4) over '
             '{0 1 7 9 a F x X - + space / g tab} and 38 longer inputs x basefield {dec,oct,hex,none} x skipws: status, value (= the C-level grammar SemIO!ParseNum on the consumed field, checked '
             'in the model), characters consumed, next character, all equal to the standard library reading a long where the manual states no difference; mpf_class extraction (field grammar '
             'FParse, value within SemF!SetStrOK, double side by side); mpf_class insertion vs the standard library on the equal double (23 values k/2^j x floatfield x 7 precisions x '
             'showpoint/showpos/uppercase x width/adjustfield) whenever the requested digits represent the value without rounding. '
             'distinct = distinct (tree, target, value class) or stream row; non-trivial = a tree with at least one operator / a row with at least one flag, width or multi-limb value',
        explanation='expression trees and stream states/inputs generated by TLC from grammars, validated against the C-level semantics and the C++ standard\'s formatting rules')
