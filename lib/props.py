"""Per-property checks.  Each check_Cxx(ctx): R2 models (TLC, exhaustive), R3 drivers on a scratch build of /repo's
working tree, R1 validation of the recorded traces against MPIR.tla, evidence."""
import os, json
from verif import Ctx, Machinery, VERIF, SPEC


def cfg(spec='Spec', consts=None, inv=('Correct',), extra=''):
    c = f'SPECIFICATION {spec}\n'
    if consts: c += 'CONSTANTS\n' + ''.join(f'  {k} = {v}\n' for k, v in consts.items())
    for i in inv: c += f'INVARIANT {i}\n'
    return c + 'CHECK_DEADLOCK FALSE\n' + extra


def replay(ctx, path):
    """re-validate one saved execution (a replays/<id>/*.ndjson file) against the specification"""
    ctx.ensure_setup()
    import shutil
    p = os.path.join(ctx.scratch, 'replay.ndjson'); shutil.copy(path, p)
    ctx.validate([p])
    return ctx.finish('model_checking', 'replay of one saved execution', explanation='replay')


def trace_drivers(ctx, drivers, variant='default', pure_drivers=()):
    """drivers: list of (driver, shards, timeout). Runs them, validates all traces."""
    b = ctx.build(variant)
    paths = []
    for d, shards, tmo in drivers:
        paths += ctx.run_driver(b, d, shards=shards, timeout=tmo)
    ctx.validate(paths)
    # size-capped executions are validated again WITHOUT the Java accelerators (pure TLA+ definitions)
    pp = []
    for d in pure_drivers:
        pp += ctx.run_driver(b, d, shards=1, extra='pure', timeout=300)
    if pp:
        before = ctx.trace_stats['accepted_executions']
        ctx.validate(pp, pure=True, timeout=1700)
        ctx.notes.append(f'pure-mode (no Java) validation: {ctx.trace_stats["accepted_executions"] - before} executions')


# ------------------------------------------------------------------------------------------------ C03
def check_C03(ctx):
    q = ctx.tier == 'quick'
    r = ctx.tlc_model('MpzAors', cfg_text=cfg(consts={'B': 3, 'V': 6 if q else 10, 'Variant': '"ok"'}), name='MpzAors')
    ctx.model_must_hold(r, what='(mpz_add/mpz_sub over the block store, all alias patterns)')
    b = ctx.build('default')
    funs = 'mpz_add:mpz_sub:mpz_add_ui:mpz_sub_ui:mpz_ui_sub:mpz_neg:mpz_abs:mpz_mul_2exp:mpz_set:mpz_swap'
    ctx.validate(ctx.run_driver(b, 'alias', shards=8, extra='funs=' + funs, tier='thorough', timeout=600))     # every alias partition x exact/generous allocation
    trace_drivers(ctx, [('c03_mpn', 16, 600), ('c03_mpz', 8, 600)], pure_drivers=['c03_mpn', 'c03_mpz'])
    return ctx.finish('model_checking',
        rule='R2: MpzAors enumerates every (alias triple, value triple in -V..V at limb base 3, spare allocation) exhaustively; '
             'R3/R1: every length n (all residues of the unrolled kernels) x 7 content kinds x placements x overlaps of the mpn kernels and every '
             'sign/relative-magnitude/alias combination of the mpz functions is executed on the real library and each recorded call is validated '
             'against MPIR.tla; distinct = distinct (function, inputs, outputs), non-trivial = some operand of at least two limbs',
        explanation='exhaustive small-base model of aors.h plus trace validation of the real kernels')


# ------------------------------------------------------------------------------------------------ helpers
def probe(ctx, build):
    from verif import sh
    rc, out = sh([os.path.join(build, 'verif-probe')], timeout=60)
    if rc != 0: raise Machinery('probe failed: ' + out[-500:])
    th = {}
    for l in out.splitlines():
        p = l.split()
        if len(p) == 2: th[p[0]] = int(p[1])
    return th


def mul_consts(th, **over):
    c = dict(KARA=th['MUL_KARATSUBA_THRESHOLD'], TOOM3=th['MUL_TOOM3_THRESHOLD'], TOOM4=th['MUL_TOOM4_THRESHOLD'],
             TOOM8H=th['MUL_TOOM8H_THRESHOLD'], FFTFULL=th['MUL_FFT_FULL_THRESHOLD'], MAXUN=th['MUL_BASECASE_MAX_UN'],
             SQRBASE=th['SQR_BASECASE_THRESHOLD'], SQRKARA=th['SQR_KARATSUBA_THRESHOLD'], SQRTOOM3=th['SQR_TOOM3_THRESHOLD'],
             SQRTOOM4=th['SQR_TOOM4_THRESHOLD'], SQRTOOM8=th['SQR_TOOM8_THRESHOLD'], SQRFFT=th['SQR_FFT_FULL_THRESHOLD'],
             KARALIMIT=th['MUL_KARATSUBA_THRESHOLD_LIMIT'], TOOM3LIMIT=th['MUL_TOOM3_THRESHOLD_LIMIT'],
             N=1000, LO=1, Mode='"region"', BV=2, EMIT='FALSE')
    c.update(over)
    return c


def fft_consts(th, **over):
    c = {}
    names = ['T61', 'T62', 'T71', 'T72', 'T81', 'T82', 'T91', 'T92', 'TA1', 'TA2']
    for i in range(5):
        c[names[2 * i]] = th[f'FFT_TAB_{i}_1']; c[names[2 * i + 1]] = th[f'FFT_TAB_{i}_2']
    c.update(FFTFULL=th['MUL_FFT_FULL_THRESHOLD'], N1LO=th['MUL_FFT_FULL_THRESHOLD'], N1HI=5200, STEP=1, EMIT='FALSE')
    c.update(over)
    return c


def parse_tuples(lines, tag):
    """<<"TAG", 1, 2, "x">> lines printed by TLC -> list of lists"""
    out = []
    for l in lines:
        if tag not in l: continue
        body = l.strip().strip('<>').replace('"', '')
        parts = [p.strip() for p in body.split(',')]
        if parts and parts[0] == tag: out.append(parts[1:])
    return out


# ------------------------------------------------------------------------------------------------ C01
def check_C01(ctx):
    import random
    q = ctx.tier == 'quick'
    b = ctx.build('default')
    th = probe(ctx, b)
    rng = random.Random(ctx.seed)
    # R2 (a) region run with the thresholds of the tree under test; also emits the shapes next to every boundary (R3)
    N = 700 if q else 1300
    r = ctx.tlc_model('MulDispatch', cfg_text=cfg(consts=mul_consts(th, N=N, EMIT='TRUE')), name='MulDispatch-region', collect='<<"SHAPE"')
    ctx.model_must_hold(r, what='(callee preconditions / scratch sizes of the mpn_mul dispatch)')
    shapes = parse_tuples(['<<"SHAPE"' + x for x in r.get('collected', [])], 'SHAPE')
    if not q:
        r2 = ctx.tlc_model('MulDispatch', cfg_text=cfg(consts=mul_consts(th, N=2 * th['MUL_FFT_FULL_THRESHOLD'] + 64, LO=N + 1)), name='MulDispatch-region-large', timeout=3000)
        ctx.model_must_hold(r2)
    # R2 (b) value runs: fallback loop and chunked basecase, exhaustive at limb base 2
    for nm, kara, n in (('value-kara2', 2, 8), ('value-kara3', 3, 9 if q else 10)):
        rv = ctx.tlc_model('MulDispatch', cfg_text=cfg(consts=mul_consts(th, KARA=kara, TOOM3=100, TOOM4=200, TOOM8H=300, FFTFULL=400, MAXUN=3,
                           N=n, LO=2, Mode='"value"')), name='MulDispatch-' + nm)
        ctx.model_must_hold(rv, what='(fallback loop / chunked basecase value run)')
    # R2 FFT parameter selection, exhaustive over a range, then a sparse grid with EMIT for the replay set
    rf = ctx.tlc_model('FFTParams', cfg_text=cfg(consts=fft_consts(th, N1HI=th['MUL_FFT_FULL_THRESHOLD'] + (1500 if q else 5500))), name='FFTParams-dense', timeout=3000)
    ctx.model_must_hold(rf, what='(FFT parameters let coefficients wrap or do not fit the transform)')
    rg = ctx.tlc_model('FFTParams', cfg_text=cfg(consts=fft_consts(th, N1LO=th['MUL_FFT_FULL_THRESHOLD'] // 3 * 2, N1HI=60000 if q else 300000, STEP=211 if q else 397, EMIT='TRUE')),
                       name='FFTParams-grid', collect='<<"FFTP"', timeout=3000)
    ctx.model_must_hold(rg)
    params = parse_tuples(['<<"FFTP"' + x for x in rg.get('collected', [])], 'FFTP')
    bylabel = {}
    for n1, n2, d, w, k in params:
        bylabel.setdefault((int(d), int(w), k), []).append((int(n1), int(n2)))
    fftlines = []
    cap = 45000 if q else 320000
    for (d, w, k), ws in sorted(bylabel.items()):
        ws = sorted(ws, key=lambda t: t[0] + t[1])
        picks = [ws[0]] + ([ws[len(ws) // 2]] if len(ws) > 2 and not q else [])
        for n1, n2 in picks:
            if n1 + n2 <= cap: fftlines.append(f'{n1} {n2} {d} {w} {k}')
    ctx.notes.append(f'FFT parameter pairs found by the model: {len(bylabel)}; replayed: {len(fftlines)} (size cap {cap} limbs)')
    # R3: replay
    if q: shapes = [s for s in shapes if rng.random() < 0.22]
    sf = os.path.join(ctx.scratch, 'shapes.lst'); open(sf, 'w').write(''.join(f'{s[2]} {s[0]} {s[1]}\n' for s in shapes))
    ff = os.path.join(ctx.scratch, 'fft.lst'); open(ff, 'w').write('\n'.join(fftlines) + '\n')
    paths = ctx.run_driver(b, 'c01_shapes', shards=48, extra=f'file={sf}', timeout=1500)
    paths += ctx.run_driver(b, 'c01_mul1', shards=4, timeout=600)
    paths += ctx.run_driver(b, 'c01_mpz', shards=8, timeout=900)
    paths += ctx.run_driver(b, 'c01_fft', shards=min(16, max(1, len(fftlines))), extra=f'fft={ff}', timeout=1500)
    ctx.validate(paths)
    pp = ctx.run_driver(b, 'c01_mul1', shards=1, extra='pure', timeout=300) + ctx.run_driver(b, 'c01_mpz', shards=1, extra='pure', timeout=300)
    n0 = ctx.trace_stats['accepted_executions']; ctx.validate(pp, pure=True)
    ctx.notes.append(f'pure-mode (no Java) validation: {ctx.trace_stats["accepted_executions"] - n0} executions')
    return ctx.finish('model_checking',
        rule='R2: MulDispatch region run = every 1<=vn<=un<=N with the tree\'s thresholds (callee ASSERT domains, scratch); value runs = every operand at limb base 2 '
             'through the fallback loop and the chunked basecase; FFTParams = every (n1,n2) in range. R3/R1: every shape the model marks as adjacent to a dispatch boundary '
             '(quick: seeded 22% sample) is multiplied on the real library with all-ones and a second content kind, through mpn_mul and through the selected internal '
             'routine directly; every (depth,w) the FFT selection can produce is entered directly; each product is validated by TLC against MPIR.tla. '
             'distinct = distinct (function, operands, result); non-trivial = at least two limbs',
        explanation='dispatch/parameter models checked with the constants of the tree under test + trace validation of real products',
        extra_cov=dict(boundary_shapes_replayed=len(shapes), fft_parameter_pairs=len(bylabel), thresholds={k: th[k] for k in th if k.startswith('MUL_') or k.startswith('SQR_')}))


# ------------------------------------------------------------------------------------------------ C02
def check_C02(ctx):
    q = ctx.tier == 'quick'
    for B in ([8, 16] if q else [8, 16, 32]):
        r = ctx.tlc_model('UdivPreinv', cfg_text=cfg(consts={'B': B, 'EMIT': 'FALSE'}), name=f'UdivPreinv-B{B}', timeout=3000)
        ctx.model_must_hold(r, what='(3/2 inverse and quotient step, all admissible inputs)')
    sbs = [(4, 3, 5)] if q else [(4, 3, 5), (4, 3, 6), (4, 4, 6), (8, 3, 4)]
    for B, dn, nn in sbs:
        r = ctx.tlc_model('SbDivQr', cfg_text=cfg(consts={'B': B, 'DN': dn, 'NN': nn, 'Variant': '"ok"', 'EMITSB': 'FALSE'}), name=f'SbDivQr-B{B}-{dn}-{nn}', timeout=3000)
        ctx.model_must_hold(r, what='(schoolbook division loop)')
    trace_drivers(ctx, [('c02_tdiv', 16, 1200), ('c02_div1', 8, 600), ('c02_mpz', 16, 900)], pure_drivers=['c02_tdiv', 'c02_div1', 'c02_mpz'])
    return ctx.finish('model_checking',
        rule='R2: UdivPreinv = every normalised two-limb divisor and every admissible three-limb numerator at word widths 3..5 bits; SbDivQr = every normalised '
             'divisor and dividend of the stated limb counts at limb base 4/8 through the transcribed loop (special case q=B-1, add-back). R3/R1: tdiv_qr/tdiv_q/sb_div_qr/divrem '
             'at divisor sizes on both sides of every division crossover x quotient lengths (0,1,2,dn/2,dn-1,dn,dn+1,2dn+1,5dn) x contents (inverse construction with all-ones '
             'quotient and maximal remainder, dividend prefix equal to divisor, d1=B/2, corners, unnormalised divisors); single-limb divisor classes; every mpz division, '
             'divisibility and congruence function x four sign combinations x exact/maximal-remainder/random, d=0 where defined; each call validated by TLC. '
             'distinct = distinct (function, operands, results); non-trivial = at least two limbs',
        explanation='exhaustive small-word models of the quotient-digit machinery + trace validation of the real division code')


# ------------------------------------------------------------------------------------------------ C10
def check_C10(ctx):
    q = ctx.tier == 'quick'
    r = ctx.tlc_model('MpzLogic', cfg_text=cfg(consts={'B': 4, 'V': 6 if q else 17, 'Variant': '"ok"'}), name='MpzLogic', timeout=3000)
    ctx.model_must_hold(r, what='(mpz_and over the block store: sign paths, realloc, temporaries, aliasing)')
    trace_drivers(ctx, [('c10_mpz', 16, 900), ('c10_mpn', 8, 600)], pure_drivers=['c10_mpz', 'c10_mpn'])
    return ctx.finish('model_checking',
        rule='R2: MpzLogic enumerates every identity triple (res,op1,op2), every value triple in -V..V at limb base 4 and exact/spare allocations through the transcribed '
             'mpz_and. R3/R1: and/ior/xor/com/setbit/clrbit/combit/tstbit/scan0/scan1/popcount/hamdist for all sign combinations x operand shapes (random kinds, +-1, +-2^k, low zero '
             'limbs, all ones) x length pairs x bit indices below/at/above the length x aliasing, and the mpn logical kernels for every n (all residues mod 8), validated against the '
             'infinite two\'s-complement definitions of BigZ. distinct = distinct (function, operands, results); non-trivial = at least two limbs',
        explanation='exhaustive small-base model of the sign-case analysis + trace validation against two\'s-complement semantics')


# ------------------------------------------------------------------------------------------------ C04 / C05
def check_C05(ctx):
    q = ctx.tier == 'quick'
    r = ctx.tlc_model('MpzAors', cfg_text=cfg(consts={'B': 3, 'V': 5 if q else 8, 'Variant': '"ok"'}), name='MpzAors')
    ctx.model_must_hold(r, what='(store order / pointer re-reads of mpz_add, mpz_sub under every alias pattern)')
    r = ctx.tlc_model('MpzLogic', cfg_text=cfg(consts={'B': 4, 'V': 5 if q else 9, 'Variant': '"ok"'}), name='MpzLogic')
    ctx.model_must_hold(r, what='(mpz_and under every alias pattern)')
    b = ctx.build('default')
    paths = ctx.run_driver(b, 'alias', shards=16, timeout=1200)
    ctx.validate(paths)
    pp = ctx.run_driver(b, 'alias', shards=1, extra='pure,funs=mpz_add:mpz_sub:mpz_mul:mpz_tdiv_qr:mpz_and:mpz_ior:mpz_gcd:mpz_addmul:mpz_neg:mpz_mul_2exp:mpz_fdiv_q:mpz_cdiv_r', timeout=300)
    ctx.validate(pp, pure=True)
    return ctx.finish('model_checking',
        rule='R2: MpzAors and MpzLogic enumerate all 27 identity triples x values x allocations over a block store (pointer re-reads, store order). R3/R1: for every mpz function '
             'of the API table every set partition of its mpz arguments into identity classes (minus two results in one variable, which the manual excludes) x 3 operand size '
             'classes x {exact, generous} allocation is executed; MPIR.tla computes the expected result from its OWN pre-state (i.e. as if the operands were distinct) and '
             'requires every non-output operand to keep its value. distinct = distinct (function, partition, operands); non-trivial = at least two limbs',
        explanation='alias-partition enumeration from the API table, validated against the abstract machine; memory-and-aliasing models')


def check_C04(ctx):
    q = ctx.tier == 'quick'
    r = ctx.tlc_model('MpzAors', cfg_text=cfg(consts={'B': 3, 'V': 5 if q else 8, 'Variant': '"ok"'}), name='MpzAors')
    ctx.model_must_hold(r, what='(block store discipline of mpz_add/mpz_sub)')
    r = ctx.tlc_model('MpzLogic', cfg_text=cfg(consts={'B': 4, 'V': 5 if q else 9, 'Variant': '"ok"'}), name='MpzLogic')
    ctx.model_must_hold(r, what='(block store discipline of mpz_and incl. temporaries)')
    b = ctx.build('default')
    paths = ctx.run_driver(b, 'hist', shards=16, timeout=1200)
    paths += ctx.run_driver(b, 'alias', shards=16, timeout=1200)
    ctx.validate(paths)
    pp = ctx.run_driver(b, 'hist', shards=1, extra='pure,funs=mpz_add:mpz_sub:mpz_mul:mpz_tdiv_qr:mpz_and:mpz_ior:mpz_gcd:mpz_addmul:mpz_neg:mpz_mul_2exp:mpz_fdiv_q:mpz_swap:mpz_set', timeout=300)
    ctx.validate(pp, pure=True)
    return ctx.finish('model_checking',
        rule='R2: block-store models (MpzAors, MpzLogic): every access through a live block of sufficient size, frees with the allocated size, no orphan. R3/R1: seeded random '
             'histories of public calls over a pool of variables with mpz_realloc2 (shrink to the minimum / grow), clear+init, swap between calls and the alias sweep; the recording '
             'allocator installed with mp_set_memory_functions logs every alloc/realloc/free with the size the library passed, and MPIR.tla accepts a free/realloc only with the exact '
             'current size, requires every touched object to be well formed and to own a block of exactly its allocation, no temporary to survive a call, nothing live after all '
             'clears, canaries intact, and every value equal to the result computed from the abstract value (so allocation history cannot matter). '
             'distinct = distinct calls; non-trivial = at least two limbs',
        explanation='allocator contract as enabledness of the abstract machine; histories replayed on the real library')
