"""Per-property checks.  Each check_Cxx(ctx): R2 models (TLC, exhaustive), R3 drivers on a scratch build of /repo's
working tree, R1 validation of the recorded traces against MPIR.tla, evidence."""
import os, json
from verif import Ctx, Machinery, VERIF, SPEC


def cfg(spec='Spec', consts=None, inv=('Correct',), extra=''):
    c = f'SPECIFICATION {spec}\n'
    if consts: c += 'CONSTANTS\n' + ''.join(f'  {k} = {v}\n' for k, v in consts.items())
    for i in inv: c += f'INVARIANT {i}\n'
    return c + 'CHECK_DEADLOCK FALSE\n' + extra


def replay(ctx, path):
    """re-validate one saved execution (a replays/<id>/*.ndjson file) against the specification"""
    ctx.ensure_setup()
    import shutil
    p = os.path.join(ctx.scratch, 'replay.ndjson'); shutil.copy(path, p)
    ctx.validate([p])
    return ctx.finish('model_checking', 'replay of one saved execution', explanation='replay')


def trace_drivers(ctx, drivers, variant='default', pure_drivers=()):
    """drivers: list of (driver, shards, timeout). Runs them, validates all traces."""
    b = ctx.build(variant)
    paths = []
    for d, shards, tmo in drivers:
        paths += ctx.run_driver(b, d, shards=shards, timeout=tmo)
    ctx.validate(paths)
    # size-capped executions are validated again WITHOUT the Java accelerators (pure TLA+ definitions)
    pp = []
    for d in pure_drivers:
        pp += ctx.run_driver(b, d, shards=1, extra='pure', timeout=300)
    if pp:
        before = ctx.trace_stats['accepted_executions']
        ctx.validate(pp, pure=True, timeout=1700)
        ctx.notes.append(f'pure-mode (no Java) validation: {ctx.trace_stats["accepted_executions"] - before} executions')


# ------------------------------------------------------------------------------------------------ C03
def check_C03(ctx):
    q = ctx.tier == 'quick'
    r = ctx.tlc_model('MpzAors', cfg_text=cfg(consts={'B': 3, 'V': 6 if q else 10, 'Variant': '"ok"'}), name='MpzAors')
    ctx.model_must_hold(r, what='(mpz_add/mpz_sub over the block store, all alias patterns)')
    trace_drivers(ctx, [('c03_mpn', 16, 600), ('c03_mpz', 8, 600)], pure_drivers=['c03_mpn', 'c03_mpz'])
    return ctx.finish('model_checking',
        rule='R2: MpzAors enumerates every (alias triple, value triple in -V..V at limb base 3, spare allocation) exhaustively; '
             'R3/R1: every length n (all residues of the unrolled kernels) x 7 content kinds x placements x overlaps of the mpn kernels and every '
             'sign/relative-magnitude/alias combination of the mpz functions is executed on the real library and each recorded call is validated '
             'against MPIR.tla; distinct = distinct (function, inputs, outputs), non-trivial = some operand of at least two limbs',
        explanation='exhaustive small-base model of aors.h plus trace validation of the real kernels')
