#!/bin/bash
# build.sh <variant>  -- scratch build of /repo's CURRENT WORKING TREE (hooks on), prints build dir.
# Cache is keyed by a hash of every source file that is copied, so any edit in /repo rebuilds.
# Variants: default | cxx | none | fat | assert | alloca-debug | alloca-reentrant | nohook | asan | tsan | cpu-<name>
set -e
VARIANT=${1:-default}
REPO=${VERIF_REPO:-/repo}
CACHE=${VERIF_CACHE:-/var/tmp/mpir-verif-cache}
mkdir -p "$CACHE"
EXCL=(--exclude='*.o' --exclude='*.lo' --exclude='*.la' --exclude='.libs' --exclude='.git' --exclude='*.log' --exclude='*.trs'
      --exclude='autom4te.cache' --exclude='config.status' --exclude='/config.h' --exclude='Makefile' --exclude='.deps'
      --exclude='*.a' --exclude='*.so*' --exclude='stamp-h1' --exclude='libtool' --exclude='/gmp-mparam.h'
      --exclude='/mpn/*.c' --exclude='/mpn/*.as' --exclude='/mpn/*.asm' --exclude='/mpn/*.s'
      --exclude='/tests/*/t-*[!.]?' --exclude='_build')
# hash of the source tree as it will be copied (content), independent of git state
HASH=$(cd "$REPO" && rsync -a --dry-run --out-format='%n' "${EXCL[@]}" ./ /nonexistent/ 2>/dev/null | grep -v '/$' | LC_ALL=C sort | \
       xargs -d '\n' sha256sum 2>/dev/null | sha256sum | cut -c1-16)
DIR="$CACHE/$HASH-$VARIANT"
exec 9>"$CACHE/.lock-$VARIANT"
flock 9
# prune builds of other trees for this variant
for d in "$CACHE"/*-"$VARIANT"; do [ -d "$d" ] && [ "$d" != "$DIR" ] && rm -rf "$d"; done
if [ -f "$DIR/.built" ]; then echo "$DIR"; exit 0; fi
rm -rf "$DIR"; mkdir -p "$DIR"
rsync -a "${EXCL[@]}" "$REPO"/ "$DIR"/
cd "$DIR"
CF="-O2 -DMPIR_VERIF -Wno-error"
CONF=(--disable-shared)
CCX=gcc; CXXX=g++
case "$VARIANT" in
  default) ;;
  cxx) CONF+=(--enable-cxx) ;;
  none) CONF+=(--build=none-unknown-linux-gnu) ;;
  fat) CONF+=(--enable-fat) ;;
  assert) CONF+=(--enable-assert) ;;
  alloca-debug) CONF+=(--enable-alloca=debug) ;;
  alloca-reentrant) CONF+=(--enable-alloca=malloc-reentrant) ;;
  nohook) CF="-O2 -Wno-error" ;;
  asan) CCX=clang; CXXX=clang++; CF="-O1 -g -fsanitize=address -fno-omit-frame-pointer -DMPIR_VERIF -Wno-error" ;;
  tsan) CCX=clang; CXXX=clang++; CF="-O1 -g -fsanitize=thread -DMPIR_VERIF -Wno-error" ;;
  cpu-*) CONF+=(--build=${VARIANT#cpu-}-unknown-linux-gnu) ;;
  *) echo "unknown variant $VARIANT" >&2; exit 2 ;;
esac
# configure runs test programs: a sanitizer that cannot start its leak checker (ptrace-restricted sandboxes) must not make them fail
export ASAN_OPTIONS=detect_leaks=0 TSAN_OPTIONS=report_bugs=0
if [ ! -x ./configure ] || [ configure.ac -nt configure ]; then autoreconf -i >/dev/null 2>&1 || true; fi
./configure "${CONF[@]}" CC=$CCX CXX=$CXXX CFLAGS="$CF" CXXFLAGS="$CF" > configure.out 2>&1 || { tail -30 configure.out >&2; exit 2; }
# mpir.h and longlong.h in /repo are configure outputs that the in-tree `make check` uses as they are.
# If /repo's copy was edited by hand (differs from what configure regenerates, ignoring the recorded
# compiler/flags lines) keep the edit: copy it over the regenerated one (same-ABI variants only).
for h in mpir.h longlong.h; do
  if [ -f "$REPO/$h" ] && ! diff -q <(grep -vE '__(GMP|MPIR)_C(C|FLAGS)' "$REPO/$h") <(grep -vE '__(GMP|MPIR)_C(C|FLAGS)' "$h") >/dev/null; then
     case "$VARIANT" in
       default|cxx|assert|alloca-*|nohook|asan|tsan) cp "$REPO/$h" "$h"; echo "note: hand-edited $h copied from $REPO" >> .verif-notes ;;
       *) echo "note: $REPO/$h differs from regenerated copy (variant $VARIANT, not copied)" >> .verif-notes ;;
     esac
  fi
done
make -j16 > make.out 2>&1 || { tail -30 make.out >&2; exit 2; }
touch .built
echo "$DIR"
