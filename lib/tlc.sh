#!/bin/bash
# tlc.sh [--pure] [--heap N] [--timeout S] -- <tlc args>   run TLC on specs in /verif/spec with the BigZ overrides
# (or without them: --pure).  A private metadir under $VERIF_SCRATCH is used and removed.
HERE="$(cd "$(dirname "$0")/.." && pwd)"
PURE=0; HEAP=4g; TMO=1200; DEQUE=0
while [ $# -gt 0 ]; do case "$1" in
  --pure) PURE=1; shift;; --heap) HEAP=$2; shift 2;; --timeout) TMO=$2; shift 2;; --deque) DEQUE=1; shift;; --) shift; break;; *) break;; esac; done
SCR=${VERIF_SCRATCH:-/var/tmp/mpir-verif-scratch}
mkdir -p "$SCR"
MD=$(mktemp -d "$SCR/md.XXXXXX")
CP=/opt/veriftools/tla/tla2tools.jar:/opt/veriftools/tla/CommunityModules-deps.jar
[ $PURE = 0 ] && CP="$HERE/spec/java/classes:$CP"
OPTS="-Xss1g -Xmx$HEAP -XX:+UseParallelGC"
[ $DEQUE = 1 ] && OPTS="$OPTS -Dtlc2.tool.queue.IStateQueue=StateDeque"
cd "$HERE/spec"
timeout "$TMO" java $OPTS -cp "$CP" tlc2.TLC -noGenerateSpecTE -metadir "$MD" "$@"
RC=$?
rm -rf "$MD"
exit $RC
