#!/bin/bash
# build_harness.sh <builddir>  -> builds $builddir/verif-hx from /verif/harness against that scratch build
set -e
B=$1; HERE="$(cd "$(dirname "$0")/.." && pwd)"
python3 "$HERE/harness/gen_api.py" >/dev/null
SRC="$HERE/harness/main.c $HERE/harness/rec.c $HERE/harness/gen/api_glue.c $(ls $HERE/harness/drv_*.c) $HERE/harness/util.h"
STAMP=$(cat $SRC $HERE/harness/rec.h $HERE/harness/util.h $HERE/harness/drivers.def $HERE/harness/probe.c $HERE/lib/mapranges.py | sha256sum | cut -c1-16)
# the harness lives in a directory named after the hash of its own sources, so that checks run from different /verif trees
# (main tree, a vp-run snapshot, a staging worktree) against the same library build never exchange binaries
OUT="$B/hx-$STAMP"
if [ -f "$OUT/.built" ]; then touch "$OUT/.built"; echo "$OUT"; exit 0; fi
exec 8>"$B/.hx-lock"; flock 8
if [ -f "$OUT/.built" ]; then echo "$OUT"; exit 0; fi
# drop harness builds that have not been used for six hours
find "$B" -maxdepth 1 -name 'hx-*' -type d -mmin +360 -exec rm -rf {} + 2>/dev/null || true
LIB=$B
B="$OUT.tmp.$$"; rm -rf "$B"; mkdir -p "$B"
CC=${HX_CC:-gcc}; FL=${HX_CFLAGS:--O1 -g}
ls $HERE/harness/drv_*.c | xargs -P 16 -I{} sh -c "$CC $FL -w -DMPIR_VERIF -I$LIB -I$HERE/harness -c {} -o $B/hx_\$(basename {} .c).o"
$CC $FL -w -DMPIR_VERIF -I$LIB -I$HERE/harness -c $HERE/harness/main.c -o $B/hx_main.o
$CC $FL -w -DMPIR_VERIF -I$LIB -I$HERE/harness -c $HERE/harness/rec.c -o $B/hx_rec.o
$CC $FL -w -DMPIR_VERIF -I$LIB -I$HERE/harness -c $HERE/harness/gen/api_glue.c -o $B/hx_api_glue.o
WRAP="-Wl,--wrap=malloc -Wl,--wrap=calloc -Wl,--wrap=realloc -Wl,--wrap=free"; [ -n "$HX_CFLAGS" ] && WRAP=""      # sanitizer builds keep their own interceptors
$CC $FL -no-pie $WRAP -Wl,-Map=$B/verif-hx.map -o $B/verif-hx $B/hx_main.o $B/hx_rec.o $B/hx_api_glue.o $(ls $HERE/harness/drv_*.c | sed "s#.*/drv_\(.*\)\.c#$B/hx_drv_\1.o#") $LIB/.libs/libmpir.a -lm -lpthread
python3 $HERE/lib/mapranges.py $B/verif-hx.map $B/verif-hx > $B/verif-hx.gw
python3 $HERE/lib/mapranges.py $B/verif-hx.map $B/verif-hx text > $B/verif-hx.tx
$CC -O0 -w -no-pie -DMPIR_VERIF -I$LIB -o $B/verif-probe $HERE/harness/probe.c $LIB/.libs/libmpir.a
touch "$B/.built"; rm -rf "$OUT"; mv "$B" "$OUT"; echo "$OUT"
