#!/bin/bash
# build_harness.sh <builddir>  -> builds $builddir/verif-hx from /verif/harness against that scratch build
set -e
B=$1; HERE="$(cd "$(dirname "$0")/.." && pwd)"
python3 "$HERE/harness/gen_api.py" >/dev/null
SRC="$HERE/harness/main.c $HERE/harness/rec.c $HERE/harness/gen/api_glue.c $(ls $HERE/harness/drv_*.c) $HERE/harness/util.h"
STAMP=$(cat $SRC $HERE/harness/rec.h $HERE/harness/util.h $HERE/harness/drivers.def $HERE/harness/probe.c $HERE/lib/mapranges.py | sha256sum | cut -c1-16)
if [ -f "$B/verif-hx" ] && [ "$(cat $B/verif-hx.stamp 2>/dev/null)" = "$STAMP" ]; then exit 0; fi
CC=${HX_CC:-gcc}; FL=${HX_CFLAGS:--O1 -g}
ls $HERE/harness/drv_*.c | xargs -P 16 -I{} sh -c "$CC $FL -w -DMPIR_VERIF -I$B -I$HERE/harness -c {} -o $B/hx_\$(basename {} .c).o"
$CC $FL -w -DMPIR_VERIF -I$B -I$HERE/harness -c $HERE/harness/main.c -o $B/hx_main.o
$CC $FL -w -DMPIR_VERIF -I$B -I$HERE/harness -c $HERE/harness/rec.c -o $B/hx_rec.o
$CC $FL -w -DMPIR_VERIF -I$B -I$HERE/harness -c $HERE/harness/gen/api_glue.c -o $B/hx_api_glue.o
$CC $FL -no-pie -Wl,-Map=$B/verif-hx.map -o $B/verif-hx $B/hx_main.o $B/hx_rec.o $B/hx_api_glue.o $(ls $HERE/harness/drv_*.c | sed "s#.*/drv_\(.*\)\.c#$B/hx_drv_\1.o#") $B/.libs/libmpir.a -lm -lpthread
python3 $HERE/lib/mapranges.py $B/verif-hx.map $B/verif-hx > $B/verif-hx.gw
$CC -O0 -w -no-pie -DMPIR_VERIF -I$B -o $B/verif-probe $HERE/harness/probe.c $B/.libs/libmpir.a
echo $STAMP > $B/verif-hx.stamp
