#!/usr/bin/env python3
"""C20 generator for mpf_class: TLC-enumerated expression trees (CxxExpr.tla, KIND "f") -> C++ translation units.
Every tree is evaluated (a) as the C++ expression and (b) as "every sub-expression into its own temporary with the corresponding C
function", the temporaries having the precision the manual states (that of the destination; for a constructor or a comparison operand the
precision of the expression = the highest precision of its mpf_class operands).  The event carries the tree annotated with the value of
every node of (b); CxxSemF.tla requires (b) to be what the C functions' specification (SemF!PostF) admits and (a) to equal it limb for limb.
usage: cxxgen_f.py <tlc-output-f> <outdir> <seed> <max_deeper_trees>   (max = 0: all)"""
import sys, re, json, struct, random, os

def parse_tuple(s):
    toks = re.findall(r'<<|>>|"[^"]*"|,', s.strip()); pos = 0
    def rd():
        nonlocal pos
        t = toks[pos]
        if t == '<<':
            pos += 1; out = []
            while toks[pos] != '>>':
                if toks[pos] == ',': pos += 1; continue
                out.append(rd())
            pos += 1; return out
        pos += 1; return t[1:-1]
    return rd()

def dbl_fields(x):
    b = struct.unpack('<Q', struct.pack('<d', float(x)))[0]
    return [b >> 63, (b >> 52) & 0x7ff, (b >> 26) & 0x3ffffff, b & 0x3ffffff]

LEAF = ('v', 'si', 'ui', 'dd')
INT_ROOT = {'sgn', 'cmp', '<', '>', '==', '!=', '<=', '>='}
UN = {'neg': '(-{x})', 'pos': '(+{x})', 'abs': 'abs({x})', 'sqrt': 'sqrt({x})', 'sgn': 'sgn({x})', 'floor': 'floor({x})', 'ceil': 'ceil({x})', 'trunc': 'trunc({x})'}
RNAME = {'+': 'add', '-': 'sub', '*': 'mul', '/': 'div', 'neg': 'neg', 'pos': 'set', 'abs': 'abs', 'sqrt': 'sqrt', 'floor': 'floor', 'ceil': 'ceil', 'trunc': 'trunc'}

def lit(t):
    if t[0] == 'si':
        v = int(t[1], 16); return '(-9223372036854775807L - 1)' if v == -(1 << 63) else f'({v}L)'
    if t[0] == 'ui': return f'{int(t[1], 16)}UL'
    return f'({t[1]})'

def cxx(t):
    if t[0] == 'v': return t[1]
    if t[0] in LEAF: return lit(t)
    if len(t) == 2: return UN[t[0]].format(x=cxx(t[1]))
    if t[0] == 'cmp': return f'cmp({cxx(t[1])}, {cxx(t[2])})'
    return f'({cxx(t[1])} {t[0]} {cxx(t[2])})'

def leaves(t): return [t] if t[0] in LEAF else [l for c in t[1:] for l in leaves(c)]
def depth(t): return 0 if t[0] in LEAF else 1 + max(depth(c) for c in t[1:])

class Ref:
    """straight-line C code of the reference evaluation; r[k] are the temporaries"""
    def __init__(self): self.st = []; self.n = 0
    def leafjson(self, t): return ['d', dbl_fields(t[1])] if t[0] == 'dd' else list(t)
    def ev(self, t, P):
        if t[0] == 'v': return f'{t[1]}0.get_mpf_t()', ['v', t[1]]
        if t[0] in LEAF: return lit(t), self.leafjson(t)
        ch = [self.ev(c, P) for c in t[1:]]
        k = self.n; self.n += 1
        self.st.append(f'mpf_init2(r[{k}], {P}); R_{RNAME[t[0]]}(r[{k}], {", ".join(c[0] for c in ch)});')
        return f'r[{k}]', [t[0]] + [c[1] for c in ch] + [f'@{k}']

def pmax(t):
    vs = sorted({l[1] for l in leaves(t) if l[0] == 'v'})
    e = f'{vs[0]}0.get_prec()'
    for v in vs[1:]: e = f'pmax({e}, {v}0.get_prec())'
    return e

def item(t, tgt, n):
    """returns the C++ block for one (tree, target)"""
    js = lambda j: json.dumps(j, separators=(',', ':')).replace('\\', '\\\\').replace('"', '\\"')
    R = Ref(); o = ['  { set_env_f(vc, f, g, h); mpf_class f0(f), g0(g), h0(h); mpf_t r[8]; int nr;']
    if tgt == 'int':
        # operands of a comparison / sgn that are expressions become temporaries with the precision of the expression
        sides = []
        for c in t[1:]:
            if c[0] in LEAF: sides.append(R.ev(c, '0')[1])
            else: sides.append(R.ev(c, pmax(c))[1])
        o.append(f'    long rv_ = {cxx(t)}; rv_ = (rv_ > 0) - (rv_ < 0);')
        o += ['    ' + s for s in R.st]
        o.append(f'    nr = {R.n}; ev_fi("{js([t[0]] + sides)}", vc, f0, g0, h0, f, g, h, rv_, r, nr); }}')
        return '\n'.join(o)
    if tgt == 'c':   P = pmax(t); o.append(f'    mp_bitcnt_t P_ = {P}; mpf_class t_({cxx(t)});'); res = 't_'
    elif tgt in ('p64', 'p512'): o.append(f'    mp_bitcnt_t P_ = {tgt[1:]}; mpf_class t_(0, P_); t_ = {cxx(t)};'); res = 't_'
    elif tgt in ('f', 'h'): o.append(f'    mp_bitcnt_t P_ = {tgt}0.get_prec(); {tgt} = {cxx(t)};'); res = tgt
    else:            # compound assignment  v op= expr  ==  v = v op expr
        v, op = tgt[0], tgt[1]
        o.append(f'    mp_bitcnt_t P_ = {v}0.get_prec(); {v} {op}= {cxx(t)};'); res = v
        t = [op, ['v', v], t]
    _, tj = R.ev(t, 'P_')
    o += ['    ' + s for s in R.st]
    o.append(f'    nr = {R.n}; ev_f("{js(tj)}", "{tgt}", vc, (long)P_, f0, g0, h0, f, g, h, {res}, r, nr); }}')
    return '\n'.join(o)

HDR = '''#include <cstdio>
#include <cstdlib>
#include <string>
#include "mpirxx.h"
extern FILE *out;
void set_env_f(int vc, mpf_class &f, mpf_class &g, mpf_class &h);
void ev_f(const char *tree, const char *tgt, int vc, long dprec, const mpf_class &f0, const mpf_class &g0, const mpf_class &h0, const mpf_class &f, const mpf_class &g, const mpf_class &h, const mpf_class &res, mpf_t *r, int nr);
void ev_fi(const char *tree, int vc, const mpf_class &f0, const mpf_class &g0, const mpf_class &h0, const mpf_class &f, const mpf_class &g, const mpf_class &h, long rv, mpf_t *r, int nr);
static inline mp_bitcnt_t pmax(mp_bitcnt_t a, mp_bitcnt_t b) { return a > b ? a : b; }
// ---- the corresponding C function for every operator / operand type (the C functions themselves are decided by SemF) ----
static inline void R_tmpd(mpf_t t, double d) { mpf_init2(t, 8 * sizeof(double)); mpf_set_d(t, d); }
static inline void R_add(mpf_ptr r, mpf_srcptr a, mpf_srcptr b) { mpf_add(r, a, b); }
static inline void R_add(mpf_ptr r, mpf_srcptr a, unsigned long l) { mpf_add_ui(r, a, l); }
static inline void R_add(mpf_ptr r, unsigned long l, mpf_srcptr a) { mpf_add_ui(r, a, l); }
static inline void R_add(mpf_ptr r, mpf_srcptr a, long l) { if (l >= 0) mpf_add_ui(r, a, l); else mpf_sub_ui(r, a, -(unsigned long)l); }
static inline void R_add(mpf_ptr r, long l, mpf_srcptr a) { R_add(r, a, l); }
static inline void R_add(mpf_ptr r, mpf_srcptr a, double d) { mpf_t t; R_tmpd(t, d); mpf_add(r, a, t); mpf_clear(t); }
static inline void R_add(mpf_ptr r, double d, mpf_srcptr a) { R_add(r, a, d); }
static inline void R_sub(mpf_ptr r, mpf_srcptr a, mpf_srcptr b) { mpf_sub(r, a, b); }
static inline void R_sub(mpf_ptr r, mpf_srcptr a, unsigned long l) { mpf_sub_ui(r, a, l); }
static inline void R_sub(mpf_ptr r, unsigned long l, mpf_srcptr a) { mpf_ui_sub(r, l, a); }
static inline void R_sub(mpf_ptr r, mpf_srcptr a, long l) { if (l >= 0) mpf_sub_ui(r, a, l); else mpf_add_ui(r, a, -(unsigned long)l); }
static inline void R_sub(mpf_ptr r, long l, mpf_srcptr a) { if (l >= 0) mpf_ui_sub(r, l, a); else { mpf_add_ui(r, a, -(unsigned long)l); mpf_neg(r, r); } }
static inline void R_sub(mpf_ptr r, mpf_srcptr a, double d) { mpf_t t; R_tmpd(t, d); mpf_sub(r, a, t); mpf_clear(t); }
static inline void R_sub(mpf_ptr r, double d, mpf_srcptr a) { mpf_t t; R_tmpd(t, d); mpf_sub(r, t, a); mpf_clear(t); }
static inline void R_mul(mpf_ptr r, mpf_srcptr a, mpf_srcptr b) { mpf_mul(r, a, b); }
static inline void R_mul(mpf_ptr r, mpf_srcptr a, unsigned long l) { mpf_mul_ui(r, a, l); }
static inline void R_mul(mpf_ptr r, unsigned long l, mpf_srcptr a) { mpf_mul_ui(r, a, l); }
static inline void R_mul(mpf_ptr r, mpf_srcptr a, long l) { if (l >= 0) mpf_mul_ui(r, a, l); else { mpf_mul_ui(r, a, -(unsigned long)l); mpf_neg(r, r); } }
static inline void R_mul(mpf_ptr r, long l, mpf_srcptr a) { R_mul(r, a, l); }
static inline void R_mul(mpf_ptr r, mpf_srcptr a, double d) { mpf_t t; R_tmpd(t, d); mpf_mul(r, a, t); mpf_clear(t); }
static inline void R_mul(mpf_ptr r, double d, mpf_srcptr a) { R_mul(r, a, d); }
static inline void R_div(mpf_ptr r, mpf_srcptr a, mpf_srcptr b) { mpf_div(r, a, b); }
static inline void R_div(mpf_ptr r, mpf_srcptr a, unsigned long l) { mpf_div_ui(r, a, l); }
static inline void R_div(mpf_ptr r, unsigned long l, mpf_srcptr a) { mpf_ui_div(r, l, a); }
static inline void R_div(mpf_ptr r, mpf_srcptr a, long l) { if (l >= 0) mpf_div_ui(r, a, l); else { mpf_div_ui(r, a, -(unsigned long)l); mpf_neg(r, r); } }
static inline void R_div(mpf_ptr r, long l, mpf_srcptr a) { if (l >= 0) mpf_ui_div(r, l, a); else { mpf_ui_div(r, -(unsigned long)l, a); mpf_neg(r, r); } }
static inline void R_div(mpf_ptr r, mpf_srcptr a, double d) { mpf_t t; R_tmpd(t, d); mpf_div(r, a, t); mpf_clear(t); }
static inline void R_div(mpf_ptr r, double d, mpf_srcptr a) { mpf_t t; R_tmpd(t, d); mpf_div(r, t, a); mpf_clear(t); }
static inline void R_neg(mpf_ptr r, mpf_srcptr a) { mpf_neg(r, a); }
static inline void R_set(mpf_ptr r, mpf_srcptr a) { mpf_set(r, a); }
static inline void R_abs(mpf_ptr r, mpf_srcptr a) { mpf_abs(r, a); }
static inline void R_sqrt(mpf_ptr r, mpf_srcptr a) { mpf_sqrt(r, a); }
static inline void R_floor(mpf_ptr r, mpf_srcptr a) { mpf_floor(r, a); }
static inline void R_ceil(mpf_ptr r, mpf_srcptr a) { mpf_ceil(r, a); }
static inline void R_trunc(mpf_ptr r, mpf_srcptr a) { mpf_trunc(r, a); }
'''

MAIN = r'''
static std::string fval(mpf_srcptr x) {
  int n = x->_mp_size < 0 ? -x->_mp_size : x->_mp_size; std::string s = "{\"v\":\"";
  if (n == 0) s += "0"; else { if (x->_mp_size < 0) s += "-"; char b[24]; snprintf(b, sizeof b, "%lx", (unsigned long)x->_mp_d[n - 1]); s += b;
    for (int i = n - 2; i >= 0; i--) { snprintf(b, sizeof b, "%016lx", (unsigned long)x->_mp_d[i]); s += b; } }
  char t[96]; snprintf(t, sizeof t, "\",\"sz\":%d,\"exp\":%ld,\"prec\":%d}", (int)x->_mp_size, (long)x->_mp_exp, (int)x->_mp_prec); return s + t; }
static bool same(mpf_srcptr a, mpf_srcptr b) { if (a->_mp_size != b->_mp_size || a->_mp_exp != b->_mp_exp || a->_mp_prec != b->_mp_prec) return false;
  int n = a->_mp_size < 0 ? -a->_mp_size : a->_mp_size; for (int i = 0; i < n; i++) if (a->_mp_d[i] != b->_mp_d[i]) return false; return true; }
static std::string subst(const char *tree, mpf_t *r, int nr) {     // "@k" -> value of the k-th node of the reference evaluation
  std::string s(tree);
  for (int k = 0; k < nr; k++) { char m[16]; snprintf(m, sizeof m, "\"@%d\"", k); size_t p = s.find(m); if (p == std::string::npos) { fprintf(stderr, "marker %s missing in %s\n", m, tree); exit(3); } s.replace(p, strlen(m), fval(r[k])); }
  return s; }
static std::string envs(const mpf_class &f0, const mpf_class &g0, const mpf_class &h0) { return "{\"f\":" + fval(f0.get_mpf_t()) + ",\"g\":" + fval(g0.get_mpf_t()) + ",\"h\":" + fval(h0.get_mpf_t()) + "}"; }
void ev_f(const char *tree, const char *tgt, int vc, long dprec, const mpf_class &f0, const mpf_class &g0, const mpf_class &h0, const mpf_class &f, const mpf_class &g, const mpf_class &h, const mpf_class &res, mpf_t *r, int nr) {
  // operands that are not the target keep their value
  int keep = (&res == &f || same(f.get_mpf_t(), f0.get_mpf_t())) && (&res == &g || same(g.get_mpf_t(), g0.get_mpf_t())) && (&res == &h || same(h.get_mpf_t(), h0.get_mpf_t()));
  fprintf(out, "{\"e\":\"fn\",\"f\":\"cxx_f\",\"i\":{\"tree\":%s,\"tgt\":\"%s\",\"dprec\":%ld,\"env\":%s},\"o\":{\"r\":%s,\"keep\":%d}}\n", subst(tree, r, nr).c_str(), tgt, dprec, envs(f0, g0, h0).c_str(), fval(res.get_mpf_t()).c_str(), keep);
  for (int k = 0; k < nr; k++) mpf_clear(r[k]); }
void ev_fi(const char *tree, int vc, const mpf_class &f0, const mpf_class &g0, const mpf_class &h0, const mpf_class &f, const mpf_class &g, const mpf_class &h, long rv, mpf_t *r, int nr) {
  int keep = same(f.get_mpf_t(), f0.get_mpf_t()) && same(g.get_mpf_t(), g0.get_mpf_t()) && same(h.get_mpf_t(), h0.get_mpf_t());
  fprintf(out, "{\"e\":\"fn\",\"f\":\"cxx_fi\",\"i\":{\"tree\":%s,\"env\":%s},\"o\":{\"ret\":%ld,\"keep\":%d}}\n", subst(tree, r, nr).c_str(), envs(f0, g0, h0).c_str(), rv, keep);
  for (int k = 0; k < nr; k++) mpf_clear(r[k]); }
// operand classes: f has 64, g 128, h 256 bits of precision
void set_env_f(int vc, mpf_class &f, mpf_class &g, mpf_class &h) {
  f.set_prec(64); g.set_prec(128); h.set_prec(256);
  switch (vc) {
  case 0: f = 1.5; g = -2.25; h = 1000.125; break;                                                                       // small exact dyadics: the exactness clause applies
  case 1: mpf_set_ui(f.get_mpf_t(), 1); mpf_div_ui(f.get_mpf_t(), f.get_mpf_t(), 3);                                     // full mantissas
          mpf_set_si(g.get_mpf_t(), -10); mpf_div_ui(g.get_mpf_t(), g.get_mpf_t(), 7); mpf_sqrt_ui(h.get_mpf_t(), 2); break;
  case 2: f = 1.5; mpf_mul_2exp(f.get_mpf_t(), f.get_mpf_t(), 200); g = -1.25; mpf_div_2exp(g.get_mpf_t(), g.get_mpf_t(), 300);   // distant exponents
          h = 1; mpf_div_2exp(h.get_mpf_t(), h.get_mpf_t(), 250); mpf_add_ui(h.get_mpf_t(), h.get_mpf_t(), 1); break;               // 1 + 2^-250: needs 251 bits
  default: f = 0; g = -1; mpf_set_ui(h.get_mpf_t(), 1); mpf_mul_2exp(h.get_mpf_t(), h.get_mpf_t(), 65); mpf_sub_ui(h.get_mpf_t(), h.get_mpf_t(), 1); mpf_div_2exp(h.get_mpf_t(), h.get_mpf_t(), 1); break;   // zero, -1, 2^64 - 1/2
  }
}
'''

def main():
    ftrees, outdir, seed, mx = sys.argv[1], sys.argv[2], int(sys.argv[3]), int(sys.argv[4])
    rng = random.Random(seed)
    ts = [parse_tuple(m) for m in re.findall(r'<<"TREE", "f", (<<.*>>)>>', open(ftrees).read())]
    ts.sort(key=lambda x: json.dumps(x))
    if mx and len(ts) > mx:
        d1 = [t for t in ts if depth(t) <= 1]; rest = [t for t in ts if depth(t) > 1]; ts = d1 + rng.sample(rest, min(len(rest), mx))
    os.makedirs(outdir, exist_ok=True)
    items = []; n = 0
    for t in ts:
        n += 1
        if t[0] in INT_ROOT: items.append(item(t, 'int', n)); continue
        items.append(item(t, 'c', n))
        items.append(item(t, 'p64' if n % 2 else 'p512', n))
        if n % 4 == 0: items.append(item(t, 'f' if n % 8 else 'h', n))                      # the assigned variable may occur in the tree
        if n % 5 == 0: items.append(item(t, ('f', 'h')[n % 2] + ('+', '-', '*')[n % 3], n))   # compound assignment = its expanded form
    per = 300
    units = [items[i:i + per] for i in range(0, len(items), per)]
    for ui, unit in enumerate(units):
        with open(os.path.join(outdir, f'fu{ui}.cc'), 'w') as o:
            o.write(HDR + f'void funit{ui}(int vc) {{\n  mpf_class f, g, h;\n' + '\n'.join(unit) + '\n}\n')
    with open(os.path.join(outdir, 'fmain.cc'), 'w') as o:
        o.write('#include <cstring>\n' + HDR + MAIN)
        for ui in range(len(units)): o.write(f'void funit{ui}(int);\n')
        o.write('void mpf_stream_section(void);\nvoid mpf_section(void) {\n  for (int vc = 0; vc < 4; vc++) {\n')
        for ui in range(len(units)): o.write(f'    fprintf(out, "{{\\"e\\":\\"reset\\",\\"drv\\":\\"cxxf\\",\\"x\\":%d,\\"seed\\":\\"0\\"}}\\n", vc * 1000 + {ui}); funit{ui}(vc);\n')
        o.write('  }\n  mpf_stream_section();\n}\n')
    print(len(items), 'mpf expressions in', len(units), 'units')

main()
