#!/usr/bin/env python3
"""Orchestration of the checks: scratch build, TLC model runs (R2), harness drivers (R3),
trace validation against MPIR.tla (R1), known findings, evidence.  See DESIGN.md section 2.8."""
import os, sys, re, json, time, subprocess, shutil, hashlib, tempfile, concurrent.futures as cf

VERIF = os.path.dirname(os.path.dirname(os.path.abspath(__file__)))
SPEC = os.path.join(VERIF, 'spec')
SCRATCH_ROOT = os.environ.get('VERIF_SCRATCH', '/var/tmp/mpir-verif-scratch')
NCPU = int(os.environ.get('VERIF_JOBS', str(os.cpu_count() or 8)))


class Machinery(Exception):
    """the checking machinery itself failed (exit 2) -- never reported as a violation"""


def sh(cmd, timeout=None, env=None, cwd=None, check=False):
    e = dict(os.environ)
    if env: e.update(env)
    try:
        p = subprocess.run(cmd, shell=isinstance(cmd, str), stdout=subprocess.PIPE, stderr=subprocess.STDOUT,
                           timeout=timeout, env=e, cwd=cwd, text=True, errors='replace')
        return p.returncode, p.stdout
    except subprocess.TimeoutExpired as ex:
        out = ex.stdout or ''
        if isinstance(out, bytes): out = out.decode(errors='replace')
        return 124, out


def unwrap_tlc(out):
    """TLC pretty-prints a value wider than its line width over several lines (<< "TAG",\n   1,\n   <<..>> >>).  Every
    consumer of printed tuples works on single lines, so wrapped values are joined back into TLC's own single-line form."""
    res = []; buf = None; depth = 0
    def scan(line, depth):
        inq = False; i = 0
        while i < len(line):
            c = line[i]
            if inq:
                if c == '\\': i += 1
                elif c == '"': inq = False
            elif c == '"': inq = True
            elif line.startswith('<<', i): depth += 1; i += 1
            elif line.startswith('>>', i): depth -= 1; i += 1
            i += 1
        return depth
    def squeeze(t):
        o = []; inq = False; i = 0
        while i < len(t):
            c = t[i]
            if inq:
                o.append(c)
                if c == '\\' and i + 1 < len(t): i += 1; o.append(t[i])
                elif c == '"': inq = False
            elif c == '"': inq = True; o.append(c)
            elif c in ' \t':
                if o and o[-1] != ' ': o.append(' ')
            else: o.append(c)
            i += 1
        t = ''.join(o)
        # outside strings only: TLC writes "<< " / " >>" in the wrapped form
        parts = re.split(r'("(?:[^"\\]|\\.)*")', t)
        for k in range(0, len(parts), 2): parts[k] = parts[k].replace('<< ', '<<').replace(' >>', '>>').replace('[ ', '[').replace(' ]', ']').replace('{ ', '{').replace(' }', '}')
        return ''.join(parts)
    for line in out.splitlines():
        if buf is None:
            if line.startswith('<<') or line.startswith('[ ') or line.startswith('{ '):
                d = scan(line, 0) if line.startswith('<<') else (1 if line.rstrip()[-1:] not in (']', '}') else 0)
                if line.startswith('<<') and d > 0: buf = [line]; depth = d; continue
            res.append(line)
        else:
            buf.append(line.strip()); depth = scan(line, depth)
            if depth <= 0: res.append(squeeze(' '.join(buf))); buf = None
    if buf: res.extend(buf)
    return '\n'.join(res)


class Ctx:
    def __init__(self, prop, tier, seed):
        self.prop, self.tier, self.seed = prop, tier, seed
        self.t0 = time.time()
        os.makedirs(SCRATCH_ROOT, exist_ok=True)
        self.scratch = tempfile.mkdtemp(prefix=f'{prop}-{tier}-', dir=SCRATCH_ROOT)
        self.violations = []          # (property, text, replay path)
        self.known = []               # (property, id, text)
        self.models = []              # dicts: name, states, transitions, wall
        self.trace_stats = dict(files=0, events=0, calls=0, executions=0, accepted_executions=0)
        self.distinct = set(); self.nontrivial = set(); self.funcs = {}
        self.samples = []
        self.notes = []
        self.assumptions = []
        self.builds = {}; self.hxdirs = {}
        self.kf = load_known_findings()
        self.kf_seen = set()
        self.timing = []
        self.hooks = {}

    def cleanup(self):
        shutil.rmtree(self.scratch, ignore_errors=True)

    # ---------------------------------------------------------------- builds
    def build(self, variant='default', harness=True):
        if variant in self.builds: return self.builds[variant]
        rc, out = sh([os.path.join(VERIF, 'lib/build.sh'), variant], timeout=1500)
        if rc != 0: raise Machinery(f'scratch build of /repo ({variant}) failed:\n{out[-3000:]}')
        b = out.strip().splitlines()[-1]
        if harness:
            env = {}
            if variant == 'asan': env = {'HX_CC': 'clang', 'HX_CFLAGS': '-O1 -g -fsanitize=address -fno-omit-frame-pointer'}
            if variant == 'tsan': env = {'HX_CC': 'clang', 'HX_CFLAGS': '-O1 -g -fsanitize=thread'}
            rc, out = sh([os.path.join(VERIF, 'lib/build_harness.sh'), b], timeout=900, env=env)
            if rc != 0: raise Machinery(f'harness build failed ({variant}):\n{out[-3000:]}')
            self.hxdirs[b] = out.strip().splitlines()[-1]
        self.builds[variant] = b
        return b

    def hx(self, build, exe='verif-hx'):
        """path of a harness executable built for this library build"""
        return os.path.join(self.hxdirs[build], exe)

    # ---------------------------------------------------------------- setup / L0
    def ensure_setup(self):
        if not os.path.exists(os.path.join(SPEC, 'java/classes/tlc2/module/BigZ.class')) or \
           not os.path.exists(os.path.join(SPEC, 'BigZPure.tla')) or \
           os.path.getmtime(os.path.join(SPEC, 'BigZ.tla')) > os.path.getmtime(os.path.join(SPEC, 'BigZPure.tla')):
            rc, out = sh([os.path.join(VERIF, 'bin/setup.sh')], timeout=1800)
            if rc != 0: raise Machinery('setup failed:\n' + out[-2000:])
        rc, out = sh([os.path.join(VERIF, 'lib/l0equiv.sh')], timeout=1800)
        if rc != 0: raise Machinery('L0Equiv (Java accelerators = TLA+ definitions) failed:\n' + out[-2000:])

    # ---------------------------------------------------------------- TLC model runs (R2)
    def tlc_model(self, module, cfg_text=None, cfg=None, workers=None, timeout=1500, heap='8g', name=None, expect_violation=False,
                  extra_args=(), pure=False, collect=None):
        """runs TLC on spec/<module>.tla; returns dict(states, transitions, ok, out). A violated invariant of a
        MODEL on the unchanged constants is a violation of the property (the design admits a bad state)."""
        name = name or module
        if cfg_text is not None:
            cfgp = os.path.join(self.scratch, f'{name}.cfg')
            open(cfgp, 'w').write(cfg_text)
        else:
            cfgp = os.path.join(SPEC, cfg or f'{module}.cfg')
        t0 = time.time()
        cmd = [os.path.join(VERIF, 'lib/tlc.sh')] + (['--pure'] if pure else []) + ['--heap', heap, '--timeout', str(timeout), '--',
               '-workers', str(workers or NCPU), '-config', cfgp] + list(extra_args) + [f'{module}.tla']
        rc, out = sh(cmd, timeout=timeout + 60)
        nl0 = out.count('\n'); out = unwrap_tlc(out)
        if out.count('\n') != nl0: self.notes.append(f'{name}: TLC wrapped printed values over {nl0 - out.count(chr(10))} extra lines; re-joined')
        m = re.search(r'(\d+) states generated, (\d+) distinct states found', out)
        res = dict(name=name, rc=rc, wall=round(time.time() - t0, 1), out=out,
                   transitions=int(m.group(1)) if m else 0, states=int(m.group(2)) if m else 0)
        res['ok'] = (rc == 0 and 'No error has been found' in out)
        res['violated'] = bool(re.search(r'Invariant .* is violated|Assumption .* is false|Temporal properties were violated|is violated by the initial state', out))
        if collect:
            res['collected'] = [l[len(collect):].strip() for l in out.splitlines() if l.startswith(collect)]
        if not res['ok'] and not res['violated'] and not expect_violation:
            raise Machinery(f'TLC run {name} failed (rc={rc}):\n' + '\n'.join(out.splitlines()[-40:]))
        self.models.append({k: res[k] for k in ('name', 'states', 'transitions', 'wall', 'ok')})
        return res

    def model_must_hold(self, res, prop=None, what=''):
        if res['violated']:
            rp = self.save_replay(f'model-{res["name"]}.txt', res['out'][-20000:])
            self.violation(prop or self.prop, f'model {res["name"]} {what}: invariant violated', rp)

    # ---------------------------------------------------------------- harness drivers (R3)
    def run_driver(self, build, driver, shards=None, extra='', timeout=900, tier=None, env=None, tag=''):
        """runs verif-hx <driver> for each shard in parallel; returns list of trace paths"""
        shards = shards or 1
        hx = self.hx(build)
        tier = tier or self.tier
        def one(k):
            path = os.path.join(self.scratch, f'{driver}{tag}.{os.path.basename(build)[-12:]}.{k}.ndjson')
            ex = f'{k}/{shards}' + ((',' + extra) if extra else '')
            rc, out = sh([hx, driver, tier, str(self.seed), path, ex], timeout=timeout, env=env)
            return k, path, rc, out
        paths = []
        t0 = time.time()
        with cf.ThreadPoolExecutor(max_workers=NCPU) as ex:
            for k, path, rc, out in ex.map(one, range(shards)):
                if rc == 124:
                    # a hang inside the library under test: the trace shows the call that never returned
                    self.notes.append(f'driver {driver} shard {k} timed out after {timeout}s')
                    with open(path, 'a') as f: f.write('\n{"e":"crash","sig":-1,"in":"timeout: the call above did not return"}\n')
                elif rc != 0:
                    raise Machinery(f'driver {driver} shard {k} failed rc={rc}: {out[-1500:]}')
                paths.append(path)
        self.timing.append((f'driver {driver} x{shards}' + (' ' + extra if extra else ''), round(time.time() - t0, 1)))
        return paths

    # ---------------------------------------------------------------- trace validation (R1)
    def validate(self, paths, pure=False, trace_module='MPIRTrace', cfg='MPIRTrace.cfg', timeout=1500, keep=False):
        """validates every trace file; rejected executions are isolated, re-validated alone, matched against the
        known findings and reported; validation continues with the rest of the file."""
        t0 = time.time()
        with cf.ThreadPoolExecutor(max_workers=NCPU) as ex:
            list(ex.map(lambda p: self._validate_file(p, pure, trace_module, cfg, timeout), paths))
        self.timing.append((f'validate {len(paths)} files' + (' (pure)' if pure else ''), round(time.time() - t0, 1)))
        if not keep:
            for p in paths:
                try: os.remove(p)
                except OSError: pass

    def _tlc_trace(self, path, pure, trace_module, cfg, timeout):
        cmd = [os.path.join(VERIF, 'lib/tlc.sh')] + (['--pure'] if pure else []) + ['--heap', '3g', '--timeout', str(timeout), '--',
               '-workers', '1', '-config', os.path.join(SPEC, cfg), f'{trace_module}.tla']
        rc, out = sh(cmd, timeout=timeout + 60, env={'TRACE': path})
        if 'No error has been found' in out and rc == 0:
            return None, out
        m = re.search(r'The depth of the complete state graph search is (\d+)', out)
        if 'Postcondition Accepted' in out and m:
            return int(m.group(1)), out           # 1-based line number where the behaviour is stuck
        m2 = re.search(r'Invariant (\w+) is violated', out)
        if m2:
            # an invariant of the machine failed in a reached state: the state number is the line consumed last
            st = re.findall(r'^State (\d+):', out, re.M)
            return (int(st[-1]) - 1 if st else 1), out
        raise Machinery(f'TLC trace validation failed on {path} (rc={rc}):\n' + '\n'.join(out.splitlines()[-30:]))

    def _validate_file(self, path, pure, trace_module, cfg, timeout):
        lines = open(path, errors='replace').read().splitlines()
        lines = [l for l in lines if l.strip()]
        # a driver that died without being able to finish its trace (e.g. killed inside the library): make that visible to the
        # specification as a crash event instead of a parse error
        if not lines or not lines[0].startswith('{"e":"reset"'):
            lines = ['{"e":"reset","drv":"?","x":0,"seed":"0"}'] + lines
        if lines and not lines[-1].rstrip().endswith('}'):
            lines[-1] = '{"e":"crash","sig":-2,"in":"trace truncated: the driver died while writing"}'
        open(path, 'w').write('\n'.join(lines) + '\n')
        self._account(lines)
        self.trace_stats['files'] += 1
        offset = 0
        cur = path
        while True:
            stuck, out = self._tlc_trace(cur, pure, trace_module, cfg, timeout)
            nexec = sum(1 for l in lines[offset:] if l.startswith('{"e":"reset"'))
            if stuck is None:
                self.trace_stats['accepted_executions'] += nexec
                break
            # locate the execution containing the stuck line
            idx = offset + stuck - 1
            if idx >= len(lines): idx = len(lines) - 1
            s = idx
            while s > offset and not lines[s].startswith('{"e":"reset"'): s -= 1
            e = idx + 1
            while e < len(lines) and not lines[e].startswith('{"e":"reset"'): e += 1
            self.trace_stats['accepted_executions'] += sum(1 for l in lines[offset:s] if l.startswith('{"e":"reset"'))
            execu = lines[s:e]
            # re-validate that execution alone: only a repeated rejection is reported
            alone = os.path.join(self.scratch, f'alone-{hashlib.md5((path + str(s)).encode()).hexdigest()[:10]}.ndjson')
            open(alone, 'w').write('\n'.join(execu) + '\n')
            st2, out2 = self._tlc_trace(alone, pure, trace_module, cfg, timeout)
            if st2 is not None:
                self._report_rejection(execu, st2, path)
            else:
                self.notes.append(f'rejection at {path}:{idx + 1} did not repeat in isolation (ignored)')
            os.remove(alone)
            offset = e
            if offset >= len(lines): break
            cur = os.path.join(self.scratch, f'rest-{hashlib.md5((path + str(offset)).encode()).hexdigest()[:10]}.ndjson')
            open(cur, 'w').write('\n'.join(lines[offset:]) + '\n')
        if cur != path:
            try: os.remove(cur)
            except OSError: pass

    def _account(self, lines):
        st = self.trace_stats
        for l in lines:
            st['events'] += 1
            if l.startswith('{"e":"reset"'): st['executions'] += 1
            elif l.startswith('{"e":"hk"'):
                m = re.match(r'\{"e":"hk","tag":"([^"]+)"', l)
                if m: self.hooks[m.group(1)] = self.hooks.get(m.group(1), 0) + 1
            elif l.startswith('{"e":"end"') or l.startswith('{"e":"fn"'):
                st['calls'] += 1
                m = re.match(r'\{"e":"(?:end|fn)","f":"([^"]+)"', l)
                f = m.group(1) if m else '?'
                self.funcs[f] = self.funcs.get(f, 0) + 1
                # distinct = distinct (function, arguments/inputs, results) ignoring block ids
                key = hashlib.md5(re.sub(r'"blk":-?\d+', '', l).encode()).digest()[:8]
                if key not in self.distinct:
                    self.distinct.add(key)
                    # non-trivial: some operand or result has at least two limbs (more than 16 hex digits)
                    if re.search(r'"-?[0-9a-f]{17,}"', l): self.nontrivial.add(key)
                    if len(self.samples) < 6 and re.search(r'"-?[0-9a-f]{17,}"', l) and len(l) < 700 and f not in [s.get('f') for s in self.samples]:
                        try: self.samples.append(json.loads(l))
                        except Exception: pass

    # ---------------------------------------------------------------- rejections, known findings
    def _report_rejection(self, execu, stuck, origin):
        ev = {}
        line = execu[min(stuck, len(execu)) - 1] if execu else ''
        try: ev = json.loads(line)
        except Exception: pass
        pool = replay_pool(execu[:stuck - 1])
        kf = match_known(self.kf, ev, pool, execu, stuck)
        if kf:
            key = kf['id']
            self.known.append((kf['property'], kf['id'], kf['text']))
            return
        prop = self.prop
        name = f'{self.prop}-{self.tier}-{hashlib.md5(("".join(execu)).encode()).hexdigest()[:12]}.ndjson'
        if len(self.violations) >= 8:           # keep disk and output bounded: further rejections are counted, not saved
            self.violations.append((prop, 'further rejection (not saved): ' + line[:160], self.violations[0][2])); return
        rp = self.save_replay(name, '\n'.join(execu) + '\n')
        what = f'rejected at line {stuck} of the execution: {line[:300]}'
        self.violation(prop, what, rp)

    def save_replay(self, name, text):
        d = os.path.join(os.environ.get('VERIF_REPLAY_DIR', os.path.join(VERIF, 'replays')), self.prop)
        os.makedirs(d, exist_ok=True)
        p = os.path.join(d, name)
        open(p, 'w').write(text)
        return p

    def violation(self, prop, text, replay):
        self.violations.append((prop, text, replay))

    def known_finding(self, prop, kid, text):
        self.known.append((prop, kid, text))

    # ---------------------------------------------------------------- evidence and exit
    def finish(self, level, rule, explanation='', extra_cov=None, exhaustive=False):
        wall = round(time.time() - self.t0, 1)
        cov = dict(
            evaluations=self.trace_stats['calls'] + sum(m['states'] for m in self.models),
            distinct_nontrivial=len(self.nontrivial) + sum(m['states'] for m in self.models),
            rule=rule,
            samples=self.samples[:6] or [m for m in self.models][:3],
            states=sum(m['states'] for m in self.models),
            transitions=sum(m['transitions'] for m in self.models),
            traces_validated_against_impl=self.trace_stats['accepted_executions'],
            explanation=explanation,
            exhaustive=exhaustive,
            models=self.models,
            trace_events=self.trace_stats['events'], trace_calls=self.trace_stats['calls'],
            executions=self.trace_stats['executions'], distinct_calls=len(self.distinct),
            distinct_calls_multi_limb=len(self.nontrivial),
            functions_exercised=len(self.funcs), calls_per_function=dict(sorted(self.funcs.items())),
            known_findings_reproduced=sorted({k[1] for k in self.known}),
            notes=self.notes, timing=self.timing, hook_labels_witnessed=dict(sorted(self.hooks.items())),
        )
        if extra_cov: cov.update(extra_cov)
        ev = dict(property_id=self.prop, tier=self.tier, seed=self.seed, level=level, coverage=cov,
                  assumptions=self.assumptions + [
                      'TLC 1.8.0 evaluates the specification correctly',
                      'the Java accelerators of BigZ equal their TLA+ definitions (checked by L0Equiv on samples; pure-mode re-validation of size-capped executions)',
                      'the recorder (harness/rec.c) reports the library state faithfully'],
                  wall_s=wall, violations=len(self.violations))
        evd = os.environ.get('VERIF_EVIDENCE_DIR', os.path.join(VERIF, 'evidence'))
        os.makedirs(evd, exist_ok=True)
        json.dump(ev, open(os.path.join(evd, f'{self.prop}.json'), 'w'), indent=1, default=str)
        seen = set()
        for p, kid, text in self.known:
            if (p, kid) in seen: continue
            seen.add((p, kid)); print(f'KNOWN-FINDING: property={p} id={kid} {text}')
        for p, text, rp in self.violations[:8]:
            print(f'VIOLATION property={p} replay={rp}')
            print(f'  {text[:400]}')
        if len(self.violations) > 8: print(f'  ... and {len(self.violations) - 8} further rejected executions')
        print(f'{self.prop} {self.tier}: {self.trace_stats["calls"]} calls in {self.trace_stats["executions"]} executions validated, '
              f'{sum(m["states"] for m in self.models)} model states, {len(self.violations)} violations, {wall}s')
        self.cleanup()
        return 1 if self.violations else 0


# -------------------------------------------------------------------- known findings
def load_known_findings():
    p = os.path.join(VERIF, 'known-findings.jsonl')
    out = []
    if os.path.exists(p):
        for l in open(p):
            l = l.strip()
            if l and not l.startswith('#'): out.append(json.loads(l))
    return out


def hexv(s):
    try: return int(s, 16)
    except Exception: return None


def replay_pool(lines):
    """value of every pool variable before the rejected event (for known-finding matchers)"""
    pool = {'z': {}, 'q': {}, 'f': {}}
    for l in lines:
        if not l.startswith('{"e":"end"'): continue
        try: ev = json.loads(l)
        except Exception: continue
        for c in ev.get('ch', []):
            if c['k'] == 'z': pool['z'][c['i']] = hexv(c.get('v', '0')) if c.get('live') else None
            elif c['k'] == 'q': pool['q'][c['i']] = (hexv(c['n']['v']), hexv(c['d']['v'])) if c.get('live') else None
            elif c['k'] == 'f': pool['f'][c['i']] = dict(v=hexv(c.get('v', '0')), exp=c.get('exp'), prec=c.get('prec'), sz=c.get('sz')) if c.get('live') else None
    return pool


def match_known(kfs, ev, pool, execu, stuck):
    for kf in kfs:
        if kf.get('status') != 'known': continue
        m = kf.get('match', {})
        if 'f' in m and ev.get('f') not in ([m['f']] if isinstance(m['f'], str) else m['f']): continue
        if 'e' in m and ev.get('e') != m['e']: continue
        when = m.get('when')
        if when:
            env = dict(ev=ev, a=ev.get('a', []), i=ev.get('i', {}), o=ev.get('o', {}), Z=pool['z'], Q=pool['q'], F=pool['f'],
                       H=hexv, ret=ev.get('ret'), ch=ev.get('ch', []), execu=execu, stuck=stuck, json=json)
            try:
                if not eval(when, {'__builtins__': {'len': len, 'int': int, 'abs': abs, 'any': any, 'all': all, 'str': str, 'isinstance': isinstance, 'dict': dict, 'list': list, 'range': range, 'min': min, 'max': max}}, env):
                    continue
            except Exception:
                continue
        return kf
    return None


PROP_OF_EVENT = [
    (r'^(fr|re|al|hfree|guard|quiesce)$', 'C04'),
]


def attribute_property(ev, default):
    e = ev.get('e', '')
    if e in ('fr', 're', 'guard', 'quiesce', 'hfree'): return 'C04' if default not in ('C04',) else default
    return default
