#!/usr/bin/env python3
"""tools/bindtest.py <trace.ndjson> '<line>@<old>=><new>' ...  -- development aid: for each edit, validate a copy of the trace with that one
field corrupted and report whether MPIRTrace.tla rejects it at that line (the binding demonstration of DESIGN.md I.4)."""
import sys, os, tempfile
sys.path.insert(0, os.path.join(os.path.dirname(os.path.abspath(__file__)), '..', 'lib'))
os.environ.setdefault('VERIF_EVIDENCE_DIR', tempfile.mkdtemp(prefix='bt-ev-')); os.environ.setdefault('VERIF_REPLAY_DIR', tempfile.mkdtemp(prefix='bt-rp-'))
import verif
src = open(sys.argv[1]).read().splitlines()
for ed in sys.argv[2:]:
    ln, rest = ed.split('@', 1); old, new = rest.split('=>', 1); ln = int(ln)
    ctx = verif.Ctx('C00', 'quick', 1)
    lines = list(src)
    if old not in lines[ln - 1]: print(f'line {ln}: {old!r} not found'); continue
    lines[ln - 1] = lines[ln - 1].replace(old, new, 1)
    p = os.path.join(ctx.scratch, 'bt.ndjson'); open(p, 'w').write('\n'.join(lines) + '\n')
    stuck, out = ctx._tlc_trace(p, False, 'MPIRTrace', 'MPIRTrace.cfg', 600)
    print(f'line {ln} {old!r} -> {new!r}:', 'ACCEPTED (not bound!)' if stuck is None else f'rejected at line {stuck}' + (' (exactly there)' if stuck == ln else ''))
    ctx.cleanup() if hasattr(ctx, 'cleanup') else None
