#!/bin/bash
# seedpipe.sh <seed> <property>...: confirm the seed (tools/confirm_seed.sh), then run each property's quick check against a patched copy of /repo
S=$1; shift; HERE="$(cd "$(dirname "$0")/.." && pwd)"
{ $HERE/tools/confirm_seed.sh $S | grep -v "ld:"; for P in "$@"; do $HERE/tools/try_seed.sh $S $P quick; done; } > /tmp/try_$S.out 2>&1
