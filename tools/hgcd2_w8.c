/* the library's mpn/generic/hgcd2.c compiled at an 8-bit limb (uint8_t arithmetic wraps at the type width exactly as mp_limb_t does at 64) */
#include <stdint.h>
#include <stdio.h>
#include <stdlib.h>
#include <assert.h>
typedef uint8_t mp_limb_t; typedef int8_t mp_limb_signed_t; typedef mp_limb_t *mp_ptr;
#define GMP_LIMB_BITS 8
#define GMP_NAIL_BITS 0
#define CNST_LIMB(x) ((mp_limb_t)(x))
#define ASSERT(x) assert(x)
#define UNLIKELY(x) (x)
struct hgcd_matrix1 { mp_limb_t u[2][2]; };
#define sub_ddmmss(sh, sl, ah, al, bh, bl) do { unsigned v_ = ((((unsigned)(ah)) << 8) | (al)) - ((((unsigned)(bh)) << 8) | (bl)); (sh) = (mp_limb_t)(v_ >> 8); (sl) = (mp_limb_t)v_; } while (0)
#define mpn_hgcd2 hgcd2_w8
#include "hgcd2_body.c"
static long labs_(long x) { return x < 0 ? -x : x; }
static int contract(unsigned ah, unsigned al, unsigned bh, unsigned bl, int ret, struct hgcd_matrix1 *M, int *tmax) {
  long B = 256, a = ah * B + al, b = bh * B + bl;
  int want = (a >= 2 * B && b >= 2 * B && labs_(a - b) >= 2 * B);
  if (ret != want) return 1;
  if (!ret) return 0;
  long u00 = M->u[0][0], u01 = M->u[0][1], u10 = M->u[1][0], u11 = M->u[1][1];
  if (u00 >= 128 || u01 >= 128 || u10 >= 128 || u11 >= 128) return 2;
  if (u00 * u11 - u01 * u10 != 1) return 3;
  long al_ = u11 * a - u01 * b, be = u00 * b - u10 * a;
  if (al_ <= 0 || be <= 0) return 4;
  if (al_ > a || be > b || al_ + be >= a + b) return 5;
  if (u11 * a < u01 * (b + 1) || u00 * b < u10 * (a + 1)) return 6;
  if (al_ - u01 < B || be - u10 < B) return 7;
  if (labs_(al_ - be) >= 4 * B) return 8;
  if (labs_(al_ - be) >= 2 * B) (*tmax)++;
  return 0;
}
int main(int argc, char **argv) {
  struct hgcd_matrix1 M;
  if (argc > 1) {   /* compare mode: lines "ah al bh bl ret u00 u01 u10 u11" from the TLA+ model at W = 8 */
    unsigned ah, al, bh, bl, u00, u01, u10, u11; int ret, n = 0, bad = 0;
    while (scanf("%u %u %u %u %d %u %u %u %u", &ah, &al, &bh, &bl, &ret, &u00, &u01, &u10, &u11) == 9) {
      int r = hgcd2_w8(ah, al, bh, bl, &M); n++;
      if (r != ret || (r && (M.u[0][0] != u00 || M.u[0][1] != u01 || M.u[1][0] != u10 || M.u[1][1] != u11))) { bad++; printf("MISMATCH %u %u %u %u: C ret %d (%u %u %u %u) model ret %d (%u %u %u %u)\n", ah, al, bh, bl, r, M.u[0][0], M.u[0][1], M.u[1][0], M.u[1][1], ret, u00, u01, u10, u11); }
    }
    printf("%d tuples compared, %d mismatches\n", n, bad); return bad != 0;
  }
  long bad = 0, n = 0, r1 = 0; int tmax = 0;
  unsigned lo = 0, hi = 256; if (getenv("AH_LO")) { lo = atoi(getenv("AH_LO")); hi = atoi(getenv("AH_HI")); }
  for (unsigned ah = lo; ah < hi; ah++) for (unsigned al = 0; al < 256; al++) for (unsigned bh = 0; bh < 256; bh++) for (unsigned bl = 0; bl < 256; bl++) {
    int r = hgcd2_w8(ah, al, bh, bl, &M), c = contract(ah, al, bh, bl, r, &M, &tmax); n++; r1 += r;
    if (c) { if (bad++ < 5) printf("CONTRACT clause %d fails at %u:%u %u:%u ret %d\n", c, ah, al, bh, bl, r); }
  }
  printf("ah %u..%u: %ld tuples, %ld with ret=1, %ld contract failures, %d with |alpha-beta| >= 2B\n", lo, hi - 1, n, r1, bad, tmax);
  return bad != 0;
}
