#!/bin/bash
# try_seed.sh <seed-dir-name> <property> [tier]: run a check against a COPY of /repo with the seeded patch applied
# (never touches /repo; separate build cache, evidence and replay dirs; SEED_BASE=<dir> uses another base tree than /repo). Prints the tail of the check output.
S=$1; P=$2; T=${3:-quick}
M=/tmp/mrepo/$S-$P; rm -rf $M; mkdir -p /tmp/mrepo
rsync -a --exclude='.git' ${SEED_BASE:-/repo}/ $M/
HERE="$(cd "$(dirname "$0")/.." && pwd)"
( cd $M && patch -p1 -s < $HERE/seeded/$S/patch.diff ) || { echo "patch failed"; exit 3; }
# in-tree objects of the copy are stale but unused: lib/build.sh copies sources only
VERIF_REPO=$M VERIF_CACHE=/var/tmp/mpir-verif-cache-mut-$S-$P VERIF_EVIDENCE_DIR=/tmp/mrepo/ev-$S VERIF_REPLAY_DIR=/tmp/mrepo/rp-$S VERIF_SCRATCH=/var/tmp/mpir-verif-scratch-mut \
  $HERE/bin/check $P $T > /tmp/mrepo/$S.$P.out 2>&1
echo "exit $? ($S vs $P $T)"; grep -E "VIOLATION|KNOWN|MACHINERY" /tmp/mrepo/$S.$P.out | head -5; tail -2 /tmp/mrepo/$S.$P.out
rm -rf $M /var/tmp/mpir-verif-cache-mut-$S-$P
