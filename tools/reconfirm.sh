#!/bin/bash
# reconfirm.sh <seed>: rebuild a scratch worktree with seeded/<seed>/patch.diff applied, then tools/confirm_seed.sh (which removes it)
S=$1; HERE="$(cd "$(dirname "$0")/.." && pwd)"
W=$($HERE/tools/mk_worktree.sh $S | tail -1)
( cd $W && git apply $HERE/seeded/$S/patch.diff && ./configure --enable-cxx CFLAGS="-O2" >/dev/null 2>&1 && make -j6 >/dev/null 2>&1 ) || { echo "build failed for $S"; git -C /repo worktree remove --force $W; exit 3; }
$HERE/tools/confirm_seed.sh $S
