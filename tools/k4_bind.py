#!/usr/bin/env python3
"""tools/k4_bind.py <trace.ndjson>...  -- binding demonstration for the K4 routines (copy of tools/k1_bind.py, extended to every output field):
for every function name found in the given traces take up to two recorded events (a small one and a much larger one), write a two-line trace
(reset + event) and, for EVERY output field in turn, corrupt it (last hex digit of a numeral changed / an integer changed by one, a sign flag flipped)
and check with tools/bindtest.py that MPIRTrace.tla rejects the event at line 2."""
import json, sys, os, subprocess, tempfile, re
here = os.path.dirname(os.path.abspath(__file__)); out = tempfile.mkdtemp(prefix='k4b-'); funs = {}
for p in sys.argv[1:]:
    reset = None
    for line in open(p):
        if '"e":"reset"' in line: reset = line; continue
        if '"e":"fn"' not in line or len(line) > 30000: continue
        m = re.search(r'"f":"([^"]+)"', line); f = m.group(1)
        if f in funs and len(funs[f]) >= 2: continue
        if f in funs and len(line) < 3 * len(funs[f][0][1]): continue
        if f not in funs and len(line) < 150 and f != 'mpir_revbin': continue      # skip the degenerate all-zero events
        funs.setdefault(f, []).append((reset, line))
bad = 0; n = 0
for f, lst in sorted(funs.items()):
    for idx, (reset, line) in enumerate(lst):
        fn = os.path.join(out, f'{f}_{idx}.ndjson'); open(fn, 'w').write(reset + line)
        o = json.loads(line)['o']; edits = []
        for k, v in o.items():
            if isinstance(v, str):
                new = v[:-1] + ('1' if v[-1] != '1' else '2'); edits.append((k, f'"{k}":"{v}"', f'"{k}":"{new}"'))
            elif isinstance(v, list) and v and isinstance(v[0], str):      # an array of numerals: first and last element
                for pos in sorted({0, len(v) - 1}):
                    w = list(v); w[pos] = w[pos][:-1] + ('1' if w[pos][-1] != '1' else '2')
                    edits.append((f'{k}[{pos}]', f'"{k}":' + json.dumps(v, separators=(',', ':')), f'"{k}":' + json.dumps(w, separators=(',', ':'))))
            elif isinstance(v, int):
                new = (-1 - v) if k == 'ret' else v + 1; edits.append((k, f'"{k}":{v}', f'"{k}":{new}'))
        # only the part after "o": is edited: make the pattern unique by anchoring on the output object
        head, tail = line.split('"o":', 1)
        for k, old, new in edits:
            if old not in tail: print(f'{f} #{idx} {k}: pattern not found'); bad += 1; continue
            l2 = head + '"o":' + tail.replace(old, new, 1); fn2 = os.path.join(out, f'{f}_{idx}_{k}.ndjson'); open(fn2, 'w').write(reset + line)
            # bindtest replaces the first occurrence in the whole line: give it the full line as the pattern
            r = subprocess.run([os.path.join(here, 'bindtest.py'), fn2, '2@' + line.rstrip('\n') + '=>' + l2.rstrip('\n')], capture_output=True, text=True).stdout.strip().splitlines()[-1]
            ok = 'rejected at line 2' in r; n += 1
            if not ok and k == 'ret' and o.get('m') == '0' and 'ACCEPTED' in r:
                print(f'{f} #{idx} output ret: accepted as the contract says (the value at the negative point is zero: either flag is allowed)'); continue
            bad += not ok
            print(f'{f} #{idx} output {k} ({len(old)} chars):', 'rejected at line 2' if ok else 'NOT REJECTED: ' + r[-80:])
print(f'{n} corruptions, ' + ('all rejected' if not bad else f'{bad} NOT rejected')); sys.exit(1 if bad else 0)
