#!/usr/bin/env python3
"""tools/cxxstream.py [quick|thorough] [keep]  -- development aid: only the stream / mpf_class part of C20 (CxxStreamModel rows -> harness/cxx_stream.cc,
harness/cxx_mpf.cc on the cxx scratch build -> validation).  Writes no evidence.  With `keep` the trace is left in /tmp/cxxstream.ndjson."""
import sys, os, tempfile, shutil
sys.path.insert(0, os.path.join(os.path.dirname(os.path.abspath(__file__)), '..', 'lib'))
os.environ.setdefault('VERIF_EVIDENCE_DIR', tempfile.mkdtemp(prefix='drv-ev-'))
os.environ.setdefault('VERIF_REPLAY_DIR', tempfile.mkdtemp(prefix='drv-rp-'))
import verif, props
from verif import sh, VERIF
tier = sys.argv[1] if len(sys.argv) > 1 else 'quick'
ctx = verif.Ctx('C20', tier, int(os.environ.get('VERIF_SEED', '1')))
ctx.ensure_setup()
rows = props.c20_stream_rows(ctx) if 'nostream' not in sys.argv else '/dev/null'
bx = ctx.build('cxx', harness=False)
d = os.path.join(ctx.scratch, 'cs'); os.makedirs(d)
open(os.path.join(d, 'main.cc'), 'w').write('#include <cstdio>\nFILE *out; void stream_section(const char *); void mpf_section(void);\n'
    'int main(int c, char **v) { out = fopen(v[1], "w"); if (!out) return 3; stream_section(v[2]); mpf_section(); fclose(out); return 0; }\n')
srcs = [os.path.join(d, 'main.cc'), os.path.join(VERIF, 'harness/cxx_stream.cc'), os.path.join(VERIF, 'harness/cxx_mpf.cc')] + props.c20_mpf_units(ctx, os.path.join(ctx.scratch, 'cxxf'))
exe = os.path.join(d, 'run')
import concurrent.futures as cf
def comp(s_):
    o = os.path.join(d, os.path.basename(s_) + '.o'); rc, out = sh(['g++', '-O0', '-w'] + ([f'-I{os.environ["CXXSTREAM_HDR_DIR"]}'] if os.environ.get('CXXSTREAM_HDR_DIR') else []) + [f'-I{bx}', '-c', s_, '-o', o], timeout=900)
    if rc != 0: print(out[-3000:]); sys.exit(2)
    return o
with cf.ThreadPoolExecutor(max_workers=16) as ex: srcs = list(ex.map(comp, srcs))
rc, out = sh(['g++', '-no-pie', '-o', exe] + srcs + os.environ.get('CXXSTREAM_EXTRA_OBJS', '').split() + [os.path.join(bx, '.libs/libmpirxx.a'), os.path.join(bx, '.libs/libmpir.a')], timeout=900)
if rc != 0: print(out); sys.exit(2)
tr = os.path.join(ctx.scratch, 'cs.ndjson')
rc, out = sh([exe, tr, rows], timeout=900)
print('run rc', rc, out[-500:])
if 'keep' in sys.argv: shutil.copy(tr, '/tmp/cxxstream.ndjson'); shutil.copy(rows, '/tmp/cxxstream.rows')
props.split_validate(ctx, tr, 'cs')
print(ctx.trace_stats, ctx.timing)
for v in ctx.violations[:12]: print(str(v)[:700])
print(len(ctx.violations), 'violations')
