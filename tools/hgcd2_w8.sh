#!/bin/bash
# tools/hgcd2_w8.sh [witness-file]  -- development aid (not a registered check): cross-check of the transcription spec/Hgcd2.tla against the C text.
# Compiles /repo/mpn/generic/hgcd2.c ITSELF (its text minus the #include lines) with mp_limb_t = uint8_t, GMP_LIMB_BITS = 8 (tools/hgcd2_w8.c holds the
# typedefs, sub_ddmmss on 16-bit values and the contract clauses R M C S T of Hgcd2.tla coded in C) and
#   without argument: runs ALL 2^32 operand tuples in 8 processes (about 1.5 min) and reports contract failures (expected: 0);
#   with a file of lines "ah al bh bl ret u00 u01 u10 u11" (the tuples the model prints at W = 8 with EMIT = TRUE): compares return value and matrix.
set -e
REPO=${REPO:-/repo}; D=$(mktemp -d /tmp/hgcd2w8.XXXXXX); HERE="$(cd "$(dirname "$0")" && pwd)"
grep -v '^#include' $REPO/mpn/generic/hgcd2.c > $D/hgcd2_body.c
cp $HERE/hgcd2_w8.c $D/cx.c
gcc -O2 -w -I$D -o $D/cx $D/cx.c
if [ -n "$1" ]; then $D/cx compare < "$1"; RC=$?; rm -rf $D; exit $RC; fi
for k in 0 1 2 3 4 5 6 7; do AH_LO=$((k*32)) AH_HI=$((k*32+32)) $D/cx > $D/out.$k & done; wait
cat $D/out.*; RC=0; grep -q "CONTRACT" $D/out.* && RC=1; rm -rf $D; exit $RC
