#!/bin/bash
# mk_worktree.sh <name>: scratch git worktree of /repo HEAD under /tmp/wt/<name> with the generated autotools files copied in
set -e
W=/tmp/wt/$1
mkdir -p /tmp/wt
git -C /repo worktree add --detach "$W" HEAD >/dev/null 2>&1
rsync -a --ignore-existing --exclude='.git' --exclude='*.o' --exclude='*.lo' --exclude='*.la' --exclude='.libs' --exclude='*.log' --exclude='*.trs' \
  --exclude='config.status' --exclude='/config.h' --exclude='Makefile' --exclude='.deps' --exclude='libtool' --exclude='stamp-h1' \
  --exclude='/mpir.h' --exclude='/longlong.h' --exclude='/gmp-mparam.h' --exclude='/mpn/*.c' --exclude='/mpn/*.as' --exclude='/mpn/*.asm' \
  --exclude='/tests/*/t-*[!.]?' --exclude='_build' --exclude='autom4te.cache' /repo/ "$W"/
echo "$W"
