#!/usr/bin/env python3
"""tools/mk_meta.py <seed> <property> [--needs text] [--note text]: writes seeded/<seed>/meta.json from the agent's NOTES.md (title = what breaks; the
'needed to manifest' section), CONFIRM.txt (my own confirmation run) and the trial outputs /tmp/q/<seed>.<prop>.try (tools/try_seed.sh)."""
import sys, os, re, json, glob
HERE = os.path.dirname(os.path.dirname(os.path.abspath(__file__)))
seed, prop = sys.argv[1], sys.argv[2]
opts = dict(zip(sys.argv[3::2], sys.argv[4::2]))
d = os.path.join(HERE, 'seeded', seed)
notes = open(os.path.join(d, 'NOTES.md'), errors='replace').read()
title = re.sub(r'^#+\s*', '', notes.splitlines()[0]).strip()
title = re.sub(r'^(Seed\s+)?%s\s*(seeded regression|seed)?\s*[:—-]*\s*' % seed, '', title, flags=re.I).strip()
m = re.search(r'^#+[^\n]*(needed|manifest|trigger)[^\n]*\n(.*?)(?=^#+ )', notes, re.S | re.M | re.I)
needs = opts.get('--needs') or (re.sub(r'\s+', ' ', m.group(2)).strip()[:600] if m else '')
det = {}
for f in sorted(glob.glob(f'/tmp/q/{seed}.*.try')):
    p = os.path.basename(f).split('.')[1]; t = open(f, errors='replace').read()
    ex = re.search(r'exit (\d+)', t); nv = len(re.findall(r'^VIOLATION', t, re.M))
    last = [l for l in t.splitlines() if l.strip()][-1][:300] if t.strip() else ''
    rej = re.search(r'rejected at line \d+ of the execution: (\{.{0,160})', t)
    det[f'{p} quick'] = (f'VIOLATION x{nv}' if ex and ex.group(1) == '1' else f'exit {ex.group(1) if ex else "?"} (not reported)') + (f'; first rejected event {rej.group(1)}...' if rej else '') + f'; {last}'
conf = ''
cp = os.path.join(d, 'CONFIRM.txt')
if os.path.exists(cp): conf = ' | '.join(l.strip() for l in open(cp, errors='replace') if l.startswith(('demo against', 'make check', 'diff of')))
meta = {'property': prop, 'breaks': title, 'needs': needs, 'detected_by': det,
        'source': 'independent sub-agent in its own scratch worktree (saw only the property text); my confirmation: ' + conf,
        'ran': '; '.join(f'tools/try_seed.sh {seed} {k.split()[0]} quick' for k in det)}
if '--note' in opts: meta['note'] = opts['--note']
json.dump(meta, open(os.path.join(d, 'meta.json'), 'w'), indent=1)
print(json.dumps(meta, indent=1)[:1500])
