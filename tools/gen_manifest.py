#!/usr/bin/env python3
"""Regenerates /verif/MANIFEST.json from the table below (keeps it schema-valid)."""
import json, os, subprocess
V = os.path.dirname(os.path.dirname(os.path.abspath(__file__)))
props = [json.loads(l)['id'] for l in open(os.path.join(V, 'properties.jsonl'))]
TRUST = ('TLC evaluates the specification correctly; the BigZ Java accelerators equal their TLA+ definitions (L0Equiv + pure-mode re-validation); '
         'the recorder reports library state faithfully; exhaustiveness is over small limb bases/sizes (R2) and enumerated shapes (R3), 64-bit contents are witnesses and samples')
CHECKS = {
 'C01': ('model_checking', 'TLA+ models MulDispatch (size dispatch with the tree\'s thresholds: callee domains; fallback loop and chunked basecase at limb base 2) and FFTParams (parameter search: no coefficient wrap), TLC exhaustive; products of the real library at every boundary shape / every (depth,w) validated against MPIR.tla', 'exhaustive dispatch/parameter models with the constants of the tree under test + trace validation of real products (all-ones, single-bit, runs, same-object operands)', '4 C01'),
 'C02': ('model_checking', 'TLA+ models UdivPreinv (3/2 quotient step, all inputs at 3..5-bit words) and SbDivQr (schoolbook loop at limb base 4/8), TLC exhaustive; divisions of the real library (every crossover, inverse-constructed contents, all mpz rounding families) validated against MPIR.tla', 'exhaustive small-word models of the quotient-digit machinery + trace validation of n = q*d + r with the documented rounding', '4 C02'),
 'C03': ('model_checking', 'TLA+ model MpzAors (aors.h over a block store; TLC exhaustive) + trace validation of mpn/mpz add/sub/neg/shift/copy against MPIR.tla', 'exhaustive small-base model of the mpz add/sub case analysis with memory and aliasing; every recorded call of the real kernels (all lengths mod unrolling, carry chains, shift counts, overlaps, sign combinations, alias partitions) validated by TLC', '4 C03'),
 'C04': ('model_checking', 'abstract machine MPIR.tla: allocator contract as enabledness, well-formedness, ownership and leak accounting checked by TLC on recorded random call histories (recording allocator installed with mp_set_memory_functions) + block-store models MpzAors/MpzLogic', 'histories of public calls with realloc2/clear/swap between calls are validated event by event: free/realloc only with the exact current size, no surviving temporary, objects well formed after every call, values independent of allocation', '4 C04'),
 'C05': ('model_checking', 'alias-partition enumeration from the API table replayed on the real library and validated against MPIR.tla (expected result computed from the specification\'s own pre-state; non-outputs unchanged) + store-order models MpzAors/MpzLogic', 'every permitted partition of the mpz arguments of every function x size classes x exact/generous allocation', '4 C05'),
 'C06': ('model_checking', 'TLA+ RadixText (text format round trip in all 96 bases; number grammar on every short string, replayed into the parsers) + trace validation of get_str/set_str/sizeinbase/mpn conversions against BigZ digits', 'text-format model with grammar enumeration as test generator + validation of conversions at every crossover', '4 C06'),
 'C07': ('model_checking', 'TLA+ GcdContract (gcdext contract has exactly one solution; Kronecker oracle = definition) + trace validation of gcd/gcdext/lcm/invert/jacobi/kronecker against Euclid and the contract predicate', 'contract model + traces over Lehmer/HGCD/sub-quadratic sizes with Fibonacci, prescribed-quotient, common-factor and special-case operands', '4 C07'),
 'C08': ('model_checking', 'TLA+ PowmEven (case analysis of mpz_powm at a 2-bit limb, TLC exhaustive) + trace validation of powm/powm_ui/pow_ui/ui_pow_ui against modular exponentiation', 'case-analysis model + traces over modulus classes (odd, 2-adic valuations, powers of two, +-1), window-boundary exponents, base classes, negative exponents', '4 C08'),
 'C09': ('model_checking', 'TLA+ RootContract (root/perfect-power predicates = brute force) + trace validation of sqrt/root/rootrem/perfect_* and mpn_sqrtrem with exact root predicates', 'contract model + traces on k^n, k^n +- 1 families', '4 C09'),
 'C10': ('model_checking', 'TLA+ model MpzLogic (mpz_and over a block store, all sign paths and alias patterns; TLC exhaustive) + trace validation of all bit functions against infinite two\'s-complement definitions', 'exhaustive small-base model + traces with negatives having low zero limbs, -1, -2^k, indices below/at/above the length', '4 C10'),
 'C11': ('model_checking', 'TLA+ FitsGet (fits/get/cmp_si transcribed with type widths as constants) + trace validation of every compare/convert function at every C type boundary with doubles as exact dyadics', 'type-width model + traces at +-(2^b + d) for all boundaries, 42 doubles incl. subnormals/2^53/inf', '4 C11'),
 'C12': ('model_checking', 'TLA+ MpqOps (mpq_mul/add/sub store sequences under all alias patterns: exact and canonical; TLC exhaustive) + trace validation requiring canonical exact results', 'store-sequence model + traces with prescribed common factors for every gcd branch', '4 C12'),
 'C13': ('model_checking', 'TLA+ MpfContract (accuracy predicates vs brute force) + trace validation evaluating |result - exact| < 2^(2-p)|exact|, the exactness clause and the mpf format rules exactly on dyadic rationals', 'exact evaluation of the property\'s inequality on every recorded float operation (independent precisions, all exponent differences, cancellation, aliasing, set_prec histories)', '4 C13'),
 'C16': ('model_checking', 'TLA+ BinDispatch (mpz_bin_uiui algorithm selection: table limits sound and tight; boundary pairs replayed) + trace validation against combinatorial definitions and deterministic Miller-Rabin', 'dispatch/table model + dense argument sweeps, pseudoprime families, prime gaps', '4 C16'),
 'C14': ('translation_validation', 'every build variant (all x86-64 CPU directory mappings, pure C, fat, --enable-assert, alloca modes) built from the working tree; its thresholds drive the TLA+ dispatch models; a kernel/API battery is traced and validated against the same MPIR.tla; TLA+ FatInit model of the lazy dispatch initialisation', 'the same specification decides every (variant, kernel) pair; asm-only kernels checked by their defining identities', '4 C14'),
 'C15': ('exploration', 'TLA+ Threads (interleavings at yield points, TLC-enumerated schedules forced on the real library by a cooperative scheduler; per-thread traces validated against the sequential MPIR.tla) + global-write inventory (MPIR!GlobalWrite admits only documented globals) + FatInit; thorough: ThreadSanitizer pass as auxiliary channel', 'schedules are explored at yield-point granularity only (level: exploration); hidden shared state is caught deterministically by the write inventory', '4 C15'),
 'C17': ('fault_enumeration', 'TLA+ IOFormat/IOModel (export/import layout, raw format, every fault position enumerated by TLC) replayed through fault-injecting fopencookie streams; traces validated against the documented formats and return codes', 'every truncation point and failing write position of small values is enumerated; larger values sampled', '4 C17'),
 'C18': ('model_checking', 'TLA+ PrintfLayout/PrintfModel: transcription of doprnt.c/doprnti.c equals C99 printf layout on the whole flag x width x precision x conversion x value product (TLC); every row replayed on gmp_snprintf and on the C library; snprintf/asprintf/scanf accounting', 'layout model checked against the standard and against libc, then against the implementation', '4 C18'),
 'C19': ('model_checking', 'TLA+ RandModels (urandomm rejection, LC chunk assembly) + trace validation with a reproducibility ghost (history key -> outputs) in MPIR.tla and whole-sample statistics evaluated by TLC', 'range, reproducibility and gross-uniformity decided on recorded histories of twin/copy generator states', '4 C19'),
 'C20': ('exploration', 'TLA+ CxxExpr enumerates well-typed expression trees; generated C++ compiled against mpirxx.h; printed values validated against CxxSem!EvalZ/EvalQ (sub-expression-wise C semantics); conversions/streams against SemIO', 'trees to depth 2 (bounded), four operand classes; mpf_class arithmetic not enumerated', '4 C20'),
}
NA_REASON = 'check not built yet (work in progress; see DESIGN.md section 7)'
hooks_commits = []
try:
    out = subprocess.run(['git', '-C', '/repo', 'log', '--format=%H %s'], capture_output=True, text=True).stdout
    hooks_commits = [l.split()[0] for l in out.splitlines() if 'verif hook' in l.lower() or l.split(' ', 1)[1].startswith('hook:')]
except Exception: pass
m = {
 'version': 1,
 'setup_cmd': 'bin/setup.sh',
 'hooks': {'guard': 'MPIR_VERIF',
           'enable': "lib/build.sh copies /repo's working tree to a scratch directory and configures it with CFLAGS='-O2 -DMPIR_VERIF' (static, per variant)",
           'baseline_off_cmd': 'cd /repo && make check',
           'source_commits': hooks_commits, 'add_only': True},
 'engines': [
   {'name': 'tlc-models', 'path': 'spec/', 'serves_properties': sorted(CHECKS), 'kind_free_text': 'TLA+ specifications checked exhaustively by TLC (R2 models) and the abstract machine MPIR.tla'},
   {'name': 'trace-validation', 'path': 'spec/MPIRTrace.tla', 'serves_properties': sorted(CHECKS), 'kind_free_text': 'recorded executions of the real library (harness/) validated by TLC as behaviours of MPIR.tla'},
   {'name': 'harness', 'path': 'harness/', 'serves_properties': sorted(CHECKS), 'kind_free_text': 'C drivers + recording allocator linked against a scratch build of /repo'}],
 'checks': [],
 'notes': 'bin/check <id> quick|thorough; exit 2 = machinery failure (never a verdict). Known findings: known-findings.jsonl.',
 'not_applicable': [],
}
for p in props:
    if p in CHECKS:
        lvl, tech, text, ref = CHECKS[p]
        m['checks'].append({'property_id': p, 'quick_cmd': f'bin/check {p} quick', 'thorough_cmd': f'bin/check {p} thorough',
                            'evidence_file': f'/verif/evidence/{p}.json', 'replay_cmd_template': f'bin/check {p} quick --replay {{path}}',
                            'engine': 'tlc-models+trace-validation',
                            'level_claimed': {'category': lvl, 'text': text, 'design_ref': f'DESIGN.md section {ref}'},
                            'level_note': TRUST, 'technique': tech})
    else:
        m['not_applicable'].append({'property_id': p, 'reason': NA_REASON})
json.dump(m, open(os.path.join(V, 'MANIFEST.json'), 'w'), indent=1)
print('manifest:', len(m['checks']), 'checks,', len(m['not_applicable']), 'not applicable')
