#!/usr/bin/env python3
"""Regenerates /verif/MANIFEST.json from the table below (keeps it schema-valid)."""
import json, os, subprocess
V = os.path.dirname(os.path.dirname(os.path.abspath(__file__)))
props = [json.loads(l)['id'] for l in open(os.path.join(V, 'properties.jsonl'))]
TRUST = ('TLC evaluates the specification correctly; the BigZ Java accelerators equal their TLA+ definitions (L0Equiv + pure-mode re-validation); '
         'the recorder reports library state faithfully; exhaustiveness is over small limb bases/sizes (R2) and enumerated shapes (R3), 64-bit contents are witnesses and samples')
CHECKS = {
 'C03': ('model_checking', 'TLA+ model MpzAors (aors.h over a block store; TLC exhaustive) + trace validation of mpn/mpz add/sub/neg/shift/copy against MPIR.tla',
         'Exhaustive small-base model of the mpz add/sub case analysis with memory and aliasing; every recorded call of the real kernels (all lengths mod unrolling, carry chains, shift counts, overlaps, sign combinations) is validated by TLC against the abstract machine', '4 C03'),
}
NA_REASON = 'check not built yet (work in progress; see DESIGN.md section 7)'
hooks_commits = []
try:
    out = subprocess.run(['git', '-C', '/repo', 'log', '--format=%H %s'], capture_output=True, text=True).stdout
    hooks_commits = [l.split()[0] for l in out.splitlines() if 'verif hook' in l.lower() or l.split(' ', 1)[1].startswith('hook:')]
except Exception: pass
m = {
 'version': 1,
 'setup_cmd': 'bin/setup.sh',
 'hooks': {'guard': 'MPIR_VERIF',
           'enable': "lib/build.sh copies /repo's working tree to a scratch directory and configures it with CFLAGS='-O2 -DMPIR_VERIF' (static, per variant)",
           'baseline_off_cmd': 'cd /repo && make check',
           'source_commits': hooks_commits, 'add_only': True},
 'engines': [
   {'name': 'tlc-models', 'path': 'spec/', 'serves_properties': sorted(CHECKS), 'kind_free_text': 'TLA+ specifications checked exhaustively by TLC (R2 models) and the abstract machine MPIR.tla'},
   {'name': 'trace-validation', 'path': 'spec/MPIRTrace.tla', 'serves_properties': sorted(CHECKS), 'kind_free_text': 'recorded executions of the real library (harness/) validated by TLC as behaviours of MPIR.tla'},
   {'name': 'harness', 'path': 'harness/', 'serves_properties': sorted(CHECKS), 'kind_free_text': 'C drivers + recording allocator linked against a scratch build of /repo'}],
 'checks': [],
 'notes': 'bin/check <id> quick|thorough; exit 2 = machinery failure (never a verdict). Known findings: known-findings.jsonl.',
 'not_applicable': [],
}
for p in props:
    if p in CHECKS:
        lvl, tech, text, ref = CHECKS[p]
        m['checks'].append({'property_id': p, 'quick_cmd': f'bin/check {p} quick', 'thorough_cmd': f'bin/check {p} thorough',
                            'evidence_file': f'/verif/evidence/{p}.json', 'replay_cmd_template': f'bin/check {p} quick --replay {{path}}',
                            'engine': 'tlc-models+trace-validation',
                            'level_claimed': {'category': lvl, 'text': text, 'design_ref': f'DESIGN.md section {ref}'},
                            'level_note': TRUST, 'technique': tech})
    else:
        m['not_applicable'].append({'property_id': p, 'reason': NA_REASON})
json.dump(m, open(os.path.join(V, 'MANIFEST.json'), 'w'), indent=1)
print('manifest:', len(m['checks']), 'checks,', len(m['not_applicable']), 'not applicable')
