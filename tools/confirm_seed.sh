#!/bin/bash
# confirm_seed.sh <seed>: my own confirmation of a seed delivered by an independent agent in /tmp/wt/<seed> (change applied and built there):
# demo fails with the change, passes against a build of the unchanged /repo tree, the repository's suite passes with the change. Then the worktree is removed.
S=$1; W=/tmp/wt/$S; HERE="$(cd "$(dirname "$0")/.." && pwd)"; D=$HERE/seeded/$S; O=$D/CONFIRM.txt
CLEAN=$($HERE/lib/build.sh cxx 2>/dev/null | tail -1)
demo=$(ls $D/demo.c $D/demo.cc 2>/dev/null | head -1)
{ echo "confirmation run $(date -u +%FT%TZ)"; 
  if [ "${demo##*.}" = cc ]; then CCX=g++; LX="libmpirxx.a"; else CCX=gcc; LX=""; fi
  for side in changed clean; do
    if [ $side = changed ]; then L=$W; else L=$CLEAN; fi
    LIBS="$L/.libs/libmpir.a"; [ -n "$LX" ] && LIBS="$L/.libs/libmpirxx.a $LIBS"
    $CCX -O1 -w -I$L $demo $LIBS -lm -lpthread -o /tmp/demo-$S-$side 2>&1 | tail -3
    timeout 600 /tmp/demo-$S-$side > /tmp/demo-$S-$side.out 2>&1; rc=$?
    echo "demo against $side tree: exit $rc, last line: $(tail -1 /tmp/demo-$S-$side.out | cut -c1-200)"
    rm -f /tmp/demo-$S-$side /tmp/demo-$S-$side.out
  done
  echo "diff of worktree vs patch.diff: $(git -C $W diff | diff -q - $D/patch.diff >/dev/null && echo identical || echo DIFFERENT)"
  ( cd $W && make -j8 >/dev/null 2>&1; timeout 3000 make -j8 check > /tmp/check-$S.log 2>&1 ); 
  echo "make check with the change: $(grep -E '^# (TOTAL|PASS|FAIL|ERROR)' /tmp/check-$S.log | awk '{a[$2]+=$3} END {for (k in a) printf "%s %d  ", k, a[k]}')"
  rm -f /tmp/check-$S.log
} > $O 2>&1
git -C /repo worktree remove --force $W 2>/dev/null; rm -rf $W
cat $O
