#!/bin/bash
# try_seed_drv.sh <seed> <driver> [shards] [extra]: development aid -- apply seeded/<seed>/patch.diff to a COPY of the base tree (SEED_BASE, default /repo),
# build it in its own cache and run ONE driver with trace validation (tools/drv.py).  Faster than a whole check; never touches /repo.
S=$1; D=$2; N=${3:-8}; X=${4:-}
HERE="$(cd "$(dirname "$0")/.." && pwd)"
M=/var/tmp/seedtrial-$S-$$; rm -rf $M; rsync -a --exclude='.git' ${SEED_BASE:-/repo}/ $M/
( cd $M && patch -p1 -s < $HERE/seeded/$S/patch.diff ) || { echo "patch failed"; rm -rf $M; exit 3; }
VERIF_REPO=$M VERIF_CACHE=/var/tmp/seedtrial-cache-$S-$$ $HERE/tools/drv.py $D $N quick "$X" 2>&1 | tail -4 | cut -c1-400
rm -rf $M /var/tmp/seedtrial-cache-$S-$$
