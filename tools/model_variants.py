#!/usr/bin/env python3
"""tools/model_variants.py [name-filter]  -- non-vacuity self-test of the R2 models.

Every small-scope model carries a Variant constant: "ok" is the transcription of the code as it is, every other value flips one step
(the kind of slip an edit makes, or the defect that was found in the tree).  The model must hold for "ok" and must be VIOLATED for
every other variant, otherwise its invariants would accept anything.  Prints one line per (model, variant); exit 1 if any expectation fails.
This is a test of the machinery, not of /repo: it is not one of the registered checks."""
import sys, os, tempfile, re, subprocess, concurrent.futures as cf
HERE = os.path.dirname(os.path.abspath(__file__)); VERIF = os.path.dirname(HERE)
M = [
 # module, constants (without Variant), invariants (None = ASSUME-only model), variants
 ('MpzAors',   {'B': 3, 'V': 5}, ('Correct',), ['ptr_before_realloc', 'wsize_short', 'no_normalize']),
 ('MpzLogic',  {'B': 4, 'V': 5}, ('Correct',), ['no_carry_limb']),      # "no_reread" is harmless for mpz_and (the destination never grows when it is an operand): the model agrees
 ('MpqOps',    {'K': 6}, ('Correct',), ['no_second_gcd', 'early_den_store']),
 ('Mpq2exp',   {'W': 2, 'L': 4, 'NUMMAX': 9, 'NMAX': 9}, None, ['copy_decr', 'skip_ignores_n', 'no_top_strip']),
 ('DivRound',  {'M': 30}, None, ['fdiv_sign', 'cdiv_no_zero_test', 'ui_ret']),
 ('Div2exp',   {'W': 2, 'N': 3, 'CMAX': 8}, None, ['carry_only_whole_limb', 'no_top_strip', 'round_skips_ignored', 'r_no_normalize', 'r_no_strip', 'r_fill_short']),
 ('SbDivQr',   {'B': 4, 'DN': 3, 'NN': 5, 'EMITSB': 'FALSE'}, ('Correct',), ['no_special']),
 ('PowmEven',  {'W': 2, 'MMAX': 40, 'BMAX': 8, 'EMAX': 6}, ('Correct',), ['no_fold', 'shortcut_ge']),
 ('RandModels', {'W': 3, 'NMAX': 300, 'MMAX': 10}, None, ['accept_equal', 'chunk_floor']),
 ('CxxStreamModel', {'EMIT': 'FALSE', 'L': 2}, None, ['justlen_no_sign', 'upper_ignored', 'internal_as_right', 'showbase_always']),
 ('FatInit',   {'Threads': '{1, 2}', 'NF': 2, 'NT': 2, 'Ops': 2}, ('AlwaysDecided', 'SlotsSane', 'FinalVector', 'FlagImpliesInstalled'), ['flag_first']),
 # MpfAddSub (C13/C04): row A = every variant visible at W=2, prec field 2; row B = W=3 with operands up to prec+3 limbs (the truncation inside "cancellation"); row C = prec field 3 (a gap between u and v inside the precision)
 ('MpfAddSub', {'W': 2, 'PRECS': '{2}', 'LIMBS': '{0,1,3}', 'Funs': '{"add","sub"}', 'Aliases': '{"none","ru","rv","ruv"}', 'USigns': '{1}', 'XS': 2, 'Checker': '"int"'}, ('Correct',),
   ['no_exp_reset_on_zero', 'exp_not_decremented', 'copy_low_limbs', 'no_negate_on_swap', 'no_negate_on_limb_swap', 'no_normalize', 'normalize_keeps_exp', 'special_cy_inverted', 'no_borrow_from_low',
    'no_close_operands_path', 'sub_prec_plus2', 'set_no_truncate', 'add_prec_plus1', 'add_copy_low_limbs', 'add_v_not_truncated', 'add_direct_rp', 'add_no_carry_exp']),
 ('MpfAddSub', {'W': 3, 'PRECS': '{2}', 'LIMBS': '{0,1,7}', 'Funs': '{"sub"}', 'Aliases': '{"none"}', 'USigns': '{1}', 'XS': 3, 'Checker': '"int"'}, ('Correct',), ['truncate_before_cancel']),
 ('MpfAddSub', {'W': 2, 'PRECS': '{3}', 'LIMBS': '{0,3}', 'Funs': '{"add","sub"}', 'Aliases': '{"none"}', 'USigns': '{1}', 'XS': 2, 'Checker': '"int"'}, ('Correct',), ['add_no_zero_gap', 'gap_zero_fill']),
 ('SqrtremDC', {'W': 4, 'TP': 2, 'NMAX': 2, 'WMAX': 4, 'EMIT': 'FALSE'}, ('Correct',), ['lost_carry_in_correction', 'no_final_adjust', 'no_2q_in_correction', 'no_sub_when_q', 'odd_bit_dropped',
               's2_lost_carry_in_correction', 's2_no_final_adjust', 's2_no_qhl_loop', 's1_no_tab_fixup', 'w_no_s0_fix']),
 ('SqrtremDC', {'W': 8, 'TP': 2, 'NMAX': 1, 'WMAX': 2, 'EMIT': 'FALSE'}, ('Correct',), ['s1_no_loop_adjust']),       # the sqrtrem1 doubling loop runs only for W >= 4*TP
 ('Hgcd2',     {'W': 4, 'LOWSEL': 0, 'EMIT': 'FALSE'}, ('Correct',), ['no_small_check', 'q_not_incremented', 'sp_break_small', 'small_q_wrong', 'div2_gt']),
]
def run(mod, consts, inv, variant):
    d = tempfile.mkdtemp(prefix='mv-')
    cfgp = os.path.join(d, 'm.cfg')
    c = 'SPECIFICATION Spec\nCONSTANTS\n' + ''.join(f'  {k} = {v}\n' for k, v in consts.items()) + f'  Variant = "{variant}"\n'
    for i in (inv or ()): c += f'INVARIANT {i}\n'
    c += 'CHECK_DEADLOCK FALSE\n'
    open(cfgp, 'w').write(c)
    p = subprocess.run([os.path.join(VERIF, 'lib/tlc.sh'), '--timeout', '900', '--', '-workers', '4', '-config', cfgp, mod + '.tla'], capture_output=True, text=True)
    out = p.stdout + p.stderr
    ok = p.returncode == 0 and 'No error has been found' in out
    bad = bool(re.search(r'Invariant .* is violated|Assumption .* is false|is violated by the initial state', out))
    return mod, variant, ok, bad, out
def main():
    flt = sys.argv[1] if len(sys.argv) > 1 else ''
    jobs = [(m, c, i, v) for m, c, i, vs in M if flt in m for v in ['ok'] + vs]
    fails = 0
    with cf.ThreadPoolExecutor(max_workers=4) as ex:
        for mod, variant, ok, bad, out in ex.map(lambda j: run(*j), jobs):
            good = ok if variant == 'ok' else (bad and not ok)
            print(f'{mod:12s} {variant:24s} {"holds" if ok else ("VIOLATED" if bad else "ERROR")}   {"as expected" if good else "UNEXPECTED"}')
            if not good: fails += 1; sys.stderr.write(out[-1500:] + '\n')
    return 1 if fails else 0
sys.exit(main())
