#!/usr/bin/env python3
"""tools/cxx_bind.py <trace.ndjson>  -- binding demonstration for the C20 stream / mpf_class events (adapted from tools/k1_bind.py): for every event
kind pick recorded events, write a two-line trace (reset + event), corrupt ONE field of the event and check that MPIRTrace.tla accepts the original and
rejects the corrupted copy at line 2.  The trace is one kept by `tools/cxxstream.py quick keep` (/tmp/cxxstream.ndjson)."""
import json, sys, os, tempfile, copy, concurrent.futures as cf
sys.path.insert(0, os.path.join(os.path.dirname(os.path.abspath(__file__)), '..', 'lib'))
os.environ.setdefault('VERIF_EVIDENCE_DIR', tempfile.mkdtemp(prefix='bt-ev-')); os.environ.setdefault('VERIF_REPLAY_DIR', tempfile.mkdtemp(prefix='bt-rp-'))
import verif
RESET = '{"e":"reset","drv":"bind","x":0,"seed":"0"}'

def chg_text(s): return (s[:-1] + ('1' if s[-1] != '1' else '2')) if s else 'x'
def chg_num(s): return s[:-1] + ('1' if s[-1] != '1' else '2')
def chg_hi(s): k = 1 if s[0] == '-' else 0; return s[:k] + ('1' if s[k] != '1' else '2') + s[k + 1:]      # a leading digit: the float contracts are accuracy bounds, a last-bit change of an INNER temporary stays within them
def get(ev, path):
    for k in path: ev = ev[k]
    return ev
def put(ev, path, val):
    for k in path[:-1]: ev = ev[k]
    ev[path[-1]] = val

# (event kind, selector on the event, [(label, path, mutator)])
flip = lambda x: 1 - x
PLAN = [
 ('cxx_ostream', lambda e: e['i']['havel'] == 1 and e['i']['w'] == 12 and e['i']['st']['adj'] == 'internal' and e['i']['st']['base'] == 'hex' and e['i']['st']['showbase'] and not e['i']['st']['showpos'] and e['i']['v'] == '7b',
   [('text of mpz_class', ['o', 'z'], chg_text), ('padding position', ['o', 'z'], lambda s: '*' + s[:-1] if s.endswith('b') else s), ('width after', ['o', 'wz'], lambda x: 5), ('second insertion', ['o', 'zz'], lambda s: s + '*'),
    ('text of long (the reading of the standard)', ['o', 'l'], chg_text), ('width after long', ['o', 'wl'], lambda x: 3)]),
 ('cxx_ostream', lambda e: e['i']['havel'] == 0 and e['i']['w'] == 0 and e['i']['st']['base'] == 'oct' and e['i']['st']['showbase'],
   [('multi-limb octal text', ['o', 'z'], lambda s: s.replace('7', '6', 1) if '7' in s else chg_text(s)), ('sign dropped', ['o', 'z'], lambda s: s.lstrip('-+') if s[0] in '-+' else '-' + s)]),
 ('cxx_ostream_q', lambda e: e['i']['d'] != '1' and e['i']['w'] == 12 and e['i']['st']['base'] == 'hex' and e['i']['st']['showbase'] and len(e['o']['q']) == 12,
   [('fraction text', ['o', 'q'], chg_text), ('denominator base indicator dropped', ['o', 'q'], lambda s: s.replace('/0x', '/').replace('/0X', '/')), ('width after', ['o', 'wq'], lambda x: 12)]),
 ('cxx_ostream_f', lambda e: e['i']['ff'] == 'sci' and e['i']['prec'] == 3 and e['i']['k'] == '3' and e['i']['j'] == 1 and e['i']['w'] == 14 and e['i']['adj'] == 'internal',
   [('mpf text', ['o', 'f'], lambda s: s.replace('e+00', 'e+01')), ('width after', ['o', 'wf'], lambda x: 14)]),
 ('cxx_ostream_f', lambda e: e['i']['ff'] == 'fixed' and e['i']['prec'] == 6 and e['i']['k'] == '-b' and e['i']['w'] == 0 and e['i']['showpos'] == 0,
   [('mpf fixed text', ['o', 'f'], lambda s: s.replace('2.75', '2.76'))]),
 ('cxx_istream', lambda e: e['i']['s'] == '0x1F/0X2f rest' and e['i']['base'] == 'none',
   [('status', ['o', 'ok'], flip), ('value', ['o', 'v'], chg_num), ('position', ['o', 'pos'], lambda x: x + 1), ('next character', ['o', 'next'], lambda s: 'x'),
    ('status of long', ['o', 'lok'], flip), ('value of long', ['o', 'lv'], chg_num), ('position of long', ['o', 'lpos'], lambda x: x - 1)]),
 ('cxx_istream', lambda e: e['i']['s'] == ' 42' and e['i']['base'] == 'dec' and e['i']['skipws'] is False,
   [('failure reported as success', ['o', 'ok'], flip), ('position after failure', ['o', 'pos'], lambda x: x + 1)]),
 ('cxx_istream_q', lambda e: e['i']['s'] == '0x10/11' and e['i']['base'] == 'none',
   [('status', ['o', 'ok'], flip), ('numerator', ['o', 'n'], chg_num), ('denominator (separate base detection)', ['o', 'd'], lambda s: '11'), ('position', ['o', 'pos'], lambda x: x - 1)]),
 ('cxx_istream_q', lambda e: e['i']['s'] == '5 /9' and e['i']['base'] == 'dec',
   [('denominator not 1', ['o', 'd'], lambda s: '9'), ('position', ['o', 'pos'], lambda x: 4)]),
 ('cxx_istream_f', lambda e: e['i']['s'] == '+3.0E+2x',
   [('status', ['o', 'ok'], flip), ('value', ['o', 'f', 'v'], chg_num), ('exponent', ['o', 'f', 'exp'], lambda x: x + 1), ('position', ['o', 'pos'], lambda x: x + 1), ('status of double', ['o', 'lok'], flip), ('position of double', ['o', 'lpos'], lambda x: x - 1)]),
 ('cxx_f', lambda e: e['i']['tgt'] == 'p512' and e['i']['tree'][0] in '+-*/' and len(e['i']['tree'][1]) == 4 and e['i']['tree'][1][0] in '+-*/' and len(e['i']['tree'][1][3]['v']) > 100 and len(e['o']['r']['v']) > 100,
   [('result mantissa', ['o', 'r', 'v'], chg_num), ('result exponent', ['o', 'r', 'exp'], lambda x: x + 1), ('result precision', ['o', 'r', 'prec'], lambda x: x - 1), ('operand changed', ['o', 'keep'], flip),
    ('precision of the temporaries', ['i', 'dprec'], lambda x: 64), ('value of an inner temporary (reference evaluation)', ['i', 'tree', 1, 3, 'v'], chg_hi)]),
 ('cxx_f', lambda e: e['i']['tgt'] == 'c' and e['i']['tree'][0] == '*' and e['i']['tree'][1] == ['v', 'f'] and e['i']['tree'][2] == ['v', 'h'] and len(e['o']['r']['v']) > 40,
   [('constructor precision (not the higher of the operands)', ['i', 'dprec'], lambda x: 64), ('result mantissa', ['o', 'r', 'v'], chg_num)]),
 ('cxx_fi', lambda e: e['i']['tree'][0] == 'cmp' and isinstance(e['i']['tree'][1], list) and e['i']['tree'][1][0] not in ('v', 'si', 'ui', 'd') and e['o']['ret'] != 0,
   [('sign of cmp', ['o', 'ret'], lambda x: -x), ('operand changed', ['o', 'keep'], flip), ('value of the operand temporary', ['i', 'tree', 1, -1, 'exp'], lambda x: x + 40)]),
]

def run_one(args):
    label, text = args
    ctx = verif.Ctx('C00', 'quick', 1)
    p = os.path.join(ctx.scratch, 'b.ndjson'); open(p, 'w').write(RESET + '\n' + text + '\n')
    stuck, out = ctx._tlc_trace(p, False, 'MPIRTrace', 'MPIRTrace.cfg', 600)
    ctx.cleanup()
    return label, stuck

def main():
    evs = {}
    want = {k for k, _, _ in PLAN}
    for line in open(sys.argv[1]):
        if '"e":"fn"' not in line: continue
        f = line[line.index('"f":"') + 5:]; f = f[:f.index('"')]
        if f in want: evs.setdefault(f, []).append(line)
    jobs = []
    for n, (kind, sel, muts) in enumerate(PLAN):
        ev = None
        for l in evs.get(kind, []):
            e = json.loads(l)
            try:
                if sel(e): ev = e; break
            except (KeyError, IndexError, TypeError): continue
        if ev is None: print(f'{kind} #{n}: NO EVENT SELECTED'); jobs.append((f'{kind} #{n} selection', None)); continue
        jobs.append((f'{kind} #{n} original', json.dumps(ev, separators=(',', ':'))))
        for label, path, m in muts:
            e2 = copy.deepcopy(ev)
            path = [p if p != -1 else len(get(e2, path[:path.index(p)])) - 1 for p in path]
            old = get(e2, path); new = m(old)
            if new == old: print(f'{kind} #{n} {label}: mutator left the field unchanged ({old!r})'); jobs.append((f'{kind} #{n} {label}', None)); continue
            put(e2, path, new)
            jobs.append((f'{kind} #{n} {label}: {".".join(map(str, path))} {str(old)[:24]!r} -> {str(new)[:24]!r}', json.dumps(e2, separators=(',', ':'))))
    bad = 0
    with cf.ThreadPoolExecutor(max_workers=8) as ex:
        for (label, stuck) in ex.map(run_one, [j for j in jobs if j[1] is not None]):
            orig = label.endswith('original')
            ok = (stuck is None) if orig else (stuck == 2)
            bad += not ok
            print(('ok   ' if ok else 'FAIL ') + label + ': ' + ('accepted' if stuck is None else f'rejected at line {stuck}'))
    bad += sum(1 for j in jobs if j[1] is None)
    print('all originals accepted, every corruption rejected at its line' if not bad else f'{bad} UNEXPECTED'); sys.exit(1 if bad else 0)
main()
