#!/usr/bin/env python3
"""tools/k3_bind.py <trace.ndjson>...  -- binding demonstration for the K3 (gcd-side) routines: for every function name of SemK3!FunsK3 found in the
given traces take two recorded events (a small one and the largest one below 20 kB) and corrupt EVERY output field in turn (last hex digit of a
numeral, an integer +1, a 0/1 flipped, one quotient of a recorded hook call): tools/bindtest.py must report a rejection at line 2 each time.
Also flips one INPUT field that carries a stated precondition (jacobi bits).  Exit 1 if any corruption is accepted."""
import json, sys, os, subprocess, tempfile, re, concurrent.futures as cf
here = os.path.dirname(os.path.abspath(__file__)); out = tempfile.mkdtemp(prefix='k3b-'); funs = {}
K3 = set(re.findall(r'"(mpn_\w+)"', open(os.path.join(here, '..', 'spec', 'SemK3.tla')).read().split('FunsK3 ==')[1].split('PostK3')[0]))
for p in sys.argv[1:]:
    reset = None
    for line in open(p):
        if '"e":"reset"' in line: reset = line; continue
        if '"e":"fn"' not in line or len(line) > 20000: continue
        f = line.split('"f":"', 1)[1].split('"', 1)[0]
        if f not in K3: continue
        ev = json.loads(line)
        if 'bits' in ev['o']:
            import math; I = ev['i']
            A, B = ((int(I['ah'], 16) << 64 | int(I['al'], 16)), (int(I['bh'], 16) << 64 | int(I['bl'], 16))) if 'ah' in I else (int(I['a'], 16), int(I['b'], 16))
            if math.gcd(A, B) != 1: continue
        if f.startswith('mpn_hgcd') and 'ret' in ev['o'] and ev['o']['ret'] == 0 and len(funs.get(f, [])) == 0 and f not in ('mpn_hgcd_matrix_init',): continue   # start with a successful one
        lst = funs.setdefault(f, [])
        if len(lst) < 1: lst.append((reset, line))
        elif len(lst) < 2 and len(line) > 2 * len(lst[0][1]): lst.append((reset, line))
        elif len(lst) == 2 and len(line) > len(lst[1][1]): lst[1] = (reset, line)
jobs = []
def raw(v): return json.dumps(v, separators=(',', ':'))
for f, lst in sorted(funs.items()):
    for idx, (reset, line) in enumerate(lst):
        fn = os.path.join(out, f'{f}_{idx}.ndjson'); open(fn, 'w').write(reset + line)
        head, tail = line.split('"o":{', 1); o = json.loads(line)['o']
        for k, v in o.items():
            if f == 'mpn_gcdext_hook' and k in ('un', 'ret'): continue      # un: an upper bound by contract; ret decides which fields exist
            if isinstance(v, str): new = v[:-1] + ('1' if v[-1] != '1' else '2')
            elif k == 'bits': new = v ^ 1          # the sign bit e of the Jacobi state (events with coprime operands are chosen, see below)
            elif isinstance(v, int): new = (1 - v) if (k in ('sep',) or (k == 'ret' and v in (0, 1) and 'hgcd2' in f)) else v + 1
            elif isinstance(v, list) and v:
                new = json.loads(json.dumps(v)); c = new[-1]
                if c['hq']: c['q'] = c['q'][:-1] + ('1' if c['q'][-1] != '1' else '2')
                else: c['g'] = c['g'][:-1] + ('1' if c['g'][-1] != '1' else '2')
            else: continue
            old_s = f'"{k}":{raw(v)}'; new_s = f'"{k}":{raw(new)}'
            if old_s not in tail: print(f'{f} #{idx} {k}: cannot locate field'); continue
            jobs.append((f, idx, 'o.' + k, fn, f'2@"o":{{{tail.split(old_s)[0]}{old_s}=>"o":{{{tail.split(old_s)[0]}{new_s}'))
def run(j):
    f, idx, what, fn, ed = j
    r = subprocess.run([os.path.join(here, 'bindtest.py'), fn, ed], capture_output=True, text=True).stdout.strip().splitlines()
    return f, idx, what, (r[-1] if r else 'no output')
bad = 0
with cf.ThreadPoolExecutor(max_workers=4) as ex:
    for f, idx, what, r in ex.map(run, jobs):
        ok = 'rejected at line 2' in r; bad += not ok
        print(f'{f} #{idx} {what}:', 'rejected at line 2' if ok else 'NOT REJECTED: ' + r[-80:])
print(f'{len(jobs)} corruptions,', 'all rejected' if not bad else f'{bad} NOT rejected'); sys.exit(1 if bad else 0)
