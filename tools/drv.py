#!/usr/bin/env python3
"""tools/drv.py <driver> [shards] [tier] [extra] [variant] -- development aid: run one harness driver against a scratch build of the
current tree and validate its traces against MPIRTrace.tla; prints rejected executions. Writes no evidence."""
import sys, os, tempfile
sys.path.insert(0, os.path.join(os.path.dirname(os.path.abspath(__file__)), '..', 'lib'))
os.environ.setdefault('VERIF_EVIDENCE_DIR', tempfile.mkdtemp(prefix='drv-ev-'))
os.environ.setdefault('VERIF_REPLAY_DIR', tempfile.mkdtemp(prefix='drv-rp-'))
import verif
d = sys.argv[1]; shards = int(sys.argv[2]) if len(sys.argv) > 2 else 4; tier = sys.argv[3] if len(sys.argv) > 3 else 'quick'
extra = sys.argv[4] if len(sys.argv) > 4 else ''; variant = sys.argv[5] if len(sys.argv) > 5 else 'default'
ctx = verif.Ctx('C00', tier, int(os.environ.get('VERIF_SEED', '1')))
ctx.ensure_setup()
b = ctx.build(variant)
paths = ctx.run_driver(b, d, shards=shards, extra=extra, timeout=1500)
ctx.validate(paths, pure=('pure' in extra))
print(ctx.trace_stats)
for v in ctx.violations[:10]: print(v)
