#!/usr/bin/env python3
"""tools/k1_bind.py <trace.ndjson>...  -- binding demonstration for the K1 routines: for every function name found in the given traces
take up to two recorded events (a small one and a much larger one), write a two-line trace (reset + event), corrupt the last hex digit of
one output numeral and check with tools/bindtest.py that MPIRTrace.tla rejects it at line 2."""
import json, sys, os, subprocess, tempfile
here = os.path.dirname(os.path.abspath(__file__)); out = tempfile.mkdtemp(prefix='k1b-'); funs = {}
for p in sys.argv[1:]:
    reset = None
    for line in open(p):
        if '"e":"reset"' in line: reset = line; continue
        if '"e":"fn"' not in line or len(line) > 20000: continue
        ev = json.loads(line); f = ev['f']; o = ev['o']
        if f in funs and len(funs[f]) >= 2: continue
        key = [k for k in o if isinstance(o[k], str) and len(o[k]) > 3]
        if not key or (f in funs and len(line) < 3 * len(funs[f][0][1])): continue
        funs.setdefault(f, []).append((reset, line, key[0]))
bad = 0
for f, lst in sorted(funs.items()):
    for idx, (reset, line, k) in enumerate(lst):
        fn = os.path.join(out, f'{f}_{idx}.ndjson'); open(fn, 'w').write(reset + line)
        old = json.loads(line)['o'][k]; new = old[:-1] + ('1' if old[-1] != '1' else '2')
        r = subprocess.run([os.path.join(here, 'bindtest.py'), fn, f'2@"{k}":"{old}"=>"{k}":"{new}"'], capture_output=True, text=True).stdout.strip().splitlines()[-1]
        ok = 'rejected at line 2' in r; bad += not ok
        print(f'{f} #{idx} output {k} ({len(old)} hex digits):', 'rejected at line 2' if ok else 'NOT REJECTED: ' + r[-60:])
print('all rejected' if not bad else f'{bad} NOT rejected'); sys.exit(1 if bad else 0)
