------------------------------ MODULE IOFormat ------------------------------
(***************************************************************************)
(* L2 (C17): documented external formats.  Byte strings are hexadecimal     *)
(* text, two characters per byte.                                           *)
(*  - mpz_export / mpz_import word layout for (order, size, endian, nails)  *)
(*  - mpz_out_raw / mpz_inp_raw: 4-byte big-endian two's-complement byte    *)
(*    count (negative for negative values) then the magnitude, big-endian   *)
(*  - mpz_inp_str: white space, optional '-', maximal run of digits         *)
(***************************************************************************)
EXTENDS Naturals, Integers, Sequences, BigZ, SemZ

LOCAL Ch(s, i) == SubSeq(s, i, i)
RECURSIVE Zeros(_)
Zeros(n) == IF n <= 0 THEN "" ELSE "0" \o Zeros(n - 1)
PadHex(h, nbytes) == Zeros(2 * nbytes - Len(h)) \o h                 \* numeral h (non-negative) as nbytes big-endian bytes
RECURSIVE RevBytes(_)
RevBytes(s) == IF Len(s) <= 2 THEN s ELSE RevBytes(SubSeq(s, 3, Len(s))) \o SubSeq(s, 1, 2)
HexVal(s) == IF s = "" THEN "0" ELSE ZFromDigits(s, 16, "0123456789abcdef")

(* ---- export / import ---- *)
ExportCount(v, size, nails) == LET numb == 8 * size - nails IN IF v = "0" THEN 0 ELSE (ZBitLen(v) + numb - 1) \div numb
RECURSIVE ExportWords(_, _, _, _, _, _, _)
ExportWords(a, k, count, order, size, endian, nails) ==        \* words k..count in output order
   IF k > count THEN ""
   ELSE LET numb == 8 * size - nails
            i  == IF order = 1 THEN count - k ELSE k - 1           \* significance index of the k-th output word
            w  == ZLowBits(ZShr(a, i * numb), numb)
            be == PadHex(w, size)
        IN  (IF endian = 1 THEN be ELSE RevBytes(be)) \o ExportWords(a, k + 1, count, order, size, endian, nails)
ExportBytes(v, order, size, endian, nails) == ExportWords(ZAbs(v), 1, ExportCount(v, size, nails), order, size, endian, nails)
RECURSIVE ImportSum(_, _, _, _, _, _, _)
ImportSum(bytes, k, count, order, size, endian, nails) ==
   IF k > count THEN "0"
   ELSE LET numb == 8 * size - nails
            raw == SubSeq(bytes, 2 * size * (k - 1) + 1, 2 * size * k)
            be  == IF endian = 1 THEN raw ELSE RevBytes(raw)
            w   == ZLowBits(HexVal(be), numb)                       \* nail bits are skipped
            i   == IF order = 1 THEN count - k ELSE k - 1
        IN  ZAdd(ZShl(w, i * numb), ImportSum(bytes, k + 1, count, order, size, endian, nails))
ImportValue(bytes, count, order, size, endian, nails) == ImportSum(bytes, 1, count, order, size, endian, nails)

(* ---- raw ---- *)
RawBytes(v) == LET a == ZAbs(v)
                   n == (ZBitLen(a) + 7) \div 8
                   hdr == IF ZIsNeg(v) THEN ZSub(ZPow2(32), ZFromInt(n)) ELSE ZFromInt(n)
               IN  PadHex(hdr, 4) \o (IF n = 0 THEN "" ELSE PadHex(a, n))
(* [ok, v, n]: result of reading a raw stream; n = bytes consumed *)
RawParse(bytes) ==
   LET len == Len(bytes) \div 2 IN
   IF len < 4 THEN [ok |-> FALSE, v |-> "0", n |-> 0]
   ELSE LET h == HexVal(SubSeq(bytes, 1, 8))
            neg == ZTestBit(h, 31)
            cnt == ZToInt(IF neg THEN ZSub(ZPow2(32), h) ELSE h)
        IN  IF len - 4 < cnt THEN [ok |-> FALSE, v |-> "0", n |-> 0]
            ELSE LET m == HexVal(SubSeq(bytes, 9, 8 + 2 * cnt))
                 IN  [ok |-> TRUE, v |-> IF neg THEN ZNeg(m) ELSE m, n |-> 4 + cnt]

(* ---- text input from a stream ---- *)
RECURSIVE CountWS(_, _)
CountWS(s, i) == IF i <= Len(s) /\ Ch(s, i) \in {" ", "\t", "\n", "\r", "\f"} THEN 1 + CountWS(s, i + 1) ELSE 0
InpStr(s, base) ==          \* [ok, v, n]
   LET k == CountWS(s, 1)
       r0 == SubSeq(s, k + 1, Len(s))
       neg == Len(r0) > 0 /\ Ch(r0, 1) = "-"
       r1 == IF neg THEN SubSeq(r0, 2, Len(r0)) ELSE r0
       firstOK == Len(r1) > 0 /\ StrFirstBad(StrLower(Ch(r1, 1)), IF base = 0 THEN 10 ELSE (IF base > 36 THEN 36 ELSE base), Alpha36L) = 1
       first62 == Len(r1) > 0 /\ StrFirstBad(Ch(r1, 1), base, Alpha62) = 1
       pre == IF base # 0 THEN <<base, 0>>
              ELSE IF Len(r1) >= 2 /\ Ch(r1, 1) = "0" /\ Ch(r1, 2) \in {"x", "X"} THEN <<16, 2>>
              ELSE IF Len(r1) >= 2 /\ Ch(r1, 1) = "0" /\ Ch(r1, 2) \in {"b", "B"} THEN <<2, 2>>
              ELSE IF Len(r1) >= 1 /\ Ch(r1, 1) = "0" THEN <<8, 0>> ELSE <<10, 0>>
       b == pre[1]
       r2 == SubSeq(r1, pre[2] + 1, Len(r1))
       run == IF b <= 36 THEN StrFirstBad(StrLower(r2), b, Alpha36L) ELSE StrFirstBad(r2, b, Alpha62)
       ds == SubSeq(r2, 1, run)
       val == IF run = 0 THEN "0" ELSE IF b <= 36 THEN ZFromDigits(StrLower(ds), b, Alpha36L) ELSE ZFromDigits(ds, b, Alpha62)
   IN  IF ~(IF base > 36 THEN first62 ELSE firstOK) THEN [ok |-> FALSE, v |-> "0", n |-> 0]
       ELSE [ok |-> TRUE, v |-> IF neg THEN ZNeg(val) ELSE val, n |-> k + (IF neg THEN 1 ELSE 0) + pre[2] + run]
=============================================================================
