------------------------------- MODULE Mpq2exp -------------------------------
(***************************************************************************)
(* R2 model for C12 / C05: mpq_mul_2exp and mpq_div_2exp (mpq/md_2exp.c,    *)
(* mord_2exp) at LIMB level over one memory, so that the in-place call       *)
(* (destination = source) is the same code reading the cells it writes.      *)
(*                                                                           *)
(* mord_2exp (ldst, rdst, lsrc, rsrc, n) moves up to n factors of two from   *)
(* the "right" operand to the "left" one: whole zero limbs of rsrc are       *)
(* skipped by advancing the pointer p (each takes W of n), then either the   *)
(* remaining limbs are COPIED down to the start of rdst (when the low limb   *)
(* is odd or n is used up) or shifted right by min(ctz, n); what is left of  *)
(* n multiplies lsrc.  In place, rdst_ptr = rsrc_ptr <= p, so the copy must  *)
(* run from the low end upward (MPN_COPY_INCR); run downward it overwrites   *)
(* limbs before reading them whenever more limbs remain than were skipped.   *)
(*                                                                           *)
(* Checked for every canonical num/den with den < B^L, every n in 0..NMAX,   *)
(* separate and in-place destination: value * 2^n (or / 2^n) exactly, result *)
(* canonical, no leading zero limb.  Variant "copy_decr" is the copy order   *)
(* of the tree as found (finding F-C12-1).                                   *)
(***************************************************************************)
EXTENDS Naturals, Integers, Sequences, TLC
CONSTANTS W, L, NUMMAX, NMAX, Variant        \* "ok" | "copy_decr" | "skip_ignores_n" | "no_top_strip"
B == 2 ^ W
RECURSIVE ValOf(_)
ValOf(s) == IF s = <<>> THEN 0 ELSE s[1] + B * ValOf(Tail(s))
RECURSIVE LimbsOf(_)
LimbsOf(v) == IF v = 0 THEN <<>> ELSE <<v % B>> \o LimbsOf(v \div B)
RECURSIVE Gcd(_, _)
Gcd(a, b) == IF b = 0 THEN a ELSE Gcd(b, a % b)
RECURSIVE Ctz(_)
Ctz(x) == IF x % 2 = 1 THEN 0 ELSE 1 + Ctz(x \div 2)           \* x # 0
MinI(a, b) == IF a < b THEN a ELSE b
AbsI(x) == IF x < 0 THEN -x ELSE x

(* copy len limbs from offset src to offset 0 of the SAME memory, in the given direction *)
RECURSIVE CopyIncr(_, _, _, _)
CopyIncr(mem, src, len, i) == IF i > len THEN mem ELSE CopyIncr([mem EXCEPT ![i] = mem[i + src]], src, len, i + 1)
RECURSIVE CopyDecr(_, _, _, _)
CopyDecr(mem, src, len, i) == IF i < 1 THEN mem ELSE CopyDecr([mem EXCEPT ![i] = mem[i + src]], src, len, i - 1)

(* the right-hand operand: returns [mag (limb sequence, possibly with a leading zero stripped as the code does), nleft] *)
Right(rsrc, n, inplace) ==
   LET len0 == Len(rsrc)
       \* while (n >= W && plow == 0) { n -= W; p++; }
       RECURSIVE Skip(_, _)
       Skip(k, nn) == IF (Variant = "skip_ignores_n" \/ nn >= W) /\ k < len0 /\ rsrc[k + 1] = 0 THEN Skip(k + 1, IF nn >= W THEN nn - W ELSE 0) ELSE <<k, nn>>
       sk == Skip(0, n)  k == sk[1]  n1 == sk[2]
       len == len0 - k
       plow == rsrc[k + 1]
   IN
   IF (plow % 2 = 1) \/ n1 = 0
   THEN LET res == IF k = 0 THEN rsrc
                   ELSE IF ~inplace THEN SubSeq(rsrc, k + 1, len0)                              \* distinct destination: any order is fine
                   ELSE SubSeq(IF Variant = "copy_decr" THEN CopyDecr(rsrc, k, len, len) ELSE CopyIncr(rsrc, k, len, 1), 1, len)
        IN [mag |-> res, nleft |-> n1]
   ELSE LET shift == IF plow = 0 THEN n1 ELSE MinI(Ctz(plow), n1)
            v == ValOf(SubSeq(rsrc, k + 1, len0)) \div (2 ^ shift)                              \* mpn_rshift works upward: safe in place
            r == [i \in 1..len |-> (v \div (B ^ (i - 1))) % B]
            len2 == IF r[len] = 0 /\ Variant # "no_top_strip" THEN len - 1 ELSE len
        IN [mag |-> SubSeq(r, 1, len2), nleft |-> n1 - shift]

TopNonZero(s) == s = <<>> \/ s[Len(s)] # 0
(* mpq_mul_2exp: right = denominator, left = numerator *)
Mul2exp(num, den, n, inplace) ==
   LET r == Right(LimbsOf(den), n, inplace) IN [n |-> num * 2 ^ r.nleft, d |-> ValOf(r.mag), wf |-> TopNonZero(r.mag)]
(* mpq_div_2exp: right = numerator (its magnitude), left = denominator; a zero numerator is answered 0/1 before *)
Div2exp(num, den, n, inplace) ==
   IF num = 0 THEN [n |-> 0, d |-> 1, wf |-> TRUE]
   ELSE LET r == Right(LimbsOf(AbsI(num)), n, inplace) IN
        [n |-> IF num < 0 THEN -ValOf(r.mag) ELSE ValOf(r.mag), d |-> den * 2 ^ r.nleft, wf |-> TopNonZero(r.mag)]

Canon(n, d) == d > 0 /\ Gcd(AbsI(n), d) = 1
Nums == (-NUMMAX)..NUMMAX
Dens == 1..(B ^ L - 1)
ASSUME \A num \in Nums, den \in Dens, n \in 0..NMAX, ip \in BOOLEAN :
   Canon(num, den) =>
     LET m == Mul2exp(num, den, n, ip) IN
     /\ m.wf /\ Canon(m.n, m.d) /\ m.n * den = num * (2 ^ n) * m.d                 \* m.n/m.d = (num/den) * 2^n
(* the numerator side: swap the roles (numerators up to B^L, small denominators) *)
ASSUME \A num \in (-(B ^ L) + 1)..(B ^ L - 1), den \in 1..NUMMAX, n \in 0..NMAX, ip \in BOOLEAN :
   Canon(num, den) =>
     LET q == Div2exp(num, den, n, ip) IN
     /\ q.wf /\ Canon(q.n, q.d) /\ q.n * den * (2 ^ n) = num * q.d                 \* q.n/q.d = (num/den) / 2^n
(* the range contains the case that matters: more limbs remain than were skipped, in place *)
ASSUME \E den \in Dens : LET s == LimbsOf(den) IN Len(s) >= 3 /\ s[1] = 0 /\ s[2] % 2 = 1 /\ NMAX >= W
ASSUME PrintT(<<"Mpq2exp", W, L, NUMMAX, NMAX, Variant>>)
VARIABLE dummy
Spec == dummy = 0 /\ [][UNCHANGED dummy]_dummy
=============================================================================
