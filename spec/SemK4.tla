-------------------------------- MODULE SemK4 --------------------------------
(***************************************************************************)
(* Contracts of the internal building blocks of Toom and FFT               *)
(* multiplication (property C01), each stated as the routine's own source  *)
(* comment / ASSERTs / in-tree test program state it (file and comment     *)
(* quoted next to each case).  Events come from harness/drv_k4.c.          *)
(* A limb vector {p,n} is logged as the hex numeral of the natural number  *)
(* it denotes; B = 2^64.  PostK4(f, i, o): i = inputs logged before the    *)
(* call, o = outputs logged after it.                                      *)
(***************************************************************************)
EXTENDS Naturals, Integers, Sequences, BigZ

LOCAL W == 64
LOCAL Bn(n) == ZPow2(W * n)
LOCAL Fits(v, n) == ~ZIsNeg(v) /\ ZBitLen(v) <= W * n        \* 0 <= v < B^n
LOCAL Congr(x, y, m) == ZDivides(m, ZSub(x, y))              \* x = y (mod m)

(* ---------------------------------------------------------------------- Toom evaluation ---- *)
(* The operand {xp, k*n + hn} is a polynomial of degree k in B^n: "The degree k is also the number of full-size coefficients,  *)
(* so that last coefficient, of size hn, starts at xp + k*n" (mpn/generic/toom_eval_pm2.c, toom_eval_pm2exp.c).                  *)
Coef(x, n, k, j) == IF j = k THEN ZShr(x, W * n * k) ELSE ZLowBits(ZShr(x, W * n * j), W * n)
RECURSIVE PolyEv(_, _, _, _, _)
PolyEv(x, n, k, j, pt) == IF j > k THEN "0" ELSE ZAdd(Coef(x, n, k, j), ZMul(pt, PolyEv(x, n, k, j + 1, pt)))     \* sum_{l >= j} x_l pt^(l-j)
(* 2^(s*q) * X(sg * 2^-s) = sum_j x_j sg^j 2^(s(q-j))   (toom_eval_pm2rexp.c; the evaluation points +-1/2, +-1/4, +-1/8 of toom8h_mul.c) *)
RECURSIVE RevEv(_, _, _, _, _, _)
RevEv(x, n, q, j, s, neg) == IF j > q THEN "0"
                             ELSE LET t == ZShl(Coef(x, n, q, j), s * (q - j)) IN ZAdd(IF neg /\ j % 2 = 1 THEN ZNeg(t) ELSE t, RevEv(x, n, q, j + 1, s, neg))
(* All evaluation helpers return the value at the positive point in {xp,n+1}, the ABSOLUTE value at the negative point in {xm,n+1} *)
(* and a flag: 0, or ~0 (= -1 as int) when the value at the negative point is negative; the callers xor the flags of the two      *)
(* operands to obtain the sign of the product (toom8h_mul.c: "sign = mpn_toom_eval_pm2 (...) ^ mpn_toom_eval_pm2 (...)").          *)
(* A zero value may carry either flag (mpn_toom_eval_pm2 gives ~0 for odd k when both halves are equal: "neg ^= ((k & 1) - 1)").  *)
LOCAL EvalPost(o, n, vplus, vminus) ==
   /\ o.ret \in {0, -1} /\ Fits(o.p, n + 1) /\ Fits(o.m, n + 1)
   /\ o.p = vplus
   /\ vminus = IF o.ret = 0 THEN o.m ELSE ZNeg(o.m)
LOCAL EvalPre(i, kmin) == i.k >= kmin /\ i.hn > 0 /\ i.hn <= i.n /\ Fits(i.x, i.k * i.n + i.hn)

FunsK4Toom == {"mpn_toom_eval_pm1", "mpn_toom_eval_pm2", "mpn_toom_eval_pm2exp", "mpn_toom_eval_pm2rexp", "mpn_toom_eval_dgr3_pm1", "mpn_toom_eval_dgr3_pm2",
               "mpn_toom_couple_handling"}

PostK4Toom(f, i, o) ==
   CASE f = "mpn_toom_eval_pm1" ->
        \* toom_eval_pm1.c: "k degree poly so have k+1 coeffs and first k are size n; k>3 so we can do the first add unconditionally";
        \* ASSERT(k>3); ASSERT(n>=m); ASSERT(m>0); pp, mp, tp have n+1 limbs.  pp = X(1), mp = |X(-1)|, "if(mpn_cmp(tp,pp,n+1)>0)isneg=-1" (tp = odd part).
        /\ EvalPre(i, 4)
        /\ EvalPost(o, i.n, PolyEv(i.x, i.n, i.k, 0, "1"), PolyEv(i.x, i.n, i.k, 0, "-1"))
     [] f = "mpn_toom_eval_pm2" ->
        \* toom_eval_pm2.c: "Evaluates a polynomial of degree 2 < k < GMP_NUMB_BITS, in the points +2 and -2."  ASSERT (k >= 3); ASSERT (k < GMP_NUMB_BITS);
        \* ASSERT (hn > 0); ASSERT (hn <= n).
        /\ EvalPre(i, 3) /\ i.k < W
        /\ EvalPost(o, i.n, PolyEv(i.x, i.n, i.k, 0, "2"), PolyEv(i.x, i.n, i.k, 0, "-2"))
     [] f = "mpn_toom_eval_pm2exp" ->
        \* toom_eval_pm2exp.c: "Evaluates a polynomial of degree k > 2, in the points +2^shift and -2^shift."  ASSERT (k >= 3); ASSERT (shift*k < GMP_NUMB_BITS).
        /\ EvalPre(i, 3) /\ i.sh * i.k < W
        /\ EvalPost(o, i.n, PolyEv(i.x, i.n, i.k, 0, ZPow2(i.sh)), PolyEv(i.x, i.n, i.k, 0, ZNeg(ZPow2(i.sh))))
     [] f = "mpn_toom_eval_pm2rexp" ->
        \* toom_eval_pm2rexp.c: "Evaluates a polynomial of degree k >= 3."  "{ap,q*n+t} -> {rp,n+1} {rm,n+1} , with {ws, n+1}"; ASSERT (n >= t);
        \* ASSERT (s != 0); ASSERT (q > 1); ASSERT (s*q < GMP_NUMB_BITS).  rp = 2^(s*q) A(2^-s), rm = |2^(s*q) A(-2^-s)|  (first step: "rp[n] = mpn_lshift(rp, ap, n, s*q)").
        /\ EvalPre(i, 3) /\ i.sh # 0 /\ i.sh * i.k < W
        /\ EvalPost(o, i.n, RevEv(i.x, i.n, i.k, 0, i.sh, FALSE), RevEv(i.x, i.n, i.k, 0, i.sh, TRUE))
     [] f = "mpn_toom_eval_dgr3_pm1" ->
        \* toom_eval_dgr3_pm1.c: degree 3, ASSERT (x3n > 0); ASSERT (x3n <= n); "ASSERT (xp1[n] <= 3); ASSERT (xm1[n] <= 1)".
        /\ i.k = 3 /\ EvalPre(i, 3)
        /\ EvalPost(o, i.n, PolyEv(i.x, i.n, 3, 0, "1"), PolyEv(i.x, i.n, 3, 0, "-1"))
        /\ ZLe(ZShr(o.p, W * i.n), "3") /\ ZLe(ZShr(o.m, W * i.n), "1")
     [] f = "mpn_toom_eval_dgr3_pm2" ->
        \* toom_eval_dgr3_pm2.c: "(x0 + 4 * x2) +/- (2 x1 + 8 x_3)"; "Needs n+1 limbs of temporary storage."  "ASSERT (xp2[n] < 15); ASSERT (xm2[n] < 10)".
        /\ i.k = 3 /\ EvalPre(i, 3)
        /\ EvalPost(o, i.n, PolyEv(i.x, i.n, 3, 0, "2"), PolyEv(i.x, i.n, 3, 0, "-2"))
        /\ ZLt(ZShr(o.p, W * i.n), "f") /\ ZLt(ZShr(o.m, W * i.n), "a")
     [] f = "mpn_toom_couple_handling" ->
        \* toom_couple_handling.c: "Gets {pp,n} and (sign?-1:1)*{np,n}. Computes at once: {pp,n} <- ({pp,n}+{np,n})/2^{ps+1}; {pn,n} <- ({pp,n}-{np,n})/2^{ns+1}.
        \* Finally recompose them obtaining: {pp,n+off} <- {pp,n}+{np,n}*2^{off*GMP_NUMB_BITS}".  In the code the half SUM (with the sign applied) is the part that
        \* goes to np and is shifted by ns, the half difference stays in pp and is shifted by ps; the divisions are right shifts of n-limb values, so the callers'
        \* values satisfy: 0 <= pp + s*np < B^n, pp >= (pp + s*np)/2 (no borrow), and the recomposition does not carry out ("ASSERT_NOCARRY (mpn_add_1 ...)").
        LET sN == IF i.nsign # 0 THEN ZNeg(i.m) ELSE i.m
            H  == ZShr(ZAdd(i.p, sN), 1)
            L  == ZShr(ZSub(i.p, H), i.ps)
            H2 == ZShr(H, i.ns)
        IN /\ i.n > i.off /\ i.off >= 1 /\ i.ps >= 0 /\ i.ns >= 0 /\ Fits(i.p, i.n) /\ Fits(i.m, i.n)
           /\ Fits(ZAdd(i.p, sN), i.n) /\ ZLe(H, i.p)
           /\ o.np = H2
           /\ o.r = ZAdd(L, ZMul(H2, Bn(i.off))) /\ Fits(o.r, i.n + i.off)

FunsK4 == FunsK4Toom
PostK4(f, i, o) == PostK4Toom(f, i, o)
=============================================================================
