-------------------------------- MODULE SemK4 --------------------------------
(***************************************************************************)
(* Contracts of the internal building blocks of Toom and FFT               *)
(* multiplication (property C01), each stated as the routine's own source  *)
(* comment / ASSERTs / in-tree test program state it (file and comment     *)
(* quoted next to each case).  Events come from harness/drv_k4.c.          *)
(* A limb vector {p,n} is logged as the hex numeral of the natural number  *)
(* it denotes; B = 2^64.  PostK4(f, i, o): i = inputs logged before the    *)
(* call, o = outputs logged after it.                                      *)
(***************************************************************************)
EXTENDS Naturals, Integers, Sequences, BigZ

LOCAL W == 64
LOCAL Bn(n) == ZPow2(W * n)
LOCAL Fits(v, n) == ~ZIsNeg(v) /\ ZBitLen(v) <= W * n        \* 0 <= v < B^n
LOCAL Congr(x, y, m) == ZDivides(m, ZSub(x, y))              \* x = y (mod m)

(* ---------------------------------------------------------------------- Toom evaluation ---- *)
(* The operand {xp, k*n + hn} is a polynomial of degree k in B^n: "The degree k is also the number of full-size coefficients,  *)
(* so that last coefficient, of size hn, starts at xp + k*n" (mpn/generic/toom_eval_pm2.c, toom_eval_pm2exp.c).                  *)
Coef(x, n, k, j) == IF j = k THEN ZShr(x, W * n * k) ELSE ZLowBits(ZShr(x, W * n * j), W * n)
RECURSIVE PolyEv(_, _, _, _, _)
PolyEv(x, n, k, j, pt) == IF j > k THEN "0" ELSE ZAdd(Coef(x, n, k, j), ZMul(pt, PolyEv(x, n, k, j + 1, pt)))     \* sum_{l >= j} x_l pt^(l-j)
(* 2^(s*q) * X(sg * 2^-s) = sum_j x_j sg^j 2^(s(q-j))   (toom_eval_pm2rexp.c; the evaluation points +-1/2, +-1/4, +-1/8 of toom8h_mul.c) *)
RECURSIVE RevEv(_, _, _, _, _, _)
RevEv(x, n, q, j, s, neg) == IF j > q THEN "0"
                             ELSE LET t == ZShl(Coef(x, n, q, j), s * (q - j)) IN ZAdd(IF neg /\ j % 2 = 1 THEN ZNeg(t) ELSE t, RevEv(x, n, q, j + 1, s, neg))
(* All evaluation helpers return the value at the positive point in {xp,n+1}, the ABSOLUTE value at the negative point in {xm,n+1} *)
(* and a flag: 0, or ~0 (= -1 as int) when the value at the negative point is negative; the callers xor the flags of the two      *)
(* operands to obtain the sign of the product (toom8h_mul.c: "sign = mpn_toom_eval_pm2 (...) ^ mpn_toom_eval_pm2 (...)").          *)
(* A zero value may carry either flag (mpn_toom_eval_pm2 gives ~0 for odd k when both halves are equal: "neg ^= ((k & 1) - 1)").  *)
LOCAL EvalPost(o, n, vplus, vminus) ==
   /\ o.ret \in {0, -1} /\ Fits(o.p, n + 1) /\ Fits(o.m, n + 1)
   /\ o.p = vplus
   /\ vminus = IF o.ret = 0 THEN o.m ELSE ZNeg(o.m)
LOCAL EvalPre(i, kmin) == i.k >= kmin /\ i.hn > 0 /\ i.hn <= i.n /\ Fits(i.x, i.k * i.n + i.hn)

FunsK4Toom == {"mpn_toom_eval_pm1", "mpn_toom_eval_pm2", "mpn_toom_eval_pm2exp", "mpn_toom_eval_pm2rexp", "mpn_toom_eval_dgr3_pm1", "mpn_toom_eval_dgr3_pm2",
               "mpn_toom_couple_handling"}

PostK4Toom(f, i, o) ==
   CASE f = "mpn_toom_eval_pm1" ->
        \* toom_eval_pm1.c: "k degree poly so have k+1 coeffs and first k are size n; k>3 so we can do the first add unconditionally";
        \* ASSERT(k>3); ASSERT(n>=m); ASSERT(m>0); pp, mp, tp have n+1 limbs.  pp = X(1), mp = |X(-1)|, "if(mpn_cmp(tp,pp,n+1)>0)isneg=-1" (tp = odd part).
        /\ EvalPre(i, 4)
        /\ EvalPost(o, i.n, PolyEv(i.x, i.n, i.k, 0, "1"), PolyEv(i.x, i.n, i.k, 0, "-1"))
     [] f = "mpn_toom_eval_pm2" ->
        \* toom_eval_pm2.c: "Evaluates a polynomial of degree 2 < k < GMP_NUMB_BITS, in the points +2 and -2."  ASSERT (k >= 3); ASSERT (k < GMP_NUMB_BITS);
        \* ASSERT (hn > 0); ASSERT (hn <= n).
        /\ EvalPre(i, 3) /\ i.k < W
        /\ EvalPost(o, i.n, PolyEv(i.x, i.n, i.k, 0, "2"), PolyEv(i.x, i.n, i.k, 0, "-2"))
     [] f = "mpn_toom_eval_pm2exp" ->
        \* toom_eval_pm2exp.c: "Evaluates a polynomial of degree k > 2, in the points +2^shift and -2^shift."  ASSERT (k >= 3); ASSERT (shift*k < GMP_NUMB_BITS).
        /\ EvalPre(i, 3) /\ i.sh * i.k < W
        /\ EvalPost(o, i.n, PolyEv(i.x, i.n, i.k, 0, ZPow2(i.sh)), PolyEv(i.x, i.n, i.k, 0, ZNeg(ZPow2(i.sh))))
     [] f = "mpn_toom_eval_pm2rexp" ->
        \* toom_eval_pm2rexp.c: "Evaluates a polynomial of degree k >= 3."  "{ap,q*n+t} -> {rp,n+1} {rm,n+1} , with {ws, n+1}"; ASSERT (n >= t);
        \* ASSERT (s != 0); ASSERT (q > 1); ASSERT (s*q < GMP_NUMB_BITS).  rp = 2^(s*q) A(2^-s), rm = |2^(s*q) A(-2^-s)|  (first step: "rp[n] = mpn_lshift(rp, ap, n, s*q)").
        /\ EvalPre(i, 3) /\ i.sh # 0 /\ i.sh * i.k < W
        /\ EvalPost(o, i.n, RevEv(i.x, i.n, i.k, 0, i.sh, FALSE), RevEv(i.x, i.n, i.k, 0, i.sh, TRUE))
     [] f = "mpn_toom_eval_dgr3_pm1" ->
        \* toom_eval_dgr3_pm1.c: degree 3, ASSERT (x3n > 0); ASSERT (x3n <= n); "ASSERT (xp1[n] <= 3); ASSERT (xm1[n] <= 1)".
        /\ i.k = 3 /\ EvalPre(i, 3)
        /\ EvalPost(o, i.n, PolyEv(i.x, i.n, 3, 0, "1"), PolyEv(i.x, i.n, 3, 0, "-1"))
        /\ ZLe(ZShr(o.p, W * i.n), "3") /\ ZLe(ZShr(o.m, W * i.n), "1")
     [] f = "mpn_toom_eval_dgr3_pm2" ->
        \* toom_eval_dgr3_pm2.c: "(x0 + 4 * x2) +/- (2 x1 + 8 x_3)"; "Needs n+1 limbs of temporary storage."  "ASSERT (xp2[n] < 15); ASSERT (xm2[n] < 10)".
        /\ i.k = 3 /\ EvalPre(i, 3)
        /\ EvalPost(o, i.n, PolyEv(i.x, i.n, 3, 0, "2"), PolyEv(i.x, i.n, 3, 0, "-2"))
        /\ ZLt(ZShr(o.p, W * i.n), "f") /\ ZLt(ZShr(o.m, W * i.n), "a")
     [] f = "mpn_toom_couple_handling" ->
        \* toom_couple_handling.c: "Gets {pp,n} and (sign?-1:1)*{np,n}. Computes at once: {pp,n} <- ({pp,n}+{np,n})/2^{ps+1}; {pn,n} <- ({pp,n}-{np,n})/2^{ns+1}.
        \* Finally recompose them obtaining: {pp,n+off} <- {pp,n}+{np,n}*2^{off*GMP_NUMB_BITS}".  In the code the half SUM (with the sign applied) is the part that
        \* goes to np and is shifted by ns, the half difference stays in pp and is shifted by ps; the divisions are right shifts of n-limb values, so the callers'
        \* values satisfy: 0 <= pp + s*np < B^n, pp >= (pp + s*np)/2 (no borrow), and the recomposition does not carry out ("ASSERT_NOCARRY (mpn_add_1 ...)").
        LET sN == IF i.nsign # 0 THEN ZNeg(i.m) ELSE i.m
            H  == ZShr(ZAdd(i.p, sN), 1)
            L  == ZShr(ZSub(i.p, H), i.ps)
            H2 == ZShr(H, i.ns)
        IN /\ i.n > i.off /\ i.off >= 1 /\ i.ps >= 0 /\ i.ns >= 0 /\ Fits(i.p, i.n) /\ Fits(i.m, i.n)
           /\ Fits(ZAdd(i.p, sN), i.n) /\ ZLe(H, i.p)
           /\ o.np = H2
           /\ o.r = ZAdd(L, ZMul(H2, Bn(i.off))) /\ Fits(o.r, i.n + i.off)

(* ---------------------------------------------------------------------- FFT: arithmetic mod p = 2^(64*limbs) + 1 ---- *)
(* Representation (fft/fermat_to_mpz.c: "hi = i[limbs]; if (hi < 0L) { mpn_neg_n (m->_mp_d, m->_mp_d, limbs + 1); ... size negative"): a residue is the   *)
(* limbs+1 limb vector read as a TWO'S COMPLEMENT integer, i.e. the top limb is a signed excess over the limbs-limb body; gmp-impl.h mpir_random_fermat     *)
(* (the operand generator of every test in tests/fft) draws the top limb from (-1024, 1024).  The sources carry no contract comments; each contract below   *)
(* is the reference computation of the routine's in-tree test program (tests/fft/t-*.c), which compares "mod p" (set_p: "p = 2^wn + 1") after converting    *)
(* with mpir_fermat_to_mpz: a congruence on the signed values.  Only mpn_normmod_2expp1 promises a representation: the canonical residue.                  *)
(* Vectors are logged as naturals (raw limbs); Sg gives the signed value.                                                                                  *)
LOCAL Sg(v, L) == IF ZTestBit(v, W * (L + 1) - 1) THEN ZSub(v, ZPow2(W * (L + 1))) ELSE v
LOCAL Pm(L) == ZAdd(ZPow2(W * L), "1")
LOCAL CongP(a, b, L) == ZDivides(Pm(L), ZSub(a, b))
LOCAL Raw(v, L) == Fits(v, L + 1)
(* sqrt(2) mod p: 2^(3wn/4) - 2^(wn/4) with wn = 64*limbs (tests/fft/t-adjust_sqrt2.c ref_adjust_sqrt2, t-butterfly_sqrt2.c: "mpz_mul_2exp(s, t, 3*limbs*GMP_LIMB_BITS/4);   *)
(* mpz_mul_2exp(t, t, limbs*GMP_LIMB_BITS/4); mpz_sub(t, s, t)")                                                                                             *)
LOCAL Sqrt2(L) == ZSub(ZPow2(48 * L), ZPow2(16 * L))
RECURSIVE RevBin(_, _)
RevBin(v, bits) == IF bits = 0 THEN 0 ELSE (v % 2) * (2 ^ (bits - 1)) + RevBin(v \div 2, bits - 1)

FunsK4Mod == {"mpn_normmod_2expp1", "mpn_mul_2expmod_2expp1", "mpn_div_2expmod_2expp1", "mpir_fft_adjust", "mpir_fft_adjust_sqrt2",
              "mpir_butterfly_lshB", "mpir_butterfly_rshB", "mpir_fft_butterfly", "mpir_ifft_butterfly", "mpir_fft_butterfly_sqrt2", "mpir_ifft_butterfly_sqrt2",
              "mpir_fft_butterfly_twiddle", "mpir_ifft_butterfly_twiddle", "mpir_fermat_to_mpz", "mpir_revbin"}

PostK4Mod(f, i, o) ==
   LET L == i.limbs  WN == W * i.limbs IN
   CASE f = "mpn_normmod_2expp1" ->
        \* fft/normmod_2expp1.c: "hi will now be in [-1,1]" ... "if we now have -1 (very unlikely)" add 1 once more; tests/fft/t-normmod_2expp1.c: any limbs+1 limb input
        \* ("mpn_rrandom(nn, state, limbs + 1)"), the result converted by mpir_fermat_to_mpz must EQUAL "mpz_mod(m1, m1, p)": the canonical residue in [0, 2^wn].
        /\ L >= 1 /\ Raw(i.a, L) /\ Raw(o.r, L)
        /\ o.r = ZMod(Sg(i.a, L), Pm(L))
     [] f = "mpn_mul_2expmod_2expp1" ->
        \* tests/fft/t-mul_2expmod_2expp1.c: "for (d = 0; d < GMP_LIMB_BITS; d++)": r = i1 * 2^d mod p ("mpz_mul_2exp(m1, m1, d); mpz_mod(m1, m1, p)").
        /\ L >= 1 /\ i.d >= 0 /\ i.d < W /\ Raw(i.a, L) /\ Raw(o.r, L)
        /\ CongP(Sg(o.r, L), ZShl(Sg(i.a, L), i.d), L)
     [] f = "mpn_div_2expmod_2expp1" ->
        \* tests/fft/t-div_2expmod_2expp1.c: the result times 2^d is the operand mod p ("mpz_mul_2exp(m2, m2, d); mpz_mod(m2, m2, p); if (mpz_cmp(m1, m2) != 0)"); 0 <= d < 64.
        /\ L >= 1 /\ i.d >= 0 /\ i.d < W /\ Raw(i.a, L) /\ Raw(o.r, L)
        /\ CongP(ZShl(Sg(o.r, L), i.d), Sg(i.a, L), L)
     [] f = "mpir_fft_adjust" ->
        \* tests/fft/t-adjust.c ref_adjust: "mpz_mul_2exp(r, i1, w*i); mpz_mod(r, r, p)".  The callers pass i*w <= 64*limbs (= only in fft/ifft_negacyclic.c: "n - i/2" with i = 0).
        /\ L >= 1 /\ i.i >= 0 /\ i.w >= 1 /\ i.i * i.w <= WN /\ Raw(i.a, L) /\ Raw(o.r, L)
        /\ CongP(Sg(o.r, L), ZShl(Sg(i.a, L), i.i * i.w), L)
     [] f = "mpir_fft_adjust_sqrt2" ->
        \* tests/fft/t-adjust_sqrt2.c ref_adjust_sqrt2: "mpz_mul_2exp(r, i1, (w/2)*i + i/2); if (i & 1) { ... r*2^(3wn/4) - r*2^(wn/4) }", "for (c = 1; c < 2*n; c+=2)";
        \* the callers use it for odd w and odd i only (fft_negacyclic.c, fft_trunc_sqrt2.c: "if (w & 1)").  = multiplication by sqrt(2)^(i*w).
        /\ L >= 1 /\ i.w % 2 = 1 /\ i.i % 2 = 1 /\ WN % i.w = 0 /\ i.i < 2 * (WN \div i.w) /\ Raw(i.a, L) /\ Raw(o.r, L)
        /\ CongP(Sg(o.r, L), ZMul(ZShl(Sg(i.a, L), (i.w \div 2) * i.i + i.i \div 2), Sqrt2(L)), L)
     [] f = "mpir_butterfly_lshB" ->
        \* tests/fft/t-butterfly_lshB.c ref_butterfly_lshB: "t = i1 + i2; u = i1 - i2; t <<= x*GMP_LIMB_BITS; u <<= y*GMP_LIMB_BITS; mod p"; "x %= limbs; y %= limbs".
        /\ L >= 1 /\ i.x >= 0 /\ i.x < L /\ i.y >= 0 /\ i.y < L /\ Raw(i.a, L) /\ Raw(i.b, L) /\ Raw(o.s, L) /\ Raw(o.t, L)
        /\ CongP(Sg(o.s, L), ZShl(ZAdd(Sg(i.a, L), Sg(i.b, L)), W * i.x), L)
        /\ CongP(Sg(o.t, L), ZShl(ZSub(Sg(i.a, L), Sg(i.b, L)), W * i.y), L)
     [] f = "mpir_butterfly_rshB" ->
        \* tests/fft/t-butterfly_rshB.c ref_butterfly_rshB: "mult1 = 1/B^x mod p; mult2 = 1/B^y mod p; mult1 *= i1; mult2 *= i2; t = mult1 + mult2; u = mult1 - mult2".
        \* Stated without inverses: t * B^(x+y) = i1 * B^y + i2 * B^x (B is a unit mod p).
        /\ L >= 1 /\ i.x >= 0 /\ i.x < L /\ i.y >= 0 /\ i.y < L /\ Raw(i.a, L) /\ Raw(i.b, L) /\ Raw(o.s, L) /\ Raw(o.t, L)
        /\ CongP(ZShl(Sg(o.s, L), W * (i.x + i.y)), ZAdd(ZShl(Sg(i.a, L), W * i.y), ZShl(Sg(i.b, L), W * i.x)), L)
        /\ CongP(ZShl(Sg(o.t, L), W * (i.x + i.y)), ZSub(ZShl(Sg(i.a, L), W * i.y), ZShl(Sg(i.b, L), W * i.x)), L)
     [] f = "mpir_fft_butterfly" ->
        \* tests/fft/t-butterfly.c ref_fft_butterfly: "s = i1 + i2; t = i1 - i2; t <<= i*w; mod p", "for (c = 0; c < n; c++)" (n*w = 64*limbs).
        /\ L >= 1 /\ i.i >= 0 /\ i.w >= 1 /\ i.i * i.w < WN /\ Raw(i.a, L) /\ Raw(i.b, L) /\ Raw(o.s, L) /\ Raw(o.t, L)
        /\ CongP(Sg(o.s, L), ZAdd(Sg(i.a, L), Sg(i.b, L)), L)
        /\ CongP(Sg(o.t, L), ZShl(ZSub(Sg(i.a, L), Sg(i.b, L)), i.i * i.w), L)
     [] f = "mpir_ifft_butterfly" ->
        \* tests/fft/t-butterfly.c ref_ifft_butterfly: "i2 <<= 2*n*w - i*w; s = i1 + i2; t = i1 - i2; mod p"  (2^(2nw) = 1 mod p: i2 is divided by 2^(i*w)).
        /\ L >= 1 /\ i.i >= 0 /\ i.w >= 1 /\ i.i * i.w < WN /\ Raw(i.a, L) /\ Raw(i.b, L) /\ Raw(o.s, L) /\ Raw(o.t, L)
        /\ CongP(ZShl(Sg(o.s, L), i.i * i.w), ZAdd(ZShl(Sg(i.a, L), i.i * i.w), Sg(i.b, L)), L)
        /\ CongP(ZShl(Sg(o.t, L), i.i * i.w), ZSub(ZShl(Sg(i.a, L), i.i * i.w), Sg(i.b, L)), L)
     [] f = "mpir_fft_butterfly_sqrt2" ->
        \* tests/fft/t-butterfly_sqrt2.c ref_fft_butterfly_sqrt2: "t = i1 - i2; t <<= i*(w/2) + i/2; t = t*2^(3wn/4) - t*2^(wn/4); s = i1 + i2"; "w must be odd here"; "for (c = 1; c < 2*n; c+=2)".
        LET e == i.i * (i.w \div 2) + i.i \div 2 IN
        /\ L >= 1 /\ i.w % 2 = 1 /\ i.i % 2 = 1 /\ WN % i.w = 0 /\ i.i < 2 * (WN \div i.w) /\ Raw(i.a, L) /\ Raw(i.b, L) /\ Raw(o.s, L) /\ Raw(o.t, L)
        /\ CongP(Sg(o.s, L), ZAdd(Sg(i.a, L), Sg(i.b, L)), L)
        /\ CongP(Sg(o.t, L), ZMul(ZShl(ZSub(Sg(i.a, L), Sg(i.b, L)), e), Sqrt2(L)), L)
     [] f = "mpir_ifft_butterfly_sqrt2" ->
        \* ref_ifft_butterfly_sqrt2: "s = i2 << (2*n*w - i*(w/2) - 1 - i/2); i2 = s*2^(3wn/4) - s*2^(wn/4); s = i1 + i2; t = i1 - i2"  (i2 * sqrt2 / 2^(e+1)).
        LET e == i.i * (i.w \div 2) + i.i \div 2 + 1 IN
        /\ L >= 1 /\ i.w % 2 = 1 /\ i.i % 2 = 1 /\ WN % i.w = 0 /\ i.i < 2 * (WN \div i.w) /\ Raw(i.a, L) /\ Raw(i.b, L) /\ Raw(o.s, L) /\ Raw(o.t, L)
        /\ CongP(ZShl(Sg(o.s, L), e), ZAdd(ZShl(Sg(i.a, L), e), ZMul(Sg(i.b, L), Sqrt2(L))), L)
        /\ CongP(ZShl(Sg(o.t, L), e), ZSub(ZShl(Sg(i.a, L), e), ZMul(Sg(i.b, L), Sqrt2(L))), L)
     [] f = "mpir_fft_butterfly_twiddle" ->
        \* tests/fft/t-butterfly_twiddle.c ref_fft_butterfly_twiddle: "s = i1 + i2; t = i1 - i2; s <<= b1; t <<= b2; mod p"; the code reduces b >= nw once ("if (b1 >= nw) { negate2 = 1; b1 -= nw; }"): b < 2nw.
        /\ L >= 1 /\ i.b1 >= 0 /\ i.b1 < 2 * WN /\ i.b2 >= 0 /\ i.b2 < 2 * WN /\ Raw(i.a, L) /\ Raw(i.b, L) /\ Raw(o.s, L) /\ Raw(o.t, L)
        /\ CongP(Sg(o.s, L), ZShl(ZAdd(Sg(i.a, L), Sg(i.b, L)), i.b1), L)
        /\ CongP(Sg(o.t, L), ZShl(ZSub(Sg(i.a, L), Sg(i.b, L)), i.b2), L)
     [] f = "mpir_ifft_butterfly_twiddle" ->
        \* ref_ifft_butterfly_twiddle: "i1 <<= 2*n*w - b1; i2 <<= 2*n*w - b2; s = i1 + i2; t = i1 - i2": u * 2^(b1+b2) = i1 * 2^b2 + i2 * 2^b1.
        /\ L >= 1 /\ i.b1 >= 0 /\ i.b1 < 2 * WN /\ i.b2 >= 0 /\ i.b2 < 2 * WN /\ Raw(i.a, L) /\ Raw(i.b, L) /\ Raw(o.s, L) /\ Raw(o.t, L)
        /\ CongP(ZShl(Sg(o.s, L), i.b1 + i.b2), ZAdd(ZShl(Sg(i.a, L), i.b2), ZShl(Sg(i.b, L), i.b1)), L)
        /\ CongP(ZShl(Sg(o.t, L), i.b1 + i.b2), ZSub(ZShl(Sg(i.a, L), i.b2), ZShl(Sg(i.b, L), i.b1)), L)
     [] f = "mpir_fermat_to_mpz" ->
        \* fft/fermat_to_mpz.c: the mpz receives the two's complement value of {i, limbs+1}, normalised ("while ((m->_mp_size) && (!m->_mp_d[m->_mp_size - 1])) m->_mp_size--").
        /\ L >= 1 /\ Raw(i.a, L)
        /\ o.v = Sg(i.a, L)
        /\ o.sz = (IF ZIsNeg(o.v) THEN -1 ELSE 1) * ZLimbCount(o.v)
     [] f = "mpir_revbin" ->
        \* fft/revbin.c: "computes the reverse binary of a binary number of the given number of bits".
        /\ i.bits >= 0 /\ i.bits <= 30 /\ i.v >= 0 /\ i.v < 2 ^ i.bits
        /\ o.r = RevBin(i.v, i.bits)

(* ---------------------------------------------------------------------- FFT: transforms ---- *)
(* Length 2n, n = 2^depth, modulus p = 2^(nw) + 1 (limbs = n*w/64), root of unity 2^w (order 2n since 2^(nw) = -1).  The radix-2 routines (fft/fft_radix2.c: one layer  *)
(* of mpir_fft_butterfly "s = i1 + i2, t = (i1 - i2)*2^(i*w)" then both halves with 2w) deliver the values in BIT-REVERSED order: position j holds A(2^(w*rev(j))),          *)
(* rev over depth+1 bits.  The negacyclic form (fft/fft_negacyclic.c: "first apply twiddle factors corresponding to shifts of w*i/2 bits") evaluates at the odd powers of  *)
(* z = 2^(w/2) (z = sqrt2^w for odd w): position j holds A(z^(2*rev(j)+1)).  Truncated form (fft/fft_trunc.c, tests/fft/t-fft_ifft_trunc.c): input entries from trunc on   *)
(* are taken as zero whatever they hold, the first trunc outputs are delivered.  The inverse routines are unnormalised: inverse(forward(x)) = 2n*x (every t-fft_ifft_*.c:   *)
(* "mpn_div_2expmod_2expp1(ii[i], ii[i], limbs, depth + 1)" before comparing); an inverse alone is specified by: the forward transform of its output is 2n times its input. *)
LOCAL Tw(k, j, n, w, bits, L, nega) ==
   LET M == 2 * n * w IN
   IF ~nega THEN ZPow2((k * w * RevBin(j, bits)) % M)
   ELSE LET ew == k * (2 * RevBin(j, bits) + 1) * w IN ZMul(ZPow2((ew \div 2) % M), IF ew % 2 = 1 THEN Sqrt2(L) ELSE "1")
RECURSIVE FwdAt(_, _, _, _, _, _, _, _, _)
FwdAt(c, cnt, k, j, n, w, bits, L, nega) == IF k = cnt THEN "0" ELSE ZAdd(ZMul(Sg(c[k + 1], L), Tw(k, j, n, w, bits, L, nega)), FwdAt(c, cnt, k + 1, j, n, w, bits, L, nega))
RECURSIVE BitsSeq(_, _, _, _)
BitsSeq(x, bits, j, len) == IF j = len THEN <<>> ELSE <<ZLowBits(ZShr(x, j * bits), bits)>> \o BitsSeq(x, bits, j + 1, len)
RECURSIVE WeightedSum(_, _, _, _)
WeightedSum(c, bits, j, len) == IF j = len THEN "0" ELSE ZAdd(ZShl(c[j + 1], j * bits), WeightedSum(c, bits, j + 1, len))

FunsK4Fft == {"mpir_fft_radix2", "mpir_ifft_radix2", "mpir_fft_trunc", "mpir_ifft_trunc", "mpir_fft_negacyclic", "mpir_ifft_negacyclic",
              "mpir_fft_radix2+mpir_ifft_radix2", "mpir_fft_trunc+mpir_ifft_trunc", "mpir_fft_negacyclic+mpir_ifft_negacyclic",
              "mpir_fft_split_bits", "mpir_fft_combine_bits"}
PostK4Fft(f, i, o) ==
   IF f = "mpir_fft_split_bits" THEN
        \* fft/split_bits.c: "length = (GMP_LIMB_BITS*total_limbs - 1)/bits + 1" coefficients of `bits` bits each, zero-extended to output_limbs + 1 limbs ("mpn_zero(poly[i], output_limbs + 1)").
        LET len == (W * i.total - 1) \div i.bits + 1 IN
        /\ i.total >= 1 /\ i.bits >= 1 /\ W * i.out >= i.bits /\ Fits(i.x, i.total)
        /\ o.len = len /\ o.c = BitsSeq(i.x, i.bits, 0, len)
   ELSE IF f = "mpir_fft_combine_bits" THEN
        \* fft/combine_bits.c adds coefficient j at bit j*bits into {res, total_limbs} ("mpn_add(res + skip, res + skip, output_limbs + 1, poly[i], output_limbs)" / the shifted copy for
        \* non-aligned widths), the result area cleared by the caller, dropping what lies beyond total_limbs; tests/fft/t-split_combine_bits.c: combine(split(x)) = x.  Coefficients < B^output_limbs.
        /\ Len(i.c) = i.len /\ \A j \in 1..i.len : Fits(i.c[j], i.out)
        /\ o.r = ZLowBits(WeightedSum(i.c, i.bits, 0, i.len), W * i.total)
   ELSE
   LET L == i.limbs  n == i.n  cnt == 2 * i.n  bits == i.depth + 1
       nega == f \in {"mpir_fft_negacyclic", "mpir_ifft_negacyclic"}
       tr == IF "trunc" \in DOMAIN i THEN i.trunc ELSE cnt
       two_n == ZFromInt(cnt) IN
   /\ n = 2 ^ i.depth /\ i.w >= 1 /\ n * i.w = W * L /\ L >= 1 /\ tr >= 1 /\ tr <= cnt /\ tr % 2 = 0 /\ (nega => n >= 2)
   /\ Len(o.r) = tr /\ \A j \in 1..tr : Raw(o.r[j], L)
   /\ \A j \in 1..Len(i.c) : Raw(i.c[j], L)
   /\ CASE f \in {"mpir_fft_radix2", "mpir_fft_trunc", "mpir_fft_negacyclic"} ->
             /\ Len(i.c) = cnt
             /\ \A j \in 0..(tr - 1) : CongP(Sg(o.r[j + 1], L), FwdAt(i.c, tr, 0, j, n, i.w, bits, L, nega), L)
        [] f \in {"mpir_ifft_radix2", "mpir_ifft_trunc", "mpir_ifft_negacyclic"} ->
             /\ Len(i.c) = tr
             /\ \A j \in 0..(tr - 1) : CongP(FwdAt(o.r, tr, 0, j, n, i.w, bits, L, nega), ZMul(two_n, Sg(i.c[j + 1], L)), L)
        [] OTHER ->
             /\ Len(i.c) = tr
             /\ \A j \in 1..tr : CongP(Sg(o.r[j], L), ZMul(two_n, Sg(i.c[j], L)), L)

FunsK4 == FunsK4Toom \cup FunsK4Mod \cup FunsK4Fft
PostK4(f, i, o) == IF f \in FunsK4Toom THEN PostK4Toom(f, i, o) ELSE IF f \in FunsK4Mod THEN PostK4Mod(f, i, o) ELSE PostK4Fft(f, i, o)
=============================================================================
