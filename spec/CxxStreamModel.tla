---------------------------- MODULE CxxStreamModel ----------------------------
(***************************************************************************)
(* R2/R3 for C20 stream insertion.                                          *)
(* R2: ImplZ is the transcription of cxx/osmpz.cc -> cxx/osfuns.cc          *)
(* (__gmp_doprnt_params_from_ios) -> cxx/osdoprnti.cc (precision forced to  *)
(* -1) -> printf/doprnti.c (__gmp_doprnt_integer) on the string of          *)
(* mpz_get_str; the model requires it to produce one of the texts           *)
(* CxxStream!MpzOstreamTexts admits on the whole product                    *)
(*   5 basefield states x 5 adjustfield states x showbase x showpos x       *)
(*   uppercase x width {0,1,5,12} x fill {' ','*','0'} x 12 values          *)
(* and relates OstreamLayout to the C99 layout CPrintf where printf can     *)
(* express the same request (fill ' ' right/left = width with/without '-',  *)
(* internal with fill '0' = the 0 flag).                                    *)
(* R3: with EMIT every row is printed for the harness (cxx_stream.cc),      *)
(* which formats an mpz_class, the equal long and an mpq_class under the    *)
(* same stream state.                                                       *)
(* Variant "ok" = the code as it is; the others are slips an edit could     *)
(* make (tools/model_variants.py requires each to be violated).             *)
(***************************************************************************)
EXTENDS CxxStream, FiniteSets, SemIO, SemF
CONSTANTS EMIT, Variant, L
LOCAL Chr(s, i) == SubSeq(s, i, i)
Bases == {"dec", "oct", "hex", "none", "octhex"}
Adjs == {"left", "right", "internal", "none", "leftint"}
Widths == {0, 1, 5, 12}
Fills == {" ", "*", "0"}
Vals == {"0", "1", "-1", "7b", "-7b", "8", "-1000", "7fffffffffffffff", "-8000000000000000", "8000000000000000",
         "123456789abcdef0fedcba9876543210", "-fedcba98765432100123456789abcdef01"}
States == [base : Bases, adj : Adjs, showbase : BOOLEAN, showpos : BOOLEAN, upper : BOOLEAN]

(* ---- transcription ---- *)
Params(st) ==
   [base |-> IF st.base = "hex" THEN (IF st.upper /\ Variant # "upper_ignored" THEN -16 ELSE 16) ELSE IF st.base = "oct" THEN 8 ELSE 10,
    justify |-> IF st.adj = "left" THEN "left" ELSE IF st.adj = "internal" /\ Variant # "internal_as_right" THEN "internal" ELSE "right",   \* "right" if more than one bit set
    showbase |-> IF ~st.showbase THEN "no" ELSE IF st.base = "hex" \/ Variant = "showbase_always" THEN "yes" ELSE "nonzero",                 \* for hex showbase is always, for octal only non-zero
    sign |-> IF st.showpos THEN "+" ELSE ""]
ImplZ(st, width, fill, v) ==
   LET p == Params(st)
       s == ZDigits(ZAbs(v), IF p.base < 0 THEN -p.base ELSE p.base, IF p.base < 0 THEN HexU ELSE HexL)       \* mpz_get_str (NULL, param.base, z) without its '-'
       sign == IF ZIsNeg(v) THEN "-" ELSE p.sign
       sb0 == IF p.showbase = "no" THEN "" ELSE IF p.base = 16 THEN "0x" ELSE IF p.base = -16 THEN "0X" ELSE IF p.base = 8 THEN "0" ELSE ""
       sb == IF p.showbase = "nonzero" /\ Chr(s, 1) = "0" THEN "" ELSE sb0
       justlen == width - (Len(s) + (IF Variant = "justlen_no_sign" THEN 0 ELSE Len(sign)) + Len(sb))
       just == IF justlen <= 0 THEN "none" ELSE p.justify
   IN  (IF just = "right" THEN Rep(fill, justlen) ELSE "") \o sign \o sb                    \* sign, base indicator,
       \o (IF just = "internal" THEN Rep(fill, justlen) ELSE "") \o s                        \* THEN the internal padding (also after an octal 0: see CxxStream.tla)
       \o (IF just = "left" THEN Rep(fill, justlen) ELSE "")

ASSUME Variant \in {"ok", "justlen_no_sign", "upper_ignored", "internal_as_right", "showbase_always"}
Rows == {<<st, w, f, v>> : st \in States, w \in Widths, f \in Fills, v \in Vals}
RowOK(st, w, f, v) ==
   LET want == OstreamLayout(st, w, f, v)
       fl == OFlags(st) IN
   /\ ImplZ(st, w, f, v) \in MpzOstreamTexts(st, w, f, v)
   \* the texts admitted for MPIR are the standard's except for the stated deviation
   /\ (~ZeroHexShowbase(st, v) => want \in MpzOstreamTexts(st, w, f, v))
   \* OstreamLayout against C99 printf where printf can say the same
   /\ (f = " " /\ st.adj \in {"right", "none", "leftint"} => want = CPrintf(fl, w, -1, OConv(st), v))
   /\ (f = " " /\ st.adj = "left" => want = CPrintf([fl EXCEPT !.minus = TRUE], w, -1, OConv(st), v))
   /\ (f = "0" /\ st.adj = "internal" => want = CPrintf([fl EXCEPT !.zero = TRUE], w, -1, OConv(st), v))
ASSUME \A r \in Rows : /\ RowOK(r[1], r[2], r[3], r[4])
                       /\ (EMIT => PrintT(<<"OS", r[1].base, r[1].adj, r[1].showbase, r[1].showpos, r[1].upper, r[2], r[3], r[4]>>))

(* ---- extraction: every string of length <= L over the alphabet below, and a list of longer ones, under every basefield state and skipws;
   R2: the field IParse delimits is a number of the C-level grammar (SemIO!ParseNum, i.e. mpz_set_str in base 10 / 8 / 16 / 0) with the same
   value, it is maximal (the next character cannot extend it) and nothing before it but skipped white space and a '+' is dropped ---- *)
IAlphabet == <<"0", "1", "7", "9", "a", "F", "x", "X", "-", "+", " ", "/", "g", "\t">>
RECURSIVE IStrs(_)
IStrs(n) == IF n = 0 THEN {""} ELSE LET S == IStrs(n - 1) IN S \cup {s \o IAlphabet[i] : s \in {t \in S : Len(t) = n - 1}, i \in 1..Len(IAlphabet)}
ILong == {"0x1f", "-0X1F", "+0x1f ", "0x10/11", "0x10/0x11", "123/456", "0123/0456", "5 /9", "5/ 9", " 42", "\t\n 42", "12a", "0xg1", "08", "089", "007 1",
          "+0", "-0", "00", "0/0", "99999999999999999999999999", "-123456789012345678901234567890/7", "1/-3", "7fffffffffffffff", "-8000000000000000",
          "9223372036854775807", "-9223372036854775808", "9223372036854775808", "777777777777777777777/1", "deadBEEFcafe0123456789/AbC", "12 34", "1/2/3", "-/3", "/3", "--1", "+-1", "1e5", "0x1F/0X2f rest"}
IBasefields == {"dec", "oct", "hex", "none"}
IRows == {<<b, k, s>> : b \in IBasefields, k \in BOOLEAN, s \in IStrs(L) \cup ILong}
IRowOK(b, k, s) ==
   LET p == IParse(s, b, k)
       i0 == IF k THEN SkipWS(s, 1) ELSE 1
       fld0 == SubSeq(s, i0, p.n)
       fld == IF Len(fld0) > 0 /\ Chr(fld0, 1) = "+" THEN SubSeq(fld0, 2, Len(fld0)) ELSE fld0
       cb == IF b = "dec" THEN 10 ELSE IF b = "oct" THEN 8 ELSE IF b = "hex" THEN 16 ELSE 0
       c == ParseNum(fld, cb) IN
   /\ p.n <= Len(s) /\ p.n >= i0 - 1
   /\ (p.ok /\ ~p.open => c.ok /\ ~c.open /\ c.v = p.v)
   /\ (p.ok /\ ~p.open /\ p.n < Len(s) => LET c2 == ParseNum(fld \o Chr(s, p.n + 1), cb) IN ~c2.ok \/ c2.open \/ IsWS(Chr(s, p.n + 1))
                                                \/ (b = "none" /\ fld \in {"0", "-0"} /\ Chr(s, p.n + 1) \in {"x", "X", "b", "B"}))
ASSUME \A r \in IRows : /\ IRowOK(r[1], r[2], r[3])
                        /\ (EMIT => PrintT(<<"IS", r[1], r[2], r[3]>>))
(* ---- mpf extraction: the field FParse delimits is a float of the C-level grammar (SemF!ParseFlt = mpf_set_str, base 10) ---- *)
FAlphabet == <<"1", "5", "0", ".", "e", "E", "-", "+", " ", "x">>
RECURSIVE FStrs(_)
FStrs(n) == IF n = 0 THEN {""} ELSE LET S == FStrs(n - 1) IN S \cup {s \o FAlphabet[i] : s \in {t \in S : Len(t) = n - 1}, i \in 1..Len(FAlphabet)}
FLong == {"1.5", "-2.25e3", "  1e-2", ".5e1", "5.", "1e", "e5", ".e123", "abc", "+3.0E+2x", "0.0009765625", "123456789012345678901234567890.5", "-0.1", "1.5e+10 ", "1e5e5", "1..5", "--1", "\t\n7.25", "1.5.5", "00012.500"}
FRows == {<<k, s>> : k \in BOOLEAN, s \in FStrs(L) \cup FLong}
FRowOK(k, s) == LET p == FParse(s, k)  c == ParseFlt(p.fld, 10) IN p.n <= Len(s) /\ (p.ok => c.ok /\ ~c.open)
ASSUME \A r \in FRows : FRowOK(r[1], r[2]) /\ (EMIT => PrintT(<<"FS", r[1], r[2]>>))
ASSUME PrintT(<<"CxxStreamModel", Cardinality(Rows), Cardinality(IRows), Cardinality(FRows)>>)
VARIABLE dummy
Spec == dummy = 0 /\ [][UNCHANGED dummy]_dummy
=============================================================================
