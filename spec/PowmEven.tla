------------------------------ MODULE PowmEven ------------------------------
(***************************************************************************)
(* R2 model for C08: the case analysis of mpz_powm (mpz/powm.c:62-300) at  *)
(* value level with a limb of W bits: exponent zero; negative exponent via *)
(* the modular inverse (or the divide-by-zero signal); base zero; e = 1    *)
(* (reduce b, negative base folded into [0,m)); modulus split into its odd *)
(* part and 2^t (whole zero low limbs + trailing zero bits), power modulo  *)
(* the odd part, power modulo 2^t with the "even base" short cuts (e has   *)
(* more than one limb => 0; e*min(3,ctz b) >= t => 0), recombination with  *)
(* the binary inverse of the odd part, final fold for a negative base.     *)
(* Checked against b^e mod |m| in [0,|m|) for every b, e, m in range.      *)
(***************************************************************************)
EXTENDS Naturals, Integers, Sequences, TLC
CONSTANTS W, MMAX, BMAX, EMAX, Variant     \* Variant: "ok" | "no_fold" (negative base not folded) | "shortcut_ge" (e*bcnt > t)
Bw == 2 ^ W
AbsI(x) == IF x < 0 THEN -x ELSE x
RECURSIVE PowMod(_, _, _)
PowMod(x, e, m) == IF e = 0 THEN 1 % m ELSE LET h == PowMod(x, e \div 2, m) IN IF e % 2 = 1 THEN (h * h * (x % m)) % m ELSE (h * h) % m
RECURSIVE Ctz(_)
Ctz(x) == IF x % 2 = 1 THEN 0 ELSE 1 + Ctz(x \div 2)
RECURSIVE GcdI(_, _)
GcdI(a, b) == IF b = 0 THEN a ELSE GcdI(b, a % b)
Inverse(a, m) == CHOOSE x \in 0..(m - 1) : (a * x) % m = 1 % m
NLimbs(x) == IF x = 0 THEN 0 ELSE IF x < Bw THEN 1 ELSE IF x < Bw * Bw THEN 2 ELSE 3

(* result record: [sig, r] *)
Powm(b0, e0, m0) ==
   LET m == AbsI(m0) IN
   IF e0 = 0 THEN [sig |-> FALSE, r |-> IF m = 1 THEN 0 ELSE 1]
   ELSE LET needinv == e0 < 0
            invertible == GcdI(AbsI(b0) % m, m) = 1 \/ m = 1
        IN  IF needinv /\ ~invertible THEN [sig |-> TRUE, r |-> 0]
            ELSE LET b == IF needinv THEN Inverse(b0 % m, m) ELSE b0      \* mpz_invert result is in [0,m)
                     e == AbsI(e0)
                     ab == AbsI(b)
                 IN  IF ab = 0 THEN [sig |-> FALSE, r |-> 0]
                     ELSE IF e = 1
                     THEN LET r0 == ab % m IN
                          [sig |-> FALSE, r |-> IF b < 0 /\ r0 # 0 /\ Variant # "no_fold" THEN m - r0 ELSE r0]
                     ELSE LET t    == Ctz(m)                    \* ncnt limbs and cnt bits together
                              odd  == m \div (2 ^ t)
                              rodd == PowMod(ab, e, odd)         \* mpn_powm modulo the odd part
                              r2   == IF t = 0 THEN 0
                                      ELSE IF ab % 2 = 0
                                           THEN IF NLimbs(e) > 1 THEN 0
                                                ELSE LET bcnt == IF Ctz(ab) > 3 THEN 3 ELSE Ctz(ab) IN
                                                     IF (IF Variant = "shortcut_ge" THEN e * bcnt > t - 2 ELSE e * bcnt >= t) THEN 0
                                                     ELSE PowMod(ab, e, 2 ^ t)
                                           ELSE PowMod(ab, e, 2 ^ t)     \* mpn_powlo
                              x    == IF t = 0 THEN 0 ELSE (((r2 - rodd) % (2 ^ t)) * Inverse(odd % (2 ^ t), 2 ^ t)) % (2 ^ t)
                              rpos == rodd + odd * x
                              neg  == b < 0 /\ e % 2 = 1
                          IN  [sig |-> FALSE, r |-> IF neg /\ rpos # 0 /\ Variant # "no_fold" THEN m - rpos ELSE rpos]

VARIABLES phase, bb, ee, mm
vars == <<phase, bb, ee, mm>>
Init == phase = 0 /\ bb = 0 /\ ee = 0 /\ mm = 1
Pick == phase = 0 /\ phase' = 1 /\ bb' \in (-BMAX)..BMAX /\ ee' \in (-3)..EMAX /\ mm' \in ((-MMAX)..MMAX) \ {0}
Spec == Init /\ [][Pick]_vars
RECURSIVE PowModI(_, _, _)
PowModI(x, e, m) == IF e = 0 THEN 1 % m ELSE ((x % m) * PowModI(x, e - 1, m)) % m        \* the definition, reduced at every step (TLC integers are 32 bit)
Correct == phase = 1 =>
   LET m == AbsI(mm)  res == Powm(bb, ee, mm) IN
   \* the W-bit scaling of "e has more than one limb => b^e = 0 mod 2^t" needs t < 2^W, as n*64 < 2^64 holds at the real width
   (Ctz(m) < Bw) =>
     IF ee >= 0 THEN ~res.sig /\ res.r = PowModI(bb, ee, m)
     ELSE IF GcdI(AbsI(bb) % m, m) = 1 \/ m = 1
          THEN ~res.sig /\ res.r \in 0..(m - 1) /\ (res.r * PowModI(bb, -ee, m)) % m = 1 % m
          ELSE res.sig
=============================================================================
