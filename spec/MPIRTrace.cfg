SPECIFICATION TSpec
CONSTANTS NZ = 8  NQ = 4  NF = 6  NR = 3
INVARIANT HeapIdsUnique
INVARIANT OwnersHoldLiveBlocks
POSTCONDITION Accepted
CHECK_DEADLOCK FALSE
