----------------------------- MODULE GcdContract -----------------------------
(***************************************************************************)
(* R2 model for C07: the manual's contract for mpz_gcdext (doc/mpir.texi    *)
(* 3477-3502) as a predicate over TLC integers; TLC shows for every         *)
(* |a|,|b| <= M that EXACTLY ONE cofactor pair satisfies it (the predicate  *)
(* the trace specification applies -- SemZ!GcdextOK -- is therefore neither *)
(* empty nor ambiguous), and that the Kronecker symbol computed by the      *)
(* binary algorithm of BigZ equals the multiplicative definition from       *)
(* Legendre symbols (Euler's criterion) for every |a|,|b| <= M.             *)
(***************************************************************************)
EXTENDS Naturals, Integers, Sequences, FiniteSets, TLC, BigZ
CONSTANT M
AbsI(x) == IF x < 0 THEN -x ELSE x
SgnI(x) == IF x > 0 THEN 1 ELSE IF x < 0 THEN -1 ELSE 0
RECURSIVE GcdI(_, _)
GcdI(a, b) == IF b = 0 THEN AbsI(a) ELSE GcdI(b, a % AbsI(b))
OK(a, b, g, s, t) ==
   /\ g = GcdI(a, b) /\ a * s + b * t = g
   /\ IF AbsI(a) = AbsI(b) THEN s = 0 /\ t = SgnI(b)
      ELSE /\ IF b = 0 \/ AbsI(b) = 2 * g THEN s = SgnI(a) ELSE 2 * g * AbsI(s) < AbsI(b)
           /\ IF a = 0 \/ AbsI(a) = 2 * g THEN t = SgnI(b) ELSE 2 * g * AbsI(t) < AbsI(a)
Unique(a, b) == LET g == GcdI(a, b)  R == (-(M + 1))..(M + 1)
                    sols == {st \in R \X R : OK(a, b, g, st[1], st[2])}
                IN  Cardinality(sols) = 1

(* Kronecker symbol from its definition: multiplicative in b over the prime factorisation, (a/p) by Euler's criterion,
   (a/2) by a mod 8, (a/-1) by the sign of a, (a/0) = 1 iff |a| = 1 *)
RECURSIVE PowModI(_, _, _)
PowModI(x, e, m) == IF e = 0 THEN 1 % m ELSE LET h == PowModI(x, e \div 2, m) IN IF e % 2 = 1 THEN (h * h * (x % m)) % m ELSE (h * h) % m
Leg(a, p) == LET r == PowModI(a % p, (p - 1) \div 2, p) IN IF r = p - 1 THEN -1 ELSE r      \* odd prime p
Two(a) == IF a % 2 = 0 THEN 0 ELSE IF (a % 8) \in {1, 7} THEN 1 ELSE -1
RECURSIVE KronPos(_, _, _)
KronPos(a, b, p) ==            \* b > 0, trial factor p
   IF b = 1 THEN 1
   ELSE IF b % p = 0 THEN (IF p = 2 THEN Two(a) ELSE Leg(a, p)) * KronPos(a, b \div p, p)
   ELSE KronPos(a, b, p + 1)
KronDef(a, b) == IF b = 0 THEN (IF AbsI(a) = 1 THEN 1 ELSE 0)
                 ELSE (IF b < 0 /\ a < 0 THEN -1 ELSE 1) * KronPos(a, AbsI(b), 2)
ASSUME \A a \in (-M)..M, b \in (-M)..M : Unique(a, b)
ASSUME \A a \in (-M)..M, b \in (-M)..M : ZKronecker(ZFromInt(a), ZFromInt(b)) = KronDef(a, b)
ASSUME PrintT(<<"GcdContract", M>>)
VARIABLE dummy
Init == dummy = 0
Next == UNCHANGED dummy
Spec == Init /\ [][Next]_dummy
=============================================================================
