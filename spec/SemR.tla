-------------------------------- MODULE SemR --------------------------------
EXTENDS Naturals, Integers, Sequences, BigZ, Dbl
FunsR == {}
PostR(f, A, O, r, x) == FALSE
SigR(f, A) == FALSE
=============================================================================
