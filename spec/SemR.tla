-------------------------------- MODULE SemR --------------------------------
(***************************************************************************)
(* L2: random number functions (C19).  A generator state is opaque; what   *)
(* the property fixes is (a) the RANGE of every draw and (b)               *)
(* REPRODUCIBILITY: the outputs are a function of (algorithm and its       *)
(* parameters, seed, sequence of calls so far).  (b) is specified with a   *)
(* ghost in MPIR.tla: every state carries the KEY of its history, every    *)
(* draw is entered in `memo`, and a draw whose key is already in memo must *)
(* return the recorded output (twin states, gmp_randinit_set copies).      *)
(* Exact streams are NOT prescribed.                                       *)
(***************************************************************************)
EXTENDS Naturals, Integers, Sequences, BigZ

FunsR == {"gmp_randinit_default", "gmp_randinit_mt", "gmp_randinit_lc_2exp", "gmp_randinit_lc_2exp_size", "gmp_randinit_set",
          "gmp_randclear", "gmp_randseed", "gmp_randseed_ui", "gmp_urandomb_ui", "gmp_urandomm_ui",
          "mpz_urandomb", "mpz_urandomm", "mpz_rrandomb", "mpf_urandomb", "mpf_rrandomb", "mpf_random2"}
LOCAL I(h) == ZToInt(h)
LOCAL Bool(r, c) == (r # 0) = c

PostR(f, A, O, r, x) ==
   CASE f \in {"gmp_randinit_default", "gmp_randinit_mt", "gmp_randinit_lc_2exp", "gmp_randinit_set", "gmp_randclear",
               "gmp_randseed", "gmp_randseed_ui"} -> TRUE
     [] f = "gmp_randinit_lc_2exp_size" -> Bool(r, I(A[2]) <= 128)
     [] f = "gmp_urandomb_ui" -> ZLt(r, ZPow2(IF I(A[2]) > 64 THEN 64 ELSE I(A[2])))
     [] f = "gmp_urandomm_ui" -> ZLt(r, A[2])                                  \* n >= 1
     [] f \in {"mpz_urandomb", "mpz_rrandomb"} -> ~ZIsNeg(O[1].v) /\ ZLt(O[1].v, ZPow2(I(A[3])))
     [] f = "mpz_urandomm" -> ~ZIsNeg(O[1].v) /\ ZLt(O[1].v, A[3])             \* n >= 1
     [] f = "mpf_urandomb" ->      \* 0 <= value < 1  <=>  v >= 0 and exponent (in limbs) <= 0 ... value = v * 2^(64*(exp-|sz|))
           /\ O[1].sz >= 0 /\ O[1].exp <= 0
     [] f = "mpf_rrandomb" ->      \* at most |max_size| limbs, negative when max_size is, exponent within -exp..exp limbs
           LET ms == I(A[3])  ex == IF I(A[4]) < 0 THEN -I(A[4]) ELSE I(A[4])  asz == IF O[1].sz < 0 THEN -O[1].sz ELSE O[1].sz IN
           /\ asz <= (IF ms < 0 THEN -ms ELSE ms)
           /\ (O[1].sz # 0 => (O[1].sz < 0) = (ms < 0))
           /\ -ex <= O[1].exp /\ O[1].exp <= ex
     [] f = "mpf_random2" ->       \* obsolete form of mpf_rrandomb drawing from the library's global state: same contract (manual: "at most max_size limbs ... exponent in -exp..exp ... negative max_size")
           LET ms == I(A[2])  ex == IF I(A[3]) < 0 THEN -I(A[3]) ELSE I(A[3])  asz == IF O[1].sz < 0 THEN -O[1].sz ELSE O[1].sz IN
           /\ asz <= (IF ms < 0 THEN -ms ELSE ms)
           /\ (O[1].sz # 0 => (O[1].sz < 0) = (ms < 0))
           /\ -ex <= O[1].exp /\ O[1].exp <= ex
SigR(f, A) == f = "mpz_urandomm" /\ A[3] = "0"
=============================================================================
