------------------------------- MODULE MpqOps -------------------------------
(***************************************************************************)
(* R2 model for C12/C05: mpq_mul (mpq/mul.c) and mpq_add/mpq_sub            *)
(* (mpq/aors.c, Henrici's algorithm with both gcd branches) as sequences of *)
(* reads and stores on the numerator/denominator cells of three rational    *)
(* OBJECTS; rop/op1/op2 are object ids, so every alias pattern (rop = op1,  *)
(* rop = op2, op1 = op2, all the same) is literally the same cells.  TLC    *)
(* checks for all canonical operands with |num|, den <= K: the result is    *)
(* the exact value AND canonical, and operands that are not the destination *)
(* are unchanged.  Variants drop a reduction step / reorder a store.        *)
(***************************************************************************)
EXTENDS Naturals, Integers, Sequences, TLC
CONSTANTS K, Variant      \* "ok" | "no_second_gcd" | "early_den_store" | "squaring_no_check"
AbsI(x) == IF x < 0 THEN -x ELSE x
RECURSIVE GcdI(_, _)
GcdI(a, b) == IF b = 0 THEN AbsI(a) ELSE GcdI(b, a % AbsI(b))
Canon(n, d) == d > 0 /\ GcdI(n, d) = 1

Mul(st, rop, op1, op2) ==
   IF op1 = op2 /\ Variant # "squaring_no_check"
   THEN LET s1 == [st EXCEPT !.num[rop] = st.num[op1] * st.num[op1]]
        IN  [s1 EXCEPT !.den[rop] = s1.den[op1] * s1.den[op1]]
   ELSE LET gcd1 == GcdI(st.num[op1], st.den[op2])
            gcd2 == GcdI(st.num[op2], st.den[op1])
            t1 == st.num[op1] \div gcd1
            t2 == st.num[op2] \div gcd2
            s1 == [st EXCEPT !.num[rop] = t1 * t2]                 \* numerator stored before the denominators are read
            u1 == s1.den[op2] \div gcd1
            u2 == s1.den[op1] \div gcd2
        IN  [s1 EXCEPT !.den[rop] = u1 * u2]

Aors(st, rop, op1, op2, sub) ==
   LET F(a, b) == IF sub THEN a - b ELSE a + b
       g == GcdI(st.den[op1], st.den[op2])
   IN  IF g # 1
       THEN LET tmp1 == st.num[op1] * (st.den[op2] \div g)
                tmp2 == st.num[op2] * (st.den[op1] \div g)
                t == F(tmp1, tmp2)
                tmp2b == st.den[op1] \div g
                g2 == IF Variant = "no_second_gcd" THEN 1 ELSE GcdI(t, g)
            IN  IF g2 = 1
                THEN LET s1 == [st EXCEPT !.num[rop] = t] IN [s1 EXCEPT !.den[rop] = s1.den[op2] * tmp2b]
                ELSE LET s1 == [st EXCEPT !.num[rop] = t \div g2] IN [s1 EXCEPT !.den[rop] = (s1.den[op2] \div g2) * tmp2b]
       ELSE IF Variant = "early_den_store"
            THEN LET s0 == [st EXCEPT !.den[rop] = st.den[op1] * st.den[op2]]       \* denominator stored first: wrong under aliasing
                 IN  [s0 EXCEPT !.num[rop] = F(s0.num[op1] * s0.den[op2], s0.num[op2] * s0.den[op1])]
            ELSE LET tmp1 == st.num[op1] * st.den[op2]
                     tmp2 == st.num[op2] * st.den[op1]
                     s1 == [st EXCEPT !.num[rop] = F(tmp1, tmp2)]
                 IN  [s1 EXCEPT !.den[rop] = s1.den[op1] * s1.den[op2]]

Rats == {<<n, d>> \in ((-K)..K) \X (1..K) : Canon(n, d)}
VARIABLES phase, args, vals, op
vars == <<phase, args, vals, op>>
Init == phase = 0 /\ args = <<1, 1, 1>> /\ vals = <<<<0, 1>>, <<0, 1>>, <<0, 1>>>> /\ op = "mul"
Pick == /\ phase = 0 /\ phase' = 1 /\ op' \in {"mul", "add", "sub"}
        /\ args' \in {<<a, b, c>> : a \in 1..3, b \in 1..3, c \in 1..3} /\ UNCHANGED vals
Fill == /\ phase = 1 /\ phase' = 2 /\ vals' \in {<<a, b, c>> : a \in Rats, b \in Rats, c \in {<<1, 1>>}} /\ UNCHANGED <<args, op>>
Spec == Init /\ [][Pick \/ Fill]_vars
Correct ==
   phase = 2 =>
     LET \* objects 1,2 carry the two values; object 3 is a third variable holding 1/1
         st0 == [num |-> [i \in 1..3 |-> vals[i][1]], den |-> [i \in 1..3 |-> vals[i][2]]]
         out == IF op = "mul" THEN Mul(st0, args[1], args[2], args[3]) ELSE Aors(st0, args[1], args[2], args[3], op = "sub")
         a == vals[args[2]]   b == vals[args[3]]
         en == IF op = "mul" THEN a[1] * b[1] ELSE IF op = "add" THEN a[1] * b[2] + b[1] * a[2] ELSE a[1] * b[2] - b[1] * a[2]
         ed == a[2] * b[2]
         rn == out.num[args[1]]   rd == out.den[args[1]]
     IN  /\ rd > 0 /\ rn * ed = en * rd                 \* exact value
         /\ Canon(rn, rd)                               \* canonical: coprime, positive denominator, zero is 0/1
         /\ \A o \in 1..3 : o # args[1] => (out.num[o] = vals[o][1] /\ out.den[o] = vals[o][2])
=============================================================================
