---- MODULE MPIRTrace_TTrace_1790654037 ----
EXTENDS Sequences, TLCExt, MPIRTrace, Toolbox, Naturals, TLC

_expression ==
    LET MPIRTrace_TEExpression == INSTANCE MPIRTrace_TEExpression
    IN MPIRTrace_TEExpression!expression
----

_trace ==
    LET MPIRTrace_TETrace == INSTANCE MPIRTrace_TETrace
    IN MPIRTrace_TETrace!trace
----

_inv ==
    ~(
        TLCGet("level") = Len(_TETrace)
        /\
        rs = ((0 :> [live |-> FALSE, blks |-> {}] @@ 1 :> [live |-> FALSE, blks |-> {}] @@ 2 :> [live |-> FALSE, blks |-> {}]))
        /\
        qs = ((0 :> [live |-> FALSE, n |-> [live |-> FALSE, v |-> "0", al |-> 0, sz |-> 0, blk |-> -1], d |-> [live |-> FALSE, v |-> "0", al |-> 0, sz |-> 0, blk |-> -1]] @@ 1 :> [live |-> FALSE, n |-> [live |-> FALSE, v |-> "0", al |-> 0, sz |-> 0, blk |-> -1], d |-> [live |-> FALSE, v |-> "0", al |-> 0, sz |-> 0, blk |-> -1]] @@ 2 :> [live |-> FALSE, n |-> [live |-> FALSE, v |-> "0", al |-> 0, sz |-> 0, blk |-> -1], d |-> [live |-> FALSE, v |-> "0", al |-> 0, sz |-> 0, blk |-> -1]] @@ 3 :> [live |-> FALSE, n |-> [live |-> FALSE, v |-> "0", al |-> 0, sz |-> 0, blk |-> -1], d |-> [live |-> FALSE, v |-> "0", al |-> 0, sz |-> 0, blk |-> -1]]))
        /\
        gl = ([defprec |-> 2])
        /\
        tainted = (FALSE)
        /\
        held = ({})
        /\
        zs = ((0 :> [live |-> FALSE, v |-> "0", al |-> 0, sz |-> 0, blk |-> -1] @@ 1 :> [live |-> FALSE, v |-> "0", al |-> 0, sz |-> 0, blk |-> -1] @@ 2 :> [live |-> FALSE, v |-> "0", al |-> 0, sz |-> 0, blk |-> -1] @@ 3 :> [live |-> FALSE, v |-> "0", al |-> 0, sz |-> 0, blk |-> -1] @@ 4 :> [live |-> FALSE, v |-> "0", al |-> 0, sz |-> 0, blk |-> -1] @@ 5 :> [live |-> FALSE, v |-> "0", al |-> 0, sz |-> 0, blk |-> -1] @@ 6 :> [live |-> FALSE, v |-> "0", al |-> 0, sz |-> 0, blk |-> -1] @@ 7 :> [live |-> FALSE, v |-> "0", al |-> 0, sz |-> 0, blk |-> -1]))
        /\
        inCall = ("gmp_randinit_default")
        /\
        heap = ({<<1, 2500>>})
        /\
        l = (3)
        /\
        fs = ((0 :> [live |-> FALSE, v |-> "0", sz |-> 0, blk |-> -1, exp |-> 0, prec |-> 0] @@ 1 :> [live |-> FALSE, v |-> "0", sz |-> 0, blk |-> -1, exp |-> 0, prec |-> 0] @@ 2 :> [live |-> FALSE, v |-> "0", sz |-> 0, blk |-> -1, exp |-> 0, prec |-> 0] @@ 3 :> [live |-> FALSE, v |-> "0", sz |-> 0, blk |-> -1, exp |-> 0, prec |-> 0] @@ 4 :> [live |-> FALSE, v |-> "0", sz |-> 0, blk |-> -1, exp |-> 0, prec |-> 0] @@ 5 :> [live |-> FALSE, v |-> "0", sz |-> 0, blk |-> -1, exp |-> 0, prec |-> 0]))
    )
----

_init ==
    /\ heap = _TETrace[1].heap
    /\ zs = _TETrace[1].zs
    /\ l = _TETrace[1].l
    /\ fs = _TETrace[1].fs
    /\ gl = _TETrace[1].gl
    /\ tainted = _TETrace[1].tainted
    /\ held = _TETrace[1].held
    /\ inCall = _TETrace[1].inCall
    /\ qs = _TETrace[1].qs
    /\ rs = _TETrace[1].rs
----

_next ==
    /\ \E i,j \in DOMAIN _TETrace:
        /\ \/ /\ j = i + 1
              /\ i = TLCGet("level")
        /\ heap  = _TETrace[i].heap
        /\ heap' = _TETrace[j].heap
        /\ zs  = _TETrace[i].zs
        /\ zs' = _TETrace[j].zs
        /\ l  = _TETrace[i].l
        /\ l' = _TETrace[j].l
        /\ fs  = _TETrace[i].fs
        /\ fs' = _TETrace[j].fs
        /\ gl  = _TETrace[i].gl
        /\ gl' = _TETrace[j].gl
        /\ tainted  = _TETrace[i].tainted
        /\ tainted' = _TETrace[j].tainted
        /\ held  = _TETrace[i].held
        /\ held' = _TETrace[j].held
        /\ inCall  = _TETrace[i].inCall
        /\ inCall' = _TETrace[j].inCall
        /\ qs  = _TETrace[i].qs
        /\ qs' = _TETrace[j].qs
        /\ rs  = _TETrace[i].rs
        /\ rs' = _TETrace[j].rs

\* Uncomment the ASSUME below to write the states of the error trace
\* to the given file in Json format. Note that you can pass any tuple
\* to `JsonSerialize`. For example, a sub-sequence of _TETrace.
    \* ASSUME
    \*     LET J == INSTANCE Json
    \*         IN J!JsonSerialize("MPIRTrace_TTrace_1790654037.json", _TETrace)

=============================================================================

 Note that you can extract this module `MPIRTrace_TEExpression`
  to a dedicated file to reuse `expression` (the module in the 
  dedicated `MPIRTrace_TEExpression.tla` file takes precedence 
  over the module `MPIRTrace_TEExpression` below).

---- MODULE MPIRTrace_TEExpression ----
EXTENDS Sequences, TLCExt, MPIRTrace, Toolbox, Naturals, TLC

expression == 
    [
        \* To hide variables of the `MPIRTrace` spec from the error trace,
        \* remove the variables below.  The trace will be written in the order
        \* of the fields of this record.
        heap |-> heap
        ,zs |-> zs
        ,l |-> l
        ,fs |-> fs
        ,gl |-> gl
        ,tainted |-> tainted
        ,held |-> held
        ,inCall |-> inCall
        ,qs |-> qs
        ,rs |-> rs
        
        \* Put additional constant-, state-, and action-level expressions here:
        \* ,_stateNumber |-> _TEPosition
        \* ,_heapUnchanged |-> heap = heap'
        
        \* Format the `heap` variable as Json value.
        \* ,_heapJson |->
        \*     LET J == INSTANCE Json
        \*     IN J!ToJson(heap)
        
        \* Lastly, you may build expressions over arbitrary sets of states by
        \* leveraging the _TETrace operator.  For example, this is how to
        \* count the number of times a spec variable changed up to the current
        \* state in the trace.
        \* ,_heapModCount |->
        \*     LET F[s \in DOMAIN _TETrace] ==
        \*         IF s = 1 THEN 0
        \*         ELSE IF _TETrace[s].heap # _TETrace[s-1].heap
        \*             THEN 1 + F[s-1] ELSE F[s-1]
        \*     IN F[_TEPosition - 1]
    ]

=============================================================================



Parsing and semantic processing can take forever if the trace below is long.
 In this case, it is advised to uncomment the module below to deserialize the
 trace from a generated binary file.

\*
\*---- MODULE MPIRTrace_TETrace ----
\*EXTENDS IOUtils, MPIRTrace, TLC
\*
\*trace == IODeserialize("MPIRTrace_TTrace_1790654037.bin", TRUE)
\*
\*=============================================================================
\*

---- MODULE MPIRTrace_TETrace ----
EXTENDS MPIRTrace, TLC

trace == 
    <<
    ([rs |-> (0 :> [live |-> FALSE, blks |-> {}] @@ 1 :> [live |-> FALSE, blks |-> {}] @@ 2 :> [live |-> FALSE, blks |-> {}]),qs |-> (0 :> [live |-> FALSE, n |-> [live |-> FALSE, v |-> "0", al |-> 0, sz |-> 0, blk |-> -1], d |-> [live |-> FALSE, v |-> "0", al |-> 0, sz |-> 0, blk |-> -1]] @@ 1 :> [live |-> FALSE, n |-> [live |-> FALSE, v |-> "0", al |-> 0, sz |-> 0, blk |-> -1], d |-> [live |-> FALSE, v |-> "0", al |-> 0, sz |-> 0, blk |-> -1]] @@ 2 :> [live |-> FALSE, n |-> [live |-> FALSE, v |-> "0", al |-> 0, sz |-> 0, blk |-> -1], d |-> [live |-> FALSE, v |-> "0", al |-> 0, sz |-> 0, blk |-> -1]] @@ 3 :> [live |-> FALSE, n |-> [live |-> FALSE, v |-> "0", al |-> 0, sz |-> 0, blk |-> -1], d |-> [live |-> FALSE, v |-> "0", al |-> 0, sz |-> 0, blk |-> -1]]),gl |-> [defprec |-> 2],tainted |-> FALSE,held |-> {},zs |-> (0 :> [live |-> FALSE, v |-> "0", al |-> 0, sz |-> 0, blk |-> -1] @@ 1 :> [live |-> FALSE, v |-> "0", al |-> 0, sz |-> 0, blk |-> -1] @@ 2 :> [live |-> FALSE, v |-> "0", al |-> 0, sz |-> 0, blk |-> -1] @@ 3 :> [live |-> FALSE, v |-> "0", al |-> 0, sz |-> 0, blk |-> -1] @@ 4 :> [live |-> FALSE, v |-> "0", al |-> 0, sz |-> 0, blk |-> -1] @@ 5 :> [live |-> FALSE, v |-> "0", al |-> 0, sz |-> 0, blk |-> -1] @@ 6 :> [live |-> FALSE, v |-> "0", al |-> 0, sz |-> 0, blk |-> -1] @@ 7 :> [live |-> FALSE, v |-> "0", al |-> 0, sz |-> 0, blk |-> -1]),inCall |-> "",heap |-> {},l |-> 1,fs |-> (0 :> [live |-> FALSE, v |-> "0", sz |-> 0, blk |-> -1, exp |-> 0, prec |-> 0] @@ 1 :> [live |-> FALSE, v |-> "0", sz |-> 0, blk |-> -1, exp |-> 0, prec |-> 0] @@ 2 :> [live |-> FALSE, v |-> "0", sz |-> 0, blk |-> -1, exp |-> 0, prec |-> 0] @@ 3 :> [live |-> FALSE, v |-> "0", sz |-> 0, blk |-> -1, exp |-> 0, prec |-> 0] @@ 4 :> [live |-> FALSE, v |-> "0", sz |-> 0, blk |-> -1, exp |-> 0, prec |-> 0] @@ 5 :> [live |-> FALSE, v |-> "0", sz |-> 0, blk |-> -1, exp |-> 0, prec |-> 0])]),
    ([rs |-> (0 :> [live |-> FALSE, blks |-> {}] @@ 1 :> [live |-> FALSE, blks |-> {}] @@ 2 :> [live |-> FALSE, blks |-> {}]),qs |-> (0 :> [live |-> FALSE, n |-> [live |-> FALSE, v |-> "0", al |-> 0, sz |-> 0, blk |-> -1], d |-> [live |-> FALSE, v |-> "0", al |-> 0, sz |-> 0, blk |-> -1]] @@ 1 :> [live |-> FALSE, n |-> [live |-> FALSE, v |-> "0", al |-> 0, sz |-> 0, blk |-> -1], d |-> [live |-> FALSE, v |-> "0", al |-> 0, sz |-> 0, blk |-> -1]] @@ 2 :> [live |-> FALSE, n |-> [live |-> FALSE, v |-> "0", al |-> 0, sz |-> 0, blk |-> -1], d |-> [live |-> FALSE, v |-> "0", al |-> 0, sz |-> 0, blk |-> -1]] @@ 3 :> [live |-> FALSE, n |-> [live |-> FALSE, v |-> "0", al |-> 0, sz |-> 0, blk |-> -1], d |-> [live |-> FALSE, v |-> "0", al |-> 0, sz |-> 0, blk |-> -1]]),gl |-> [defprec |-> 2],tainted |-> FALSE,held |-> {},zs |-> (0 :> [live |-> FALSE, v |-> "0", al |-> 0, sz |-> 0, blk |-> -1] @@ 1 :> [live |-> FALSE, v |-> "0", al |-> 0, sz |-> 0, blk |-> -1] @@ 2 :> [live |-> FALSE, v |-> "0", al |-> 0, sz |-> 0, blk |-> -1] @@ 3 :> [live |-> FALSE, v |-> "0", al |-> 0, sz |-> 0, blk |-> -1] @@ 4 :> [live |-> FALSE, v |-> "0", al |-> 0, sz |-> 0, blk |-> -1] @@ 5 :> [live |-> FALSE, v |-> "0", al |-> 0, sz |-> 0, blk |-> -1] @@ 6 :> [live |-> FALSE, v |-> "0", al |-> 0, sz |-> 0, blk |-> -1] @@ 7 :> [live |-> FALSE, v |-> "0", al |-> 0, sz |-> 0, blk |-> -1]),inCall |-> "gmp_randinit_default",heap |-> {},l |-> 2,fs |-> (0 :> [live |-> FALSE, v |-> "0", sz |-> 0, blk |-> -1, exp |-> 0, prec |-> 0] @@ 1 :> [live |-> FALSE, v |-> "0", sz |-> 0, blk |-> -1, exp |-> 0, prec |-> 0] @@ 2 :> [live |-> FALSE, v |-> "0", sz |-> 0, blk |-> -1, exp |-> 0, prec |-> 0] @@ 3 :> [live |-> FALSE, v |-> "0", sz |-> 0, blk |-> -1, exp |-> 0, prec |-> 0] @@ 4 :> [live |-> FALSE, v |-> "0", sz |-> 0, blk |-> -1, exp |-> 0, prec |-> 0] @@ 5 :> [live |-> FALSE, v |-> "0", sz |-> 0, blk |-> -1, exp |-> 0, prec |-> 0])]),
    ([rs |-> (0 :> [live |-> FALSE, blks |-> {}] @@ 1 :> [live |-> FALSE, blks |-> {}] @@ 2 :> [live |-> FALSE, blks |-> {}]),qs |-> (0 :> [live |-> FALSE, n |-> [live |-> FALSE, v |-> "0", al |-> 0, sz |-> 0, blk |-> -1], d |-> [live |-> FALSE, v |-> "0", al |-> 0, sz |-> 0, blk |-> -1]] @@ 1 :> [live |-> FALSE, n |-> [live |-> FALSE, v |-> "0", al |-> 0, sz |-> 0, blk |-> -1], d |-> [live |-> FALSE, v |-> "0", al |-> 0, sz |-> 0, blk |-> -1]] @@ 2 :> [live |-> FALSE, n |-> [live |-> FALSE, v |-> "0", al |-> 0, sz |-> 0, blk |-> -1], d |-> [live |-> FALSE, v |-> "0", al |-> 0, sz |-> 0, blk |-> -1]] @@ 3 :> [live |-> FALSE, n |-> [live |-> FALSE, v |-> "0", al |-> 0, sz |-> 0, blk |-> -1], d |-> [live |-> FALSE, v |-> "0", al |-> 0, sz |-> 0, blk |-> -1]]),gl |-> [defprec |-> 2],tainted |-> FALSE,held |-> {},zs |-> (0 :> [live |-> FALSE, v |-> "0", al |-> 0, sz |-> 0, blk |-> -1] @@ 1 :> [live |-> FALSE, v |-> "0", al |-> 0, sz |-> 0, blk |-> -1] @@ 2 :> [live |-> FALSE, v |-> "0", al |-> 0, sz |-> 0, blk |-> -1] @@ 3 :> [live |-> FALSE, v |-> "0", al |-> 0, sz |-> 0, blk |-> -1] @@ 4 :> [live |-> FALSE, v |-> "0", al |-> 0, sz |-> 0, blk |-> -1] @@ 5 :> [live |-> FALSE, v |-> "0", al |-> 0, sz |-> 0, blk |-> -1] @@ 6 :> [live |-> FALSE, v |-> "0", al |-> 0, sz |-> 0, blk |-> -1] @@ 7 :> [live |-> FALSE, v |-> "0", al |-> 0, sz |-> 0, blk |-> -1]),inCall |-> "gmp_randinit_default",heap |-> {<<1, 2500>>},l |-> 3,fs |-> (0 :> [live |-> FALSE, v |-> "0", sz |-> 0, blk |-> -1, exp |-> 0, prec |-> 0] @@ 1 :> [live |-> FALSE, v |-> "0", sz |-> 0, blk |-> -1, exp |-> 0, prec |-> 0] @@ 2 :> [live |-> FALSE, v |-> "0", sz |-> 0, blk |-> -1, exp |-> 0, prec |-> 0] @@ 3 :> [live |-> FALSE, v |-> "0", sz |-> 0, blk |-> -1, exp |-> 0, prec |-> 0] @@ 4 :> [live |-> FALSE, v |-> "0", sz |-> 0, blk |-> -1, exp |-> 0, prec |-> 0] @@ 5 :> [live |-> FALSE, v |-> "0", sz |-> 0, blk |-> -1, exp |-> 0, prec |-> 0])])
    >>
----


=============================================================================

---- CONFIG MPIRTrace_TTrace_1790654037 ----
CONSTANTS
    NZ = 8
    NQ = 4
    NF = 6
    NR = 3

INVARIANT
    _inv

CHECK_DEADLOCK
    \* CHECK_DEADLOCK off because of PROPERTY or INVARIANT above.
    FALSE

INIT
    _init

NEXT
    _next

CONSTANT
    _TETrace <- _trace

ALIAS
    _expression
=============================================================================
\* Generated on Tue Sep 29 03:53:59 UTC 2026