---- MODULE SbDivQr_TTrace_1790651400 ----
EXTENDS Sequences, TLCExt, Toolbox, Naturals, TLC, SbDivQr

_expression ==
    LET SbDivQr_TEExpression == INSTANCE SbDivQr_TEExpression
    IN SbDivQr_TEExpression!expression
----

_trace ==
    LET SbDivQr_TETrace == INSTANCE SbDivQr_TETrace
    IN SbDivQr_TETrace!trace
----

_inv ==
    ~(
        TLCGet("level") = Len(_TETrace)
        /\
        nval = (128)
        /\
        phase = (2)
        /\
        dval = (33)
    )
----

_init ==
    /\ nval = _TETrace[1].nval
    /\ dval = _TETrace[1].dval
    /\ phase = _TETrace[1].phase
----

_next ==
    /\ \E i,j \in DOMAIN _TETrace:
        /\ \/ /\ j = i + 1
              /\ i = TLCGet("level")
        /\ nval  = _TETrace[i].nval
        /\ nval' = _TETrace[j].nval
        /\ dval  = _TETrace[i].dval
        /\ dval' = _TETrace[j].dval
        /\ phase  = _TETrace[i].phase
        /\ phase' = _TETrace[j].phase

\* Uncomment the ASSUME below to write the states of the error trace
\* to the given file in Json format. Note that you can pass any tuple
\* to `JsonSerialize`. For example, a sub-sequence of _TETrace.
    \* ASSUME
    \*     LET J == INSTANCE Json
    \*         IN J!JsonSerialize("SbDivQr_TTrace_1790651400.json", _TETrace)

=============================================================================

 Note that you can extract this module `SbDivQr_TEExpression`
  to a dedicated file to reuse `expression` (the module in the 
  dedicated `SbDivQr_TEExpression.tla` file takes precedence 
  over the module `SbDivQr_TEExpression` below).

---- MODULE SbDivQr_TEExpression ----
EXTENDS Sequences, TLCExt, Toolbox, Naturals, TLC, SbDivQr

expression == 
    [
        \* To hide variables of the `SbDivQr` spec from the error trace,
        \* remove the variables below.  The trace will be written in the order
        \* of the fields of this record.
        nval |-> nval
        ,dval |-> dval
        ,phase |-> phase
        
        \* Put additional constant-, state-, and action-level expressions here:
        \* ,_stateNumber |-> _TEPosition
        \* ,_nvalUnchanged |-> nval = nval'
        
        \* Format the `nval` variable as Json value.
        \* ,_nvalJson |->
        \*     LET J == INSTANCE Json
        \*     IN J!ToJson(nval)
        
        \* Lastly, you may build expressions over arbitrary sets of states by
        \* leveraging the _TETrace operator.  For example, this is how to
        \* count the number of times a spec variable changed up to the current
        \* state in the trace.
        \* ,_nvalModCount |->
        \*     LET F[s \in DOMAIN _TETrace] ==
        \*         IF s = 1 THEN 0
        \*         ELSE IF _TETrace[s].nval # _TETrace[s-1].nval
        \*             THEN 1 + F[s-1] ELSE F[s-1]
        \*     IN F[_TEPosition - 1]
    ]

=============================================================================



Parsing and semantic processing can take forever if the trace below is long.
 In this case, it is advised to uncomment the module below to deserialize the
 trace from a generated binary file.

\*
\*---- MODULE SbDivQr_TETrace ----
\*EXTENDS IOUtils, TLC, SbDivQr
\*
\*trace == IODeserialize("SbDivQr_TTrace_1790651400.bin", TRUE)
\*
\*=============================================================================
\*

---- MODULE SbDivQr_TETrace ----
EXTENDS TLC, SbDivQr

trace == 
    <<
    ([nval |-> 0,phase |-> 0,dval |-> 0]),
    ([nval |-> 0,phase |-> 1,dval |-> 33]),
    ([nval |-> 128,phase |-> 2,dval |-> 33])
    >>
----


=============================================================================

---- CONFIG SbDivQr_TTrace_1790651400 ----
CONSTANTS
    B = 4
    DN = 3
    NN = 5
    Variant = "no_special"
    EMITSB = FALSE

INVARIANT
    _inv

CHECK_DEADLOCK
    \* CHECK_DEADLOCK off because of PROPERTY or INVARIANT above.
    FALSE

INIT
    _init

NEXT
    _next

CONSTANT
    _TETrace <- _trace

ALIAS
    _expression
=============================================================================
\* Generated on Tue Sep 29 03:10:03 UTC 2026