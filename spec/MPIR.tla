-------------------------------- MODULE MPIR --------------------------------
(***************************************************************************)
(* The MPIR library as an abstract machine (role R1 of DESIGN.md).         *)
(*                                                                         *)
(* State: a pool of integer / rational / float / random-state variables    *)
(* holding MATHEMATICAL values plus their allocation state, the heap of    *)
(* blocks obtained through the installed memory functions, and the blocks  *)
(* legitimately held by the caller.  One action per observable step of     *)
(* the implementation, each parameterised by the event record `ev` that    *)
(* describes it:                                                           *)
(*    Reset, CallBegin, Alloc, Realloc, Free, CallEnd, Fn, HFree, Quiesce  *)
(* A trace of the real library is a behaviour of this machine iff every    *)
(* recorded event is enabled in turn (MPIRTrace.tla); the small-scope      *)
(* model MC_Machine.tla drives the same actions with generated events.     *)
(*                                                                         *)
(* The allocator contract is ENABLEDNESS: Realloc/Free are enabled only    *)
(* with the exact current size of a live block.  CallEnd is enabled only   *)
(* if every output equals the documented result computed from the          *)
(* specification's OWN pre-state, nothing but an output changed value,     *)
(* every touched object is well formed and owns a block of exactly its     *)
(* allocation, and no temporary block survives the call.                   *)
(***************************************************************************)
EXTENDS Naturals, Integers, Sequences, FiniteSets, TLC, BigZ, Dbl, ApiSig, SemZ, SemQ, SemF, SemN, SemK1, SemK2, SemK3, SemK4, SemIO, SemR, HookPre, CxxSemF

CONSTANTS NZ, NQ, NF, NR            \* pool sizes
VARIABLES zs, qs, fs, rs,           \* pools
          heap,                     \* set of <<block id, bytes>> : live blocks
          held,                     \* ids of blocks handed to the caller (returned strings)
          inCall,                   \* "" or the name of the public function in progress
          tainted,                  \* a signal unwound a call: heap accounting suspended until Reset
          gl,                       \* documented globals: [defprec]
          memo                      \* reproducibility ghost: set of <<history key, outputs>> of random draws
mvars == <<zs, qs, fs, rs, heap, held, inCall, tainted, gl, memo>>

AbsI(i) == IF i < 0 THEN -i ELSE i
Range(s) == {s[i] : i \in DOMAIN s}
DeadZ == [live |-> FALSE, v |-> "0", al |-> 0, sz |-> 0, blk |-> -1]
DeadF == [live |-> FALSE, v |-> "0", sz |-> 0, exp |-> 0, prec |-> 0, blk |-> -1]
ZRec(c) == [live |-> TRUE, v |-> c.v, al |-> c.al, sz |-> c.sz, blk |-> c.blk]
FRec(c) == [live |-> TRUE, v |-> c.v, sz |-> c.sz, exp |-> c.exp, prec |-> c.prec, blk |-> c.blk]
DeadQ == [live |-> FALSE, n |-> DeadZ, d |-> DeadZ]

Init == /\ zs = [i \in 0..(NZ - 1) |-> DeadZ]
        /\ qs = [i \in 0..(NQ - 1) |-> DeadQ]
        /\ fs = [i \in 0..(NF - 1) |-> DeadF]
        /\ rs = [i \in 0..(NR - 1) |-> [live |-> FALSE, blks |-> {}, key |-> <<>>]]
        /\ heap = {} /\ held = {} /\ inCall = "" /\ tainted = FALSE
        /\ gl = [defprec |-> 2]      \* __gmp_default_fp_limb_precision for 64-bit default precision
        /\ memo = {}

LiveIds(h) == {b[1] : b \in h}
SizeOf(h, id) == (CHOOSE b \in h : b[1] = id)[2]

(* ---- well-formedness (MPZ/MPQ/MPF_CHECK_FORMAT of gmp-impl.h, plus block ownership) ---- *)
WFZ(c, h) == /\ AbsI(c.sz) <= c.al
             /\ ZLimbCount(c.v) = AbsI(c.sz)            \* no leading zero limb; zero has size 0
             /\ (c.sz < 0) = ZIsNeg(c.v)
             /\ <<c.blk, c.al * 8>> \in h                \* owns a live block of exactly alloc limbs
WFF(c, h) == /\ AbsI(c.sz) <= c.prec + 1
             /\ ZLimbCount(c.v) = AbsI(c.sz)            \* top limb non-zero
             /\ (c.sz < 0) = ZIsNeg(c.v)
             /\ (c.sz = 0 => c.exp = 0)                  \* zero has exponent 0
             /\ \E b \in h : b[1] = c.blk /\ b[2] >= (c.prec + 1) * 8     \* (mpf_set_prec_raw lowers prec without reallocating)

OwnedZ(z) == {z[i].blk : i \in {j \in DOMAIN z : z[j].live}}
OwnedQ(q) == UNION {{q[i].n.blk, q[i].d.blk} : i \in {j \in DOMAIN q : q[j].live}}
OwnedF(f) == {f[i].blk : i \in {j \in DOMAIN f : f[j].live}}
OwnedR(r) == UNION {r[i].blks : i \in DOMAIN r}

(* ---- memory events ---- *)
Alloc(ev) == /\ ev.e = "al"
             /\ ev.id \notin LiveIds(heap)
             /\ heap' = heap \cup {<<ev.id, ev.sz>>}
             /\ UNCHANGED <<zs, qs, fs, rs, held, inCall, tainted, gl, memo>>
Free(ev) == /\ ev.e = "fr"
            /\ <<ev.id, ev.sz>> \in heap                        \* exact current size, or no behaviour
            /\ ev.id \notin held
            /\ heap' = heap \ {<<ev.id, ev.sz>>}
            /\ UNCHANGED <<zs, qs, fs, rs, held, inCall, tainted, gl, memo>>
Realloc(ev) == /\ ev.e = "re"
               /\ <<ev.id, ev.old>> \in heap
               /\ ev.id \notin held
               /\ heap' = (heap \ {<<ev.id, ev.old>>}) \cup {<<ev.nid, ev.new>>}
               /\ UNCHANGED <<zs, qs, fs, rs, held, inCall, tainted, gl, memo>>
(* the caller releases a string the library returned, with the documented size strlen+1 *)
HFree(ev) == /\ ev.e = "hfree" /\ inCall = ""
             /\ ev.blk \in held /\ <<ev.blk, ev.sz>> \in heap
             /\ heap' = heap \ {<<ev.blk, ev.sz>>} /\ held' = held \ {ev.blk}
             /\ UNCHANGED <<zs, qs, fs, rs, inCall, tainted, gl, memo>>

(* ---- calls on pool variables ---- *)
CallBegin(ev) == /\ ev.e = "begin" /\ inCall = ""
                 /\ ev.f \in DOMAIN ApiSig
                 /\ inCall' = ev.f
                 /\ UNCHANGED <<zs, qs, fs, rs, heap, held, tainted, gl, memo>>

IsZ(k) == k \in {"Zo", "Zi", "Zio"}
IsQ(k) == k \in {"Qo", "Qi", "Qio"}
IsF(k) == k \in {"Fo", "Fi", "Fio"}
IsOut(k) == k \in {"Zo", "Zio", "Qo", "Qio", "Fo", "Fio"}
IsIn(k) == k \in {"Zi", "Zio", "Qi", "Qio", "Fi", "Fio"}

DrvFuns == {"drv_setz", "drv_rndz", "drv_setq", "drv_setf"}     \* harness pseudo-functions: input assumptions
Post(f, A, O, r, x) ==
   IF f \in DrvFuns THEN TRUE
   ELSE IF f \in FunsQ THEN PostQ(f, A, O, r, x)
   ELSE IF f \in FunsF THEN PostF(f, A, O, r, x, gl)
   ELSE IF f \in FunsIO THEN PostIO(f, A, O, r, x)
   ELSE IF f \in FunsR THEN PostR(f, A, O, r, x)
   ELSE PostZ(f, A, O, r, x)
SigAllowed(f, A) ==
   IF f \in FunsQ THEN SigQ(f, A) ELSE IF f \in FunsF THEN SigF(f, A)
   ELSE IF f \in FunsIO THEN FALSE ELSE IF f \in FunsR THEN SigR(f, A) ELSE SigZ(f, A)

CallEnd(ev) ==
  /\ ev.e = "end" /\ inCall = ev.f
  /\ LET sg  == ApiSig[ev.f]
         ks  == sg.k
         n   == Len(ks)
         ch  == Range(ev.ch)
         chZ == {c \in ch : c.k = "z"}
         chQ == {c \in ch : c.k = "q"}
         chF == {c \in ch : c.k = "f"}
         zs1 == [i \in DOMAIN zs |-> IF \E c \in chZ : c.i = i
                                       THEN (LET c == CHOOSE c \in chZ : c.i = i IN IF c.live = 1 THEN ZRec(c) ELSE DeadZ)
                                       ELSE zs[i]]
         qs1 == [i \in DOMAIN qs |-> IF \E c \in chQ : c.i = i
                                       THEN (LET c == CHOOSE c \in chQ : c.i = i IN
                                             IF c.live = 1 THEN [live |-> TRUE, n |-> ZRec(c.n), d |-> ZRec(c.d)] ELSE DeadQ)
                                       ELSE qs[i]]
         fs1 == [i \in DOMAIN fs |-> IF \E c \in chF : c.i = i
                                       THEN (LET c == CHOOSE c \in chF : c.i = i IN IF c.live = 1 THEN FRec(c) ELSE DeadF)
                                       ELSE fs[i]]
         A   == [k \in 1..n |-> IF IsZ(ks[k]) THEN zs[ev.a[k]].v
                                ELSE IF IsQ(ks[k]) THEN <<qs[ev.a[k]].n.v, qs[ev.a[k]].d.v>>
                                ELSE IF IsF(ks[k]) THEN fs[ev.a[k]]
                                ELSE ev.a[k]]
         O   == [k \in 1..n |-> IF IsZ(ks[k]) THEN zs1[ev.a[k]]
                                ELSE IF IsQ(ks[k]) THEN qs1[ev.a[k]]
                                ELSE IF IsF(ks[k]) THEN fs1[ev.a[k]]
                                ELSE ev.a[k]]
         outZ == {ev.a[k] : k \in {j \in 1..n : ks[j] \in {"Zo", "Zio"}}}
         outQ == {ev.a[k] : k \in {j \in 1..n : ks[j] \in {"Qo", "Qio"}}}
         outF == {ev.a[k] : k \in {j \in 1..n : ks[j] \in {"Fo", "Fio"}}}
         argR == {ev.a[k] : k \in {j \in 1..n : ks[j] = "R"}}
         held1 == IF sg.r = "STR" /\ ev.sig = "" /\ ev.ret.blk >= 0 THEN held \cup {ev.ret.blk} ELSE held
         owned1 == OwnedZ(zs1) \cup OwnedQ(qs1) \cup OwnedF(fs1) \cup held1
         otherR == UNION {rs[i].blks : i \in (DOMAIN rs) \ argR}
         extra == LiveIds(heap) \ (owned1 \cup otherR)       \* blocks nobody outside the call's random states owns
         dead1 == IF sg.life = "-" /\ ks[1] = "R" THEN {ev.a[1]} ELSE {}
         posR == {j \in 1..n : ks[j] = "R"}
         firstR == IF posR = {} THEN -1 ELSE ev.a[CHOOSE j \in posR : \A j2 \in posR : j <= j2]
         \* reproducibility ghost: the call as seen by the generator = function name + every non-object input value
         callDesc == <<ev.f, [k \in 1..n |-> IF ks[k] = "R" THEN "R" ELSE IF IsOut(ks[k]) /\ ~IsIn(ks[k]) THEN "-" ELSE A[k]]>>
         outDesc == <<ev.ret, [k \in 1..n |-> IF IsOut(ks[k]) THEN (IF IsZ(ks[k]) THEN O[k].v ELSE IF IsF(ks[k]) THEN <<O[k].v, O[k].exp>> ELSE "q") ELSE "-"]>>
         key0 == IF firstR = -1 THEN <<>> ELSE rs[firstR].key
         newkey == IF ev.f \in {"gmp_randinit_default", "gmp_randinit_mt", "gmp_randinit_lc_2exp", "gmp_randinit_lc_2exp_size"} THEN <<callDesc>>
                   ELSE IF ev.f = "gmp_randinit_set" THEN rs[ev.a[2]].key
                   ELSE IF ev.f \in {"gmp_randseed", "gmp_randseed_ui"} THEN <<key0[1], callDesc>>        \* seeding restarts the history
                   ELSE Append(key0, callDesc)
         seeded == Len(newkey) >= 2 /\ newkey[2][1] \in {"gmp_randseed", "gmp_randseed_ui"}
         isDraw == firstR # -1 /\ ev.f \notin {"gmp_randinit_default", "gmp_randinit_mt", "gmp_randinit_lc_2exp", "gmp_randinit_lc_2exp_size",
                                                "gmp_randinit_set", "gmp_randseed", "gmp_randseed_ui", "gmp_randclear"}
         initFailed == ev.f = "gmp_randinit_lc_2exp_size" /\ ev.ret = 0       \* size not in the table: the state is NOT initialised
         rs1 == [i \in DOMAIN rs |-> IF i \in dead1 \/ (i = firstR /\ initFailed) THEN [live |-> FALSE, blks |-> {}, key |-> <<>>]
                                     ELSE IF i = firstR        \* the first random state argument receives what the call allocated (minus the other arguments' blocks)
                                          THEN [live |-> TRUE, blks |-> extra \ UNION {rs[j].blks : j \in argR \ {firstR}}, key |-> newkey]
                                     ELSE IF i \in argR THEN [live |-> TRUE, blks |-> rs[i].blks \cap LiveIds(heap), key |-> rs[i].key]
                                     ELSE rs[i]]
     IN
       \* an initialising function needs a variable that is not live (a second init would orphan the first block)
       /\ (sg.life \in {"+", "+?"}) => (IF IsZ(ks[1]) THEN ~zs[ev.a[1]].live ELSE IF IsQ(ks[1]) THEN ~qs[ev.a[1]].live
                                           ELSE IF IsF(ks[1]) THEN ~fs[ev.a[1]].live ELSE ~rs[ev.a[1]].live)
       \* the NULL-terminated list forms (mpz_inits ...) initialise every listed variable; the lists are duplicate free
       /\ (sg.life = "+*") => \A k \in 1..n : /\ (IsZ(ks[k]) => ~zs[ev.a[k]].live) /\ (IsQ(ks[k]) => ~qs[ev.a[k]].live) /\ (IsF(ks[k]) => ~fs[ev.a[k]].live)
                                                /\ \A k2 \in 1..n : k2 # k => ev.a[k2] # ev.a[k]
       \* inputs must be live variables
       /\ \A k \in 1..n : /\ (IsIn(ks[k]) /\ IsZ(ks[k])) => zs[ev.a[k]].live
                          /\ (IsIn(ks[k]) /\ IsQ(ks[k])) => qs[ev.a[k]].live
                          /\ (IsIn(ks[k]) /\ IsF(ks[k])) => fs[ev.a[k]].live
       /\ IF ev.sig = "FPE"
          THEN /\ SigAllowed(ev.f, A)
               /\ tainted' = TRUE /\ rs' = rs /\ held' = held /\ memo' = memo
          ELSE /\ Post(ev.f, A, O, ev.ret, ev.x)
               \* operands that are not outputs keep their value (and stay alive)
               /\ \A c \in chZ : c.i \notin outZ => (c.live = 1 /\ zs[c.i].live /\ c.v = zs[c.i].v)
               /\ \A c \in chQ : c.i \notin outQ => (c.live = 1 /\ qs[c.i].live /\ c.n.v = qs[c.i].n.v /\ c.d.v = qs[c.i].d.v)
               /\ \A c \in chF : c.i \notin outF => (c.live = 1 /\ fs[c.i].live /\ c.v = fs[c.i].v /\ c.exp = fs[c.i].exp /\ c.sz = fs[c.i].sz)
               \* every touched object is well formed and owns its block
               /\ \A c \in chZ : c.live = 1 => WFZ(c, heap)
               /\ \A c \in chQ : c.live = 1 => WFZ(c.n, heap) /\ WFZ(c.d, heap)
               \* (mpf_set_prec_raw only changes the precision field: a value longer than the lowered precision stays as it is, which the manual intends --
               \*  "an efficient way to use an mpf_t variable at different precisions during a calculation"; every LATER result must fit again)
               \*  the same holds for a call that merely carries such a representation over: in-place mpf_neg / mpf_abs, mpf_swap)
               /\ \A c \in chF : c.live = 1 =>
                     (IF ev.f = "mpf_set_prec_raw" \/ (AbsI(c.sz) > c.prec + 1 /\ \E k \in 1..n : IsF(ks[k]) /\ fs[ev.a[k]].live /\ fs[ev.a[k]].prec = c.prec
                                                                                           /\ AbsI(fs[ev.a[k]].sz) = AbsI(c.sz) /\ ZAbs(fs[ev.a[k]].v) = ZAbs(c.v))
                      THEN WFF([c EXCEPT !.sz = 0, !.v = "0", !.exp = 0], heap) ELSE WFF(c, heap))
               \* every live variable -- reported as changed or not -- still owns a live block of its allocation after the call
               /\ tainted \/ ( /\ \A i \in DOMAIN zs1 : zs1[i].live => <<zs1[i].blk, zs1[i].al * 8>> \in heap
                               /\ \A i \in DOMAIN qs1 : qs1[i].live => <<qs1[i].n.blk, qs1[i].n.al * 8>> \in heap /\ <<qs1[i].d.blk, qs1[i].d.al * 8>> \in heap
                               /\ \A i \in DOMAIN fs1 : fs1[i].live => \E b \in heap : b[1] = fs1[i].blk /\ b[2] >= (fs1[i].prec + 1) * 8 )
               \* a returned string occupies exactly strlen+1 bytes
               /\ (sg.r = "STR" /\ ev.ret.blk # -2) => <<ev.ret.blk, Len(ev.ret.s) + 1>> \in heap
               \* heap accounting: no temporary survives, nothing leaked, nothing owned twice
               /\ tainted \/ ( /\ (argR \ dead1 = {} => extra = {})
                               /\ \A i \in DOMAIN zs1, j \in DOMAIN zs1 : (zs1[i].live /\ zs1[j].live /\ i # j) => zs1[i].blk # zs1[j].blk )
               \* reproducibility: equal (algorithm, parameters, seed, call history) => equal outputs
               /\ (isDraw /\ seeded) => \A m \in memo : m[1] = newkey => m[2] = outDesc
               /\ memo' = IF isDraw /\ seeded THEN memo \cup {<<newkey, outDesc>>} ELSE memo
               /\ tainted' = tainted /\ rs' = rs1 /\ held' = held1
       /\ zs' = zs1 /\ qs' = qs1 /\ fs' = fs1
       /\ gl' = IF ev.f = "mpf_set_default_prec" THEN [defprec |-> DefPrecLimbs(ev.a[1])] ELSE gl
       /\ inCall' = "" /\ heap' = heap

(* ---- stateless events: mpn-level and buffer-level functions on caller memory ---- *)
Fn(ev) == /\ ev.e = "fn" /\ inCall = ""
          /\ (IF ev.f \in FunsK1 THEN PostK1(ev.f, ev.i, ev.o) ELSE IF ev.f \in FunsK2 THEN PostK2(ev.f, ev.i, ev.o) ELSE IF ev.f \in FunsK4 THEN PostK4(ev.f, ev.i, ev.o)
              ELSE IF ev.f \in FunsK3 THEN PostK3(ev.f, ev.i, ev.o)
              ELSE IF ev.f \in FunsCxxF THEN PostCxxF(ev.f, ev.i, ev.o) ELSE PostN(ev.f, ev.i, ev.o))
          /\ tainted \/ LiveIds(heap) = OwnedZ(zs) \cup OwnedQ(qs) \cup OwnedF(fs) \cup OwnedR(rs) \cup held
          /\ UNCHANGED mvars

Reset(ev) == /\ ev.e = "reset"
             /\ zs' = [i \in 0..(NZ - 1) |-> DeadZ] /\ qs' = [i \in 0..(NQ - 1) |-> DeadQ]
             /\ fs' = [i \in 0..(NF - 1) |-> DeadF] /\ rs' = [i \in 0..(NR - 1) |-> [live |-> FALSE, blks |-> {}, key |-> <<>>]]
             /\ heap' = {} /\ held' = {} /\ inCall' = "" /\ tainted' = FALSE /\ gl' = [defprec |-> 2]
             /\ memo' = IF "keepmemo" \in DOMAIN ev THEN memo ELSE {}

(* everything has been cleared: the library holds no block *)
Quiesce(ev) == /\ ev.e = "quiesce" /\ inCall = ""
               /\ \A i \in DOMAIN zs : ~zs[i].live
               /\ \A i \in DOMAIN qs : ~qs[i].live
               /\ \A i \in DOMAIN fs : ~fs[i].live
               /\ \A i \in DOMAIN rs : ~rs[i].live
               /\ tainted \/ heap = {}
               /\ UNCHANGED mvars

(* a writable library symbol changed during the call (reported by the global-write detector): only the globals the manual
   documents may change, and only in the functions that own them; anything else is hidden shared state (C15) *)
RECURSIVE HasSub(_, _, _)
HasSub(s, sub, i) == IF i + Len(sub) - 1 > Len(s) THEN FALSE ELSE SubSeq(s, i, i + Len(sub) - 1) = sub \/ HasSub(s, sub, i + 1)
GlobalWrite(ev) == /\ ev.e = "gw"
                   /\ \/ HasSub(ev.sym, "__gmp_errno", 1) \/ HasSub(ev.sym, "__gmp_junk", 1)                         \* error indication / optimisation barrier
                      \/ (HasSub(ev.sym, "__gmp_default_fp_limb_precision", 1) /\ inCall = "mpf_set_default_prec")
                      \/ HasSub(ev.sym, "__gmpn_cpuvec", 1)                                                         \* fat binary: lazy dispatch initialisation
                   /\ UNCHANGED mvars

(* a decision reported by a VERIF_EV hook of the library (guard MPIR_VERIF): the choice itself is free (tuning), its safety
   predicate is not -- the algorithm entered must be inside the domain its own ASSERTs state, FFT parameters must not let
   coefficients wrap.  Tags without a predicate are coverage labels. *)
HookOK(ev) ==
   IF Len(ev.tag) > 4 /\ SubSeq(ev.tag, 1, 4) = "mul." THEN TPre(SubSeq(ev.tag, 5, Len(ev.tag)), ev.a, ev.b)
   ELSE IF ev.tag = "fft.trunc" THEN FFTSafe(ev.a, ev.b, ev.c, ev.d, "trunc")
   ELSE IF ev.tag = "fft.mfa" THEN FFTSafe(ev.a, ev.b, ev.c, ev.d, "mfa")
   ELSE IF ev.tag = "fft.coeff" THEN FFTCoeffOK(ev.a, ev.b, ev.c, ev.d)
   ELSE TRUE
Hook(ev) == ev.e = "hk" /\ HookOK(ev) /\ UNCHANGED mvars

Step(ev) == \/ Hook(ev) \/ GlobalWrite(ev) \/ Reset(ev) \/ CallBegin(ev) \/ Alloc(ev) \/ Realloc(ev) \/ Free(ev)
            \/ CallEnd(ev) \/ Fn(ev) \/ HFree(ev) \/ Quiesce(ev)

(* ---- invariants of the machine (checked in every state of every validated trace) ---- *)
TypeOK == /\ inCall \in STRING /\ tainted \in BOOLEAN
          /\ \A b \in heap : b[2] >= 0
HeapIdsUnique == \A b1 \in heap, b2 \in heap : b1[1] = b2[1] => b1 = b2
OwnersHoldLiveBlocks ==     \* outside a call every live variable owns a live block of exactly its allocation
   (inCall = "" /\ ~tainted) =>
      /\ \A i \in DOMAIN zs : zs[i].live => <<zs[i].blk, zs[i].al * 8>> \in heap
      /\ \A i \in DOMAIN qs : qs[i].live => <<qs[i].n.blk, qs[i].n.al * 8>> \in heap /\ <<qs[i].d.blk, qs[i].d.al * 8>> \in heap
      /\ \A i \in DOMAIN fs : fs[i].live => \E b \in heap : b[1] = fs[i].blk /\ b[2] >= (fs[i].prec + 1) * 8
NoLeakOutsideCalls ==
   (inCall = "" /\ ~tainted) => LiveIds(heap) = OwnedZ(zs) \cup OwnedQ(qs) \cup OwnedF(fs) \cup OwnedR(rs) \cup held
=============================================================================
