
