------------------------------- MODULE DivRound -------------------------------
(***************************************************************************)
(* R2 model for C02: the rounding adjustments of the floor / ceiling         *)
(* division families built on truncating division (mpz/fdiv_q.c, fdiv_r.c,  *)
(* fdiv_qr.c, cdiv_*.c and the _ui forms mpz/fdiv_q_ui.c, cdiv_q_ui.c,      *)
(* tdiv_q_ui.c ...), transcribed at value level: the truncated quotient and *)
(* remainder are adjusted by a test on the SIGNS OF THE SIZE FIELDS and on   *)
(* the remainder being non-zero.  Checked for every n, d in -M..M, d # 0,    *)
(* against the definitions: n = q*d + r, |r| < |d|, floor: r has the sign   *)
(* of d, ceiling: the opposite sign, _ui forms return |r|.  Variants flip    *)
(* one test (the kind of slip a sign-case edit makes).                      *)
(***************************************************************************)
EXTENDS Naturals, Integers, Sequences, TLC
CONSTANTS M, Variant        \* "ok" | "fdiv_sign" | "cdiv_no_zero_test" | "ui_ret"
AbsI(x) == IF x < 0 THEN -x ELSE x
TQ(n, d) == IF (n < 0) = (d < 0) THEN AbsI(n) \div AbsI(d) ELSE -(AbsI(n) \div AbsI(d))
TR(n, d) == n - TQ(n, d) * d
SameSignBits(a, b) == (a < 0) = (b < 0)          \* (size_a ^ size_b) >= 0 : a zero size has sign bit 0
FdivQ(n, d) == LET q == TQ(n, d) r == TR(n, d) IN
   IF (IF Variant = "fdiv_sign" THEN SameSignBits(d, n) ELSE ~SameSignBits(d, n)) /\ r # 0 THEN q - 1 ELSE q
FdivR(n, d) == LET r == TR(n, d) IN IF ~SameSignBits(d, n) /\ r # 0 THEN r + d ELSE r
CdivQ(n, d) == LET q == TQ(n, d) r == TR(n, d) IN IF SameSignBits(d, n) /\ r # 0 THEN q + 1 ELSE q
CdivR(n, d) == LET r == TR(n, d) IN
   IF SameSignBits(d, n) /\ (Variant = "cdiv_no_zero_test" \/ r # 0) THEN r - d ELSE r
(* _ui forms: divisor d > 0 unsigned; rl = |n| mod d from mpn_divrem_1; quotient magnitude adjusted *)
FdivQUi(n, d) == LET qm == AbsI(n) \div d  rl == AbsI(n) % d IN
   IF rl # 0 /\ n < 0 THEN <<-(qm + 1), IF Variant = "ui_ret" THEN rl ELSE d - rl>> ELSE <<(IF n < 0 THEN -qm ELSE qm), rl>>
CdivQUi(n, d) == LET qm == AbsI(n) \div d  rl == AbsI(n) % d IN
   IF rl # 0 /\ n >= 0 THEN <<qm + 1, d - rl>> ELSE <<(IF n < 0 THEN -qm ELSE qm), rl>>
TdivQUi(n, d) == <<TQ(n, d), AbsI(n) % d>>
Range == (-M)..M
ASSUME \A n \in Range, d \in Range \ {0} :
   LET fq == FdivQ(n, d) fr == FdivR(n, d) cq == CdivQ(n, d) cr == CdivR(n, d) IN
   /\ n = fq * d + fr /\ AbsI(fr) < AbsI(d) /\ (fr = 0 \/ (fr < 0) = (d < 0))        \* floor: remainder has the sign of the divisor
   /\ n = cq * d + cr /\ AbsI(cr) < AbsI(d) /\ (cr = 0 \/ (cr < 0) # (d < 0))        \* ceiling: the opposite sign
   /\ fq <= cq /\ cq - fq = (IF fr = 0 THEN 0 ELSE 1)
ASSUME \A n \in Range, d \in 1..M :
   LET f == FdivQUi(n, d) c == CdivQUi(n, d) t == TdivQUi(n, d) IN
   /\ f[1] = FdivQ(n, d) /\ f[2] = AbsI(FdivR(n, d))
   /\ c[1] = CdivQ(n, d) /\ c[2] = AbsI(CdivR(n, d))
   /\ t[2] = AbsI(TR(n, d))
ASSUME PrintT(<<"DivRound", M, Variant>>)
VARIABLE dummy
Spec == dummy = 0 /\ [][UNCHANGED dummy]_dummy
=============================================================================
