-------------------------------- MODULE SemK1 --------------------------------
(***************************************************************************)
(* Contracts of internal mpn-level multiplication-side and modular         *)
(* kernels, each stated as the routine's own source comment / ASSERTs      *)
(* state it (file and comment quoted next to each case).  Events come      *)
(* from harness/drv_k1.c.  A limb vector {p,n} is logged as the hex        *)
(* numeral of the natural number it denotes; B = 2^64.                     *)
(* PostK1(f, i, o): i = inputs logged before the call, o = outputs after.  *)
(***************************************************************************)
EXTENDS Naturals, Integers, Sequences, BigZ

LOCAL W == 64
LOCAL Bn(n) == ZPow2(W * n)
LOCAL Fits(v, n) == ~ZIsNeg(v) /\ ZBitLen(v) <= W * n        \* 0 <= v < B^n
LOCAL FitsBits(v, b) == ~ZIsNeg(v) /\ ZBitLen(v) <= b        \* 0 <= v < 2^b
LOCAL Limb(a, j) == ZLowBits(ZShr(a, W * j), W)              \* limb j (from 0) of a
LOCAL Odd(a) == ZTestBit(a, 0)
LOCAL Congr(x, y, m) == ZDivides(m, ZSub(x, y))              \* x = y (mod m)

(* Middle product, as defined at the top of mpn/generic/mulmid.c, mulmid_basecase.c, mulmid_n.c, toom42_mulmid.c:        *)
(*   "Let a = sum_0^{m-1} a_i B^i and b = sum_0^{n-1} b_j B^j                                                            *)
(*    then MP(a, m, b, n) = sum_{0<=i<m, 0<=j<n, n-1<=i+j<=m-1} a_ib_j B^{i+j-n+1}"                                      *)
(* For a fixed j the admissible i are n-1-j .. m-1-j: the m-n+1 limbs of a starting at limb n-1-j, weighted from B^0.    *)
(* bl = the n limbs of b (a sequence, least significant first).                                                          *)
(* The sum is BigZ!ZMulMid (TLA+ definition there, BigInteger accelerator checked against it by L0Equiv).                 *)
MP(a, m, b, n) == ZMulMid(a, m, b, n, W)

FunsK1 == {"mpn_mullow_n", "mpn_mullow_n_basecase", "mpn_mullow_basecase", "mpn_mulhigh_n", "mpn_sqr",
           "mpn_mulmid_basecase", "mpn_mulmid", "mpn_mulmid_n", "mpn_toom42_mulmid",
           "mpn_mulmod_2expm1", "mpn_mulmod_2expp1_basecase", "mpn_mulmod_Bexpp1",
           "mpn_redc_1", "mpn_redc_2", "mpn_redc_n", "mpn_binvert", "mpn_invert",
           "mpn_powlo", "mpn_pow_1", "mpn_powm"}

PostK1(f, i, o) ==
   CASE f = "mpn_mullow_n" ->
        \* mpn/generic/mullow_n.c: "Note: sets 2n limbs"; ASSERT (n > 0); rp (2n limbs) overlaps neither operand.
        \* tests/mpn/t-mullowhigh.c compares the low n limbs with those of mpn_mul_n: {rp,n} = x*y mod B^n.
        i.n > 0 /\ o.r = ZLowBits(ZMul(i.a, i.b), W * i.n)
     [] f = "mpn_mullow_n_basecase" ->
        \* mpn/generic/mullow_n_basecase.c: ASSERT (n >= 1), no overlap of {rp,2n} with the operands; low n limbs of the product.
        i.n >= 1 /\ o.r = ZLowBits(ZMul(i.a, i.b), W * i.n)
     [] f = "mpn_mullow_basecase" ->
        \* mpn/generic/mullow_basecase.c: "(rp, xn + yn) = (xp, xn)*(yp, yn) mod B^n"; ASSERT 0 < yn <= xn <= n <= xn + yn.
        /\ 0 < i.bn /\ i.bn <= i.an /\ i.an <= i.n /\ i.n <= i.an + i.bn
        /\ o.r = ZLowBits(ZMul(i.a, i.b), W * i.n)
     [] f = "mpn_mulhigh_n" ->
        \* mpn/generic/mulhigh_n.c: "Theorem: Let (zp, 2n) = mulshort_n(xp, yp, n); if zp[n-1] + n-2 < B then mulhigh_n(xp,yp,n) = (zp,2n)",
        \* otherwise the full product is computed: the high n limbs {rp+n, n} are those of the full product (t-mullowhigh.c checks exactly this).
        i.n > 0 /\ o.hi = ZShr(ZMul(i.a, i.b), W * i.n)
     [] f = "mpn_sqr" ->
        \* mpn/generic/mul_n.c mpn_sqr: ASSERT (n >= 1), {p,2n} does not overlap {a,n}; p = a^2 (all 2n limbs).
        \* (drv_c01.c logs the same routine with fields a, an, b = a, bn: both forms are decided here)
        /\ (("n" \in DOMAIN i) => i.n >= 1) /\ (("b" \in DOMAIN i) => i.b = i.a)
        /\ o.r = ZMul(i.a, i.a)
     [] f \in {"mpn_mulmid_basecase", "mpn_mulmid"} ->
        \* mulmid_basecase.c: "This function computes MP(up,un,vp,vn), writing the result to {rp,un-vn+3}. Must have un >= vn >= 1."
        \* mulmid.c: "This function computes MP(ap,an,bp,bn), placing the result in {rp, an-bn+3}."; ASSERT (an >= bn); ASSERT (bn >= 1).
        /\ i.an >= i.bn /\ i.bn >= 1
        /\ o.r = MP(i.a, i.an, i.b, i.bn)
     [] f = "mpn_mulmid_n" ->
        \* mulmid_n.c: "This function computes MP(ap,2n-1,bp,n)"; ASSERT (n >= 1); result {rp, n+2}.
        /\ i.bn >= 1 /\ i.an = 2 * i.bn - 1
        /\ o.r = MP(i.a, i.an, i.b, i.bn)
     [] f = "mpn_toom42_mulmid" ->
        \* toom42_mulmid.c: "computes the middle product of {ap,2n-1} and {bp,n}, output written to {rp,n+2}, i.e. it computes
        \* MP(ap,2n-1,bp,n). Neither ap nor bp may overlap rp. Must have n >= 4."  Scratch: mpn_toom42_mulmid_itch(n) = 3n + 64 limbs.
        /\ i.bn >= 4 /\ i.an = 2 * i.bn - 1
        /\ o.r = MP(i.a, i.an, i.b, i.bn)
     [] f = "mpn_mulmod_2expm1" ->
        \* mulmod_2expm1.c: "(xp, n) = (yp, n)*(zp, n) % 2^b - 1 ... everything reduced mod 2^b; inputs, outputs not fully reduced;
        \* NOTE: not reduced fully means the representation is redundant, although only 0 has two representations i.e. 0 and 2^b - 1".
        \* "tp requires 5(n + lg(b)) space"; n = BITS_TO_LIMBS(b); ASSERT (b > 0).
        LET M == ZSub(ZPow2(i.bits), "1") IN
        /\ i.bits > 0 /\ FitsBits(i.a, i.bits) /\ FitsBits(i.b, i.bits)
        /\ FitsBits(o.r, i.bits) /\ Congr(o.r, ZMul(i.a, i.b), M)
     [] f = "mpn_mulmod_2expp1_basecase" ->
        \* mulmod_2expp1_basecase.c: "ret + (xp, n) = (yp, n)*(zp, n) % 2^b + 1; needs (tp, 2n) temp space, everything reduced mod 2^b;
        \* inputs, outputs are fully reduced"; "c is the top bits of the inputs, (fully reduced); c & 2 is the top bit of y; c & 1 is the
        \* top bit of z" (WANT_ASSERT block: a set top bit implies the limbs are zero, i.e. the operand is exactly 2^b).
        LET P == ZPow2(i.bits)
            cy == (i.c \div 2) % 2
            cz == i.c % 2
            Y == IF cy = 1 THEN P ELSE i.a
            Z == IF cz = 1 THEN P ELSE i.b
        IN /\ i.bits > 0 /\ i.c \in 0..3 /\ FitsBits(i.a, i.bits) /\ FitsBits(i.b, i.bits)
           /\ (cy = 1 => i.a = "0") /\ (cz = 1 => i.b = "0")
           /\ o.ret \in {0, 1} /\ FitsBits(o.r, i.bits)
           /\ ZAdd(ZMul(ZFromInt(o.ret), P), o.r) = ZMod(ZMul(Y, Z), ZAdd(P, "1"))      \* fully reduced: the canonical residue in [0, 2^b]
     [] f = "mpn_mulmod_Bexpp1" ->
        \* mulmod_bexpp1.c has no contract comment; inferred from the code: operands and result have limbs+1 limbs, the top limb is
        \* the coefficient of B^limbs (0 or 1, value fully reduced in [0, B^n]); below the FFT cutoff it stores the return value of
        \* mpn_mulmod_2expp1_basecase (contract above) in r[limbs].  Stated: the n+1-limb result is the canonical residue of a*b mod B^n + 1.
        \* The function's return value is not specified anywhere (the early exits return 0 whatever r[limbs] is): not checked.
        LET P == Bn(i.n) IN
        /\ i.n >= 1 /\ ZLe(i.a, P) /\ ZLe(i.b, P)
        /\ o.r = ZMod(ZMul(i.a, i.b), ZAdd(P, "1"))
     [] f = "mpn_redc_1" ->
        \* redc_1.c: "Set cp[] <- tp[]/R^n mod mp[].  Clobber tp[].  mp[] is n limbs; tp[] is 2n limbs."  Nprim = -1/mp[0] mod B
        \* (the loop adds q*m with q = tp[0]*Nprim so that the low limb vanishes; mpn_powm passes -modlimb_invert(mp[0])).
        \* The residue occupies n limbs; it is congruent, not necessarily below m (mpn_powm does the final comparison itself).
        /\ i.n >= 1 /\ Odd(i.m) /\ Fits(i.m, i.n) /\ Fits(i.t, 2 * i.n)
        /\ ZLowBits(ZAdd(ZMul(i.m, i.inv), "1"), W) = "0"
        /\ Fits(o.r, i.n) /\ Congr(ZMul(o.r, Bn(i.n)), i.t, i.m)
     [] f = "mpn_redc_2" ->
        \* redc_2.c: same interface with a two-limb inverse mip = -1/m mod B^2 (mpn_powm: mpn_binvert (mip, mp, 2, tp); mip[0] = -mip[0]; mip[1] = ~mip[1]);
        \* ASSERT (n > 0).  For n = 1 only mip[0] is used (m is then a one-limb number, the inverse is that of m itself).
        /\ i.n > 0 /\ Odd(i.m) /\ Fits(i.m, i.n) /\ Fits(i.t, 2 * i.n)
        /\ ZLowBits(ZAdd(ZMul(i.m, i.inv), "1"), 2 * W) = "0"
        /\ Fits(o.r, i.n) /\ Congr(ZMul(o.r, Bn(i.n)), i.t, i.m)
     [] f = "mpn_redc_n" ->
        \* redc_n.c: ASSERT (n > 8); ip = 1/m mod B^n (mpn_powm: mpn_binvert (mip, mp, n, tp), not negated: the routine subtracts q*m);
        \* rp = up/B^n mod m in n limbs ("Consider removing the residue canonicalisation": after the conditional addition of m the value is in [0, B^n)).
        /\ i.n > 8 /\ Odd(i.m) /\ Fits(i.m, i.n) /\ Fits(i.t, 2 * i.n)
        /\ ZLowBits(ZMul(i.m, i.inv), W * i.n) = "1" /\ Fits(i.inv, i.n)
        /\ Fits(o.r, i.n) /\ Congr(ZMul(o.r, Bn(i.n)), i.t, i.m)
     [] f = "mpn_binvert" ->
        \* binvert.c: Newton iteration "r[k+1] = r[k] - r[k] * (u*r[k] - 1)" for the inverse of {up,n} modulo B^n (u odd: modlimb_invert (di, up[0]));
        \* scratch mpn_binvert_itch(n) limbs.  {rp,n} * {up,n} = 1 mod B^n.
        /\ i.n >= 1 /\ Odd(i.a) /\ Fits(i.a, i.n)
        /\ Fits(o.r, i.n) /\ ZLowBits(ZMul(o.r, i.a), W * i.n) = "1"
     [] f = "mpn_invert" ->
        \* invert.c: "Input: A = {ap, n} with most significant bit set.  Output: X = B^n + {xp, n} ... X is a lower approximation of
        \* B^(2n)/A with implicit msb.  More precisely, one has: A*X < B^(2n) <= A*(X+1) or X = ceil(B^(2n)/A) - 1."
        LET X == ZAdd(Bn(i.n), o.r) IN
        /\ i.n >= 1 /\ ZBitLen(i.a) = W * i.n
        /\ Fits(o.r, i.n)
        /\ ZLt(ZMul(i.a, X), Bn(2 * i.n)) /\ ZLe(Bn(2 * i.n), ZMul(i.a, ZAdd(X, "1")))
     [] f = "mpn_powlo" ->
        \* powlo.c: "rp[n-1..0] = bp[n-1..0] ^ ep[en-1..0] mod B^n, B is the limb base.  Requires that ep[en-1] is non-zero.
        \* Uses scratch space tp[3n-1..0], i.e., 3n words."  ASSERT (en > 1 || (en == 1 && ep[0] > 1)).
        /\ ZLimbCount(i.e) = i.en /\ ZLt("1", i.e) /\ Fits(i.b, i.n)
        /\ o.r = ZPowMod(i.b, i.e, Bn(i.n))
     [] f = "mpn_pow_1" ->
        \* pow_1.c: "mpn_pow_1 -- Compute powers R = U^exp."; returns the limb count of the result (rn is kept exact by "rn -= rp[rn-1] == 0",
        \* so the base must have a non-zero top limb); exp = 0 gives {1}, size 1; exp = 1 copies the base.  Space for rp and tp: result size + 1
        \* (mpn/generic/rootrem.c: "mpn_pow_1 requires that both qp and wp have enough space to store the result {sp,sn}^k + 1 limb").
        LET P == ZPow(i.b, ZToInt(i.e)) IN
        /\ ZLimbCount(i.b) = i.bn
        /\ o.r = P /\ o.rn = ZLimbCount(P)
     [] f = "mpn_powm" ->
        \* powm.c: "rp[n-1..0] = bp[bn-1..0] ^ ep[en-1..0] mod mp[n-1..0].  Requires that mp[n-1..0] is odd.  Requires that ep[en-1..0] is > 1.
        \* Uses scratch space at tp of MAX(mpn_binvert_itch(n),2n) limbs."  (The result is compared with m and reduced at the end: canonical residue.)
        /\ i.n >= 1 /\ Odd(i.m) /\ ZLimbCount(i.m) = i.n /\ ZLimbCount(i.e) = i.en /\ ZLt("1", i.e) /\ Fits(i.b, i.bn)
        /\ o.r = ZPowMod(i.b, i.e, i.m)
=============================================================================
