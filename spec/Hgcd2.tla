-------------------------------- MODULE Hgcd2 --------------------------------
(***************************************************************************)
(* R2 model for C07: mpn/generic/hgcd2.c (the file linked as mpn/hgcd2.c   *)
(* in the default build) transcribed statement by statement over limbs of  *)
(* W bits: div1, div2 (shift-and-subtract division "optimized for small    *)
(* quotients", both arms: numerator with / without the top bit) and        *)
(* mpn_hgcd2 with its goto structure: the double precision loop            *)
(* (labels here: LoopA = top of the first for(;;), LoopB = subtract_a:),   *)
(* the switch to single precision when the larger high limb drops below    *)
(* 2^(W/2), the single precision loop (Loop1A, Loop1B = subtract_a1:) and  *)
(* every "goto done" / "break" exit.                                       *)
(*                                                                         *)
(* Contract checked for EVERY (ah:al, bh:bl) in range (no precondition:    *)
(* hgcd_appr.c:169 passes ap[1],ap[0],bp[1],bp[0] as they are, and the     *)
(* function tests "ah < 2 || bh < 2" itself).  Sources of each clause:     *)
(*  R  hgcd2.c:185 "Reduces a,b until |a-b| (almost) fits in one limb + 1  *)
(*     bit. Constructs matrix M. Returns 1 if we make progress, i.e. can   *)
(*     perform at least one subtraction. Otherwise returns zero."          *)
(*     callers (gcd.c:252, gcdext_lehmer.c:222): "mpn_hgcd2 has failed.    *)
(*     Then either one of a or b is very small, or the difference is very  *)
(*     small."   =>  return 1  <=>  a >= 2B, b >= 2B, |a-b| >= 2B          *)
(*     (the three "return 0" tests of the function)                        *)
(*  M  gmp-impl.h:3758 "The matrix non-negative M = (u, u'; v,v') keeps    *)
(*     track of the reduction (a;b) = M (alpha; beta) where alpha, beta    *)
(*     are smaller than a, b. The determinant must always be one, so that  *)
(*     M has an inverse (v', -u'; -v, u). Elements always fit in           *)
(*     GMP_NUMB_BITS - 1 bits."                                            *)
(*  C  the way the callers use M (hgcd_step.c:103, gcd.c:245,              *)
(*     gcdext_lehmer.c:213): a,b are only the TOP two limbs of longer      *)
(*     numbers A = a B^k + x, B_ = b B^k + y (0 <= x,y < B^k) and          *)
(*     mpn_matrix22_mul1_inverse_vector computes u11 A - u01 B_ and        *)
(*     u00 B_ - u10 A with "ASSERT (h0 == h1)": both must be non-negative  *)
(*     for every such x,y  <=>  u11 a >= u01 (b+1)  and  u00 b >= u10(a+1) *)
(*  S  hgcd_step.c:50 "Reduces the size by almost one limb or more, but    *)
(*     never below the given size s", called with n = s+1 and the top      *)
(*     limbs as they are: the reduced numbers must keep more than s = k+1  *)
(*     limbs for every x,y  <=  alpha - u01 >= B and beta - u10 >= B       *)
(*  T  termination: hgcd2.c:185 "(almost) fits in one limb + 1 bit" and    *)
(*     hgcd2.c:333 "NOTE: Since we discard the least significant half      *)
(*     limb, we don't get a truly maximal M (corresponding to |a - b| <    *)
(*     2^{GMP_LIMB_BITS +1})": stated only as "almost"; the model checks   *)
(*     the bound  |alpha - beta| < 2^(W+2)  (one bit more than the         *)
(*     maximal M) which TLC finds to hold for every operand; see NoteT.    *)
(* The matrix entries are NOT reduced modulo B in the model: an overflow   *)
(* shows as an entry >= 2^(W-1).                                           *)
(*                                                                         *)
(* CONSTANTS W (even: the code uses GMP_LIMB_BITS / 2), LOWSEL (0 = every  *)
(* low limb; 1 / 2 = low limbs from a corner alphabet of 13 / 7 values,    *)
(* for larger W; the high limbs always run over everything), Variant,      *)
(* EMIT (print <<"HG2", W, ah, al, bh, bl, ret, <<u00,u01,u10,u11>>,       *)
(* labels>> the first time a worker meets a label set; see WitnessFormat). *)
(***************************************************************************)
EXTENDS Naturals, Integers, Sequences, FiniteSets, TLC
CONSTANTS W, LOWSEL, Variant, EMIT
  \* Variant: "ok"
  \*   "lt_instead_of_le"     "if (ah <= bh)  Use q = 1"  written as  ah < bh  (all four places)   (HOLDS, see NoteL)
  \*   "no_small_check"       "if (ah < 2) goto done;" after the double precision subtraction dropped (both sides)
  \*   "q_not_incremented"    "q++" after div2 / div1 dropped
  \*   "sp_break_small"       single precision loop: break when ah < 2^(W/2) instead of 2^(W/2+1)
  \*   "small_q_wrong"        "A is too small, but q is correct": uses q+1 there
  \*   "div2_gt"              div2: "nh == dh && nl >= dl" written with >
  \*   "no_halfway_check"     the switch to single precision is never taken (HOLDS: the double precision loop alone also meets the contract, see NoteH)
ASSUME W % 2 = 0 /\ W >= 4
B == 2 ^ W
HB == B \div 2                                     \* the sign bit: (mp_limb_signed_t) x < 0  <=>  x >= HB
Half == 2 ^ (W \div 2)                             \* CNST_LIMB(1) << (GMP_LIMB_BITS / 2)
Lim1 == 2 ^ (W \div 2 + 1)                         \* CNST_LIMB(1) << (GMP_LIMB_BITS / 2 + 1)
Wrap(x) == x % B
Ge2(nh, nl, dh, dl) == nh > dh \/ (nh = dh /\ (IF Variant = "div2_gt" THEN nl > dl ELSE nl >= dl))   \* nh > dh || (nh == dh && nl >= dl)
Sub2(ah, al, bh, bl) == LET v == (ah * B + al - bh * B - bl) % (B * B) IN <<v \div B, v % B>>          \* sub_ddmmss
Shl2(dh, dl) == <<Wrap(dh * 2 + dl \div HB), Wrap(dl * 2)>>       \* dh = (dh << 1) | (dl >> (GMP_LIMB_BITS - 1)); dl = dl << 1;
Shr2(dh, dl) == <<dh \div 2, Wrap(dh * HB) + dl \div 2>>          \* dl = (dh << (GMP_LIMB_BITS - 1)) | (dl >> 1); dh = dh >> 1;

(* ---- div1 (rp, n0, d0)   hgcd2.c:36-84  "Single-limb division optimized for small quotients." ---- *)
RECURSIVE D1NormHi(_, _), D1NormLo(_, _, _), D1LoopHi(_, _, _, _), D1LoopLo(_, _, _, _)
D1NormHi(d0, cnt) == IF d0 < HB /\ cnt <= W + 1 THEN D1NormHi(Wrap(d0 * 2), cnt + 1) ELSE <<d0, cnt>>          \* for (cnt = 1; (mp_limb_signed_t) d0 >= 0; cnt++) d0 = d0 << 1;
D1NormLo(n0, d0, cnt) == IF n0 >= d0 /\ cnt <= W + 1 THEN D1NormLo(n0, Wrap(d0 * 2), cnt + 1) ELSE <<d0, cnt>>  \* for (cnt = 0; n0 >= d0; cnt++) d0 = d0 << 1;
D1LoopHi(n0, d0, q, cnt) ==                                   \* while (cnt) { q <<= 1; if (n0 >= d0) { n0 = n0 - d0; q |= 1; } d0 = d0 >> 1; cnt--; }
   IF cnt = 0 THEN <<q, n0>>
   ELSE IF n0 >= d0 THEN D1LoopHi(n0 - d0, d0 \div 2, Wrap(2 * q) + 1, cnt - 1) ELSE D1LoopHi(n0, d0 \div 2, Wrap(2 * q), cnt - 1)
D1LoopLo(n0, d0, q, cnt) ==                                   \* while (cnt) { d0 = d0 >> 1; q <<= 1; if (n0 >= d0) { n0 = n0 - d0; q |= 1; } cnt--; }
   IF cnt = 0 THEN <<q, n0>>
   ELSE LET d1 == d0 \div 2 IN IF n0 >= d1 THEN D1LoopLo(n0 - d1, d1, Wrap(2 * q) + 1, cnt - 1) ELSE D1LoopLo(n0, d1, Wrap(2 * q), cnt - 1)
Div1(n0, d0) ==
   LET hi == n0 >= HB                                         \* if ((mp_limb_signed_t) n0 < 0)
       nm == IF hi THEN D1NormHi(d0, 1) ELSE D1NormLo(n0, d0, 0)
       r  == IF hi THEN D1LoopHi(n0, nm[1], 0, nm[2]) ELSE D1LoopLo(n0, nm[1], 0, nm[2])
   IN  [q |-> r[1], r |-> r[2], hi |-> hi, ok |-> d0 > 0 /\ nm[2] <= W + 1 /\ r[1] * d0 + r[2] = n0 /\ r[2] < d0]

(* ---- div2 (rp, nh, nl, dh, dl)   hgcd2.c:87-138  "Two-limb division optimized for small quotients." ---- *)
RECURSIVE D2NormHi(_, _, _), D2NormLo(_, _, _, _, _), D2LoopHi(_, _, _, _, _, _), D2LoopLo(_, _, _, _, _, _)
D2NormHi(dh, dl, cnt) == IF dh < HB /\ cnt <= 2 * W + 1 THEN LET s == Shl2(dh, dl) IN D2NormHi(s[1], s[2], cnt + 1) ELSE <<dh, dl, cnt>>
D2NormLo(nh, nl, dh, dl, cnt) == IF Ge2(nh, nl, dh, dl) /\ cnt <= 2 * W + 1 THEN LET s == Shl2(dh, dl) IN D2NormLo(nh, nl, s[1], s[2], cnt + 1) ELSE <<dh, dl, cnt>>
D2LoopHi(nh, nl, dh, dl, q, cnt) ==
   IF cnt = 0 THEN <<q, nh, nl>>
   ELSE LET s == Shr2(dh, dl) IN
        IF Ge2(nh, nl, dh, dl) THEN LET n == Sub2(nh, nl, dh, dl) IN D2LoopHi(n[1], n[2], s[1], s[2], Wrap(2 * q) + 1, cnt - 1)
        ELSE D2LoopHi(nh, nl, s[1], s[2], Wrap(2 * q), cnt - 1)
D2LoopLo(nh, nl, dh, dl, q, cnt) ==
   IF cnt = 0 THEN <<q, nh, nl>>
   ELSE LET s == Shr2(dh, dl) IN
        IF Ge2(nh, nl, s[1], s[2]) THEN LET n == Sub2(nh, nl, s[1], s[2]) IN D2LoopLo(n[1], n[2], s[1], s[2], Wrap(2 * q) + 1, cnt - 1)
        ELSE D2LoopLo(nh, nl, s[1], s[2], Wrap(2 * q), cnt - 1)
Div2(nh, nl, dh, dl) ==
   LET hi == nh >= HB                                         \* if ((mp_limb_signed_t) nh < 0)
       nm == IF hi THEN D2NormHi(dh, dl, 1) ELSE D2NormLo(nh, nl, dh, dl, 0)
       r  == IF hi THEN D2LoopHi(nh, nl, nm[1], nm[2], 0, nm[3]) ELSE D2LoopLo(nh, nl, nm[1], nm[2], 0, nm[3])
       n  == nh * B + nl   d == dh * B + dl   rem == r[2] * B + r[3]
   IN  [q |-> r[1], rh |-> r[2], rl |-> r[3], hi |-> hi, ok |-> d > 0 /\ nm[3] <= 2 * W + 1 /\ r[1] * d + rem = n /\ rem < d]

(* ---- mpn_hgcd2   hgcd2.c:199-404.  s: [ah, al, bh, bl, u00, u01, u10, u11, lab, ok, fuel] ---- *)
Le(x, y) == IF Variant = "lt_instead_of_le" THEN x < y ELSE x <= y
QInc(q) == IF Variant = "q_not_incremented" THEN q ELSE q + 1
QSmall(q) == IF Variant = "small_q_wrong" THEN q + 1 ELSE q
Done(s, l) == [ret |-> 1, u00 |-> s.u00, u01 |-> s.u01, u10 |-> s.u10, u11 |-> s.u11, lab |-> s.lab \cup {l}, ok |-> s.ok]     \* done: M->u[0][0] = u00; ... return 1;
L(s, l) == s.lab \cup {l}
DivLab(side, hi) == side \o (IF hi THEN "_div_hi" ELSE "_div_lo")
ToSingle(s, l) ==                                             \* ah = (ah << (GMP_LIMB_BITS / 2)) + (al >> (GMP_LIMB_BITS / 2)); bh likewise
   [s EXCEPT !.ah = Wrap(Wrap(s.ah * Half) + s.al \div Half), !.bh = Wrap(Wrap(s.bh * Half) + s.bl \div Half), !.lab = L(s, l)]

RECURSIVE LoopA(_), LoopB(_), Loop1A(_), Loop1B(_)
LoopA(s0) ==                                                  \* for (;;) {  ASSERT (ah >= bh);
   LET s == [s0 EXCEPT !.ok = @ /\ s0.ah >= s0.bh /\ s0.fuel > 0, !.fuel = @ - 1] IN
   IF s.fuel < 0 THEN Done(s, "FUEL")
   ELSE IF s.ah = s.bh THEN Done(s, "A_eq")                                                          \* if (ah == bh) goto done;
   ELSE IF s.ah < Half /\ Variant # "no_halfway_check" THEN Loop1A(ToSingle(s, "A_half"))            \* if (ah < (CNST_LIMB(1) << (GMP_LIMB_BITS / 2))) { ...; break; }
   ELSE LET d == Sub2(s.ah, s.al, s.bh, s.bl)                                                        \* ASSERT (ah > bh); sub_ddmmss (ah, al, ah, al, bh, bl);
        IN  IF d[1] < 2 /\ Variant # "no_small_check" THEN Done(s, "A_small")                        \* if (ah < 2) goto done;
            ELSE IF Le(d[1], s.bh)                                                                   \* if (ah <= bh)  "Use q = 1"
            THEN LoopB([s EXCEPT !.ah = d[1], !.al = d[2], !.u01 = @ + s.u00, !.u11 = @ + s.u10, !.lab = L(s, "A_q1")])
            ELSE LET v == Div2(d[1], d[2], s.bh, s.bl)                                               \* q = div2 (r, ah, al, bh, bl); al = r[0]; ah = r[1];
                 IN  IF v.rh < 2                                                                     \* "A is too small, but q is correct."
                     THEN Done([s EXCEPT !.u01 = @ + QSmall(v.q) * s.u00, !.u11 = @ + QSmall(v.q) * s.u10, !.ok = @ /\ v.ok, !.lab = L(s, DivLab("A", v.hi))], "A_div_small")
                     ELSE LoopB([s EXCEPT !.ah = v.rh, !.al = v.rl, !.u01 = @ + QInc(v.q) * s.u00, !.u11 = @ + QInc(v.q) * s.u10,      \* q++; u01 += q * u00; u11 += q * u10;
                                          !.ok = @ /\ v.ok, !.lab = L(s, DivLab("A", v.hi))])
LoopB(s0) ==                                                  \* subtract_a:  ASSERT (bh >= ah);
   LET s == [s0 EXCEPT !.ok = @ /\ s0.bh >= s0.ah /\ s0.fuel > 0, !.fuel = @ - 1] IN
   IF s.fuel < 0 THEN Done(s, "FUEL")
   ELSE IF s.ah = s.bh THEN Done(s, "B_eq")
   ELSE IF s.bh < Half /\ Variant # "no_halfway_check" THEN Loop1B(ToSingle(s, "B_half"))            \* ...; goto subtract_a1;
   ELSE LET d == Sub2(s.bh, s.bl, s.ah, s.al)                                                        \* sub_ddmmss (bh, bl, bh, bl, ah, al);
        IN  IF d[1] < 2 /\ Variant # "no_small_check" THEN Done(s, "B_small")
            ELSE IF Le(d[1], s.ah)
            THEN LoopA([s EXCEPT !.bh = d[1], !.bl = d[2], !.u00 = @ + s.u01, !.u10 = @ + s.u11, !.lab = L(s, "B_q1")])
            ELSE LET v == Div2(d[1], d[2], s.ah, s.al)
                 IN  IF v.rh < 2
                     THEN Done([s EXCEPT !.u00 = @ + QSmall(v.q) * s.u01, !.u10 = @ + QSmall(v.q) * s.u11, !.ok = @ /\ v.ok, !.lab = L(s, DivLab("B", v.hi))], "B_div_small")
                     ELSE LoopA([s EXCEPT !.bh = v.rh, !.bl = v.rl, !.u00 = @ + QInc(v.q) * s.u01, !.u10 = @ + QInc(v.q) * s.u11,
                                          !.ok = @ /\ v.ok, !.lab = L(s, DivLab("B", v.hi))])
SpLim == IF Variant = "sp_break_small" THEN Half ELSE Lim1
Loop1A(s0) ==                                                 \* "Single precision loop"  for (;;) { ASSERT (ah >= bh);
   LET s == [s0 EXCEPT !.ok = @ /\ s0.ah >= s0.bh /\ s0.fuel > 0, !.fuel = @ - 1] IN
   IF s.fuel < 0 THEN Done(s, "FUEL")
   ELSE LET a1 == Wrap(s.ah - s.bh) IN                                                               \* ah -= bh;
        IF a1 < SpLim THEN Done(s, "a1_break")                                                       \* if (ah < (CNST_LIMB (1) << (GMP_LIMB_BITS / 2 + 1))) break;
        ELSE IF Le(a1, s.bh)
        THEN Loop1B([s EXCEPT !.ah = a1, !.u01 = @ + s.u00, !.u11 = @ + s.u10, !.lab = L(s, "a1_q1")])
        ELSE LET v == Div1(a1, s.bh)                                                                 \* q = div1 (&r, ah, bh); ah = r;
             IN  IF v.r < SpLim
                 THEN Done([s EXCEPT !.u01 = @ + QSmall(v.q) * s.u00, !.u11 = @ + QSmall(v.q) * s.u10, !.ok = @ /\ v.ok, !.lab = L(s, DivLab("a1", v.hi))], "a1_div_break")
                 ELSE Loop1B([s EXCEPT !.ah = v.r, !.u01 = @ + QInc(v.q) * s.u00, !.u11 = @ + QInc(v.q) * s.u10, !.ok = @ /\ v.ok, !.lab = L(s, DivLab("a1", v.hi))])
Loop1B(s0) ==                                                 \* subtract_a1:  ASSERT (bh >= ah);
   LET s == [s0 EXCEPT !.ok = @ /\ s0.bh >= s0.ah /\ s0.fuel > 0, !.fuel = @ - 1] IN
   IF s.fuel < 0 THEN Done(s, "FUEL")
   ELSE LET b1 == Wrap(s.bh - s.ah) IN
        IF b1 < SpLim THEN Done(s, "b1_break")
        ELSE IF Le(b1, s.ah)
        THEN Loop1A([s EXCEPT !.bh = b1, !.u00 = @ + s.u01, !.u10 = @ + s.u11, !.lab = L(s, "b1_q1")])
        ELSE LET v == Div1(b1, s.ah)
             IN  IF v.r < SpLim
                 THEN Done([s EXCEPT !.u00 = @ + QSmall(v.q) * s.u01, !.u10 = @ + QSmall(v.q) * s.u11, !.ok = @ /\ v.ok, !.lab = L(s, DivLab("b1", v.hi))], "b1_div_break")
                 ELSE Loop1A([s EXCEPT !.bh = v.r, !.u00 = @ + QInc(v.q) * s.u01, !.u10 = @ + QInc(v.q) * s.u11, !.ok = @ /\ v.ok, !.lab = L(s, DivLab("b1", v.hi))])

Ret0(l) == [ret |-> 0, u00 |-> 0, u01 |-> 0, u10 |-> 0, u11 |-> 0, lab |-> {l}, ok |-> TRUE]
Hgcd2(ah, al, bh, bl) ==
   IF ah < 2 \/ bh < 2 THEN Ret0("ret0_small")                                  \* if (ah < 2 || bh < 2) return 0;
   ELSE IF ah > bh \/ (ah = bh /\ al > bl)                                      \* if (ah > bh || (ah == bh && al > bl))
   THEN LET d == Sub2(ah, al, bh, bl) IN                                        \*   sub_ddmmss (ah, al, ah, al, bh, bl);
        IF d[1] < 2 THEN Ret0("ret0_diff_a")                                    \*   if (ah < 2) return 0;
        ELSE LET s == [ah |-> d[1], al |-> d[2], bh |-> bh, bl |-> bl, u00 |-> 1, u01 |-> 1, u10 |-> 0, u11 |-> 1, lab |-> {"init_a"}, ok |-> TRUE, fuel |-> 4 * W + 8]
             IN  IF s.ah < s.bh THEN LoopB(s) ELSE LoopA(s)                     \* if (ah < bh) goto subtract_a;
   ELSE LET d == Sub2(bh, bl, ah, al) IN                                        \*   sub_ddmmss (bh, bl, bh, bl, ah, al);
        IF d[1] < 2 THEN Ret0("ret0_diff_b")                                    \*   if (bh < 2) return 0;
        ELSE LET s == [ah |-> ah, al |-> al, bh |-> d[1], bl |-> d[2], u00 |-> 1, u01 |-> 0, u10 |-> 1, u11 |-> 1, lab |-> {"init_b"}, ok |-> TRUE, fuel |-> 4 * W + 8]
             IN  IF s.ah < s.bh THEN LoopB(s) ELSE LoopA(s)

(* ------------------------------------------------------------------------------------------------------------------ *)
VARIABLES phase, xh, yh
vars == <<phase, xh, yh>>
Init == phase = 0 /\ xh = 0 /\ yh = 0 /\ (EMIT => TLCSet(1, {}))
Pick == phase = 0 /\ phase' = 1 /\ xh' \in 0..(B - 1) /\ yh' \in 0..(B - 1)
Spec == Init /\ [][Pick]_vars
Corner == {0, 1, 2, 3, Half - 1, Half, Half + 1, HB - 1, HB, HB + 1, B - 3, B - 2, B - 1}
Corner2 == {0, 1, Half, HB - 1, HB, B - 2, B - 1}
Lows == IF LOWSEL = 0 THEN 0..(B - 1) ELSE IF LOWSEL = 1 THEN Corner ELSE Corner2
AbsI(x) == IF x < 0 THEN -x ELSE x
Seen(sig) == IF sig \in TLCGet(1) THEN TRUE ELSE (TLCSet(1, TLCGet(1) \cup {sig}) /\ FALSE)

Contract(ah, al, bh, bl, r) ==
   LET a == ah * B + al   b == bh * B + bl
       alpha == r.u11 * a - r.u01 * b      \* M^{-1} = (u11, -u01; -u10, u00)
       beta  == r.u00 * b - r.u10 * a
   IN  /\ r.ok                                                                                       \* ASSERTs of the file, div1 / div2 exact
       /\ r.ret = (IF a >= 2 * B /\ b >= 2 * B /\ AbsI(a - b) >= 2 * B THEN 1 ELSE 0)                \* R
       /\ r.ret = 1 =>
            /\ \A u \in {r.u00, r.u01, r.u10, r.u11} : u >= 0 /\ u < HB                              \* M: "Elements always fit in GMP_NUMB_BITS - 1 bits"
            /\ r.u00 * r.u11 - r.u01 * r.u10 = 1                                                     \* M: "The determinant must always be one"
            /\ alpha > 0 /\ beta > 0 /\ a = r.u00 * alpha + r.u01 * beta /\ b = r.u10 * alpha + r.u11 * beta      \* M: (a;b) = M (alpha; beta)
            /\ alpha <= a /\ beta <= b /\ alpha + beta < a + b                                       \* M: "alpha, beta are smaller than a, b";  R: "we make progress"
            /\ r.u11 * a >= r.u01 * (b + 1) /\ r.u00 * b >= r.u10 * (a + 1)                          \* C
            /\ alpha - r.u01 >= B /\ beta - r.u10 >= B                                               \* S
            /\ AbsI(alpha - beta) < 4 * B                                                            \* T
Correct ==
   phase = 1 =>
      \A al \in Lows, bl \in Lows :
         LET r == Hgcd2(xh, al, yh, bl)
         IN  /\ Contract(xh, al, yh, bl, r)
             /\ (EMIT /\ ~Seen(r.lab)) => PrintT(<<"HG2", W, xh, al, yh, bl, r.ret, <<r.u00, r.u01, r.u10, r.u11>>, r.lab>>)
\* NoteT.  |alpha - beta| < 2^(W+1) would be the "truly maximal M".  At W = 4 it holds for every operand; from W = 6 on TLC finds operands
\*         where the discarded half limb leaves |alpha - beta| >= 2^(W+1), e.g. W = 6, a = 3:63, b = 9:61: M = (1 0; 2 1), alpha = 255,
\*         beta = 127, difference 128 = 2^(W+1).  The invariant TMax below is therefore expected to FAIL for W >= 6 (it is not part of Correct;
\*         it is the witness that the "almost" of the header comment is needed); clause T of Correct (< 2^(W+2)) holds for W = 4, 6, 8.
TMax == phase = 1 => \A al \in Lows, bl \in Lows : LET r == Hgcd2(xh, al, yh, bl)  a == xh * B + al  b == yh * B + bl
                     IN r.ret = 1 => AbsI((r.u11 * a - r.u01 * b) - (r.u00 * b - r.u10 * a)) < 2 * B
\* NoteH.  Without the switch to single precision the double precision loop runs until a high limb drops below 2; every clause above still
\*         holds (the matrix is then the maximal one): the switch is a speed optimisation, "no_halfway_check" is an equivalent mutant for
\*         this contract and is not in the list of variants that must be rejected.
\* NoteL.  "if (ah <= bh) Use q = 1" with < instead of <=: the case ah = bh then goes through div2 / div1, which returns q = 1 with a remainder
\*         whose high part is 0 ("too small, but q is correct": same matrix update, then done, where the original reaches done through the
\*         ah == bh test of the next half iteration) or q = 0 with q++ (same update): the q = 1 arm is a short cut, "lt_instead_of_le" is an
\*         equivalent mutant and is not in the list of variants that must be rejected.
\* WitnessFormat.  <<"HG2", W, ah, al, bh, bl, ret, <<u00, u01, u10, u11>>, labels>>: labels = set of branch labels met:
\*         ret0_small ret0_diff_a ret0_diff_b | init_a init_b | A_eq A_half A_small A_q1 A_div_hi A_div_lo A_div_small (first loop, "a" side)
\*         | B_eq B_half B_small B_q1 B_div_hi B_div_lo B_div_small (subtract_a:) | a1_break a1_q1 a1_div_hi a1_div_lo a1_div_break
\*         | b1_break b1_q1 b1_div_hi b1_div_lo b1_div_break (single precision loop; *_hi / *_lo = arm of div1 / div2 by the numerator's top bit).
\*         To replay at 64 bits stretch every W-bit limb x to x * 2^(64-W) + (x mod 2) * (2^(64-W) - 1)  (keeps order, equality of high
\*         limbs, all-ones and all-zeros); the 64-bit run need not follow the same path, the label set is the target class.
=============================================================================
