------------------------------ MODULE RandModels ------------------------------
(***************************************************************************)
(* R2 models for C19.                                                       *)
(* Urandomm: mpz_urandomm (mpz/urandomm.c): number of bits requested per    *)
(*   trial (limb count, leading zeros, power-of-two special case) and the   *)
(*   rejection test, at limb width W, with the generator as an ARBITRARY    *)
(*   bit source: every accepted value is in [0, n-1], every value of that   *)
(*   range can be produced (so a uniform source gives a uniform result),    *)
(*   and at least half of the trial values are accepted (termination).      *)
(* LcGen: randget_lc (randlc2x.c): the result is assembled from chunks of   *)
(*   the high half of successive X; with the chunk contents ARBITRARY the   *)
(*   result is always < 2^nbits, for every modulus exponent m and every     *)
(*   request length.  Variant "chunk_floor" is the pre-fix code (chunk =    *)
(*   m/2 bits although lc() delivers (m+1)/2).                              *)
(***************************************************************************)
EXTENDS Naturals, Integers, Sequences, FiniteSets, TLC
CONSTANTS W, NMAX, MMAX, Variant
B == 2 ^ W
RECURSIVE BitLen(_)
BitLen(x) == IF x = 0 THEN 0 ELSE 1 + BitLen(x \div 2)
RECURSIVE NL(_)
NL(v) == IF v = 0 THEN 0 ELSE 1 + NL(v \div B)
IsPow2(x) == x > 0 /\ 2 ^ (BitLen(x) - 1) = x
(* urandomm.c: size = ABSIZ(n); pow2 = POW2_P(top limb) and all lower limbs zero; count = clz(top limb);
   nbits = size*W - count - pow2 *)
NBits(n) == LET size == NL(n)  top == n \div (B ^ (size - 1))
                pow2 == IF IsPow2(top) /\ n % (B ^ (size - 1)) = 0 THEN 1 ELSE 0
                count == W - BitLen(top)
            IN  size * W - count - pow2
Accept(r, n) == IF Variant = "accept_equal" THEN r <= n ELSE r < n          \* do ... while (cmp >= 0)
UrandommOK(n) == LET nb == NBits(n)  T == 0..(2 ^ nb - 1)
                     acc == {r \in T : Accept(r, n)} IN
   IF nb = 0 THEN n = 1                                      \* "nbits == 0 means that n was == 1": result 0
   ELSE /\ \A r \in acc : r <= n - 1                         \* range
        /\ acc = 0..(n - 1)                                  \* every value reachable, each by exactly one trial value
        /\ 2 * Cardinality(acc) >= Cardinality(T)            \* expected number of trials <= 2
ASSUME \A n \in 1..NMAX : UrandommOK(n)

(* randget_lc at bit level: valid = bits lc() delivers per step, chunk = bits consumed per step *)
Valid(m) == (m + 1) \div 2
Chunk(m) == IF Variant = "chunk_floor" THEN m \div 2 ELSE (m + 1) \div 2
RECURSIVE FullChunks(_, _, _, _)
FullChunks(res, pos, m, nbits) ==      \* while (rbitpos + chunk_nbits <= nbits): worst case every delivered bit is 1
   IF Chunk(m) > 0 /\ pos + Chunk(m) <= nbits
   THEN FullChunks(res + (2 ^ Valid(m) - 1) * 2 ^ pos - (IF pos > 0 /\ (res \div 2 ^ pos) % 2 = 1 THEN 2 ^ pos ELSE 0), pos + Chunk(m), m, nbits)
   ELSE <<res, pos>>
LcWorst(m, nbits) ==                   \* the largest value randget_lc can return
   LET fc == FullChunks(0, 0, m, nbits)
       res == fc[1]  pos == fc[2]
   IN  IF pos # nbits
       THEN LET last == nbits - pos                          \* last partial chunk, then the mask is applied
            IN  (res + (2 ^ Valid(m) - 1) * 2 ^ pos) % (2 ^ nbits)
       ELSE res                                              \* no mask on this path
ASSUME \A m \in 2..MMAX, nbits \in 0..(3 * W) : LcWorst(m, nbits) < 2 ^ nbits \/ nbits = 0
ASSUME PrintT(<<"RandModels", W, NMAX, MMAX, Variant>>)
VARIABLE dummy
Spec == dummy = 0 /\ [][UNCHANGED dummy]_dummy
=============================================================================
