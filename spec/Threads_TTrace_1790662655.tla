---- MODULE Threads_TTrace_1790662655 ----
EXTENDS Threads, Sequences, TLCExt, Toolbox, Naturals, TLC

_expression ==
    LET Threads_TEExpression == INSTANCE Threads_TEExpression
    IN Threads_TEExpression!expression
----

_trace ==
    LET Threads_TETrace == INSTANCE Threads_TETrace
    IN Threads_TETrace!trace
----

_inv ==
    ~(
        TLCGet("level") = Len(_TETrace)
        /\
        acc = (<<24, 24>>)
        /\
        pc = (<<4, 4>>)
        /\
        sched = (<<1, 2, 2, 1, 1, 1, 2, 2>>)
        /\
        cell = (23)
    )
----

_init ==
    /\ sched = _TETrace[1].sched
    /\ acc = _TETrace[1].acc
    /\ cell = _TETrace[1].cell
    /\ pc = _TETrace[1].pc
----

_next ==
    /\ \E i,j \in DOMAIN _TETrace:
        /\ \/ /\ j = i + 1
              /\ i = TLCGet("level")
        /\ sched  = _TETrace[i].sched
        /\ sched' = _TETrace[j].sched
        /\ acc  = _TETrace[i].acc
        /\ acc' = _TETrace[j].acc
        /\ cell  = _TETrace[i].cell
        /\ cell' = _TETrace[j].cell
        /\ pc  = _TETrace[i].pc
        /\ pc' = _TETrace[j].pc

\* Uncomment the ASSUME below to write the states of the error trace
\* to the given file in Json format. Note that you can pass any tuple
\* to `JsonSerialize`. For example, a sub-sequence of _TETrace.
    \* ASSUME
    \*     LET J == INSTANCE Json
    \*         IN J!JsonSerialize("Threads_TTrace_1790662655.json", _TETrace)

=============================================================================

 Note that you can extract this module `Threads_TEExpression`
  to a dedicated file to reuse `expression` (the module in the 
  dedicated `Threads_TEExpression.tla` file takes precedence 
  over the module `Threads_TEExpression` below).

---- MODULE Threads_TEExpression ----
EXTENDS Threads, Sequences, TLCExt, Toolbox, Naturals, TLC

expression == 
    [
        \* To hide variables of the `Threads` spec from the error trace,
        \* remove the variables below.  The trace will be written in the order
        \* of the fields of this record.
        sched |-> sched
        ,acc |-> acc
        ,cell |-> cell
        ,pc |-> pc
        
        \* Put additional constant-, state-, and action-level expressions here:
        \* ,_stateNumber |-> _TEPosition
        \* ,_schedUnchanged |-> sched = sched'
        
        \* Format the `sched` variable as Json value.
        \* ,_schedJson |->
        \*     LET J == INSTANCE Json
        \*     IN J!ToJson(sched)
        
        \* Lastly, you may build expressions over arbitrary sets of states by
        \* leveraging the _TETrace operator.  For example, this is how to
        \* count the number of times a spec variable changed up to the current
        \* state in the trace.
        \* ,_schedModCount |->
        \*     LET F[s \in DOMAIN _TETrace] ==
        \*         IF s = 1 THEN 0
        \*         ELSE IF _TETrace[s].sched # _TETrace[s-1].sched
        \*             THEN 1 + F[s-1] ELSE F[s-1]
        \*     IN F[_TEPosition - 1]
    ]

=============================================================================



Parsing and semantic processing can take forever if the trace below is long.
 In this case, it is advised to uncomment the module below to deserialize the
 trace from a generated binary file.

\*
\*---- MODULE Threads_TETrace ----
\*EXTENDS Threads, IOUtils, TLC
\*
\*trace == IODeserialize("Threads_TTrace_1790662655.bin", TRUE)
\*
\*=============================================================================
\*

---- MODULE Threads_TETrace ----
EXTENDS Threads, TLC

trace == 
    <<
    ([acc |-> <<10, 20>>,pc |-> <<0, 0>>,sched |-> <<>>,cell |-> 0]),
    ([acc |-> <<10, 20>>,pc |-> <<1, 0>>,sched |-> <<1>>,cell |-> 11]),
    ([acc |-> <<10, 20>>,pc |-> <<1, 1>>,sched |-> <<1, 2>>,cell |-> 21]),
    ([acc |-> <<10, 22>>,pc |-> <<1, 2>>,sched |-> <<1, 2, 2>>,cell |-> 21]),
    ([acc |-> <<22, 22>>,pc |-> <<2, 2>>,sched |-> <<1, 2, 2, 1>>,cell |-> 21]),
    ([acc |-> <<22, 22>>,pc |-> <<3, 2>>,sched |-> <<1, 2, 2, 1, 1>>,cell |-> 23]),
    ([acc |-> <<24, 22>>,pc |-> <<4, 2>>,sched |-> <<1, 2, 2, 1, 1, 1>>,cell |-> 23]),
    ([acc |-> <<24, 22>>,pc |-> <<4, 3>>,sched |-> <<1, 2, 2, 1, 1, 1, 2>>,cell |-> 23]),
    ([acc |-> <<24, 24>>,pc |-> <<4, 4>>,sched |-> <<1, 2, 2, 1, 1, 1, 2, 2>>,cell |-> 23])
    >>
----


=============================================================================

---- CONFIG Threads_TTrace_1790662655 ----
CONSTANTS
    N = 2
    SEGS = 4
    HIDDEN = TRUE
    EMIT = FALSE

INVARIANT
    _inv

CHECK_DEADLOCK
    \* CHECK_DEADLOCK off because of PROPERTY or INVARIANT above.
    FALSE

INIT
    _init

NEXT
    _next

CONSTANT
    _TETrace <- _trace

ALIAS
    _expression
=============================================================================
\* Generated on Tue Sep 29 06:17:36 UTC 2026