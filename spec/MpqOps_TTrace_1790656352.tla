---- MODULE MpqOps_TTrace_1790656352 ----
EXTENDS MpqOps, Sequences, TLCExt, Toolbox, Naturals, TLC

_expression ==
    LET MpqOps_TEExpression == INSTANCE MpqOps_TEExpression
    IN MpqOps_TEExpression!expression
----

_trace ==
    LET MpqOps_TETrace == INSTANCE MpqOps_TETrace
    IN MpqOps_TETrace!trace
----

_inv ==
    ~(
        TLCGet("level") = Len(_TETrace)
        /\
        args = (<<2, 2, 2>>)
        /\
        phase = (2)
        /\
        op = ("sub")
        /\
        vals = (<<<<-7, 1>>, <<-7, 2>>, <<1, 1>>>>)
    )
----

_init ==
    /\ vals = _TETrace[1].vals
    /\ args = _TETrace[1].args
    /\ op = _TETrace[1].op
    /\ phase = _TETrace[1].phase
----

_next ==
    /\ \E i,j \in DOMAIN _TETrace:
        /\ \/ /\ j = i + 1
              /\ i = TLCGet("level")
        /\ vals  = _TETrace[i].vals
        /\ vals' = _TETrace[j].vals
        /\ args  = _TETrace[i].args
        /\ args' = _TETrace[j].args
        /\ op  = _TETrace[i].op
        /\ op' = _TETrace[j].op
        /\ phase  = _TETrace[i].phase
        /\ phase' = _TETrace[j].phase

\* Uncomment the ASSUME below to write the states of the error trace
\* to the given file in Json format. Note that you can pass any tuple
\* to `JsonSerialize`. For example, a sub-sequence of _TETrace.
    \* ASSUME
    \*     LET J == INSTANCE Json
    \*         IN J!JsonSerialize("MpqOps_TTrace_1790656352.json", _TETrace)

=============================================================================

 Note that you can extract this module `MpqOps_TEExpression`
  to a dedicated file to reuse `expression` (the module in the 
  dedicated `MpqOps_TEExpression.tla` file takes precedence 
  over the module `MpqOps_TEExpression` below).

---- MODULE MpqOps_TEExpression ----
EXTENDS MpqOps, Sequences, TLCExt, Toolbox, Naturals, TLC

expression == 
    [
        \* To hide variables of the `MpqOps` spec from the error trace,
        \* remove the variables below.  The trace will be written in the order
        \* of the fields of this record.
        vals |-> vals
        ,args |-> args
        ,op |-> op
        ,phase |-> phase
        
        \* Put additional constant-, state-, and action-level expressions here:
        \* ,_stateNumber |-> _TEPosition
        \* ,_valsUnchanged |-> vals = vals'
        
        \* Format the `vals` variable as Json value.
        \* ,_valsJson |->
        \*     LET J == INSTANCE Json
        \*     IN J!ToJson(vals)
        
        \* Lastly, you may build expressions over arbitrary sets of states by
        \* leveraging the _TETrace operator.  For example, this is how to
        \* count the number of times a spec variable changed up to the current
        \* state in the trace.
        \* ,_valsModCount |->
        \*     LET F[s \in DOMAIN _TETrace] ==
        \*         IF s = 1 THEN 0
        \*         ELSE IF _TETrace[s].vals # _TETrace[s-1].vals
        \*             THEN 1 + F[s-1] ELSE F[s-1]
        \*     IN F[_TEPosition - 1]
    ]

=============================================================================



Parsing and semantic processing can take forever if the trace below is long.
 In this case, it is advised to uncomment the module below to deserialize the
 trace from a generated binary file.

\*
\*---- MODULE MpqOps_TETrace ----
\*EXTENDS MpqOps, IOUtils, TLC
\*
\*trace == IODeserialize("MpqOps_TTrace_1790656352.bin", TRUE)
\*
\*=============================================================================
\*

---- MODULE MpqOps_TETrace ----
EXTENDS MpqOps, TLC

trace == 
    <<
    ([args |-> <<1, 1, 1>>,phase |-> 0,op |-> "mul",vals |-> <<<<0, 1>>, <<0, 1>>, <<0, 1>>>>]),
    ([args |-> <<2, 2, 2>>,phase |-> 1,op |-> "sub",vals |-> <<<<0, 1>>, <<0, 1>>, <<0, 1>>>>]),
    ([args |-> <<2, 2, 2>>,phase |-> 2,op |-> "sub",vals |-> <<<<-7, 1>>, <<-7, 2>>, <<1, 1>>>>])
    >>
----


=============================================================================

---- CONFIG MpqOps_TTrace_1790656352 ----
CONSTANTS
    K = 7
    Variant = "no_second_gcd"

INVARIANT
    _inv

CHECK_DEADLOCK
    \* CHECK_DEADLOCK off because of PROPERTY or INVARIANT above.
    FALSE

INIT
    _init

NEXT
    _next

CONSTANT
    _TETrace <- _trace

ALIAS
    _expression
=============================================================================
\* Generated on Tue Sep 29 04:32:36 UTC 2026