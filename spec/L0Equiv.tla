------------------------------ MODULE L0Equiv ------------------------------
(* Checks that the Java accelerators of BigZ agree with the normative TLA+  *)
(* definitions (BigZPure = verbatim copy of BigZ under a name without       *)
(* override).  Run by every check (bin/check ... runs it first).            *)
EXTENDS Naturals, Integers, Sequences, TLC, FiniteSets, BigZ
P == INSTANCE BigZPure

Small == -6..6
SmallZ == {P!ZFromInt(i) : i \in Small}
Pw(k) == P!ZPow2(k)
Big == { Pw(12), Pw(24), P!ZSub(Pw(36), "1"), P!ZAdd(Pw(64), "1"), P!ZSub(Pw(64), "1"), Pw(63),
         P!ZNeg(Pw(64)), P!ZNeg(P!ZSub(Pw(128), "1")), P!ZPow("3", 70), P!ZNeg(P!ZPow("7", 41)),
         "123456789abcdef0fedcba9876543210", "-ffffffffffffffff0000000000000000",
         "fffffffffffffffffffffffffffffffffffffffffffffffe", "100000000000000000000000000000001",
         P!ZMul(P!ZPow("3", 70), P!ZPow("5", 33)), "-deadbeefcafebabe0123456789", "10000000f" }
Vals == SmallZ \cup Big
NZ == Vals \ {"0"}
Shifts == {0, 1, 11, 12, 13, 63, 64, 65, 130}

Bin2(dummy) == \A a \in Vals, b \in Vals :
   /\ ZAdd(a, b) = P!ZAdd(a, b) /\ ZSub(a, b) = P!ZSub(a, b) /\ ZMul(a, b) = P!ZMul(a, b)
   /\ ZCmp(a, b) = P!ZCmp(a, b) /\ ZAnd(a, b) = P!ZAnd(a, b) /\ ZOr(a, b) = P!ZOr(a, b)
   /\ ZXor(a, b) = P!ZXor(a, b) /\ ZGcd(a, b) = P!ZGcd(a, b) /\ ZKronecker(a, b) = P!ZKronecker(a, b)
Div2(dummy) == \A a \in Vals, b \in NZ :
   /\ ZTDivQ(a, b) = P!ZTDivQ(a, b) /\ ZTDivR(a, b) = P!ZTDivR(a, b)
   /\ ZFDivQ(a, b) = P!ZFDivQ(a, b) /\ ZFDivR(a, b) = P!ZFDivR(a, b)
   /\ ZCDivQ(a, b) = P!ZCDivQ(a, b) /\ ZCDivR(a, b) = P!ZCDivR(a, b)
Un1(dummy) == \A a \in Vals :
   /\ ZNeg(a) = P!ZNeg(a) /\ ZAbs(a) = P!ZAbs(a) /\ ZSgn(a) = P!ZSgn(a) /\ ZCom(a) = P!ZCom(a)
   /\ ZBitLen(a) = P!ZBitLen(a) /\ ZPopCount(ZAbs(a)) = P!ZPopCount(P!ZAbs(a))
   /\ (a # "0" => ZCtz(a) = P!ZCtz(a))
   /\ ZISqrt(ZAbs(a)) = P!ZISqrt(P!ZAbs(a))
   /\ ZIsPrime(ZAbs(a)) = P!ZIsPrime(P!ZAbs(a))
   /\ \A n \in Shifts : /\ ZShl(a, n) = P!ZShl(a, n) /\ ZShr(a, n) = P!ZShr(a, n)
                        /\ ZLowBits(a, n) = P!ZLowBits(a, n) /\ ZTestBit(a, n) = P!ZTestBit(a, n)
   /\ \A n \in {1, 2, 3, 5, 7, 64, 200} : ZIRoot(a, n) = P!ZIRoot(a, IF a # "0" /\ ZIsNeg(a) /\ n % 2 = 0 THEN n ELSE n)
   /\ \A e \in {0, 1, 2, 5} : ZPow(a, e) = P!ZPow(a, e)
   /\ ZLimbs(ZAbs(a), 64, 3) = P!ZLimbs(P!ZAbs(a), 64, 3)
   /\ \A b \in {"1", "ffffffffffffffff", "123456789abcdef0fedcba9876543210", "8000000000000000ffffffffffffffff0000000000000001"}, mm \in {3, 4}, nn \in {1, 2, 3} :
         ZMulMid(ZLowBits(ZAbs(a), 64 * mm), mm, ZLowBits(b, 64 * nn), nn, 64) = P!ZMulMid(P!ZLowBits(P!ZAbs(a), 64 * mm), mm, P!ZLowBits(b, 64 * nn), nn, 64)
PowM(dummy) == \A a \in {"0", "1", "-3", "2", "123456789abcdef0fedcba9876543210", "-deadbeefcafebabe0123456789"},
                   e \in {"0", "1", "2", "b", "10001", "123456789abcdef"},
                   m \in {"1", "-1", "2", "7", "-10", "10000000f", "100000000000000000000000000000001", "-ffffffffffffffff0000000000000000"} :
   ZPowMod(a, e, m) = P!ZPowMod(a, e, m)
Ints(dummy) == \A i \in -5000..5000 : ZFromInt(i) = P!ZFromInt(i) /\ ZToInt(ZFromInt(i)) = i /\ P!ZToInt(P!ZFromInt(i)) = i
Primes(dummy) == /\ \A i \in 0..400 : ZIsPrime(ZFromInt(i)) = P!ZIsPrime(P!ZFromInt(i))
                  /\ \A a \in {"0", "1", "2", "71"} : ZNextPrime(a) = P!ZNextPrime(a)
StatSeq == <<"0", "1", "ff", "10", "deadbeef", "7", "8000000000000001", "3", "1", "0", "fe", "11">>
Comb(dummy) == /\ \A b \in {0, 1, 4, 63}, lag \in {1, 2, 4} : SeqBitOnes(StatSeq, b) = P!SeqBitOnes(StatSeq, b) /\ SeqBitAgree(StatSeq, b, lag) = P!SeqBitAgree(StatSeq, b, lag)
               /\ \A b \in {"0", "1", "f"} : SeqBucket(StatSeq, 4, b) = P!SeqBucket(StatSeq, 4, b)
               /\ \A n \in 0..40 : /\ ZFac(n) = P!ZFac(n) /\ ZPrimorial(n) = P!ZPrimorial(n)
                            /\ ZFib(ZFromInt(n)) = P!ZFib(P!ZFromInt(n)) /\ ZLuc(ZFromInt(n)) = P!ZLuc(P!ZFromInt(n))
                            /\ \A m \in 1..5 : ZMFac(ZFromInt(n), ZFromInt(m)) = P!ZMFac(P!ZFromInt(n), P!ZFromInt(m))
        /\ \A n \in Vals, k \in 0..6 : ZBin(n, ZFromInt(k)) = P!ZBin(n, P!ZFromInt(k))
        /\ ZFib("12c") = P!ZFib("12c") /\ ZFac(120) = P!ZFac(120)
A62 == "0123456789ABCDEFGHIJKLMNOPQRSTUVWXYZabcdefghijklmnopqrstuvwxyz"
A36 == "0123456789abcdefghijklmnopqrstuvwxyz"
Radix(dummy) == \A a \in Vals, b \in {2, 3, 7, 10, 16, 36, 37, 61, 62} :
   LET al == IF b <= 36 THEN A36 ELSE A62 IN
   /\ ZDigits(a, b, al) = P!ZDigits(a, b, al)
   /\ ZFromDigits(ZDigits(a, b, al), b, al) = ZAbs(a)
   /\ P!ZFromDigits(P!ZDigits(a, b, al), b, al) = P!ZAbs(a)
   /\ StrStripWS(" " \o ZDigits(a, b, al) \o " \t" \o "x\n") = P!StrStripWS(" " \o ZDigits(a, b, al) \o " \t" \o "x\n")
   /\ StrLower(ZDigits(a, b, al) \o "Zz-") = P!StrLower(ZDigits(a, b, al) \o "Zz-")
   /\ \A c \in {"0", "1", "z", "-", "e"} : /\ StrFind(ZDigits(a, b, al) \o "e-1", c) = P!StrFind(ZDigits(a, b, al) \o "e-1", c)
                                          /\ StrLead("000" \o ZDigits(a, b, al), c) = P!StrLead("000" \o ZDigits(a, b, al), c)
   /\ StrFirstBad(ZDigits(a, b, al) \o "~" \o "1", b, al) = P!StrFirstBad(P!ZDigits(a, b, al) \o "~" \o "1", b, al)

CONSTANT Family
ASSUME CASE Family = "Ints" -> Ints(0) [] Family = "Bin2" -> Bin2(0) [] Family = "Div2" -> Div2(0)
         [] Family = "Un1" -> Un1(0) [] Family = "PowM" -> PowM(0) [] Family = "Primes" -> Primes(0)
         [] Family = "Comb" -> Comb(0) [] Family = "Radix" -> Radix(0)
ASSUME PrintT(<<"L0Equiv", Family, "values", Cardinality(Vals)>>)
=============================================================================
