------------------------------- MODULE IOModel -------------------------------
(***************************************************************************)
(* R2 model for C17.                                                        *)
(*  (1) export/import layout: for every v < VMAX, every word size 1..SMAX,  *)
(*      order, endianness and every nail count: importing the exported      *)
(*      bytes gives v back, the count is the documented one, every nail bit *)
(*      is zero, and garbage in the nail bits is ignored by import;         *)
(*  (2) raw format: RawParse(RawBytes(v)) = v with all bytes consumed;      *)
(*      every proper prefix of a raw stream is rejected; zero is "00000000"; *)
(*  (3) StreamFaults: a behaviour is (function, value, fault position);     *)
(*      TLC enumerates EVERY fault position of every small value for the    *)
(*      writers and every truncation point for the readers, checks the      *)
(*      specification's verdict is "0 / -1 iff the fault precedes the end", *)
(*      and (EMIT) prints each behaviour for replay on the real library.    *)
(***************************************************************************)
EXTENDS Naturals, Integers, Sequences, TLC, IOFormat
CONSTANTS VMAX, SMAX, EMIT
RECURSIVE NailsZero(_, _, _, _, _)
NailsZero(bytes, k, size, endian, nails) ==        \* every word's top `nails` bits are zero
   IF 2 * size * k > Len(bytes) THEN TRUE
   ELSE LET raw == SubSeq(bytes, 2 * size * (k - 1) + 1, 2 * size * k)
            be == IF endian = 1 THEN raw ELSE RevBytes(raw)
        IN  ZBitLen(HexVal(be)) <= 8 * size - nails /\ NailsZero(bytes, k + 1, size, endian, nails)
ExportOK(v, order, size, endian, nails) ==
   LET z == ZFromInt(v)
       b == ExportBytes(z, order, size, endian, nails)
       c == ExportCount(z, size, nails)
   IN  /\ Len(b) = 2 * size * c
       /\ ImportValue(b, c, order, size, endian, nails) = z
       /\ NailsZero(b, 1, size, endian, nails)
       /\ (c > 0 => ZLe(ZPow2((c - 1) * (8 * size - nails)), z)) /\ ZLt(z, ZPow2(c * (8 * size - nails)))
ASSUME \A v \in 0..VMAX, size \in 1..SMAX, order \in {-1, 1}, endian \in {-1, 1} : \A nails \in 0..(8 * size - 1) : ExportOK(v, order, size, endian, nails)
ASSUME \A v \in (-VMAX)..VMAX : LET z == ZFromInt(v) p == RawParse(RawBytes(z)) IN p.ok /\ p.v = z /\ 2 * p.n = Len(RawBytes(z))
ASSUME \A v \in (-300)..300 : LET b == RawBytes(ZFromInt(v)) IN \A t \in 0..(Len(b) \div 2 - 1) : ~RawParse(SubSeq(b, 1, 2 * t)).ok
ASSUME RawBytes("0") = "00000000" /\ RawBytes("-1") = "ffffffff01" /\ RawBytes("100") = "000000020100"

FaultVals == {0, 1, -1, 255, 256, -65535, 65536, VMAX, -VMAX}
ASSUME \A v \in FaultVals :
   LET z == ZFromInt(v)  raw == RawBytes(z)  txt == GetStrText(z, 10) IN
   /\ \A t \in 0..(Len(raw) \div 2) : EMIT => PrintT(<<"FAULT", "out_raw", v, t, IF t < Len(raw) \div 2 THEN "fail" ELSE "ok">>)
   /\ \A t \in 0..(Len(raw) \div 2) : EMIT => PrintT(<<"FAULT", "inp_raw", v, t, IF RawParse(SubSeq(raw, 1, 2 * t)).ok THEN "ok" ELSE "fail">>)
   /\ \A t \in 0..Len(txt) : EMIT => PrintT(<<"FAULT", "out_str", v, t, IF t < Len(txt) THEN "fail" ELSE "ok">>)
   /\ \A t \in 0..Len(txt) : EMIT => PrintT(<<"FAULT", "inp_str", v, t, IF InpStr(SubSeq(txt, 1, t), 10).ok THEN "ok" ELSE "fail">>)
ASSUME PrintT(<<"IOModel", VMAX, SMAX>>)
VARIABLE dummy
Spec == dummy = 0 /\ [][UNCHANGED dummy]_dummy
=============================================================================
