------------------------------ MODULE MpfAddSub ------------------------------
(***************************************************************************)
(* R2 model for C13 (float accuracy) and C04/C05 (format, stores, input     *)
(* preservation): the limb-level code of mpf/add.c, mpf/sub.c, mpf/set.c,   *)
(* mpf/neg.c, mpf/ui_sub.c, mpf/sub_ui.c, mpf/add_ui.c, mpf/mul.c and the   *)
(* size handling of mpf/div.c, TRANSCRIBED one LET-step per C statement     *)
(* (names = the C variables) at limb width W (B = 2^W) over ONE memory:     *)
(* u, v, r and the TMP_ALLOC block tp are address ranges of `m`, pointers   *)
(* are integers, `up += k` is an addition, r may be the same object as u    *)
(* or v (Aliases).  Cells outside an allocation hold GUARD, allocated but   *)
(* unwritten cells POISON; the mpn primitives propagate POISON, so a read   *)
(* of an uninitialised or foreign limb that reaches the result is seen.     *)
(*                                                                         *)
(* For every function in Funs, every destination precision in PRECS (the    *)
(* _mp_prec FIELD, so mpf_get_prec = W*(prec-1) bits, SemF!PrecBits), every *)
(* pair of operands of 0..prec+XS limbs over LIMBS with non-zero top limb,   *)
(* all four sign pairs, every exponent difference -(prec+3)..prec+3 and     *)
(* every alias in Aliases, TLC checks                                      *)
(*  (a) format: |size| <= prec+1, limbs in 0..B-1, top limb # 0, zero has   *)
(*      size 0 AND exponent 0;                                             *)
(*  (b) SemF!AccurateDy / AccurateQuot -- literally the operators the trace *)
(*      oracle applies in PostF: |R-X| < 2^(2-p)|X| and R = X when the      *)
(*      operands and X fit in p bits;                                      *)
(*  (c) stores: every write inside r's prec+1 limbs or the TMP_ALLOC block, *)
(*      operands that are not the destination unchanged, the mpn calls      *)
(*      inside their stated domains (mpn_add: xsize >= ysize >= 0;          *)
(*      mpn_sub_n/_1, mpn_add_1: n >= 1).                                   *)
(* Variant "ok" is the code in /repo (which contains 26449ed and 9436ebe);  *)
(* every other value flips one step and must be rejected.                   *)
(***************************************************************************)
EXTENDS Naturals, Integers, Sequences, FiniteSets, TLC, SemF
CONSTANTS W,          \* limb width in bits
          PRECS,      \* set of r->_mp_prec values
          LIMBS,      \* limb alphabet (0..B-1 for "all contents")
          Funs,       \* subset of {"add","sub","ui_sub","sub_ui","add_ui","mul","div"}
          Aliases,    \* subset of {"none","ru","rv","ruv"}
          USigns,     \* signs of u: {1,-1}, or {1} (v still takes both signs: every code path is reached, only the final "negate" twin is dropped)
          XS,         \* operands have 0..prec+XS limbs (2: up to one limb more than r can hold; 3: reaches the truncation inside "cancellation")
          Checker,    \* "semf": SemF!AccurateDy on hex-string dyadics (any W) | "int": the same rule on TLC integers (spans below 31 bits) | "both": both, and they must agree
          Variant

BB == 2 ^ W
MAXL == BB - 1                                   \* GMP_NUMB_MAX
AbsI(x) == IF x < 0 THEN -x ELSE x
MaxI2(a, b) == IF a > b THEN a ELSE b
MinI2(a, b) == IF a < b THEN a ELSE b

(* ------------------------------ memory ------------------------------ *)
(* one tuple; address a lives at index a + OFF.  Address -2 is the error cell (set by a store outside the address   *)
(* space, a negative count, an mpn call outside its domain), -1 a guard cell (so that up[usize-1] with usize = 0     *)
(* reads a guard), then four regions of 8 cells: u, v, r (when r is a third object), tp.                             *)
OFF == 3
UB == 0   VB == 8   RB == 16   TB == 24   AMAX == 31
GUARD == -2   POISON == -1
G(m, a) == m[a + OFF]
Fail(m) == [m EXCEPT ![1] = 1]
Wr1(m, a, x) == IF a >= 0 /\ a <= AMAX THEN [m EXCEPT ![a + OFF] = x] ELSE Fail(m)
(* value of the n limbs at p (Horner from the top); -1 when one of them is not a limb (poison / guard) *)
RECURSIVE ValM(_, _, _, _)
ValM(m, p, n, acc) == IF n <= 0 THEN acc ELSE LET x == G(m, p + n - 1) IN IF x < 0 THEN -1 ELSE ValM(m, p, n - 1, acc * BB + x)
RECURSIVE WrVal(_, _, _, _)
WrVal(m, p, v, n) == IF n <= 0 THEN m ELSE WrVal(Wr1(m, p, v % BB), p + 1, v \div BB, n - 1)
RECURSIVE FillM(_, _, _, _)
FillM(m, p, n, x) == IF n <= 0 THEN m ELSE FillM(Wr1(m, p, x), p + 1, n - 1, x)
Fill(m, p, n, x) == IF n < 0 THEN Fail(m) ELSE FillM(m, p, n, x)                             \* MPN_ZERO and the "tp[i] = GMP_NUMB_MAX" loop
(* MPN_COPY_INCR / MPN_COPY / the "for (i...) tp[i] = up[i]" loops: limb by limb upward over the one memory *)
RECURSIVE CopyIncr(_, _, _, _)
CopyIncr(m, d, s, n) == IF n <= 0 THEN (IF n < 0 THEN Fail(m) ELSE m) ELSE CopyIncr(Wr1(m, d, G(m, s)), d + 1, s + 1, n - 1)
(* tp[i] = ~vp[i] & GMP_NUMB_MASK for lo <= i < hi *)
RECURSIVE Compl(_, _, _, _, _)
Compl(m, tp, vp, lo, hi) == IF lo >= hi THEN m ELSE LET x == G(m, vp + lo) IN Compl(Wr1(m, tp + lo, IF x < 0 THEN POISON ELSE MAXL - x), tp, vp, lo + 1, hi)
(* tp[0] = -vp[0] & GMP_NUMB_MASK; for (i = 1; i < n; i++) tp[i] = ~vp[i] & GMP_NUMB_MASK *)
NegLow(m, tp, vp, n) == LET x == G(m, vp) IN Compl(Wr1(m, tp, IF x < 0 THEN POISON ELSE (BB - x) % BB), tp, vp, 1, n)
TmpAlloc(m, n) == FillM(m, TB, n, POISON)

(* mpn primitives: all operands read, then the result stored (operands are identical to or separate from the destination) *)
MpnAdd(m, rp, ap, an, bp, bn) ==            \* mpir.h __GMPN_AORS: "ASSERT ((ysize) >= 0); ASSERT ((xsize) >= (ysize))"
   LET a == ValM(m, ap, an, 0)  b == ValM(m, bp, bn, 0)  s == a + b  M == BB ^ an IN
   IF an < bn \/ bn < 0 \/ an < 1 THEN [m |-> Fail(m), cy |-> 0]
   ELSE IF a < 0 \/ b < 0 THEN [m |-> FillM(m, rp, an, POISON), cy |-> 0]
   ELSE [m |-> WrVal(m, rp, s % M, an), cy |-> s \div M]
MpnSub(m, rp, ap, an, bp, bn) ==
   LET a == ValM(m, ap, an, 0)  b == ValM(m, bp, bn, 0)  d == a - b  M == BB ^ an IN
   IF an < bn \/ bn < 0 \/ an < 1 THEN [m |-> Fail(m), cy |-> 0]
   ELSE IF a < 0 \/ b < 0 THEN [m |-> FillM(m, rp, an, POISON), cy |-> 0]
   ELSE [m |-> WrVal(m, rp, (d + M) % M, an), cy |-> IF d < 0 THEN 1 ELSE 0]
MpnSubN(m, rp, ap, bp, n) == MpnSub(m, rp, ap, n, bp, n)                          \* n >= 1
MpnSub1(m, rp, ap, n, c) ==
   LET a == ValM(m, ap, n, 0)  d == a - c  M == BB ^ n IN
   IF n < 1 THEN [m |-> Fail(m), cy |-> 0]
   ELSE IF a < 0 THEN [m |-> FillM(m, rp, n, POISON), cy |-> 0]
   ELSE [m |-> WrVal(m, rp, (d + M) % M, n), cy |-> IF d < 0 THEN 1 ELSE 0]
MpnAdd1(m, rp, ap, n, c) ==
   LET a == ValM(m, ap, n, 0)  s == a + c  M == BB ^ n IN
   IF n < 1 THEN [m |-> Fail(m), cy |-> 0]
   ELSE IF a < 0 THEN [m |-> FillM(m, rp, n, POISON), cy |-> 0]
   ELSE [m |-> WrVal(m, rp, s % M, n), cy |-> s \div M]

(* A float operand is [d (address of limb 0), size (signed), exp]; the destination is [d, prec, size, exp].   *)
(* A call returns [m, size, exp, talloc]: memory, r->_mp_size, r->_mp_exp and the TMP_ALLOC size.             *)
Ret(m, size, exp, talloc) == [m |-> m, size |-> size, exp |-> exp, talloc |-> talloc]

(* ------------------------------ mpf/set.c, mpf/neg.c ------------------------------ *)
MpfSet(m, r, u) ==
   LET prec == r.prec + 1                    \* "lie not to lose precision in assignment"
       size == u.size
       asize0 == AbsI(size)
       cut == asize0 > prec /\ Variant # "set_no_truncate"
       up == IF cut THEN u.d + asize0 - prec ELSE u.d
       asize == IF cut THEN prec ELSE asize0
   IN Ret(CopyIncr(m, r.d, up, asize), IF size >= 0 THEN asize ELSE -asize, u.exp, 0)
MpfNeg(m, r, u) ==
   LET size == -u.size IN
   IF r.d # u.d
   THEN LET prec == r.prec + 1
            asize0 == AbsI(size)
            cut == asize0 > prec
            up == IF cut THEN u.d + asize0 - prec ELSE u.d
            asize == IF cut THEN prec ELSE asize0
        IN Ret(CopyIncr(m, r.d, up, asize), IF size >= 0 THEN asize ELSE -asize, u.exp, 0)
   ELSE Ret(m, size, u.exp, 0)

(* ------------------------------ mpf/sub.c ------------------------------ *)
(* done: r->_mp_size = negate ? -rsize : rsize; if (rsize == 0) exp = 0; r->_mp_exp = exp; *)
SubDone(m, negate, rsize, exp, talloc) ==
   Ret(m, IF negate THEN -rsize ELSE rsize, IF rsize = 0 /\ Variant # "no_exp_reset_on_zero" THEN 0 ELSE exp, talloc)

(* normalize: while (rsize != 0 && tp[rsize - 1] == 0) { rsize--; exp--; }  MPN_COPY (rp, tp, rsize); *)
SubNormalize(m, r, negate, rsize0, exp0, talloc) ==
   LET tp == TB
       RECURSIVE Strip(_, _)
       Strip(rs, e) == IF rs # 0 /\ G(m, tp + rs - 1) = 0 THEN Strip(rs - 1, IF Variant = "normalize_keeps_exp" THEN e ELSE e - 1) ELSE <<rs, e>>
       st == IF Variant = "no_normalize" THEN <<rsize0, exp0>> ELSE Strip(rsize0, exp0)
   IN SubDone(CopyIncr(m, r.d, tp, st[1]), negate, st[1], st[2], talloc)

(* cancellation: "strip high zeros before truncating to prec"; MPN_COPY_INCR (rp, vp, vsize); rsize = vsize; goto done *)
SubCancellation(m, r, vp0, vsize0, exp0, negate, prec) ==
   LET RECURSIVE StripZ(_, _, _)
       StripZ(p, vs, e) == IF vs # 0 /\ G(m, p + vs - 1) = 0 THEN StripZ(p, vs - 1, e - 1) ELSE <<vs, e>>
       Trunc(p, vs) == IF vs > prec THEN <<p + vs - prec, prec>> ELSE <<p, vs>>
       fin == IF Variant = "truncate_before_cancel"
              THEN LET tr == Trunc(vp0, vsize0)  st == StripZ(tr[1], tr[2], exp0) IN <<tr[1], st[1], st[2]>>
              ELSE LET st == StripZ(vp0, vsize0, exp0)  tr == Trunc(vp0, st[1]) IN <<tr[1], tr[2], st[2]>>
       vp == fin[1]  vsize == fin[2]  exp == fin[3]
   IN SubDone(CopyIncr(m, r.d, vp, vsize), negate, vsize, exp, 0)

(* general_case *)
SubGeneral(m, r, up0, usize0, vp0, vsize0, exp, ediff, negate, prec) ==
   LET \* "If U extends beyond PREC, ignore the part that does."
       cutU == usize0 > prec
       up1 == IF cutU /\ Variant # "copy_low_limbs" THEN up0 + usize0 - prec ELSE up0
       usize1 == IF cutU THEN prec ELSE usize0
       \* "If V extends beyond PREC, ignore the part that does.  Note that this may make vsize negative."
       cutV == vsize0 + ediff > prec
       vp1 == IF cutV THEN vp0 + vsize0 + ediff - prec ELSE vp0
       vsize1 == IF cutV THEN prec - ediff ELSE vsize0
       m1 == TmpAlloc(m, prec)
       tp == TB
   IN
   IF ediff >= prec
   THEN SubDone(CopyIncr(m1, r.d, up1, usize1), negate, usize1, exp, prec)                  \* "V completely cancelled."
   ELSE
     LET \* "Locate the least significant non-zero limb in (the needed parts of) U and V"
         RECURSIVE Low(_, _)
         Low(p, n) == IF n = 0 THEN <<p, 0>> ELSE IF G(m1, p) # 0 THEN <<p, n>> ELSE Low(p + 1, n - 1)
         lv == Low(vp1, vsize1)
     IN
     IF lv[2] = 0 THEN SubDone(CopyIncr(m1, r.d, up1, usize1), negate, usize1, exp, prec)
     ELSE
     LET lu == Low(up1, usize1) IN
     IF lu[2] = 0 THEN SubDone(CopyIncr(m1, r.d, lv[1], lv[2]), ~negate, lv[2], exp, prec)
     ELSE
     LET up == lu[1]  usize == lu[2]  vp == lv[1]  vsize == lv[2]
         res ==
           IF usize > ediff
           THEN IF ediff = 0
                THEN IF usize >= vsize
                     THEN LET size == usize - vsize                                          \* uuuu / vv
                              m2 == CopyIncr(m1, tp, up, size)
                              s == MpnSubN(m2, tp + size, up + size, vp, vsize)
                          IN [m |-> s.m, rsize |-> usize]
                     ELSE LET size == vsize - usize                                          \* uuuu / vvvvvvv
                              m2 == NegLow(m1, tp, vp, size)
                              s1 == MpnSubN(m2, tp + size, up, vp + size, usize)
                              s2 == IF Variant = "no_borrow_from_low" THEN s1 ELSE MpnSub1(s1.m, tp + size, tp + size, usize, 1)
                          IN [m |-> s2.m, rsize |-> vsize]
                ELSE IF vsize + ediff <= usize
                     THEN LET size == usize - ediff - vsize                                  \* uuuu /   v
                              m2 == CopyIncr(m1, tp, up, size)
                              s == MpnSub(m2, tp + size, up + size, usize - size, vp, vsize)
                          IN [m |-> s.m, rsize |-> usize]
                     ELSE LET size == vsize + ediff - usize                                  \* uuuu /   vvvvv
                              m2 == NegLow(m1, tp, vp, size)
                              s1 == MpnSub(m2, tp + size, up, usize, vp + size, usize - ediff)
                              s2 == IF Variant = "no_borrow_from_low" THEN s1 ELSE MpnSub1(s1.m, tp + size, tp + size, usize, 1)
                          IN [m |-> s2.m, rsize |-> vsize + ediff]
           ELSE LET size == vsize + ediff - usize                                            \* uuuu /      vv
                    m2 == NegLow(m1, tp, vp, vsize)
                    m3 == Fill(m2, tp + vsize, size - vsize, IF Variant = "gap_zero_fill" THEN 0 ELSE MAXL)
                    s == MpnSub1(m3, tp + size, up, usize, 1)
                IN [m |-> s.m, rsize |-> size + usize]
     IN SubNormalize(res.m, r, negate, res.rsize, exp, prec)

(* the code after the ediff == 0 / ediff == 1 tests: "Skip sequences of 00000000/ffffffff" ... goto normalize *)
SubSpecial(m, r, up0, usize0, vp0, vsize0, exp0, negate, prec) ==
   LET RECURSIVE Skip(_, _, _)
       Skip(us, vs, e) == IF vs # 0 /\ us # 0 /\ G(m, up0 + us - 1) = 0 /\ G(m, vp0 + vs - 1) = MAXL
                          THEN Skip(us - 1, vs - 1, IF Variant = "exp_not_decremented" THEN e ELSE e - 1) ELSE <<us, vs, e>>
       sk == Skip(usize0, vsize0, exp0)
       RECURSIVE SkipF(_, _)
       SkipF(vs, e) == IF vs # 0 /\ G(m, vp0 + vs - 1) = MAXL THEN SkipF(vs - 1, e - 1) ELSE <<vs, e>>
       sf == IF sk[1] = 0 THEN SkipF(sk[2], sk[3]) ELSE <<sk[2], sk[3]>>
       usize1 == sk[1]  vsize1 == sf[1]  exp1 == sf[2]
       cutU == usize1 > prec - 1
       up == IF cutU THEN up0 + usize1 - (prec - 1) ELSE up0
       usize == IF cutU THEN prec - 1 ELSE usize1
       cutV == vsize1 > prec - 1
       vp == IF cutV THEN vp0 + vsize1 - (prec - 1) ELSE vp0
       vsize == IF cutV THEN prec - 1 ELSE vsize1
       m1 == TmpAlloc(m, prec)
       tp == TB
   IN
   IF vsize = 0
   THEN LET size == usize
            m2 == CopyIncr(m1, tp, up, size)
            m3 == Wr1(m2, tp + size, 1)
        IN SubNormalize(m3, r, negate, size + 1, exp1 + 1, prec)
   ELSE IF usize = 0
   THEN LET m2 == Compl(m1, tp, vp, 0, vsize)
            a == MpnAdd1(m2, tp, tp, vsize, 1)
            cy_limb == 1 - a.cy
        IN IF cy_limb = 0 THEN SubNormalize(Wr1(a.m, tp + vsize, 1), r, negate, vsize + 1, exp1 + 1, prec)
           ELSE SubNormalize(a.m, r, negate, vsize, exp1, prec)
   ELSE
     LET res == IF usize >= vsize
                THEN LET size == usize - vsize                                               \* uuuu / vv
                         m2 == CopyIncr(m1, tp, up, size)
                         s == MpnSubN(m2, tp + size, up + size, vp, vsize)
                     IN [m |-> s.m, cy |-> s.cy, rsize |-> usize]
                ELSE LET size == vsize - usize                                               \* uuuu / vvvvvvv
                         m2 == Compl(m1, tp, vp, 0, size)
                         s1 == MpnSubN(m2, tp + size, up, vp + size, usize)
                         s2 == MpnSub1(s1.m, tp + size, tp + size, usize, 1)
                         s3 == MpnAdd1(s2.m, tp, tp, vsize, 1)
                     IN [m |-> s3.m, cy |-> s1.cy + s2.cy - s3.cy, rsize |-> vsize]
     IN IF (res.cy = 0) # (Variant = "special_cy_inverted")
        THEN SubNormalize(Wr1(res.m, tp + res.rsize, 1), r, negate, res.rsize + 1, exp1 + 1, prec)
        ELSE SubNormalize(res.m, r, negate, res.rsize, exp1, prec)

(* mpf_sub after "Signs are now known to be the same." *)
SubSame(m, r, u0, v0) ==
   LET negate0 == u0.size < 0
       \* "Make U be the operand with the largest exponent."
       swap == u0.exp < v0.exp
       u == IF swap THEN v0 ELSE u0
       v == IF swap THEN u0 ELSE v0
       negate == IF swap /\ Variant # "no_negate_on_swap" THEN ~negate0 ELSE negate0
       usize == AbsI(u.size)
       vsize == AbsI(v.size)
       up == u.d
       vp == v.d
       prec == IF Variant = "sub_prec_plus2" THEN r.prec + 2 ELSE r.prec + 1
       exp == u.exp
       ediff == u.exp - v.exp
   IN
   IF ediff = 0 /\ Variant # "no_close_operands_path"
   THEN LET \* "Skip leading limbs in U and V that are equal." (do ... while)
            RECURSIVE Loop(_, _, _)
            Loop(us, vs, e) == LET us1 == us - 1  vs1 == vs - 1  e1 == e - 1 IN
                               IF us1 = 0 THEN <<"u0", us1, vs1, e1>>
                               ELSE IF vs1 = 0 THEN <<"v0", us1, vs1, e1>>
                               ELSE IF G(m, up + us1 - 1) = G(m, vp + vs1 - 1) THEN Loop(us1, vs1, e1) ELSE <<"go", us1, vs1, e1>>
            lp == IF G(m, up + usize - 1) = G(m, vp + vsize - 1) THEN Loop(usize, vsize, exp) ELSE <<"go", usize, vsize, exp>>
        IN
        IF lp[1] = "u0" THEN SubCancellation(m, r, vp, lp[3], lp[4], ~negate, prec)          \* "u cancels high limbs of v, result is rest of v": negate ^= 1
        ELSE IF lp[1] = "v0" THEN SubCancellation(m, r, up, lp[2], lp[4], negate, prec)      \* vp = up; vsize = usize; goto cancellation
        ELSE
        LET usize1 == lp[2]  vsize1 == lp[3]  exp1 == lp[4]
            \* "For simplicity, swap U and V." MPN_SRCPTR_SWAP; negate ^= 1
            sw == G(m, up + usize1 - 1) < G(m, vp + vsize1 - 1)
            up2 == IF sw THEN vp ELSE up      usize2 == IF sw THEN vsize1 ELSE usize1
            vp2 == IF sw THEN up ELSE vp      vsize2 == IF sw THEN usize1 ELSE vsize1
            negate2 == IF sw /\ Variant # "no_negate_on_limb_swap" THEN ~negate ELSE negate
        IN \* "Check for x+1 00000000 ... / x ffffffff ..."
           IF G(m, up2 + usize2 - 1) # G(m, vp2 + vsize2 - 1) + 1
           THEN SubGeneral(m, r, up2, usize2, vp2, vsize2, exp1, ediff, negate2, prec)
           ELSE SubSpecial(m, r, up2, usize2 - 1, vp2, vsize2 - 1, exp1 - 1, negate2, prec)
   ELSE IF ediff = 1 /\ Variant # "no_close_operands_path"
   THEN \* "Check for 1 00000000 ... / 0 ffffffff ..."
        IF G(m, up + usize - 1) # 1 \/ G(m, vp + vsize - 1) # MAXL \/ (Variant # "no_second_limb_check" /\ usize >= 2 /\ G(m, up + usize - 2) # 0)
        THEN SubGeneral(m, r, up, usize, vp, vsize, exp, ediff, negate, prec)
        ELSE SubSpecial(m, r, up, usize - 1, vp, vsize, exp - 1, negate, prec)
   ELSE SubGeneral(m, r, up, usize, vp, vsize, exp, ediff, negate, prec)

(* ------------------------------ mpf/add.c ------------------------------ *)
AddSame(m, r, u0, v0) ==
   LET negate == u0.size < 0
       swap == u0.exp < v0.exp
       u == IF swap THEN v0 ELSE u0
       v == IF swap THEN u0 ELSE v0
       usize0 == AbsI(u.size)
       vsize0 == AbsI(v.size)
       rp == r.d
       prec == IF Variant = "add_prec_plus1" THEN r.prec + 1 ELSE r.prec
       uexp == u.exp
       ediff == u.exp - v.exp
       cutU == usize0 > prec
       up == IF cutU /\ Variant # "add_copy_low_limbs" THEN u.d + usize0 - prec ELSE u.d
       usize == IF cutU THEN prec ELSE usize0
       cutV == vsize0 + ediff > prec /\ Variant # "add_v_not_truncated"
       vp == IF cutV THEN v.d + vsize0 + ediff - prec ELSE v.d
       vsize == IF cutV THEN prec - ediff ELSE vsize0
       m1 == TmpAlloc(m, prec)
       tp == IF Variant = "add_direct_rp" THEN rp ELSE TB
   IN
   IF ediff >= prec
   THEN LET m2 == IF rp # up THEN CopyIncr(m1, rp, up, usize) ELSE m1 IN                     \* "V completely cancelled."
        Ret(m2, IF negate THEN -usize ELSE usize, uexp, prec)
   ELSE
     LET res ==
           IF usize > ediff
           THEN IF vsize + ediff <= usize
                THEN LET size == usize - ediff - vsize                                       \* uuuu /   v
                         m2 == CopyIncr(m1, tp, up, size)
                         s == MpnAdd(m2, tp + size, up + size, usize - size, vp, vsize)
                     IN [m |-> s.m, cy |-> s.cy, rsize |-> usize]
                ELSE LET size == vsize + ediff - usize                                       \* uuuu /   vvvvv
                         m2 == CopyIncr(m1, tp, vp, size)
                         s == MpnAdd(m2, tp + size, up, usize, vp + size, usize - ediff)
                     IN [m |-> s.m, cy |-> s.cy, rsize |-> vsize + ediff]
           ELSE LET size == vsize + ediff - usize                                            \* uuuu /      vv
                    m2 == CopyIncr(m1, tp, vp, vsize)
                    m3 == IF Variant = "add_no_zero_gap" THEN m2 ELSE Fill(m2, tp + vsize, ediff - usize, 0)
                    m4 == CopyIncr(m3, tp + size, up, usize)
                IN [m |-> m4, cy |-> 0, rsize |-> size + usize]
         m5 == CopyIncr(res.m, rp, tp, res.rsize)
         m6 == Wr1(m5, rp + res.rsize, res.cy)                                               \* rp[rsize] = cy, unconditionally
         rsize == res.rsize + res.cy
         uexp2 == IF Variant = "add_no_carry_exp" THEN uexp ELSE uexp + res.cy
     IN Ret(m6, IF negate THEN -rsize ELSE rsize, uexp2, prec)

(* mpf_add / mpf_sub: zero operands, sign dispatch (each negates v into a local struct sharing v's limbs and calls the other) *)
Same(m, r) == Ret(m, r.size, r.exp, 0)                                                        \* return without touching r
NegOf(v) == [v EXCEPT !.size = -@]
MpfAdd(m, r, u, v) ==
   IF u.size = 0 THEN (IF r.d # v.d THEN MpfSet(m, r, v) ELSE Same(m, r))                    \* set_r_v_maybe
   ELSE IF v.size = 0 THEN (IF r.d # u.d THEN MpfSet(m, r, u) ELSE Same(m, r))
   ELSE IF (u.size < 0) # (v.size < 0) THEN SubSame(m, r, u, NegOf(v))                       \* mpf_sub (r, u, &v_negated): neither zero, signs equal there
   ELSE AddSame(m, r, u, v)
MpfSub(m, r, u, v) ==
   IF u.size = 0 THEN MpfNeg(m, r, v)
   ELSE IF v.size = 0 THEN (IF r.d # u.d THEN MpfSet(m, r, u) ELSE Same(m, r))
   ELSE IF (u.size < 0) # (v.size < 0) THEN AddSame(m, r, u, NegOf(v))
   ELSE SubSame(m, r, u, v)

(* ------------------------------ the obligations ------------------------------ *)
E0 == 9                                               \* exponent of v (limbs); u has E0 + ediff
Mants(n) == IF n = 0 THEN {<<>>} ELSE {s \in [1..n -> LIMBS] : s[n] # 0}
RECURSIVE ValS(_, _, _)
ValS(s, n, acc) == IF n = 0 THEN acc ELSE ValS(s, n - 1, acc * BB + s[n])
DyOf(d, sgn, exp) == <<ZFromInt(sgn * ValS(d, Len(d), 0)), W * (exp - Len(d))>>
PBits(prec) == W * prec - W                           \* SemF!PrecBits with the limb width W

PadTo(s, n, x) == s \o [i \in 1..(n - Len(s)) |-> x]
(* region of an operand: its limbs, POISON up to prec+1 limbs when the destination is this object, GUARD up to 8 *)
Region(d, isR, prec) == PadTo(IF isR THEN PadTo(d, prec + 1, POISON) ELSE d, 8, GUARD)
InitMem(ud, vd, ub, vb, rb, prec) ==
   <<0, GUARD>> \o Region(ud, rb = UB, prec) \o Region(IF vb = VB THEN vd ELSE <<>>, rb = VB, prec) \o Region(<<>>, rb = RB, prec) \o Region(<<>>, FALSE, prec)

(* result format + stores; out = [m, size, exp, talloc] *)
FormatOK(out, rb, prec) ==
   LET n == AbsI(out.size) IN
   /\ n <= prec + 1
   /\ \A i \in 0..(n - 1) : G(out.m, rb + i) >= 0 /\ G(out.m, rb + i) <= MAXL
   /\ n > 0 => G(out.m, rb + n - 1) # 0
   /\ n = 0 => out.exp = 0
SameCells(m1, m2, lo, hi) == lo > hi \/ SubSeq(m1, lo + OFF, hi + OFF) = SubSeq(m2, lo + OFF, hi + OFF)
StoresOK(out, m0, rb, prec) ==
   /\ out.m[1] = 0 /\ Len(out.m) = Len(m0)
   /\ SameCells(out.m, m0, -1, rb - 1)                              \* operands below r (all of u, v when r is a third object)
   /\ SameCells(out.m, m0, rb + prec + 1, TB - 1)                   \* beyond r's prec+1 limbs
   /\ SameCells(out.m, m0, TB + out.talloc, AMAX)                   \* beyond the TMP_ALLOC block
ResultDy(out, rb) == LET n == AbsI(out.size) IN <<ZFromInt((IF out.size < 0 THEN -1 ELSE 1) * ValM(out.m, rb, n, 0)), W * (out.exp - n)>>

Bases(alias) == CASE alias = "none" -> <<UB, VB, RB>> [] alias = "ru" -> <<UB, VB, UB>> [] alias = "rv" -> <<UB, VB, VB>> [] alias = "ruv" -> <<UB, UB, UB>>

(* SemF!Close / SemF!AccurateDy / SemF!DySigBits restated on TLC integers: signed mantissas rv, uv, vv with bit exponents er, eu, ev. *)
(* d * 2^(p-2) < x  is evaluated as  d <= (x-1) div 2^(p-2)  so that nothing grows.                                                 *)
RECURSIVE BitLenI(_)
BitLenI(x) == IF x = 0 THEN 0 ELSE 1 + BitLenI(x \div 2)
RECURSIVE OddPart(_)
OddPart(x) == IF x % 2 = 0 THEN OddPart(x \div 2) ELSE x
SigBitsI(x) == IF x = 0 THEN 0 ELSE BitLenI(OddPart(AbsI(x)))
AccurateInt(rv, er0, uv, eu0, vv, ev0, isSub, p) ==
   LET eu == IF uv = 0 THEN ev0 ELSE eu0
       ev == IF vv = 0 THEN eu ELSE ev0
       eo == MinI2(eu, ev)
       er == IF rv = 0 THEN eo ELSE er0
       e == MinI2(eo, er)
       Xi == uv * 2 ^ (eu - e) + (IF isSub THEN -vv ELSE vv) * 2 ^ (ev - e)
       Ri == rv * 2 ^ (er - e)
       d == AbsI(Ri - Xi)
   IN IF e < eo - 3 * W \/ er > eo + 40 THEN FALSE                                  \* an exponent far outside the operands' span (only variants get here)
      ELSE /\ IF Xi = 0 THEN Ri = 0 ELSE d <= (AbsI(Xi) - 1) \div (2 ^ (p - 2))       \* Close
           /\ (SigBitsI(uv) <= p /\ SigBitsI(vv) <= p /\ SigBitsI(Xi) <= p) => Ri = Xi   \* exactness clause

(* one call of add / sub *)
CheckAors(fn, prec, alias, ud, su, vd, sv, ediff) ==
   LET bs == Bases(alias)
       u == [d |-> bs[1], size |-> su * Len(ud), exp |-> IF ud = <<>> THEN 0 ELSE E0 + ediff]
       v == [d |-> bs[2], size |-> sv * Len(vd), exp |-> IF vd = <<>> THEN 0 ELSE E0]
       ro == IF alias \in {"ru", "ruv"} THEN u ELSE IF alias = "rv" THEN v ELSE [size |-> 0, exp |-> 0]
       r == [d |-> bs[3], prec |-> prec, size |-> ro.size, exp |-> ro.exp]
       m0 == InitMem(ud, vd, bs[1], bs[2], bs[3], prec)
       out == IF fn = "add" THEN MpfAdd(m0, r, u, v) ELSE MpfSub(m0, r, u, v)
       U == DyOf(ud, su, u.exp)   V == DyOf(vd, sv, v.exp)
       X == IF fn = "add" THEN DyAdd(U, V) ELSE DySub(U, V)
       p == PBits(prec)
   IN /\ FormatOK(out, bs[3], prec)
      /\ StoresOK(out, m0, bs[3], prec)
      /\ LET n == AbsI(out.size)
             sem == AccurateDy(ResultDy(out, bs[3]), X, p, Fits(U, p) /\ Fits(V, p))
             int == AccurateInt((IF out.size < 0 THEN -1 ELSE 1) * ValM(out.m, bs[3], n, 0), W * (out.exp - n),
                                su * ValS(ud, Len(ud), 0), W * (u.exp - Len(ud)), sv * ValS(vd, Len(vd), 0), W * (v.exp - Len(vd)), fn = "sub", p)
         IN CASE Checker = "semf" -> sem [] Checker = "int" -> int [] Checker = "both" -> sem /\ int /\ Assert(sem = int, <<"checkers disagree", fn, prec, ud, su, vd, sv, ediff>>)

Witness(t) == PrintT(t) /\ FALSE

PMAX == CHOOSE p \in PRECS : \A q \in PRECS : q <= p
VARIABLES phase, par, ud
vars == <<phase, par, ud>>
Init == phase = 0 /\ par = <<>> /\ ud = <<>>
Pick == /\ phase = 0 /\ phase' = 1 /\ ud' = ud
        /\ par' \in {[fn |-> f, prec |-> p, usize |-> n, alias |-> a, ediff |-> e] :
                        f \in Funs \cap {"add", "sub"}, p \in PRECS, n \in 0..(PMAX + XS), a \in Aliases, e \in (-(PMAX + 3))..(PMAX + 3)}
        /\ par'.usize <= par'.prec + XS /\ AbsI(par'.ediff) <= par'.prec + 3
        /\ (par'.alias \in {"ru", "ruv"}) => par'.usize <= par'.prec + 1      \* an operand that IS r has at most prec+1 limbs
        /\ (par'.alias = "ruv") => par'.ediff = 0
Fill2 == /\ phase = 1 /\ phase' = 2 /\ par' = par
         /\ ud' \in Mants(par.usize)
Next == Pick \/ Fill2
Spec == Init /\ [][Next]_vars

Correct ==
   phase = 2 =>
     IF par.alias = "ruv"
     THEN \A s \in USigns : CheckAors(par.fn, par.prec, "ruv", ud, s, ud, s, 0) \/ Witness(<<"MpfAddSub", par, ud, s>>)
     ELSE \A vn \in 0..(par.prec + XS) : (par.alias = "rv" => vn <= par.prec + 1) =>
            \A vd \in Mants(vn), su \in USigns, sv \in {1, -1} :
               CheckAors(par.fn, par.prec, par.alias, ud, su, vd, sv, par.ediff) \/ Witness(<<"MpfAddSub", par, ud, su, vd, sv>>)
=============================================================================
