------------------------------ MODULE MpzAors ------------------------------
(***************************************************************************)
(* R2 model for C03/C04/C05: mpz_add and mpz_sub (mpz/aors.h) transcribed  *)
(* statement by statement over the block store of Mem.tla: swap by size,   *)
(* wsize = abs_usize + 1 and _mpz_realloc, pointers fetched AFTER the      *)
(* realloc, compare-then-subtract, normalise, carry limb.  TLC checks for  *)
(* every identity triple (w,u,v) over three objects (all 27 alias          *)
(* patterns), every value in -V..V at limb base B and every allocation     *)
(* (exact or spare) that: no access goes through a dead or short block,    *)
(* the result is the exact signed sum/difference and well formed, the      *)
(* inputs that are not the destination are unchanged, no block is          *)
(* orphaned.  PtrBug / SizeBug switch in the two classic slips (pointers   *)
(* fetched before the realloc; wsize = abs_usize) to show the invariant    *)
(* discriminates.                                                          *)
(***************************************************************************)
EXTENDS Mem, TLC
CONSTANTS V, Variant      \* Variant \in {"ok", "ptr_before_realloc", "wsize_short", "no_normalize"}

MpnSubVal(a, b) == a - b          \* callers guarantee a >= b

MpzAors(st0, w, u0, v0, isSub) ==
   LET usize0 == st0.obj[u0].size
       vsize0 == IF isSub THEN -st0.obj[v0].size ELSE st0.obj[v0].size
       swap == AbsI(usize0) < AbsI(vsize0)
       u == IF swap THEN v0 ELSE u0
       v == IF swap THEN u0 ELSE v0
       usize == IF swap THEN vsize0 ELSE usize0
       vsize == IF swap THEN usize0 ELSE vsize0
       au == AbsI(usize)   av == AbsI(vsize)
       wsize0 == IF Variant = "wsize_short" THEN au ELSE au + 1
       \* pointers as the buggy variant would fetch them (before the realloc)
       upB == st0.obj[u].ptr   vpB == st0.obj[v].ptr   wpB == st0.obj[w].ptr
       s1 == IF st0.obj[w].alloc < wsize0 THEN MpzRealloc(st0, w, wsize0) ELSE st0
       up == IF Variant = "ptr_before_realloc" THEN upB ELSE s1.obj[u].ptr
       vp == IF Variant = "ptr_before_realloc" THEN vpB ELSE s1.obj[v].ptr
       wp == s1.obj[w].ptr
       s2 == RdOK(RdOK(s1, up, 0, au, "u"), vp, 0, av, "v")
       uval == NatOf(Rd(s2, up, 0, au))
       vval == NatOf(Rd(s2, vp, 0, av))
       differ == (usize < 0) # (vsize < 0) /\ usize # 0 /\ vsize # 0
       \* (usize ^ vsize) < 0 in C: sign bits differ; a zero size has sign bit 0
       cdiffer == (usize < 0) # (vsize < 0)
   IN  IF cdiffer
       THEN LET res == IF au # av THEN uval - vval
                       ELSE IF uval < vval THEN vval - uval ELSE uval - vval
                s3 == Wr(s2, wp, 0, LimbsOf(res, au))
                n  == IF Variant = "no_normalize" THEN au ELSE NLimbs(res)
                neg == IF au # av THEN usize < 0
                       ELSE IF uval < vval THEN usize >= 0 ELSE usize < 0
            IN  SetSize(s3, w, IF neg THEN -n ELSE n)
       ELSE LET sum == uval + vval
                cy  == sum \div (B ^ au)
                s3  == Wr(s2, wp, 0, LimbsOf(sum % (B ^ au), au))
                s4  == Wr(s3, wp, au, <<cy>>)              \* wp[abs_usize] = cy_limb
                n   == au + cy
            IN  SetSize(s4, w, IF usize < 0 THEN -n ELSE n)

Vals == (-V)..V
VARIABLES phase, args, vals, allocs, sub
vars == <<phase, args, vals, allocs, sub>>
Init == phase = 0 /\ args = <<1, 1, 1>> /\ vals = <<0, 0, 0>> /\ allocs = <<1, 1, 1>> /\ sub = FALSE
Pick == /\ phase = 0 /\ phase' = 1
        /\ args' \in {<<a, b, c>> : a \in 1..3, b \in 1..3, c \in 1..3}
        /\ sub' \in BOOLEAN /\ UNCHANGED <<vals, allocs>>
Fill == /\ phase = 1 /\ phase' = 2
        /\ vals' \in {<<a, b, c>> : a \in Vals, b \in Vals, c \in Vals}
        /\ allocs' \in {<<a, b, c>> : a \in 0..1, b \in 0..1, c \in 0..1}     \* spare limbs beyond max(1,size)
        /\ UNCHANGED <<args, sub>>
Next == Pick \/ Fill
Spec == Init /\ [][Next]_vars

Correct ==
   phase = 2 =>
     LET al  == [i \in 1..3 |-> MaxI(1, NLimbs(AbsI(vals[i]))) + allocs[i]]
         st0 == MkStore(vals, al)
         out == MpzAors(st0, args[1], args[2], args[3], sub)
         want == IF sub THEN vals[args[2]] - vals[args[3]] ELSE vals[args[2]] + vals[args[3]]
     IN  /\ out.err = {}
         /\ ObjVal(out, args[1]) = want
         /\ \A o \in 1..3 : WellFormedObj(out, o) /\ (o # args[1] => ObjVal(out, o) = vals[o])
         /\ NoOrphans(out)
=============================================================================
