-------------------------------- MODULE Mem --------------------------------
(***************************************************************************)
(* L1 support: a block store for memory-and-aliasing models of mpz code.   *)
(* Objects are records [alloc, size, ptr]; ptr indexes `blk`, a sequence   *)
(* of [live, data]; arguments of a modelled function are OBJECT IDS, so    *)
(* "the same variable" is literally the same id.  Every access through a   *)
(* dead or too-short block adds a message to `err`.  B is the limb base.   *)
(* Operator library: no VARIABLES.                                         *)
(***************************************************************************)
EXTENDS Naturals, Integers, Sequences, FiniteSets
CONSTANT B

AbsI(x) == IF x < 0 THEN -x ELSE x
MaxI(a, b) == IF a > b THEN a ELSE b
MinI(a, b) == IF a < b THEN a ELSE b
RECURSIVE NatOf(_)                  \* value of a little-endian limb sequence
NatOf(s) == IF s = <<>> THEN 0 ELSE s[1] + B * NatOf(Tail(s))
RECURSIVE LimbsOf(_, _)             \* n limbs of v
LimbsOf(v, n) == IF n = 0 THEN <<>> ELSE <<v % B>> \o LimbsOf(v \div B, n - 1)
RECURSIVE NLimbs(_)
NLimbs(v) == IF v = 0 THEN 0 ELSE 1 + NLimbs(v \div B)
Junk == B - 1                       \* content of fresh memory (a non-zero limb, so that reading it shows)

Flag(st, ok, msg) == IF ok THEN st ELSE [st EXCEPT !.err = @ \cup {msg}]
Live(st, p, n) == p \in 1..Len(st.blk) /\ st.blk[p].live /\ Len(st.blk[p].data) >= n
NewBlk(st, n) == [st EXCEPT !.blk = Append(@, [live |-> TRUE, data |-> [i \in 1..n |-> Junk]])]
LastId(st) == Len(st.blk)
FreeBlk(st, p, n) ==                \* free with the size the caller states: must be the block's size
   IF ~(p \in 1..Len(st.blk) /\ st.blk[p].live) THEN Flag(st, FALSE, "free of a dead block")
   ELSE Flag([st EXCEPT !.blk[p].live = FALSE], Len(st.blk[p].data) = n, "free with wrong size")
Rd(st, p, off, n) ==                \* limbs off+1..off+n (Junk where the access is illegal)
   [i \in 1..n |-> IF Live(st, p, off + n) THEN st.blk[p].data[off + i] ELSE Junk]
RdOK(st, p, off, n, who) == Flag(st, n = 0 \/ Live(st, p, off + n), who \o ": read through a dead or short block")
Wr(st, p, off, vals) ==
   IF Len(vals) = 0 THEN st
   ELSE IF ~Live(st, p, off + Len(vals)) THEN Flag(st, FALSE, "write through a dead or short block")
   ELSE [st EXCEPT !.blk[p].data = [i \in 1..Len(@) |-> IF i > off /\ i <= off + Len(vals) THEN vals[i - off] ELSE @[i]]]
(* _mpz_realloc (o, n): a new block, the old contents copied, the old block dies *)
MpzRealloc(st, o, n) ==
   LET old == st.obj[o].ptr
       keep == MinI(n, Len(st.blk[old].data))
       s1 == NewBlk(st, n)
       s2 == [s1 EXCEPT !.blk[LastId(s1)].data = [i \in 1..n |-> IF i <= keep THEN st.blk[old].data[i] ELSE Junk]]
   IN  [[s2 EXCEPT !.blk[old].live = FALSE] EXCEPT !.obj[o] = [alloc |-> n, size |-> @.size, ptr |-> LastId(s2)]]
SetSize(st, o, sz) == [st EXCEPT !.obj[o].size = sz]

(* an initial store with objects 1..Len(vals): object i holds vals[i] in a block of allocs[i] limbs *)
MkStore(vals, allocs) ==
   [blk |-> [i \in 1..Len(vals) |-> [live |-> TRUE,
                                     data |-> LimbsOf(AbsI(vals[i]), NLimbs(AbsI(vals[i]))) \o
                                              [k \in 1..(allocs[i] - NLimbs(AbsI(vals[i]))) |-> Junk]]],
    obj |-> [i \in 1..Len(vals) |-> [alloc |-> allocs[i],
                                     size |-> IF vals[i] < 0 THEN -NLimbs(-vals[i]) ELSE NLimbs(vals[i]),
                                     ptr |-> i]],
    err |-> {}]
ObjVal(st, o) == LET ob == st.obj[o]  n == AbsI(ob.size)
                     m == NatOf(Rd(st, ob.ptr, 0, n))
                 IN  IF ob.size < 0 THEN -m ELSE m
WellFormedObj(st, o) == LET ob == st.obj[o]  n == AbsI(ob.size) IN
   /\ n <= ob.alloc /\ Live(st, ob.ptr, ob.alloc) /\ Len(st.blk[ob.ptr].data) = ob.alloc
   /\ (n > 0 => st.blk[ob.ptr].data[n] # 0)
NoOrphans(st) == \A p \in 1..Len(st.blk) : st.blk[p].live => \E o \in DOMAIN st.obj : st.obj[o].ptr = p
=============================================================================
