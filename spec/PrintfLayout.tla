----------------------------- MODULE PrintfLayout -----------------------------
(***************************************************************************)
(* L2/R2 for C18: text layout of the integer conversions.                   *)
(*                                                                         *)
(* CPrintf is C99 7.19.6.1 for the conversions d i o x X applied to a       *)
(* signed value printed as sign and magnitude (for d, i and for             *)
(* non-negative o x X this IS the C library's output for the equal long;    *)
(* for negative o x X it is MPIR's documented extension: o/x/X are signed   *)
(* for Z/Q/N, so '+' and ' ' apply).  Flags: a record of booleans           *)
(* [minus, plus, space, hash, zero]; width = -1 when absent; prec = -1 when *)
(* absent or given as a bare "." (MPIR: "means not given").                 *)
(*                                                                         *)
(* GmpLayout is the transcription of printf/doprnt.c (flag parsing) and     *)
(* printf/doprnti.c (__gmp_doprnt_integer).  The model checks               *)
(* GmpLayout = CPrintf over the whole flag x width x precision x conversion *)
(* x value product (no exception), also with '*' arguments and a bare '.'. *)
(***************************************************************************)
EXTENDS Naturals, Integers, Sequences, TLC, BigZ
RECURSIVE Rep(_, _)
Rep(c, n) == IF n <= 0 THEN "" ELSE c \o Rep(c, n - 1)
HexL == "0123456789abcdef"
HexU == "0123456789ABCDEF"
DigStr(mag, conv) == CASE conv \in {"d", "i"} -> ZDigits(mag, 10, HexL)
                       [] conv = "o" -> ZDigits(mag, 8, HexL)
                       [] conv = "x" -> ZDigits(mag, 16, HexL)
                       [] conv = "X" -> ZDigits(mag, 16, HexU)

CPrintf(f, width, prec, conv, v) ==
  LET mag  == ZAbs(v)
      raw  == IF mag = "0" /\ prec = 0 THEN "" ELSE DigStr(mag, conv)
      dig0 == (IF prec > Len(raw) THEN Rep("0", prec - Len(raw)) ELSE "") \o raw
      dig  == IF f.hash /\ conv = "o" /\ (dig0 = "" \/ SubSeq(dig0, 1, 1) # "0") THEN "0" \o dig0 ELSE dig0
      pre  == IF f.hash /\ conv \in {"x", "X"} /\ mag # "0" THEN (IF conv = "x" THEN "0x" ELSE "0X") ELSE ""
      sign == IF ZIsNeg(v) THEN "-" ELSE IF f.plus THEN "+" ELSE IF f.space THEN " " ELSE ""
      body == sign \o pre \o dig
      padn == width - Len(body)
      zeroOK == f.zero /\ ~f.minus /\ prec = -1              \* 0 is ignored with '-' or with a precision
  IN IF padn <= 0 THEN body
     ELSE IF f.minus THEN body \o Rep(" ", padn)
     ELSE IF zeroOK THEN sign \o pre \o Rep("0", padn) \o dig
     ELSE Rep(" ", padn) \o body

(* ---- transcription of the implementation ---- *)
(* flag characters are processed in the order they appear in the format: fl is that sequence *)
RECURSIVE ParseFlags(_, _, _)
ParseFlags(fl, i, p) ==      \* p = [sign, justify, fill, showbase]
   IF i > Len(fl) THEN p
   ELSE LET c == fl[i] IN
        ParseFlags(fl, i + 1,
           CASE c = "#" -> [p EXCEPT !.showbase = TRUE]
             [] c = "+" -> [p EXCEPT !.sign = "+"]
             [] c = " " -> IF p.sign = "+" THEN p ELSE [p EXCEPT !.sign = " "]            \* doprnt.c: '+' wins over ' '
             [] c = "-" -> [p EXCEPT !.justify = "left", !.fill = " "]                   \* '-' overrides '0'
             [] c = "0" -> IF p.justify = "left" THEN p ELSE [p EXCEPT !.fill = "0", !.justify = "internal"])
GmpLayoutP(p0, width, prec, conv, v) ==
  LET s0 == DigStr(ZAbs(v), conv)
      sign == IF ZIsNeg(v) THEN "-" ELSE p0.sign
      s  == IF s0 = "0" /\ prec = 0 THEN "" ELSE s0            \* explicit precision 0: nothing for a 0 value
      zeros == IF prec - Len(s) > 0 THEN prec - Len(s) ELSE 0
      sb0 == IF ~p0.showbase THEN "" ELSE IF conv = "x" THEN "0x" ELSE IF conv = "X" THEN "0X" ELSE IF conv = "o" THEN "0" ELSE ""
      sb1 == IF (s # "" /\ SubSeq(s, 1, 1) = "0") \/ (s = "" /\ conv # "o") THEN "" ELSE sb0   \* SHOWBASE_NONZERO: no 0x/0X prefix on a zero value, also when
                                                               \* precision 0 has removed its digit (fix F-C18-5); for o the '#' still forces one "0" (C99)
      sb  == IF conv = "o" /\ zeros > 0 THEN "" ELSE sb1       \* precision already forces a leading zero
      \* with a precision the 0 flag is ignored for integer conversions
      fill == IF prec >= 0 THEN " " ELSE p0.fill
      just0 == IF prec >= 0 /\ p0.justify = "internal" THEN "right" ELSE p0.justify
      justlen == width - (Len(s) + Len(sign) + Len(sb) + zeros)
      just == IF justlen <= 0 THEN "none" ELSE just0
  IN (IF just = "right" THEN Rep(fill, justlen) ELSE "") \o sign \o sb \o Rep("0", zeros)
     \o (IF just = "internal" THEN Rep(fill, justlen) ELSE "") \o s \o (IF just = "left" THEN Rep(fill, justlen) ELSE "")

ParsedFlags(fl) == ParseFlags(fl, 1, [sign |-> "", justify |-> "right", fill |-> " ", showbase |-> FALSE])
GmpLayout(fl, width, prec, conv, v) == GmpLayoutP(ParsedFlags(fl), width, prec, conv, v)

(* ---- width and precision given as '*' arguments, and the bare '.' ----                                                                *)
(* Codes: width  -1 none | n >= 0 literal | 1000+n '*' with argument n | 2000+n '*' with argument -n                                    *)
(*        prec   -1 none | n >= 0 literal | 1000+n '*' with argument n | 2000+n '*' with argument -n (n > 0) | 3000 a bare '.'            *)
(* C99 7.19.6.1p5: "a negative field width argument is taken as a - flag followed by a positive field width. A negative precision        *)
(* argument is taken as if the precision were omitted."  p4: "if only the period is specified, the precision is taken as zero."          *)
(* The manual: width and precision "can be given ... as a * to take an extra parameter of type int, the same as the standard printf";   *)
(* "the precision field has it's usual meaning for integer Z".                                                                           *)
WidthOf(wc) == IF wc >= 2000 THEN wc - 2000 ELSE IF wc >= 1000 THEN wc - 1000 ELSE wc
PrecOf(pc) == IF pc = 3000 THEN 0 ELSE IF pc >= 2000 THEN -1 ELSE IF pc >= 1000 THEN pc - 1000 ELSE pc
CPrintfX(f, wc, pc, conv, v) == CPrintf(IF wc >= 2000 THEN [f EXCEPT !.minus = TRUE] ELSE f, WidthOf(wc), PrecOf(pc), conv, v)
(* doprnt.c: the '*' of a width is met after the flags: a negative argument sets left justification (and, like the '-' flag, cancels a     *)
(* '0' fill: fix F-C18-6); a negative precision argument restores "no precision" (fix F-C18-7); a bare '.' is precision 0 for the         *)
(* integer conversions (fix F-C18-8)                                                                                                    *)
GmpLayoutX(fl, wc, pc, conv, v) ==
  LET p0 == ParsedFlags(fl)
      p1 == IF wc >= 2000 THEN [p0 EXCEPT !.justify = "left", !.fill = " "] ELSE p0
  IN GmpLayoutP(p1, WidthOf(wc), PrecOf(pc), conv, v)

FlagRec(fl) == [minus |-> \E i \in DOMAIN fl : fl[i] = "-", plus |-> \E i \in DOMAIN fl : fl[i] = "+", space |-> \E i \in DOMAIN fl : fl[i] = " ",
                hash |-> \E i \in DOMAIN fl : fl[i] = "#", zero |-> \E i \in DOMAIN fl : fl[i] = "0"]
(* (an earlier version of this module exempted '#' with precision 0 on a zero value as a "documented deviation"; neither the manual nor the
   property documents it -- "%#.0Zx" of 0 printed "0x" where C prints nothing -- so the exemption is gone and the tree was repaired: F-C18-5) *)
DocumentedDeviation(fl, prec, v) == FALSE
=============================================================================
