package tlc2.module;

import java.math.BigInteger;
import tlc2.value.impl.BoolValue;
import tlc2.value.impl.IntValue;
import tlc2.value.impl.StringValue;
import tlc2.value.impl.TupleValue;
import tlc2.value.impl.Value;

/*
 * TLC module overrides for BigZ.tla: accelerators backed by java.math.BigInteger.
 * Every operator here has a normative pure-TLA+ definition in BigZ.tla; MC_L0Equiv.tla checks
 * override = definition on every run of every check, and each check re-validates a size-capped
 * subset of its events with this class absent from the class path ("pure mode").
 *
 * Integers cross the boundary as hexadecimal strings: "0", "ff", "-1a2b" (lower case, no leading zeros).
 */
public class BigZ {
    public static final long serialVersionUID = 20260929L;

    static BigInteger Z(Value v) {
        if (v instanceof IntValue) return BigInteger.valueOf(((IntValue) v).val);
        String s = ((StringValue) v).val.toString();
        return new BigInteger(s, 16);
    }
    static int I(Value v) {
        if (v instanceof IntValue) return ((IntValue) v).val;
        return Z(v).intValueExact();
    }
    static Value S(BigInteger b) { return new StringValue(b.toString(16)); }
    static Value N(int i) { return IntValue.gen(i); }
    static Value T(Value... vs) { return new TupleValue(vs); }

    public static Value ZAdd(Value a, Value b) { return S(Z(a).add(Z(b))); }
    public static Value ZSub(Value a, Value b) { return S(Z(a).subtract(Z(b))); }
    public static Value ZMul(Value a, Value b) { return S(Z(a).multiply(Z(b))); }
    public static Value ZNeg(Value a) { return S(Z(a).negate()); }
    public static Value ZAbs(Value a) { return S(Z(a).abs()); }
    public static Value ZCmp(Value a, Value b) { return N(Integer.signum(Z(a).compareTo(Z(b)))); }
    public static Value ZSgn(Value a) { return N(Z(a).signum()); }
    public static Value ZFromInt(Value a) { return S(BigInteger.valueOf(((IntValue) a).val)); }
    public static Value ZToInt(Value a) { return N(Z(a).intValueExact()); }

    /* truncating division; divisor non-zero */
    public static Value ZTDivQ(Value a, Value b) { return S(Z(a).divide(Z(b))); }
    public static Value ZTDivR(Value a, Value b) { return S(Z(a).remainder(Z(b))); }
    static BigInteger[] fdiv(BigInteger a, BigInteger b) {
        BigInteger[] qr = a.divideAndRemainder(b);
        if (qr[1].signum() != 0 && (qr[1].signum() != b.signum())) { qr[0] = qr[0].subtract(BigInteger.ONE); qr[1] = qr[1].add(b); }
        return qr;
    }
    static BigInteger[] cdiv(BigInteger a, BigInteger b) {
        BigInteger[] qr = a.divideAndRemainder(b);
        if (qr[1].signum() != 0 && (qr[1].signum() == b.signum())) { qr[0] = qr[0].add(BigInteger.ONE); qr[1] = qr[1].subtract(b); }
        return qr;
    }
    public static Value ZFDivQ(Value a, Value b) { return S(fdiv(Z(a), Z(b))[0]); }
    public static Value ZFDivR(Value a, Value b) { return S(fdiv(Z(a), Z(b))[1]); }
    public static Value ZCDivQ(Value a, Value b) { return S(cdiv(Z(a), Z(b))[0]); }
    public static Value ZCDivR(Value a, Value b) { return S(cdiv(Z(a), Z(b))[1]); }

    public static Value ZShl(Value a, Value n) { return S(Z(a).shiftLeft(I(n))); }
    /* floor shift (arithmetic) */
    public static Value ZShr(Value a, Value n) { return S(Z(a).shiftRight(I(n))); }
    public static Value ZPow2(Value n) { return S(BigInteger.ONE.shiftLeft(I(n))); }
    /* a mod 2^n in [0,2^n) */
    public static Value ZLowBits(Value a, Value n) {
        int k = I(n);
        return S(Z(a).and(BigInteger.ONE.shiftLeft(k).subtract(BigInteger.ONE)));
    }
    public static Value ZBitLen(Value a) { return N(Z(a).abs().bitLength()); }
    public static Value ZAnd(Value a, Value b) { return S(Z(a).and(Z(b))); }
    public static Value ZOr(Value a, Value b) { return S(Z(a).or(Z(b))); }
    public static Value ZXor(Value a, Value b) { return S(Z(a).xor(Z(b))); }
    public static Value ZCom(Value a) { return S(Z(a).not()); }
    public static Value ZTestBit(Value a, Value i) { return Z(a).testBit(I(i)) ? BoolValue.ValTrue : BoolValue.ValFalse; }
    /* popcount of a non-negative integer */
    public static Value ZPopCount(Value a) { return N(Z(a).bitCount()); }
    /* number of trailing zero bits of a non-zero integer */
    public static Value ZCtz(Value a) { return N(Z(a).getLowestSetBit()); }

    public static Value ZGcd(Value a, Value b) { return S(Z(a).gcd(Z(b))); }
    public static Value ZPow(Value a, Value e) { return S(Z(a).pow(I(e))); }
    /* a^e mod |m| in [0,|m|), e >= 0, m != 0 */
    public static Value ZPowMod(Value a, Value e, Value m) {
        BigInteger mm = Z(m).abs();
        if (mm.equals(BigInteger.ONE)) return S(BigInteger.ZERO);
        return S(Z(a).modPow(Z(e), mm));
    }
    public static Value ZISqrt(Value a) { return S(Z(a).sqrt()); }
    /* floor(|a|^(1/n)) with the sign of a; n >= 1 */
    public static Value ZIRoot(Value a, Value nn) {
        BigInteger x = Z(a); int n = I(nn); int sg = x.signum(); x = x.abs();
        if (n == 1 || x.signum() == 0) return S(Z(a));
        int bl = x.bitLength();
        if (n >= bl) return S(BigInteger.valueOf(sg));
        /* Newton from above */
        BigInteger r = BigInteger.ONE.shiftLeft((bl + n - 1) / n);
        BigInteger N1 = BigInteger.valueOf(n - 1), Nn = BigInteger.valueOf(n);
        while (true) {
            BigInteger t = N1.multiply(r).add(x.divide(r.pow(n - 1))).divide(Nn);
            if (t.compareTo(r) >= 0) break;
            r = t;
        }
        return S(sg < 0 ? r.negate() : r);
    }
    /* Kronecker symbol (a/b) for arbitrary integers */
    public static Value ZKronecker(Value av, Value bv) {
        BigInteger a = Z(av), b = Z(bv);
        return N(kron(a, b));
    }
    static int kron(BigInteger a, BigInteger b) {
        if (b.signum() == 0) return a.abs().equals(BigInteger.ONE) ? 1 : 0;
        if (!a.testBit(0) && !b.testBit(0)) return 0;
        int r = 1;
        if (b.signum() < 0) { b = b.negate(); if (a.signum() < 0) r = -r; }
        int tz = b.getLowestSetBit();
        if (tz > 0) {
            b = b.shiftRight(tz);
            if ((tz & 1) == 1) { int a8 = a.and(BigInteger.valueOf(7)).intValue(); if (a8 == 3 || a8 == 5) r = -r; }
        }
        /* now b odd positive: Jacobi */
        a = a.mod(b);
        while (a.signum() != 0) {
            int t = a.getLowestSetBit();
            if (t > 0) {
                a = a.shiftRight(t);
                if ((t & 1) == 1) { int b8 = b.and(BigInteger.valueOf(7)).intValue(); if (b8 == 3 || b8 == 5) r = -r; }
            }
            if (a.and(BigInteger.valueOf(3)).intValue() == 3 && b.and(BigInteger.valueOf(3)).intValue() == 3) r = -r;
            BigInteger tmp = a; a = b.mod(tmp); b = tmp;
        }
        return b.equals(BigInteger.ONE) ? r : 0;
    }
    /* primality: deterministic Miller-Rabin bases below 3.3e24, 64 rounds of fixed pseudo-random bases above */
    static final int[] BASES = {2, 3, 5, 7, 11, 13, 17, 19, 23, 29, 31, 37, 41};
    public static Value ZIsPrime(Value av) {
        BigInteger n = Z(av);
        return isPrime(n) ? BoolValue.ValTrue : BoolValue.ValFalse;
    }
    static boolean isPrime(BigInteger n) {
        if (n.compareTo(BigInteger.valueOf(2)) < 0) return false;
        for (int p : BASES) { BigInteger P = BigInteger.valueOf(p); if (n.equals(P)) return true; if (n.mod(P).signum() == 0) return false; }
        BigInteger nm1 = n.subtract(BigInteger.ONE);
        int s = nm1.getLowestSetBit(); BigInteger d = nm1.shiftRight(s);
        java.util.ArrayList<BigInteger> bases = new java.util.ArrayList<>();
        for (int p : BASES) bases.add(BigInteger.valueOf(p));
        if (n.bitLength() > 81) {
            java.util.Random rnd = new java.util.Random(0x5eed1234L ^ n.hashCode());
            for (int i = 0; i < 64; i++) bases.add(new BigInteger(n.bitLength() - 2, rnd).add(BigInteger.valueOf(2)));
        }
        for (BigInteger a : bases) {
            BigInteger x = a.modPow(d, n);
            if (x.equals(BigInteger.ONE) || x.equals(nm1)) continue;
            boolean comp = true;
            for (int r = 1; r < s; r++) { x = x.multiply(x).mod(n); if (x.equals(nm1)) { comp = false; break; } }
            if (comp) return false;
        }
        return true;
    }
    public static Value ZNextPrime(Value av) {
        BigInteger x = Z(av).add(BigInteger.ONE);
        while (!isPrime(x)) x = x.add(BigInteger.ONE);
        return S(x);
    }
    public static Value ZFac(Value nv) {
        int n = I(nv);
        return S(prod(1, n));
    }
    static BigInteger prod(long lo, long hi) { /* product lo..hi */
        if (lo > hi) return BigInteger.ONE;
        if (hi - lo < 8) { BigInteger r = BigInteger.ONE; for (long i = lo; i <= hi; i++) r = r.multiply(BigInteger.valueOf(i)); return r; }
        long mid = (lo + hi) / 2;
        return prod(lo, mid).multiply(prod(mid + 1, hi));
    }
    /* product n(n-m)(n-2m)... of positive terms */
    public static Value ZMFac(Value nv, Value mv) {
        long n = Z(nv).longValueExact(), m = Z(mv).longValueExact();
        BigInteger r = BigInteger.ONE;
        if (m == 0) return S(r);
        java.util.ArrayList<BigInteger> l = new java.util.ArrayList<>();
        for (long i = n; i > 0; i -= m) l.add(BigInteger.valueOf(i));
        return S(prodList(l, 0, l.size()));
    }
    static BigInteger prodList(java.util.List<BigInteger> l, int a, int b) {
        if (b - a == 0) return BigInteger.ONE;
        if (b - a == 1) return l.get(a);
        int m = (a + b) / 2; return prodList(l, a, m).multiply(prodList(l, m, b));
    }
    public static Value ZPrimorial(Value nv) {
        int n = I(nv);
        java.util.ArrayList<BigInteger> l = new java.util.ArrayList<>();
        boolean[] comp = new boolean[n + 1];
        for (int i = 2; i <= n; i++) { if (!comp[i]) { l.add(BigInteger.valueOf(i)); for (long j = (long) i * i; j <= n; j += i) comp[(int) j] = true; } }
        return S(prodList(l, 0, l.size()));
    }
    /* binomial(n,k) for integer n (may be negative, big) and k >= 0 (int) */
    public static Value ZBin(Value nv, Value kv) {
        BigInteger n = Z(nv); long k = Z(kv).longValueExact();
        boolean neg = false;
        if (n.signum() < 0) { /* bin(-n,k) = (-1)^k bin(n+k-1,k) */
            n = n.negate().add(BigInteger.valueOf(k - 1)); neg = (k & 1) == 1;
        }
        if (n.compareTo(BigInteger.valueOf(k)) < 0) return S(BigInteger.ZERO);
        /* symmetric */
        BigInteger nk = n.subtract(BigInteger.valueOf(k));
        if (nk.compareTo(BigInteger.valueOf(k)) < 0) k = nk.longValueExact();
        java.util.ArrayList<BigInteger> num = new java.util.ArrayList<>();
        for (long i = 0; i < k; i++) num.add(n.subtract(BigInteger.valueOf(i)));
        BigInteger r = prodList(num, 0, num.size()).divide(prod(1, k));
        return S(neg ? r.negate() : r);
    }
    static BigInteger[] fibPair(long n) { /* F(n), F(n+1) */
        if (n == 0) return new BigInteger[] {BigInteger.ZERO, BigInteger.ONE};
        BigInteger[] h = fibPair(n / 2);
        BigInteger a = h[0], b = h[1];
        BigInteger c = a.multiply(b.shiftLeft(1).subtract(a));
        BigInteger d = a.multiply(a).add(b.multiply(b));
        if ((n & 1) == 0) return new BigInteger[] {c, d};
        return new BigInteger[] {d, c.add(d)};
    }
    public static Value ZFib(Value nv) { return S(fibPair(Z(nv).longValueExact())[0]); }
    public static Value ZLuc(Value nv) { /* L(n) = F(n-1)+F(n+1) = 2F(n+1)-F(n) */
        BigInteger[] p = fibPair(Z(nv).longValueExact());
        return S(p[1].shiftLeft(1).subtract(p[0]));
    }

    /* digits of |a| in base b (2..62) written with alphabet alpha (a string of >= b characters), most significant first; "0" for zero */
    public static Value ZDigits(Value av, Value bv, Value alphav) {
        BigInteger a = Z(av).abs(); int b = I(bv);
        String alpha = ((StringValue) alphav).val.toString();
        if (a.signum() == 0) return new StringValue(alpha.substring(0, 1));
        StringBuilder sb = new StringBuilder();
        if (b <= 36) {
            String s = a.toString(b);
            for (int i = 0; i < s.length(); i++) sb.append(alpha.charAt(Character.digit(s.charAt(i), 36)));
        } else {
            digitsRec(a, b, alpha, sb, -1);
        }
        return new StringValue(sb.toString());
    }
    static void digitsRec(BigInteger a, int b, String alpha, StringBuilder sb, int width) {
        /* width<0: no padding */
        if (a.bitLength() <= 62) {
            long v = a.longValue(); char[] buf = new char[80]; int n = 0;
            while (v != 0) { buf[n++] = alpha.charAt((int) (v % b)); v /= b; }
            for (int i = n; i < width; i++) sb.append(alpha.charAt(0));
            while (n > 0) sb.append(buf[--n]);
            return;
        }
        /* split at k digits where b^k ~ sqrt(a) */
        int k = (int) (a.bitLength() / (2 * (Math.log(b) / Math.log(2))));
        if (k < 1) k = 1;
        BigInteger p = BigInteger.valueOf(b).pow(k);
        BigInteger[] qr = a.divideAndRemainder(p);
        if (width < 0) digitsRec(qr[0], b, alpha, sb, -1);
        else digitsRec(qr[0], b, alpha, sb, width - k);
        digitsRec(qr[1], b, alpha, sb, k);
    }
    /* value of a digit string: every character must be among the first b characters of alpha
       (the caller has checked that); returns the non-negative integer */
    public static Value ZFromDigits(Value sv, Value bv, Value alphav) {
        String s = ((StringValue) sv).val.toString(); int b = I(bv);
        String alpha = ((StringValue) alphav).val.toString();
        int[] d = new int[s.length()];
        for (int i = 0; i < d.length; i++) { d[i] = alpha.indexOf(s.charAt(i)); if (d[i] < 0 || d[i] >= b) throw new RuntimeException("ZFromDigits: bad digit"); }
        return S(fromDigits(d, 0, d.length, b));
    }
    static BigInteger fromDigits(int[] d, int lo, int hi, int b) {
        if (hi - lo <= 10) { long v = 0; for (int i = lo; i < hi; i++) v = v * b + d[i]; return BigInteger.valueOf(v); }
        int mid = (lo + hi) / 2;
        return fromDigits(d, lo, mid, b).multiply(BigInteger.valueOf(b).pow(hi - mid)).add(fromDigits(d, mid, hi, b));
    }
    /* index (0-based) of the first character of s that is not among the first b characters of alpha; Len(s) if none */
    public static Value StrFirstBad(Value sv, Value bv, Value alphav) {
        String s = ((StringValue) sv).val.toString(); int b = I(bv);
        String alpha = ((StringValue) alphav).val.toString();
        for (int i = 0; i < s.length(); i++) { int k = alpha.indexOf(s.charAt(i)); if (k < 0 || k >= b) return N(i); }
        return N(s.length());
    }
    static BigInteger[] seqZ(Value v) {
        TupleValue t = (TupleValue) v.toTuple();
        BigInteger[] r = new BigInteger[t.elems.length];
        for (int i = 0; i < r.length; i++) r[i] = Z(t.elems[i]);
        return r;
    }
    public static Value SeqBitOnes(Value sv, Value bv) {
        BigInteger[] s = seqZ(sv); int b = I(bv), c = 0;
        for (BigInteger x : s) if (x.testBit(b)) c++;
        return N(c);
    }
    public static Value SeqBitAgree(Value sv, Value bv, Value lv) {
        BigInteger[] s = seqZ(sv); int b = I(bv), lag = I(lv), c = 0;
        for (int i = 0; i + lag < s.length; i++) if (s[i].testBit(b) == s[i + lag].testBit(b)) c++;
        return N(c);
    }
    public static Value SeqBucket(Value sv, Value shv, Value bv) {
        BigInteger[] s = seqZ(sv); int sh = I(shv), c = 0; BigInteger b = Z(bv);
        for (BigInteger x : s) if (x.shiftRight(sh).equals(b)) c++;
        return N(c);
    }
    public static Value StrStripWS(Value sv) {
        String s = ((StringValue) sv).val.toString(); StringBuilder sb = new StringBuilder();
        for (int i = 0; i < s.length(); i++) { char c = s.charAt(i); if (c != ' ' && c != '\t' && c != '\n' && c != '\r' && c != '\f') sb.append(c); }
        return new StringValue(sb.toString());
    }
    public static Value StrLower(Value sv) {
        String s = ((StringValue) sv).val.toString(); StringBuilder sb = new StringBuilder();
        for (int i = 0; i < s.length(); i++) { char c = s.charAt(i); sb.append(c >= 'A' && c <= 'Z' ? (char) (c + 32) : c); }
        return new StringValue(sb.toString());
    }
    public static Value StrFind(Value sv, Value cv) {
        String s = ((StringValue) sv).val.toString(), c = ((StringValue) cv).val.toString();
        return IntValue.gen(c.length() == 1 ? s.indexOf(c.charAt(0)) + 1 : 0);
    }
    public static Value StrLead(Value sv, Value cv) {
        String s = ((StringValue) sv).val.toString(), c = ((StringValue) cv).val.toString(); int k = 0;
        if (c.length() != 1) return IntValue.gen(0);
        while (k < s.length() && s.charAt(k) == c.charAt(0)) k++;
        return IntValue.gen(k);
    }
    /* middle product MP(a, m, b, n) of w-bit limb vectors */
    public static Value ZMulMid(Value av, Value mv, Value bv, Value nv, Value wv) {
        BigInteger a = Z(av), b = Z(bv); int m = I(mv), n = I(nv), w = I(wv);
        BigInteger lm = BigInteger.ONE.shiftLeft(w).subtract(BigInteger.ONE), wm = BigInteger.ONE.shiftLeft(w * (m - n + 1)).subtract(BigInteger.ONE), r = BigInteger.ZERO;
        for (int j = 0; j < n; j++) { BigInteger bj = b.shiftRight(w * j).and(lm); if (bj.signum() != 0) r = r.add(bj.multiply(a.shiftRight(w * (n - 1 - j)).and(wm))); }
        return S(r);
    }
    /* limbs helper: split non-negative a into n hex limbs of w bits, least significant first */
    public static Value ZLimbs(Value av, Value wv, Value nv) {
        BigInteger a = Z(av); int w = I(wv), n = I(nv);
        Value[] r = new Value[n];
        BigInteger mask = BigInteger.ONE.shiftLeft(w).subtract(BigInteger.ONE);
        for (int i = 0; i < n; i++) { r[i] = S(a.and(mask)); a = a.shiftRight(w); }
        return new TupleValue(r);
    }
}
