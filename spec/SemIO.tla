-------------------------------- MODULE SemIO --------------------------------
EXTENDS Naturals, Integers, Sequences, BigZ, Dbl
FunsIO == {}
PostIO(f, A, O, r, x) == FALSE
SigIO(f, A) == FALSE
=============================================================================
