----------------------------- MODULE UdivPreinv -----------------------------
(***************************************************************************)
(* R2 model for C02: invert_limb, mpir_invert_pi1 and udiv_qr_3by2          *)
(* (gmp-impl.h:2812-2902) transcribed statement by statement over words of  *)
(* W bits (B = 2^W is a CONSTANT; at the real width W = 64).  TLC checks    *)
(* for ALL admissible inputs that the 3/2 inverse is                        *)
(* floor((B^3-1)/(d1 B + d0)) - B and that the quotient digit and the       *)
(* two-limb remainder are exact; the branch labels tell which of the two    *)
(* corrections fired (the second one has probability about 2^-W on random   *)
(* data: at W = 4 it is visited for every input that reaches it).           *)
(***************************************************************************)
EXTENDS Naturals, Integers, Sequences, TLC
CONSTANTS B, EMIT
Lo(x) == x % B
Hi(x) == x \div B
Wrap(x) == x % B                                  \* arithmetic modulo the word
Sub2(a1, a0, b1, b0) == LET v == (a1 * B + a0 - b1 * B - b0) % (B * B) IN <<Hi(v), Lo(v)>>     \* sub_ddmmss
Add2(a1, a0, b1, b0) == LET v == (a1 * B + a0 + b1 * B + b0) % (B * B) IN <<Hi(v), Lo(v)>>     \* add_ssaaaa

InvertLimb(d) == ((B * B - 1) \div d) - B         \* udiv_qrnnd (v, dummy, ~d, ~0, d)  =  floor((B^2-1)/d) - B

InvertPi1(d1, d0) ==
   LET v0 == InvertLimb(d1)
       p0 == Wrap(d1 * v0)
       p1 == Wrap(p0 + d0)
       a  == IF p1 < d0                                  \* if (_p < d0)
             THEN LET v1 == Wrap(v0 - 1)
                      mask == IF p1 >= d1 THEN B - 1 ELSE 0       \* _mask = -(_p >= d1)
                      p2 == Wrap(p1 - d1)
                      v2 == Wrap(v1 + mask)
                      p3 == IF mask = 0 THEN p2 ELSE Wrap(p2 - d1)   \* _p -= _mask & d1
                  IN  <<v2, p3>>
             ELSE <<v0, p1>>
       v  == a[1]   p == a[2]
       t  == d0 * v                                      \* umul_ppmm (_t1, _t0, d0, _v)
       t1 == Hi(t)  t0 == Lo(t)
       p4 == Wrap(p + t1)
   IN  IF p4 < t1
       THEN LET v3 == Wrap(v - 1) IN
            IF p4 >= d1 THEN (IF p4 > d1 \/ t0 >= d0 THEN Wrap(v3 - 1) ELSE v3) ELSE v3
       ELSE v

U3by2(n2, n1, n0, d1, d0, dinv) ==
  LET m   == n2 * dinv                          \* umul_ppmm (q, _q0, n2, dinv)
      a   == Add2(Hi(m), Lo(m), n2, n1)         \* add_ssaaaa (q, _q0, q, _q0, n2, n1)
      q1  == a[1]   q0 == a[2]
      r1a == Wrap(n1 + B * B - Lo(d1 * q1))     \* r1 = n1 - d1 * q
      s1  == Sub2(r1a, n0, d1, d0)              \* sub_ddmmss (r1, r0, r1, n0, d1, d0)
      t   == d0 * q1                            \* umul_ppmm (_t1, _t0, d0, q)
      s2  == Sub2(s1[1], s1[2], Hi(t), Lo(t))   \* sub_ddmmss (r1, r0, r1, r0, _t1, _t0)
      q2  == Wrap(q1 + 1)                       \* q++
      c1  == s2[1] >= q0                        \* if (r1 >= _q0)
      q3  == IF c1 THEN Wrap(q2 + B - 1) ELSE q2
      s3  == IF c1 THEN Add2(s2[1], s2[2], d1, d0) ELSE s2
      c2  == s3[1] >= d1 /\ (s3[1] > d1 \/ s3[2] >= d0)   \* the UNLIKELY second correction
      q4  == IF c2 THEN Wrap(q3 + 1) ELSE q3
      s4  == IF c2 THEN Sub2(s3[1], s3[2], d1, d0) ELSE s3
  IN <<q4, s4[1], s4[2], c1, c2>>

VARIABLES phase, d1, d0
vars == <<phase, d1, d0>>
Init == phase = 0 /\ d1 = 0 /\ d0 = 0
Pick == phase = 0 /\ phase' = 1 /\ d1' \in (B \div 2)..(B - 1) /\ d0' \in 0..(B - 1)      \* normalised divisor
Spec == Init /\ [][Pick]_vars
Correct ==
   phase = 1 =>
     LET d == d1 * B + d0
         dinv == InvertPi1(d1, d0)
     IN  /\ dinv = ((B * B * B - 1) \div d) - B
         /\ \A n2 \in 0..(B - 1), n1 \in 0..(B - 1), n0 \in 0..(B - 1) :
               (n2 * B + n1 < d) =>
                  LET n == (n2 * B + n1) * B + n0
                      r == U3by2(n2, n1, n0, d1, d0, dinv)
                  IN  /\ r[1] = n \div d /\ r[2] * B + r[3] = n % d
                      /\ (EMIT /\ r[5]) => PrintT(<<"U3BY2C2", n2, n1, n0, d1, d0>>)
=============================================================================
