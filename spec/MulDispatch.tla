----------------------------- MODULE MulDispatch -----------------------------
(***************************************************************************)
(* R2 model for C01/C14: the size dispatch of mpn_mul, mpn_mul_n, mpn_sqr  *)
(* (mpn/generic/mul.c, mul_n.c) with the thresholds of the tree under test *)
(* as CONSTANTS (filled in by the probe), and the "fallback" loop of       *)
(* mpn_mul with its l / t carry book-keeping at value level.               *)
(*                                                                         *)
(* (a) Region run: for every 1 <= vn <= un <= N the algorithm selected is  *)
(*     entered inside the domain its own ASSERTs state and with the        *)
(*     scratch space it needs (CalleePre).  The same predicate is applied  *)
(*     by the trace specification to dispatch hook events.                 *)
(* (b) Value run (tiny thresholds, limb base BV): the fallback loop and    *)
(*     the chunked basecase return exactly u*v in un+vn limbs for every    *)
(*     operand.                                                            *)
(***************************************************************************)
EXTENDS Naturals, Integers, Sequences, TLC, HookPre
CONSTANTS KARA, TOOM3, TOOM4, TOOM8H, FFTFULL, MAXUN,       \* MUL_* thresholds, MUL_BASECASE_MAX_UN
          SQRBASE, SQRKARA, SQRTOOM3, SQRTOOM4, SQRTOOM8, SQRFFT,
          KARALIMIT, TOOM3LIMIT,                             \* *_THRESHOLD_LIMIT (stack buffers)
          N, LO,                                             \* region run over LO <= un <= N
          Mode,                                              \* "region" | "value"
          EMIT                                               \* print the shapes next to a dispatch boundary (R3)

CeilDiv(a, b) == (a + b - 1) \div b

(* ---- mpn_mul_n / mpn_sqr ---- *)
MulN(n) == IF n < KARA THEN "basecase_n"
           ELSE IF n < TOOM3 THEN "kara_n"
           ELSE IF n < TOOM4 THEN "toom3_n"
           ELSE IF n < TOOM8H THEN "toom4_n"
           ELSE IF n < FFTFULL THEN "toom8h_n" ELSE "fft_n"
Sqr(n) == IF n < SQRBASE THEN "sqr_mulbase"
          ELSE IF n < SQRKARA THEN "sqr_basecase"
          ELSE IF n < SQRTOOM3 THEN "sqr_kara"
          ELSE IF n < SQRTOOM4 THEN "sqr_toom3"
          ELSE IF n < SQRTOOM8 THEN "sqr_toom4"
          ELSE IF n < SQRFFT THEN "sqr_toom8" ELSE "sqr_fft"

(* ---- mpn_mul (mul.c:52-208) ---- *)
Disp(un, vn) ==
  LET k == (un + 3) \div 4   l5 == (un + 4) \div 5   l3 == (un + 2) \div 3 IN
  IF un = vn THEN MulN(un)
  ELSE IF vn < KARA THEN (IF un <= MAXUN THEN "basecase" ELSE "basecase_chunked")
  ELSE IF un + vn >= 2 * FFTFULL /\ 3 * vn >= FFTFULL THEN "fft"
  ELSE IF un + vn >= 2 * TOOM8H /\ vn >= 86 /\ 4 * un <= 13 * vn THEN "toom8h"
  ELSE IF un + vn >= 2 * TOOM4 /\ vn > 3 * k THEN "toom4"
  ELSE IF un + vn >= 2 * TOOM4
          /\ ((vn > (9 * k) \div 4 /\ un + vn <= 6 * TOOM4) \/ (vn > 2 * l5 /\ un + vn > 6 * TOOM4))
          /\ vn <= 3 * l5 THEN "toom53"
  ELSE IF un + vn >= 2 * TOOM3 /\ vn > k THEN
          (IF vn < 2 * k THEN "toom42" ELSE IF vn > 2 * l3 THEN "toom3" ELSE "toom32")
  ELSE "fallback"

(* the domain each callee ASSERTs (toom3_mul.c:253-257,426-431,627-631; toom4_mul.c:143,326;
   toom8h_mul.c:82-90; toom3_mul_n.c:92; mul_fft_main.c:51) *)
FFTEnter(n1, n2) ==        \* ASSERT(j1 + j2 - 1 > 2*n) with depth 6, w 1
   LET bits == (64 - 7) \div 2
       j1 == (n1 * 64 - 1) \div bits + 1   j2 == (n2 * 64 - 1) \div bits + 1
   IN  j1 + j2 - 1 > 2 * 64
CalleePre(lbl, un, vn) ==
  CASE lbl = "kara_n" -> un >= 2 /\ TOOM3 <= TOOM3LIMIT                 \* fixed-size stack workspace
    [] lbl \in {"fft", "fft_n"} -> FFTEnter(un, vn)
    [] lbl = "basecase_chunked" -> KARA <= KARALIMIT /\ vn < KARA     \* tp[MUL_KARATSUBA_THRESHOLD_LIMIT] holds vn limbs
    [] lbl = "sqr_fft" -> FFTEnter(un, un)
    [] OTHER -> TPre(lbl, un, vn)

(* the fallback path: sizes of the pieces stay positive and the workspace allocated once up front
   ((vn >= KARA ? vn : un) + vn limbs) is enough for every later product *)
RECURSIVE FallbackSizesOK(_, _, _, _)
FallbackSizesOK(un, vn, ws, l) ==      \* state after a swap: un >= vn
   IF vn >= KARA
   THEN /\ 2 * vn <= ws /\ un >= vn /\ l >= 1
        /\ LET un1 == un - vn
               l1 == (IF l <= 2 * vn THEN 2 * vn ELSE l) - vn
           IN  IF un1 < vn THEN FallbackSizesOK(vn, un1, ws, l1) ELSE FallbackSizesOK(un1, vn, ws, l1)
   ELSE vn = 0 \/ (un + vn <= ws /\ un >= vn /\ vn >= 1)
FallbackOK(un0, vn0) ==
   LET un1 == un0 - vn0 IN
   IF un1 = 0 THEN TRUE
   ELSE LET u == IF un1 < vn0 THEN vn0 ELSE un1
            v == IF un1 < vn0 THEN un1 ELSE vn0
            ws == (IF v >= KARA THEN v ELSE u) + v
        IN  FallbackSizesOK(u, v, ws, vn0)

RegionOK(un, vn) == LET lbl == Disp(un, vn) IN
   /\ CalleePre(lbl, un, vn)
   /\ (lbl = "fallback" => CalleePre(MulN(vn), vn, vn) /\ FallbackOK(un, vn))
   /\ CalleePre(Sqr(un), un, un)

(* ------------------------------------------------------------------------- *)
(* (b) value run                                                             *)
CONSTANT BV                                   \* limb base of the value run
RECURSIVE NatOfV(_)
NatOfV(s) == IF s = <<>> THEN 0 ELSE s[1] + BV * NatOfV(Tail(s))
RECURSIVE LimbsV(_, _)
LimbsV(v, n) == IF n = 0 THEN <<>> ELSE <<v % BV>> \o LimbsV(v \div BV, n - 1)
Sub(s, off, n) == SubSeq(s, off + 1, off + n)                 \* 0-based offset
Put(s, off, vals) == [i \in 1..Len(s) |-> IF i > off /\ i <= off + Len(vals) THEN vals[i - off] ELSE s[i]]
(* mpn_add_n (p+off, p+off, w, n): returns <<new p, carry>> *)
AddN(p, off, w, n) == LET s == NatOfV(Sub(p, off, n)) + NatOfV(SubSeq(w, 1, n))
                      IN  <<Put(p, off, LimbsV(s % (BV ^ n), n)), s \div (BV ^ n)>>
(* mpn_add_1 (p+doff, src, n, c) where src is a limb sequence *)
Add1(p, doff, src, n, c) == LET s == NatOfV(src) + c
                            IN  <<Put(p, doff, LimbsV(s % (BV ^ n), n)), s \div (BV ^ n)>>

(* state: p (product array, un0+vn0 limbs), po, l, t, operands (U,V as limb sequences already offset), bad (bounds) *)
RECURSIVE FallLoop(_)
FallLoop(st) ==
   LET un == Len(st.u)   vn == Len(st.v) IN
   IF vn >= KARA
   THEN LET ws == LimbsV(NatOfV(SubSeq(st.u, 1, vn)) * NatOfV(st.v), 2 * vn)
            r1 == IF st.l <= 2 * vn
                  THEN LET a == AddN(st.p, st.po, ws, st.l)
                           t1 == st.t + a[2]
                       IN  IF st.l # 2 * vn
                           THEN LET b == Add1(a[1], st.po + st.l, SubSeq(ws, st.l + 1, 2 * vn), 2 * vn - st.l, t1)
                                IN  [p |-> b[1], t |-> b[2], l |-> 2 * vn]
                           ELSE [p |-> a[1], t |-> t1, l |-> st.l]
                  ELSE LET a == AddN(st.p, st.po, ws, 2 * vn)
                           b == Add1(a[1], st.po + 2 * vn, Sub(a[1], st.po + 2 * vn, st.l - 2 * vn), st.l - 2 * vn, a[2])
                       IN  [p |-> b[1], t |-> st.t + b[2], l |-> st.l]
            u1 == SubSeq(st.u, vn + 1, un)
            sw == Len(u1) < vn
        IN  FallLoop([p |-> r1.p, po |-> st.po + vn, l |-> r1.l - vn, t |-> r1.t,
                      u |-> IF sw THEN st.v ELSE u1, v |-> IF sw THEN u1 ELSE st.v,
                      bad |-> st.bad \/ st.po + r1.l > Len(st.p)])
   ELSE IF vn # 0
   THEN LET ws == LimbsV(NatOfV(st.u) * NatOfV(st.v), un + vn)
            r1 == IF st.l <= un + vn
                  THEN LET a == AddN(st.p, st.po, ws, st.l)
                           t1 == st.t + a[2]
                       IN  IF st.l # un + vn
                           THEN LET b == Add1(a[1], st.po + st.l, SubSeq(ws, st.l + 1, un + vn), un + vn - st.l, t1)
                                IN  [p |-> b[1], t |-> b[2], top |-> st.po + un + vn]
                           ELSE [p |-> a[1], t |-> t1, top |-> st.po + st.l]
                  ELSE LET a == AddN(st.p, st.po, ws, un + vn)
                           b == Add1(a[1], st.po + un + vn, Sub(a[1], st.po + un + vn, st.l - un - vn), st.l - un - vn, a[2])
                       IN  [p |-> b[1], t |-> st.t + b[2], top |-> st.po + st.l]
        IN  [p |-> r1.p, t |-> r1.t, bad |-> st.bad \/ r1.top > Len(st.p)]
   ELSE [p |-> st.p, t |-> st.t, bad |-> st.bad]

MulFallback(u, v) ==       \* mul.c:210-279, un > vn, vn >= KARA not required
   LET un == Len(u)  vn == Len(v)
       p0 == Put([i \in 1..(un + vn) |-> BV - 1], 0, LimbsV(NatOfV(SubSeq(u, 1, vn)) * NatOfV(v), 2 * vn))
       u1 == SubSeq(u, vn + 1, un)
       sw == Len(u1) < vn
   IN  FallLoop([p |-> p0, po |-> vn, l |-> vn, t |-> 0,
                 u |-> IF sw THEN v ELSE u1, v |-> IF sw THEN u1 ELSE v, bad |-> FALSE])

(* chunked basecase (mul.c:88-131): pieces of MAXUN limbs, high triangle saved in tp and added back *)
RECURSIVE ChunkLoop(_)
ChunkLoop(st) ==     \* st: p, po, tp (vn limbs), u (remaining), v
   LET un == Len(st.u)  vn == Len(st.v) IN
   IF un > MAXUN
   THEN LET prod == LimbsV(NatOfV(SubSeq(st.u, 1, MAXUN)) * NatOfV(st.v), MAXUN + vn)
            p1 == Put(st.p, st.po, prod)
            a  == AddN(p1, st.po, st.tp, vn)
            b  == Add1(a[1], st.po + vn, Sub(a[1], st.po + vn, MAXUN), MAXUN, a[2])      \* mpn_incr_u (prodp + vn, cy)
            po1 == st.po + MAXUN
        IN  ChunkLoop([p |-> b[1], po |-> po1, tp |-> Sub(b[1], po1, vn), u |-> SubSeq(st.u, MAXUN + 1, un), v |-> st.v,
                       bad |-> st.bad \/ b[2] # 0])
   ELSE LET prod == LimbsV(NatOfV(st.u) * NatOfV(st.v), un + vn)
            p1 == Put(st.p, st.po, prod)
            a  == AddN(p1, st.po, st.tp, vn)
            b  == Add1(a[1], st.po + vn, Sub(a[1], st.po + vn, un), un, a[2])
        IN  [p |-> b[1], bad |-> st.bad \/ b[2] # 0 \/ un <= 0]
MulChunked(u, v) ==
   LET un == Len(u)  vn == Len(v)
       p0 == Put([i \in 1..(un + vn) |-> BV - 1], 0, LimbsV(NatOfV(SubSeq(u, 1, MAXUN)) * NatOfV(v), MAXUN + vn))
   IN  ChunkLoop([p |-> p0, po |-> MAXUN, tp |-> Sub(p0, MAXUN, vn), u |-> SubSeq(u, MAXUN + 1, un), v |-> v, bad |-> FALSE])

ValueOK(u, v) ==           \* un > vn
   LET lbl == Disp(Len(u), Len(v)) IN
   CASE lbl = "fallback" -> LET r == MulFallback(u, v) IN ~r.bad /\ NatOfV(r.p) = NatOfV(u) * NatOfV(v)
     [] lbl = "basecase_chunked" -> LET r == MulChunked(u, v) IN ~r.bad /\ NatOfV(r.p) = NatOfV(u) * NatOfV(v)
     [] OTHER -> TRUE

(* ------------------------------------------------------------------------- *)
VARIABLES phase, un, vn, uval, vval
vars == <<phase, un, vn, uval, vval>>
Init == phase = 0 /\ un = 0 /\ vn = 0 /\ uval = 0 /\ vval = 0
PickUn == phase = 0 /\ phase' = 1 /\ un' \in LO..N /\ UNCHANGED <<vn, uval, vval>>
PickVn == phase = 1 /\ phase' = 2 /\ vn' \in 1..un /\ UNCHANGED <<un, uval, vval>>
PickVals == /\ Mode = "value" /\ phase = 2 /\ phase' = 3 /\ vn < un
            /\ uval' \in (BV ^ (un - 1))..(BV ^ un - 1) /\ vval' \in 0..(BV ^ vn - 1) /\ UNCHANGED <<un, vn>>
Next == PickUn \/ PickVn \/ PickVals
Spec == Init /\ [][Next]_vars

Boundary(a, b) ==    \* (a,b) has a neighbour that is dispatched differently
   LET d == Disp(a, b) IN
   \/ (b + 1 <= a /\ Disp(a, b + 1) # d) \/ (b >= 2 /\ Disp(a, b - 1) # d)
   \/ Disp(a + 1, b) # d \/ (a - 1 >= b /\ a >= 2 /\ Disp(a - 1, b) # d)
   \/ Sqr(a) # Sqr(a + 1) \/ (a >= 2 /\ Sqr(a) # Sqr(a - 1))
Correct == /\ (Mode = "region" /\ phase = 2) => /\ RegionOK(un, vn)
                                                /\ (EMIT /\ Boundary(un, vn)) => PrintT(<<"SHAPE", un, vn, Disp(un, vn)>>)
           /\ (Mode = "value" /\ phase = 3) => ValueOK(LimbsV(uval, un), LimbsV(vval, vn))
(* R3: the label of every shape next to a boundary is what the replay generator needs *)
Label == IF phase = 2 THEN Disp(un, vn) ELSE "-"
=============================================================================
