---- MODULE FatInit_TTrace_1790662458 ----
EXTENDS Sequences, TLCExt, FatInit, Toolbox, Naturals, TLC

_expression ==
    LET FatInit_TEExpression == INSTANCE FatInit_TEExpression
    IN FatInit_TEExpression!expression
----

_trace ==
    LET FatInit_TETrace == INSTANCE FatInit_TETrace
    IN FatInit_TETrace!trace
----

_inv ==
    ~(
        TLCGet("level") = Len(_TETrace)
        /\
        cur = (<<<<"call", 1, 1>>, <<"none", 0, 0>>>>)
        /\
        inited = (TRUE)
        /\
        pc = (<<"install", "idle">>)
        /\
        vec = (<<1, 2, 0, 0>>)
        /\
        log = ({<<"thr", 3, 0>>})
        /\
        done = (<<0, 1>>)
    )
----

_init ==
    /\ inited = _TETrace[1].inited
    /\ done = _TETrace[1].done
    /\ vec = _TETrace[1].vec
    /\ pc = _TETrace[1].pc
    /\ cur = _TETrace[1].cur
    /\ log = _TETrace[1].log
----

_next ==
    /\ \E i,j \in DOMAIN _TETrace:
        /\ \/ /\ j = i + 1
              /\ i = TLCGet("level")
        /\ inited  = _TETrace[i].inited
        /\ inited' = _TETrace[j].inited
        /\ done  = _TETrace[i].done
        /\ done' = _TETrace[j].done
        /\ vec  = _TETrace[i].vec
        /\ vec' = _TETrace[j].vec
        /\ pc  = _TETrace[i].pc
        /\ pc' = _TETrace[j].pc
        /\ cur  = _TETrace[i].cur
        /\ cur' = _TETrace[j].cur
        /\ log  = _TETrace[i].log
        /\ log' = _TETrace[j].log

\* Uncomment the ASSUME below to write the states of the error trace
\* to the given file in Json format. Note that you can pass any tuple
\* to `JsonSerialize`. For example, a sub-sequence of _TETrace.
    \* ASSUME
    \*     LET J == INSTANCE Json
    \*         IN J!JsonSerialize("FatInit_TTrace_1790662458.json", _TETrace)

=============================================================================

 Note that you can extract this module `FatInit_TEExpression`
  to a dedicated file to reuse `expression` (the module in the 
  dedicated `FatInit_TEExpression.tla` file takes precedence 
  over the module `FatInit_TEExpression` below).

---- MODULE FatInit_TEExpression ----
EXTENDS Sequences, TLCExt, FatInit, Toolbox, Naturals, TLC

expression == 
    [
        \* To hide variables of the `FatInit` spec from the error trace,
        \* remove the variables below.  The trace will be written in the order
        \* of the fields of this record.
        inited |-> inited
        ,done |-> done
        ,vec |-> vec
        ,pc |-> pc
        ,cur |-> cur
        ,log |-> log
        
        \* Put additional constant-, state-, and action-level expressions here:
        \* ,_stateNumber |-> _TEPosition
        \* ,_initedUnchanged |-> inited = inited'
        
        \* Format the `inited` variable as Json value.
        \* ,_initedJson |->
        \*     LET J == INSTANCE Json
        \*     IN J!ToJson(inited)
        
        \* Lastly, you may build expressions over arbitrary sets of states by
        \* leveraging the _TETrace operator.  For example, this is how to
        \* count the number of times a spec variable changed up to the current
        \* state in the trace.
        \* ,_initedModCount |->
        \*     LET F[s \in DOMAIN _TETrace] ==
        \*         IF s = 1 THEN 0
        \*         ELSE IF _TETrace[s].inited # _TETrace[s-1].inited
        \*             THEN 1 + F[s-1] ELSE F[s-1]
        \*     IN F[_TEPosition - 1]
    ]

=============================================================================



Parsing and semantic processing can take forever if the trace below is long.
 In this case, it is advised to uncomment the module below to deserialize the
 trace from a generated binary file.

\*
\*---- MODULE FatInit_TETrace ----
\*EXTENDS IOUtils, FatInit, TLC
\*
\*trace == IODeserialize("FatInit_TTrace_1790662458.bin", TRUE)
\*
\*=============================================================================
\*

---- MODULE FatInit_TETrace ----
EXTENDS FatInit, TLC

trace == 
    <<
    ([cur |-> <<<<"none", 0, 0>>, <<"none", 0, 0>>>>,inited |-> FALSE,pc |-> <<"idle", "idle">>,vec |-> <<1, 2, 0, 0>>,log |-> {},done |-> <<0, 0>>]),
    ([cur |-> <<<<"call", 1, 1>>, <<"none", 0, 0>>>>,inited |-> FALSE,pc |-> <<"flag", "idle">>,vec |-> <<1, 2, 0, 0>>,log |-> {},done |-> <<0, 0>>]),
    ([cur |-> <<<<"call", 1, 1>>, <<"none", 0, 0>>>>,inited |-> TRUE,pc |-> <<"install", "idle">>,vec |-> <<1, 2, 0, 0>>,log |-> {},done |-> <<0, 0>>]),
    ([cur |-> <<<<"call", 1, 1>>, <<"none", 0, 0>>>>,inited |-> TRUE,pc |-> <<"install", "idle">>,vec |-> <<1, 2, 0, 0>>,log |-> {<<"thr", 3, 0>>},done |-> <<0, 1>>])
    >>
----


=============================================================================

---- CONFIG FatInit_TTrace_1790662458 ----
CONSTANTS
    Threads = { 1 , 2 }
    NF = 2
    NT = 2
    Ops = 2
    Variant = "flag_first"

INVARIANT
    _inv

CHECK_DEADLOCK
    \* CHECK_DEADLOCK off because of PROPERTY or INVARIANT above.
    FALSE

INIT
    _init

NEXT
    _next

CONSTANT
    _TETrace <- _trace

ALIAS
    _expression
=============================================================================
\* Generated on Tue Sep 29 06:14:19 UTC 2026