-------------------------------- MODULE CxxSem --------------------------------
(***************************************************************************)
(* L2 for C20: the value of a C++ class expression = "every sub-expression *)
(* evaluated into its own temporary with the corresponding C function".    *)
(* A tree is a sequence: <<"v", name>> variable, <<"si", numeral>>,         *)
(* <<"ui", numeral>> built-in integers, <<"d", <<s,e,hi,lo>>>> a double,    *)
(* <<op, x>> unary, <<op, x, y>> binary.  EvalZ is for mpz_class trees      *)
(* (built-in operands are converted as the C functions do: a double is      *)
(* truncated by mpz_set_d for arithmetic, compared exactly by mpz_cmp_d);   *)
(* EvalQ for mpq_class trees (results canonical, doubles converted exactly).*)
(***************************************************************************)
EXTENDS Naturals, Integers, Sequences, BigZ, Dbl, SemQ

LOCAL B2Z(b) == IF b THEN "1" ELSE "0"
IsD(t) == t[1] = "d"
RECURSIVE EvalZ(_, _)
EvalZ(t, env) ==
   LET op == t[1] IN
   CASE op = "v" -> env[t[2]]
     [] op \in {"si", "ui"} -> t[2]
     [] op = "d" -> DTruncZ(t[2])
     [] Len(t) = 2 ->
          (LET x == EvalZ(t[2], env) IN
           CASE op = "neg" -> ZNeg(x) [] op = "pos" -> x [] op = "com" -> ZCom(x) [] op = "abs" -> ZAbs(x)
             [] op = "sqrt" -> ZISqrt(x) [] op = "sgn" -> ZFromInt(ZSgn(x)))
     [] op \in {"<", ">", "==", "!=", "<=", ">=", "cmp"} ->       \* a double operand is compared exactly, not truncated
          LET c == IF IsD(t[3]) /\ ~IsD(t[2]) THEN CmpZD(EvalZ(t[2], env), t[3][2])
                   ELSE IF IsD(t[2]) /\ ~IsD(t[3]) THEN -CmpZD(EvalZ(t[3], env), t[2][2])
                   ELSE ZCmp(EvalZ(t[2], env), EvalZ(t[3], env)) IN
          (CASE op = "cmp" -> ZFromInt(c) [] op = "<" -> B2Z(c < 0) [] op = ">" -> B2Z(c > 0) [] op = "==" -> B2Z(c = 0)
            [] op = "!=" -> B2Z(c # 0) [] op = "<=" -> B2Z(c <= 0) [] op = ">=" -> B2Z(c >= 0))
     [] OTHER ->
          LET x == EvalZ(t[2], env)  y == EvalZ(t[3], env) IN
          CASE op = "+" -> ZAdd(x, y) [] op = "-" -> ZSub(x, y) [] op = "*" -> ZMul(x, y)
            [] op = "/" -> ZTDivQ(x, y) [] op = "%" -> ZTDivR(x, y)
            [] op = "&" -> ZAnd(x, y) [] op = "|" -> ZOr(x, y) [] op = "^" -> ZXor(x, y)
            [] op = "<<" -> ZShl(x, ZToInt(y)) [] op = ">>" -> ZShr(x, ZToInt(y))        \* mpz_mul_2exp / mpz_fdiv_q_2exp
            [] op = "gcd" -> ZGcd(x, y)
            [] op = "lcm" -> IF x = "0" \/ y = "0" THEN "0" ELSE ZAbs(ZTDivQ(ZMul(x, y), ZGcd(x, y)))

QOfD(d) == LET m == DSigned(d)  e == DExp(d) IN IF e >= 0 THEN <<ZShl(m, e), "1">> ELSE QCanon(m, ZPow2(-e))
RECURSIVE EvalQ(_, _)
EvalQ(t, env) ==
   LET op == t[1] IN
   CASE op = "v" -> env[t[2]]
     [] op \in {"si", "ui"} -> <<t[2], "1">>
     [] op = "d" -> QOfD(t[2])
     [] Len(t) = 2 ->
          (LET x == EvalQ(t[2], env) IN
           CASE op = "neg" -> <<ZNeg(x[1]), x[2]>> [] op = "pos" -> x [] op = "abs" -> <<ZAbs(x[1]), x[2]>>
             [] op = "sgn" -> <<ZFromInt(ZSgn(x[1])), "1">>)
     [] op \in {"<", ">", "==", "!=", "<=", ">=", "cmp"} ->
          (LET c == CmpQ(EvalQ(t[2], env), EvalQ(t[3], env)) IN
           CASE op = "cmp" -> <<ZFromInt(c), "1">> [] op = "<" -> <<B2Z(c < 0), "1">> [] op = ">" -> <<B2Z(c > 0), "1">> [] op = "==" -> <<B2Z(c = 0), "1">>
             [] op = "!=" -> <<B2Z(c # 0), "1">> [] op = "<=" -> <<B2Z(c <= 0), "1">> [] op = ">=" -> <<B2Z(c >= 0), "1">>)
     [] op \in {"<<", ">>"} ->
          (LET x == EvalQ(t[2], env)  k == ZToInt(t[3][2]) IN
           IF op = "<<" THEN QCanon(ZShl(x[1], k), x[2]) ELSE QCanon(x[1], ZShl(x[2], k)))
     [] OTHER ->
          LET x == EvalQ(t[2], env)  y == EvalQ(t[3], env) IN
          CASE op = "+" -> QCanon(ZAdd(ZMul(x[1], y[2]), ZMul(y[1], x[2])), ZMul(x[2], y[2]))
            [] op = "-" -> QCanon(ZSub(ZMul(x[1], y[2]), ZMul(y[1], x[2])), ZMul(x[2], y[2]))
            [] op = "*" -> QCanon(ZMul(x[1], y[1]), ZMul(x[2], y[2]))
            [] op = "/" -> QCanon(ZMul(x[1], y[2]), ZMul(x[2], y[1]))
=============================================================================
