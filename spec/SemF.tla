-------------------------------- MODULE SemF --------------------------------
(***************************************************************************)
(* L2: floating point functions.  A float is the record                    *)
(*   [v (signed integer formed by its limbs), sz (signed limb count),      *)
(*    exp (exponent in limbs), prec (precision in limbs)]                  *)
(* and denotes the dyadic rational v * 2^(64*(exp - |sz|)).                *)
(*                                                                         *)
(* C13: results of add, sub, mul, div, sqrt, their _ui forms and set_q,    *)
(* set_z, set_d differ from the exact value X by less than 2^(2-p)*|X|     *)
(* with p = mpf_get_prec(rop) = 64*prec - 64, and equal X whenever the     *)
(* operands and X each fit in p bits.  Everything is computed exactly on   *)
(* dyadic rationals <<m, e>> = m * 2^e (no tolerance invented here).       *)
(***************************************************************************)
EXTENDS Naturals, Integers, Sequences, BigZ, Dbl

FunsF == {"mpf_init", "mpf_init2", "mpf_clear", "mpf_init_set", "mpf_init_set_ui", "mpf_init_set_si", "mpf_init_set_d",
          "mpf_set_prec", "mpf_set_prec_raw", "mpf_get_prec", "mpf_set", "mpf_set_ui", "mpf_set_si", "mpf_set_d", "mpf_set_z", "mpf_set_q",
          "mpf_swap", "mpf_add", "mpf_sub", "mpf_mul", "mpf_div", "mpf_add_ui", "mpf_sub_ui", "mpf_ui_sub", "mpf_mul_ui", "mpf_div_ui",
          "mpf_ui_div", "mpf_sqrt", "mpf_sqrt_ui", "mpf_neg", "mpf_abs", "mpf_mul_2exp", "mpf_div_2exp", "mpf_floor", "mpf_ceil",
          "mpf_trunc", "mpf_integer_p", "mpf_cmp", "mpf_cmp_ui", "mpf_cmp_si", "mpf_cmp_d", "mpf_sgn", "mpf_get_d", "mpf_get_d_2exp",
          "mpf_get_ui", "mpf_get_si", "mpf_fits_ulong_p", "mpf_fits_slong_p", "mpf_fits_uint_p", "mpf_fits_sint_p", "mpf_fits_ushort_p",
          "mpf_fits_sshort_p", "mpf_fits_ui_p", "mpf_fits_si_p", "mpz_set_f", "mpq_set_f", "mpf_set_default_prec", "drv_setf"}

LOCAL SgnI(i) == IF i > 0 THEN 1 ELSE IF i < 0 THEN -1 ELSE 0
LOCAL Bool(r, c) == (r # 0) = c
LOCAL I(h) == ZToInt(h)
LOCAL AbsI(i) == IF i < 0 THEN -i ELSE i
LOCAL MaxI(a, b) == IF a > b THEN a ELSE b

BitsToPrec(n) == (MaxI(53, n) + 2 * 64 - 1) \div 64          \* __GMPF_BITS_TO_PREC
PrecBits(f) == 64 * f.prec - 64                               \* mpf_get_prec
DefPrecLimbs(b) == BitsToPrec(I(b))

(* ---- dyadic rationals <<m, e>> = m * 2^e ---- *)
Dy(f) == <<f.v, 64 * (f.exp - AbsI(f.sz))>>
DyZ(z) == <<z, 0>>
DyAlign(a, b) == LET e == IF a[2] < b[2] THEN a[2] ELSE b[2] IN <<ZShl(a[1], a[2] - e), ZShl(b[1], b[2] - e), e>>
DyAdd(a, b) == LET t == DyAlign(a, b) IN <<ZAdd(t[1], t[2]), t[3]>>
DyNeg(a) == <<ZNeg(a[1]), a[2]>>
DySub(a, b) == DyAdd(a, DyNeg(b))
DyMul(a, b) == <<ZMul(a[1], b[1]), a[2] + b[2]>>
DyAbs(a) == <<ZAbs(a[1]), a[2]>>
DyCmp(a, b) == LET t == DyAlign(a, b) IN ZCmp(t[1], t[2])
DyEq(a, b) == DyCmp(a, b) = 0
DyShl(a, k) == <<a[1], a[2] + k>>
DyIsZero(a) == a[1] = "0"
(* number of significant bits of the mantissa once trailing zero bits are removed *)
DySigBits(a) == IF a[1] = "0" THEN 0 ELSE ZBitLen(a[1]) - ZCtz(a[1])
DyOfDbl(d) == <<DSigned(d), DExp(d)>>
(* integer part toward zero / floor / ceil of a dyadic, as integers *)
DyTrunc(a) == IF a[2] >= 0 THEN ZShl(a[1], a[2]) ELSE ZTDivQ(a[1], ZPow2(-a[2]))
DyFloor(a) == IF a[2] >= 0 THEN ZShl(a[1], a[2]) ELSE ZShr(a[1], -a[2])
DyCeil(a) == IF a[2] >= 0 THEN ZShl(a[1], a[2]) ELSE ZCDivQ(a[1], ZPow2(-a[2]))

(* |R - X| < 2^(2-p) * |X| ; X = 0 forces R = 0 *)
Close(R, X, p) == IF DyIsZero(X) THEN DyIsZero(R)
                  ELSE DyCmp(DyShl(DyAbs(DySub(R, X)), p - 2), DyAbs(X)) < 0
(* accuracy + exactness clause for a result whose exact value X is dyadic *)
AccurateDy(R, X, p, operandsFit) ==
   /\ Close(R, X, p)
   /\ (operandsFit /\ DySigBits(X) <= p) => DyEq(R, X)
Fits(a, p) == DySigBits(a) <= p

(* quotient A/B (B # 0), both dyadic: |R*B - A| * 2^(p-2) < |A|; exact when A/B is a dyadic of at most p bits *)
AccurateQuot(R, A, B, p, operandsFit) ==
   IF DyIsZero(A) THEN DyIsZero(R)
   ELSE /\ DyCmp(DyShl(DyAbs(DySub(DyMul(R, B), A)), p - 2), DyAbs(A)) < 0
        /\ LET oa == ZShr(ZAbs(A[1]), ZCtz(A[1]))   ob == ZShr(ZAbs(B[1]), ZCtz(B[1])) IN
           (operandsFit /\ ZDivides(ob, oa) /\ ZBitLen(ZTDivQ(oa, ob)) <= p) => DyEq(DyMul(R, B), A)
(* square root of A >= 0: (1-d)^2 A < R^2 < (1+d)^2 A with d = 2^(2-p), R >= 0; exact when A is a square of a p-bit dyadic *)
AccurateSqrt(R, A, p, operandsFit) ==
   IF DyIsZero(A) THEN DyIsZero(R)
   ELSE LET k  == p - 2
            R2 == DyShl(DyMul(R, R), 2 * k)                                  \* R^2 * 2^(2k)
            up == DyMul(DyZ(ZMul(ZAdd(ZPow2(k), "1"), ZAdd(ZPow2(k), "1"))), A)   \* (2^k+1)^2 * A
            lo == DyMul(DyZ(ZMul(ZSub(ZPow2(k), "1"), ZSub(ZPow2(k), "1"))), A)
            \* normalise A = o * 2^(even exponent)
            tz == ZCtz(A[1])
            ev == (A[2] + tz) % 2 = 0
            o  == IF ev THEN ZShr(A[1], tz) ELSE ZShl(ZShr(A[1], tz), 1)
            s  == ZISqrt(o)
        IN  /\ ~ZIsNeg(R[1]) /\ DyCmp(R2, up) < 0 /\ DyCmp(lo, R2) < 0
            /\ (operandsFit /\ ZMul(s, s) = o /\ ZBitLen(s) <= p) => DyEq(DyMul(R, R), A)

(* "exact on the stored value" for copies into a destination: equal when the value fits the destination, otherwise a
   truncation toward zero within the accuracy bound *)
CopyOf(R, X, p) == IF Fits(X, p) THEN DyEq(R, X)
                   ELSE /\ Close(R, X, p) /\ DyCmp(DyAbs(R), DyAbs(X)) <= 0 /\ (ZSgn(R[1]) = ZSgn(X[1]) \/ DyIsZero(R))

SigF(f, A) == CASE f \in {"mpf_div"} -> DyIsZero(Dy(A[3]))
                [] f = "mpf_div_ui" -> A[3] = "0"
                [] f = "mpf_ui_div" -> DyIsZero(Dy(A[3]))
                [] f = "mpf_sqrt" -> A[2].sz < 0
                [] OTHER -> FALSE

RangeOK(z, lo, hi) == ZLe(lo, z) /\ ZLe(z, hi)

PostF(f, A, O, r, x, gl) ==
   LET R == IF f \in {"mpz_set_f", "mpq_set_f"} THEN <<"0", 0>> ELSE Dy(O[1])
       p == IF f \in {"mpz_set_f", "mpq_set_f"} THEN 0 ELSE PrecBits(O[1])
   IN
   CASE f = "mpf_init" -> DyIsZero(R) /\ O[1].prec = gl.defprec
     [] f = "mpf_init2" -> DyIsZero(R) /\ O[1].prec = BitsToPrec(I(A[2]))
     [] f = "mpf_clear" -> TRUE
     [] f = "drv_setf" -> TRUE
     [] f = "mpf_set_default_prec" -> TRUE
     [] f = "mpf_init_set" -> O[1].prec = gl.defprec /\ CopyOf(R, Dy(A[2]), p)
     [] f \in {"mpf_init_set_ui", "mpf_init_set_si"} -> O[1].prec = gl.defprec /\ DyEq(R, DyZ(A[2]))
     [] f = "mpf_init_set_d" -> O[1].prec = gl.defprec /\ DyEq(R, DyOfDbl(A[2]))
     [] f = "mpf_set_prec" -> O[1].prec = BitsToPrec(I(A[2])) /\ CopyOf(R, Dy(A[1]), PrecBits(O[1]) + 64)
     [] f = "mpf_set_prec_raw" -> O[1].prec = BitsToPrec(I(A[2])) /\ O[1].v = A[1].v /\ O[1].exp = A[1].exp
     [] f = "mpf_get_prec" -> r = ZFromInt(PrecBits(A[1]))
     [] f = "mpf_set" -> CopyOf(R, Dy(A[2]), p) /\ O[1].prec = A[1].prec
     [] f \in {"mpf_set_ui", "mpf_set_si"} -> DyEq(R, DyZ(A[2]))
     [] f = "mpf_set_d" -> DyEq(R, DyOfDbl(A[2]))
     [] f = "mpf_set_z" -> AccurateDy(R, DyZ(A[2]), p, TRUE)
     [] f = "mpf_set_q" -> AccurateQuot(R, DyZ(A[2][1]), DyZ(A[2][2]), p, TRUE)
     [] f = "mpf_swap" -> /\ O[1].v = A[2].v /\ O[1].exp = A[2].exp /\ O[1].prec = A[2].prec
                          /\ O[2].v = A[1].v /\ O[2].exp = A[1].exp /\ O[2].prec = A[1].prec
     [] f = "mpf_add" -> AccurateDy(R, DyAdd(Dy(A[2]), Dy(A[3])), p, Fits(Dy(A[2]), p) /\ Fits(Dy(A[3]), p))
     [] f = "mpf_sub" -> AccurateDy(R, DySub(Dy(A[2]), Dy(A[3])), p, Fits(Dy(A[2]), p) /\ Fits(Dy(A[3]), p))
     [] f = "mpf_mul" -> AccurateDy(R, DyMul(Dy(A[2]), Dy(A[3])), p, Fits(Dy(A[2]), p) /\ Fits(Dy(A[3]), p))
     [] f = "mpf_div" -> AccurateQuot(R, Dy(A[2]), Dy(A[3]), p, Fits(Dy(A[2]), p) /\ Fits(Dy(A[3]), p))
     [] f = "mpf_add_ui" -> AccurateDy(R, DyAdd(Dy(A[2]), DyZ(A[3])), p, Fits(Dy(A[2]), p))
     [] f = "mpf_sub_ui" -> AccurateDy(R, DySub(Dy(A[2]), DyZ(A[3])), p, Fits(Dy(A[2]), p))
     [] f = "mpf_ui_sub" -> AccurateDy(R, DySub(DyZ(A[2]), Dy(A[3])), p, Fits(Dy(A[3]), p))
     [] f = "mpf_mul_ui" -> AccurateDy(R, DyMul(Dy(A[2]), DyZ(A[3])), p, Fits(Dy(A[2]), p))
     [] f = "mpf_div_ui" -> AccurateQuot(R, Dy(A[2]), DyZ(A[3]), p, Fits(Dy(A[2]), p))
     [] f = "mpf_ui_div" -> AccurateQuot(R, DyZ(A[2]), Dy(A[3]), p, Fits(Dy(A[3]), p))
     [] f = "mpf_sqrt" -> AccurateSqrt(R, Dy(A[2]), p, Fits(Dy(A[2]), p))
     [] f = "mpf_sqrt_ui" -> AccurateSqrt(R, DyZ(A[2]), p, TRUE)
     [] f = "mpf_neg" -> CopyOf(R, DyNeg(Dy(A[2])), p)
     [] f = "mpf_abs" -> CopyOf(R, DyAbs(Dy(A[2])), p)
     [] f = "mpf_mul_2exp" -> CopyOf(R, DyShl(Dy(A[2]), I(A[3])), p)
     [] f = "mpf_div_2exp" -> CopyOf(R, DyShl(Dy(A[2]), -I(A[3])), p)
     [] f = "mpf_floor" -> CopyOf(R, DyZ(DyFloor(Dy(A[2]))), p)
     [] f = "mpf_ceil" -> CopyOf(R, DyZ(DyCeil(Dy(A[2]))), p)
     [] f = "mpf_trunc" -> CopyOf(R, DyZ(DyTrunc(Dy(A[2]))), p)
     [] f = "mpf_integer_p" -> Bool(r, DyEq(DyZ(DyTrunc(Dy(A[1]))), Dy(A[1])))
     [] f = "mpf_cmp" -> SgnI(r) = DyCmp(Dy(A[1]), Dy(A[2]))
     [] f \in {"mpf_cmp_ui", "mpf_cmp_si"} -> SgnI(r) = DyCmp(Dy(A[1]), DyZ(A[2]))
     [] f = "mpf_cmp_d" -> IF DIsInf(A[2]) THEN SgnI(r) = (IF A[2][1] = 1 THEN 1 ELSE -1)
                           ELSE SgnI(r) = DyCmp(Dy(A[1]), DyOfDbl(A[2]))
     [] f = "mpf_sgn" -> r = ZSgn(A[1].v)
     [] f = "mpf_get_d" ->       \* truncation toward zero to 53 bits; outside the double range: system dependent
           LET X == Dy(A[1])  top == IF DyIsZero(X) THEN 0 ELSE ZBitLen(X[1]) + X[2] IN
           IF DyIsZero(X) THEN DIsZero(r)
           ELSE IF top > 1023 \/ top < -1020 THEN TRUE
           ELSE /\ DIsFinite(r) /\ r[2] > 0 /\ r[1] = (IF ZIsNeg(X[1]) THEN 1 ELSE 0)
                /\ LET sh == ZBitLen(X[1]) - 53
                       m  == IF sh >= 0 THEN ZShr(ZAbs(X[1]), sh) ELSE ZShl(ZAbs(X[1]), -sh)
                   IN  DMant(r) = m /\ DExp(r) = X[2] + sh
     [] f = "mpf_get_d_2exp" ->
           LET X == Dy(A[1]) IN
           IF DyIsZero(X) THEN DIsZero(r) /\ x = "0"
           ELSE LET bl == ZBitLen(X[1])
                    m == IF bl >= 53 THEN ZShr(ZAbs(X[1]), bl - 53) ELSE ZShl(ZAbs(X[1]), 53 - bl)
                IN  /\ DIsFinite(r) /\ DMant(r) = m /\ DExp(r) = -53 /\ r[1] = (IF ZIsNeg(X[1]) THEN 1 ELSE 0)
                    /\ x = ZFromInt(bl + X[2])
     [] f = "mpf_get_ui" -> LET t == DyTrunc(Dy(A[1])) IN RangeOK(ZAbs(t), "0", "ffffffffffffffff") => r = ZAbs(t)
     [] f = "mpf_get_si" -> LET t == DyTrunc(Dy(A[1])) IN RangeOK(t, "-8000000000000000", "7fffffffffffffff") => r = t
     [] f \in {"mpf_fits_ulong_p", "mpf_fits_ui_p"} -> Bool(r, RangeOK(DyTrunc(Dy(A[1])), "0", "ffffffffffffffff"))
     [] f \in {"mpf_fits_slong_p", "mpf_fits_si_p"} -> Bool(r, RangeOK(DyTrunc(Dy(A[1])), "-8000000000000000", "7fffffffffffffff"))
     [] f = "mpf_fits_uint_p" -> Bool(r, RangeOK(DyTrunc(Dy(A[1])), "0", "ffffffff"))
     [] f = "mpf_fits_sint_p" -> Bool(r, RangeOK(DyTrunc(Dy(A[1])), "-80000000", "7fffffff"))
     [] f = "mpf_fits_ushort_p" -> Bool(r, RangeOK(DyTrunc(Dy(A[1])), "0", "ffff"))
     [] f = "mpf_fits_sshort_p" -> Bool(r, RangeOK(DyTrunc(Dy(A[1])), "-8000", "7fff"))
     [] f = "mpz_set_f" -> O[1].v = DyTrunc(Dy(A[2]))
     [] f = "mpq_set_f" ->       \* exact conversion, canonical
           LET X == Dy(A[2]) IN
           IF X[2] >= 0 THEN O[1].n.v = ZShl(X[1], X[2]) /\ O[1].d.v = "1"
           ELSE LET g == ZGcd(X[1], ZPow2(-X[2])) IN
                IF X[1] = "0" THEN O[1].n.v = "0" /\ O[1].d.v = "1"
                ELSE O[1].n.v = ZTDivQ(X[1], g) /\ O[1].d.v = ZTDivQ(ZPow2(-X[2]), g)
=============================================================================
