-------------------------------- MODULE SemF --------------------------------
EXTENDS Naturals, Integers, Sequences, BigZ, Dbl
FunsF == {}
PostF(f, A, O, r, x, gl) == FALSE
DefPrecLimbs(b) == 2
SigF(f, A) == FALSE
=============================================================================
