-------------------------------- MODULE SemF --------------------------------
(***************************************************************************)
(* L2: floating point functions.  A float is the record                    *)
(*   [v (signed integer formed by its limbs), sz (signed limb count),      *)
(*    exp (exponent in limbs), prec (precision in limbs)]                  *)
(* and denotes the dyadic rational v * 2^(64*(exp - |sz|)).                *)
(*                                                                         *)
(* C13: results of add, sub, mul, div, sqrt, their _ui forms and set_q,    *)
(* set_z, set_d differ from the exact value X by less than 2^(2-p)*|X|     *)
(* with p = mpf_get_prec(rop) = 64*prec - 64, and equal X whenever the     *)
(* operands and X each fit in p bits.  Everything is computed exactly on   *)
(* dyadic rationals <<m, e>> = m * 2^e (no tolerance invented here).       *)
(***************************************************************************)
EXTENDS Naturals, Integers, Sequences, BigZ, Dbl

FunsF == {"mpf_init", "mpf_init2", "mpf_clear", "mpf_init_set", "mpf_init_set_ui", "mpf_init_set_si", "mpf_init_set_d",
          "mpf_set_prec", "mpf_set_prec_raw", "mpf_get_prec", "mpf_set", "mpf_set_ui", "mpf_set_si", "mpf_set_d", "mpf_set_z", "mpf_set_q",
          "mpf_swap", "mpf_add", "mpf_sub", "mpf_mul", "mpf_div", "mpf_add_ui", "mpf_sub_ui", "mpf_ui_sub", "mpf_mul_ui", "mpf_div_ui",
          "mpf_ui_div", "mpf_sqrt", "mpf_sqrt_ui", "mpf_neg", "mpf_abs", "mpf_mul_2exp", "mpf_div_2exp", "mpf_floor", "mpf_ceil",
          "mpf_trunc", "mpf_integer_p", "mpf_cmp", "mpf_cmp_ui", "mpf_cmp_si", "mpf_cmp_d", "mpf_sgn", "mpf_get_d", "mpf_get_d_2exp",
          "mpf_get_ui", "mpf_get_si", "mpf_fits_ulong_p", "mpf_fits_slong_p", "mpf_fits_uint_p", "mpf_fits_sint_p", "mpf_fits_ushort_p",
          "mpf_fits_sshort_p", "mpf_fits_ui_p", "mpf_fits_si_p", "mpz_set_f", "mpq_set_f", "mpf_set_default_prec", "drv_setf",
          "mpf_set_str", "mpf_init_set_str", "mpf_get_str_n", "mpf_get_str_buf", "mpf_pow_ui", "mpf_cmp_z", "mpf_size", "mpf_eq", "mpf_reldiff",
          "mpf_get_default_prec", "mpf_inits", "mpf_clears"}

LOCAL SgnI(i) == IF i > 0 THEN 1 ELSE IF i < 0 THEN -1 ELSE 0
LOCAL Bool(r, c) == (r # 0) = c
LOCAL I(h) == ZToInt(h)
LOCAL AbsI(i) == IF i < 0 THEN -i ELSE i
LOCAL MaxI(a, b) == IF a > b THEN a ELSE b

BitsToPrec(n) == (MaxI(53, n) + 2 * 64 - 1) \div 64          \* __GMPF_BITS_TO_PREC
PrecBits(f) == 64 * f.prec - 64                               \* mpf_get_prec
DefPrecLimbs(b) == BitsToPrec(I(b))

(* ---- dyadic rationals <<m, e>> = m * 2^e ---- *)
Dy(f) == <<f.v, 64 * (f.exp - AbsI(f.sz))>>
DyZ(z) == <<z, 0>>
DyAlign(a, b) == LET e == IF a[2] < b[2] THEN a[2] ELSE b[2] IN <<ZShl(a[1], a[2] - e), ZShl(b[1], b[2] - e), e>>
DyAdd(a, b) == LET t == DyAlign(a, b) IN <<ZAdd(t[1], t[2]), t[3]>>
DyNeg(a) == <<ZNeg(a[1]), a[2]>>
DySub(a, b) == DyAdd(a, DyNeg(b))
DyMul(a, b) == <<ZMul(a[1], b[1]), a[2] + b[2]>>
DyAbs(a) == <<ZAbs(a[1]), a[2]>>
DyCmp(a, b) == LET t == DyAlign(a, b) IN ZCmp(t[1], t[2])
DyEq(a, b) == DyCmp(a, b) = 0
DyShl(a, k) == <<a[1], a[2] + k>>
DyIsZero(a) == a[1] = "0"
(* number of significant bits of the mantissa once trailing zero bits are removed *)
DySigBits(a) == IF a[1] = "0" THEN 0 ELSE ZBitLen(a[1]) - ZCtz(a[1])
DyOfDbl(d) == <<DSigned(d), DExp(d)>>
(* integer part toward zero / floor / ceil of a dyadic, as integers *)
DyTrunc(a) == IF a[2] >= 0 THEN ZShl(a[1], a[2]) ELSE ZTDivQ(a[1], ZPow2(-a[2]))
DyFloor(a) == IF a[2] >= 0 THEN ZShl(a[1], a[2]) ELSE ZShr(a[1], -a[2])
DyCeil(a) == IF a[2] >= 0 THEN ZShl(a[1], a[2]) ELSE ZCDivQ(a[1], ZPow2(-a[2]))

(* |R - X| < 2^(2-p) * |X| ; X = 0 forces R = 0 *)
Close(R, X, p) == IF DyIsZero(X) THEN DyIsZero(R)
                  ELSE DyCmp(DyShl(DyAbs(DySub(R, X)), p - 2), DyAbs(X)) < 0
(* accuracy + exactness clause for a result whose exact value X is dyadic *)
AccurateDy(R, X, p, operandsFit) ==
   /\ Close(R, X, p)
   /\ (operandsFit /\ DySigBits(X) <= p) => DyEq(R, X)
Fits(a, p) == DySigBits(a) <= p

(* quotient A/B (B # 0), both dyadic: |R*B - A| * 2^(p-2) < |A|; exact when A/B is a dyadic of at most p bits *)
AccurateQuot(R, A, B, p, operandsFit) ==
   IF DyIsZero(A) THEN DyIsZero(R)
   ELSE /\ DyCmp(DyShl(DyAbs(DySub(DyMul(R, B), A)), p - 2), DyAbs(A)) < 0
        /\ LET oa == ZShr(ZAbs(A[1]), ZCtz(A[1]))   ob == ZShr(ZAbs(B[1]), ZCtz(B[1])) IN
           (operandsFit /\ ZDivides(ob, oa) /\ ZBitLen(ZTDivQ(oa, ob)) <= p) => DyEq(DyMul(R, B), A)
(* square root of A >= 0: (1-d)^2 A < R^2 < (1+d)^2 A with d = 2^(2-p), R >= 0; exact when A is a square of a p-bit dyadic *)
AccurateSqrt(R, A, p, operandsFit) ==
   IF DyIsZero(A) THEN DyIsZero(R)
   ELSE LET k  == p - 2
            R2 == DyShl(DyMul(R, R), 2 * k)                                  \* R^2 * 2^(2k)
            up == DyMul(DyZ(ZMul(ZAdd(ZPow2(k), "1"), ZAdd(ZPow2(k), "1"))), A)   \* (2^k+1)^2 * A
            lo == DyMul(DyZ(ZMul(ZSub(ZPow2(k), "1"), ZSub(ZPow2(k), "1"))), A)
            \* normalise A = o * 2^(even exponent)
            tz == ZCtz(A[1])
            ev == (A[2] + tz) % 2 = 0
            o  == IF ev THEN ZShr(A[1], tz) ELSE ZShl(ZShr(A[1], tz), 1)
            s  == ZISqrt(o)
        IN  /\ ~ZIsNeg(R[1]) /\ DyCmp(R2, up) < 0 /\ DyCmp(lo, R2) < 0
            /\ (operandsFit /\ ZMul(s, s) = o /\ ZBitLen(s) <= p) => DyEq(DyMul(R, R), A)

(* "exact on the stored value" for copies into a destination: equal when the value fits the destination, otherwise a
   truncation toward zero within the accuracy bound *)
CopyOf(R, X, p) == IF Fits(X, p) THEN DyEq(R, X)
                   ELSE /\ Close(R, X, p) /\ DyCmp(DyAbs(R), DyAbs(X)) <= 0 /\ (ZSgn(R[1]) = ZSgn(X[1]) \/ DyIsZero(R))

SigF(f, A) == CASE f \in {"mpf_div"} -> DyIsZero(Dy(A[3]))
                [] f = "mpf_div_ui" -> A[3] = "0"
                [] f = "mpf_ui_div" -> DyIsZero(Dy(A[3]))
                [] f = "mpf_sqrt" -> A[2].sz < 0
                [] OTHER -> FALSE

RangeOK(z, lo, hi) == ZLe(lo, z) /\ ZLe(z, hi)

(* ---- text (C13: mpf_set_str within the accuracy bound, mpf_get_str within one unit of the last requested digit) ---- *)
LOCAL Ch(s, i) == SubSeq(s, i, i)
LOCAL Rest(s, i) == SubSeq(s, i, Len(s))
LOCAL AlphaL == "0123456789abcdefghijklmnopqrstuvwxyz"
LOCAL AlphaU == "0123456789ABCDEFGHIJKLMNOPQRSTUVWXYZ"
LOCAL Alpha62F == "0123456789ABCDEFGHIJKLMNOPQRSTUVWXYZabcdefghijklmnopqrstuvwxyz"
RECURSIVE LastExpMark(_, _, _)
LastExpMark(s, ab, i) ==      \* position of the last exponent marker at index > 1 ('@'; 'e'/'E' only when they are not digits), 0 if none
   IF i <= 1 THEN 0
   ELSE IF Ch(s, i) = "@" \/ (ab <= 10 /\ Ch(s, i) \in {"e", "E"}) THEN i ELSE LastExpMark(s, ab, i - 1)
FirstCh(s, c, i) == StrFind(s, c)          \* (i = 1) BigZ: TLA+ definition + accelerator
(* The float grammar of the manual: optional leading white space, optional '-', digits of the base with at most one
   point and at least one digit, optionally an exponent marker, an optional sign and exponent digits (decimal for a
   positive base, in the base itself for a negative one).  White space elsewhere, and text after the exponent, are
   not fixed by the manual: open.  Result [ok, open, num, den]: the value is num/den. *)
ParseFlt(str, base) ==
   LET ab == IF base < 0 THEN -base ELSE IF base = 0 THEN 10 ELSE base
       eb == IF base <= 0 THEN 10 ELSE base            \* the code: exp_base = base, or 10 when base <= 0
       s1 == StrStripWS(str)
       neg == Len(s1) > 0 /\ Ch(s1, 1) = "-"
       s2 == IF neg THEN Rest(s1, 2) ELSE s1
       ke == LastExpMark(s2, ab, Len(s2))
       mant == IF ke = 0 THEN s2 ELSE SubSeq(s2, 1, ke - 1)
       ex0 == IF ke = 0 THEN "" ELSE Rest(s2, ke + 1)
       eneg == Len(ex0) > 0 /\ Ch(ex0, 1) = "-"
       ex1 == IF Len(ex0) > 0 /\ Ch(ex0, 1) \in {"-", "+"} THEN Rest(ex0, 2) ELSE ex0
       kp == FirstCh(mant, ".", 1)
       ip == IF kp = 0 THEN mant ELSE SubSeq(mant, 1, kp - 1)
       fp == IF kp = 0 THEN "" ELSE Rest(mant, kp + 1)
       al == IF ab <= 36 THEN AlphaL ELSE Alpha62F
       ds == IF ab <= 36 THEN StrLower(ip \o fp) ELSE ip \o fp
       eal == IF eb <= 36 THEN AlphaL ELSE Alpha62F
       eds == IF eb <= 36 THEN StrLower(ex1) ELSE ex1
       hasWS == \E i \in 1..Len(s2) : Ch(s2, i) \in {" ", "\t", "\n", "\r", "\f"}
       digitsOK == Len(ds) > 0 /\ StrFirstBad(ds, ab, al) >= Len(ds)
       expOK == ke = 0 \/ (Len(eds) > 0 /\ StrFirstBad(eds, eb, eal) >= Len(eds))
   IN  IF hasWS \/ (digitsOK /\ ke # 0 /\ Len(eds) > 0 /\ ~expOK) THEN [ok |-> FALSE, open |-> TRUE, num |-> "0", den |-> "1"]
       ELSE IF ~digitsOK \/ ~expOK THEN [ok |-> FALSE, open |-> FALSE, num |-> "0", den |-> "1"]
       ELSE LET M == ZFromDigits(ds, ab, al)
                E0 == IF ke = 0 THEN 0 ELSE ZToInt(ZFromDigits(eds, eb, eal))
                E == (IF eneg THEN -E0 ELSE E0) - Len(fp)
                Ms == IF neg THEN ZNeg(M) ELSE M
            IN  IF E >= 0 THEN [ok |-> TRUE, open |-> FALSE, num |-> ZMul(Ms, ZPow(ZFromInt(ab), E)), den |-> "1"]
                ELSE [ok |-> TRUE, open |-> FALSE, num |-> Ms, den |-> ZPow(ZFromInt(ab), -E)]
(* "operands fit" for a string: the digit string as an integer and the power of the base it is scaled by *)
SetStrOK(R, pr, p) == AccurateQuot(R, DyZ(pr.num), DyZ(pr.den), p, Fits(DyZ(pr.num), p) /\ Fits(DyZ(pr.den), p))

(* mpf_get_str(NULL, &x, base, n, op) = text: digits d1..dk denote 0.d1..dk * base^x *)
GetStrOK(text, x, base, n, F) ==
   LET X == Dy(F)
       ab == IF base < 0 THEN -base ELSE base
       al == IF base < 0 THEN AlphaU ELSE IF base <= 36 THEN AlphaL ELSE Alpha62F
       neg == Len(text) > 0 /\ Ch(text, 1) = "-"
       ds == IF neg THEN Rest(text, 2) ELSE text
       k == Len(ds)
   IN  IF DyIsZero(X) THEN text = "" /\ x = "0"
       ELSE /\ k >= 1 /\ (n > 0 => k <= n) /\ neg = ZIsNeg(X[1])
            /\ StrFirstBad(ds, ab, al) >= k
            /\ Ch(ds, 1) # "0" /\ Ch(ds, k) # "0"              \* a fraction 0.d1..: leading digit non-zero; trailing zeros are not returned
            /\ LET D == ZFromDigits(ds, ab, al)
                    E == ZToInt(x)
                    nn == IF n = 0 THEN k ELSE n                      \* unit of the last requested digit: base^(E - nn)
                    s == MaxI(0, MaxI(k - E, nn - E))                 \* scale by base^s * 2^t so that everything is an integer
                    t == MaxI(0, -X[2])
                    B == ZFromInt(ab)
                    lhs == ZAbs(ZSub(ZShl(ZMul(D, ZPow(B, E - k + s)), t), ZMul(ZShl(ZAbs(X[1]), X[2] + t), ZPow(B, s))))
                    rhs == ZShl(ZPow(B, E - nn + s), t)
                IN  /\ ZLt(lhs, rhs)
                    \* n = 0: the maximum accurate number of digits, i.e. at least the accuracy every other result has
                    /\ (n = 0 => ZLt(ZShl(lhs, PrecBits(F) - 2), ZMul(ZShl(ZAbs(X[1]), X[2] + t), ZPow(B, s))))

RECURSIVE DyPow(_, _)
DyPow(a, e) == IF e = 0 THEN <<"1", 0>> ELSE IF e % 2 = 1 THEN DyMul(a, DyPow(a, e - 1)) ELSE LET h == DyPow(a, e \div 2) IN DyMul(h, h)
IBitLen(i) == ZBitLen(ZFromInt(i))
(* first n bits (from the leading one bit) of two non-zero values of the same sign *)
SameTopBits(U, V, n) ==
   LET topU == ZBitLen(U[1]) + U[2]  topV == ZBitLen(V[1]) + V[2] IN
   /\ topU = topV
   /\ DyFloor(DyShl(DyAbs(U), n - topU)) = DyFloor(DyShl(DyAbs(V), n - topV))

PostF(f, A, O, r, x, gl) ==
   LET R == IF f \in {"mpz_set_f", "mpq_set_f"} THEN <<"0", 0>> ELSE Dy(O[1])
       p == IF f \in {"mpz_set_f", "mpq_set_f"} THEN 0 ELSE PrecBits(O[1])
   IN
   CASE f = "mpf_init" -> DyIsZero(R) /\ O[1].prec = gl.defprec
     [] f = "mpf_init2" -> DyIsZero(R) /\ O[1].prec = BitsToPrec(I(A[2]))
     [] f = "mpf_clear" -> TRUE
     [] f = "drv_setf" -> TRUE
     [] f = "mpf_set_default_prec" -> TRUE
     [] f = "mpf_init_set" -> O[1].prec = gl.defprec /\ CopyOf(R, Dy(A[2]), p)
     [] f \in {"mpf_init_set_ui", "mpf_init_set_si"} -> O[1].prec = gl.defprec /\ DyEq(R, DyZ(A[2]))
     [] f = "mpf_init_set_d" -> O[1].prec = gl.defprec /\ DyEq(R, DyOfDbl(A[2]))
     [] f = "mpf_set_prec" -> O[1].prec = BitsToPrec(I(A[2])) /\ CopyOf(R, Dy(A[1]), PrecBits(O[1]) + 64)
     [] f = "mpf_set_prec_raw" -> O[1].prec = BitsToPrec(I(A[2])) /\ O[1].v = A[1].v /\ O[1].exp = A[1].exp
     [] f = "mpf_get_prec" -> r = ZFromInt(PrecBits(A[1]))
     [] f = "mpf_set" -> CopyOf(R, Dy(A[2]), p) /\ O[1].prec = A[1].prec
     [] f \in {"mpf_set_ui", "mpf_set_si"} -> DyEq(R, DyZ(A[2]))
     [] f = "mpf_set_d" -> DyEq(R, DyOfDbl(A[2]))
     [] f = "mpf_set_z" -> AccurateDy(R, DyZ(A[2]), p, TRUE)
     [] f = "mpf_set_q" -> AccurateQuot(R, DyZ(A[2][1]), DyZ(A[2][2]), p, TRUE)
     [] f = "mpf_swap" -> /\ O[1].v = A[2].v /\ O[1].exp = A[2].exp /\ O[1].prec = A[2].prec
                          /\ O[2].v = A[1].v /\ O[2].exp = A[1].exp /\ O[2].prec = A[1].prec
     [] f = "mpf_add" -> AccurateDy(R, DyAdd(Dy(A[2]), Dy(A[3])), p, Fits(Dy(A[2]), p) /\ Fits(Dy(A[3]), p))
     [] f = "mpf_sub" -> AccurateDy(R, DySub(Dy(A[2]), Dy(A[3])), p, Fits(Dy(A[2]), p) /\ Fits(Dy(A[3]), p))
     [] f = "mpf_mul" -> AccurateDy(R, DyMul(Dy(A[2]), Dy(A[3])), p, Fits(Dy(A[2]), p) /\ Fits(Dy(A[3]), p))
     [] f = "mpf_div" -> AccurateQuot(R, Dy(A[2]), Dy(A[3]), p, Fits(Dy(A[2]), p) /\ Fits(Dy(A[3]), p))
     [] f = "mpf_add_ui" -> AccurateDy(R, DyAdd(Dy(A[2]), DyZ(A[3])), p, Fits(Dy(A[2]), p))
     [] f = "mpf_sub_ui" -> AccurateDy(R, DySub(Dy(A[2]), DyZ(A[3])), p, Fits(Dy(A[2]), p))
     [] f = "mpf_ui_sub" -> AccurateDy(R, DySub(DyZ(A[2]), Dy(A[3])), p, Fits(Dy(A[3]), p))
     [] f = "mpf_mul_ui" -> AccurateDy(R, DyMul(Dy(A[2]), DyZ(A[3])), p, Fits(Dy(A[2]), p))
     [] f = "mpf_div_ui" -> AccurateQuot(R, Dy(A[2]), DyZ(A[3]), p, Fits(Dy(A[2]), p))
     [] f = "mpf_ui_div" -> AccurateQuot(R, DyZ(A[2]), Dy(A[3]), p, Fits(Dy(A[3]), p))
     [] f = "mpf_sqrt" -> AccurateSqrt(R, Dy(A[2]), p, Fits(Dy(A[2]), p))
     [] f = "mpf_sqrt_ui" -> AccurateSqrt(R, DyZ(A[2]), p, TRUE)
     [] f = "mpf_neg" -> CopyOf(R, DyNeg(Dy(A[2])), p)
     [] f = "mpf_abs" -> CopyOf(R, DyAbs(Dy(A[2])), p)
     [] f = "mpf_mul_2exp" -> CopyOf(R, DyShl(Dy(A[2]), I(A[3])), p)
     [] f = "mpf_div_2exp" -> CopyOf(R, DyShl(Dy(A[2]), -I(A[3])), p)
        \* exact when the integer fits the destination; an integer longer than the destination precision is cut to it within the accuracy bound,
        \* toward zero or in the direction of the rounding function (the manual fixes neither)
     [] f = "mpf_floor" -> LET X == DyZ(DyFloor(Dy(A[2]))) IN IF Fits(X, p) THEN DyEq(R, X) ELSE Close(R, X, p) /\ ZSgn(R[1]) = ZSgn(X[1])
     [] f = "mpf_ceil" -> LET X == DyZ(DyCeil(Dy(A[2]))) IN IF Fits(X, p) THEN DyEq(R, X) ELSE Close(R, X, p) /\ ZSgn(R[1]) = ZSgn(X[1])
     [] f = "mpf_trunc" -> CopyOf(R, DyZ(DyTrunc(Dy(A[2]))), p)
     [] f = "mpf_integer_p" -> Bool(r, DyEq(DyZ(DyTrunc(Dy(A[1]))), Dy(A[1])))
     [] f = "mpf_cmp" -> SgnI(r) = DyCmp(Dy(A[1]), Dy(A[2]))
     [] f \in {"mpf_cmp_ui", "mpf_cmp_si"} -> SgnI(r) = DyCmp(Dy(A[1]), DyZ(A[2]))
     [] f = "mpf_cmp_d" -> IF DIsInf(A[2]) THEN SgnI(r) = (IF A[2][1] = 1 THEN 1 ELSE -1)
                           ELSE SgnI(r) = DyCmp(Dy(A[1]), DyOfDbl(A[2]))
     [] f = "mpf_sgn" -> r = ZSgn(A[1].v)
     [] f = "mpf_get_d" ->       \* truncation toward zero to 53 bits; outside the double range: system dependent
           LET X == Dy(A[1])  top == IF DyIsZero(X) THEN 0 ELSE ZBitLen(X[1]) + X[2] IN
           IF DyIsZero(X) THEN DIsZero(r)
           ELSE IF top > 1023 \/ top < -1020 THEN TRUE
           ELSE /\ DIsFinite(r) /\ r[2] > 0 /\ r[1] = (IF ZIsNeg(X[1]) THEN 1 ELSE 0)
                /\ LET sh == ZBitLen(X[1]) - 53
                       m  == IF sh >= 0 THEN ZShr(ZAbs(X[1]), sh) ELSE ZShl(ZAbs(X[1]), -sh)
                   IN  DMant(r) = m /\ DExp(r) = X[2] + sh
     [] f = "mpf_get_d_2exp" ->
           LET X == Dy(A[1]) IN
           IF DyIsZero(X) THEN DIsZero(r) /\ x = "0"
           ELSE LET bl == ZBitLen(X[1])
                    m == IF bl >= 53 THEN ZShr(ZAbs(X[1]), bl - 53) ELSE ZShl(ZAbs(X[1]), 53 - bl)
                IN  /\ DIsFinite(r) /\ DMant(r) = m /\ DExp(r) = -53 /\ r[1] = (IF ZIsNeg(X[1]) THEN 1 ELSE 0)
                    /\ x = ZFromInt(bl + X[2])
     [] f = "mpf_get_ui" -> LET t == DyTrunc(Dy(A[1])) IN RangeOK(ZAbs(t), "0", "ffffffffffffffff") => r = ZAbs(t)
     [] f = "mpf_get_si" -> LET t == DyTrunc(Dy(A[1])) IN RangeOK(t, "-8000000000000000", "7fffffffffffffff") => r = t
     [] f \in {"mpf_fits_ulong_p", "mpf_fits_ui_p"} -> Bool(r, RangeOK(DyTrunc(Dy(A[1])), "0", "ffffffffffffffff"))
     [] f \in {"mpf_fits_slong_p", "mpf_fits_si_p"} -> Bool(r, RangeOK(DyTrunc(Dy(A[1])), "-8000000000000000", "7fffffffffffffff"))
     [] f = "mpf_fits_uint_p" -> Bool(r, RangeOK(DyTrunc(Dy(A[1])), "0", "ffffffff"))
     [] f = "mpf_fits_sint_p" -> Bool(r, RangeOK(DyTrunc(Dy(A[1])), "-80000000", "7fffffff"))
     [] f = "mpf_fits_ushort_p" -> Bool(r, RangeOK(DyTrunc(Dy(A[1])), "0", "ffff"))
     [] f = "mpf_fits_sshort_p" -> Bool(r, RangeOK(DyTrunc(Dy(A[1])), "-8000", "7fff"))
     [] f = "mpf_set_str" -> LET pr == ParseFlt(A[2], A[3]) IN
                             IF pr.open THEN TRUE ELSE IF pr.ok THEN r = 0 /\ SetStrOK(R, pr, p) ELSE r = -1
     [] f = "mpf_init_set_str" -> LET pr == ParseFlt(A[2], A[3]) IN
                                  /\ O[1].prec = gl.defprec
                                  /\ IF pr.open THEN TRUE ELSE IF pr.ok THEN r = 0 /\ SetStrOK(R, pr, p) ELSE r = -1
     [] f \in {"mpf_get_str_n", "mpf_get_str_buf"} -> GetStrOK(r.s, x, A[1], I(A[2]), A[3])
     [] f = "mpf_pow_ui" ->      \* a product of e factors, each within the bound of mpf_mul: the bound composed e times; exact when everything fits
           LET e == I(A[3])  X == DyPow(Dy(A[2]), e) IN
           /\ Close(R, X, p - IBitLen(e) - 2)
           /\ (Fits(Dy(A[2]), p) /\ DySigBits(X) <= p) => DyEq(R, X)
     [] f = "mpf_cmp_z" -> SgnI(r) = DyCmp(Dy(A[1]), DyZ(A[2]))
     [] f = "mpf_size" -> r = ZFromInt(AbsI(A[1].sz))
     [] f = "mpf_get_default_prec" -> r = ZFromInt(64 * gl.defprec - 64)
     [] f = "mpf_eq" ->          \* n >= 1 bits
           LET U == Dy(A[1])  V == Dy(A[2]) IN
           IF DyIsZero(U) \/ DyIsZero(V) THEN Bool(r, DyIsZero(U) /\ DyIsZero(V))
           ELSE IF ZIsNeg(U[1]) # ZIsNeg(V[1]) THEN r = 0
           ELSE Bool(r, SameTopBits(U, V, I(A[3])))
     [] f = "mpf_reldiff" ->     \* |op1 - op2| / op1 : a difference then a quotient, each within the bound (composed: 2^(4-p)); op1 = 0 is not defined by the manual
           LET a == Dy(A[2])  b == Dy(A[3])  d == DyAbs(DySub(a, b)) IN
           IF DyIsZero(a) THEN TRUE
           ELSE IF DyIsZero(d) THEN DyIsZero(R)
           ELSE DyCmp(DyShl(DyAbs(DySub(DyMul(R, a), d)), p - 4), d) < 0
     [] f = "mpf_inits" -> \A k \in 1..3 : DyIsZero(Dy(O[k])) /\ O[k].prec = gl.defprec
     [] f = "mpf_clears" -> TRUE
     [] f = "mpz_set_f" -> O[1].v = DyTrunc(Dy(A[2]))
     [] f = "mpq_set_f" ->       \* exact conversion, canonical
           LET X == Dy(A[2]) IN
           IF X[2] >= 0 THEN O[1].n.v = ZShl(X[1], X[2]) /\ O[1].d.v = "1"
           ELSE LET g == ZGcd(X[1], ZPow2(-X[2])) IN
                IF X[1] = "0" THEN O[1].n.v = "0" /\ O[1].d.v = "1"
                ELSE O[1].n.v = ZTDivQ(X[1], g) /\ O[1].d.v = ZTDivQ(ZPow2(-X[2]), g)
=============================================================================
