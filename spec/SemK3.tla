-------------------------------- MODULE SemK3 --------------------------------
(***************************************************************************)
(* Contracts of the internal gcd-side kernels (property C07): each case is *)
(* what the routine's own source states (header comment, ASSERTs) or what  *)
(* its only callers rely on; file and text are quoted next to the case.    *)
(* Events come from harness/drv_k3.c.  A limb vector {p,n} is logged as    *)
(* the hex numeral of the natural number it denotes; B = 2^64.  A 2x2      *)
(* matrix is the tuple <<m00, m01, m10, m11>>.                             *)
(* PostK3(f, i, o): i = inputs logged before the call, o = outputs after.  *)
(***************************************************************************)
EXTENDS Naturals, Integers, Sequences, BigZ

LOCAL W == 64
LOCAL Bn(n) == ZPow2(W * n)
LOCAL Fits(v, n) == ~ZIsNeg(v) /\ ZBitLen(v) <= W * n          \* 0 <= v < B^n
LOCAL Limbs(v) == ZLimbCount(v)
LOCAL MaxL(x, y) == IF Limbs(x) >= Limbs(y) THEN Limbs(x) ELSE Limbs(y)
LOCAL Two(h, l) == ZAdd(ZMul(h, Bn(1)), l)
LOCAL Det(m) == ZSub(ZMul(m[1], m[4]), ZMul(m[2], m[3]))
LOCAL IdM == <<"1", "0", "0", "1">>
LOCAL MulA(m, x, y) == ZAdd(ZMul(m[1], x), ZMul(m[2], y))      \* M (x;y)
LOCAL MulB(m, x, y) == ZAdd(ZMul(m[3], x), ZMul(m[4], y))
LOCAL InvA(m, a, b) == ZSub(ZMul(m[4], a), ZMul(m[2], b))      \* M^-1 (a;b) = (m11 a - m01 b ; -m10 a + m00 b)   (det M = 1)
LOCAL InvB(m, a, b) == ZSub(ZMul(m[1], b), ZMul(m[3], a))
LOCAL MatMul(m, s) == << ZAdd(ZMul(m[1], s[1]), ZMul(m[2], s[3])), ZAdd(ZMul(m[1], s[2]), ZMul(m[2], s[4])),
                         ZAdd(ZMul(m[3], s[1]), ZMul(m[4], s[3])), ZAdd(ZMul(m[3], s[2]), ZMul(m[4], s[4])) >>
LOCAL M1(r) == <<r.u00, r.u01, r.u10, r.u11>>
LOCAL MM(r) == <<r.m00, r.m01, r.m10, r.m11>>
LOCAL MS(r) == <<r.s00, r.s01, r.s10, r.s11>>
LOCAL AllFit(m, n) == \A e \in 1..4 : Fits(m[e], n)
LOCAL TopNonzero(m, n) == \E e \in 1..4 : ~Fits(m[e], n - 1)   \* some element has a non-zero limb n-1

(* gmp-impl.h, struct hgcd_matrix1: "The matrix non-negative M = (u, u'; v,v') keeps track of the reduction (a;b) = M (alpha; beta) where  *)
(* alpha, beta are smaller than a, b. The determinant must always be one, so that M has an inverse (v', -u'; -v, u). Elements always fit    *)
(* in GMP_NUMB_BITS - 1 bits."                                                                                                            *)
(* hgcd2.c: "Reduces a,b until |a-b| (almost) fits in one limb + 1 bit. Constructs matrix M. Returns 1 if we make progress, i.e. can       *)
(* perform at least one subtraction. Otherwise returns zero."  The code never lets a high limb drop below 2 ("if (ah < 2) return 0", "A    *)
(* is too small, but q is correct"), so: no subtraction is possible iff a high limb is < 2 or |a-b| < 2B, i.e. fits in one limb + 1 bit.   *)
(* "(almost)": "NOTE: Since we discard the least significant half limb, we don't get a truly maximal M (corresponding to |a - b| <          *)
(* 2^{GMP_LIMB_BITS +1})": the single precision loop stops at a difference below 2^(W/2+1) half-limb units, the discarded halves add less  *)
(* than 2^W: |alpha - beta| < 2^(W+2).                                                                                                     *)
(* Use by the callers (hgcd_step.c, gcdext_lehmer.c, jacobi.c): the arguments are the two most significant limbs of n-limb numbers and     *)
(* M^-1 is applied to the WHOLE numbers by mpn_matrix22_mul1_inverse_vector, which ASSERTs that nothing goes negative.  With                *)
(* a = A 2^k + x, b = B 2^k + y, 0 <= x,y < 2^k: u11 a - u01 b > 2^k (alpha - u01), so alpha >= u01 and beta >= u10 is what they rely on.   *)
LOCAL Hgcd2None(i) == LET A == Two(i.ah, i.al)  B == Two(i.bh, i.bl)
                      IN ZLt(i.ah, "2") \/ ZLt(i.bh, "2") \/ ZBitLen(ZSub(A, B)) <= W + 1
LOCAL Hgcd2Matrix(i, m) ==
   LET A == Two(i.ah, i.al)  B == Two(i.bh, i.bl)
       al == InvA(m, A, B)   be == InvB(m, A, B)
   IN /\ Det(m) = "1" /\ m # IdM
      /\ \A e \in 1..4 : ZBitLen(m[e]) <= W - 1
      /\ ZLt("0", al) /\ ZLt("0", be)
      /\ ZLe(m[2], al) /\ ZLe(m[3], be)
      /\ ZBitLen(ZSub(al, be)) <= W + 2

(* mpn/generic/jacobi.c: "the state consists of four variables: e (one bit), a, b (two bits each), d (one bit). Collected factors are      *)
(* (-1)^e. a and b are the least significant bits of the current remainders. d (denominator) is 0 if we're currently subtracting           *)
(* multiplies of a from b, and 1 if we're subtracting b from a. e is stored in the least significant bit, while a, b and d are coded as    *)
(* only 13 distinct values in bits 1-4, according to the following table" (decode_table, copied here); mpn_jacobi_n evaluates a state by    *)
(* "if (bits >= 16) MP_PTR_SWAP (ap, bp); ASSERT (bp[0] & 1); ... mpn_jacobi_base (al, bl, bits << 1)": the value of a state is             *)
(* (-1)^e (a/b), with the roles exchanged from row 8 on.  Every routine that carries `bits` along must keep that value.                     *)
LOCAL JTab == << <<0, 1>>, <<0, 3>>, <<1, 1>>, <<1, 3>>, <<2, 1>>, <<2, 3>>, <<3, 1>>, <<3, 3>>, <<1, 0>>, <<1, 2>>, <<3, 0>>, <<3, 2>>, <<3, 3>> >>
LOCAL Low2(v) == ZToInt(ZLowBits(v, 2))
LOCAL JCons(bits, a, b) == bits \in 0..25 /\ Low2(a) = JTab[(bits \div 2) + 1][1] /\ Low2(b) = JTab[(bits \div 2) + 1][2]
LOCAL JVal(bits, a, b) == LET k == IF bits >= 16 THEN ZKronecker(b, a) ELSE ZKronecker(a, b) IN IF bits % 2 = 1 THEN 0 - k ELSE k
LOCAL JKeeps(bi, a, b, bo, a2, b2) == JCons(bi, a, b) /\ JCons(bo, a2, b2) /\ JVal(bo, a2, b2) = JVal(bi, a, b)

(* hgcd.c: "Reduces a,b until |a-b| fits in n/2 + 1 limbs. Constructs matrix M with elements of size at most (n+1)/2 - 1. Returns new size  *)
(* of a, b, or zero if no reduction is possible."; s = n/2 + 1; hgcd_step.c: "never below the given size s".                                 *)
(* tests/mpn/t-hgcd.c (hgcd_ref) is the tree's own statement of the same thing: subtract/divide while both numbers keep more than s limbs;   *)
(* 0 iff a or b or |a-b| has at most s limbs.  With non-negative elements and determinant 1 the matrix is a product of elementary steps of   *)
(* Euclid's algorithm on (a,b) and min(a,b) never grows along them, so "both results have more than s limbs and their difference has at     *)
(* most s" fixes M, a', b' uniquely: the clauses below are exactly hgcd_ref's result.                                                         *)
LOCAL Terminal(a, b, s) == ZLt(ZMin(a, b), Bn(s)) \/ ZLt(ZAbs(ZSub(a, b)), Bn(s))
LOCAL Reduction(a, b, m, a2, b2) ==          \* (a;b) = M (a2;b2), M non-negative (numerals of naturals) with determinant 1
   /\ Det(m) = "1" /\ a = MulA(m, a2, b2) /\ b = MulB(m, a2, b2)
LOCAL MatrixSize(o, m, n) ==                 \* hgcd_matrix.c: "For input of size n, matrix elements are of size at most ceil(n/2) - 1"; M->n covers every element,
   /\ o.mn >= 1 /\ AllFit(m, o.mn) /\ TopNonzero(m, o.mn)       \* its top limb is in use (ASSERT of mpn_hgcd_matrix_mul on its operands), and M->n < M->alloc
   /\ o.mn <= (IF n >= 3 THEN (n + 1) \div 2 - 1 ELSE 1)
LOCAL HgcdOK(i, o, exact) ==
   LET s == i.n \div 2 + 1  m == MM(o) IN
   /\ i.n >= 1 /\ MaxL(i.a, i.b) = i.n
   /\ IF o.ret = 0 THEN Terminal(i.a, i.b, s) /\ m = IdM /\ o.mn = 1 /\ (exact => o.a = i.a /\ o.b = i.b)
      ELSE /\ ~Terminal(i.a, i.b, s) /\ m # IdM /\ MatrixSize(o, m, i.n)
           /\ IF exact
              THEN /\ Reduction(i.a, i.b, m, o.a, o.b)
                   /\ ZLe(Bn(s), o.a) /\ ZLe(Bn(s), o.b) /\ ZLt(ZAbs(ZSub(o.a, o.b)), Bn(s))
                   /\ o.ret = MaxL(o.a, o.b)
              ELSE \* hgcd_appr.c: "Destroys inputs."  returns 0/1; M is a reduction matrix of the inputs, "sligthly smaller than it could be";
                   \* "We can't do that if the result is that it makes makes min(U, V) smaller than 2^{GMP_NUMB_BITS} s": both reduced numbers stay >= B^s
                   /\ o.ret = 1 /\ Det(m) = "1"
                   /\ ZLe(Bn(s), InvA(m, i.a, i.b)) /\ ZLe(Bn(s), InvB(m, i.a, i.b))

(* gcd_subdiv_step.c: the hook protocol; the calls with a quotient are replayed on the inputs *)
RECURSIVE Replay(_, _, _, _)
LOCAL Replay(h, k, a, b) ==
   IF k > Len(h) THEN <<a, b>>
   ELSE IF h[k].hq = 1 THEN (IF h[k].d = 0 THEN Replay(h, k + 1, a, ZSub(b, ZMul(h[k].q, a))) ELSE Replay(h, k + 1, ZSub(a, ZMul(h[k].q, b)), b))
        ELSE Replay(h, k + 1, a, b)

FunsK3 == {"mpn_hgcd2", "mpn_hgcd2_jacobi", "mpn_hgcd_mul_matrix1_vector", "mpn_matrix22_mul1_inverse_vector",
           "mpn_matrix22_mul", "mpn_hgcd_matrix_init", "mpn_hgcd_matrix_update_q", "mpn_hgcd_matrix_mul_1", "mpn_hgcd_matrix_mul", "mpn_hgcd_matrix_adjust",
           "mpn_hgcd", "mpn_hgcd_appr", "mpn_hgcd_jacobi", "mpn_hgcd_step", "mpn_gcd_subdiv_step",
           "mpn_gcdext_1", "mpn_gcdext_lehmer_n", "mpn_gcdext_hook", "mpn_jacobi_base", "mpn_jacobi_2", "mpn_jacobi_n"}

PostK3(f, i, o) ==
   CASE f = "mpn_hgcd2" ->
        /\ o.ret \in {0, 1} /\ (o.ret = 0 <=> Hgcd2None(i))
        /\ o.ret = 1 => Hgcd2Matrix(i, M1(o))
     [] f = "mpn_hgcd2_jacobi" ->
        \* hgcd2_jacobi.c: mpn_hgcd2 with "bits = mpn_jacobi_update (bits, d, q & 3)" at every quotient: same matrix contract, and the state keeps its value
        \* when it is read against the two-limb numbers themselves (the low two bits of al, bl) before and after the reduction.
        LET A == Two(i.ah, i.al)  B == Two(i.bh, i.bl) IN
        /\ o.ret \in {0, 1} /\ (o.ret = 0 <=> Hgcd2None(i))
        /\ IF o.ret = 0 THEN o.bits = i.bits
           ELSE LET m == M1(o) IN Hgcd2Matrix(i, m) /\ JKeeps(i.bits, A, B, o.bits, InvA(m, A, B), InvB(m, A, B))
     [] f = "mpn_hgcd_mul_matrix1_vector" ->
        \* hgcd_matrix.c: "Sets (r;b) = (a;b) M, with M = (u00, u01; u10, u11). Vector must have space for n + 1 limbs."
        \* "(r,b) <-- (u00 a + u10 b, u01 a + u11 b)"; returns n + 1 iff a high limb came out non-zero.  Elements below 2^63 (struct hgcd_matrix1).
        LET m == M1(i)  r == ZAdd(ZMul(m[1], i.a), ZMul(m[3], i.b))  b == ZAdd(ZMul(m[2], i.a), ZMul(m[4], i.b)) IN
        /\ (\A e \in 1..4 : ZBitLen(m[e]) <= W - 1) /\ Fits(i.a, i.n) /\ Fits(i.b, i.n)
        /\ o.r = r /\ o.b = b /\ o.ret = (IF Fits(r, i.n) /\ Fits(b, i.n) THEN i.n ELSE i.n + 1)
     [] f = "mpn_matrix22_mul1_inverse_vector" ->
        \* matrix22_mul1_inverse_vector.c: "Sets (r;b) = M^{-1}(a;b), with M^{-1} = (u11, -u01; -u10, u00) from the left."
        \* "(r;b) <-- (u11 a - u01 b; -u10 a + u00 b)"; ASSERT (h0 == h1): both results are non-negative and fit n limbs (the caller's obligation,
        \* discharged by the mpn_hgcd2 contract above); "n -= (rp[n-1] | bp[n-1]) == 0".
        LET m == M1(i)  r == InvA(m, i.a, i.b)  b == InvB(m, i.a, i.b) IN
        /\ Fits(i.a, i.n) /\ Fits(i.b, i.n) /\ Fits(r, i.n) /\ Fits(b, i.n)
        /\ o.r = r /\ o.b = b /\ o.ret = (IF Fits(r, i.n - 1) /\ Fits(b, i.n - 1) THEN i.n - 1 ELSE i.n)
     [] f = "mpn_matrix22_mul" ->
        \* matrix22_mul.c: "Computes R = R * M. Elements are numbers R = (r0, r1; r2, r3). Resulting elements are of size up to rn + mn + 1.
        \* Temporary storage: 3 rn + 3 mn + 5." (basecase: "3 rn + 2 mn": mpn_matrix22_mul_itch)
        LET p == MatMul(<<i.r0, i.r1, i.r2, i.r3>>, <<i.m0, i.m1, i.m2, i.m3>>) IN
        /\ i.rn >= 1 /\ i.mn >= 1 /\ AllFit(<<i.r0, i.r1, i.r2, i.r3>>, i.rn) /\ AllFit(<<i.m0, i.m1, i.m2, i.m3>>, i.mn)
        /\ <<o.r0, o.r1, o.r2, o.r3>> = p
     [] f = "mpn_hgcd_matrix_init" ->
        \* hgcd_matrix.c: "For input of size n, matrix elements are of size at most ceil(n/2) - 1, but we need two limbs extra."
        \* s = (n+1)/2 + 1; four areas of s limbs at p, p+s, p+2s, p+3s (MPN_HGCD_MATRIX_INIT_ITCH(n) = 4 s), zeroed; M = I, M->n = 1.
        /\ o.alloc = (i.n + 1) \div 2 + 1 /\ o.sep = 1 /\ o.mn = 1 /\ MM(o) = IdM
     [] f = "mpn_hgcd_matrix_update_q" ->
        \* hgcd_matrix.c: "Update column COL, adding in Q * column (1-COL). Temporary storage: qn + n <= M->alloc, where n is the size of the largest
        \* element in column 1 - COL."; ASSERT (col < 2); ASSERT (M->n < M->alloc) at the end; "ASSERT (n >= M->n)".
        LET m == MM(i)  r == MM(o)
            e == IF i.col = 0 THEN <<ZAdd(m[1], ZMul(i.q, m[2])), m[2], ZAdd(m[3], ZMul(i.q, m[4])), m[4]>>
                 ELSE <<m[1], ZAdd(m[2], ZMul(i.q, m[1])), m[3], ZAdd(m[4], ZMul(i.q, m[3]))>>
        IN /\ i.col \in {0, 1} /\ Fits(i.q, i.qn) /\ AllFit(m, i.mn)
           /\ r = e /\ AllFit(r, o.mn) /\ o.mn >= i.mn /\ o.mn < i.alloc
           /\ TopNonzero(m, i.mn) => TopNonzero(r, o.mn)            \* "we need normalization in order not to overflow M": the size stays exact
     [] f = "mpn_hgcd_matrix_mul_1" ->
        \* hgcd_matrix.c: "Multiply M by M1 from the right. Since the M1 elements fit in GMP_NUMB_BITS - 1 bits, M grows by at most one limb.
        \* Needs temporary space M->n"
        LET m == MM(i)  s == M1(i)  r == MM(o) IN
        /\ (\A e \in 1..4 : ZBitLen(s[e]) <= W - 1) /\ AllFit(m, i.mn)
        /\ r = MatMul(m, s) /\ AllFit(r, o.mn) /\ o.mn >= i.mn /\ o.mn <= i.mn + 1 /\ o.mn < i.alloc
     [] f = "mpn_hgcd_matrix_mul" ->
        \* hgcd_matrix.c: "Multiply M by M1 from the right. Needs 3*(M->n + M1->n) + 5 limbs of temporary storage"; ASSERT (M->n + M1->n < M->alloc);
        \* both operands have a non-zero top limb in some element; "The computation of the matrix product produces elements of size M->n + M1->n + 1.
        \* But the true size, after normalization, may be three limbs smaller": M->n of the result covers every element and its top limb is in use
        \* (final ASSERT) for operands that are products of elementary matrices, not ending / starting with the same one.
        LET m == MM(i)  s == MS(i)  r == MM(o) IN
        /\ i.mn + i.sn < i.alloc /\ AllFit(m, i.mn) /\ TopNonzero(m, i.mn) /\ AllFit(s, i.sn) /\ TopNonzero(s, i.sn) /\ Det(m) = "1" /\ Det(s) = "1"
        /\ r = MatMul(m, s) /\ AllFit(r, o.mn) /\ TopNonzero(r, o.mn) /\ o.mn <= i.mn + i.sn + 1
     [] f = "mpn_hgcd_matrix_adjust" ->
        \* hgcd_matrix.c: "Multiplies the least significant p limbs of (a;b) by M^-1. Temporary space needed: 2 * (p + M->n)";
        \* "M^-1 (a;b) = (r11 a - r01 b; - r10 a + r00 b)"; ASSERT (p + M->n < n); the high n - p limbs are already reduced (mpn_hgcd_reduce:
        \* M comes from mpn_hgcd on {ap+p, n-p}); results are non-negative (ASSERT (cy <= ah)), one limb more if a carry remains,
        \* "The subtraction can reduce the size by at most one limb"; ASSERT (ap[n-1] > 0 || bp[n-1] > 0) on the returned size.
        LET m == MM(i)  k == W * i.p
            a2 == ZAdd(ZMul(ZShr(i.a, k), Bn(i.p)), InvA(m, ZLowBits(i.a, k), ZLowBits(i.b, k)))
            b2 == ZAdd(ZMul(ZShr(i.b, k), Bn(i.p)), InvB(m, ZLowBits(i.a, k), ZLowBits(i.b, k)))
        IN /\ i.p + i.mn < i.n /\ Det(m) = "1" /\ Fits(i.a, i.n) /\ Fits(i.b, i.n) /\ ~ZIsNeg(a2) /\ ~ZIsNeg(b2)
           /\ o.a = a2 /\ o.b = b2 /\ o.ret = MaxL(a2, b2) /\ o.ret >= i.n - 1 /\ o.ret <= i.n + 1
     [] f = "mpn_hgcd" -> HgcdOK(i, o, TRUE)
     [] f = "mpn_hgcd_appr" -> HgcdOK(i, o, FALSE)
     [] f = "mpn_hgcd_jacobi" ->
        \* hgcd_jacobi.c: "This file is almost a copy of hgcd.c, with some added calls to mpn_jacobi_update": the contract of mpn_hgcd, and the
        \* state keeps its value (mpn_jacobi_n continues with it after mpn_hgcd_matrix_adjust, or evaluates it).
        /\ HgcdOK(i, o, TRUE)
        /\ IF o.ret = 0 THEN o.bits = i.bits ELSE JKeeps(i.bits, i.a, i.b, o.bits, o.a, o.b)
     [] f = "mpn_hgcd_step" ->
        \* hgcd_step.c: "Perform a few steps, using some of mpn_hgcd2, subtraction and division. Reduces the size by almost one limb or more, but
        \* never below the given size s. Return new size for a and b, or 0 if no more steps are possible."; ASSERT (n > s).  M is the identity on entry.
        LET m == MM(o) IN
        /\ i.n > i.s /\ MaxL(i.a, i.b) = i.n
        /\ IF o.ret = 0 THEN Terminal(i.a, i.b, i.s) /\ m = IdM /\ o.a = i.a /\ o.b = i.b
           ELSE /\ m # IdM /\ Reduction(i.a, i.b, m, o.a, o.b) /\ AllFit(m, o.mn) /\ TopNonzero(m, o.mn)
                /\ ZLe(Bn(i.s), o.a) /\ ZLe(Bn(i.s), o.b) /\ o.ret = MaxL(o.a, o.b) /\ o.ret <= i.n
     [] f = "mpn_gcd_subdiv_step" ->
        \* gcd_subdiv_step.c: "Perform one subtraction followed by one division. The normal case is to compute the reduced a and b, and return the new
        \* size. If s == 0 (used for gcd and gcdext), returns zero if the gcd is found. If s > 0, don't reduce to size <= s, and return zero if no
        \* reduction is possible (if either a, b or |a-b| is of size <= s)."
        \* "The hook function is called as hook(ctx, gp, gn, qp, qn, d) in the following cases: + If A = B at the start, G is the gcd, Q is NULL, d = -1.
        \* + If one input is zero at the start, G is the gcd, Q is NULL, d = 0 if A = G and d = 1 if B = G.  Otherwise, if d = 0 we have just subtracted
        \* a multiple of A from B, and if d = 1 we have subtracted a multiple of B from A. + If A = B after subtraction, G is the gcd, Q is NULL.
        \* + If we get a zero remainder after division, G is the gcd, Q is the quotient. + Otherwise, G is NULL, Q is the quotient (often 1)."
        LET h == o.hook  st == Replay(h, 1, i.a, i.b)  x == st[1]  y == st[2]  L == Len(h)  last == h[L] IN
        /\ i.n > 0 /\ MaxL(i.a, i.b) = i.n /\ o.calls = L /\ L <= 3
        /\ \A k \in 1..L : h[k].hg = 1 => (k = L /\ i.s = 0 /\ o.ret = 0)
        /\ IF o.ret > 0
           THEN /\ L >= 1 /\ last.hq = 1 /\ o.a = x /\ o.b = y /\ o.ret = MaxL(x, y)
                /\ ZLe(Bn(i.s), x) /\ ZLe(Bn(i.s), y)
                /\ LET red == IF last.d = 0 THEN y ELSE x   oth == IF last.d = 0 THEN x ELSE y
                   IN ZLt(red, oth) \/ (i.s > 0 /\ ZLt(ZSub(red, oth), Bn(i.s)))          \* a remainder, or the quotient was decremented to stay above s limbs
           ELSE IF i.s = 0
           THEN /\ L >= 1 /\ last.hg = 1 /\ last.g = ZGcd(i.a, i.b) /\ last.d \in {0 - 1, 0, 1}
                /\ last.d = 0 - 1 => (L = 1 /\ i.a = i.b)
                /\ last.d = 0 => x = last.g
                /\ last.d = 1 => y = last.g
                /\ last.hq = 1 => (IF last.d = 0 THEN y = "0" ELSE x = "0")
           ELSE L = 0 /\ o.a = i.a /\ o.b = i.b /\ Terminal(i.a, i.b, i.s)
     [] f = "mpn_gcdext_1" ->
        \* gcdext_1.c (GCDEXT_1_USE_BINARY 0): "Maintain a = u0 A + v0 B, b = u1 A + v1 B where A, B are the original inputs"; ASSERT (a > 0); ASSERT (b > 0);
        \* returns the gcd.  Its caller mpn_gcdext_lehmer_n: "if (u == 0) ASSERT (v == 1) ... else if (v == 0) ASSERT (u == 1) ... else if (u > 0) ASSERT (v < 0)
        \* ... else ASSERT (v > 0)".
        /\ ZLt("0", i.a) /\ ZLt("0", i.b)
        /\ o.g = ZGcd(i.a, i.b) /\ ZAdd(ZMul(o.s, i.a), ZMul(o.t, i.b)) = o.g
        /\ ZBitLen(o.s) <= W - 1 /\ ZBitLen(o.t) <= W - 1
        /\ (o.s = "0" => o.t = "1") /\ (o.t = "0" => o.s = "1")
        /\ (ZSgn(o.s) > 0 /\ o.t # "0" => ZSgn(o.t) < 0) /\ (ZSgn(o.s) < 0 => ZSgn(o.t) > 0)
     [] f = "mpn_gcdext_lehmer_n" ->
        \* gcdext_lehmer.c: "Temporary storage: ... In all, 4n + 3."; "a = u1 A (mod B), b = -u0 A (mod B) where A, B denotes the input values";
        \* mpn_gcdext returns its result as its own below GCDEXT_DC_THRESHOLD, so the documented contract of mpn_gcdext (doc/mpir.texi) holds for it:
        \* "Compute a cofactor S such that G = US + VT ... S satisfies S = 1 or |S| < V / (2 G). S = 0 if and only if V divides U".  Both operands positive.
        /\ ZLt("0", i.a) /\ ZLt("0", i.b) /\ MaxL(i.a, i.b) = i.n
        /\ o.g = ZGcd(i.a, i.b) /\ o.gn = Limbs(o.g)
        /\ o.un = ZSgn(o.s) * Limbs(ZAbs(o.s))
        /\ ZDivides(i.b, ZSub(o.g, ZMul(o.s, i.a)))
        /\ (o.s = "1" \/ ZLt(ZMul(ZShl(o.g, 1), ZAbs(o.s)), i.b))
        /\ (o.s = "0" <=> ZDivides(i.b, i.a))
     [] f = "mpn_gcdext_hook" ->
        \* one mpn_gcd_subdiv_step (s = 0) with mpn_gcdext_hook from u0 = 0, u1 = 1 (gcdext_lehmer.c: "M = (v0, v1 ; u0, u1) ... a = u1 A (mod B),
        \* b = -u0 A (mod B)"; hook: "Must return the smallest cofactor, +u1 or -u0").
        \* Found within the first step the gcd is A, B or |A - B| ("one subtraction followed by one division"; "d = 0 if A = G and d = 1 if B = G", "up = d ? ctx->u0 : ctx->u1"):
        \* S = 1 for G = A, 0 for G = B (and for A = B, "the smallest cofactor"), +-1 for G = |A - B|.  un is the size the cofactor areas are used up to (an upper bound, normalised by the caller at the end).
        /\ IF o.ret = 0 THEN /\ o.g = ZGcd(i.a, i.b) /\ o.gn = Limbs(o.g) /\ (i.b # "0" => ZDivides(i.b, ZSub(o.g, ZMul(o.s, i.a))))
                              /\ o.s \in {"-1", "0", "1"} /\ (o.s = "0" <=> ZDivides(i.b, i.a))
           ELSE /\ ZDivides(i.b, ZSub(o.a, ZMul(o.u1, i.a))) /\ ZDivides(i.b, ZAdd(o.b, ZMul(o.u0, i.a)))
                /\ ZGcd(o.a, o.b) = ZGcd(i.a, i.b) /\ Fits(o.u0, o.un) /\ Fits(o.u1, o.un) /\ o.ret = MaxL(o.a, o.b)
     [] f = "mpn_jacobi_base" ->
        \* jacobi_base.c: "Calculate the value of the Jacobi symbol (a/b) of two mp_limb_t's, but with a restricted range of inputs accepted, namely b>1,
        \* b odd. The initial result_bit1 is taken as a parameter ... The return value here is the normal +1, 0, or -1."; gmp-impl.h: "BIT1 means a result
        \* value in bit 1 (second least significant bit), with a zero bit representing +1 and a one bit representing -1."
        LET k == ZKronecker(i.a, i.b) IN
        /\ ZTestBit(i.b, 0) /\ ZLt("1", i.b)
        /\ o.ret = (IF (i.bit \div 2) % 2 = 1 THEN 0 - k ELSE k)
     [] f = "mpn_jacobi_2" ->
        \* jacobi_2.c: "Computes (a / b) where b is odd, and a and b are otherwise arbitrary two-limb numbers."; bit 0 of the last argument is the
        \* sign collected so far ("return 1 - 2*(bit & 1)"; mpn_jacobi_n passes bits & 1).
        LET k == ZKronecker(i.a, i.b) IN
        /\ ZTestBit(i.b, 0) /\ Fits(i.a, 2) /\ Fits(i.b, 2)
        /\ o.ret = (IF i.bit % 2 = 1 THEN 0 - k ELSE k)
     [] f = "mpn_jacobi_n" ->
        \* jacobi.c mpn_jacobi_n: ASSERT (n > 0); ASSERT ((ap[n-1] | bp[n-1]) > 0); ASSERT ((bp[0] | ap[0]) & 1); bits from mpn_jacobi_init (a, b, s)
        \* ("Bit layout for the initial state. b must be odd. a1 a0 b1 s"); mpz/jacobi.c uses the result as (-1)^s (a/b).
        LET k == ZKronecker(i.a, i.b) IN
        /\ i.n > 0 /\ MaxL(i.a, i.b) = i.n /\ ZTestBit(i.b, 0) /\ i.s \in {0, 1}
        /\ i.bits = 4 * Low2(i.a) + 2 * (Low2(i.b) \div 2) + i.s
        /\ o.ret = (IF i.s = 1 THEN 0 - k ELSE k)
=============================================================================
