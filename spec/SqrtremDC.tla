------------------------------ MODULE SqrtremDC ------------------------------
(***************************************************************************)
(* R2 model for C09: mpn/generic/sqrtrem.c transcribed statement by        *)
(* statement over limbs of W bits (B = 2^W is derived from the CONSTANT W; *)
(* W = 64 in the library):                                                 *)
(*   mpn_sqrtrem1  table look-up on the high TP bits (TP = 8 and the       *)
(*                 192-entry approx_tab in the library), fix-up "r > 2s",  *)
(*                 precision doubling loop while 2*prec < W;               *)
(*   mpn_sqrtrem2  one more doubling by a Prec = W/2 bit division with the *)
(*                 qhl loop and the "cc < 0" fix-up;                       *)
(*   mpn_dc_sqrtrem  Zimmermann's Karatsuba square root on limb arrays     *)
(*                 (recursion on the high part, mpn_intdivrem by the high  *)
(*                 root, halving, square of the low root, "c < 0" fix-up); *)
(*   mpn_sqrtrem   the wrapper: shift left by 2c bits / pad one zero limb, *)
(*                 run dc, undo the shift on root and remainder.           *)
(* The mpn primitives called (add_n sub_n add_1 sub_1 addmul_1 submul_1    *)
(* lshift rshift half sqr, the division behind mpn_intdivrem) are used     *)
(* through their value contracts on limb sequences (they have their own    *)
(* models / trace contracts: C01 C02 C17); every limb variable of the file *)
(* is reduced modulo B after each operation as unsigned C arithmetic does. *)
(* TLC checks, for EVERY operand in range, against the definition          *)
(*       s^2 <= u < (s+1)^2,   r = u - s^2                                 *)
(* the root, the remainder limbs, the carry / size return value, and the   *)
(* ASSERTs / callee preconditions met on the way (field ok).               *)
(*                                                                         *)
(* CONSTANTS  W     limb width (even: Prec = W/2; a power of two when the  *)
(*                  sqrtrem1 loop is transcribed, as its closing ASSERT    *)
(*                  demands)                                               *)
(*            TP    bits of the initial table approximation: 8 = the       *)
(*                  library's literal approx_tab (needs W >= 16, the       *)
(*                  file's own ASSERT); 2, 4 = a table computed from the   *)
(*                  generating program quoted in the file (floor sqrt of   *)
(*                  index * 2^TP); 0 = mpn_sqrtrem1 replaced by its        *)
(*                  contract (for W = 2 where no table fits)               *)
(*            NMAX  mpn_dc_sqrtrem is run for n = 1..NMAX (2n limbs)       *)
(*            WMAX  mpn_sqrtrem is run for nn = 1..WMAX limbs              *)
(*                  (NMAX = WMAX = 0: mpn_sqrtrem1 only)                   *)
(*            Variant "ok" = the code as it is; others flip one step       *)
(*            EMIT  print <<"SQW", kind, size, W, u, labels>> the first    *)
(*                  time a worker meets a set of branch labels (kind "dc": *)
(*                  size = n, u has 2n limbs; "w": size = nn)              *)
(***************************************************************************)
EXTENDS Naturals, Integers, Sequences, FiniteSets, TLC
CONSTANTS W, TP, NMAX, WMAX, Variant, EMIT
  \* Variant: "ok"
  \*   "lost_carry_in_correction"     dc: the carry limb returned by mpn_addmul_1 in the "c < 0" fix-up is dropped
  \*   "no_final_adjust"              dc: the "c < 0" fix-up is skipped
  \*   "no_2q_in_correction"          dc: "+ 2 * q" missing in the fix-up (q = 1 there when the uncorrected root is B^n, e.g. u = B^2n - 1)
  \*   "no_sub_when_q"                dc: "if (q != 0) mpn_sub_n" skipped
  \*   "odd_bit_dropped"              dc: "if (c != 0) c = mpn_add_n" skipped (the bit shifted out by mpn_half)
  \*   "s2_lost_carry_in_correction"  sqrtrem2: carry of the second mpn_add_1 of the fix-up dropped
  \*   "s2_no_final_adjust"           sqrtrem2: "if (cc < 0)" skipped
  \*   "s2_no_qhl_loop"               sqrtrem2: "while (rp[0] >= sp[0])" skipped
  \*   "s1_no_tab_fixup"              sqrtrem1: "if (r > 2 * s)" skipped
  \*   "s1_no_loop_adjust"            sqrtrem1: "if (u < q)" in the loop skipped
  \*   "w_no_s0_fix"                  wrapper: R + 2*s0*S - s0^2 correction skipped
  \*   "w_rl_borrow_lost"             wrapper: "rl -= (tn > 1) ? mpn_sub_1 (...) : cc" dropped   (equivalent mutant, see NoteW)

B == 2 ^ W
Prec == W \div 2                                   \* #define Prec (GMP_NUMB_BITS >> 1)
ASSUME W % 2 = 0 /\ (TP = 0 \/ (2 * TP <= W /\ TP >= 2))
Wrap(x) == x % B                                   \* unsigned limb arithmetic
Shl(x, k) == (x * 2 ^ k) % B
Shr(x, k) == x \div 2 ^ k

RECURSIVE NatOf(_)
NatOf(s) == IF s = <<>> THEN 0 ELSE s[1] + B * NatOf(Tail(s))               \* little endian limbs
RECURSIVE LimbsOf(_, _)
LimbsOf(v, n) == IF n = 0 THEN <<>> ELSE <<v % B>> \o LimbsOf(v \div B, n - 1)
Put(s, off, vals) == [i \in 1..Len(s) |-> IF i > off /\ i <= off + Len(vals) THEN vals[i - off] ELSE s[i]]   \* store vals at 0-based offset off
Sub(s, off, n) == SubSeq(s, off + 1, off + n)                                \* {s + off, n}

(* ---- the mpn primitives, by contract: [r |-> result limbs, cy |-> returned limb] ---- *)
AddN(a, b)  == LET n == Len(a)  v == NatOf(a) + NatOf(b) IN [r |-> LimbsOf(v % B ^ n, n), cy |-> v \div B ^ n]
SubN(a, b)  == LET n == Len(a)  v == NatOf(a) - NatOf(b) IN [r |-> LimbsOf(v % B ^ n, n), cy |-> IF v < 0 THEN 1 ELSE 0]
Add1(a, x)  == LET n == Len(a)  v == NatOf(a) + x IN [r |-> LimbsOf(v % B ^ n, n), cy |-> v \div B ^ n]
Sub1(a, x)  == LET n == Len(a)  v == NatOf(a) - x IN [r |-> LimbsOf(v % B ^ n, n), cy |-> IF v < 0 THEN 1 ELSE 0]
AddMul1(a, b, x) == LET n == Len(a)  v == NatOf(a) + NatOf(b) * x IN [r |-> LimbsOf(v % B ^ n, n), cy |-> v \div B ^ n]
SubMul1(a, b, x) == LET n == Len(a)  p == NatOf(b) * x  low == (NatOf(a) - p) % B ^ n
                    IN [r |-> LimbsOf(low, n), cy |-> (p - NatOf(a) + low) \div B ^ n]

(* ------------------------------------------------------------------------------------------------------------------ *)
(* approx_tab.  sqrtrem.c:113-133                                                                                      *)
(*   "Square roots table.  Generated by the following program: ... for(i=64;i<256;i++){mpz_set_ui(x,256*i);            *)
(*    mpz_sqrt(x,x);..."                                                                                               *)
(* RealTab is the literal table of the file; the ASSUME checks it against its generating program.                      *)
(* ------------------------------------------------------------------------------------------------------------------ *)
RealTab == <<
    128,128,129,130,131,132,133,134,135,136,137,138,139,140,141,142,
    143,144,144,145,146,147,148,149,150,150,151,152,153,154,155,155,
    156,157,158,159,160,160,161,162,163,163,164,165,166,167,167,168,
    169,170,170,171,172,173,173,174,175,176,176,177,178,178,179,180,
    181,181,182,183,183,184,185,185,186,187,187,188,189,189,190,191,
    192,192,193,193,194,195,195,196,197,197,198,199,199,200,201,201,
    202,203,203,204,204,205,206,206,207,208,208,209,209,210,211,211,
    212,212,213,214,214,215,215,216,217,217,218,218,219,219,220,221,
    221,222,222,223,224,224,225,225,226,226,227,227,228,229,229,230,
    230,231,231,232,232,233,234,234,235,235,236,236,237,237,238,238,
    239,240,240,241,241,242,242,243,243,244,244,245,245,246,246,247,
    247,248,248,249,249,250,250,251,251,252,252,253,253,254,254,255 >>
TabSqrt(x) == CHOOSE s \in 0..(2 ^ TP - 1) : s * s <= x /\ x < (s + 1) * (s + 1)
ASSUME Len(RealTab) = 192
ASSUME TP = 8 => \A i \in 64..255 : RealTab[i - 63] = TabSqrt(256 * i)            \* the table IS what its generating program prints
Tab(q) == IF TP = 8 THEN RealTab[q - 63] ELSE TabSqrt(q * 2 ^ TP)                 \* approx_tab[q - 64], scaled: index range 2^(TP-2) .. 2^TP - 1

(* ------------------------------------------------------------------------------------------------------------------ *)
(* mpn_sqrtrem1 (sp, rp, np)   sqrtrem.c:137-200                                                                       *)
(*   "same as mpn_sqrtrem, but for size=1 and {np, 1} normalized"    ASSERT (np[0] >= GMP_NUMB_HIGHBIT / 2);           *)
(*   returns r != 0 ? 1 : 0.   GMP_NAIL_BITS = 0: the nail statements are identities.                                  *)
(* ------------------------------------------------------------------------------------------------------------------ *)
RECURSIVE S1Loop(_, _, _, _)
S1Loop(s, r, np0, prec) ==
   IF 2 * prec < W                                            \* while (2 * prec < GMP_LIMB_BITS)
   THEN LET r1  == Wrap(Shl(r, prec) + Shr(np0, W - prec))    \* r = (r << prec) + (np0 >> (GMP_LIMB_BITS - prec));
            npa == Shl(np0, prec)                             \* np0 <<= prec;
            u0  == Wrap(2 * s)                                \* u = 2 * s;
            q0  == r1 \div u0                                 \* q = r / u;
            u1  == Wrap(r1 - q0 * u0)                         \* u = r - q * u;
            s1  == Wrap(Shl(s, prec) + q0)                    \* s = (s << prec) + q;
            u2  == Wrap(Shl(u1, prec) + Shr(npa, W - prec))   \* u = (u << prec) + (np0 >> (GMP_LIMB_BITS - prec));
            q1  == Wrap(q0 * q0)                              \* q = q * q;
            r2  == Wrap(u2 - q1)                              \* r = u - q;
            adj == u2 < q1 /\ Variant # "s1_no_loop_adjust"   \* if (u < q)
            r3  == IF adj THEN Wrap(r2 + 2 * s1 - 1) ELSE r2  \*   r += 2 * s - 1;
            s2  == IF adj THEN Wrap(s1 - 1) ELSE s1           \*   s --;
            npb == Shl(npa, prec)                             \* np0 <<= prec;
        IN  S1Loop(s2, r3, npb, 2 * prec)                     \* prec = 2 * prec;
   ELSE <<s, r, prec>>

Sqrtrem1Code(np0) ==
   LET q   == Shr(np0, W - TP)                                \* q = np0 >> (GMP_LIMB_BITS - 8);   "2^6 = 64 <= q < 256 = 2^8"
       s0  == Tab(q)                                          \* s = approx_tab[q - 64];           "128 <= s < 255"
       r0  == Wrap(Shr(np0, W - 2 * TP) - s0 * s0)            \* r = (np0 >> (GMP_LIMB_BITS - 16)) - s * s;
       fix == r0 > 2 * s0 /\ Variant # "s1_no_tab_fixup"      \* if (r > 2 * s)
       r1  == IF fix THEN Wrap(r0 - (2 * s0 + 1)) ELSE r0     \*   r -= 2 * s + 1;
       s1  == IF fix THEN Wrap(s0 + 1) ELSE s0                \*   s++;
       l   == S1Loop(s1, r1, Shl(np0, 2 * TP), TP)            \* prec = 8; np0 <<= 2 * prec; while ...
   IN  [s |-> l[1], r |-> l[2],
        ok |-> /\ np0 >= B \div 4                             \* ASSERT (np[0] >= GMP_NUMB_HIGHBIT / 2)
               /\ q >= 2 ^ (TP - 2) /\ q < 2 ^ TP             \* the index is inside the table
               /\ 2 * l[3] = W,                               \* ASSERT (2 * prec == GMP_LIMB_BITS)
        lab |-> (IF fix THEN {<<"s1fix", 1>>} ELSE {})]
IsqrtLimb(x) == CHOOSE s \in 0..(2 ^ Prec - 1) : s * s <= x /\ x < (s + 1) * (s + 1)
Sqrtrem1(np0) == IF TP = 0 THEN LET s == IsqrtLimb(np0) IN [s |-> s, r |-> np0 - s * s, ok |-> np0 >= B \div 4, lab |-> {}]
                 ELSE Sqrtrem1Code(np0)

(* ------------------------------------------------------------------------------------------------------------------ *)
(* mpn_sqrtrem2 (sp, rp, np)   sqrtrem.c:205-245                                                                       *)
(*   "same as mpn_sqrtrem, but for size=2 and {np, 2} normalized                                                       *)
(*    return cc such that {np, 2} = sp[0]^2 + cc*2^GMP_NUMB_BITS + rp[0]"    ASSERT (np[1] >= GMP_NUMB_HIGHBIT / 2);   *)
(* ------------------------------------------------------------------------------------------------------------------ *)
RECURSIVE QhlLoop(_, _, _)
QhlLoop(r, s, qhl) == IF r >= s THEN QhlLoop(r - s, s, qhl + 1) ELSE <<r, qhl>>     \* while (rp[0] >= sp[0]) { qhl++; rp[0] -= sp[0]; }
Sqrtrem2(np0, np1) ==
   LET a    == Sqrtrem1(np1)                                  \* mpn_sqrtrem1 (sp, rp, np + 1);
       lp   == IF Variant = "s2_no_qhl_loop" THEN <<a.r, 0>> ELSE QhlLoop(a.r, a.s, 0)
       qhl0 == lp[2]
       inv1 == lp[1] < a.s /\ a.s < 2 ^ Prec                  \* "now rp[0] < sp[0] < 2^Prec"
       rp1  == Wrap(Shl(lp[1], Prec) + Shr(np0, Prec))        \* rp[0] = (rp[0] << Prec) + (np0 >> Prec);
       u0   == Wrap(2 * a.s)                                  \* u = 2 * sp[0];
       q0   == rp1 \div u0                                    \* q = rp[0] / u;
       u1   == Wrap(rp1 - q0 * u0)                            \* u = rp[0] - q * u;
       q1   == Wrap(q0 + Shl(qhl0 % 2, Prec - 1))             \* q += (qhl & 1) << (Prec - 1);
       qhl1 == qhl0 \div 2                                    \* qhl >>= 1;  "if qhl=1, necessary q=0 as qhl*2^Prec + q <= 2^Prec"
       inv2 == qhl1 = 1 => q1 = 0
       sp1  == Wrap(Shl(Wrap(a.s + qhl1), Prec) + q1)         \* sp[0] = ((sp[0] + qhl) << Prec) + q;
       cc0  == Shr(u1, Prec)                                  \* cc = u >> Prec;
       rp2  == Wrap(Shl(u1, Prec) + (np0 % 2 ^ Prec))         \* rp[0] = ((u << Prec) & GMP_NUMB_MASK) + (np0 & ((1 << Prec) - 1));
       qq   == Wrap(q1 * q1)
       sb   == Sub1(<<rp2>>, qq)                              \* cc -= mpn_sub_1 (rp, rp, 1, q * q) + qhl;
       cc1  == cc0 - (sb.cy + qhl1)
       rp3  == sb.r[1]
   IN  IF cc1 < 0 /\ Variant # "s2_no_final_adjust"           \* if (cc < 0)
       THEN LET a1  == IF sp1 # 0 THEN Add1(<<rp3>>, sp1) ELSE [r |-> <<rp3>>, cy |-> 1]   \* cc += sp[0] != 0 ? mpn_add_1 (rp, rp, 1, sp[0]) : 1;
                sp2 == Wrap(sp1 - 1)
                a2  == Add1(a1.r, sp2)                                                      \* cc += mpn_add_1 (rp, rp, 1, --sp[0]);
            IN  [s |-> sp2, r |-> a2.r[1], c |-> cc1 + a1.cy + (IF Variant = "s2_lost_carry_in_correction" THEN 0 ELSE a2.cy),
                 ok |-> a.ok /\ inv1 /\ inv2,
                 lab |-> a.lab \cup {<<"s2adj", 1>>} \cup (IF sp1 = 0 THEN {<<"s2sp0", 1>>} ELSE {}) \cup (IF qhl0 > 0 THEN {<<"s2qhl", qhl0>>} ELSE {})]
       ELSE [s |-> sp1, r |-> rp3, c |-> cc1, ok |-> a.ok /\ inv1 /\ inv2,
             lab |-> a.lab \cup (IF qhl0 > 0 THEN {<<"s2qhl", qhl0>>} ELSE {})]

(* ------------------------------------------------------------------------------------------------------------------ *)
(* mpn_dc_sqrtrem (sp, np, n)   sqrtrem.c:247-293                                                                      *)
(*   "writes in {sp, n} the square root (rounded towards zero) of {np, 2n}, and in {np, n} the low n limbs of the      *)
(*    remainder, returns the high limb of the remainder (which is 0 or 1).                                             *)
(*    Assumes {np, 2n} is normalized, i.e. np[2n-1] >= B/4 where B=2^GMP_NUMB_BITS."                                   *)
(*   ASSERT (np[2 * n - 1] >= GMP_NUMB_HIGHBIT / 2);                                                                   *)
(* mpn_intdivrem (qp, 0, np, nn, dp, dn) (sqrtrem.c:35-108): ASSERT (nn >= dn); ASSERT (dn >= 1);                      *)
(*   ASSERT (dp[dn-1] & GMP_NUMB_HIGHBIT); quotient limbs 0..nn-dn-1 to qp, remainder to {np, dn}, returns the high    *)
(*   quotient limb (all three branches: mpn_divrem_1 / mpn_divrem_2 / mpn_tdiv_qr).  The numerator limbs above the     *)
(*   remainder are left as they are here: the next statement that touches them is the mpn_sqr store.                   *)
(* np: sequence of 2n limbs, result [s |-> n limbs, np |-> 2n limbs, c]                                                *)
(* ------------------------------------------------------------------------------------------------------------------ *)
RECURSIVE DC(_, _)
DC(np, n) ==
   IF n = 1
   THEN LET r == Sqrtrem2(np[1], np[2])                        \* c = mpn_sqrtrem2 (sp, np, np);
        IN  [s |-> <<r.s>>, np |-> <<r.r, np[2]>>, c |-> r.c, ok |-> r.ok /\ np[2] >= B \div 4, lab |-> r.lab]
   ELSE
     LET l   == n \div 2   h == n - l
         rec == DC(Sub(np, 2 * l, 2 * h), h)                   \* q = mpn_dc_sqrtrem (sp + l, np + 2 * l, h);
         sh  == rec.s                                          \* {sp + l, h}
         npA == Put(np, 2 * l, rec.np)
         q0  == rec.c
         npB == IF q0 # 0 /\ Variant # "no_sub_when_q"          \* if (q != 0) mpn_sub_n (np + 2 * l, np + 2 * l, sp + l, h);
                THEN Put(npA, 2 * l, SubN(Sub(npA, 2 * l, h), sh).r) ELSE npA
         num == NatOf(Sub(npB, l, n))   d == NatOf(sh)         \* q += mpn_intdivrem (sp, 0, np + l, n, sp + l, h);
         preDiv == sh[h] >= B \div 2 /\ n >= h
         qv  == num \div d
         slo0 == LimbsOf(qv % B ^ l, l)
         qhl == qv \div B ^ l
         npC == Put(npB, l, LimbsOf(num % d, h))
         q1  == q0 + qhl
         c0  == slo0[1] % 2                                    \* c = sp[0] & 1;
         half == LimbsOf(NatOf(slo0) \div 2, l)                \* mpn_half (sp, l);
         slo1 == Put(half, l - 1, <<(half[l] + Shl(q1, W - 1)) % B>>)   \* sp[l - 1] |= (q << (GMP_NUMB_BITS - 1)) & GMP_NUMB_MASK;  (the bit is free after the shift)
         q2  == q1 \div 2                                      \* q >>= 1;
         ad  == IF c0 # 0 /\ Variant # "odd_bit_dropped" THEN AddN(Sub(npC, l, h), sh) ELSE [r |-> Sub(npC, l, h), cy |-> 0]   \* if (c != 0) c = mpn_add_n (np + l, np + l, sp + l, h);
         c1  == ad.cy
         npD == Put(npC, l, ad.r)
         sq  == NatOf(slo1) * NatOf(slo1)                      \* mpn_sqr (np + n, sp, l);
         npE == Put(npD, n, LimbsOf(sq, 2 * l))
         sb  == SubN(Sub(npE, 0, 2 * l), Sub(npE, n, 2 * l))   \* b = q + mpn_sub_n (np, np, np + n, 2 * l);
         b   == q2 + sb.cy
         npF == Put(npE, 0, sb.r)
         s1b == IF l = h THEN [r |-> <<>>, cy |-> b] ELSE Sub1(<<npF[2 * l + 1]>>, b)     \* c -= (l == h) ? b : mpn_sub_1 (np + 2 * l, np + 2 * l, 1, (mp_limb_t) b);
         npG == IF l = h THEN npF ELSE Put(npF, 2 * l, s1b.r)
         c2  == c1 - s1b.cy
         ah  == Add1(sh, q2)                                   \* q = mpn_add_1 (sp + l, sp + l, h, q);
         q3  == ah.cy
         S0  == slo1 \o ah.r                                   \* {sp, n}
     IN  IF c2 < 0 /\ Variant # "no_final_adjust"              \* if (c < 0)
         THEN LET am  == AddMul1(Sub(npG, 0, n), S0, 2)        \*   c += mpn_addmul_1 (np, sp, n, CNST_LIMB(2)) + 2 * q;
                  c3  == c2 + (IF Variant = "lost_carry_in_correction" THEN 0 ELSE am.cy) + (IF Variant = "no_2q_in_correction" THEN 0 ELSE 2 * q3)
                  s1n == Sub1(am.r, 1)                         \*   c -= mpn_sub_1 (np, np, n, CNST_LIMB(1));
                  c4  == c3 - s1n.cy
                  s1s == Sub1(S0, 1)                           \*   q -= mpn_sub_1 (sp, sp, n, CNST_LIMB(1));
              IN  [s |-> s1s.r, np |-> Put(npG, 0, s1n.r), c |-> c4, ok |-> rec.ok /\ preDiv /\ qhl <= 1 /\ q3 - s1s.cy = 0,
                   lab |-> rec.lab \cup {<<"adj", n>>} \cup (IF q3 # 0 THEN {<<"adjq", n>>} ELSE {}) \cup (IF am.cy # 0 THEN {<<"adjcy", n>>} ELSE {})
                           \cup (IF q0 # 0 THEN {<<"q", n>>} ELSE {}) \cup (IF qhl # 0 THEN {<<"qhl", n>>} ELSE {})
                           \cup (IF c0 # 0 /\ c1 # 0 THEN {<<"ccy", n>>} ELSE {})]
         ELSE [s |-> S0, np |-> npG, c |-> c2, ok |-> rec.ok /\ preDiv /\ qhl <= 1 /\ q3 = 0,
               lab |-> rec.lab \cup (IF q0 # 0 THEN {<<"q", n>>} ELSE {}) \cup (IF qhl # 0 THEN {<<"qhl", n>>} ELSE {})
                       \cup (IF c0 # 0 /\ c1 # 0 THEN {<<"ccy", n>>} ELSE {})]
\* NoteQ.  Nothing in the file says that the carry q out of {sp, n} is zero when the function returns, but the function
\* returns only c and its callers read {sp, n}: a non-zero final q would be a lost root limb.  ok therefore demands q = 0 on
\* return (after "q -= mpn_sub_1 (sp, sp, n, 1)" in the fix-up).

(* ------------------------------------------------------------------------------------------------------------------ *)
(* mpn_sqrtrem (sp, rp, np, nn)   sqrtrem.c:296-360     (documented: gmp.texi "mpn_sqrtrem": root to {sp, ceil(nn/2)},  *)
(*   remainder to {rp, retval}, most significant limb of {np, nn} non-zero; ASSERT (np[nn - 1] != 0))                   *)
(* result [s |-> tn limbs, r |-> rn limbs, rn]                                                                          *)
(* ------------------------------------------------------------------------------------------------------------------ *)
RECURSIVE Clz(_)
Clz(x) == IF x >= B \div 2 THEN 0 ELSE 1 + Clz(2 * x)                     \* count_leading_zeros (c, high), high # 0
RECURSIVE Normalize(_)
Normalize(s) == IF s # <<>> /\ s[Len(s)] = 0 THEN Normalize(SubSeq(s, 1, Len(s) - 1)) ELSE s     \* MPN_NORMALIZE (rp, rn)
SqrtremW(np) ==
   LET nn == Len(np)  high == np[nn] IN
   IF nn = 1 /\ high >= B \div 2                                \* if (nn == 1 && (high & GMP_NUMB_HIGHBIT)) return mpn_sqrtrem1 (sp, rp, np);
   THEN LET a == Sqrtrem1(high) IN [s |-> <<a.s>>, r |-> IF a.r # 0 THEN <<a.r>> ELSE <<>>, ok |-> a.ok, lab |-> {<<"w1", 1>>}]
   ELSE
   LET c0 == Clz(high) \div 2                                  \* c = c / 2; "we have to shift left by 2c bits to normalize {np, nn}"
       tn == (nn + 1) \div 2                                   \* "2*tn is the smallest even integer >= nn"
   IN  IF nn % 2 # 0 \/ c0 > 0
       THEN LET pad == 2 * tn - nn
                tp0 == [i \in 1..pad |-> 0] \o LimbsOf(NatOf(np) * 2 ^ (2 * c0), nn)      \* tp[0] = 0; mpn_lshift (tp + 2 * tn - nn, np, nn, 2 * c) / MPN_COPY
                d   == DC(tp0, tn)                             \* rl = mpn_dc_sqrtrem (sp, tp, tn);
                k   == c0 + (nn % 2) * (W \div 2)              \* c += (nn % 2) * GMP_NUMB_BITS / 2;  "c now represents k"
                s0  == d.s[1] % 2 ^ k                          \* s0[0] = sp[0] & (((mp_limb_t) 1 << c) - 1);  "S mod 2^k"
                fixit == Variant # "w_no_s0_fix"
                am  == IF fixit THEN AddMul1(Sub(d.np, 0, tn), d.s, Wrap(2 * s0)) ELSE [r |-> Sub(d.np, 0, tn), cy |-> 0]   \* rl += mpn_addmul_1 (tp, sp, tn, 2 * s0[0]);  "R = R + 2*s0*S"
                rl1 == Wrap(d.c + am.cy)
                sm  == IF fixit THEN SubMul1(<<am.r[1]>>, <<s0>>, s0) ELSE [r |-> <<am.r[1]>>, cy |-> 0]                     \* cc = mpn_submul_1 (tp, s0, 1, s0[0]);
                tpA == Put(am.r, 0, sm.r)
                s1  == IF tn > 1 THEN Sub1(Sub(tpA, 1, tn - 1), sm.cy) ELSE [r |-> <<>>, cy |-> sm.cy]                        \* rl -= (tn > 1) ? mpn_sub_1 (tp + 1, tp + 1, tn - 1, cc) : cc;
                rl2 == Wrap(rl1 - (IF Variant = "w_rl_borrow_lost" THEN 0 ELSE s1.cy))
                tpB == Put(tpA, 1, s1.r) \o <<rl2>>            \* tp[tn] = rl;
                sres == LimbsOf(NatOf(d.s) \div 2 ^ k, tn)     \* mpn_rshift (sp, sp, tn, c);      needs 1 <= c < GMP_NUMB_BITS
                c2  == 2 * k                                   \* c = c << 1;
                tnA == IF c2 < W THEN tn + 1 ELSE tn           \* if (c < GMP_NUMB_BITS) tn++; else { tp++; c -= GMP_NUMB_BITS; }
                tpC == IF c2 < W THEN tpB ELSE Tail(tpB)
                c3  == IF c2 < W THEN c2 ELSE c2 - W
                rr  == LimbsOf(NatOf(tpC) \div 2 ^ c3, tnA)    \* if (c != 0) mpn_rshift (rp, tp, tn, c); else MPN_COPY_INCR (rp, tp, tn);
            IN  [s |-> sres, r |-> Normalize(rr), ok |-> d.ok /\ k >= 1 /\ k < W /\ c3 < W /\ Len(tpC) = tnA,
                 lab |-> d.lab \cup {<<IF c2 < W THEN "wshort" ELSE "wlong", nn>>}]
       ELSE LET d == DC(np, tn)                                \* rn = tn + (rp[tn] = mpn_dc_sqrtrem (sp, rp, tn));
                rfull == Put(d.np, tn, <<d.c>>)
            IN  [s |-> d.s, r |-> Normalize(SubSeq(rfull, 1, tn + d.c)), ok |-> d.ok /\ d.c \in {0, 1}, lab |-> d.lab \cup {<<"wnorm", nn>>}]

\* NoteW.  With 2^(2k) N = S^2 + R and S = S' 2^k + s0 the value R + 2 s0 S - s0^2 is 2^(2k) (N - S'^2), a multiple of 2^(2k), and
\* s0^2 < 2^(2k): the low tn limbs of R + 2 s0 S are (a multiple of 2^(2k) below B^tn) + s0^2 < B^tn, so for tn > 1 the
\* mpn_sub_1 over {tp + 1, tn - 1} never borrows and "rl -=" subtracts 0 there; for tn = 1 cc itself is subtracted.  The model
\* The same argument bounds cc < 2^(2k - W) when tn = 1, and rl (a multiple of 2^(2k - W)) is then shifted right by 2k - W bits:
\* the subtracted cc never reaches the result.  The model confirms both: variant "w_rl_borrow_lost" is an EQUIVALENT mutant (no
\* operand in range distinguishes it); it is kept to document that, and is not in the list of variants that must be rejected.
(* ------------------------------------------------------------------------------------------------------------------ *)
VARIABLES phase, kind, nl, hi
vars == <<phase, kind, nl, hi>>
Init == phase = 0 /\ kind = "" /\ nl = 0 /\ hi = 0 /\ (EMIT => TLCSet(1, {}))
PickS1 == phase = 0 /\ phase' = 1 /\ kind' = "s1" /\ nl' = 1 /\ hi' \in (B \div 4)..(B - 1)                      \* every normalised limb
PickDC == phase = 0 /\ phase' = 1 /\ kind' = "dc" /\ nl' \in 1..NMAX /\ hi' \in (B ^ nl' \div 4)..(B ^ nl' - 1)   \* n = nl: the high n limbs; the invariant runs over the low n
PickW  == phase = 0 /\ phase' = 1 /\ kind' = "w" /\ nl' \in 1..WMAX                                         \* nn = nl: the high ceil(nn/2) limbs, top limb non-zero
                    /\ hi' \in (B ^ ((nl' + 1) \div 2 - 1))..(B ^ ((nl' + 1) \div 2) - 1)
Spec == Init /\ [][PickS1 \/ PickDC \/ PickW]_vars

IsRoot(s, u) == s * s <= u /\ u < (s + 1) * (s + 1)
Seen(sig) == IF sig \in TLCGet(1) THEN TRUE ELSE (TLCSet(1, TLCGet(1) \cup {sig}) /\ FALSE)          \* per-worker register of the label sets already printed
Correct ==
   /\ (phase = 1 /\ kind = "s1" /\ TP # 0) =>
         LET a == Sqrtrem1(hi) IN a.ok /\ IsRoot(a.s, hi) /\ a.r = hi - a.s * a.s
   /\ (phase = 1 /\ kind = "dc") =>
         \A lo \in 0..(B ^ nl - 1) :
            LET u == hi * B ^ nl + lo
                d == DC(LimbsOf(u, 2 * nl), nl)
                s == NatOf(d.s)
            IN  /\ d.ok /\ Len(d.s) = nl
                /\ IsRoot(s, u)
                /\ d.c \in {0, 1}                                                 \* "returns the high limb of the remainder (which is 0 or 1)"
                /\ d.c * B ^ nl + NatOf(Sub(d.np, 0, nl)) = u - s * s             \* "in {np, n} the low n limbs of the remainder"
                /\ (EMIT /\ ~Seen(<<"dc", nl, d.lab>>)) => PrintT(<<"SQW", "dc", nl, W, u, d.lab>>)
   /\ (phase = 1 /\ kind = "w") =>
         \A lo \in 0..(B ^ (nl \div 2) - 1) :
            LET u == hi * B ^ (nl \div 2) + lo
                w == SqrtremW(LimbsOf(u, nl))
                s == NatOf(w.s)
            IN  /\ w.ok /\ Len(w.s) = (nl + 1) \div 2
                /\ IsRoot(s, u)
                /\ NatOf(w.r) = u - s * s                                         \* {rp, rn} is the remainder ...
                /\ (w.r = <<>> \/ w.r[Len(w.r)] # 0)                              \* ... and rn is its exact limb count (MPN_NORMALIZE)
                /\ (EMIT /\ ~Seen(<<"w", nl, w.lab>>)) => PrintT(<<"SQW", "w", nl, W, u, w.lab>>)
=============================================================================
