------------------------------ MODULE MPIRTrace ------------------------------
(***************************************************************************)
(* L3: binds recorded executions of the real library to MPIR.tla.          *)
(* The trace (ndjson, one event per line, file named by env TRACE) is a    *)
(* behaviour of the machine iff TLC can take one MPIR!Step per line.       *)
(* All events carry their arguments, so the search is linear.              *)
(* Acceptance: POSTCONDITION Accepted (diameter - 1 = number of lines).    *)
(***************************************************************************)
EXTENDS MPIR, Json, IOUtils, TLCExt

Tr == ndJsonDeserialize(IOEnv.TRACE)
VARIABLE l
tvars == <<mvars, l>>

TInit == Init /\ l = 1
TNext == /\ l <= Len(Tr)
         /\ Step(Tr[l])
         /\ l' = l + 1
TSpec == TInit /\ [][TNext]_tvars

Accepted == TLCGet("stats").diameter - 1 = Len(Tr)
(* on rejection the check script reads the line where the behaviour got stuck from "diameter" *)
=============================================================================
