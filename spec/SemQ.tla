-------------------------------- MODULE SemQ --------------------------------
EXTENDS Naturals, Integers, Sequences, BigZ, Dbl
FunsQ == {}
PostQ(f, A, O, r, x) == FALSE
SigQ(f, A) == FALSE
=============================================================================
