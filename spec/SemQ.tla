-------------------------------- MODULE SemQ --------------------------------
(***************************************************************************)
(* L2: rational functions.  A rational argument is the pair <<num, den>>   *)
(* of its stored numerator and denominator; O[k] is the post-state record  *)
(* [n |-> [v,..], d |-> [v,..]].  Results of arithmetic must be EXACT and  *)
(* CANONICAL: denominator positive, gcd(num,den) = 1, zero stored as 0/1.  *)
(***************************************************************************)
EXTENDS Naturals, Integers, Sequences, BigZ, Dbl

FunsQ == {"mpq_self_set_z_den", "mpq_self_set_z_num", "mpq_self_set_num_den", "mpq_self_set_den_num", "mpq_self_get_den_num", "mpq_self_get_num_den",
          "mpq_self_z_set_q_num", "mpq_self_z_add", "mpq_self_z_mul", "mpq_self_z_tdiv_qr", "mpq_init", "mpq_clear", "mpq_set", "mpq_set_z", "mpq_set_ui", "mpq_set_si", "mpq_set_d", "mpq_set_num", "mpq_set_den",
          "mpq_get_num", "mpq_get_den", "mpq_swap", "mpq_canonicalize", "mpq_add", "mpq_sub", "mpq_mul", "mpq_div", "mpq_neg", "mpq_abs",
          "mpq_inv", "mpq_mul_2exp", "mpq_div_2exp", "mpq_cmp", "mpq_cmp_ui", "mpq_cmp_si", "mpq_cmp_z", "mpq_equal", "mpq_sgn",
          "mpq_get_d", "mpq_inits", "mpq_clears"}

LOCAL SgnI(i) == IF i > 0 THEN 1 ELSE IF i < 0 THEN -1 ELSE 0
LOCAL Bool(r, c) == (r # 0) = c
LOCAL I(h) == ZToInt(h)
Canonical(n, d) == ZSgn(d) = 1 /\ ZGcd(n, d) = "1"            \* zero: gcd(0,d) = d = 1
(* the canonical representative of n/d, d # 0 *)
QCanon(n, d) == LET g == ZGcd(n, d)
                    n1 == IF ZIsNeg(d) THEN ZNeg(n) ELSE n
                IN  <<ZTDivQ(n1, g), ZTDivQ(ZAbs(d), g)>>
LOCAL Is(o, q) == o.n.v = q[1] /\ o.d.v = q[2]
CmpQ(a, b) == ZCmp(ZMul(a[1], b[2]), ZMul(b[1], a[2]))         \* denominators positive

(* r is the double obtained by truncating n/d toward zero (d > 0), when the value lies in the normal exponent range *)
DIsTruncOfQ(r, n, d) ==
   IF n = "0" THEN DIsZero(r)
   ELSE LET a == ZAbs(n)
            big == ZBitLen(a) - ZBitLen(d) > 1025
            tiny == ZBitLen(a) - ZBitLen(d) < -1021
        IN  IF big \/ tiny THEN TRUE                                   \* system dependent per the manual
            ELSE /\ DIsFinite(r) /\ r[1] = (IF ZIsNeg(n) THEN 1 ELSE 0)
                 /\ IF r[2] = 0 THEN TRUE                              \* result fell into the subnormal range
                    ELSE LET m == DMant(r)  e == DExp(r)
                             lo == IF e >= 0 THEN ZMul(ZShl(m, e), d) ELSE ZMul(m, d)
                             hi == IF e >= 0 THEN ZMul(ZShl(ZAdd(m, "1"), e), d) ELSE ZMul(ZAdd(m, "1"), d)
                             x  == IF e >= 0 THEN a ELSE ZShl(a, -e)
                         IN  ZLe(lo, x) /\ ZLt(x, hi)

SigQ(f, A) == CASE f = "mpq_div" -> A[3][1] = "0"
                [] f = "mpq_inv" -> A[2][1] = "0"
                [] f = "mpq_canonicalize" -> A[1][2] = "0"
                [] OTHER -> FALSE

PostQ(f, A, O, r, x) ==
   CASE f = "mpq_init" -> Is(O[1], <<"0", "1">>)
     [] f = "mpq_clear" -> TRUE
     [] f = "mpq_inits" -> \A k \in 1..3 : Is(O[k], <<"0", "1">>)
     [] f = "mpq_clears" -> TRUE
     [] f = "mpq_set" -> Is(O[1], A[2])
     [] f = "mpq_set_z" -> Is(O[1], <<A[2], "1">>)
     [] f \in {"mpq_set_ui", "mpq_set_si"} ->         \* stored as given (the caller canonicalises); zero may be stored as 0/1
           Is(O[1], <<A[2], A[3]>>) \/ (A[2] = "0" /\ Is(O[1], <<"0", "1">>))
     [] f = "mpq_set_d" -> LET m == DSigned(A[2])  e == DExp(A[2]) IN
                           Is(O[1], IF e >= 0 THEN <<ZShl(m, e), "1">> ELSE QCanon(m, ZPow2(-e)))
     [] f = "mpq_set_num" -> Is(O[1], <<A[2], A[1][2]>>)
     [] f = "mpq_set_den" -> Is(O[1], <<A[1][1], A[2]>>)
     [] f = "mpq_get_num" -> O[1].v = A[2][1]
     [] f = "mpq_get_den" -> O[1].v = A[2][2]
        \* component aliasing: the integer operand is the numerator / denominator of the rational operand itself (results as with a separate integer of that value)
     [] f = "mpq_self_set_z_den" -> Is(O[1], <<A[1][2], "1">>)
     [] f = "mpq_self_set_z_num" -> Is(O[1], <<A[1][1], "1">>)
     [] f = "mpq_self_set_num_den" -> Is(O[1], <<A[1][2], A[1][2]>>)
     [] f = "mpq_self_set_den_num" -> Is(O[1], IF ZSgn(A[1][1]) > 0 THEN <<A[1][1], A[1][1]>> ELSE A[1])
     [] f = "mpq_self_get_den_num" -> Is(O[1], <<A[1][2], A[1][2]>>)
     [] f = "mpq_self_get_num_den" -> Is(O[1], IF ZSgn(A[1][1]) > 0 THEN <<A[1][1], A[1][1]>> ELSE A[1])
     [] f = "mpq_self_z_set_q_num" -> Is(O[1], <<ZTDivQ(A[1][1], A[1][2]), A[1][2]>>)
     [] f = "mpq_self_z_add" -> Is(O[1], <<ZAdd(A[1][1], A[1][2]), A[1][2]>>)
     [] f = "mpq_self_z_mul" -> Is(O[1], <<A[1][1], ZMul(A[1][1], A[1][2])>>)
     [] f = "mpq_self_z_tdiv_qr" -> Is(O[1], <<ZTDivQ(A[1][1], A[1][2]), ZTDivR(A[1][1], A[1][2])>>)
     [] f = "mpq_swap" -> Is(O[1], A[2]) /\ Is(O[2], A[1])
     [] f = "mpq_canonicalize" -> Is(O[1], QCanon(A[1][1], A[1][2]))
     [] f = "mpq_add" -> Is(O[1], QCanon(ZAdd(ZMul(A[2][1], A[3][2]), ZMul(A[3][1], A[2][2])), ZMul(A[2][2], A[3][2])))
     [] f = "mpq_sub" -> Is(O[1], QCanon(ZSub(ZMul(A[2][1], A[3][2]), ZMul(A[3][1], A[2][2])), ZMul(A[2][2], A[3][2])))
     [] f = "mpq_mul" -> Is(O[1], QCanon(ZMul(A[2][1], A[3][1]), ZMul(A[2][2], A[3][2])))
     [] f = "mpq_div" -> Is(O[1], QCanon(ZMul(A[2][1], A[3][2]), ZMul(A[2][2], A[3][1])))
     [] f = "mpq_neg" -> Is(O[1], <<ZNeg(A[2][1]), A[2][2]>>)
     [] f = "mpq_abs" -> Is(O[1], <<ZAbs(A[2][1]), A[2][2]>>)
     [] f = "mpq_inv" -> Is(O[1], QCanon(A[2][2], A[2][1]))
     [] f = "mpq_mul_2exp" -> Is(O[1], QCanon(ZShl(A[2][1], I(A[3])), A[2][2]))
     [] f = "mpq_div_2exp" -> Is(O[1], QCanon(A[2][1], ZShl(A[2][2], I(A[3]))))
     [] f = "mpq_cmp" -> SgnI(r) = CmpQ(A[1], A[2])
     [] f \in {"mpq_cmp_ui", "mpq_cmp_si"} -> SgnI(r) = CmpQ(A[1], <<A[2], A[3]>>)      \* second denominator non-zero
     [] f = "mpq_cmp_z" -> SgnI(r) = CmpQ(A[1], <<A[2], "1">>)
     [] f = "mpq_equal" -> Bool(r, A[1] = A[2])
     [] f = "mpq_sgn" -> r = ZSgn(A[1][1])
     [] f = "mpq_get_d" -> DIsTruncOfQ(r, A[1][1], A[1][2])
=============================================================================
