----------------------------- MODULE RootContract -----------------------------
(* R2 model for C09: the root and perfect-power contracts the trace specification applies (SemZ) agree with the   *)
(* brute-force definitions on every integer |u| <= M: floor square root, truncated n-th root (also negative u, odd n), *)
(* exactness, and "u is a perfect power" as the manual defines it (0, 1 and negative odd powers included).         *)
EXTENDS Naturals, Integers, Sequences, TLC, SemZ
CONSTANT M
RECURSIVE PowI(_, _)
PowI(x, e) == IF e = 0 THEN 1 ELSE x * PowI(x, e - 1)
AbsI(x) == IF x < 0 THEN -x ELSE x
RECURSIVE SatPow(_, _)      \* a^b, saturated far outside the range of interest (no 32-bit overflow)
SatPow(a, b) == IF b = 0 THEN 1 ELSE LET p == SatPow(a, b - 1) IN IF AbsI(p) > 4 * M THEN p ELSE a * p
BrutePP(u) == \/ u \in {0, 1}
              \/ \E a \in (-M)..M, b \in 2..12 : a \notin {0, 1} /\ SatPow(a, b) = u
SqrtOK(u) == LET s == ZToInt(ZISqrt(ZFromInt(u))) IN s * s <= u /\ u < (s + 1) * (s + 1)
RootOK(u, n) == LET r == ZToInt(ZIRoot(ZFromInt(u), n))  a == AbsI(u)  ar == AbsI(r) IN
                   /\ (u < 0) = (r < 0) \/ r = 0
                   /\ SatPow(ar, n) <= a /\ (a < SatPow(ar + 1, n))
ASSUME \A u \in 0..M : SqrtOK(u)
ASSUME \A u \in (-M)..M, n \in {1, 2, 3, 4, 5, 7} : (u >= 0 \/ n % 2 = 1) => RootOK(u, n)
ASSUME \A u \in (-M)..M : IsPerfectPower(ZFromInt(u)) = BrutePP(u)
ASSUME PrintT(<<"RootContract", M>>)
VARIABLE dummy
Spec == dummy = 0 /\ [][UNCHANGED dummy]_dummy
=============================================================================
