------------------------------- MODULE FitsGet -------------------------------
(***************************************************************************)
(* R2 model for C11: mpz_fits_*_p (mpz/fits_s.h, fits_u.h), mpz_get_si,     *)
(* mpz_get_ui (mpz/get_si.c, get_ui.c) and mpz_cmp_si/cmp_ui transcribed    *)
(* with the C type widths as CONSTANTS: a limb and a "long" of W bits, a    *)
(* "short" of WS bits.  For every integer |z| < 2^(2W+1):                   *)
(*   fits <=> the value is in the type's range <=> get(z) = z;              *)
(*   get_ui returns the low W bits of |z|; get_si is exact when it fits;    *)
(*   the compare functions give the sign of the exact difference, i.e. one  *)
(*   total order.                                                           *)
(***************************************************************************)
EXTENDS Naturals, Integers, Sequences, TLC
CONSTANTS W, WS
B == 2 ^ W
AbsI(x) == IF x < 0 THEN -x ELSE x
SgnI(x) == IF x > 0 THEN 1 ELSE IF x < 0 THEN -1 ELSE 0
RECURSIVE NL(_)
NL(v) == IF v = 0 THEN 0 ELSE 1 + NL(v \div B)
Siz(z) == IF z < 0 THEN -NL(-z) ELSE NL(z)
Limb0(z) == AbsI(z) % B
SMAX(w) == 2 ^ (w - 1) - 1
SMINMAG(w) == 2 ^ (w - 1)          \* - (mp_limb_t) MINIMUM
FitsS(z, w) == LET n == Siz(z) limb == Limb0(z) IN
   IF n = 0 THEN TRUE ELSE IF n = 1 THEN limb <= SMAX(w) ELSE IF n = -1 THEN limb <= SMINMAG(w) ELSE FALSE
FitsU(z, w) == LET n == Siz(z) IN n = 0 \/ (n = 1 /\ Limb0(z) <= 2 ^ w - 1)
(* two's complement helpers on W-bit words *)
Wrap(x) == x % B
ToSigned(u) == IF u >= B \div 2 THEN u - B ELSE u
GetSi(z) == LET zl == Limb0(z) IN
   IF z > 0 THEN ToSigned(zl % (B \div 2))                       \* zl & SI_MAX
   ELSE IF z < 0 THEN ToSigned(Wrap(B - 1 - (Wrap(zl - 1) % (B \div 2))))   \* ~((zl - 1) & SI_MAX)
   ELSE 0
GetUi(z) == Limb0(z)
CmpSi(z, v) ==   \* mpz/cmp_si.c: compare sizes first, then the single limb
   LET usize == Siz(z)  vsize == SgnI(v)  ul == Limb0(z)  vl == AbsI(v) IN
   IF usize # vsize THEN usize - vsize
   ELSE IF usize = 0 THEN 0
   ELSE IF ul = vl THEN 0 ELSE IF ul > vl THEN usize ELSE -usize
Range == (-(2 ^ (2 * W + 1)))..(2 ^ (2 * W + 1))
ASSUME \A z \in Range :
   /\ FitsS(z, W) = (z >= -(2 ^ (W - 1)) /\ z <= SMAX(W))
   /\ FitsS(z, WS) = (z >= -(2 ^ (WS - 1)) /\ z <= SMAX(WS))
   /\ FitsU(z, W) = (z >= 0 /\ z < B) /\ FitsU(z, WS) = (z >= 0 /\ z < 2 ^ WS)
   /\ (FitsS(z, W) => GetSi(z) = z)
   /\ GetUi(z) = AbsI(z) % B
   /\ \A v \in (-(2 ^ (W - 1)))..SMAX(W) : SgnI(CmpSi(z, v)) = SgnI(z - v)
ASSUME PrintT(<<"FitsGet", W, WS>>)
VARIABLE dummy
Spec == dummy = 0 /\ [][UNCHANGED dummy]_dummy
=============================================================================
