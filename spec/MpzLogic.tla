------------------------------ MODULE MpzLogic ------------------------------
(***************************************************************************)
(* R2 model for C10/C04/C05: mpz_and (mpz/and.c) transcribed over the block *)
(* store of Mem.tla -- all three sign paths (both non-negative: result size *)
(* found first, realloc, pointers re-read; both negative: -x = ~(x-1) with  *)
(* temporaries, OR, +1 with carry into a new limb; mixed: x & ~(y-1) with   *)
(* the two size cases), the reallocation of the destination while it is     *)
(* also a source, and the temporaries.  Checked for every identity triple   *)
(* (res,op1,op2) over three objects, all values in -V..V at limb base B     *)
(* (a power of two) and exact/spare allocation: no access through a dead or *)
(* short block, result = AND of the infinite two's complement strings, all  *)
(* objects well formed, inputs unchanged, no block orphaned.                *)
(***************************************************************************)
EXTENDS Mem, TLC
CONSTANTS V, Variant       \* "ok" | "no_reread" (pointers not re-read after the realloc) | "no_carry_limb"

RECURSIVE AndI(_, _)
AndI(x, y) == IF x = 0 \/ y = 0 THEN 0 ELSE (x % 2) * (y % 2) + 2 * AndI(x \div 2, y \div 2)
OrI(x, y) == x + y - AndI(x, y)
NotL(x) == B - 1 - x
(* infinite two's complement AND on integers *)
RECURSIVE ZAndI(_, _)
ZAndI(x, y) == IF x = 0 \/ y = 0 THEN 0
               ELSE IF x = -1 THEN y ELSE IF y = -1 THEN x
               ELSE LET bx == x % 2  by == y % 2      \* TLC's % is non-negative for positive modulus
                        hx == (x - bx) \div 2  hy == (y - by) \div 2
                    IN  bx * by + 2 * ZAndI(hx, hy)

TmpBlk(st, vals) == LET s1 == NewBlk(st, Len(vals)) IN Wr(s1, LastId(s1), 0, vals)     \* TMP_ALLOC + fill
Sub1(limbs) == LimbsOf(NatOf(limbs) - 1, Len(limbs))                                   \* mpn_sub_1 (.., 1), operand non-zero

MpzAnd(st0, res, op1in, op2in) ==
   LET s1sz == st0.obj[op1in].size   s2sz == st0.obj[op2in].size IN
   IF s1sz >= 0 /\ s2sz >= 0
   THEN \* ---- both non-negative
        LET p1 == st0.obj[op1in].ptr  p2 == st0.obj[op2in].ptr
            m  == MinI(s1sz, s2sz)
            a  == Rd(st0, p1, 0, m)   b == Rd(st0, p2, 0, m)
            nz == {i \in 1..m : AndI(a[i], b[i]) # 0}
            rs == IF nz = {} THEN 0 ELSE CHOOSE i \in nz : \A j \in nz : j <= i
            grow == st0.obj[res].alloc < rs
            s1 == IF grow THEN MpzRealloc(st0, res, rs) ELSE st0
            q1 == IF Variant = "no_reread" THEN p1 ELSE s1.obj[op1in].ptr
            q2 == IF Variant = "no_reread" THEN p2 ELSE s1.obj[op2in].ptr
            qr == s1.obj[res].ptr
            s2 == RdOK(RdOK(s1, q1, 0, rs, "op1"), q2, 0, rs, "op2")
            x  == Rd(s2, q1, 0, rs)   y == Rd(s2, q2, 0, rs)
            s3 == Wr(s2, qr, 0, [i \in 1..rs |-> AndI(x[i], y[i])])
        IN  SetSize(s3, res, rs)
   ELSE IF s1sz < 0 /\ s2sz < 0
   THEN \* ---- both negative: ((OP1 - 1) | (OP2 - 1)) + 1
        LET n1 == -s1sz  n2 == -s2sz
            ralloc == 1 + MaxI(n1, n2)
            sa == TmpBlk(st0, Sub1(Rd(st0, st0.obj[op1in].ptr, 0, n1)))   t1 == LastId(sa)
            sb == TmpBlk(sa, Sub1(Rd(sa, sa.obj[op2in].ptr, 0, n2)))      t2 == LastId(sb)
            sc == IF sb.obj[res].alloc < ralloc THEN MpzRealloc(sb, res, ralloc) ELSE sb
            qr == sc.obj[res].ptr
            x  == Rd(sc, t1, 0, n1)   y == Rd(sc, t2, 0, n2)
            big == IF n1 >= n2 THEN x ELSE y
            sm  == IF n1 >= n2 THEN n2 ELSE n1
            rsz == MaxI(n1, n2)
            ored == [i \in 1..rsz |-> IF i <= sm THEN OrI(x[i], y[i]) ELSE big[i]]
            sum == NatOf(ored) + 1
            cy  == sum \div (B ^ rsz)
            sd == Wr(sc, qr, 0, LimbsOf(sum % (B ^ rsz), rsz))
            se == IF cy # 0 /\ Variant # "no_carry_limb" THEN Wr(sd, qr, rsz, <<cy>>) ELSE sd
            rs2 == IF cy # 0 /\ Variant # "no_carry_limb" THEN rsz + 1 ELSE rsz
            sf == SetSize(se, res, -rs2)
        IN  FreeBlk(FreeBlk(sf, t1, n1), t2, n2)                           \* TMP_FREE
   ELSE \* ---- mixed signs: OP1 & ~(OP2 - 1) with OP1 >= 0 > OP2 (swap if needed)
        LET sw == s1sz < 0
            op1 == IF sw THEN op2in ELSE op1in
            op2 == IF sw THEN op1in ELSE op2in
            n1 == st0.obj[op1].size   n2 == -st0.obj[op2].size
            p1 == st0.obj[op1].ptr
            sa == TmpBlk(st0, Sub1(Rd(st0, st0.obj[op2].ptr, 0, n2)))    t2 == LastId(sa)
            y  == Rd(sa, t2, 0, n2)
        IN  IF n1 > n2
            THEN LET sb == IF sa.obj[res].alloc < n1 THEN MpzRealloc(sa, res, n1) ELSE sa
                     q1 == IF Variant = "no_reread" THEN p1 ELSE sb.obj[op1].ptr
                     qr == sb.obj[res].ptr
                     sc == RdOK(sb, q1, 0, n1, "op1")
                     x  == Rd(sc, q1, 0, n1)
                     sd == Wr(sc, qr, 0, [i \in 1..n1 |-> IF i <= n2 THEN AndI(x[i], NotL(y[i])) ELSE x[i]])
                 IN  FreeBlk(SetSize(sd, res, n1), t2, n2)
            ELSE LET x0 == Rd(sa, p1, 0, n1)
                     nz == {i \in 1..n1 : AndI(x0[i], NotL(y[i])) # 0}
                     rs == IF nz = {} THEN 0 ELSE CHOOSE i \in nz : \A j \in nz : j <= i
                     sb == IF sa.obj[res].alloc < rs THEN MpzRealloc(sa, res, rs) ELSE sa
                     q1 == IF Variant = "no_reread" THEN p1 ELSE sb.obj[op1].ptr
                     qr == sb.obj[res].ptr
                     sc == RdOK(sb, q1, 0, rs, "op1")
                     x  == Rd(sc, q1, 0, rs)
                     sd == Wr(sc, qr, 0, [i \in 1..rs |-> AndI(x[i], NotL(y[i]))])
                 IN  FreeBlk(SetSize(sd, res, rs), t2, n2)

Vals == (-V)..V
VARIABLES phase, args, vals, allocs
vars == <<phase, args, vals, allocs>>
Init == phase = 0 /\ args = <<1, 1, 1>> /\ vals = <<0, 0, 0>> /\ allocs = <<1, 1, 1>>
Pick == /\ phase = 0 /\ phase' = 1
        /\ args' \in {<<a, b, c>> : a \in 1..3, b \in 1..3, c \in 1..3} /\ UNCHANGED <<vals, allocs>>
Fill == /\ phase = 1 /\ phase' = 2
        /\ vals' \in {<<a, b, c>> : a \in Vals, b \in Vals, c \in Vals}
        /\ allocs' \in {<<a, b, c>> : a \in 0..1, b \in 0..1, c \in 0..1}
        /\ UNCHANGED args
Spec == Init /\ [][Pick \/ Fill]_vars
Correct ==
   phase = 2 =>
     LET al  == [i \in 1..3 |-> MaxI(1, NLimbs(AbsI(vals[i]))) + allocs[i]]
         st0 == MkStore(vals, al)
         out == MpzAnd(st0, args[1], args[2], args[3])
     IN  /\ out.err = {}
         /\ ObjVal(out, args[1]) = ZAndI(vals[args[2]], vals[args[3]])
         /\ \A o \in 1..3 : WellFormedObj(out, o) /\ (o # args[1] => ObjVal(out, o) = vals[o])
         /\ NoOrphans(out)
=============================================================================
