------------------------------ MODULE PrintfModel ------------------------------
(* R2 run of PrintfLayout: GmpLayout = CPrintf on the whole product (every ordered flag sequence of up to 3 distinct flags and *)
(* the full set, widths, precisions, conversions, values); with EMIT each row is printed for replay against gmp_snprintf AND  *)
(* the C library's snprintf (R3).                                                                                            *)
EXTENDS PrintfLayout, FiniteSets
CONSTANTS EMIT
FlagChars == <<"-", "+", " ", "#", "0">>
Seqs3 == {<<>>} \cup {<<FlagChars[a]>> : a \in 1..5} \cup {<<FlagChars[a], FlagChars[b]>> : a \in 1..5, b \in (1..5)} \cup
         {<<FlagChars[a], FlagChars[b], FlagChars[c]>> : a \in 1..5, b \in 1..5, c \in 1..5} \cup {<<"-", "+", " ", "#", "0">>, <<"0", "#", " ", "+", "-">>}
FlagSeqs == {s \in Seqs3 : \A i \in DOMAIN s, j \in DOMAIN s : i # j => s[i] # s[j]}
Vals == {0, 1, -1, 9, 10, -255, 255, 4096, -65536}
Widths == {-1, 1, 3, 8}
Precs == {-1, 0, 1, 5}
Convs == {"d", "i", "o", "x", "X"}
RECURSIVE FlagStr(_)
FlagStr(fl) == IF fl = <<>> THEN "" ELSE fl[1] \o FlagStr(Tail(fl))
ASSUME \A fl \in FlagSeqs, w \in Widths, p \in Precs, c \in Convs, v \in Vals :
   LET z == ZFromInt(v)
       g == GmpLayout(fl, w, p, c, z)
   IN  /\ (~DocumentedDeviation(fl, p, z) => g = CPrintf(FlagRec(fl), w, p, c, z))
       /\ (EMIT => PrintT(<<"FMT", FlagStr(fl), w, p, c, v>>))
(* width / precision through '*' arguments (negative ones included) and the bare '.': every combination in which at least one of the two is special *)
FlagSeqsX == {s \in FlagSeqs : Len(s) <= 2 \/ Len(s) = 5}
WidthsX == {-1, 3, 8, 1008, 2008, 2003}
PrecsX == {-1, 0, 5, 1000, 1005, 2001, 3000}
ValsX == {0, 1, -255, 255, 4096}
ASSUME \A fl \in FlagSeqsX, w \in WidthsX, p \in PrecsX, c \in Convs, v \in ValsX :
   (w >= 1000 \/ p >= 1000) =>
   LET z == ZFromInt(v)
       g == GmpLayoutX(fl, w, p, c, z)
   IN  /\ g = CPrintfX(FlagRec(fl), w, p, c, z)
       /\ (EMIT => PrintT(<<"FMT", FlagStr(fl), w, p, c, v>>))
ASSUME PrintT(<<"PrintfModel", Cardinality(FlagSeqs)>>)
VARIABLE dummy
Spec == dummy = 0 /\ [][UNCHANGED dummy]_dummy
=============================================================================
