----------------------------- MODULE BinDispatch -----------------------------
(***************************************************************************)
(* R2 model for C16: the algorithm selection of mpz_bin_uiui                *)
(* (mpz/bin_uiui.c:705-742) with its table limits as CONSTANTS (read from   *)
(* the source of the tree under test).  Each algorithm is entered only      *)
(* where its assumption holds: the basecase result fits one limb, the odd   *)
(* part of k! (small-k) and of the central binomial (small-k d&c) fit one   *)
(* limb.  The limits are also shown to be tight (one more would overflow),  *)
(* and every (n,k) adjacent to a region boundary is printed for replay.     *)
(***************************************************************************)
EXTENDS Naturals, Integers, Sequences, TLC, BigZ
CONSTANTS FACT, EXT, CENTRAL, GOET, NMAX, EMIT
LIMB == ZPow2(64)
OddPart(z) == IF z = "0" THEN "0" ELSE ZShr(z, ZCtz(z))
MinI(a, b) == IF a < b THEN a ELSE b
Disp(n, k0) == LET k == MinI(k0, n - k0) IN
   IF n < k0 THEN "zero" ELSE IF k < 2 THEN "tiny" ELSE IF n <= EXT THEN "bc" ELSE IF k <= FACT THEN "smallk"
   ELSE IF k <= 2 * CENTRAL THEN "smallkdc" ELSE IF k > GOET /\ k > n \div 16 THEN "goetgheluck" ELSE "bdiv"
ASSUME \A n \in 4..EXT : \A k \in 2..(n \div 2) : ZLt(ZBin(ZFromInt(n), ZFromInt(k)), LIMB)            \* bc_bin_uiui returns one limb
ASSUME \E k \in 2..((EXT + 1) \div 2) : ~ZLt(ZBin(ZFromInt(EXT + 1), ZFromInt(k)), LIMB)           \* and the limit is tight
ASSUME \A k \in 0..FACT : ZLt(OddPart(ZFac(k)), LIMB)                                              \* odd factorial table entries are limbs
ASSUME ~ZLt(OddPart(ZFac(FACT + 1)), LIMB)
ASSUME \A i \in 1..CENTRAL : ZLt(OddPart(ZBin(ZFromInt(2 * i), ZFromInt(i))), LIMB)                \* odd central binomial table
ASSUME ~ZLt(OddPart(ZBin(ZFromInt(2 * (CENTRAL + 1)), ZFromInt(CENTRAL + 1))), LIMB)
Near(n, k) == \E dn \in {-1, 0, 1}, dk \in {-1, 0, 1} : n + dn >= 0 /\ k + dk >= 0 /\ Disp(n + dn, k + dk) # Disp(n, k)
Ks == {0, 1, 2, 3, FACT - 1, FACT, FACT + 1, FACT + 2, 2 * CENTRAL - 1, 2 * CENTRAL, 2 * CENTRAL + 1, 2 * CENTRAL + 2, GOET - 1, GOET, GOET + 1, GOET + 2, 1500, 2500}
ASSUME \A k \in Ks, n \in 0..NMAX : (EMIT /\ k <= n /\ Near(n, k) /\ (n < 200 \/ n % 16 \in {0, 1, 15} \/ n - k < 3 \/ n \div 16 \in {k - 1, k, k + 1})) => PrintT(<<"BIN", n, k, Disp(n, k)>>)
ASSUME PrintT(<<"BinDispatch", FACT, EXT, CENTRAL, GOET>>)
VARIABLE dummy
Spec == dummy = 0 /\ [][UNCHANGED dummy]_dummy
=============================================================================
