------------------------------- MODULE BigZ -------------------------------
(***************************************************************************)
(* L0: arbitrary-precision integers for the MPIR specification.            *)
(*                                                                         *)
(* TLC integers are 32-bit, so an integer is represented by its            *)
(* hexadecimal numeral as a TLA+ string: "0", "ff", "-1a2b" (lower case,   *)
(* no leading zeros, "-" prefix for negatives).  Every operator Z* below   *)
(* has a NORMATIVE definition in plain TLA+ (on little-endian digit        *)
(* sequences in base 4096) and, when spec/java is on TLC's class path, a   *)
(* Java accelerator (tlc2.module.BigZ).  L0Equiv.tla checks that both      *)
(* agree; BigZPure.tla is a verbatim copy of this module under a name TLC  *)
(* has no override for.                                                    *)
(*                                                                         *)
(* No VARIABLES here (operator library).                                   *)
(***************************************************************************)
EXTENDS Naturals, Integers, Sequences

LOCAL D == 4096          \* digit base, 3 hex characters

----------------------------------------------------------------------------
(* characters *)
LOCAL HexAlpha == "0123456789abcdef"
LOCAL HexV(c) == CASE c = "0" -> 0 [] c = "1" -> 1 [] c = "2" -> 2 [] c = "3" -> 3
                   [] c = "4" -> 4 [] c = "5" -> 5 [] c = "6" -> 6 [] c = "7" -> 7
                   [] c = "8" -> 8 [] c = "9" -> 9 [] c = "a" -> 10 [] c = "b" -> 11
                   [] c = "c" -> 12 [] c = "d" -> 13 [] c = "e" -> 14 [] c = "f" -> 15
LOCAL HexC(v) == SubSeq(HexAlpha, v + 1, v + 1)
LOCAL Ch(s, i) == SubSeq(s, i, i)

----------------------------------------------------------------------------
(* naturals as little-endian digit sequences base D without high zero digits *)
RECURSIVE PNorm(_)
PNorm(a) == IF a = <<>> THEN a
            ELSE IF a[Len(a)] = 0 THEN PNorm(SubSeq(a, 1, Len(a) - 1)) ELSE a

LOCAL PDig(a, i) == IF i <= Len(a) THEN a[i] ELSE 0

RECURSIVE PCmpFrom(_, _, _)
PCmpFrom(a, b, i) == IF i = 0 THEN 0
                     ELSE IF a[i] > b[i] THEN 1 ELSE IF a[i] < b[i] THEN -1
                     ELSE PCmpFrom(a, b, i - 1)
PCmp(a, b) == IF Len(a) > Len(b) THEN 1 ELSE IF Len(a) < Len(b) THEN -1
              ELSE PCmpFrom(a, b, Len(a))

RECURSIVE PAddFrom(_, _, _, _)
PAddFrom(a, b, i, c) ==
   IF i > Len(a) /\ i > Len(b) THEN (IF c = 0 THEN <<>> ELSE <<c>>)
   ELSE LET s == PDig(a, i) + PDig(b, i) + c
        IN  <<s % D>> \o PAddFrom(a, b, i + 1, s \div D)
PAdd(a, b) == PAddFrom(a, b, 1, 0)

RECURSIVE PSubFrom(_, _, _, _)
PSubFrom(a, b, i, br) ==            \* requires a >= b
   IF i > Len(a) THEN <<>>
   ELSE LET s == a[i] - PDig(b, i) - br
        IN  IF s < 0 THEN <<s + D>> \o PSubFrom(a, b, i + 1, 1)
                     ELSE <<s>> \o PSubFrom(a, b, i + 1, 0)
PSub(a, b) == PNorm(PSubFrom(a, b, 1, 0))

RECURSIVE PMulDFrom(_, _, _, _)
PMulDFrom(a, d, i, c) ==
   IF i > Len(a) THEN (IF c = 0 THEN <<>> ELSE <<c>>)
   ELSE LET s == a[i] * d + c IN <<s % D>> \o PMulDFrom(a, d, i + 1, s \div D)
PMulD(a, d) == IF d = 0 THEN <<>> ELSE PMulDFrom(a, d, 1, 0)

RECURSIVE PMulFrom(_, _, _)
PMulFrom(a, b, j) == IF j > Len(b) THEN <<>>
                     ELSE PAdd(PMulD(a, b[j]), <<0>> \o PMulFrom(a, b, j + 1))
PMul(a, b) == IF a = <<>> \/ b = <<>> THEN <<>> ELSE PNorm(PMulFrom(a, b, 1))

(* largest q in lo..hi with b*q <= r  (b*lo <= r is given) *)
RECURSIVE PQDigit(_, _, _, _)
PQDigit(r, b, lo, hi) ==
   IF lo = hi THEN lo
   ELSE LET mid == (lo + hi + 1) \div 2
        IN  IF PCmp(PMulD(b, mid), r) <= 0 THEN PQDigit(r, b, mid, hi)
            ELSE PQDigit(r, b, lo, mid - 1)

(* long division: digits of a from the top; returns <<q, r>>, b # 0 *)
RECURSIVE PDivFrom(_, _, _, _)
PDivFrom(a, b, i, r) ==       \* r: running remainder; result q digits little-endian
   IF i = 0 THEN <<<<>>, r>>
   ELSE LET r1 == PNorm(<<a[i]>> \o r)
            q  == PQDigit(r1, b, 0, D - 1)
            r2 == PSub(r1, PMulD(b, q))
            rest == PDivFrom(a, b, i - 1, r2)
        IN  <<rest[1] \o <<q>>, rest[2]>>
PDivMod(a, b) == LET x == PDivFrom(a, b, Len(a), <<>>) IN <<PNorm(x[1]), x[2]>>

LOCAL PPow2(n) == [i \in 1..(n \div 12 + 1) |-> IF i = n \div 12 + 1 THEN 2 ^ (n % 12) ELSE 0]
LOCAL PIsOdd(a) == a # <<>> /\ a[1] % 2 = 1
LOCAL POne == <<1>>
RECURSIVE PFromInt(_)
PFromInt(n) == IF n = 0 THEN <<>> ELSE <<n % D>> \o PFromInt(n \div D)
RECURSIVE PToIntFrom(_, _)
PToIntFrom(a, i) == IF i > Len(a) THEN 0 ELSE a[i] + D * PToIntFrom(a, i + 1)

RECURSIVE PBitLenI(_)
PBitLenI(x) == IF x = 0 THEN 0 ELSE 1 + PBitLenI(x \div 2)
PBitLen(a) == IF a = <<>> THEN 0 ELSE 12 * (Len(a) - 1) + PBitLenI(a[Len(a)])

----------------------------------------------------------------------------
(* signed integers: [neg, m] with m normalised, zero has neg = FALSE *)
LOCAL Mk(neg, m) == [neg |-> neg /\ m # <<>>, m |-> m]

RECURSIVE PHexToDig(_)
PHexToDig(s) ==
   IF Len(s) = 0 THEN <<>>
   ELSE LET n == Len(s)
            k == IF n >= 3 THEN 3 ELSE n
            v == IF k = 3 THEN 256 * HexV(Ch(s, n - 2)) + 16 * HexV(Ch(s, n - 1)) + HexV(Ch(s, n))
                 ELSE IF k = 2 THEN 16 * HexV(Ch(s, n - 1)) + HexV(Ch(s, n))
                 ELSE HexV(Ch(s, n))
        IN  <<v>> \o PHexToDig(SubSeq(s, 1, n - k))
PIn(s) == IF Len(s) > 0 /\ Ch(s, 1) = "-"
          THEN Mk(TRUE, PNorm(PHexToDig(SubSeq(s, 2, Len(s)))))
          ELSE Mk(FALSE, PNorm(PHexToDig(s)))

LOCAL Hex3(v) == HexC(v \div 256) \o HexC((v \div 16) % 16) \o HexC(v % 16)
LOCAL HexTop(v) == IF v >= 256 THEN Hex3(v)
                   ELSE IF v >= 16 THEN HexC(v \div 16) \o HexC(v % 16) ELSE HexC(v)
RECURSIVE PDigToHex(_, _)
PDigToHex(m, i) == IF i = 0 THEN "" ELSE Hex3(m[i]) \o PDigToHex(m, i - 1)
POut(x) == IF x.m = <<>> THEN "0"
           ELSE (IF x.neg THEN "-" ELSE "") \o HexTop(x.m[Len(x.m)]) \o PDigToHex(x.m, Len(x.m) - 1)

LOCAL SAdd(x, y) ==
   IF x.neg = y.neg THEN Mk(x.neg, PAdd(x.m, y.m))
   ELSE IF PCmp(x.m, y.m) >= 0 THEN Mk(x.neg, PSub(x.m, y.m))
   ELSE Mk(y.neg, PSub(y.m, x.m))
LOCAL SNeg(x) == Mk(~x.neg, x.m)
LOCAL SMul(x, y) == Mk(x.neg # y.neg, PMul(x.m, y.m))
LOCAL SCmp(x, y) == IF x.neg /\ ~y.neg THEN -1 ELSE IF ~x.neg /\ y.neg THEN 1
                    ELSE IF x.neg THEN PCmp(y.m, x.m) ELSE PCmp(x.m, y.m)
LOCAL SOne == Mk(FALSE, POne)
(* truncating division *)
LOCAL STDiv(x, y) == LET qr == PDivMod(x.m, y.m) IN <<Mk(x.neg # y.neg, qr[1]), Mk(x.neg, qr[2])>>
LOCAL SFDiv(x, y) == LET t == STDiv(x, y) IN
   IF t[2].m # <<>> /\ (t[2].neg # y.neg) THEN <<SAdd(t[1], SNeg(SOne)), SAdd(t[2], y)>> ELSE t
LOCAL SCDiv(x, y) == LET t == STDiv(x, y) IN
   IF t[2].m # <<>> /\ (t[2].neg = y.neg) THEN <<SAdd(t[1], SOne), SAdd(t[2], SNeg(y))>> ELSE t

----------------------------------------------------------------------------
(* The public operators (string level).  Names, arities and meaning are    *)
(* what tlc2.module.BigZ overrides.                                        *)

ZAdd(a, b) == POut(SAdd(PIn(a), PIn(b)))
ZSub(a, b) == POut(SAdd(PIn(a), SNeg(PIn(b))))
ZMul(a, b) == POut(SMul(PIn(a), PIn(b)))
ZNeg(a) == POut(SNeg(PIn(a)))
ZAbs(a) == POut(Mk(FALSE, PIn(a).m))
ZCmp(a, b) == SCmp(PIn(a), PIn(b))
ZSgn(a) == LET x == PIn(a) IN IF x.m = <<>> THEN 0 ELSE IF x.neg THEN -1 ELSE 1
ZFromInt(i) == IF i < 0 THEN POut(Mk(TRUE, PFromInt(-i))) ELSE POut(Mk(FALSE, PFromInt(i)))
ZToInt(a) == LET x == PIn(a) v == PToIntFrom(x.m, 1) IN IF x.neg THEN -v ELSE v

ZTDivQ(a, b) == POut(STDiv(PIn(a), PIn(b))[1])
ZTDivR(a, b) == POut(STDiv(PIn(a), PIn(b))[2])
ZFDivQ(a, b) == POut(SFDiv(PIn(a), PIn(b))[1])
ZFDivR(a, b) == POut(SFDiv(PIn(a), PIn(b))[2])
ZCDivQ(a, b) == POut(SCDiv(PIn(a), PIn(b))[1])
ZCDivR(a, b) == POut(SCDiv(PIn(a), PIn(b))[2])

ZPow2(n) == POut(Mk(FALSE, PPow2(n)))
ZShl(a, n) == POut(SMul(PIn(a), Mk(FALSE, PPow2(n))))
ZShr(a, n) == POut(SFDiv(PIn(a), Mk(FALSE, PPow2(n)))[1])        \* floor
ZLowBits(a, n) == POut(SFDiv(PIn(a), Mk(FALSE, PPow2(n)))[2])    \* a mod 2^n in [0,2^n)
ZBitLen(a) == PBitLen(PIn(a).m)

(* two's complement bit operations: an integer x is the infinite bit string
   of x mod 2^k for k -> infinity.  Computed on k = 12*(maxlen+1) bits. *)
RECURSIVE PBitOpI(_, _, _, _)
PBitOpI(op, x, y, n) ==
   IF n = 0 THEN 0
   ELSE LET bx == x % 2   by == y % 2
            b  == CASE op = "and" -> bx * by
                    [] op = "or"  -> IF bx + by > 0 THEN 1 ELSE 0
                    [] op = "xor" -> (bx + by) % 2
        IN  b + 2 * PBitOpI(op, x \div 2, y \div 2, n - 1)
LOCAL PTwos(x, k) ==     \* k digits of the two's complement representation
   LET full == IF x.neg THEN PSub(PPow2(12 * k), x.m) ELSE x.m
   IN  [i \in 1..k |-> PDig(full, i)]
LOCAL SBitOp(op, x, y) ==
   LET k  == (IF Len(x.m) > Len(y.m) THEN Len(x.m) ELSE Len(y.m)) + 1
       tx == PTwos(x, k)   ty == PTwos(y, k)
       r  == [i \in 1..k |-> PBitOpI(op, tx[i], ty[i], 12)]
       neg == CASE op = "and" -> x.neg /\ y.neg
                [] op = "or"  -> x.neg \/ y.neg
                [] op = "xor" -> x.neg # y.neg
   IN  IF neg THEN Mk(TRUE, PSub(PPow2(12 * k), PNorm(r))) ELSE Mk(FALSE, PNorm(r))
ZAnd(a, b) == POut(SBitOp("and", PIn(a), PIn(b)))
ZOr(a, b)  == POut(SBitOp("or", PIn(a), PIn(b)))
ZXor(a, b) == POut(SBitOp("xor", PIn(a), PIn(b)))
ZCom(a) == POut(SAdd(SNeg(PIn(a)), SNeg(SOne)))                   \* ~x = -x - 1
ZTestBit(a, i) == PIsOdd(SFDiv(PIn(a), Mk(FALSE, PPow2(i)))[1].m)  \* floor shift keeps two's complement bits
RECURSIVE PPopI(_)
PPopI(x) == IF x = 0 THEN 0 ELSE (x % 2) + PPopI(x \div 2)
RECURSIVE PPopFrom(_, _)
PPopFrom(m, i) == IF i > Len(m) THEN 0 ELSE PPopI(m[i]) + PPopFrom(m, i + 1)
ZPopCount(a) == PPopFrom(PIn(a).m, 1)                             \* a >= 0
RECURSIVE PCtzI(_)
PCtzI(x) == IF x % 2 = 1 THEN 0 ELSE 1 + PCtzI(x \div 2)
RECURSIVE PCtzFrom(_, _)
PCtzFrom(m, i) == IF m[i] # 0 THEN 12 * (i - 1) + PCtzI(m[i]) ELSE PCtzFrom(m, i + 1)
ZCtz(a) == PCtzFrom(PIn(a).m, 1)                                  \* a # 0

RECURSIVE PGcd(_, _)
PGcd(a, b) == IF b = <<>> THEN a ELSE PGcd(b, PDivMod(a, b)[2])
ZGcd(a, b) == POut(Mk(FALSE, PGcd(PIn(a).m, PIn(b).m)))

RECURSIVE SPowI(_, _)
SPowI(x, e) == IF e = 0 THEN SOne
               ELSE LET h == SPowI(x, e \div 2)  h2 == SMul(h, h)
                    IN  IF e % 2 = 1 THEN SMul(h2, x) ELSE h2
ZPow(a, e) == POut(SPowI(PIn(a), e))

(* x^e mod m for digit-sequence e, m > 0, 0 <= x < m *)
RECURSIVE PPowMod(_, _, _)
PPowMod(x, e, m) ==
   IF e = <<>> THEN PDivMod(POne, m)[2]
   ELSE LET h  == PPowMod(x, PDivMod(e, <<2>>)[1], m)
            h2 == PDivMod(PMul(h, h), m)[2]
        IN  IF PIsOdd(e) THEN PDivMod(PMul(h2, x), m)[2] ELSE h2
ZPowMod(a, e, m) == LET mm == PIn(m).m
                        x  == SFDiv(PIn(a), Mk(FALSE, mm))[2].m
                    IN  POut(Mk(FALSE, PPowMod(x, PIn(e).m, mm)))

(* floor square root by Newton from above *)
RECURSIVE PSqrtIter(_, _)
PSqrtIter(a, r) == LET t == PDivMod(PAdd(r, PDivMod(a, r)[1]), <<2>>)[1]
                   IN  IF PCmp(t, r) >= 0 THEN r ELSE PSqrtIter(a, t)
ZISqrt(a) == LET x == PIn(a).m IN
   IF x = <<>> THEN "0" ELSE POut(Mk(FALSE, PSqrtIter(x, PPow2((PBitLen(x) + 1) \div 2))))
RECURSIVE PRootIter(_, _, _)
PRootIter(a, n, r) ==
   LET rp == SPowI(Mk(FALSE, r), n - 1).m
       t  == PDivMod(PAdd(PMul(PFromInt(n - 1), r), PDivMod(a, rp)[1]), PFromInt(n))[1]
   IN  IF PCmp(t, r) >= 0 THEN r ELSE PRootIter(a, n, t)
ZIRoot(a, n) == LET x == PIn(a) bl == PBitLen(x.m) IN
   IF n = 1 \/ x.m = <<>> THEN a
   ELSE IF n >= bl THEN (IF x.neg THEN "-1" ELSE "1")
   ELSE POut(Mk(x.neg, PRootIter(x.m, n, PPow2((bl + n - 1) \div n))))

(* Kronecker symbol (a/b), all integers *)
LOCAL PMod8(m) == IF m = <<>> THEN 0 ELSE m[1] % 8
LOCAL PMod4(m) == IF m = <<>> THEN 0 ELSE m[1] % 4
RECURSIVE PStrip2(_)       \* <<odd part, number of removed factors 2>>, argument non-zero
PStrip2(m) == IF PIsOdd(m) THEN <<m, 0>>
              ELSE LET r == PStrip2(PDivMod(m, <<2>>)[1]) IN <<r[1], r[2] + 1>>
RECURSIVE PJacobi(_, _, _)  \* b odd positive, 0 <= a < b ; r accumulates the sign
PJacobi(a, b, r) ==
   IF a = <<>> THEN (IF b = POne THEN r ELSE 0)
   ELSE LET st == PStrip2(a)
            a1 == st[1]
            r1 == IF st[2] % 2 = 1 /\ PMod8(b) \in {3, 5} THEN -r ELSE r
            r2 == IF PMod4(a1) = 3 /\ PMod4(b) = 3 THEN -r1 ELSE r1
        IN  PJacobi(PDivMod(b, a1)[2], a1, r2)
ZKronecker(a, b) ==
   LET x == PIn(a)   y == PIn(b) IN
   IF y.m = <<>> THEN (IF x.m = POne THEN 1 ELSE 0)
   ELSE IF ~PIsOdd(x.m) /\ ~PIsOdd(y.m) THEN 0
   ELSE LET r0 == IF y.neg /\ x.neg THEN -1 ELSE 1
            st == PStrip2(y.m)
            a8 == SFDiv(x, Mk(FALSE, <<8>>))[2].m      \* a mod 8 in 0..7
            a8i == IF a8 = <<>> THEN 0 ELSE a8[1]
            r1 == IF st[2] % 2 = 1 /\ a8i \in {3, 5} THEN -r0 ELSE r0
            bo == st[1]
            am == SFDiv(x, Mk(FALSE, bo))[2].m
        IN  PJacobi(am, bo, r1)

(* primality: strong pseudoprime test to the first 13 prime bases; this is a
   proof of primality below 3317044064679887385961981 (> 2^81).  Above that
   bound the Java accelerator adds 64 further bases and the definition below
   is the one a pure-mode run uses. *)
LOCAL MRBases == <<2, 3, 5, 7, 11, 13, 17, 19, 23, 29, 31, 37, 41>>
RECURSIVE PMRSquares(_, _, _, _)
PMRSquares(x, n, nm1, k) ==     \* is some x^(2^j), 1 <= j <= k, equal to n-1
   IF k = 0 THEN FALSE
   ELSE LET x2 == PDivMod(PMul(x, x), n)[2] IN x2 = nm1 \/ PMRSquares(x2, n, nm1, k - 1)
LOCAL PStrong(n, base) ==
   LET nm1 == PSub(n, POne)
       st  == PStrip2(nm1)
       x   == PPowMod(PDivMod(PFromInt(base), n)[2], st[1], n)
   IN  x = POne \/ x = nm1 \/ PMRSquares(x, n, nm1, st[2] - 1)
ZIsPrime(a) ==
   LET x == PIn(a) n == x.m IN
   IF x.neg \/ PCmp(n, <<2>>) < 0 THEN FALSE
   ELSE IF \E i \in 1..13 : n = PFromInt(MRBases[i]) THEN TRUE
   ELSE IF \E i \in 1..13 : PDivMod(n, PFromInt(MRBases[i]))[2] = <<>> THEN FALSE
   ELSE \A i \in 1..13 : PStrong(n, MRBases[i])


(* smallest prime strictly greater than a (a >= 0) *)
RECURSIVE PNextPrimeFrom(_)
PNextPrimeFrom(x) == IF ZIsPrime(POut(x)) THEN x ELSE PNextPrimeFrom(SAdd(x, SOne))
ZNextPrime(a) == POut(PNextPrimeFrom(SAdd(PIn(a), SOne)))

RECURSIVE PProd(_, _)       \* lo * (lo+1) * ... * hi for small ints
PProd(lo, hi) == IF lo > hi THEN POne
                 ELSE IF lo = hi THEN PFromInt(lo)
                 ELSE LET mid == (lo + hi) \div 2 IN PMul(PProd(lo, mid), PProd(mid + 1, hi))
ZFac(n) == POut(Mk(FALSE, PProd(1, n)))
RECURSIVE PMFac(_, _)
PMFac(n, m) == IF n <= 0 THEN POne ELSE PMul(PFromInt(n), PMFac(n - m, m))
ZMFac(nz, mz) == LET n == ZToInt(nz) m == ZToInt(mz) IN
   IF m = 0 THEN "1" ELSE POut(Mk(FALSE, PMFac(n, m)))
LOCAL IsPrimeI(p) == p >= 2 /\ \A d \in 2..(p - 1) : d * d > p \/ p % d # 0
RECURSIVE PPrimorial(_)
PPrimorial(n) == IF n < 2 THEN POne
                 ELSE IF IsPrimeI(n) THEN PMul(PFromInt(n), PPrimorial(n - 1)) ELSE PPrimorial(n - 1)
ZPrimorial(n) == POut(Mk(FALSE, PPrimorial(n)))

(* binomial(n,k), n any integer, k >= 0 small: n(n-1)...(n-k+1)/k! *)
RECURSIVE SFalling(_, _)
SFalling(x, k) == IF k = 0 THEN SOne ELSE SMul(x, SFalling(SAdd(x, SNeg(SOne)), k - 1))
ZBin(nz, kz) == LET k == ZToInt(kz) IN
   POut(STDiv(SFalling(PIn(nz), k), Mk(FALSE, PProd(1, k)))[1])

RECURSIVE PFibPair(_)        \* <<F(n), F(n+1)>>
PFibPair(n) ==
   IF n = 0 THEN <<<<>>, POne>>
   ELSE LET h == PFibPair(n \div 2)   a == h[1]   b == h[2]
            c == PMul(a, PSub(PMulD(b, 2), a))
            d == PAdd(PMul(a, a), PMul(b, b))
        IN  IF n % 2 = 0 THEN <<c, d>> ELSE <<d, PAdd(c, d)>>
ZFib(nz) == POut(Mk(FALSE, PFibPair(ZToInt(nz))[1]))
ZLuc(nz) == LET p == PFibPair(ZToInt(nz)) IN POut(Mk(FALSE, PSub(PMulD(p[2], 2), p[1])))

(* radix conversion with an explicit alphabet (a string with >= base characters) *)
RECURSIVE PDigitsRev(_, _, _)
PDigitsRev(m, b, alpha) ==
   IF m = <<>> THEN ""
   ELSE LET qr == PDivMod(m, PFromInt(b))
            d  == IF qr[2] = <<>> THEN 0 ELSE qr[2][1]
        IN  PDigitsRev(qr[1], b, alpha) \o Ch(alpha, d + 1)
ZDigits(a, b, alpha) == LET m == PIn(a).m IN
   IF m = <<>> THEN Ch(alpha, 1) ELSE PDigitsRev(m, b, alpha)
RECURSIVE PIndexIn(_, _, _)
PIndexIn(c, alpha, i) == IF i > Len(alpha) THEN -1
                         ELSE IF Ch(alpha, i) = c THEN i - 1 ELSE PIndexIn(c, alpha, i + 1)
RECURSIVE PFromDigits(_, _, _, _, _)
PFromDigits(s, i, b, alpha, acc) ==
   IF i > Len(s) THEN acc
   ELSE PFromDigits(s, i + 1, b, alpha,
                    PAdd(PMulD(acc, b), PFromInt(PIndexIn(Ch(s, i), alpha, 1))))
ZFromDigits(s, b, alpha) == POut(Mk(FALSE, PNorm(PFromDigits(s, 1, b, alpha, <<>>))))
RECURSIVE PFirstBad(_, _, _, _)
PFirstBad(s, i, b, alpha) ==
   IF i > Len(s) THEN Len(s)
   ELSE LET k == PIndexIn(Ch(s, i), alpha, 1) IN
        IF k < 0 \/ k >= b THEN i - 1 ELSE PFirstBad(s, i + 1, b, alpha)
StrFirstBad(s, b, alpha) == PFirstBad(s, 1, b, alpha)



(* statistics helpers over a sequence of non-negative integers (random draws) *)
RECURSIVE PCountBit(_, _, _)
PCountBit(seq, bit, i) == IF i > Len(seq) THEN 0 ELSE (IF ZTestBit(seq[i], bit) THEN 1 ELSE 0) + PCountBit(seq, bit, i + 1)
SeqBitOnes(seq, bit) == PCountBit(seq, bit, 1)                         \* number of draws with that bit set
RECURSIVE PCountAgree(_, _, _, _)
PCountAgree(seq, bit, lag, i) == IF i + lag > Len(seq) THEN 0
                                 ELSE (IF ZTestBit(seq[i], bit) = ZTestBit(seq[i + lag], bit) THEN 1 ELSE 0) + PCountAgree(seq, bit, lag, i + 1)
SeqBitAgree(seq, bit, lag) == PCountAgree(seq, bit, lag, 1)            \* number of t with bit(draw t) = bit(draw t+lag)
RECURSIVE PCountBucket(_, _, _, _)
PCountBucket(seq, shift, b, i) == IF i > Len(seq) THEN 0 ELSE (IF ZShr(seq[i], shift) = b THEN 1 ELSE 0) + PCountBucket(seq, shift, b, i + 1)
SeqBucket(seq, shift, b) == PCountBucket(seq, shift, b, 1)             \* number of draws whose value >> shift equals numeral b

(* string helpers for the number grammar: remove every white-space character; fold ASCII upper case to lower case *)
LOCAL WSChars == {" ", "\t", "\n", "\r", "\f"}
RECURSIVE PStripWS(_, _)
PStripWS(s, i) == IF i > Len(s) THEN "" ELSE (IF Ch(s, i) \in WSChars THEN "" ELSE Ch(s, i)) \o PStripWS(s, i + 1)
StrStripWS(s) == PStripWS(s, 1)
LOCAL UpperA == "ABCDEFGHIJKLMNOPQRSTUVWXYZ"
LOCAL LowerA == "abcdefghijklmnopqrstuvwxyz"
RECURSIVE PLower(_, _)
PLower(s, i) == IF i > Len(s) THEN ""
                ELSE LET k == PIndexIn(Ch(s, i), UpperA, 1) IN (IF k >= 0 THEN Ch(LowerA, k + 1) ELSE Ch(s, i)) \o PLower(s, i + 1)
StrLower(s) == PLower(s, 1)
(* first position (from 1) of the one-character string c in s, 0 if absent; number of leading characters equal to c *)
RECURSIVE PFind(_, _, _)
PFind(s, c, i) == IF i > Len(s) THEN 0 ELSE IF Ch(s, i) = c THEN i ELSE PFind(s, c, i + 1)
StrFind(s, c) == PFind(s, c, 1)
RECURSIVE PLead(_, _, _)
PLead(s, c, i) == IF i > Len(s) \/ Ch(s, i) # c THEN 0 ELSE 1 + PLead(s, c, i + 1)
StrLead(s, c) == PLead(s, c, 1)

(* n limbs of w bits of a non-negative integer, least significant first *)
ZLimbs(a, w, n) == [i \in 1..n |-> POut(SFDiv(SFDiv(PIn(a), Mk(FALSE, PPow2(w * (i - 1))))[1],
                                              Mk(FALSE, PPow2(w)))[2])]

(* middle product of limb vectors (mpn/generic/mulmid.c): a of m limbs, b of n limbs (w-bit limbs), m >= n >= 1:
   sum over 0<=i<m, 0<=j<n, n-1 <= i+j <= m-1 of a_i b_j B^(i+j-n+1); for a fixed j the admissible a_i are the m-n+1 limbs of a from limb n-1-j *)
RECURSIVE PMulMidFrom(_, _, _, _, _, _)
PMulMidFrom(a, m, bl, n, w, j) ==
   IF j = n THEN Mk(FALSE, <<>>)
   ELSE SAdd(SMul(PIn(bl[j + 1]), SFDiv(SFDiv(PIn(a), Mk(FALSE, PPow2(w * (n - 1 - j))))[1], Mk(FALSE, PPow2(w * (m - n + 1))))[2]),
             PMulMidFrom(a, m, bl, n, w, j + 1))
ZMulMid(a, m, b, n, w) == POut(PMulMidFrom(a, m, ZLimbs(b, w, n), n, w, 0))

----------------------------------------------------------------------------
(* derived operators (never overridden) *)
ZEq(a, b) == a = b                       \* numerals are canonical
ZLt(a, b) == ZCmp(a, b) < 0
ZLe(a, b) == ZCmp(a, b) <= 0
ZIsZero(a) == a = "0"
ZIsNeg(a) == Len(a) > 0 /\ SubSeq(a, 1, 1) = "-"
ZMin(a, b) == IF ZLe(a, b) THEN a ELSE b
ZMax(a, b) == IF ZLe(a, b) THEN b ELSE a
ZMod(a, m) == ZFDivR(a, ZAbs(m))         \* in [0,|m|)
ZDivides(d, a) == IF d = "0" THEN a = "0" ELSE ZTDivR(a, d) = "0"
ZLimbCount(a) == (ZBitLen(a) + 63) \div 64
=============================================================================
