-------------------------------- MODULE SemN --------------------------------
(***************************************************************************)
(* L2: the function each mpn-level (limb vector) routine computes.  A limb *)
(* vector {p,n} is the natural number it denotes (hex numeral) together    *)
(* with its limb count n; B = 2^64.  PostN(f, i, o): i = inputs as logged  *)
(* before the call, o = outputs as logged after it.                        *)
(***************************************************************************)
EXTENDS Naturals, Integers, Sequences, FiniteSets, BigZ, IOFormat, PrintfLayout, CxxSem, SemIO, CxxStream

LOCAL W == 64
LOCAL Bn(n) == ZPow2(W * n)
LOCAL SgnI(x) == IF x > 0 THEN 1 ELSE IF x < 0 THEN -1 ELSE 0
LOCAL Bool(r, c) == (r # 0) = c
LOCAL Fits(v, n) == ~ZIsNeg(v) /\ ZBitLen(v) <= W * n
LOCAL UMAXN == "ffffffffffffffff"

(* every routine that returns the full product of its two operands *)
ProdFuns == {"mpn_mul", "mpn_mul_n", "mpn_sqr", "mpn_mul_basecase", "mpn_sqr_basecase", "mpn_kara_mul_n", "mpn_kara_sqr_n",
             "mpn_toom3_mul_n", "mpn_toom3_sqr_n", "mpn_toom3_mul", "mpn_toom4_mul_n", "mpn_toom4_sqr_n", "mpn_toom4_mul",
             "mpn_toom8h_mul", "mpn_toom8_sqr_n", "mpn_toom42_mul", "mpn_toom32_mul", "mpn_toom53_mul",
             "mpn_mul_fft_main", "mpn_mul_trunc_sqrt2", "mpn_mul_mfa_trunc_sqrt2"}
LogicFuns == {"mpn_and_n", "mpn_andn_n", "mpn_nand_n", "mpn_ior_n", "mpn_iorn_n", "mpn_nior_n", "mpn_xor_n", "mpn_xnor_n"}
LOCAL NotN(v, n) == ZSub(ZSub(Bn(n), "1"), v)
LOCAL Logic(f, a, b, n) ==
   CASE f = "mpn_and_n" -> ZAnd(a, b)
     [] f = "mpn_andn_n" -> ZAnd(a, NotN(b, n))
     [] f = "mpn_nand_n" -> NotN(ZAnd(a, b), n)
     [] f = "mpn_ior_n" -> ZOr(a, b)
     [] f = "mpn_iorn_n" -> ZOr(a, NotN(b, n))
     [] f = "mpn_nior_n" -> NotN(ZOr(a, b), n)
     [] f = "mpn_xor_n" -> ZXor(a, b)
     [] f = "mpn_xnor_n" -> NotN(ZXor(a, b), n)

(* ---- %F conversions (C18: "mpf_t conversions only ever generate as many digits as can be accurately represented by the operand, the same as
   mpf_get_str does.  Zeros will be used if necessary to pad to the requested precision"): the printed decimal denotes the operand to within one
   unit of its last GENERATED digit, where at least min(printed significant digits, digits mpf_get_str can produce for that precision) are generated.
   text = [-]ddd[.ddd][e(+|-)dd]; the operand is mant * 2^(64*(exp - |sz|)) ---- *)
LOCAL ChN(t, k) == SubSeq(t, k, k)
FindChN(t, c, k) == StrFind(t, c)              \* (k = 1) BigZ: TLA+ definition + accelerator
LeadZeros(t, k) == StrLead(t, "0")
Dec10 == "0123456789"
PrintfFOK(text, mant, expl, szl, precl) ==
   LET neg == Len(text) > 0 /\ ChN(text, 1) = "-"
       t1 == IF neg THEN SubSeq(text, 2, Len(text)) ELSE text
       ke == FindChN(t1, "e", 1)
       body == IF ke = 0 THEN t1 ELSE SubSeq(t1, 1, ke - 1)
       e10 == IF ke = 0 THEN 0 ELSE LET es == SubSeq(t1, ke + 1, Len(t1))  v == ZToInt(ZFromDigits(SubSeq(es, 2, Len(es)), 10, Dec10)) IN IF ChN(es, 1) = "-" THEN -v ELSE v
       kp == FindChN(body, ".", 1)
       ip == IF kp = 0 THEN body ELSE SubSeq(body, 1, kp - 1)
       fp == IF kp = 0 THEN "" ELSE SubSeq(body, kp + 1, Len(body))
       ds == ip \o fp
       D == ZFromDigits(ds, 10, Dec10)
       sigprinted == Len(ds) - LeadZeros(ds, 1)                               \* digits from the first non-zero one
       sigmax == Len(ZDigits(ZPow2(64 * (precl - 1)), 10, Dec10)) + 1         \* 2 + floor(64 (prec-1) log10 2): what mpf_get_str produces at most
       G == IF sigprinted < sigmax THEN sigprinted ELSE sigmax
       u10 == e10 - Len(fp) + (sigprinted - G)                                \* the bound is 10^u10
       asz == IF szl < 0 THEN -szl ELSE szl
       e2 == 64 * (expl - asz)                                                 \* operand = mant * 2^e2
       am == ZAbs(mant)
       \* compare | D * 10^(e10 - Len(fp)) - am * 2^e2 | < 10^u10 : scale by 10^s10 * 2^s2 to integers
       lo10 == IF e10 - Len(fp) < u10 THEN e10 - Len(fp) ELSE u10
       s10 == IF lo10 < 0 THEN -lo10 ELSE 0
       s2 == IF e2 < 0 THEN -e2 ELSE 0
       lhs == ZAbs(ZSub(ZShl(ZMul(D, ZPow("a", e10 - Len(fp) + s10)), s2), ZMul(ZShl(am, e2 + s2), ZPow("a", s10))))
       rhs == ZShl(ZPow("a", u10 + s10), s2)
   IN  /\ Len(ds) > 0 /\ StrFirstBad(ds, 10, Dec10) >= Len(ds)
       /\ IF mant = "0" THEN D = "0" ELSE (neg = ZIsNeg(mant) \/ D = "0") /\ ZLt(lhs, rhs)
RECURSIVE ErrSum(_, _, _, _)
ErrSum(y, n, cs, k) == IF k > n THEN "0" ELSE ZAdd(ZMul(cs[k], ZLowBits(ZShr(y, 64 * (n - k)), 64)), ErrSum(y, n, cs, k + 1))     \* c[k] * y[n-k]
PostN(f, i, o) ==
   CASE f \in ProdFuns -> /\ o.r = ZMul(i.a, i.b)
                          /\ (f = "mpn_mul" => o.top = ZShr(o.r, W * (i.an + i.bn - 1)))
        \* ---- C03: addition, subtraction, negation, shifts, copies
     [] f = "mpn_add_n" -> ZAdd(o.r, ZMul(o.cy, Bn(i.n))) = ZAdd(i.a, i.b) /\ Fits(o.r, i.n) /\ o.cy \in {"0", "1"}
     [] f = "mpn_sub_n" -> ZSub(o.r, ZMul(o.cy, Bn(i.n))) = ZSub(i.a, i.b) /\ Fits(o.r, i.n) /\ o.cy \in {"0", "1"}
     [] f = "mpn_add" -> ZAdd(o.r, ZMul(o.cy, Bn(i.an))) = ZAdd(i.a, i.b) /\ Fits(o.r, i.an) /\ o.cy \in {"0", "1"}
     [] f = "mpn_sub" -> ZSub(o.r, ZMul(o.cy, Bn(i.an))) = ZSub(i.a, i.b) /\ Fits(o.r, i.an) /\ o.cy \in {"0", "1"}
     [] f = "mpn_add_1" -> ZAdd(o.r, ZMul(o.cy, Bn(i.n))) = ZAdd(i.a, i.b) /\ Fits(o.r, i.n) /\ o.cy \in {"0", "1"}
     [] f = "mpn_sub_1" -> ZSub(o.r, ZMul(o.cy, Bn(i.n))) = ZSub(i.a, i.b) /\ Fits(o.r, i.n) /\ o.cy \in {"0", "1"}
     [] f = "mpn_neg_n" -> o.r = ZLowBits(ZNeg(i.a), W * i.n) /\ o.cy = (IF i.a = "0" THEN "0" ELSE "1")
     [] f = "mpn_com_n" -> o.r = NotN(i.a, i.n)
     [] f = "mpn_lshift" -> ZAdd(o.r, ZMul(o.cy, Bn(i.n))) = ZShl(i.a, i.cnt) /\ Fits(o.r, i.n)
     [] f = "mpn_rshift" -> ZAdd(ZMul(o.r, Bn(1)), o.cy) = ZShl(i.a, W - i.cnt) /\ Fits(o.cy, 1)
     [] f \in {"mpn_copyi", "mpn_copyd"} -> o.r = i.a
     [] f = "mpn_zero" -> o.r = "0"
     [] f = "mpn_cmp" -> SgnI(o.ret) = ZCmp(i.a, i.b)
     [] f = "mpn_zero_p" -> Bool(o.ret, i.a = "0")
        \* composite kernels (used by Toom/FFT code)
        \* add_err1_n.c: "{rp,n} := {up,n} + {vp,n} with incoming carry cy, return value is carry out; c[i+1] = carry from i-th limb addition (c[0] = cy);
        \*  computes c[1]*yp[n-1] + ... + c[n]*yp[0], stores two-limb result at ep"; err2: the same with yp1 and yp2; sub_: borrows
     [] f \in {"mpn_add_err1_n", "mpn_sub_err1_n", "mpn_add_err2_n", "mpn_sub_err2_n"} ->
           LET add == f \in {"mpn_add_err1_n", "mpn_add_err2_n"}
               cyz == ZFromInt(i.cy)
               full == IF add THEN ZAdd(ZAdd(i.a, i.b), cyz) ELSE ZSub(ZSub(i.a, i.b), cyz)
               C(k) == \* carry (borrow) out of the low k limbs
                  IF add THEN ZShr(ZAdd(ZAdd(ZLowBits(i.a, 64 * k), ZLowBits(i.b, 64 * k)), cyz), 64 * k)
                  ELSE IF ZIsNeg(ZSub(ZSub(ZLowBits(i.a, 64 * k), ZLowBits(i.b, 64 * k)), cyz)) THEN "1" ELSE "0"
               E(y) == ErrSum(y, i.n, [k \in 1..i.n |-> C(k)], 1)
           IN  /\ o.r = ZLowBits(full, 64 * i.n) /\ o.ret = C(i.n)
               /\ o.e1 = ZLowBits(E(i.y1), 128)
               /\ (f \in {"mpn_add_err2_n", "mpn_sub_err2_n"} => o.e2 = ZLowBits(E(i.y2), 128))
     [] f = "mpn_addadd_n" -> ZAdd(o.r, ZMul(o.cy, Bn(i.n))) = ZAdd(ZAdd(i.a, i.b), i.c) /\ Fits(o.r, i.n)
     [] f = "mpn_addsub_n" -> ZAdd(o.r, ZMul(ZFromInt(o.cyi), Bn(i.n))) = ZSub(ZAdd(i.a, i.b), i.c) /\ Fits(o.r, i.n)
     [] f = "mpn_subadd_n" -> ZSub(o.r, ZMul(o.cy, Bn(i.n))) = ZSub(ZSub(i.a, i.b), i.c) /\ Fits(o.r, i.n)
        \* kernels that exist only as assembly in some CPU directories (C14): reference = their defining identity
     [] f = "mpn_addlsh_n" -> ZAdd(o.r, ZMul(o.cy, Bn(i.n))) = ZAdd(i.a, ZShl(i.b, i.c)) /\ Fits(o.r, i.n)
     [] f = "mpn_sublsh_n" -> ZSub(o.r, ZMul(o.cy, Bn(i.n))) = ZSub(i.a, ZShl(i.b, i.c)) /\ Fits(o.r, i.n)
     [] f = "mpn_rsh1add_n" -> ZAdd(ZShl(o.r, 1), o.cy) = ZAdd(i.a, i.b) /\ o.cy \in {"0", "1"}
     [] f = "mpn_rsh1sub_n" -> \* two's complement: borrow shows as the top bit of the result
           ZAdd(ZShl(o.r, 1), o.cy) = ZLowBits(ZSub(i.a, i.b), W * i.n + 1) /\ o.cy \in {"0", "1"} /\ Fits(o.r, i.n)
     [] f = "mpn_lshiftc" -> o.r = NotN(ZLowBits(ZShl(i.a, i.cnt), W * i.n), i.n) /\ o.cy = ZShr(ZShl(i.a, i.cnt), W * i.n)
     [] f = "mpn_store" -> o.r = ZTDivQ(ZMul(i.val, ZSub(Bn(i.n), "1")), ZSub(Bn(1), "1"))      \* n copies of the limb
     [] f \in {"mpn_mul_2", "mpn_addmul_2"} -> ZAdd(o.r, ZMul(o.cy, Bn(i.n + 1))) = ZAdd(i.r0, ZMul(i.a, i.b)) /\ Fits(o.r, i.n + 1)
     [] f = "mpn_divrem_euclidean_qr_1" -> ZAdd(ZMul(o.q, i.d), o.r) = i.n /\ ZLt(o.r, i.d)
     [] f = "mpn_sumdiff_n" -> /\ ZAdd(o.s, ZMul(ZFromInt(o.ret \div 2), Bn(i.n))) = ZAdd(i.a, i.b)
                               /\ ZSub(o.d, ZMul(ZFromInt(o.ret % 2), Bn(i.n))) = ZSub(i.a, i.b)
                               /\ Fits(o.s, i.n) /\ Fits(o.d, i.n)
        \* nsumdiff_n.c / tests/refmpn.c: s = -(x+y) mod B^n, d = x-y mod B^n, ret = 2*(carry of the sum + borrow of the negation) + borrow of x-y
     [] f = "mpn_nsumdiff_n" -> /\ ZSub(o.s, ZMul(ZFromInt(o.ret \div 2), Bn(i.n))) = ZNeg(ZAdd(i.a, i.b))
                                /\ ZSub(o.d, ZMul(ZFromInt(o.ret % 2), Bn(i.n))) = ZSub(i.a, i.b)
                                /\ Fits(o.s, i.n) /\ Fits(o.d, i.n) /\ o.ret \in 0..5
        \* ---- C01 single-limb multiplies
     [] f = "mpn_mul_1" -> ZAdd(o.r, ZMul(o.cy, Bn(i.n))) = ZMul(i.a, i.b) /\ Fits(o.r, i.n)
     [] f = "mpn_addmul_1" -> ZAdd(o.r, ZMul(o.cy, Bn(i.n))) = ZAdd(i.r0, ZMul(i.a, i.b)) /\ Fits(o.r, i.n)
     [] f = "mpn_submul_1" -> ZSub(o.r, ZMul(o.cy, Bn(i.n))) = ZSub(i.r0, ZMul(i.a, i.b)) /\ Fits(o.r, i.n)
     [] f \in {"mpn_mullow_n", "mpn_mullow_n_basecase"} -> o.r = ZLowBits(ZMul(i.a, i.b), W * i.n)
     [] f = "mpn_mulmod_2expm1" -> ZDivides(ZSub(Bn(i.n), "1"), ZSub(o.r, ZMul(i.a, i.b))) /\ Fits(o.r, i.n)
        \* ---- C10 logical functions
     [] f \in LogicFuns -> o.r = Logic(f, i.a, i.b, i.n)
     [] f = "mpn_popcount" -> o.ret = ZFromInt(ZPopCount(i.a))
     [] f = "mpn_hamdist" -> o.ret = ZFromInt(ZPopCount(ZXor(i.a, i.b)))
     [] f = "mpn_scan1" -> o.ret = ZFromInt(i.start + ZCtz(ZShr(i.a, i.start)))          \* a 1 bit exists at or above start
     [] f = "mpn_scan0" -> o.ret = ZFromInt(i.start + ZCtz(ZCom(ZShr(i.a, i.start))))    \* as an infinite string with 0 above
        \* ---- C02 division
     [] f = "mpn_tdiv_qr" -> /\ ZAdd(ZMul(o.q, i.d), o.r) = i.n /\ ZLt(o.r, i.d) /\ ~ZIsNeg(o.r)
     [] f \in {"mpn_sb_div_qr", "mpn_dc_div_qr", "mpn_inv_div_qr", "mpn_dc_div_qr_n", "mpn_inv_div_qr_n"} ->
                             /\ ZAdd(ZMul(o.q, i.d), o.r) = i.n /\ ZLt(o.r, i.d) /\ ~ZIsNeg(o.r)
     [] f \in {"mpn_tdiv_q", "mpn_sb_div_q", "mpn_dc_div_q", "mpn_inv_div_q"} -> o.q = ZTDivQ(i.n, i.d)
     [] f \in {"mpn_sb_divappr_q", "mpn_dc_divappr_q", "mpn_inv_divappr_q"} ->
           \* approximate quotient: the true quotient or one more
           LET q == ZTDivQ(i.n, i.d) IN o.q = q \/ o.q = ZAdd(q, "1")
     [] f = "mpn_divrem" ->       \* qxn fraction limbs: n * B^qxn = q * d + r ; q = qlimbs + top * B^(nn-dn+qxn)
           LET N == ZShl(i.n, W * i.qxn) IN
           /\ ZAdd(ZMul(o.q, i.d), o.r) = N /\ ZLt(o.r, i.d) /\ ~ZIsNeg(o.r)
     [] f = "mpn_divrem_1" -> LET N == ZShl(i.n, W * i.qxn) IN
           /\ ZAdd(ZMul(o.q, i.d), o.r) = N /\ ZLt(o.r, i.d) /\ ~ZIsNeg(o.r)
     [] f = "mpn_divrem_2" -> LET N == ZShl(i.n, W * i.qxn) IN
           /\ ZAdd(ZMul(o.q, i.d), o.r) = N /\ ZLt(o.r, i.d) /\ ~ZIsNeg(o.r)
     [] f \in {"mpn_mod_1", "mpn_preinv_mod_1", "mpn_modexact_1_odd_chk"} -> o.r = ZTDivR(i.n, i.d)
     [] f = "mpn_divexact_by3c" ->   \* r = (n - c * B^size_borrowed) / 3 in the 2-adic sense: 3*q + c = n + ret*B^k
           /\ ZAdd(ZMul("3", o.q), i.c) = ZAdd(i.n, ZMul(o.ret, Bn(i.k))) /\ Fits(o.q, i.k) /\ o.ret \in {"0", "1", "2"}
     [] f = "mpn_divexact_1" -> ZMul(o.q, i.d) = i.n
     [] f = "mpn_divexact" -> ZMul(o.q, i.d) = i.n
     [] f \in {"mpn_sb_bdiv_q", "mpn_dc_bdiv_q"} -> \* 2-adic (Hensel) quotient: q*d = n (mod B^k)
           ZLowBits(ZSub(ZMul(o.q, i.d), i.n), W * i.k) = "0" /\ Fits(o.q, i.k)
        \* ---- C07
     [] f = "mpn_gcd" -> o.g = ZGcd(i.a, i.b)
     [] f = "mpn_gcd_1" -> o.g = ZGcd(i.a, i.b)
     [] f = "mpn_gcdext" -> /\ o.g = ZGcd(i.a, i.b)
                            /\ ZDivides(i.b, ZSub(o.g, ZMul(i.a, o.s)))          \* a*s = g (mod b): a cofactor t exists
                            /\ ZLe(ZAbs(o.s), i.b)
        \* ---- C09
     [] f = "mpn_sqrtrem" -> /\ o.s = ZISqrt(i.a) /\ o.r = ZSub(i.a, ZMul(o.s, o.s)) /\ o.rn = ZLimbCount(o.r)
     [] f = "mpn_sqrtrem_null" -> /\ o.s = ZISqrt(i.a) /\ Bool(o.rn, ZMul(o.s, o.s) # i.a)
     [] f = "mpn_perfect_square_p" -> Bool(o.ret, ZMul(ZISqrt(i.a), ZISqrt(i.a)) = i.a)
        \* rootrem.c: "Put in {rootp, ceil(un/k)} the kth root of {up, un}, rounded toward zero. If remp <> NULL, put in {remp, un} the remainder.
        \*  Return the size (in limbs) of the remainder if remp <> NULL, or a non-zero value iff the remainder is non-zero when remp = NULL."
        \*  ASSERT (un > 0); ASSERT (up[un - 1] != 0); ASSERT (k > 1).  mpn_rootrem_basecase: the routine used below ROOTREM_THRESHOLD, same contract.
     [] f \in {"mpn_rootrem", "mpn_rootrem_basecase"} ->
           /\ i.k > 1 /\ i.n > 0 /\ o.s = ZIRoot(i.a, i.k) /\ o.r = ZSub(i.a, ZPow(o.s, i.k)) /\ o.rn = ZLimbCount(o.r)
     [] f = "mpn_rootrem_null" -> i.k > 1 /\ o.s = ZIRoot(i.a, i.k) /\ Bool(o.rn, ZPow(o.s, i.k) # i.a)
        \* ---- C16 internals
        \* fib2_ui.c: "Store F[n] at fp and F[n-1] at f1p. ... The return value is the actual number of limbs stored, this will be at least 1.
        \*  fp[size-1] will be non-zero, except when n==0, in which case fp[0] is 0 and f1p[0] is 1."
     [] f = "mpn_fib2_ui" -> LET nz == ZFromInt(i.n) IN
           /\ o.f = ZFib(nz) /\ o.f1 = (IF i.n = 0 THEN "1" ELSE ZFib(ZFromInt(i.n - 1)))
           /\ o.ret >= 1 /\ (i.n > 0 => o.ret = ZLimbCount(o.f) /\ o.top # "0") /\ (i.n = 0 => o.ret = 1)
        \* oddfac_1.c: "computes the odd part of the factorial of the parameter n. I.e. n! = x 2^a, where x is the returned value: an odd positive
        \*  integer. If flag != 0 a square is skipped in the DSC part, e.g. if n is odd, n > FAC_DSC_THRESHOLD and flag = 1, x is set to n!!."
        \*  (callers pass flag = 1 only for odd n: the driver stays in that domain)
     [] f = "mpz_oddfac_1" -> LET OddPart(v) == ZShr(v, ZCtz(v)) IN
           /\ o.wf = 1 /\ o.sz = ZLimbCount(o.r)
           /\ o.r = (IF i.flag = 0 THEN OddPart(ZFac(i.n)) ELSE ZTDivQ(OddPart(ZFac(i.n)), OddPart(ZFac(i.n \div 2))))
        \* prodlimbs.c: "Computes the product of the j>1 limbs pointed by factors, puts the result in x. It assumes that all limbs are non-zero.
        \*  ... Returns the size of the result"
     [] f = "mpz_prodlimbs" -> LET RECURSIVE Prod(_) 
                                   Prod(k) == IF k = 0 THEN "1" ELSE ZMul(Prod(k - 1), i.fs[k]) IN
           /\ i.j > 1 /\ Len(i.fs) = i.j /\ o.r = Prod(i.j) /\ o.ret = ZLimbCount(o.r) /\ o.sz = o.ret
        \* trial_division.c: "Returns smallest d such that d|N, start <= d < stop, d != 1. If no such d exists return 0. ... N must have no divisors < start."
     [] f = "mpz_trial_division" ->
           LET Cand == {d \in (IF i.start < 2 THEN 2 ELSE i.start)..(i.stop - 1) : ZDivides(ZFromInt(d), i.N)} IN
           IF Cand = {} THEN o.ret = 0 ELSE o.ret \in Cand /\ \A d \in Cand : o.ret <= d
        \* primesieve.c: "Fills bit_array with the characteristic function of composite numbers up to the parameter n. I.e. a bit set to "1" represent a
        \*  composite, a "0" represent a prime. ... The returned value counts prime integers in the interval [4, n]. Note that n > 4. Even numbers and
        \*  multiples of 3 are excluded "a priori", only numbers equivalent to +/- 1 mod 6 have their bit in the array. ... the represented prime is
        \*  bit_to_n(b)";  bit_to_n(b) = id_to_n(b+1) = (b+1)*3+1+((b+1)&1);  n_to_bit(n) = ((n-5)|1)/3
     [] f = "gmp_primesieve" ->
           LET top == (IF (i.n - 5) % 2 = 0 THEN i.n - 4 ELSE i.n - 5) \div 3
               BitToN(b) == (b + 1) * 3 + 1 + ((b + 1) % 2)
               Ps == {b \in 0..top : BitToN(b) <= i.n /\ ZIsPrime(ZFromInt(BitToN(b)))} IN
           /\ i.n > 4
           /\ \A b \in 0..top : BitToN(b) <= i.n => (ZTestBit(o.bits, b) = (b \notin Ps))
           /\ o.ret = Cardinality(Ps)
        \* nextprime.c: successive primes from a fresh sieve (2, 3, 5, ...)
     [] f = "gmp_nextprime" -> ZFromInt(o.p) = ZNextPrime(ZFromInt(i.prev))
        \* ---- C06
        \* ---- C17: documented external formats and stream faults (see IOFormat.tla)
     [] f = "mpz_export" ->
           /\ o.count = ExportCount(i.v, i.size, i.nails)
           /\ o.bytes = ExportBytes(i.v, i.order, i.size, IF i.endian = 0 THEN -1 ELSE i.endian, i.nails)
           /\ o.guard = 1                                              \* nothing written outside count*size bytes
     [] f = "mpz_import" ->
           /\ o.v = ImportValue(i.bytes, i.count, i.order, i.size, IF i.endian = 0 THEN -1 ELSE i.endian, i.nails) /\ o.wf = 1
     [] f = "mpz_out_raw" ->       \* fault = -1: none; otherwise the stream accepts only the first `fault` bytes
           LET full == RawBytes(i.v)  n == Len(full) \div 2 IN
           IF i.fault < 0 \/ i.fault >= n THEN o.ret = n /\ o.bytes = full
           ELSE o.ret = 0 /\ Len(o.bytes) <= 2 * i.fault /\ o.bytes = SubSeq(full, 1, Len(o.bytes))
     [] f = "mpz_inp_raw" ->
           LET p == RawParse(i.bytes) IN
           /\ o.wf = 1                                                 \* destination well formed whatever the stream held
           /\ IF p.ok THEN o.ret = p.n /\ o.v = p.v ELSE o.ret = 0
     [] f = "mpz_out_str" ->
           LET full == GetStrText(i.v, i.base) IN
           IF i.fault < 0 \/ i.fault >= Len(full) THEN o.ret = Len(full) /\ o.text = full
           ELSE o.ret = 0 /\ Len(o.text) <= i.fault /\ o.text = SubSeq(full, 1, Len(o.text))
     [] f = "mpz_inp_str" ->
           LET p == InpStr(i.text, i.base) IN
           /\ o.wf = 1 /\ IF p.ok THEN o.ret = p.n /\ o.v = p.v ELSE o.ret = 0
     [] f = "mpq_out_str" ->
           LET full == IF i.d = "1" THEN GetStrText(i.n, i.base) ELSE GetStrText(i.n, i.base) \o "/" \o GetStrText(i.d, i.base) IN
           IF i.fault < 0 \/ i.fault >= Len(full) THEN o.ret = Len(full) /\ o.text = full
           ELSE o.ret = 0 /\ o.text = SubSeq(full, 1, Len(o.text))
     [] f = "mpq_inp_str" ->      \* what mpq_out_str wrote (possibly truncated)
           /\ o.wf = 1
           /\ (i.whole = 1 => o.ret = Len(i.text) /\ o.n = i.n /\ o.d = i.d)
           /\ (i.whole = 0 /\ o.ret # 0 => o.ret <= Len(i.text))
     [] f = "mpf_out_inp_str" ->  \* round trip through a stream in a power-of-two base: same value and byte counts
           /\ (i.fault < 0 => o.wret = Len(o.text) /\ o.wret > 0 /\ o.rret = o.wret /\ o.same = 1)
           /\ (i.fault >= 0 /\ i.fault < i.full => o.wret = 0)
     [] f = "gmp_fprintf" ->
           IF i.fault < 0 \/ i.fault >= Len(i.expect) THEN o.ret = Len(i.expect) /\ o.text = i.expect
           ELSE o.ret = -1
        \* ---- C18: formatted output / input (see PrintfLayout.tla)
     [] f = "gmp_printf_z" ->       \* "%<flags><width>.<prec>Z<conv>" ; o.g = gmp_snprintf text, o.c = C library text for the equal long ("" if not comparable)
           LET fl == [k \in 1..Len(i.fl) |-> SubSeq(i.fl, k, k)]
               want == GmpLayoutX(fl, i.w, i.p, i.conv, i.v)      \* (codes for * arguments and the bare . : PrintfLayout.tla)
               fr == FlagRec(fl)
               \* combinations to which C gives a meaning: d/i any value; o/x/X non-negative and without the sign flags (MPIR's o/x/X are
               \* signed, so '+' and ' ' apply there: documented extension); '#' only with o/x/X
               cmeaning == /\ ZLe("-8000000000000000", i.v) /\ ZLe(i.v, "7fffffffffffffff")
                           /\ IF i.conv \in {"d", "i"} THEN ~fr.hash ELSE ~ZIsNeg(i.v) /\ ~fr.plus /\ ~fr.space
           IN  /\ o.g = want /\ o.ret = Len(want)
               \* every other member of the family (sprintf, asprintf, fprintf, printf, obstack_printf and the va_list twins) produces the same text and count
               /\ \A k \in DOMAIN o.alt : o.alt[k].t = want /\ o.alt[k].r = Len(want)
               /\ (cmeaning /\ i.havec = 1) => /\ o.c = CPrintfX(FlagRec(fl), i.w, i.p, i.conv, i.v)        \* the specification agrees with the platform's C library
                                                 /\ o.g = o.c                                               \* and MPIR is byte-identical to it
     [] f = "gmp_snprintf" ->       \* never more than size bytes, returns the full length
           /\ o.ret = Len(i.expect) /\ o.guard = 1
           /\ (i.size > 0 => o.buf = SubSeq(i.expect, 1, IF i.size - 1 < Len(i.expect) THEN i.size - 1 ELSE Len(i.expect)))
     [] f = "gmp_asprintf" -> o.ret = Len(i.expect) /\ o.text = i.expect /\ o.blksz = Len(i.expect) + 1
        \* "%c%Zd|" with the NUL character: output = 00, the decimal digits, '|' (and the terminating 00 where the function stores one); count = 1 + digits + 1
     [] f = "gmp_printf_nul" ->
           LET dec == (IF ZIsNeg(i.v) THEN "-" ELSE "") \o ZDigits(ZAbs(i.v), 10, "0123456789abcdef")
               RECURSIVE HexOf(_)
               HexOf(t) == IF t = "" THEN "" ELSE (IF SubSeq(t, 1, 1) = "-" THEN "2d" ELSE "3" \o SubSeq(t, 1, 1)) \o HexOf(SubSeq(t, 2, Len(t)))
               body == "00" \o HexOf(dec) \o "7c"
           IN  /\ o.ret = Len(dec) + 2
               /\ o.hex = (IF i.fam \in {"gmp_sprintf", "gmp_snprintf", "gmp_asprintf"} THEN body \o "00" ELSE body)
     [] f = "gmp_sscanf_lit" -> o.ret = 1 /\ o.v = i.v /\ o.fret = 1 /\ o.fv = i.v
     [] f = "gmp_printf_mixed" -> o.g = i.expect /\ o.ret = Len(i.expect)
     [] f = "gmp_printf_f" -> o.ret = Len(o.text) /\ PrintfFOK(o.text, i.mant, i.exp, i.sz, i.prec)
     [] f = "gmp_printf_hp" -> o.ret = o.len /\ o.len > 0          \* operand of 20000 bits precision: the count is the length (the AddressSanitizer pass watches the table accesses)
     [] f = "gmp_sscanf" -> /\ o.ret = i.nfields /\ o.v = i.v
                            /\ \A k \in DOMAIN o.alt : o.alt[k].r = i.nfields /\ o.alt[k].v = i.v       \* gmp_fscanf, gmp_scanf (redirected stdin) and the va_list twins
        \* ---- C19: ranges of the mpn-level generators and whole-sample statistics
     [] f \in {"mpn_randomb", "mpn_rrandom", "mpn_random", "mpn_random2"} -> ZLimbCount(o.r) = i.n                      \* exactly n limbs, top limb non-zero
     [] f = "mpn_urandomb" -> ZBitLen(o.r) <= i.bits
     [] f = "mpn_urandomm" -> ZLt(o.r, i.m)
     [] f = "rand_stats" ->      \* i.bits-bit draws (a TLA+ sequence of numerals), N = Len
           LET N == Len(i.draws) IN
           /\ \A b \in 0..(i.bits - 1) : LET c == SeqBitOnes(i.draws, b) IN 4 * c >= N /\ 4 * c <= 3 * N          \* no bit position is grossly biased
           /\ \A b \in 0..(i.bits - 1), k \in 0..10 : LET lag == 2 ^ k  c == SeqBitAgree(i.draws, b, lag) IN
                  (N - lag >= 256) => 4 * c >= (N - lag) /\ 4 * c <= 3 * (N - lag)                               \* no short period in any bit (weak LC low bits)
           /\ (i.bits >= 4 => \A v \in 0..15 : LET c == SeqBucket(i.draws, i.bits - 4, ZFromInt(v)) IN 32 * c >= N /\ 8 * c <= N)   \* 16 value buckets within a factor 2
        \* ---- C15: calls made by concurrently running threads are validated against the SEQUENTIAL semantics
     [] f = "zcall" -> PostZ(i.fn, i.a, [k \in 1..Len(o.o) |-> [v |-> o.o[k], al |-> 0, sz |-> 0]], o.ret, "0")
     [] f = "thr_rand" -> o.par = i.seq            \* a private generator reproduces its serial stream under every schedule
        \* ---- C20: C++ class expressions (see CxxSem.tla); targets "t" fresh temporary, "a"/"q" a variable of the tree,
        \*      "a+=" etc. compound assignments (the tree logged is the expanded form), "int" an int/bool valued root
     [] f = "cxx_z" -> o.v = EvalZ(i.tree, i.env)
     [] f = "cxx_q" -> <<o.n, o.d>> = EvalQ(i.tree, i.env)
     [] f = "cxx_set_str" -> LET p == ParseNum(i.s, i.base) IN IF p.open THEN TRUE ELSE IF p.ok THEN o.ret = 0 /\ o.v = p.v ELSE o.ret = -1
     [] f = "cxx_ctor_str" -> LET p == ParseNum(i.s, i.base) IN IF p.open THEN TRUE ELSE IF p.ok THEN o.threw = 0 /\ o.v = p.v ELSE o.threw = 1
     [] f = "cxx_get_str" -> o.s = GetStrText(i.v, i.base)
     [] f = "cxx_roundtrip" -> o.v = i.v
     [] f = "cxx_get" -> /\ (o.fits_si # 0) = (ZLe("-8000000000000000", i.v) /\ ZLe(i.v, "7fffffffffffffff"))
                         /\ (o.fits_ui # 0) = (ZLe("0", i.v) /\ ZLe(i.v, "ffffffffffffffff"))
                         /\ (o.fits_si # 0 => o.si = i.v) /\ o.ui = ZLowBits(ZAbs(i.v), 64)
        \* ---- C20: stream insertion / extraction (see CxxStream.tla for the quoted manual text and the reading of the C++ standard)
     [] f = "cxx_ostream" ->       \* o.z: mpz_class, o.zz: two insertions in a row (the second sees width 0), o.l: the standard library on the equal long
           /\ o.z \in MpzOstreamTexts(i.st, i.w, i.fill, i.v) /\ o.wz = 0                  \* "ios::width is reset to 0 after output"
           /\ \E t \in MpzOstreamTexts(i.st, 0, i.fill, i.v) : o.zz = o.z \o t
           /\ (i.havel = 1 /\ StdMeaning(i.st, i.v)) =>
                 /\ o.l = OstreamLayout(i.st, i.w, i.fill, i.v) /\ o.wl = 0               \* the specification agrees with the platform's C++ library
                 /\ (~ZeroHexShowbase(i.st, i.v) /\ ~OctInternalRow(i.st, i.w, i.v) => o.z = o.l)   \* and MPIR is byte-identical to it (outside the two stated classes)
     [] f = "cxx_ostream_q" -> o.q \in MpqOstreamTexts(i.st, i.w, i.fill, i.n, i.d) /\ o.wq = 0
     [] f = "cxx_ostream_f" -> MpfOstreamOK(i, o)
     [] f = "cxx_istream" ->       \* o.pos: characters consumed, o.next: the character the next get() returns ("" at end of input), o.l*: the standard library reading a long
           LET p == IParse(i.s, i.base, i.skipws) IN
           IF p.open THEN TRUE
           ELSE      (/\ (o.ok = 1) = p.ok /\ o.pos = p.n
                      /\ (p.ok => o.v = p.v)
                      /\ o.next = (IF p.n < Len(i.s) THEN SubSeq(i.s, p.n + 1, p.n + 1) ELSE "")
                      /\ (IStdComparable(i.s, i.base, p) => o.lok = o.ok /\ o.lpos = o.pos /\ (p.ok => o.lv = p.v)))
     [] f = "cxx_istream_q" ->
           LET p == IParseQ(i.s, i.base, i.skipws) IN
           IF p.open THEN TRUE
           ELSE      (/\ (o.ok = 1) = p.ok /\ o.pos = p.n
                      /\ (p.ok => o.n = p.num /\ o.d = p.den))
     [] f = "mpn_get_str" ->      \* digit values written through the 62-character alphabet by the harness; leading zeros permitted
           LET A62 == "0123456789ABCDEFGHIJKLMNOPQRSTUVWXYZabcdefghijklmnopqrstuvwxyz" IN
           /\ Len(o.s) = o.ret /\ o.ret >= 1
           /\ ZFromDigits(o.s, i.base, A62) = i.a
           /\ ZLt(i.a, ZPow(ZFromInt(i.base), o.ret)) /\ (o.ret >= 3 => ZLe(ZPow(ZFromInt(i.base), o.ret - 2), i.a))
           /\ (i.pow2 = 1 => o.after = i.a)                      \* input unchanged for power-of-two bases
     [] f = "mpn_set_str" ->
           LET A62 == "0123456789ABCDEFGHIJKLMNOPQRSTUVWXYZabcdefghijklmnopqrstuvwxyz" IN
           /\ o.r = ZFromDigits(i.s, i.base, A62)
           /\ (SubSeq(i.s, 1, 1) # "0" => o.rn = ZLimbCount(o.r))
           /\ o.rn >= ZLimbCount(o.r)
=============================================================================
