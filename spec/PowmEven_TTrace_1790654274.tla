---- MODULE PowmEven_TTrace_1790654274 ----
EXTENDS Sequences, TLCExt, Toolbox, Naturals, TLC, PowmEven

_expression ==
    LET PowmEven_TEExpression == INSTANCE PowmEven_TEExpression
    IN PowmEven_TEExpression!expression
----

_trace ==
    LET PowmEven_TETrace == INSTANCE PowmEven_TETrace
    IN PowmEven_TETrace!trace
----

_inv ==
    ~(
        TLCGet("level") = Len(_TETrace)
        /\
        mm = (-47)
        /\
        bb = (-9)
        /\
        phase = (1)
        /\
        ee = (1)
    )
----

_init ==
    /\ mm = _TETrace[1].mm
    /\ bb = _TETrace[1].bb
    /\ phase = _TETrace[1].phase
    /\ ee = _TETrace[1].ee
----

_next ==
    /\ \E i,j \in DOMAIN _TETrace:
        /\ \/ /\ j = i + 1
              /\ i = TLCGet("level")
        /\ mm  = _TETrace[i].mm
        /\ mm' = _TETrace[j].mm
        /\ bb  = _TETrace[i].bb
        /\ bb' = _TETrace[j].bb
        /\ phase  = _TETrace[i].phase
        /\ phase' = _TETrace[j].phase
        /\ ee  = _TETrace[i].ee
        /\ ee' = _TETrace[j].ee

\* Uncomment the ASSUME below to write the states of the error trace
\* to the given file in Json format. Note that you can pass any tuple
\* to `JsonSerialize`. For example, a sub-sequence of _TETrace.
    \* ASSUME
    \*     LET J == INSTANCE Json
    \*         IN J!JsonSerialize("PowmEven_TTrace_1790654274.json", _TETrace)

=============================================================================

 Note that you can extract this module `PowmEven_TEExpression`
  to a dedicated file to reuse `expression` (the module in the 
  dedicated `PowmEven_TEExpression.tla` file takes precedence 
  over the module `PowmEven_TEExpression` below).

---- MODULE PowmEven_TEExpression ----
EXTENDS Sequences, TLCExt, Toolbox, Naturals, TLC, PowmEven

expression == 
    [
        \* To hide variables of the `PowmEven` spec from the error trace,
        \* remove the variables below.  The trace will be written in the order
        \* of the fields of this record.
        mm |-> mm
        ,bb |-> bb
        ,phase |-> phase
        ,ee |-> ee
        
        \* Put additional constant-, state-, and action-level expressions here:
        \* ,_stateNumber |-> _TEPosition
        \* ,_mmUnchanged |-> mm = mm'
        
        \* Format the `mm` variable as Json value.
        \* ,_mmJson |->
        \*     LET J == INSTANCE Json
        \*     IN J!ToJson(mm)
        
        \* Lastly, you may build expressions over arbitrary sets of states by
        \* leveraging the _TETrace operator.  For example, this is how to
        \* count the number of times a spec variable changed up to the current
        \* state in the trace.
        \* ,_mmModCount |->
        \*     LET F[s \in DOMAIN _TETrace] ==
        \*         IF s = 1 THEN 0
        \*         ELSE IF _TETrace[s].mm # _TETrace[s-1].mm
        \*             THEN 1 + F[s-1] ELSE F[s-1]
        \*     IN F[_TEPosition - 1]
    ]

=============================================================================



Parsing and semantic processing can take forever if the trace below is long.
 In this case, it is advised to uncomment the module below to deserialize the
 trace from a generated binary file.

\*
\*---- MODULE PowmEven_TETrace ----
\*EXTENDS IOUtils, TLC, PowmEven
\*
\*trace == IODeserialize("PowmEven_TTrace_1790654274.bin", TRUE)
\*
\*=============================================================================
\*

---- MODULE PowmEven_TETrace ----
EXTENDS TLC, PowmEven

trace == 
    <<
    ([mm |-> 1,bb |-> 0,phase |-> 0,ee |-> 0]),
    ([mm |-> -47,bb |-> -9,phase |-> 1,ee |-> 1])
    >>
----


=============================================================================

---- CONFIG PowmEven_TTrace_1790654274 ----
CONSTANTS
    W = 2
    MMAX = 48
    BMAX = 9
    EMAX = 7
    Variant = "no_fold"

INVARIANT
    _inv

CHECK_DEADLOCK
    \* CHECK_DEADLOCK off because of PROPERTY or INVARIANT above.
    FALSE

INIT
    _init

NEXT
    _next

CONSTANT
    _TETrace <- _trace

ALIAS
    _expression
=============================================================================
\* Generated on Tue Sep 29 03:57:55 UTC 2026