------------------------------- MODULE CxxStream -------------------------------
(***************************************************************************)
(* L2 for C20 (stream insertion / extraction): the formatting state of a    *)
(* C++ stream and the text the C++ standard prescribes for it.              *)
(*                                                                         *)
(* INSERTION.  doc/mpir.texi, "C++ Formatted Output": "Print op to stream,  *)
(* using its ios formatting settings.  ios::width is reset to 0 after       *)
(* output, the same as the standard ostream operator<< routines do.  In hex *)
(* or octal, op is printed as a signed number, the same as for decimal.     *)
(* This is unlike the standard operator<< routines on int etc, which        *)
(* instead give twos complement."  The meaning of the ios settings is the   *)
(* one of ISO C++ [facet.num.put.virtuals]:                                 *)
(*   stage 1  printf conversion from the flags: basefield == oct -> %o,     *)
(*            == hex -> %x (%X with uppercase), anything else (dec, no bit, *)
(*            several bits) -> %d; showpos -> '+', showbase -> '#';         *)
(*   stage 3  padding to width() with fill(): adjustfield == left -> after; *)
(*            == internal and the representation has a sign -> after the    *)
(*            sign; == internal and it begins with 0x or 0X -> after that   *)
(*            prefix; otherwise (right, no bit, several bits) -> before.    *)
(* A stream state is a record                                               *)
(*   [base \in {"dec","oct","hex","none","octhex"}, adj \in {"left",        *)
(*    "right","internal","none","leftint"}, showbase, showpos, upper]       *)
(* ("none" = no bit of the field set, "octhex"/"leftint" = two bits set).   *)
(* OstreamLayout(st, width, fill, v) is that text for the integer v printed *)
(* as sign and magnitude; for decimal, and for non-negative hex/octal       *)
(* without showpos, it IS what the standard library prints for the equal    *)
(* long (checked on every row: the reading of the standard is validated     *)
(* against the platform's library the same way CPrintf is in C18).          *)
(*                                                                         *)
(* Where MPIR's own sources state something else, that is the contract:     *)
(*  - cxx/osfuns.c "for hex showbase is always, for octal only non-zero"    *)
(*    and tests/cxx/t-ostream.cc {"0", "0x0", ios::hex | ios::showbase}:    *)
(*    a zero in hex with showbase is "0x0" (the standard gives "0").        *)
(*  - tests/cxx/t-ostream.cc {"1", "+0x   1", hex|showbase|showpos|         *)
(*    internal, 7}: with a sign AND a 0x prefix (possible only because hex  *)
(*    is signed here) internal padding follows both.                        *)
(*  - octal with showbase and internal adjustment: the standard's stage 3   *)
(*    names only a sign and a 0x/0X prefix as padding points, so the        *)
(*    standard library pads "****0173"; printf/doprnti.c emits sign, base   *)
(*    indicator, THEN the internal padding: "0****173".  printf itself has  *)
(*    no counterpart for this row (its internal padding is always '0',      *)
(*    where both give the same text) and neither the manual nor the tree's  *)
(*    tests state it: BOTH paddings are admitted (an observation, not a     *)
(*    finding: NOTES-CxxStream.md).                                         *)
(***************************************************************************)
EXTENDS Naturals, Integers, Sequences, TLC, BigZ, PrintfLayout

LOCAL Ch(s, i) == SubSeq(s, i, i)

OConv(st) == IF st.base = "oct" THEN "o" ELSE IF st.base = "hex" THEN (IF st.upper THEN "X" ELSE "x") ELSE "d"
OFlags(st) == [minus |-> FALSE, plus |-> st.showpos, space |-> FALSE, hash |-> st.showbase, zero |-> FALSE]
OBody(st, v) == CPrintf(OFlags(st), -1, -1, OConv(st), v)                                     \* stage 1

SignLen(b) == IF Len(b) > 0 /\ Ch(b, 1) \in {"-", "+"} THEN 1 ELSE 0
HexPreLen(b, k) == IF Len(b) >= k + 2 /\ Ch(b, k + 1) = "0" /\ Ch(b, k + 2) \in {"x", "X"} THEN 2 ELSE 0
IntPoint(b) == SignLen(b) + HexPreLen(b, SignLen(b))                                           \* characters that stay in front of internal padding
OPad(st, width, fill, b, k) ==                                                                 \* stage 3
   LET n == width - Len(b) IN
   IF n <= 0 THEN b
   ELSE IF st.adj = "left" THEN b \o Rep(fill, n)
   ELSE IF st.adj = "internal" THEN SubSeq(b, 1, k) \o Rep(fill, n) \o SubSeq(b, k + 1, Len(b))
   ELSE Rep(fill, n) \o b
OstreamLayout(st, width, fill, v) == LET b == OBody(st, v) IN OPad(st, width, fill, b, IntPoint(b))

(* the combinations to which the standard gives a meaning for the equal long *)
StdMeaning(st, v) == /\ ZLe("-8000000000000000", v) /\ ZLe(v, "7fffffffffffffff")
                     /\ (st.base \in {"oct", "hex"} => ~ZIsNeg(v) /\ ~st.showpos)
ZeroHexShowbase(st, v) == st.base = "hex" /\ st.showbase /\ v = "0"                            \* MPIR: "0x0" (stated by its sources), standard: "0"

MpirBody(st, v) == IF ZeroHexShowbase(st, v) THEN (IF st.showpos THEN "+" ELSE "") \o (IF st.upper THEN "0X0" ELSE "0x0") ELSE OBody(st, v)
OctPrefix(st, v) == st.base = "oct" /\ st.showbase /\ v # "0"                                   \* the representation carries the octal 0 of showbase
OctInternalRow(st, width, v) == OctPrefix(st, v) /\ st.adj = "internal" /\ width > Len(OBody(st, v)) \* the rows where the two admitted paddings differ
MpzOstreamTexts(st, width, fill, v) ==
   LET b == MpirBody(st, v)  k == IntPoint(b) IN
   {OPad(st, width, fill, b, k)} \cup (IF OctPrefix(st, v) THEN {OPad(st, width, fill, b, k + 1)} ELSE {})

(* mpq: "Output will be a fraction like 5/9, or if the denominator is 1 then just a plain integer like 123.  In hex or octal, op is printed as a
   signed value, the same as for decimal.  If ios::showbase is set then a base indicator is shown on both the numerator and denominator (if the
   denominator is required)."  The whole fraction is one field of width(); where internal padding goes inside a fraction is stated nowhere: any of
   the points an integer could use is admitted. *)
MpqBody(st, n, d) == IF d = "1" THEN MpirBody(st, n) ELSE MpirBody(st, n) \o "/" \o MpirBody([st EXCEPT !.showpos = FALSE], d)
MpqOstreamTexts(st, width, fill, n, d) ==
   IF d = "1" THEN MpzOstreamTexts(st, width, fill, n)
   ELSE LET b == MpqBody(st, n, d)  k == IntPoint(b) IN
        IF st.adj # "internal" THEN {OPad(st, width, fill, b, k)}
        ELSE {OPad(st, width, fill, b, j) : j \in {0, SignLen(b), k} \cup (IF st.base = "oct" /\ st.showbase /\ n # "0" THEN {SignLen(b) + 1} ELSE {})}

(***************************************************************************)
(* EXTRACTION.  "C++ Formatted Input": "Read rop from stream, using its ios *)
(* formatting settings"; for mpq "An integer like 123 will be read, or a    *)
(* fraction like 5/9.  No whitespace is allowed around the /. ... As per    *)
(* integer input, an 0 or 0x base indicator is read when none of ios::dec,  *)
(* ios::oct or ios::hex are set.  This is done separately for numerator and *)
(* denominator".  The field is the one of [facet.num.get.virtuals] stage 2  *)
(* for a signed integer: leading white space when skipws is set, an         *)
(* optional sign, then the longest run of digits of the base; with no       *)
(* basefield bit the base indicator selects 16, 8 or 10.  The value is what *)
(* mpz_set_str gives on the digits consumed (ismpznw.cc), the stream is     *)
(* left at the first character that is not part of the field               *)
(* (tests/cxx/t-istream.cc checks value, status and position), failbit is   *)
(* set iff the field has no digit.  With ios::hex set the base indicator is *)
(* not read (the manual sentence above), so "0x1f" is the number 0 followed *)
(* by "x1f"; the standard library reads 0x1f there: not compared.  A bare   *)
(* "0x" followed by no hex digit is left open (as in SemIO!ParseNum).       *)
(* IParse: [ok, v, n (characters consumed), open]                           *)
(***************************************************************************)
IsWS(c) == c \in {" ", "\t", "\n", "\r", "\f"}
RECURSIVE SkipWS(_, _)
SkipWS(s, i) == IF i <= Len(s) /\ IsWS(Ch(s, i)) THEN SkipWS(s, i + 1) ELSE i
DigitsOf(b) == IF b = 8 THEN "01234567" ELSE IF b = 10 THEN "0123456789" ELSE "0123456789abcdefABCDEF"
RECURSIVE RunEnd(_, _, _)
RunEnd(s, i, al) == IF i <= Len(s) /\ StrFind(al, Ch(s, i)) # 0 THEN RunEnd(s, i + 1, al) ELSE i      \* first index not in the run
IParseNoWS(s, i0, basefield) ==     \* the field starting at index i0 (no white space skipping): ismpznw.cc
   LET hasSign == i0 <= Len(s) /\ Ch(s, i0) \in {"-", "+"}
       neg == hasSign /\ Ch(s, i0) = "-"
       i1 == IF hasSign THEN i0 + 1 ELSE i0
       auto == basefield \notin {"dec", "oct", "hex"}
       lead0 == auto /\ i1 <= Len(s) /\ Ch(s, i1) = "0"
       hexpre == lead0 /\ i1 + 1 <= Len(s) /\ Ch(s, i1 + 1) \in {"x", "X"}
       base == IF basefield = "dec" THEN 10 ELSE IF basefield = "oct" THEN 8 ELSE IF basefield = "hex" THEN 16
               ELSE IF hexpre THEN 16 ELSE IF lead0 THEN 8 ELSE 10
       i2 == IF hexpre THEN i1 + 2 ELSE i1                     \* an octal indicator is itself a digit
       i3 == RunEnd(s, i2, DigitsOf(base))
       ds == SubSeq(s, i2, i3 - 1)
       m == IF ds = "" THEN "0" ELSE ZFromDigits(StrLower(ds), base, "0123456789abcdefghijklmnopqrstuvwxyz")
   IN  [ok |-> ds # "", v |-> IF neg THEN ZNeg(m) ELSE m, n |-> i3 - 1, open |-> hexpre /\ ds = ""]
IParse(s, basefield, skipws) == IParseNoWS(s, IF skipws THEN SkipWS(s, 1) ELSE 1, basefield)
(* what the standard library does on the same input is compared where the manual does not state a difference *)
IStdComparable(s, basefield, p) == /\ ~p.open /\ ZLe("-8000000000000000", p.v) /\ ZLe(p.v, "7fffffffffffffff")
                                   /\ ~(basefield = "hex" /\ (StrFind(s, "x") # 0 \/ StrFind(s, "X") # 0))
(* mpq: numerator field, then "/" and a denominator field with no white space skipping; no "/" -> denominator 1 *)
IParseQ(s, basefield, skipws) ==
   LET pn == IParse(s, basefield, skipws) IN
   IF ~pn.ok \/ pn.n >= Len(s) \/ Ch(s, pn.n + 1) # "/" THEN [ok |-> pn.ok, num |-> pn.v, den |-> "1", n |-> pn.n, open |-> pn.open, slash |-> FALSE]
   ELSE LET pd == IParseNoWS(s, pn.n + 2, basefield) IN
        [ok |-> pd.ok, num |-> pn.v, den |-> pd.v, n |-> pd.n, slash |-> TRUE,
         open |-> pn.open \/ pd.open \/ (pn.n + 2 <= Len(s) /\ Ch(s, pn.n + 2) \in {"-", "+"})]       \* a signed denominator is not described

(* mpf: "Read rop from stream, using its ios formatting settings.  Hex or octal floats are not supported" (always decimal).  The field
   (cxx/ismpf.cc, following num_get for double): optional sign, digits, optionally the radix point and digits -- at least one digit in all --
   then, only after such a mantissa, e or E, an optional sign and at least one digit.  FParse: [ok, n (characters consumed), fld (the text
   handed to mpf_set_str: the field without leading white space and without a leading '+')] *)
FParse(s, skipws) ==
   LET i0 == IF skipws THEN SkipWS(s, 1) ELSE 1
       hasSign == i0 <= Len(s) /\ Ch(s, i0) \in {"-", "+"}
       i1 == IF hasSign THEN i0 + 1 ELSE i0
       i2 == RunEnd(s, i1, "0123456789")
       pt == i2 <= Len(s) /\ Ch(s, i2) = "."
       i3 == IF pt THEN RunEnd(s, i2 + 1, "0123456789") ELSE i2
       mant == i2 > i1 \/ (pt /\ i3 > i2 + 1)
       ex == mant /\ i3 <= Len(s) /\ Ch(s, i3) \in {"e", "E"}
       i4 == IF ex /\ i3 + 1 <= Len(s) /\ Ch(s, i3 + 1) \in {"-", "+"} THEN i3 + 2 ELSE i3 + 1
       i5 == RunEnd(s, i4, "0123456789")
       n == IF ex THEN i5 - 1 ELSE i3 - 1
       fld == SubSeq(s, IF hasSign /\ Ch(s, i0) = "+" THEN i1 ELSE i0, n)
   IN  [ok |-> IF ex THEN i5 > i4 ELSE mant, n |-> n, fld |-> fld]

(***************************************************************************)
(* mpf INSERTION.  "Print op to stream, using its ios formatting settings   *)
(* ... The decimal point follows the standard library float operator<<".    *)
(* Specified conservatively: for a value k/2^j that a double holds exactly, *)
(* in decimal, the text is the one the standard library prints for that     *)
(* double WHENEVER the digits the state asks for represent the value        *)
(* without rounding (then neither library has a rounding decision to make): *)
(*   fixed:       the value has at most precision() digits after the point; *)
(*   scientific:  at most precision()+1 significant digits;                 *)
(*   general:     at most precision() significant digits.                   *)
(* precision() = 0 outside fixed is excluded: cxx/osfuns.cc states "ios::   *)
(* fixed allows prec==0, others take 0 as the default 6" (the standard      *)
(* library treats it as 1 in general format).  General format with         *)
(* showpoint for 0 < |value| < 1 printed in fixed notation is excluded too: *)
(* printf/doprntf.c pads "to requested precision with trailing zeros, for   *)
(* general this is all digits" and counts the zeros in front of the first   *)
(* significant digit ("0.50000" where the standard library gives            *)
(* "0.500000"); the manual does not state the number of trailing zeros: an  *)
(* observation (NOTES-CxxStream.md), not decided here.                      *)
(***************************************************************************)
RECURSIVE TZ10(_)
TZ10(N) == IF N = "0" THEN 0 ELSE IF ZTDivR(N, "a") = "0" THEN 1 + TZ10(ZTDivQ(N, "a")) ELSE 0
MpfComparable(ff, prec, showpoint, k, j) ==
   LET N == ZMul(ZAbs(k), ZPow("5", j))                  \* |value| = N / 10^j
       nd == Len(ZDigits(N, 10, "0123456789"))
       tz == TZ10(N)
       sig == IF N = "0" THEN 1 ELSE nd - tz
       frac == IF j - tz > 0 THEN j - tz ELSE 0
       X == nd - 1 - j IN                                \* decimal exponent of the leading digit
   IF ff = "fixed" THEN frac <= prec
   ELSE /\ prec > 0 /\ sig <= (IF ff = "sci" THEN prec + 1 ELSE prec)
        /\ ~(ff = "none" /\ showpoint = 1 /\ N # "0" /\ X < 0 /\ X >= -4)
MpfOstreamOK(i, o) == o.wf = 0 /\ (MpfComparable(i.ff, i.prec, i.showpoint, i.k, i.j) => o.f = o.d)
=============================================================================
