------------------------------ MODULE RadixText ------------------------------
(***************************************************************************)
(* R2 model for C06 (and the string part of C04): the text format.          *)
(*  (1) for every |v| <= M and every base 2..62, -2..-36: the text the      *)
(*      specification says mpz_get_str produces parses back to v, has no    *)
(*      leading zero, uses only the documented alphabet, and its length is  *)
(*      at most SizeInBase+1 (+1 for the sign);                             *)
(*  (2) NumGrammar: every string of length <= L over a small alphabet of    *)
(*      digits, letters of both cases, sign, blank and prefix letters, in   *)
(*      every base of BASES, is classified by ParseNum; accepted strings    *)
(*      without blanks denote the value whose digit string they are.  With  *)
(*      EMIT every classified string is printed for replay into every       *)
(*      parsing entry point of the real library (R3).                       *)
(***************************************************************************)
EXTENDS Naturals, Integers, Sequences, FiniteSets, TLC, SemIO
CONSTANTS M, L, EMIT
Bases == (2..62) \cup {-b : b \in 2..36}
RoundTrip(v, b) ==
   LET ab == IF b < 0 THEN -b ELSE b
       z == ZFromInt(v)
       t == GetStrText(z, b)
       p == ParseNum(t, ab)
       digs == IF v < 0 THEN SubSeq(t, 2, Len(t)) ELSE t
   IN  /\ p.ok /\ ~p.open /\ p.v = z
       /\ (v # 0 => SubSeq(digs, 1, 1) # "0") /\ (v = 0 => t = "0")
       /\ \E n \in 1..12 : SizeInBaseOK(z, ab, n) /\ Len(digs) <= n
       /\ (b < 0 => StrLower(t) # t \/ StrFirstBad(digs, 10, "0123456789") = Len(digs))     \* negative base: upper case letters
ASSUME \A v \in (-M)..M, b \in Bases : RoundTrip(v, b)

Alphabet == <<"0", "1", "7", "9", "a", "F", "z", "Z", "-", " ", "x", "b">>
GBases == {0, 2, 8, 10, 16, 36, 37, 62}
RECURSIVE Strs(_)
Strs(n) == IF n = 0 THEN {""} ELSE LET S == Strs(n - 1) IN S \cup {s \o Alphabet[i] : s \in {t \in S : Len(t) = n - 1}, i \in 1..Len(Alphabet)}
GrammarOK(s, b) ==
   LET p == ParseNum(s, b) IN
   /\ (p.ok /\ b # 0 /\ StrStripWS(s) = s /\ SubSeq(s, 1, 1) # "-") =>
         \* a blank-free unsigned accepted string is a digit string of the value (up to leading zeros and case)
         LET al == IF b <= 36 THEN Alpha36L ELSE Alpha62
             canon == ZDigits(p.v, b, al)
             t == IF b <= 36 THEN StrLower(s) ELSE s
         IN  Len(t) >= Len(canon) /\ SubSeq(t, Len(t) - Len(canon) + 1, Len(t)) = canon
             /\ StrFirstBad(SubSeq(t, 1, Len(t) - Len(canon)), 1, "0") = Len(t) - Len(canon)
   /\ (EMIT => PrintT(<<"GR", b, s, IF p.open THEN "open" ELSE IF p.ok THEN "ok" ELSE "rej">>))
ASSUME \A s \in Strs(L), b \in GBases : GrammarOK(s, b)
ASSUME PrintT(<<"RadixText", M, L, Cardinality(Strs(L))>>)
VARIABLE dummy
Spec == dummy = 0 /\ [][UNCHANGED dummy]_dummy
=============================================================================
