------------------------------- MODULE FatInit -------------------------------
(***************************************************************************)
(* R2 model for C14/C15: lazy initialisation of the fat-binary dispatch     *)
(* vector (mpn/x86_64/fat/fat.c, fat_entry.asm, CPUVEC_THRESHOLD in         *)
(* gmp-impl.h).  __gmpn_cpuvec starts with every function slot pointing at  *)
(* its _init stub and initialized = 0.  A stub, or a threshold read that    *)
(* finds initialized = 0, runs __gmpn_cpuvec_init: the vector for the       *)
(* running CPU is computed PRIVATELY (decided_cpuvec), copied into the      *)
(* global vector field by field (no lock), and `initialized` is set LAST.   *)
(* Several threads may do this at once.  Checked for every interleaving:    *)
(*   - a function call always lands on the decided kernel of that slot;     *)
(*   - a threshold is only ever read with its decided value;                *)
(*   - once all threads are done the vector is the decided one.             *)
(* Variant "flag_first" sets `initialized` before the copy (the mistake the *)
(* comment in fat.c warns about).                                           *)
(***************************************************************************)
EXTENDS Naturals, Sequences, FiniteSets, TLC
CONSTANTS Threads, NF, NT, Ops, Variant      \* NF function slots, NT threshold fields, Ops operations per thread
Fields == 1..(NF + NT)                       \* installation order: functions then thresholds
Decided(i) == 100 + i                        \* what __gmpn_cpu() computes (same on every run)
Stub(i) == i                                 \* initial content of function slot i; thresholds start at 0
VARIABLES vec, inited, pc, cur, done, log
vars == <<vec, inited, pc, cur, done, log>>
Init == /\ vec = [i \in Fields |-> IF i <= NF THEN Stub(i) ELSE 0]
        /\ inited = FALSE
        /\ pc = [t \in Threads |-> "idle"] /\ cur = [t \in Threads |-> <<"none", 0, 0>>]   \* <<op, slot, install position>>
        /\ done = [t \in Threads |-> 0] /\ log = {}
(* start an operation: call function slot k, or read threshold j *)
StartCall(t, k) == /\ pc[t] = "idle" /\ done[t] < Ops
                   /\ IF vec[k] = Stub(k)
                      THEN pc' = [pc EXCEPT ![t] = IF Variant = "flag_first" THEN "flag" ELSE "install"] /\ cur' = [cur EXCEPT ![t] = <<"call", k, 1>>] /\ UNCHANGED <<done, log>>
                      ELSE /\ log' = log \cup {<<"call", k, vec[k]>>} /\ done' = [done EXCEPT ![t] = @ + 1] /\ UNCHANGED <<pc, cur>>
                   /\ UNCHANGED <<vec, inited>>
StartThr(t, j) == /\ pc[t] = "idle" /\ done[t] < Ops
                  /\ IF ~inited
                     THEN pc' = [pc EXCEPT ![t] = IF Variant = "flag_first" THEN "flag" ELSE "install"] /\ cur' = [cur EXCEPT ![t] = <<"thr", NF + j, 1>>] /\ UNCHANGED <<done, log>>
                     ELSE /\ log' = log \cup {<<"thr", NF + j, vec[NF + j]>>} /\ done' = [done EXCEPT ![t] = @ + 1] /\ UNCHANGED <<pc, cur>>
                  /\ UNCHANGED <<vec, inited>>
(* CPUVEC_INSTALL: one field per step *)
Install(t) == /\ pc[t] = "install"
              /\ LET pos == cur[t][3] IN
                 /\ vec' = [vec EXCEPT ![pos] = Decided(pos)]
                 /\ IF pos = NF + NT
                    THEN pc' = [pc EXCEPT ![t] = IF Variant = "flag_first" THEN "finish" ELSE "flag"] /\ UNCHANGED cur
                    ELSE cur' = [cur EXCEPT ![t][3] = pos + 1] /\ UNCHANGED pc
              /\ UNCHANGED <<inited, done, log>>
SetFlag(t) == /\ pc[t] = "flag" /\ inited' = TRUE
              /\ pc' = [pc EXCEPT ![t] = IF Variant = "flag_first" THEN "install" ELSE "finish"]
              /\ UNCHANGED <<vec, cur, done, log>>
(* after the initialisation the pending operation is carried out through the global vector *)
Finish(t) == /\ pc[t] = "finish"
             /\ log' = log \cup {<<cur[t][1], cur[t][2], vec[cur[t][2]]>>}
             /\ done' = [done EXCEPT ![t] = @ + 1] /\ pc' = [pc EXCEPT ![t] = "idle"]
             /\ UNCHANGED <<vec, inited, cur>>
Next == \E t \in Threads : \/ \E k \in 1..NF : StartCall(t, k) \/ \E j \in 1..NT : StartThr(t, j)
                           \/ Install(t) \/ SetFlag(t) \/ Finish(t)
Spec == Init /\ [][Next]_vars
(* every executed call / threshold read used the decided value *)
AlwaysDecided == \A e \in log : e[3] = Decided(e[2])
(* slots only ever hold the stub or the decided kernel *)
SlotsSane == \A i \in Fields : vec[i] = Decided(i) \/ (i <= NF /\ vec[i] = Stub(i)) \/ (i > NF /\ vec[i] = 0)
FinalVector == (\A t \in Threads : pc[t] = "idle" /\ done[t] = Ops) => (inited => \A i \in Fields : vec[i] = Decided(i))
FlagImpliesInstalled == (Variant # "flag_first" /\ inited) => \A i \in Fields : vec[i] = Decided(i)
=============================================================================
