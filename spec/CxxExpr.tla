------------------------------- MODULE CxxExpr -------------------------------
(***************************************************************************)
(* R2/R3 for C20: the typed expression grammar as set definitions.  TLC     *)
(* enumerates the well-typed mpz_class / mpq_class trees of depth <= 2      *)
(* (all trees op1(op2(x,y),z), op1(z,op2(x,y)); op1(op2(..),op3(..)) over a *)
(* smaller alphabet; unary wrappers; comparisons at the root) and prints    *)
(* each one; a generator turns them into C++ translation units compiled     *)
(* against the tree's mpirxx.h, and the printed value of every expression   *)
(* is validated against CxxSem!EvalZ / EvalQ.  Divisors are kept non-zero   *)
(* by construction (x | 1, |q| + 1), sqrt is applied to abs(..), shift      *)
(* counts are unsigned literals.                                            *)
(***************************************************************************)
EXTENDS Naturals, Integers, Sequences, FiniteSets, TLC
CONSTANT KIND                  \* "z", "q" or "f"
ZLeaf == {<<"v", "a">>, <<"v", "b">>, <<"v", "c">>, <<"si", "-5">>, <<"si", "-8000000000000000">>, <<"si", "7fffffffffffffff">>, <<"ui", "7">>,
          <<"ui", "ffffffffffffffff">>, <<"dd", "3.0">>, <<"dd", "-2.5">>, <<"si", "-1">>}
ZLeafS == {<<"v", "a">>, <<"v", "b">>, <<"si", "-5">>, <<"ui", "7">>, <<"dd", "-2.5">>}
ZArith == {"+", "-", "*", "&", "|", "^"}
ZDiv == {"/", "%"}
ZFun2 == {"gcd", "lcm"}
ZUn == {"neg", "com", "abs", "pos"}
ZCmp == {"<", "==", ">=", "cmp"}
IsClass(t) == t[1] \notin {"si", "ui", "dd"}            \* an operand that is a class object or expression (C++ needs one per operator)
NZ(t) == <<"|", t, <<"si", "1">>>>                       \* odd, hence non-zero
Bin1Z == {<<op, x, y>> : op \in ZArith, x \in ZLeaf, y \in ZLeaf} \cup {<<op, x, NZ(y)>> : op \in ZDiv, x \in ZLeaf, y \in {<<"v", "a">>, <<"v", "b">>}}
         \cup {<<op, x, y>> : op \in ZDiv, x \in ZLeaf, y \in {<<"si", "-1">>, <<"si", "-5">>, <<"ui", "7">>, <<"dd", "3.0">>}}
         \cup {<<op, x, y>> : op \in ZFun2, x \in {<<"v", "a">>, <<"v", "b">>}, y \in {<<"v", "b">>, <<"v", "c">>}}
         \cup {<<sh, x, <<"ui", k>>>> : sh \in {"<<", ">>"}, x \in {<<"v", "a">>, <<"v", "b">>, <<"v", "c">>}, k \in {"0", "1", "40", "46"}}
WellZ(t) == Len(t) = 3 => (IsClass(t[2]) \/ IsClass(t[3]))
D1Z == {t \in Bin1Z : WellZ(t)}
D1ZS == {t \in D1Z : t[2] \in ZLeafS /\ (t[3] \in ZLeafS \/ t[1] \in ZDiv \/ t[1] \in {"<<", ">>"})}
Un1Z == {<<u, x>> : u \in ZUn, x \in D1ZS} \cup {<<"sqrt", <<"abs", x>>>> : x \in D1ZS} \cup {<<"sgn", x>> : x \in D1ZS}
D2Z == {<<op, s, z>> : op \in ZArith, s \in D1ZS, z \in ZLeafS} \cup {<<op, z, s>> : op \in ZArith, s \in D1ZS, z \in ZLeafS}
       \cup {<<op, s, NZ(z)>> : op \in ZDiv, s \in D1ZS, z \in {<<"v", "a">>, <<"v", "b">>}}
       \cup {<<op, s, u>> : op \in {"+", "-", "*"}, s \in {t \in D1ZS : t[1] \in {"+", "*", "-"}}, u \in {t \in D1ZS : t[1] \in {"+", "*", "&"}}}
       \cup {<<c, s, z>> : c \in ZCmp, s \in D1ZS, z \in ZLeaf} \cup {<<c, z, s>> : c \in ZCmp, s \in D1ZS, z \in {<<"dd", "-2.5">>, <<"si", "-5">>, <<"v", "c">>}}
QLeaf == {<<"v", "q">>, <<"v", "r">>, <<"si", "-5">>, <<"ui", "7">>, <<"dd", "-2.5">>, <<"dd", "0.1">>}
QArith == {"+", "-", "*"}
NZQ(t) == <<"+", <<"abs", t>>, <<"ui", "1">>>>
D1Q == {t \in {<<op, x, y>> : op \in QArith, x \in QLeaf, y \in QLeaf} : IsClass(t[2]) \/ IsClass(t[3])}
       \cup {<<"/", x, NZQ(y)>> : x \in QLeaf, y \in {<<"v", "q">>, <<"v", "r">>}} \cup {<<"/", x, y>> : x \in {<<"v", "q">>, <<"v", "r">>}, y \in {<<"si", "-5">>, <<"ui", "7">>, <<"dd", "-2.5">>}}
       \cup {<<sh, x, <<"ui", k>>>> : sh \in {"<<", ">>"}, x \in {<<"v", "q">>, <<"v", "r">>}, k \in {"0", "3", "40"}}
D2Q == {<<op, s, z>> : op \in QArith, s \in D1Q, z \in QLeaf} \cup {<<op, z, s>> : op \in QArith, s \in D1Q, z \in QLeaf}
       \cup {<<"/", s, NZQ(z)>> : s \in D1Q, z \in {<<"v", "q">>, <<"v", "r">>}} \cup {<<u, s>> : u \in {"neg", "abs", "sgn"}, s \in D1Q}
       \cup {<<c, s, z>> : c \in {"<", "==", "cmp"}, s \in D1Q, z \in QLeaf}
(* ---- mpf_class (KIND "f"): variables f, g, h carry DIFFERENT precisions (64, 128, 256 bits); f may be zero, so only g, h, non-zero built-in
   numbers and |s| + 1 are divisors; sqrt is applied to abs(..); floor/ceil/trunc, comparisons, cmp and sgn at the root ---- *)
FVar == {<<"v", "f">>, <<"v", "g">>, <<"v", "h">>}
FBuiltin == {<<"si", "-5">>, <<"ui", "7">>, <<"dd", "2.5">>, <<"dd", "-0.75">>, <<"si", "-8000000000000000">>, <<"ui", "ffffffffffffffff">>}
FLeaf == FVar \cup FBuiltin
FLeafS == FVar \cup {<<"si", "-5">>, <<"ui", "7">>, <<"dd", "2.5">>}
FArith == {"+", "-", "*"}
FUn == {"neg", "abs", "floor", "ceil", "trunc"}
NZF(t) == <<"+", <<"abs", t>>, <<"ui", "1">>>>
FDivisorLeaf == {<<"v", "g">>, <<"v", "h">>, <<"si", "-5">>, <<"ui", "7">>, <<"dd", "2.5">>, <<"si", "-8000000000000000">>}
D1F == {t \in {<<op, x, y>> : op \in FArith, x \in FLeaf, y \in FLeaf} : IsClass(t[2]) \/ IsClass(t[3])}
       \cup {t \in {<<"/", x, y>> : x \in FLeaf, y \in FDivisorLeaf} : IsClass(t[2]) \/ IsClass(t[3])}
D1FS == {t \in D1F : t[2] \in FLeafS /\ t[3] \in FLeafS}
Un1F == {<<u, x>> : u \in FUn, x \in FVar \cup D1FS} \cup {<<"sqrt", <<"abs", x>>>> : x \in FVar \cup D1FS} \cup {<<"sgn", x>> : x \in D1FS}
Un1FS == {<<u, x>> : u \in {"neg", "floor", "sqrt"}, x \in {<<"abs", <<"v", "g">>>>, <<"abs", <<"-", <<"v", "f">>, <<"v", "h">>>>>>}}
FSub == {<<"+", <<"v", "f">>, <<"v", "g">>>>, <<"*", <<"v", "g">>, <<"v", "h">>>>, <<"/", <<"v", "f">>, <<"v", "h">>>>, <<"-", <<"v", "h">>, <<"dd", "2.5">>>>,
         <<"*", <<"v", "f">>, <<"si", "-5">>>>, <<"/", <<"ui", "7">>, <<"v", "g">>>>, <<"-", <<"si", "-5">>, <<"v", "f">>>>, <<"/", <<"v", "g">>, <<"si", "-5">>>>,
         <<"-", <<"v", "f">>, <<"v", "h">>>>} \cup Un1FS                                        \* sub-expressions used on both sides of a root operator
D2F == {<<op, s, z>> : op \in FArith, s \in D1FS, z \in FLeafS} \cup {<<op, z, s>> : op \in FArith, s \in D1FS, z \in FLeafS}
       \cup {<<"/", s, z>> : s \in D1FS, z \in {<<"v", "g">>, <<"v", "h">>, <<"ui", "7">>, <<"dd", "2.5">>}}
       \cup {<<"/", z, NZF(s)>> : s \in FSub, z \in FLeafS}
       \cup {<<op, s, u>> : op \in {"+", "-", "*"}, s \in FSub, u \in FSub} \cup {<<"/", s, NZF(u)>> : s \in FSub, u \in {<<"v", "f">>, <<"*", <<"v", "g">>, <<"v", "h">>>>}}
       \cup {<<c, s, z>> : c \in ZCmp, s \in FSub, z \in FLeafS} \cup {<<c, z, s>> : c \in ZCmp, s \in FSub, z \in FLeafS} \cup {<<c, s, u>> : c \in {"<", "cmp"}, s \in FSub, u \in FSub}
       \cup {<<c, x, y>> : c \in ZCmp, x \in FVar, y \in FLeaf}
(* ---- mixed mpz_class / mpq_class expressions (the __GMPZQ_DEFINE_EXPR specialisations of mpirxx.h): an INTEGER class operand next to a rational operand or
   sub-expression.  z is an independent mpz_class object; qn and qd are q.get_num() and q.get_den(), i.e. references INTO the rational q, so that with
   target q the integer operand is a component of the variable being assigned (seed C20c) ---- *)
MixZ == {<<"v", "z">>, <<"v", "qn">>, <<"v", "qd">>}
MixQSub == {<<"v", "q">>, <<"v", "r">>, <<"*", <<"v", "q">>, <<"v", "r">>>>, <<"-", <<"v", "r">>, <<"v", "q">>>>, <<"neg", <<"v", "r">>>>, <<"abs", <<"v", "q">>>>,
            <<"+", <<"v", "r">>, <<"ui", "7">>>>, <<"/", <<"v", "q">>, <<"si", "-5">>>>, <<"<<", <<"v", "r">>, <<"ui", "3">>>>, <<"*", <<"v", "r">>, <<"v", "r">>>>}
MixQ == {<<op, z, e>> : op \in QArith, z \in MixZ, e \in MixQSub} \cup {<<op, e, z>> : op \in QArith, z \in MixZ, e \in MixQSub}
        \cup {<<"/", z, NZQ(e)>> : z \in MixZ, e \in MixQSub} \cup {<<"/", e, NZQ(z)>> : z \in MixZ, e \in MixQSub}
        \cup {<<c, z, e>> : c \in {"<", "==", "cmp"}, z \in MixZ, e \in MixQSub} \cup {<<c, e, z>> : c \in {"<", "cmp"}, z \in MixZ, e \in MixQSub}
        \cup {<<op, <<op2, z, e>>, y>> : op \in {"+", "*"}, op2 \in {"+", "-"}, z \in MixZ, e \in {<<"v", "r">>, <<"*", <<"v", "q">>, <<"v", "r">>>>}, y \in {<<"v", "q">>, <<"v", "qd">>, <<"ui", "7">>}}
(* ---- literal operands for which mpirxx.h has compile-time shortcuts (__GMPXX_CONSTANT: zero, one, powers of two as multiplier / divisor / addend); the
   generated units that hold these trees are compiled a second time WITH optimisation, without which the shortcuts are dead code (seed C20d) ---- *)
KLit == {<<"si", "0">>, <<"si", "1">>, <<"si", "2">>, <<"si", "-4">>, <<"ui", "8">>, <<"si", "-1">>, <<"ui", "0">>, <<"si", "-8000000000000000">>, <<"ui", "8000000000000000">>}
KNZ == KLit \ {<<"si", "0">>, <<"ui", "0">>}
ConstZ == {<<op, x, k>> : op \in {"+", "-", "*"}, x \in {<<"v", "a">>, <<"v", "b">>, <<"v", "c">>}, k \in KLit}
          \cup {<<op, k, x>> : op \in {"+", "-", "*"}, x \in {<<"v", "a">>, <<"v", "b">>}, k \in KLit}
          \cup {<<op, x, k>> : op \in ZDiv, x \in {<<"v", "a">>, <<"v", "b">>, <<"v", "c">>}, k \in KNZ}
          \cup {<<op, <<"neg", x>>, k>> : op \in ZDiv, x \in {<<"v", "a">>, <<"v", "b">>}, k \in {<<"si", "2">>, <<"si", "-4">>, <<"ui", "8">>}}
ConstQ == {<<op, x, k>> : op \in {"+", "-", "*"}, x \in {<<"v", "q">>, <<"v", "r">>}, k \in KLit} \cup {<<op, k, x>> : op \in {"+", "-", "*"}, x \in {<<"v", "q">>, <<"v", "r">>}, k \in KLit}
          \cup {<<"/", x, k>> : x \in {<<"v", "q">>, <<"v", "r">>}, k \in KNZ} \cup {<<"/", k, NZQ(x)>> : x \in {<<"v", "q">>, <<"v", "r">>}, k \in KLit}
Trees == IF KIND = "z" THEN D1Z \cup Un1Z \cup D2Z \cup ConstZ ELSE IF KIND = "q" THEN D1Q \cup D2Q \cup MixQ \cup ConstQ ELSE D1F \cup Un1F \cup D2F
ASSUME \A t \in Trees : PrintT(<<"TREE", KIND, t>>)
ASSUME PrintT(<<"CxxExpr", KIND, Cardinality(Trees)>>)
VARIABLE dummy
Spec == dummy = 0 /\ [][UNCHANGED dummy]_dummy
=============================================================================
