------------------------------ MODULE FFTParams ------------------------------
(***************************************************************************)
(* R2 model for C01/C14: mpn_mul_fft_main's search for the transform        *)
(* parameters (depth, w) (fft/mul_fft_main.c:37-103), with the tree's       *)
(* FFT_TAB as a CONSTANT.  Transcribed loop by loop.  Invariant at the      *)
(* hand-off to mpn_mul_trunc_sqrt2 / mpn_mul_mfa_trunc_sqrt2: Safe --       *)
(* the pieces fit the length-4n transform, coefficients are whole limbs,    *)
(* and the convolution sums cannot wrap modulo 2^(nw)+1.                    *)
(* R3: Emit prints every (n1, n2, depth, w, kind) so that the harness can   *)
(* call the two FFT multipliers directly with every parameter pair the      *)
(* selection can produce.                                                   *)
(***************************************************************************)
EXTENDS Naturals, Integers, Sequences, TLC, HookPre
CONSTANTS T61, T62, T71, T72, T81, T82, T91, T92, TA1, TA2,   \* FFT_TAB[depth-6][w-1]
          N1LO, N1HI, STEP, \* n1 ranges over N1LO, N1LO+STEP, ... <= N1HI
          FFTFULL, EMIT

FFTTAB == <<<<T61, T62>>, <<T71, T72>>, <<T81, T82>>, <<T91, T92>>, <<TA1, TA2>>>>
RECURSIVE InitLoop(_, _, _, _)
InitLoop(n1, n2, depth, w) ==            \* while (j1 + j2 - 1 > 4*n)
   LET n == Pow2(depth)  bits == Bits(n, w, depth) IN
   IF J(n1, bits) + J(n2, bits) - 1 > 4 * n
   THEN IF w = 1 THEN InitLoop(n1, n2, depth, 2) ELSE InitLoop(n1, n2, depth + 1, 1)
   ELSE <<depth, w>>

RECURSIVE Descent(_, _, _, _, _)
Descent(n1, n2, depth, w, wadj) ==       \* do { w -= wadj; ... } while (j1 + j2 - 1 <= 4*n && w > wadj); w += wadj
   LET n == Pow2(depth)  w1 == w - wadj  bits == Bits(n, w1, depth) IN
   IF J(n1, bits) + J(n2, bits) - 1 <= 4 * n /\ w1 > wadj
   THEN Descent(n1, n2, depth, w1, wadj)
   ELSE w1 + wadj

Params(n1, n2) ==
   LET i  == InitLoop(n1, n2, 6, 1)
       d0 == i[1]   w0 == i[2]
   IN  IF d0 < 11
       THEN LET off  == FFTTAB[d0 - 5][w0]
                d1   == d0 - off
                w1   == w0 * Pow2(2 * off)
                wadj == IF d1 < 6 THEN Pow2(6 - d1) ELSE 1
                w2   == IF w1 > wadj THEN Descent(n1, n2, d1, w1, wadj) ELSE w1
            IN  <<d1, w2, "trunc">>
       ELSE LET n == Pow2(d0)  bits == Bits(n, w0, d0) IN
            IF J(n1, bits) + J(n2, bits) - 1 <= 3 * n THEN <<d0 - 1, w0 * 3, "mfa">> ELSE <<d0, w0, "mfa">>

Safe(n1, n2, depth, w, kind) == FFTSafe(n1, n2, depth, w, kind)

VARIABLES phase, n1, n2
vars == <<phase, n1, n2>>
Init == phase = 0 /\ n1 = 0 /\ n2 = 0
P1 == phase = 0 /\ phase' = 1 /\ n1' \in {N1LO + STEP * k : k \in 0..((N1HI - N1LO) \div STEP)} /\ n2' = 0
(* mpn_mul sends (un, vn) here when un + vn >= 2*FFTFULL and 3*vn >= FFTFULL; mul_n/sqr when n >= FFTFULL *)
P2 == phase = 1 /\ phase' = 2 /\ n1' = n1
      /\ n2' \in {m \in 1..n1 : n1 + m >= 2 * FFTFULL /\ 3 * m >= FFTFULL /\ (STEP = 1 \/ m \in {n1, n1 - 1, (n1 + 1) \div 2, (FFTFULL + 2) \div 3, 2 * FFTFULL - n1, (2 * n1) \div 3, n1 \div 3, n1 \div 5 + 1})}
Next == P1 \/ P2
Spec == Init /\ [][Next]_vars
Correct == phase = 2 => LET p == Params(n1, n2) IN
              /\ Safe(n1, n2, p[1], p[2], p[3])
              /\ (EMIT => PrintT(<<"FFTP", n1, n2, p[1], p[2], p[3]>>))
=============================================================================
