------------------------------- MODULE HookPre -------------------------------
(***************************************************************************)
(* Safety predicates of algorithm choices, shared by the dispatch models    *)
(* (MulDispatch, FFTParams: checked for ALL sizes with the tree's           *)
(* thresholds) and by the trace specification (MPIR!Hook: applied to every  *)
(* decision the real library reports through a VERIF_EV hook).  A logged    *)
(* choice is never compared with the model's choice -- another tuning is    *)
(* not a violation -- only its safety predicate must hold.                  *)
(* Operator library: no VARIABLES, no CONSTANTS.                            *)
(***************************************************************************)
EXTENDS Naturals, Integers, Sequences

(* the domain each Toom routine ASSERTs (toom3_mul.c:253-257,426-431,627-631; toom4_mul.c:143,326; toom8h_mul.c:82-90; toom3_mul_n.c:92) *)
TPre(lbl, un, vn) ==
  CASE lbl = "toom42" -> LET k == (un + 3) \div 4 IN vn > k /\ vn <= 2 * k /\ un >= 20
    [] lbl = "toom32" -> LET k == (un + 2) \div 3 IN vn > k /\ un >= 20
    [] lbl = "toom3"  -> LET k == (un + 2) \div 3 IN vn > 2 * k /\ un >= 20
    [] lbl = "toom4"  -> vn > 3 * ((un + 3) \div 4)
    [] lbl = "toom53" -> vn > 2 * ((un + 4) \div 5)
    [] lbl \in {"toom8h", "toom8h_n"} -> un >= vn /\ vn >= 86 /\ 4 * un <= 13 * vn
    [] lbl = "toom3_n" -> un >= 17
    [] lbl = "toom4_n" -> un >= 4
    [] lbl = "sqr_toom3" -> un >= 17
    [] lbl = "sqr_kara" -> un >= 2
    [] lbl = "kara_n" -> un >= 2
    [] OTHER -> TRUE

RECURSIVE Log2Ceil(_)
Log2Ceil(x) == IF x <= 1 THEN 0 ELSE 1 + Log2Ceil((x + 1) \div 2)
Pow2(k) == 2 ^ k
Bits(n, w, depth) == (n * w - (depth + 1)) \div 2
J(nl, bits) == (nl * 64 - 1) \div bits + 1
(* parameters handed to mpn_mul_trunc_sqrt2 / mpn_mul_mfa_trunc_sqrt2 *)
FFTSafe(n1, n2, depth, w, kind) ==
   LET n == Pow2(depth)   bits == Bits(n, w, depth)
       j1 == J(n1, bits)   j2 == J(n2, bits)
       tr0 == IF j1 + j2 - 1 <= 2 * n THEN 2 * n + 1 ELSE j1 + j2 - 1
       sq == Pow2(depth \div 2)
       trunc == IF kind = "mfa" THEN 2 * sq * ((tr0 + 2 * sq - 1) \div (2 * sq)) ELSE 2 * ((tr0 + 1) \div 2)
   IN  /\ depth >= 1 /\ w >= 1 /\ bits >= 1
       /\ j1 <= 4 * n /\ j2 <= 4 * n /\ trunc <= 4 * n           \* fits the length-4n transform
       /\ (n * w) % 64 = 0                                       \* coefficients are whole limbs
       /\ 2 * bits + Log2Ceil(IF j1 < j2 THEN j1 ELSE j2) <= n * w   \* convolution sums < 2^(nw): no wrap mod 2^(nw)+1
(* the coefficient size actually used by mul_trunc_sqrt2 / mul_mfa_trunc_sqrt2 (hook "fft.coeff": bits1, j1, j2, n*w): two operands cut into j1 and j2
   coefficients of `bits` bits; each output coefficient is a sum of at most min(j1, j2) products below 2^(2 bits): it must stay below 2^(n w) *)
FFTCoeffOK(bits, j1, j2, nw) ==
   /\ bits >= 1 /\ j1 >= 1 /\ j2 >= 1
   /\ 2 * bits + Log2Ceil(IF j1 < j2 THEN j1 ELSE j2) <= nw
=============================================================================
