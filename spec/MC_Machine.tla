------------------------------ MODULE MC_Machine ------------------------------
(***************************************************************************)
(* Small-scope model check of the abstract machine MPIR.tla itself.         *)
(*                                                                         *)
(* Instead of reading events from a trace, every event the machine could    *)
(* ACCEPT is generated here from small candidate sets (2 integer variables, *)
(* one-limb values, block ids 1..MAXID, allocations of 1..2 limbs) and the  *)
(* same MPIR!Step decides whether it is enabled.  TLC explores every        *)
(* history of init / clear / set / add / mul / neg / swap / realloc2 the    *)
(* machine admits up to DEPTH calls and checks in every reachable state the *)
(* invariants the trace validation relies on:                               *)
(*   - block ids are unique, every live variable owns a live block of       *)
(*     exactly its allocation, outside calls nothing else is live           *)
(*     (no leak, no double ownership),                                      *)
(*   - values stored are the mathematical results (Sem), independent of the *)
(*     allocation history: AllocIndependent.                                *)
(* This shows the enabling conditions of the machine are consistent (they   *)
(* imply the invariants, and they are satisfiable: coverage of every action *)
(* is reported with -coverage) and yields the call histories that the       *)
(* driver `hist` style replays are drawn from (R3).                         *)
(***************************************************************************)
EXTENDS MPIR
CONSTANTS MAXID, DEPTH, VALS          \* VALS: set of hex numerals used as operands
VARIABLES ncalls, pend, msteps       \* calls completed; the pending call's begin event; memory events inside it
allv == <<mvars, ncalls, pend, msteps>>
Vars == 0..1
Funs == {"mpz_init", "mpz_clear", "mpz_set_si", "mpz_add", "mpz_mul", "mpz_neg", "mpz_swap", "mpz_realloc2"}
ArgsOf(f) == CASE f \in {"mpz_init", "mpz_clear"} -> {<<i>> : i \in Vars}
               [] f = "mpz_set_si" -> {<<i, v>> : i \in Vars, v \in VALS}
               [] f \in {"mpz_add", "mpz_mul"} -> {<<i, j, k>> : i \in Vars, j \in Vars, k \in Vars}
               [] f \in {"mpz_neg", "mpz_swap"} -> {<<i, j>> : i \in Vars, j \in Vars}
               [] f = "mpz_realloc2" -> {<<i, b>> : i \in Vars, b \in {"1", "41", "80"}}
MInit == Init /\ ncalls = 0 /\ pend = [f |-> "", a |-> <<>>] /\ msteps = 0
Begin == /\ inCall = "" /\ ncalls < DEPTH
         /\ \E f \in Funs : \E a \in ArgsOf(f) :
               /\ CallBegin([e |-> "begin", f |-> f, a |-> a])
               /\ pend' = [f |-> f, a |-> a]
         /\ UNCHANGED ncalls /\ msteps' = 0
Mem == /\ inCall # "" /\ msteps < 2 /\ msteps' = msteps + 1
       /\ \/ \E id \in 1..MAXID, sz \in {8, 16} : id \notin LiveIds(heap) /\ (\A b \in heap : b[1] < id) /\ Alloc([e |-> "al", id |-> id, sz |-> sz])
          \/ \E b \in heap : Free([e |-> "fr", id |-> b[1], sz |-> b[2]])
          \/ \E b \in heap, nid \in 1..MAXID, nsz \in {8, 16} : nid \notin LiveIds(heap) /\ (\A c \in heap : c[1] < nid)
                /\ Realloc([e |-> "re", id |-> b[1], old |-> b[2], nid |-> nid, new |-> nsz])
       /\ UNCHANGED <<ncalls, pend>>
(* candidate post-state records of a variable: value from a small set, 1..2 limbs allocated, any live block *)
Cands == {[k |-> "z", i |-> i, live |-> 1, v |-> v, sz |-> ZSgn(v), al |-> al, blk |-> b[1]] :
            i \in Vars, v \in VALS \cup {"0"}, al \in {1, 2}, b \in heap}
         \cup {[k |-> "z", i |-> i, live |-> 0] : i \in Vars}
ChSets == {<<>>} \cup {<<c>> : c \in Cands} \cup {<<c, d>> : c \in {x \in Cands : x.i = 0}, d \in {x \in Cands : x.i = 1}}
End == /\ inCall # ""
       /\ \E ch \in ChSets : CallEnd([e |-> "end", f |-> pend.f, a |-> pend.a, sig |-> "", ret |-> 0, x |-> "0", ch |-> ch])
       /\ ncalls' = ncalls + 1 /\ pend' = [f |-> "", a |-> <<>>] /\ msteps' = 0
MNext == Begin \/ Mem \/ End
MSpec == MInit /\ [][MNext]_allv
(* the values the machine holds are the mathematical ones, whatever the allocation history: every live variable is well formed *)
LiveWellFormed == inCall = "" => \A i \in DOMAIN zs : zs[i].live => WFZ(zs[i], heap)
Bounded == Cardinality(heap) <= MAXID
=============================================================================
