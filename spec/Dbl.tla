-------------------------------- MODULE Dbl --------------------------------
(* IEEE-754 binary64 values as exact dyadic rationals.  A double is logged   *)
(* as <<sign, exp11, mant_hi26, mant_lo26>> (nothing above 31 bits crosses   *)
(* the JSON boundary).  Finite value = (-1)^sign * M * 2^E.                  *)
EXTENDS Naturals, Integers, Sequences, BigZ

DSign(d) == d[1]
DExpField(d) == d[2]
DFrac(d) == ZAdd(ZShl(ZFromInt(d[3]), 26), ZFromInt(d[4]))           \* 52-bit fraction field
DIsInf(d) == d[2] = 2047 /\ d[3] = 0 /\ d[4] = 0
DIsNaN(d) == d[2] = 2047 /\ ~(d[3] = 0 /\ d[4] = 0)
DIsFinite(d) == d[2] < 2047
DIsZero(d) == d[2] = 0 /\ d[3] = 0 /\ d[4] = 0
(* integer significand (non-negative) and binary exponent of a finite double *)
DMant(d) == IF d[2] = 0 THEN DFrac(d) ELSE ZAdd(ZPow2(52), DFrac(d))
DExp(d) == IF d[2] = 0 THEN -1074 ELSE d[2] - 1075
DSigned(d) == IF d[1] = 1 THEN ZNeg(DMant(d)) ELSE DMant(d)

(* sign of (z - d) for an integer z and a finite or infinite double d *)
CmpZD(z, d) ==
   IF DIsInf(d) THEN (IF d[1] = 1 THEN 1 ELSE -1)
   ELSE LET m == DSigned(d)  e == DExp(d) IN
        IF e >= 0 THEN ZCmp(z, ZShl(m, e)) ELSE ZCmp(ZShl(z, -e), m)
(* sign of (n/den - d), den > 0 *)
CmpQD(n, den, d) ==
   IF DIsInf(d) THEN (IF d[1] = 1 THEN 1 ELSE -1)
   ELSE LET m == DSigned(d)  e == DExp(d) IN
        IF e >= 0 THEN ZCmp(n, ZMul(ZShl(m, e), den)) ELSE ZCmp(ZShl(n, -e), ZMul(m, den))

(* truncation of a finite double toward zero, as an integer *)
DTruncZ(d) == LET m == DMant(d) e == DExp(d)
                  a == IF e >= 0 THEN ZShl(m, e) ELSE ZShr(m, -e)
              IN  IF d[1] = 1 THEN ZNeg(a) ELSE a

(* "d is the truncation toward zero of the exact value n/den * 2^sh to 53 significant bits":
   the double a correct get_d returns when the value is inside the normal exponent range.
   Stated as a predicate: |d| <= |x| < |d| + ulp, same sign, d has the top bit of x.        *)
DIsTruncOfZ(d, z) ==            \* z an integer
   IF z = "0" THEN DIsZero(d)
   ELSE LET a  == ZAbs(z)  bl == ZBitLen(a)
            sh == bl - 53
            m  == IF sh >= 0 THEN ZShr(a, sh) ELSE ZShl(a, -sh)        \* 53-bit significand, truncated
        IN  /\ DIsFinite(d) /\ d[2] > 0
            /\ d[1] = (IF ZIsNeg(z) THEN 1 ELSE 0)
            /\ DMant(d) = m /\ DExp(d) = sh
=============================================================================
