------------------------------- MODULE SbDivQr -------------------------------
(***************************************************************************)
(* R2 model for C02: the schoolbook division loop mpn_sb_div_qr             *)
(* (mpn/generic/sb_div_qr.c) -- initial compare/subtract, the special case  *)
(* n1 == d1 && np[1] == d0 with q = B-1, the 3/2 quotient step, submul_1,   *)
(* the borrow propagation sub_333 and the add-back -- one recursion step    *)
(* per loop iteration on limb sequences at limb base B.  TLC checks for     *)
(* every normalised divisor of DN limbs and every dividend of NN limbs:     *)
(* n = q*d + r, r < d, returned high quotient limb correct.                 *)
(* Variant "no_special" removes the special case (shows the invariant       *)
(* discriminates; its counter-examples are the witnesses the driver lifts). *)
(***************************************************************************)
EXTENDS UdivPreinvOps, TLC
CONSTANTS DN, NN, Variant, EMITSB

RECURSIVE NatOf(_)
NatOf(s) == IF s = <<>> THEN 0 ELSE s[1] + B * NatOf(Tail(s))
RECURSIVE LimbsOf(_, _)
LimbsOf(v, n) == IF n = 0 THEN <<>> ELSE <<v % B>> \o LimbsOf(v \div B, n - 1)
Put(s, off, vals) == [i \in 1..Len(s) |-> IF i > off /\ i <= off + Len(vals) THEN vals[i - off] ELSE s[i]]
Sub(s, off, n) == SubSeq(s, off + 1, off + n)

(* np is modelled as the whole array with an index `top` = position of np[1] (0-based index of np is top-1) *)
RECURSIVE Loop(_, _, _, _, _, _, _)
Loop(N, top, i, n1, q, D, lab) ==       \* N: dividend array; top: 0-based index of np[1]; q: quotient limbs found (high first)
   IF i = 0 THEN [N |-> Put(N, top, <<n1>>), q |-> q, lab |-> lab]
   ELSE LET dn == Len(D) - 2
            d1 == D[Len(D)]   d0 == D[Len(D) - 1]
            dinv == InvertPi1(d1, d0)
            t1 == top - 1                        \* np-- : now np[1] is N[t1+1] (0-based t1), np[0] is N[t1]
            np1 == N[t1 + 1]   np0 == N[t1]      \* 1-based: N[t1+1] is 0-based index t1
        IN  IF Variant # "no_special" /\ n1 = d1 /\ N[t1 + 1] = d0
            THEN \* q = B-1; mpn_submul_1 (np - dn, dp, dn + 2, q)
                 LET base == t1 - 1 - dn              \* 0-based start of np - dn
                     cur == NatOf(Sub(Put(N, t1 + 1, <<n1>>), base, dn + 2)) 
                     nv == (cur - NatOf(D) * (B - 1)) % (B ^ (dn + 2))
                     N1 == Put(Put(N, t1 + 1, <<n1>>), base, LimbsOf(nv, dn + 2))
                 IN  Loop(N1, t1, i - 1, N1[t1 + 1], q \o <<B - 1>>, D, lab \cup {"special"})
            ELSE LET u == U3by2(n1, N[t1 + 1], N[t1], d1, d0, dinv)
                     qq == u[1]  r1 == u[2]  r0 == u[3]
                     base == t1 - 1 - dn
                     cur == NatOf(Sub(N, base, dn))
                     prod == NatOf(SubSeq(D, 1, dn)) * qq
                     low == (cur - prod) % (B ^ dn)
                     cy2 == (prod - cur + low) \div (B ^ dn)          \* borrow limb returned by submul_1
                     \* sub_333 (cy, n1, n0, 0, n1, n0, 0, 0, cy2): three-limb subtract of cy2
                     v3 == (r1 * B + r0 - cy2) % (B * B * B)
                     cy == IF r1 * B + r0 < cy2 THEN 1 ELSE 0
                     r1b == ((r1 * B + r0 - cy2) % (B * B)) \div B
                     r0b == (r1 * B + r0 - cy2) % B
                     N1 == Put(Put(N, base, LimbsOf(low, dn)), t1 - 1, <<r0b>>)     \* np[0] = n0
                 IN  IF cy # 0
                     THEN \* n1 += d1 + mpn_add_n (np - dn, np - dn, dp, dn + 1); q--
                          LET s == NatOf(Sub(N1, base, dn + 1)) + NatOf(SubSeq(D, 1, dn + 1))
                              N2 == Put(N1, base, LimbsOf(s % (B ^ (dn + 1)), dn + 1))
                              n1c == Wrap(r1b + d1 + s \div (B ^ (dn + 1)))
                          IN  Loop(N2, t1, i - 1, n1c, q \o <<Wrap(qq - 1)>>, D, lab \cup {"addback"} \cup (IF u[5] THEN {"c2"} ELSE {}))
                     ELSE Loop(N1, t1, i - 1, r1b, q \o <<qq>>, D, lab \cup (IF u[5] THEN {"c2"} ELSE {}))

SbDivQr(Nin, D) ==
   LET nn == Len(Nin)  dn == Len(D)
       hi == Sub(Nin, nn - dn, dn)
       qh == IF NatOf(hi) >= NatOf(D) THEN 1 ELSE 0
       N0 == IF qh = 1 THEN Put(Nin, nn - dn, LimbsOf(NatOf(hi) - NatOf(D), dn)) ELSE Nin
       \* np += nn; np -= 2 : np[1] is the top limb, 0-based index nn-1
       res == Loop(N0, nn - 1, nn - dn, N0[nn], <<>>, D, {})
   IN  [qh |-> qh, q |-> res.q, R |-> res.N, lab |-> res.lab]

VARIABLES phase, dval, nval
vars == <<phase, dval, nval>>
Init == phase = 0 /\ dval = 0 /\ nval = 0
P1 == phase = 0 /\ phase' = 1 /\ dval' \in (B ^ DN \div 2)..(B ^ DN - 1) /\ nval' = 0
P2 == phase = 1 /\ phase' = 2 /\ nval' \in 0..(B ^ NN - 1) /\ dval' = dval
Spec == Init /\ [][P1 \/ P2]_vars
RECURSIVE RevNat(_)
RevNat(q) == IF q = <<>> THEN 0 ELSE q[Len(q)] + B * RevNat(SubSeq(q, 1, Len(q) - 1))
Correct ==
   phase = 2 =>
     LET r == SbDivQr(LimbsOf(nval, NN), LimbsOf(dval, DN))
         qv == r.qh * B ^ (NN - DN) + RevNat(r.q)
         rv == NatOf(SubSeq(r.R, 1, DN))
     IN  /\ qv = nval \div dval /\ rv = nval % dval
         /\ (EMITSB /\ r.lab # {}) => PrintT(<<"SBW", nval, dval, r.lab>>)
=============================================================================
