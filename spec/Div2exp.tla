------------------------------- MODULE Div2exp -------------------------------
(***************************************************************************)
(* R2 model for C02: the power-of-two division family at LIMB level         *)
(* (mpz/cfdiv_q_2exp.c, mpz/tdiv_q_2exp.c, mpz/tdiv_r_2exp.c,               *)
(* mpz/cfdiv_r_2exp.c), limb width W bits (B = 2^W).  The code is            *)
(* transcribed step by step on limb sequences: skip limb_cnt whole limbs,    *)
(* mpn_rshift by cnt mod W returning the bits shifted out, strip a top limb  *)
(* that shifted out completely, round by mpn_add_1 with the carry stored in  *)
(* the extra limb; the remainder forms mask the partial limb, normalise and, *)
(* when rounding away from zero, form 2^cnt - r by a two's complement over   *)
(* limb_cnt+1 limbs.  Checked for every u with at most N limbs and every     *)
(* cnt in 0..CMAX against the definitions (floor / ceiling / truncation of   *)
(* u / 2^cnt and the matching remainders), together with: no leading zero    *)
(* limb in the result, every store inside the allocation the code asked for. *)
(* The cases where the rounding increment carries out of an all-ones         *)
(* quotient, where the top limb shifts out completely and where only         *)
(* skipped limbs are non-zero are all inside the range (asserted); the harness  *)
(* driver c02_mpz builds the same classes at the real limb width.  Variants  *)
(* flip one step.                                                            *)
(***************************************************************************)
EXTENDS Naturals, Integers, Sequences, TLC
CONSTANTS W, N, CMAX, Variant
    \* Variant: "ok" | "carry_only_whole_limb" (seed C02b) | "no_top_strip" | "round_skips_ignored" | "r_no_normalize" | "r_no_strip" | "r_fill_short"
B == 2 ^ W
AbsI(x) == IF x < 0 THEN -x ELSE x
RECURSIVE ValOf(_)
ValOf(s) == IF s = <<>> THEN 0 ELSE s[1] + B * ValOf(Tail(s))             \* little endian limbs
RECURSIVE LimbsOf(_)
LimbsOf(v) == IF v = 0 THEN <<>> ELSE <<v % B>> \o LimbsOf(v \div B)      \* normalised
Norm(s) == LimbsOf(ValOf(s))
TopNonZero(s) == s = <<>> \/ s[Len(s)] # 0
Pow2(n) == 2 ^ n

(* mpn_rshift (wp, up, n, c), 0 < c < W: result limbs and the bits shifted out (as the high bits of a limb, non-zero iff any) *)
RShift(up, c) == LET v == ValOf(up) IN [r |-> [i \in 1..Len(up) |-> ((v \div Pow2(c)) \div (B ^ (i - 1))) % B], out |-> (v % Pow2(c)) * Pow2(W - c)]
(* mpn_add_1 (wp, wp, n, 1): n limbs and the carry *)
Add1(wp) == LET v == ValOf(wp) + 1 IN [r |-> [i \in 1..Len(wp) |-> (v \div (B ^ (i - 1))) % B], cy |-> v \div (B ^ Len(wp))]

(* ---- cfdiv_q_2exp: dir = 1 ceiling, -1 floor.  Result [v |-> signed value, wf, alloc_ok] ---- *)
CfdivQ(u, cnt, dir) ==
   LET up == LimbsOf(AbsI(u))  usize == IF u < 0 THEN -Len(up) ELSE Len(up)
       limbcnt == cnt \div W  wsize0 == Len(up) - limbcnt
       sameSign == (usize < 0) = (dir < 0)                               \* (usize ^ dir) >= 0
   IN
   IF wsize0 <= 0 THEN [v |-> IF usize = 0 \/ ~sameSign THEN 0 ELSE dir, wf |-> TRUE, ok |-> TRUE]
   ELSE
     LET alloc == wsize0 + 1
         skipped == SubSeq(up, 1, limbcnt)
         round0 == IF sameSign /\ Variant # "round_skips_ignored" THEN (IF \E i \in 1..limbcnt : skipped[i] # 0 THEN 1 ELSE 0) ELSE 0
         c == cnt % W
         hi == SubSeq(up, limbcnt + 1, Len(up))
         sh == IF c # 0 THEN RShift(hi, c) ELSE [r |-> hi, out |-> 0]
         round == IF round0 # 0 \/ (sameSign /\ sh.out # 0) THEN 1 ELSE 0
         wsize1 == IF c # 0 /\ sh.r[wsize0] = 0 /\ Variant # "no_top_strip" THEN wsize0 - 1 ELSE wsize0
         wp1 == SubSeq(sh.r, 1, wsize1)
         res == IF round # 0
                THEN IF wsize1 # 0
                     THEN LET a == Add1(wp1) IN
                          IF Variant = "carry_only_whole_limb" /\ c # 0 THEN [s |-> a.r, n |-> wsize1, top |-> wsize1]
                          ELSE [s |-> a.r \o <<a.cy>>, n |-> wsize1 + a.cy, top |-> wsize1 + 1]     \* wp[wsize] = cy is stored unconditionally
                     ELSE [s |-> <<1>>, n |-> 1, top |-> 1]
                ELSE [s |-> wp1, n |-> wsize1, top |-> wsize1]
         mag == SubSeq(res.s, 1, res.n)
     IN [v |-> IF usize >= 0 THEN ValOf(mag) ELSE -ValOf(mag), wf |-> TopNonZero(mag), ok |-> res.top <= alloc]

(* ---- tdiv_q_2exp ---- *)
TdivQ(u, cnt) ==
   LET up == LimbsOf(AbsI(u))  limbcnt == cnt \div W  wsize0 == Len(up) - limbcnt IN
   IF wsize0 <= 0 THEN [v |-> 0, wf |-> TRUE, ok |-> TRUE]
   ELSE LET c == cnt % W  hi == SubSeq(up, limbcnt + 1, Len(up))
            r == IF c # 0 THEN RShift(hi, c).r ELSE hi
            wsize1 == IF c # 0 /\ r[wsize0] = 0 /\ Variant # "no_top_strip" THEN wsize0 - 1 ELSE wsize0
            mag == SubSeq(r, 1, wsize1)
        IN [v |-> IF u >= 0 THEN ValOf(mag) ELSE -ValOf(mag), wf |-> TopNonZero(mag), ok |-> TRUE]

(* ---- tdiv_r_2exp: keep the low cnt bits of |u|, sign of u ---- *)
TdivR(u, cnt) ==
   LET up == LimbsOf(AbsI(u))  limbcnt == cnt \div W  c == cnt % W IN
   IF Len(up) <= limbcnt THEN [v |-> u, wf |-> TRUE, ok |-> TRUE]                       \* u is already smaller than 2^cnt
   ELSE LET x == up[limbcnt + 1] % Pow2(c)                                               \* masked partial limb
            low == SubSeq(up, 1, limbcnt)
            s0 == IF x # 0 THEN low \o <<x>> ELSE low
            mag == IF Variant = "r_no_normalize" THEN s0 ELSE Norm(s0)                   \* MPN_NORMALIZE when the partial limb is zero
        IN [v |-> IF u >= 0 THEN ValOf(mag) ELSE -ValOf(mag), wf |-> TopNonZero(mag), ok |-> TRUE]

(* ---- cfdiv_r_2exp: both branches end in "mask the high limb, strip high zeros" over limb_cnt+1 limbs ---- *)
MaskStrip(wp, limbcnt, c, neg) ==      \* wp has limbcnt+1 limbs
   LET hi == wp[limbcnt + 1] % Pow2(c)
       s0 == SubSeq(wp, 1, limbcnt) \o <<hi>>
       mag == IF Variant = "r_no_strip" THEN s0 ELSE Norm(s0)
   IN [v |-> IF neg THEN -ValOf(mag) ELSE ValOf(mag), wf |-> TopNonZero(mag), ok |-> TRUE]
CfdivR(u, cnt, dir) ==
   LET up == LimbsOf(AbsI(u))  usize == IF u < 0 THEN -Len(up) ELSE Len(up)  abs == Len(up)
       sameSign == (usize < 0) = (dir < 0)
       limbcnt == cnt \div W  c == cnt % W
   IN
   IF usize = 0 THEN [v |-> 0, wf |-> TRUE, ok |-> TRUE]
   ELSE IF ~sameSign THEN      \* round toward zero: truncate
          IF abs <= limbcnt THEN [v |-> u, wf |-> TRUE, ok |-> TRUE]
          ELSE MaskStrip(SubSeq(up, 1, limbcnt + 1), limbcnt, c, u < 0)
   ELSE                        \* round away from zero: two's complement if the low part is non-zero
     LET mustNegate == \/ abs <= limbcnt
                       \/ \E i \in 1..limbcnt : up[i] # 0
                       \/ up[limbcnt + 1] % Pow2(c) # 0
     IN IF ~mustNegate THEN [v |-> 0, wf |-> TRUE, ok |-> TRUE]
        ELSE LET i0 == IF abs < limbcnt + 1 THEN abs ELSE limbcnt + 1
                 fillTo == IF Variant = "r_fill_short" THEN limbcnt ELSE limbcnt + 1
                 ones == [i \in 1..(limbcnt + 1) |-> IF i <= i0 THEN (B - 1) - up[i] ELSE IF i <= fillTo THEN B - 1 ELSE 0]
                 inc == (ValOf(ones) + 1) % (B ^ (limbcnt + 1))                                   \* MPN_INCR_U over limb_cnt+1 limbs
                 wp == [i \in 1..(limbcnt + 1) |-> (inc \div (B ^ (i - 1))) % B]
             IN MaskStrip(wp, limbcnt, c, ~(u < 0))                                               \* usize = -usize

FloorDiv(u, d) == IF u >= 0 THEN u \div d ELSE -((-u + d - 1) \div d)
CeilDiv(u, d) == -FloorDiv(-u, d)
TruncDiv(u, d) == IF u >= 0 THEN u \div d ELSE -((-u) \div d)

Us == (-(B ^ N) + 1)..(B ^ N - 1)
Good(r, want) == r.v = want /\ r.wf /\ r.ok
ASSUME \A u \in Us, cnt \in 0..CMAX :
   LET d == Pow2(cnt) IN
   /\ Good(CfdivQ(u, cnt, 1), CeilDiv(u, d))
   /\ Good(CfdivQ(u, cnt, -1), FloorDiv(u, d))
   /\ Good(TdivQ(u, cnt), TruncDiv(u, d))
   /\ Good(TdivR(u, cnt), u - TruncDiv(u, d) * d)
   /\ Good(CfdivR(u, cnt, 1), u - CeilDiv(u, d) * d)
   /\ Good(CfdivR(u, cnt, -1), u - FloorDiv(u, d) * d)
(* the corner classes this range contains (counted, so that a run shows they were exercised): the rounding increment carries
   into a new limb; the top limb shifts out completely; only skipped limbs are non-zero *)
CarryOut(u, cnt) == LET q == AbsI(u) \div Pow2(cnt) IN q > 0 /\ AbsI(u) % Pow2(cnt) # 0 /\ Len(LimbsOf(q + 1)) > Len(LimbsOf(q))
TopOut(u, cnt) == cnt % W # 0 /\ Len(LimbsOf(AbsI(u))) > cnt \div W /\ Len(LimbsOf(AbsI(u) \div Pow2(cnt))) < Len(LimbsOf(AbsI(u))) - cnt \div W
ASSUME /\ \E u \in Us, cnt \in 1..CMAX : CarryOut(u, cnt) /\ TopOut(u, cnt)
       /\ \E u \in Us, cnt \in 1..CMAX : CarryOut(u, cnt) /\ ~TopOut(u, cnt)
ASSUME PrintT(<<"Div2exp", W, N, CMAX, Variant>>)
VARIABLE dummy
Spec == dummy = 0 /\ [][UNCHANGED dummy]_dummy
=============================================================================
