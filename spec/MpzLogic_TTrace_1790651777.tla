---- MODULE MpzLogic_TTrace_1790651777 ----
EXTENDS MpzLogic, Sequences, TLCExt, Toolbox, Naturals, TLC

_expression ==
    LET MpzLogic_TEExpression == INSTANCE MpzLogic_TEExpression
    IN MpzLogic_TEExpression!expression
----

_trace ==
    LET MpzLogic_TETrace == INSTANCE MpzLogic_TETrace
    IN MpzLogic_TETrace!trace
----

_inv ==
    ~(
        TLCGet("level") = Len(_TETrace)
        /\
        phase = (2)
        /\
        args = (<<1, 2, 3>>)
        /\
        allocs = (<<0, 0, 0>>)
        /\
        vals = (<<-5, -3, -2>>)
    )
----

_init ==
    /\ phase = _TETrace[1].phase
    /\ args = _TETrace[1].args
    /\ vals = _TETrace[1].vals
    /\ allocs = _TETrace[1].allocs
----

_next ==
    /\ \E i,j \in DOMAIN _TETrace:
        /\ \/ /\ j = i + 1
              /\ i = TLCGet("level")
        /\ phase  = _TETrace[i].phase
        /\ phase' = _TETrace[j].phase
        /\ args  = _TETrace[i].args
        /\ args' = _TETrace[j].args
        /\ vals  = _TETrace[i].vals
        /\ vals' = _TETrace[j].vals
        /\ allocs  = _TETrace[i].allocs
        /\ allocs' = _TETrace[j].allocs

\* Uncomment the ASSUME below to write the states of the error trace
\* to the given file in Json format. Note that you can pass any tuple
\* to `JsonSerialize`. For example, a sub-sequence of _TETrace.
    \* ASSUME
    \*     LET J == INSTANCE Json
    \*         IN J!JsonSerialize("MpzLogic_TTrace_1790651777.json", _TETrace)

=============================================================================

 Note that you can extract this module `MpzLogic_TEExpression`
  to a dedicated file to reuse `expression` (the module in the 
  dedicated `MpzLogic_TEExpression.tla` file takes precedence 
  over the module `MpzLogic_TEExpression` below).

---- MODULE MpzLogic_TEExpression ----
EXTENDS MpzLogic, Sequences, TLCExt, Toolbox, Naturals, TLC

expression == 
    [
        \* To hide variables of the `MpzLogic` spec from the error trace,
        \* remove the variables below.  The trace will be written in the order
        \* of the fields of this record.
        phase |-> phase
        ,args |-> args
        ,vals |-> vals
        ,allocs |-> allocs
        
        \* Put additional constant-, state-, and action-level expressions here:
        \* ,_stateNumber |-> _TEPosition
        \* ,_phaseUnchanged |-> phase = phase'
        
        \* Format the `phase` variable as Json value.
        \* ,_phaseJson |->
        \*     LET J == INSTANCE Json
        \*     IN J!ToJson(phase)
        
        \* Lastly, you may build expressions over arbitrary sets of states by
        \* leveraging the _TETrace operator.  For example, this is how to
        \* count the number of times a spec variable changed up to the current
        \* state in the trace.
        \* ,_phaseModCount |->
        \*     LET F[s \in DOMAIN _TETrace] ==
        \*         IF s = 1 THEN 0
        \*         ELSE IF _TETrace[s].phase # _TETrace[s-1].phase
        \*             THEN 1 + F[s-1] ELSE F[s-1]
        \*     IN F[_TEPosition - 1]
    ]

=============================================================================



Parsing and semantic processing can take forever if the trace below is long.
 In this case, it is advised to uncomment the module below to deserialize the
 trace from a generated binary file.

\*
\*---- MODULE MpzLogic_TETrace ----
\*EXTENDS MpzLogic, IOUtils, TLC
\*
\*trace == IODeserialize("MpzLogic_TTrace_1790651777.bin", TRUE)
\*
\*=============================================================================
\*

---- MODULE MpzLogic_TETrace ----
EXTENDS MpzLogic, TLC

trace == 
    <<
    ([phase |-> 0,args |-> <<1, 1, 1>>,allocs |-> <<1, 1, 1>>,vals |-> <<0, 0, 0>>]),
    ([phase |-> 1,args |-> <<1, 2, 3>>,allocs |-> <<1, 1, 1>>,vals |-> <<0, 0, 0>>]),
    ([phase |-> 2,args |-> <<1, 2, 3>>,allocs |-> <<0, 0, 0>>,vals |-> <<-5, -3, -2>>])
    >>
----


=============================================================================

---- CONFIG MpzLogic_TTrace_1790651777 ----
CONSTANTS
    B = 4
    V = 5
    Variant = "no_carry_limb"

INVARIANT
    _inv

CHECK_DEADLOCK
    \* CHECK_DEADLOCK off because of PROPERTY or INVARIANT above.
    FALSE

INIT
    _init

NEXT
    _next

CONSTANT
    _TETrace <- _trace

ALIAS
    _expression
=============================================================================
\* Generated on Tue Sep 29 03:16:23 UTC 2026