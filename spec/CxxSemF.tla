------------------------------- MODULE CxxSemF -------------------------------
(***************************************************************************)
(* L2 for C20, mpf_class: "Any expression over mpz_class, mpq_class and     *)
(* mpf_class objects and built-in numbers ... yields exactly the value      *)
(* obtained by evaluating every sub-expression into its own temporary with  *)
(* the corresponding C function."  For floats the value of a temporary      *)
(* depends on its precision; doc/mpir.texi "C++ Interface Floats": "When an *)
(* expression requires the use of temporary intermediate mpf_class values,  *)
(* like f=g*h+x*y, those temporaries will have the same precision as the    *)
(* destination f." and, for constructors, "An mpf_class or expression will  *)
(* give the precision of that value.  The precision of a binary expression  *)
(* is the higher of the two operands."  operator= "only stores a new value, *)
(* it doesn't copy or change the precision of the destination".             *)
(*                                                                         *)
(* The C functions are not functions of their operands in the              *)
(* specification (SemF!PostF is the accuracy bound |R-X| < 2^(2-p)|X| plus  *)
(* the exactness clause), so the harness evaluates the tree a second time   *)
(* with explicit temporaries and C calls and logs the value of every node;  *)
(* the contract is                                                          *)
(*   (1) every node of that evaluation satisfies PostF of its C function on *)
(*       the values of its children (the reference is itself decided by the *)
(*       specification, it is not trusted), every temporary has precision P,*)
(*   (2) the C++ expression produced the root value limb for limb (v, sz,   *)
(*       exp) in a destination of precision P,                              *)
(*   (3) P is what the manual states for the target.                        *)
(* A tree node is <<"v", name>>, <<"si"|"ui", numeral>>, <<"d", fields>>,   *)
(* <<op, x, R>> or <<op, x, y, R>>, R = the logged value of the node        *)
(* [v, sz, exp, prec] as in SemF.                                           *)
(***************************************************************************)
EXTENDS Naturals, Integers, Sequences, BigZ, Dbl, SemF, CxxStream

LOCAL AbsI(i) == IF i < 0 THEN -i ELSE i
IsLeafF(t) == t[1] \in {"v", "si", "ui", "d"}
(* a built-in operand as a float record with the same dyadic value (Dy): the C functions taking an unsigned long / the header's conversion of a
   long or double operand are exact *)
PseudoZ(n) == LET k == ZLimbCount(n) IN [v |-> n, sz |-> IF ZIsNeg(n) THEN -k ELSE k, exp |-> k, prec |-> 2]
PseudoD(d) == LET m == DSigned(d)  e == DExp(d)  r == e % 64  q == (e - r) \div 64 IN [v |-> ZShl(m, r), sz |-> 1, exp |-> q + 1, prec |-> 2]
ValF(t, env) == IF t[1] = "v" THEN env[t[2]] ELSE IF t[1] \in {"si", "ui"} THEN PseudoZ(t[2]) ELSE IF t[1] = "d" THEN PseudoD(t[2]) ELSE t[Len(t)]
CFunF(op) == CASE op = "+" -> "mpf_add" [] op = "-" -> "mpf_sub" [] op = "*" -> "mpf_mul" [] op = "/" -> "mpf_div" [] op = "neg" -> "mpf_neg"
               [] op = "pos" -> "mpf_set" [] op = "abs" -> "mpf_abs" [] op = "sqrt" -> "mpf_sqrt" [] op = "floor" -> "mpf_floor"
               [] op = "ceil" -> "mpf_ceil" [] op = "trunc" -> "mpf_trunc"
WFVal(c) == /\ AbsI(c.sz) <= c.prec + 1 /\ ZLimbCount(c.v) = AbsI(c.sz) /\ (c.sz < 0) = ZIsNeg(c.v) /\ (c.sz = 0 => c.exp = 0)       \* MPIR!WFF without the heap clause
GlF == [defprec |-> 2]
RECURSIVE NodesOK(_, _, _)
NodesOK(t, env, P) ==          \* P: precision in limbs (_mp_prec) of every temporary
   IF IsLeafF(t) THEN TRUE ELSE         \* (IF, not \/: inside an action TLC evaluates every disjunct)
   LET R == t[Len(t)] IN
   /\ R.prec = P /\ WFVal(R)
   /\ IF Len(t) = 3 THEN NodesOK(t[2], env, P) /\ PostF(CFunF(t[1]), <<R, ValF(t[2], env)>>, <<R>>, 0, "0", GlF)
      ELSE NodesOK(t[2], env, P) /\ NodesOK(t[3], env, P) /\ PostF(CFunF(t[1]), <<R, ValF(t[2], env), ValF(t[3], env)>>, <<R>>, 0, "0", GlF)
RECURSIVE MaxPrecF(_, _)
MaxPrecF(t, env) ==            \* highest precision among the mpf_class operands (0 if none)
   IF t[1] = "v" THEN env[t[2]].prec ELSE IF IsLeafF(t) THEN 0
   ELSE IF Len(t) = 3 THEN MaxPrecF(t[2], env) ELSE LET a == MaxPrecF(t[2], env)  b == MaxPrecF(t[3], env) IN IF a > b THEN a ELSE b
SameF(a, b) == a.v = b.v /\ a.sz = b.sz /\ a.exp = b.exp /\ a.prec = b.prec
(* value-valued root.  tgt: "c" constructor mpf_class t(expr); "p64"/"p512" assignment to a fresh variable of that precision; "f"/"h" assignment to
   an operand; "f+" etc. compound assignment (the tree logged is the expanded form).  dprec = mpf_get_prec of the destination before the statement
   (for "c": the precision the harness computed from the operands) *)
CxxFOK(i, o) ==
   LET P == BitsToPrec(i.dprec) IN
   /\ ~IsLeafF(i.tree)
   /\ NodesOK(i.tree, i.env, P)
   /\ SameF(o.r, i.tree[Len(i.tree)])
   /\ o.keep = 1
   /\ (i.tgt = "c" => P = MaxPrecF(i.tree, i.env))
   /\ (i.tgt = "p64" => i.dprec = 64) /\ (i.tgt = "p512" => i.dprec = 512)
   /\ (i.tgt \in {"f", "f+", "f-", "f*"} => P = i.env.f.prec) /\ (i.tgt \in {"h", "h+", "h-", "h*"} => P = i.env.h.prec)
(* int-valued root (comparison operators, cmp, sgn): an operand that is an expression is evaluated into a temporary with the precision of the
   expression; the comparison itself is exact *)
LOCAL SgnI(x) == IF x > 0 THEN 1 ELSE IF x < 0 THEN -1 ELSE 0
CxxFIOK(i, o) ==
   LET t == i.tree  op == t[1]
       side(s) == IF IsLeafF(s) THEN TRUE ELSE NodesOK(s, i.env, MaxPrecF(s, i.env))
   IN  /\ o.keep = 1
       /\ IF op = "sgn" THEN side(t[2]) /\ o.ret = ZSgn(ValF(t[2], i.env).v)
          ELSE /\ side(t[2]) /\ side(t[3])
               /\ LET c == DyCmp(Dy(ValF(t[2], i.env)), Dy(ValF(t[3], i.env))) IN
                  o.ret = (CASE op = "cmp" -> c [] op = "<" -> IF c < 0 THEN 1 ELSE 0 [] op = ">" -> IF c > 0 THEN 1 ELSE 0
                             [] op = "==" -> IF c = 0 THEN 1 ELSE 0 [] op = "!=" -> IF c # 0 THEN 1 ELSE 0
                             [] op = "<=" -> IF c <= 0 THEN 1 ELSE 0 [] op = ">=" -> IF c >= 0 THEN 1 ELSE 0)
(* extraction of an mpf_class (field grammar: CxxStream!FParse): status, position, and the value mpf_set_str gives on the field (SemF!SetStrOK:
   within the accuracy bound of the destination, exact when it fits); the standard library reads the same field as a double *)
CxxIstreamFOK(i, o) ==
   LET p == FParse(i.s, i.skipws)  pr == ParseFlt(p.fld, 10) IN
   /\ (o.ok = 1) = p.ok /\ o.pos = p.n
   /\ (p.ok => /\ pr.ok /\ WFVal(o.f) /\ SetStrOK(Dy(o.f), pr, PrecBits(o.f))
               /\ o.lok = 1 /\ o.lpos = o.pos)
FunsCxxF == {"cxx_f", "cxx_fi", "cxx_istream_f"}
PostCxxF(f, i, o) == IF f = "cxx_f" THEN CxxFOK(i, o) ELSE IF f = "cxx_fi" THEN CxxFIOK(i, o) ELSE CxxIstreamFOK(i, o)
=============================================================================
