SPECIFICATION MSpec
CONSTANTS NZ = 2 NQ = 1 NF = 1 NR = 1 MAXID = 4 DEPTH = 3
  VALS = {"1", "-2"}
INVARIANT HeapIdsUnique
INVARIANT OwnersHoldLiveBlocks
INVARIANT NoLeakOutsideCalls
INVARIANT LiveWellFormed
CHECK_DEADLOCK FALSE
