---- MODULE MC_Machine_TTrace_1790664407 ----
EXTENDS Sequences, TLCExt, Toolbox, MC_Machine, Naturals, TLC

_expression ==
    LET MC_Machine_TEExpression == INSTANCE MC_Machine_TEExpression
    IN MC_Machine_TEExpression!expression
----

_trace ==
    LET MC_Machine_TETrace == INSTANCE MC_Machine_TETrace
    IN MC_Machine_TETrace!trace
----

_inv ==
    ~(
        TLCGet("level") = Len(_TETrace)
        /\
        rs = ((0 :> [live |-> FALSE, blks |-> {}, key |-> <<>>]))
        /\
        qs = ((0 :> [live |-> FALSE, d |-> [v |-> "0", sz |-> 0, live |-> FALSE, al |-> 0, blk |-> -1], n |-> [v |-> "0", sz |-> 0, live |-> FALSE, al |-> 0, blk |-> -1]]))
        /\
        gl = ([defprec |-> 2])
        /\
        held = ({})
        /\
        memo = ({})
        /\
        fs = ((0 :> [v |-> "0", sz |-> 0, live |-> FALSE, blk |-> -1, exp |-> 0, prec |-> 0]))
        /\
        msteps = (0)
        /\
        ncalls = (2)
        /\
        tainted = (FALSE)
        /\
        zs = ((0 :> [v |-> "0", sz |-> 0, live |-> TRUE, al |-> 1, blk |-> 2] @@ 1 :> [v |-> "0", sz |-> 0, live |-> FALSE, al |-> 0, blk |-> -1]))
        /\
        inCall = ("")
        /\
        heap = ({})
        /\
        pend = ([f |-> "", a |-> <<>>])
    )
----

_init ==
    /\ heap = _TETrace[1].heap
    /\ zs = _TETrace[1].zs
    /\ fs = _TETrace[1].fs
    /\ gl = _TETrace[1].gl
    /\ pend = _TETrace[1].pend
    /\ tainted = _TETrace[1].tainted
    /\ held = _TETrace[1].held
    /\ ncalls = _TETrace[1].ncalls
    /\ inCall = _TETrace[1].inCall
    /\ qs = _TETrace[1].qs
    /\ rs = _TETrace[1].rs
    /\ memo = _TETrace[1].memo
    /\ msteps = _TETrace[1].msteps
----

_next ==
    /\ \E i,j \in DOMAIN _TETrace:
        /\ \/ /\ j = i + 1
              /\ i = TLCGet("level")
        /\ heap  = _TETrace[i].heap
        /\ heap' = _TETrace[j].heap
        /\ zs  = _TETrace[i].zs
        /\ zs' = _TETrace[j].zs
        /\ fs  = _TETrace[i].fs
        /\ fs' = _TETrace[j].fs
        /\ gl  = _TETrace[i].gl
        /\ gl' = _TETrace[j].gl
        /\ pend  = _TETrace[i].pend
        /\ pend' = _TETrace[j].pend
        /\ tainted  = _TETrace[i].tainted
        /\ tainted' = _TETrace[j].tainted
        /\ held  = _TETrace[i].held
        /\ held' = _TETrace[j].held
        /\ ncalls  = _TETrace[i].ncalls
        /\ ncalls' = _TETrace[j].ncalls
        /\ inCall  = _TETrace[i].inCall
        /\ inCall' = _TETrace[j].inCall
        /\ qs  = _TETrace[i].qs
        /\ qs' = _TETrace[j].qs
        /\ rs  = _TETrace[i].rs
        /\ rs' = _TETrace[j].rs
        /\ memo  = _TETrace[i].memo
        /\ memo' = _TETrace[j].memo
        /\ msteps  = _TETrace[i].msteps
        /\ msteps' = _TETrace[j].msteps

\* Uncomment the ASSUME below to write the states of the error trace
\* to the given file in Json format. Note that you can pass any tuple
\* to `JsonSerialize`. For example, a sub-sequence of _TETrace.
    \* ASSUME
    \*     LET J == INSTANCE Json
    \*         IN J!JsonSerialize("MC_Machine_TTrace_1790664407.json", _TETrace)

=============================================================================

 Note that you can extract this module `MC_Machine_TEExpression`
  to a dedicated file to reuse `expression` (the module in the 
  dedicated `MC_Machine_TEExpression.tla` file takes precedence 
  over the module `MC_Machine_TEExpression` below).

---- MODULE MC_Machine_TEExpression ----
EXTENDS Sequences, TLCExt, Toolbox, MC_Machine, Naturals, TLC

expression == 
    [
        \* To hide variables of the `MC_Machine` spec from the error trace,
        \* remove the variables below.  The trace will be written in the order
        \* of the fields of this record.
        heap |-> heap
        ,zs |-> zs
        ,fs |-> fs
        ,gl |-> gl
        ,pend |-> pend
        ,tainted |-> tainted
        ,held |-> held
        ,ncalls |-> ncalls
        ,inCall |-> inCall
        ,qs |-> qs
        ,rs |-> rs
        ,memo |-> memo
        ,msteps |-> msteps
        
        \* Put additional constant-, state-, and action-level expressions here:
        \* ,_stateNumber |-> _TEPosition
        \* ,_heapUnchanged |-> heap = heap'
        
        \* Format the `heap` variable as Json value.
        \* ,_heapJson |->
        \*     LET J == INSTANCE Json
        \*     IN J!ToJson(heap)
        
        \* Lastly, you may build expressions over arbitrary sets of states by
        \* leveraging the _TETrace operator.  For example, this is how to
        \* count the number of times a spec variable changed up to the current
        \* state in the trace.
        \* ,_heapModCount |->
        \*     LET F[s \in DOMAIN _TETrace] ==
        \*         IF s = 1 THEN 0
        \*         ELSE IF _TETrace[s].heap # _TETrace[s-1].heap
        \*             THEN 1 + F[s-1] ELSE F[s-1]
        \*     IN F[_TEPosition - 1]
    ]

=============================================================================



Parsing and semantic processing can take forever if the trace below is long.
 In this case, it is advised to uncomment the module below to deserialize the
 trace from a generated binary file.

\*
\*---- MODULE MC_Machine_TETrace ----
\*EXTENDS IOUtils, MC_Machine, TLC
\*
\*trace == IODeserialize("MC_Machine_TTrace_1790664407.bin", TRUE)
\*
\*=============================================================================
\*

---- MODULE MC_Machine_TETrace ----
EXTENDS MC_Machine, TLC

trace == 
    <<
    ([rs |-> (0 :> [live |-> FALSE, blks |-> {}, key |-> <<>>]),qs |-> (0 :> [live |-> FALSE, d |-> [v |-> "0", sz |-> 0, live |-> FALSE, al |-> 0, blk |-> -1], n |-> [v |-> "0", sz |-> 0, live |-> FALSE, al |-> 0, blk |-> -1]]),gl |-> [defprec |-> 2],held |-> {},memo |-> {},fs |-> (0 :> [v |-> "0", sz |-> 0, live |-> FALSE, blk |-> -1, exp |-> 0, prec |-> 0]),msteps |-> 0,ncalls |-> 0,tainted |-> FALSE,zs |-> (0 :> [v |-> "0", sz |-> 0, live |-> FALSE, al |-> 0, blk |-> -1] @@ 1 :> [v |-> "0", sz |-> 0, live |-> FALSE, al |-> 0, blk |-> -1]),inCall |-> "",heap |-> {},pend |-> [f |-> "", a |-> <<>>]]),
    ([rs |-> (0 :> [live |-> FALSE, blks |-> {}, key |-> <<>>]),qs |-> (0 :> [live |-> FALSE, d |-> [v |-> "0", sz |-> 0, live |-> FALSE, al |-> 0, blk |-> -1], n |-> [v |-> "0", sz |-> 0, live |-> FALSE, al |-> 0, blk |-> -1]]),gl |-> [defprec |-> 2],held |-> {},memo |-> {},fs |-> (0 :> [v |-> "0", sz |-> 0, live |-> FALSE, blk |-> -1, exp |-> 0, prec |-> 0]),msteps |-> 0,ncalls |-> 0,tainted |-> FALSE,zs |-> (0 :> [v |-> "0", sz |-> 0, live |-> FALSE, al |-> 0, blk |-> -1] @@ 1 :> [v |-> "0", sz |-> 0, live |-> FALSE, al |-> 0, blk |-> -1]),inCall |-> "mpz_init",heap |-> {},pend |-> [f |-> "mpz_init", a |-> <<0>>]]),
    ([rs |-> (0 :> [live |-> FALSE, blks |-> {}, key |-> <<>>]),qs |-> (0 :> [live |-> FALSE, d |-> [v |-> "0", sz |-> 0, live |-> FALSE, al |-> 0, blk |-> -1], n |-> [v |-> "0", sz |-> 0, live |-> FALSE, al |-> 0, blk |-> -1]]),gl |-> [defprec |-> 2],held |-> {},memo |-> {},fs |-> (0 :> [v |-> "0", sz |-> 0, live |-> FALSE, blk |-> -1, exp |-> 0, prec |-> 0]),msteps |-> 1,ncalls |-> 0,tainted |-> FALSE,zs |-> (0 :> [v |-> "0", sz |-> 0, live |-> FALSE, al |-> 0, blk |-> -1] @@ 1 :> [v |-> "0", sz |-> 0, live |-> FALSE, al |-> 0, blk |-> -1]),inCall |-> "mpz_init",heap |-> {<<2, 8>>},pend |-> [f |-> "mpz_init", a |-> <<0>>]]),
    ([rs |-> (0 :> [live |-> FALSE, blks |-> {}, key |-> <<>>]),qs |-> (0 :> [live |-> FALSE, d |-> [v |-> "0", sz |-> 0, live |-> FALSE, al |-> 0, blk |-> -1], n |-> [v |-> "0", sz |-> 0, live |-> FALSE, al |-> 0, blk |-> -1]]),gl |-> [defprec |-> 2],held |-> {},memo |-> {},fs |-> (0 :> [v |-> "0", sz |-> 0, live |-> FALSE, blk |-> -1, exp |-> 0, prec |-> 0]),msteps |-> 0,ncalls |-> 1,tainted |-> FALSE,zs |-> (0 :> [v |-> "0", sz |-> 0, live |-> TRUE, al |-> 1, blk |-> 2] @@ 1 :> [v |-> "0", sz |-> 0, live |-> FALSE, al |-> 0, blk |-> -1]),inCall |-> "",heap |-> {<<2, 8>>},pend |-> [f |-> "", a |-> <<>>]]),
    ([rs |-> (0 :> [live |-> FALSE, blks |-> {}, key |-> <<>>]),qs |-> (0 :> [live |-> FALSE, d |-> [v |-> "0", sz |-> 0, live |-> FALSE, al |-> 0, blk |-> -1], n |-> [v |-> "0", sz |-> 0, live |-> FALSE, al |-> 0, blk |-> -1]]),gl |-> [defprec |-> 2],held |-> {},memo |-> {},fs |-> (0 :> [v |-> "0", sz |-> 0, live |-> FALSE, blk |-> -1, exp |-> 0, prec |-> 0]),msteps |-> 0,ncalls |-> 1,tainted |-> FALSE,zs |-> (0 :> [v |-> "0", sz |-> 0, live |-> TRUE, al |-> 1, blk |-> 2] @@ 1 :> [v |-> "0", sz |-> 0, live |-> FALSE, al |-> 0, blk |-> -1]),inCall |-> "mpz_init",heap |-> {<<2, 8>>},pend |-> [f |-> "mpz_init", a |-> <<0>>]]),
    ([rs |-> (0 :> [live |-> FALSE, blks |-> {}, key |-> <<>>]),qs |-> (0 :> [live |-> FALSE, d |-> [v |-> "0", sz |-> 0, live |-> FALSE, al |-> 0, blk |-> -1], n |-> [v |-> "0", sz |-> 0, live |-> FALSE, al |-> 0, blk |-> -1]]),gl |-> [defprec |-> 2],held |-> {},memo |-> {},fs |-> (0 :> [v |-> "0", sz |-> 0, live |-> FALSE, blk |-> -1, exp |-> 0, prec |-> 0]),msteps |-> 1,ncalls |-> 1,tainted |-> FALSE,zs |-> (0 :> [v |-> "0", sz |-> 0, live |-> TRUE, al |-> 1, blk |-> 2] @@ 1 :> [v |-> "0", sz |-> 0, live |-> FALSE, al |-> 0, blk |-> -1]),inCall |-> "mpz_init",heap |-> {},pend |-> [f |-> "mpz_init", a |-> <<0>>]]),
    ([rs |-> (0 :> [live |-> FALSE, blks |-> {}, key |-> <<>>]),qs |-> (0 :> [live |-> FALSE, d |-> [v |-> "0", sz |-> 0, live |-> FALSE, al |-> 0, blk |-> -1], n |-> [v |-> "0", sz |-> 0, live |-> FALSE, al |-> 0, blk |-> -1]]),gl |-> [defprec |-> 2],held |-> {},memo |-> {},fs |-> (0 :> [v |-> "0", sz |-> 0, live |-> FALSE, blk |-> -1, exp |-> 0, prec |-> 0]),msteps |-> 0,ncalls |-> 2,tainted |-> FALSE,zs |-> (0 :> [v |-> "0", sz |-> 0, live |-> TRUE, al |-> 1, blk |-> 2] @@ 1 :> [v |-> "0", sz |-> 0, live |-> FALSE, al |-> 0, blk |-> -1]),inCall |-> "",heap |-> {},pend |-> [f |-> "", a |-> <<>>]])
    >>
----


=============================================================================

---- CONFIG MC_Machine_TTrace_1790664407 ----
CONSTANTS
    NZ = 2
    NQ = 1
    NF = 1
    NR = 1
    MAXID = 4
    DEPTH = 3
    VALS = { "1" , "-2" }

INVARIANT
    _inv

CHECK_DEADLOCK
    \* CHECK_DEADLOCK off because of PROPERTY or INVARIANT above.
    FALSE

INIT
    _init

NEXT
    _next

CONSTANT
    _TETrace <- _trace

ALIAS
    _expression
=============================================================================
\* Generated on Tue Sep 29 06:48:48 UTC 2026