------------------------------ MODULE MpfContract ------------------------------
(* R2 model for C13: the predicates SemF applies to float results, checked against their meaning on small values:      *)
(* Close(R,X,p) <=> |R-X| < 2^(2-p)|X| ; AccurateQuot for every quotient of small integers: the truncated quotient     *)
(* with p+2 bits is accepted, a quotient off by 2^(3-p) relative is rejected, exact quotients must be hit exactly;     *)
(* AccurateSqrt likewise for floor square roots at p+2 bits.                                                           *)
EXTENDS Naturals, Integers, Sequences, TLC, SemF
CONSTANT P
Z(i) == ZFromInt(i)
D(m, e) == <<Z(m), e>>
(* truncated quotient of a/b with k fractional bits, as a dyadic *)
TQ(a, b, k) == <<ZTDivQ(ZShl(Z(a), k), Z(b)), -k>>
Vals == 1..40
ASSUME \A a \in Vals, b \in Vals :
   LET k == P + 6
       good == TQ(a, b, k)                               \* relative error < 2^-(P+5)
       bad  == DyAdd(good, DyMul(good, D(1, 3 - P)))      \* relative error exactly 2^(3-P)
   IN  /\ AccurateQuot(good, D(a, 0), D(b, 0), P, FALSE)
       /\ ~AccurateQuot(bad, D(a, 0), D(b, 0), P, FALSE)
       /\ (a % b = 0) => AccurateQuot(D(a \div b, 0), D(a, 0), D(b, 0), P, TRUE) /\ ~AccurateQuot(DyAdd(D(a \div b, 0), D(1, -(P + 3))), D(a, 0), D(b, 0), P, TRUE)
ASSUME \A a \in Vals :
   LET k == 2 * (P + 6)
       s == <<ZISqrt(ZShl(Z(a), k)), -(P + 6)>>
       bad == DyAdd(s, DyMul(s, D(1, 3 - P)))
   IN  /\ AccurateSqrt(s, D(a, 0), P, FALSE) /\ ~AccurateSqrt(bad, D(a, 0), P, FALSE)
ASSUME \A x \in (-30)..30, r \in (-30)..30 :
   Close(D(r, 0), D(x, 0), P) = (IF x = 0 THEN r = 0 ELSE (IF r - x < 0 THEN x - r ELSE r - x) * 2 ^ (P - 2) < (IF x < 0 THEN -x ELSE x))
ASSUME \A m \in 1..200 : DySigBits(D(m, 3)) = (CHOOSE n \in 1..9 : LET o == (CHOOSE t \in 1..200 : \E j \in 0..8 : t * 2 ^ j = m /\ t % 2 = 1) IN 2 ^ (n - 1) <= o /\ o < 2 ^ n)
ASSUME PrintT(<<"MpfContract", P>>)
VARIABLE dummy
Spec == dummy = 0 /\ [][UNCHANGED dummy]_dummy
=============================================================================
