-------------------------------- MODULE SemZ --------------------------------
(***************************************************************************)
(* L2: what the result of each mpz function IS (from doc/mpir.texi).       *)
(*                                                                         *)
(* PostZ(f, A, O, r, x) is the post-condition of a completed call:         *)
(*   A[k]  pre-state value of argument k (hex numeral for integers and     *)
(*         wide scalars, TLC int for small ints, <<s,e,hi,lo>> for         *)
(*         doubles, a string for STR, <<num,den>> for rationals)           *)
(*   O[k]  post-state record [v, al, sz] of every OUTPUT argument          *)
(*   r     the returned value, x the auxiliary returned integer            *)
(* SigZ(f, A) says when the call may raise the arithmetic signal instead.  *)
(* Functions whose result is defined implicitly are stated as predicates   *)
(* on the logged result.                                                   *)
(***************************************************************************)
EXTENDS Naturals, Integers, Sequences, BigZ, Dbl

UMAX == "ffffffffffffffff"
U64 == "10000000000000000"
LOCAL InRange(z, lo, hi) == ZLe(lo, z) /\ ZLe(z, hi)
LOCAL Bool(r, c) == (r # 0) = c
LOCAL SgnI(i) == IF i > 0 THEN 1 ELSE IF i < 0 THEN -1 ELSE 0
LOCAL I(h) == ZToInt(h)                 \* small scalar from its hex numeral

(* --- contracts used by several functions --- *)
GcdextOK(a, b, g, s, t, haveT) ==
   \* g = gcd(a, b) without computing a gcd: g >= 0 divides both and is an integer combination of both (any common divisor then divides g)
   /\ ~ZIsNeg(g) /\ ZDivides(g, a) /\ ZDivides(g, b) /\ (g = "0" => (a = "0" /\ b = "0"))
   /\ (haveT => ZAdd(ZMul(a, s), ZMul(b, t)) = g)
   /\ (~haveT => (b = "0" /\ ZMul(a, s) = g) \/ (b # "0" /\ ZDivides(b, ZSub(g, ZMul(a, s)))))
   /\ IF ZAbs(a) = ZAbs(b)
      THEN s = "0" /\ (haveT => t = ZFromInt(ZSgn(b)))
      ELSE LET g2 == ZShl(g, 1) IN
           /\ IF b = "0" \/ ZAbs(b) = g2 THEN s = ZFromInt(ZSgn(a)) ELSE ZLt(ZMul(g2, ZAbs(s)), ZAbs(b))
           /\ haveT => IF a = "0" \/ ZAbs(a) = g2 THEN t = ZFromInt(ZSgn(b)) ELSE ZLt(ZMul(g2, ZAbs(t)), ZAbs(a))

RECURSIVE PerfPowFrom(_, _, _)
PerfPowFrom(u, b, bl) ==      \* some exponent b' in b..bl (odd only when u < 0) has an exact root
   IF b > bl THEN FALSE
   ELSE ((~ZIsNeg(u) \/ b % 2 = 1) /\ ZPow(ZIRoot(u, b), b) = u) \/ PerfPowFrom(u, b + 1, bl)
IsPerfectPower(u) == u \in {"0", "1", "-1"} \/ PerfPowFrom(u, 2, ZBitLen(u))

ScanFrom(z, start, one) ==    \* index of first 1 (one=TRUE) / 0 bit at or above start; UMAX if none
   LET y == IF one THEN ZShr(z, start) ELSE ZCom(ZShr(z, start))
   IN  IF y = "0" THEN UMAX ELSE ZFromInt(start + ZCtz(y))

SizeInBaseOK(z, b, n) ==      \* n as TLC int
   LET a == ZAbs(z) IN
   IF a = "0" THEN n = 1
   ELSE IF b \in {2, 4, 8, 16, 32} THEN
        LET k == CASE b = 2 -> 1 [] b = 4 -> 2 [] b = 8 -> 3 [] b = 16 -> 4 [] b = 32 -> 5
        IN  n = (ZBitLen(a) + k - 1) \div k
   ELSE /\ ZLt(a, ZPow(ZFromInt(b), n))
        /\ (n >= 2 => ZLe(ZPow(ZFromInt(b), n - 2), a))

Alpha36L == "0123456789abcdefghijklmnopqrstuvwxyz"
Alpha36U == "0123456789ABCDEFGHIJKLMNOPQRSTUVWXYZ"
Alpha62 == "0123456789ABCDEFGHIJKLMNOPQRSTUVWXYZabcdefghijklmnopqrstuvwxyz"
(* the text mpz_get_str / mpz_out_str produce for base b in 2..62 or -2..-36 *)
GetStrText(z, b) ==
   LET ab == IF b < 0 THEN -b ELSE b
       al == IF b < 0 THEN Alpha36U ELSE IF b <= 36 THEN Alpha36L ELSE Alpha62
   IN  (IF ZIsNeg(z) THEN "-" ELSE "") \o ZDigits(z, ab, al)

PrimeContract(n, r, reps) ==          \* n >= 0
   LET p == ZIsPrime(n) IN
   /\ (p => r # 0) /\ (r = 2 => p) /\ ((~p /\ reps >= 25) => r = 0)

(* --- which calls may raise the arithmetic signal (division by zero, root of a negative) --- *)
SigZ(f, A) ==
   CASE f \in {"mpz_tdiv_q", "mpz_tdiv_r", "mpz_fdiv_q", "mpz_fdiv_r", "mpz_cdiv_q", "mpz_cdiv_r", "mpz_mod",
               "mpz_divexact", "mpz_tdiv_q_ui", "mpz_tdiv_r_ui", "mpz_fdiv_q_ui", "mpz_fdiv_r_ui",
               "mpz_cdiv_q_ui", "mpz_cdiv_r_ui", "mpz_mod_ui", "mpz_divexact_ui"} -> A[3] = "0"
     [] f \in {"mpz_tdiv_qr", "mpz_fdiv_qr", "mpz_cdiv_qr", "mpz_tdiv_qr_ui", "mpz_fdiv_qr_ui", "mpz_cdiv_qr_ui"} -> A[4] = "0"
     [] f \in {"mpz_tdiv_ui", "mpz_fdiv_ui", "mpz_cdiv_ui"} -> A[2] = "0"
     [] f = "mpz_powm" -> A[4] = "0" \/ (ZIsNeg(A[3]) /\ ZGcd(A[2], A[4]) # "1")
     [] f = "mpz_powm_ui" -> A[4] = "0"
     [] f \in {"mpz_sqrt"} -> ZIsNeg(A[2])
     [] f \in {"mpz_sqrtrem"} -> ZIsNeg(A[3])
     [] f \in {"mpz_root", "mpz_nthroot"} -> A[3] = "0" \/ (ZIsNeg(A[2]) /\ ~ZTestBit(A[3], 0))
     [] f = "mpz_rootrem" -> A[4] = "0" \/ (ZIsNeg(A[3]) /\ ~ZTestBit(A[4], 0))
     [] f = "mpz_remove" -> ZLe(A[3], "1")
     [] f = "mpz_invert" -> A[3] = "0"
     [] OTHER -> FALSE

(* ---- scalar arguments at the top of their type (counts, indices, exponents of 2^30 and more) ----                                                       *)
(* TLC integers are 32-bit and 2^(2^30) is not a number anyone wants to build; for such scalars the documented result has a closed form as long as every     *)
(* integer operand is shorter than 2^30 bits (all recorded operands are).  BigArg says which argument positions carry such a scalar.                         *)
LOCAL Big(h) == ZBitLen(h) > 30
RECURSIVE MFacZ(_, _)
MFacZ(nz, mz) == IF ZLe(nz, "0") THEN "1" ELSE ZMul(nz, MFacZ(ZSub(nz, mz), mz))        \* n (n-m) (n-2m) ... over the positive terms (the driver keeps it to a few)
BigScalar(f, A) ==
   CASE f \in {"mpz_tdiv_q_2exp", "mpz_tdiv_r_2exp", "mpz_fdiv_q_2exp", "mpz_cdiv_q_2exp", "mpz_root", "mpz_nthroot"} -> Big(A[3])
     [] f \in {"mpz_divisible_2exp_p", "mpz_tstbit", "mpz_scan0", "mpz_scan1", "mpz_clrbit"} -> Big(A[2])
     [] f = "mpz_congruent_2exp_p" -> Big(A[3])
     [] f = "mpz_rootrem" -> Big(A[4])
     [] f \in {"mpz_mfac_uiui", "mpz_bin_uiui"} -> Big(A[2]) \/ Big(A[3])
     [] f = "mpz_ui_pow_ui" -> Big(A[3])
     [] OTHER -> FALSE
PostZBig(f, A, O, r) ==
   CASE f = "mpz_tdiv_q_2exp" -> O[1].v = "0"
     [] f = "mpz_tdiv_r_2exp" -> O[1].v = A[2]
     [] f = "mpz_fdiv_q_2exp" -> O[1].v = (IF ZIsNeg(A[2]) THEN "-1" ELSE "0")
     [] f = "mpz_cdiv_q_2exp" -> O[1].v = (IF ZSgn(A[2]) > 0 THEN "1" ELSE "0")
     [] f = "mpz_divisible_2exp_p" -> (r # 0) = (A[1] = "0")
     [] f = "mpz_congruent_2exp_p" -> (r # 0) = (A[1] = A[2])
     [] f = "mpz_tstbit" -> (r # 0) = ZIsNeg(A[1])                                   \* the sign extension
     [] f = "mpz_scan0" -> r = (IF ZIsNeg(A[1]) THEN UMAX ELSE A[2])                   \* non-negative: every bit up there is 0, the first one is at the start index itself
     [] f = "mpz_scan1" -> r = (IF ZIsNeg(A[1]) THEN A[2] ELSE UMAX)
     [] f = "mpz_clrbit" -> ~ZIsNeg(A[1]) /\ O[1].v = A[1]                            \* (driven for non-negative values only)
     [] f \in {"mpz_root", "mpz_nthroot"} ->                                          \* index above the bit length: the root is the sign
           /\ O[1].v = ZFromInt(ZSgn(A[2])) /\ (f = "mpz_root" => ((r # 0) = ZLe(ZAbs(A[2]), "1")))
     [] f = "mpz_rootrem" -> O[1].v = ZFromInt(ZSgn(A[3])) /\ O[2].v = ZSub(A[3], O[1].v)
     [] f = "mpz_mfac_uiui" -> O[1].v = (IF A[2] = "0" THEN "1" ELSE MFacZ(A[2], A[3]))
     [] f = "mpz_bin_uiui" -> O[1].v = (IF ZLt(A[2], A[3]) THEN "0" ELSE ZBin(A[2], ZMin(A[3], ZSub(A[2], A[3]))))     \* the driver keeps min(k, n-k) <= 2
     [] f = "mpz_ui_pow_ui" -> A[2] \in {"0", "1"} /\ O[1].v = A[2]                    \* (driven with bases 0 and 1 only)

PostZ(f, A, O, r, x) ==
   IF BigScalar(f, A) THEN PostZBig(f, A, O, r) ELSE
   CASE \* ---- lifecycle
        f = "mpz_init" -> O[1].v = "0"
     [] f = "mpz_init2" -> O[1].v = "0" /\ O[1].al * 64 >= I(A[2])
     [] f = "mpz_clear" -> TRUE
     [] f = "mpz_realloc2" -> /\ O[1].al * 64 >= I(A[2]) /\ O[1].al >= 1
                              /\ O[1].v = (IF ZBitLen(A[1]) <= O[1].al * 64 THEN A[1] ELSE "0")
     [] f = "mpz_realloc" ->      \* _mpz_realloc: exactly max(n,1) limbs; the value is kept if it fits, otherwise 0
           /\ O[1].al = (IF I(A[2]) < 1 THEN 1 ELSE I(A[2]))
           /\ O[1].v = (IF ZLimbCount(A[1]) <= O[1].al THEN A[1] ELSE "0")
     [] f = "mpz_inits" -> \A k \in 1..3 : O[k].v = "0"
     [] f = "mpz_clears" -> TRUE
        \* ---- limb-level access (the documented protocols, each run as one step by the harness)
     [] f = "mpz_getlimbn" -> r = ZLowBits(ZShr(ZAbs(A[1]), 64 * I(A[2])), 64)
     [] f = "mpz_limbs_read" -> r = ZLowBits(ZShr(ZAbs(A[1]), 64 * I(A[2])), 64)          \* limb k < mpz_size of the array returned
     [] f = "mpz_limbs_write_finish" ->     \* limbs_write(n + extra), store |src| and extra zero limbs, limbs_finish(+-(n + extra))
           /\ O[1].v = (IF A[4] # 0 THEN ZNeg(ZAbs(A[2])) ELSE ZAbs(A[2]))
           /\ O[1].al >= ZLimbCount(A[2]) + I(A[3])
     [] f = "mpz_limbs_modify_finish" ->    \* limbs_modify(n + extra) keeps the n old limbs; top new limb := u; limbs_finish
           LET n == ZLimbCount(A[1])  ex == I(A[2])
               mag == IF ex = 0 THEN ZAbs(A[1]) ELSE ZAdd(ZAbs(A[1]), ZShl(A[3], 64 * (n + ex - 1)))
           IN  /\ O[1].v = (IF ZIsNeg(A[1]) THEN ZNeg(mag) ELSE mag)
               /\ O[1].al >= n + ex
     [] f = "mpz_roinit_n_add" -> O[1].v = ZAdd(A[2], A[3])      \* a read-only integer made from a limb array with extra high zero limbs, used as an operand
     [] f \in {"mpz_init_set", "mpz_set"} -> O[1].v = A[2]
     [] f \in {"mpz_init_set_ui", "mpz_set_ui", "mpz_set_ux", "mpz_init_set_si", "mpz_set_si", "mpz_set_sx", "mpz_init_set_ux", "mpz_init_set_sx"} -> O[1].v = A[2]
     [] f \in {"mpz_init_set_d", "mpz_set_d"} -> O[1].v = DTruncZ(A[2])
     [] f = "mpz_swap" -> O[1].v = A[2] /\ O[2].v = A[1]
     [] f = "mpz_set_q" -> O[1].v = ZTDivQ(A[2][1], A[2][2])
        \* ---- conversions out
     [] f \in {"mpz_get_ui", "mpz_get_ux"} -> r = ZLowBits(ZAbs(A[1]), 64)
     [] f \in {"mpz_get_si", "mpz_get_sx"} ->
           IF InRange(A[1], "-8000000000000000", "7fffffffffffffff") THEN r = A[1]
           ELSE TRUE      \* manual: "the result is probably not very useful"
     [] f = "mpz_get_d" -> IF ZBitLen(A[1]) <= 1024 THEN DIsTruncOfZ(r, A[1]) ELSE TRUE   \* overflow is system dependent
     [] f = "mpz_get_d_2exp" ->
           IF A[1] = "0" THEN DIsZero(r) /\ x = "0"
           ELSE LET a == ZAbs(A[1])  bl == ZBitLen(a)
                    m == IF bl >= 53 THEN ZShr(a, bl - 53) ELSE ZShl(a, 53 - bl)
                IN  /\ DIsFinite(r) /\ DMant(r) = m /\ DExp(r) = -53 /\ r[1] = (IF ZIsNeg(A[1]) THEN 1 ELSE 0)
                    /\ x = ZFromInt(bl)
     [] f \in {"mpz_get_str", "mpz_get_str_buf"} -> r.s = GetStrText(A[2], A[1])      \* _buf: into a caller buffer of exactly sizeinbase + 2 bytes
     [] f = "mpz_sizeinbase" -> SizeInBaseOK(A[1], A[2], I(r))
     [] f = "mpz_size" -> r = ZFromInt(ZLimbCount(A[1]))
     [] f \in {"mpz_fits_ulong_p", "mpz_fits_ui_p"} -> Bool(r, InRange(A[1], "0", UMAX))
     [] f \in {"mpz_fits_slong_p", "mpz_fits_si_p"} -> Bool(r, InRange(A[1], "-8000000000000000", "7fffffffffffffff"))
     [] f = "mpz_fits_uint_p" -> Bool(r, InRange(A[1], "0", "ffffffff"))
     [] f = "mpz_fits_sint_p" -> Bool(r, InRange(A[1], "-80000000", "7fffffff"))
     [] f = "mpz_fits_ushort_p" -> Bool(r, InRange(A[1], "0", "ffff"))
     [] f = "mpz_fits_sshort_p" -> Bool(r, InRange(A[1], "-8000", "7fff"))
        \* ---- arithmetic
     [] f \in {"mpz_add", "mpz_add_ui"} -> O[1].v = ZAdd(A[2], A[3])
     [] f \in {"mpz_sub", "mpz_sub_ui", "mpz_ui_sub"} -> O[1].v = ZSub(A[2], A[3])
     [] f \in {"mpz_mul", "mpz_mul_ui", "mpz_mul_si"} -> O[1].v = ZMul(A[2], A[3])
     [] f \in {"mpz_addmul", "mpz_addmul_ui"} -> O[1].v = ZAdd(A[1], ZMul(A[2], A[3]))
     [] f \in {"mpz_submul", "mpz_submul_ui"} -> O[1].v = ZSub(A[1], ZMul(A[2], A[3]))
     [] f = "mpz_mul_2exp" -> O[1].v = ZShl(A[2], I(A[3]))
     [] f = "mpz_neg" -> O[1].v = ZNeg(A[2])
     [] f = "mpz_abs" -> O[1].v = ZAbs(A[2])
        \* ---- division (divisor non-zero; zero divisor: SigZ)
     [] f = "mpz_tdiv_q" -> O[1].v = ZTDivQ(A[2], A[3])
     [] f = "mpz_tdiv_r" -> O[1].v = ZTDivR(A[2], A[3])
     [] f = "mpz_tdiv_qr" -> O[1].v = ZTDivQ(A[3], A[4]) /\ O[2].v = ZTDivR(A[3], A[4])
     [] f = "mpz_fdiv_q" -> O[1].v = ZFDivQ(A[2], A[3])
     [] f = "mpz_fdiv_r" -> O[1].v = ZFDivR(A[2], A[3])
     [] f = "mpz_fdiv_qr" -> O[1].v = ZFDivQ(A[3], A[4]) /\ O[2].v = ZFDivR(A[3], A[4])
     [] f = "mpz_cdiv_q" -> O[1].v = ZCDivQ(A[2], A[3])
     [] f = "mpz_cdiv_r" -> O[1].v = ZCDivR(A[2], A[3])
     [] f = "mpz_cdiv_qr" -> O[1].v = ZCDivQ(A[3], A[4]) /\ O[2].v = ZCDivR(A[3], A[4])
     [] f = "mpz_mod" -> O[1].v = ZMod(A[2], A[3])
     [] f = "mpz_tdiv_q_ui" -> O[1].v = ZTDivQ(A[2], A[3]) /\ r = ZAbs(ZTDivR(A[2], A[3]))
     [] f = "mpz_tdiv_r_ui" -> O[1].v = ZTDivR(A[2], A[3]) /\ r = ZAbs(ZTDivR(A[2], A[3]))
     [] f = "mpz_tdiv_qr_ui" -> O[1].v = ZTDivQ(A[3], A[4]) /\ O[2].v = ZTDivR(A[3], A[4]) /\ r = ZAbs(ZTDivR(A[3], A[4]))
     [] f = "mpz_tdiv_ui" -> r = ZAbs(ZTDivR(A[1], A[2]))
     [] f = "mpz_fdiv_q_ui" -> O[1].v = ZFDivQ(A[2], A[3]) /\ r = ZAbs(ZFDivR(A[2], A[3]))
     [] f \in {"mpz_fdiv_r_ui", "mpz_mod_ui"} -> O[1].v = ZFDivR(A[2], A[3]) /\ r = ZAbs(ZFDivR(A[2], A[3]))
     [] f = "mpz_fdiv_qr_ui" -> O[1].v = ZFDivQ(A[3], A[4]) /\ O[2].v = ZFDivR(A[3], A[4]) /\ r = ZAbs(ZFDivR(A[3], A[4]))
     [] f = "mpz_fdiv_ui" -> r = ZAbs(ZFDivR(A[1], A[2]))
     [] f = "mpz_cdiv_q_ui" -> O[1].v = ZCDivQ(A[2], A[3]) /\ r = ZAbs(ZCDivR(A[2], A[3]))
     [] f = "mpz_cdiv_r_ui" -> O[1].v = ZCDivR(A[2], A[3]) /\ r = ZAbs(ZCDivR(A[2], A[3]))
     [] f = "mpz_cdiv_qr_ui" -> O[1].v = ZCDivQ(A[3], A[4]) /\ O[2].v = ZCDivR(A[3], A[4]) /\ r = ZAbs(ZCDivR(A[3], A[4]))
     [] f = "mpz_cdiv_ui" -> r = ZAbs(ZCDivR(A[1], A[2]))
     [] f = "mpz_tdiv_q_2exp" -> O[1].v = ZTDivQ(A[2], ZPow2(I(A[3])))
     [] f = "mpz_tdiv_r_2exp" -> O[1].v = ZTDivR(A[2], ZPow2(I(A[3])))
     [] f = "mpz_fdiv_q_2exp" -> O[1].v = ZShr(A[2], I(A[3]))
     [] f = "mpz_fdiv_r_2exp" -> O[1].v = ZLowBits(A[2], I(A[3]))
     [] f = "mpz_cdiv_q_2exp" -> O[1].v = ZCDivQ(A[2], ZPow2(I(A[3])))
     [] f = "mpz_cdiv_r_2exp" -> O[1].v = ZCDivR(A[2], ZPow2(I(A[3])))
     [] f \in {"mpz_divexact", "mpz_divexact_ui"} -> ZDivides(A[3], A[2]) /\ O[1].v = ZTDivQ(A[2], A[3])
     [] f \in {"mpz_divisible_p", "mpz_divisible_ui_p"} -> Bool(r, ZDivides(A[2], A[1]))
     [] f = "mpz_divisible_2exp_p" -> Bool(r, ZLowBits(A[1], I(A[2])) = "0")
     [] f \in {"mpz_congruent_p", "mpz_congruent_ui_p"} -> Bool(r, ZDivides(A[3], ZSub(A[1], A[2])))
     [] f = "mpz_congruent_2exp_p" -> Bool(r, ZLowBits(ZSub(A[1], A[2]), I(A[3])) = "0")
        \* ---- number theory
     [] f = "mpz_gcd" -> O[1].v = ZGcd(A[2], A[3])
     [] f = "mpz_gcd_ui" -> LET g == ZGcd(A[2], A[3]) IN O[1].v = g /\ r = (IF ZLe(g, UMAX) THEN g ELSE "0")
     [] f = "mpz_gcd_ui_null" -> LET g == ZGcd(A[1], A[2]) IN r = (IF ZLe(g, UMAX) THEN g ELSE "0")
     [] f = "mpz_gcdext" -> GcdextOK(A[4], A[5], O[1].v, O[2].v, O[3].v, TRUE)
     [] f = "mpz_gcdext_nt" -> GcdextOK(A[3], A[4], O[1].v, O[2].v, "0", FALSE)
     [] f = "mpz_gcdext_nst" -> O[1].v = ZGcd(A[2], A[3])
     [] f \in {"mpz_lcm", "mpz_lcm_ui"} ->
           O[1].v = (IF A[2] = "0" \/ A[3] = "0" THEN "0" ELSE ZAbs(ZTDivQ(ZMul(A[2], A[3]), ZGcd(A[2], A[3]))))
     [] f = "mpz_invert" ->        \* |modulus| > 1
           LET ex == ZGcd(A[2], A[3]) = "1" IN
           /\ Bool(r, ex)
           /\ ex => /\ ZLe("0", O[1].v) /\ ZLt(O[1].v, ZAbs(A[3]))
                    /\ ZMod(ZMul(A[2], O[1].v), A[3]) = "1"
     [] f \in {"mpz_jacobi", "mpz_legendre", "mpz_kronecker", "mpz_kronecker_si", "mpz_kronecker_ui",
               "mpz_si_kronecker", "mpz_ui_kronecker"} -> r = ZKronecker(A[1], A[2])
     [] f \in {"mpz_powm", "mpz_powm_ui"} ->
           IF ~ZIsNeg(A[3]) THEN O[1].v = ZPowMod(A[2], A[3], A[4])
           ELSE /\ ZLe("0", O[1].v) /\ ZLt(O[1].v, ZAbs(A[4]))       \* inverse: unique x with x * b^|e| = 1 (mod |m|)
                /\ ZMod(ZMul(O[1].v, ZPowMod(A[2], ZNeg(A[3]), A[4])), A[4]) = ZMod("1", A[4])
     [] f \in {"mpz_pow_ui", "mpz_ui_pow_ui"} -> O[1].v = ZPow(A[2], I(A[3]))
     [] f = "mpz_sqrt" -> O[1].v = ZISqrt(A[2])
     [] f = "mpz_sqrtrem" -> O[1].v = ZISqrt(A[3]) /\ O[2].v = ZSub(A[3], ZMul(O[1].v, O[1].v))
     [] f = "mpz_root" -> O[1].v = ZIRoot(A[2], I(A[3])) /\ Bool(r, ZPow(O[1].v, I(A[3])) = A[2])
     [] f = "mpz_nthroot" -> O[1].v = ZIRoot(A[2], I(A[3]))
     [] f = "mpz_rootrem" -> O[1].v = ZIRoot(A[3], I(A[4])) /\ O[2].v = ZSub(A[3], ZPow(O[1].v, I(A[4])))
     [] f = "mpz_perfect_square_p" -> Bool(r, ~ZIsNeg(A[1]) /\ ZMul(ZISqrt(A[1]), ZISqrt(A[1])) = A[1])
     [] f = "mpz_perfect_power_p" -> Bool(r, IsPerfectPower(A[1]))
     [] f = "mpz_fac_ui" -> O[1].v = ZFac(I(A[2]))
     [] f = "mpz_2fac_ui" -> O[1].v = ZMFac(A[2], "2")
     [] f = "mpz_mfac_uiui" -> O[1].v = ZMFac(A[2], A[3])
     [] f = "mpz_primorial_ui" -> O[1].v = ZPrimorial(I(A[2]))
     [] f \in {"mpz_bin_ui", "mpz_bin_uiui"} -> O[1].v = ZBin(A[2], A[3])
     [] f = "mpz_fib_ui" -> O[1].v = ZFib(A[2])
     [] f = "mpz_fib2_ui" -> O[1].v = ZFib(A[3]) /\ O[2].v = ZSub(ZFib(ZAdd(A[3], "1")), ZFib(A[3]))
     [] f = "mpz_lucnum_ui" -> O[1].v = ZLuc(A[2])
     [] f = "mpz_lucnum2_ui" -> O[1].v = ZLuc(A[3]) /\ O[2].v = ZSub(ZLuc(ZAdd(A[3], "1")), ZLuc(A[3]))
     [] f = "mpz_remove" ->        \* op # 0, f >= 2
           /\ ZMul(O[1].v, ZPow(A[3], I(r))) = A[2] /\ ~ZDivides(A[3], O[1].v)
     [] f = "mpz_probab_prime_p" -> PrimeContract(A[1], r, A[2])
     [] f = "mpz_probable_prime_p" -> PrimeContract(A[1], r, A[3])
     [] f = "mpz_likely_prime_p" -> PrimeContract(A[1], r, 0)
     [] f \in {"mpz_miller_rabin", "mpz_millerrabin"} -> PrimeContract(A[1], r, 0)
     [] f \in {"mpz_nextprime", "mpz_next_prime_candidate"} -> ZLt(A[2], O[1].v) /\ ZLe(O[1].v, ZNextPrime(A[2]))
        \* ---- bits (infinite two's complement)
     [] f = "mpz_and" -> O[1].v = ZAnd(A[2], A[3])
     [] f = "mpz_ior" -> O[1].v = ZOr(A[2], A[3])
     [] f = "mpz_xor" -> O[1].v = ZXor(A[2], A[3])
     [] f = "mpz_com" -> O[1].v = ZCom(A[2])
     [] f = "mpz_setbit" -> O[1].v = ZOr(A[1], ZPow2(I(A[2])))
     [] f = "mpz_clrbit" -> O[1].v = ZAnd(A[1], ZCom(ZPow2(I(A[2]))))
     [] f = "mpz_combit" -> O[1].v = ZXor(A[1], ZPow2(I(A[2])))
     [] f = "mpz_tstbit" -> Bool(r, ZTestBit(A[1], I(A[2])))
     [] f = "mpz_scan0" -> r = ScanFrom(A[1], I(A[2]), FALSE)
     [] f = "mpz_scan1" -> r = ScanFrom(A[1], I(A[2]), TRUE)
     [] f = "mpz_popcount" -> r = (IF ZIsNeg(A[1]) THEN UMAX ELSE ZFromInt(ZPopCount(A[1])))
     [] f = "mpz_hamdist" -> r = (IF ZIsNeg(A[1]) # ZIsNeg(A[2]) THEN UMAX ELSE ZFromInt(ZPopCount(ZXor(A[1], A[2]))))
        \* ---- comparisons
     [] f \in {"mpz_cmp", "mpz_cmp_ui", "mpz_cmp_si"} -> SgnI(r) = ZCmp(A[1], A[2])
     [] f \in {"mpz_cmpabs", "mpz_cmpabs_ui"} -> SgnI(r) = ZCmp(ZAbs(A[1]), ZAbs(A[2]))
     [] f = "mpz_cmp_d" -> SgnI(r) = CmpZD(A[1], A[2])
     [] f = "mpz_cmpabs_d" -> SgnI(r) = CmpZD(ZAbs(A[1]), <<0, A[2][2], A[2][3], A[2][4]>>)
     [] f = "mpz_sgn" -> r = ZSgn(A[1])
     [] f = "mpz_odd_p" -> Bool(r, ZTestBit(A[1], 0))
     [] f = "mpz_even_p" -> Bool(r, ~ZTestBit(A[1], 0))
=============================================================================
