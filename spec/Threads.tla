------------------------------- MODULE Threads -------------------------------
(***************************************************************************)
(* R2/R3 model for C15.  N threads each run a fixed sequence of library     *)
(* calls on private destinations and shared READ-ONLY sources; a call is    *)
(* divided into segments by its yield points (every entry into the memory   *)
(* functions).  Library-internal memory is private to a call, so the only   *)
(* cells two threads can both touch are the documented globals `glob`,      *)
(* which no reentrant function writes.  TLC enumerates every interleaving   *)
(* of the segments and checks ScheduleIndependent: each thread's results    *)
(* equal its serial results.  With HIDDEN = TRUE the model contains the     *)
(* kind of defect C15 excludes (a call keeps an intermediate in a shared    *)
(* static cell across a yield point) and the invariant fails -- this is the *)
(* behaviour the replayed schedules are meant to expose in the real code.   *)
(* Every complete schedule (sequence of thread ids) is printed for replay.  *)
(***************************************************************************)
EXTENDS Naturals, Sequences, FiniteSets, TLC
CONSTANTS N, SEGS, HIDDEN, EMIT          \* threads 1..N, SEGS segments per thread
VARIABLES pc, acc, cell, sched
vars == <<pc, acc, cell, sched>>
Input(t) == 10 * t                           \* private input of thread t
Serial(t) == Input(t) + SEGS                 \* what the thread computes alone: one increment per segment
Init == pc = [t \in 1..N |-> 0] /\ acc = [t \in 1..N |-> Input(t)] /\ cell = 0 /\ sched = <<>>
Seg(t) == /\ pc[t] < SEGS
          /\ IF HIDDEN                           \* defect: the intermediate lives in a shared static cell between two segments
             THEN IF pc[t] % 2 = 0 THEN cell' = acc[t] + 1 /\ acc' = acc
                  ELSE acc' = [acc EXCEPT ![t] = cell + 1] /\ cell' = cell
             ELSE acc' = [acc EXCEPT ![t] = @ + 1] /\ cell' = cell
          /\ pc' = [pc EXCEPT ![t] = @ + 1] /\ sched' = Append(sched, t)
Next == \E t \in 1..N : Seg(t)
Spec == Init /\ [][Next]_vars
Done == \A t \in 1..N : pc[t] = SEGS
EmitSched == (Done /\ EMIT) => PrintT(<<"SCHED", sched>>)
ScheduleIndependent == Done => \A t \in 1..N : acc[t] = Serial(t)
=============================================================================
