SPECIFICATION Spec
CONSTANTS B = 3  V = 10  Variant = "ok"
INVARIANT Correct
CHECK_DEADLOCK FALSE
