-------------------------------- MODULE SemK2 --------------------------------
(***************************************************************************)
(* L2 (direct): the internal division-side mpn kernels, each stated as the *)
(* contract written in (or asserted by) its own source file.  A limb       *)
(* vector {p,n} is logged as the natural number it denotes; B = 2^64.      *)
(* PostK2(f, i, o): i = inputs as logged before the call, o = outputs.     *)
(* Source files are relative to the library root (mpn/generic unless       *)
(* stated otherwise).                                                      *)
(***************************************************************************)
EXTENDS Naturals, Integers, Sequences, BigZ

LOCAL W == 64
LOCAL Bn(n) == ZPow2(W * n)
LOCAL B1 == ZPow2(W)
LOCAL Fits(v, n) == ~ZIsNeg(v) /\ ZBitLen(v) <= W * n
LOCAL Limb(a, k) == ZLowBits(ZShr(a, W * k), W)           \* limb k (from 0) of a natural number
LOCAL Bool(r, c) == (r # 0) = c

(* Euclidean division N = Q*D + R, 0 <= R < D *)
LOCAL QR(N, D, Q, R) == ZAdd(ZMul(Q, D), R) = N /\ ~ZIsNeg(R) /\ ZLt(R, D)
(* "approximate quotient": the true quotient or one more (inv_divappr_q_n.c: "either correct or one too large";
   tdiv_q.c corrects the result of every mpn_*_divappr_q by at most one) *)
LOCAL Appr(N, D, Q) == LET T == ZTDivQ(N, D) IN Q = T \/ Q = ZAdd(T, "1")
(* Hensel (2-adic) division by a limb: X = Q*d - ret*B^n, 0 <= ret < d, Q of n limbs *)
LOCAL Hensel1(X, n, d, Q, ret) == ZSub(ZMul(Q, d), ZMul(ret, Bn(n))) = X /\ Fits(Q, n) /\ ~ZIsNeg(ret) /\ ZLt(ret, d)

(* sb_bdiv_q.c: "Let X = sum(dp[i]*qp[j]*B^(i+j), 0 <= i < dn, 0 <= i+j < nn).  Then X is nn + 2 limbs.  The low nn limbs
   by definition agree with N.  The overflow is the remaining high two limbs."  (sum over i of d_i B^i (Q mod B^(nn-i))) *)
RECURSIVE BdivX(_, _, _, _, _)
BdivX(D, Q, nn, dn, k) == IF k >= dn THEN "0"
                          ELSE ZAdd(ZShl(ZMul(Limb(D, k), ZLowBits(Q, W * (nn - k))), W * k), BdivX(D, Q, nn, dn, k + 1))
LOCAL BdivQ(N, nn, D, dn, Q, Wv) == /\ Fits(Q, nn) /\ Fits(Wv, 2)
                                    /\ ZLowBits(ZSub(ZMul(Q, D), N), W * nn) = "0"                \* Q = N / D mod B^nn
                                    /\ BdivX(D, Q, nn, dn, 0) = ZAdd(N, ZShl(Wv, W * nn))           \* the overflow
(* sb_bdiv_qr.c / dc_bdiv_qr.c: "Q = N * D^{-1} mod B^qn, R = (N - Q * D) * B^(-qn); stores the dn least significant limbs of R
   at {np + nn - dn, dn} and returns the borrow from the subtraction N - Q*D", qn = nn - dn *)
LOCAL BdivQR(N, nn, D, dn, Q, R, cy) == /\ Fits(Q, nn - dn) /\ Fits(R, dn) /\ cy \in {"0", "1"}
                                        /\ ZSub(N, ZMul(Q, D)) = ZShl(ZSub(R, ZMul(cy, Bn(dn))), W * (nn - dn))

FunsK2 == {"mpn_sb_div_q", "mpn_sb_divappr_q", "mpn_dc_div_qr", "mpn_dc_div_qr_n", "mpn_dc_div_q", "mpn_dc_divappr_q",
           "mpn_divrem_2", "mpn_divexact",
           "mpn_inv_div_qr", "mpn_inv_div_qr_n", "mpn_inv_div_q", "mpn_inv_divappr_q", "mpn_inv_divappr_q_n",
           "mpn_sb_bdiv_q", "mpn_sb_bdiv_qr", "mpn_dc_bdiv_q", "mpn_dc_bdiv_qr", "mpn_dc_bdiv_q_n", "mpn_dc_bdiv_qr_n", "mpn_bdivmod",
           "mpn_mod_1_k", "mpn_mod_1_k_wrap", "mpn_preinv_mod_1", "mpn_preinv_divrem_1", "mpn_mod_34lsub1",
           "mpn_divexact_byff", "mpn_divexact_byfobm1", "mpn_modexact_1c_odd", "mpn_divisible_p",
           "mpn_divrem_hensel_qr_1", "mpn_divrem_hensel_qr_1_1", "mpn_divrem_hensel_qr_1_2", "mpn_divrem_hensel_r_1",
           "mpn_divrem_hensel_rsh_qr_1", "mpn_divrem_hensel_rsh_qr_1_preinv",
           "mpn_rsh_divrem_hensel_qr_1", "mpn_rsh_divrem_hensel_qr_1_1", "mpn_rsh_divrem_hensel_qr_1_2",
           "mpn_divrem_euclidean_qr_1", "mpn_divrem_euclidean_qr_2", "mpn_divrem_euclidean_r_1"}

(* full quotient = the nn-dn limbs stored at qp plus the returned most significant limb qh *)
LOCAL FullQ(i, o) == ZAdd(o.q, ZShl(o.qh, W * (i.nn - i.dn)))

PostK2(f, i, o) ==
   CASE \* ---- schoolbook / divide-and-conquer, divisor normalised, dinv = mpir_invert_pi1 of the two top divisor limbs
        \* sb_div_q.c: ASSERT dn > 2, nn >= dn, high bit of d set; returns qh, {qp,nn-dn}; the quotient is exact (tdiv_q.c uses it as Q = N/D)
        f \in {"mpn_sb_div_q", "mpn_dc_div_q", "mpn_inv_div_q"} ->
           \* dc_div_q.c / inv_div_q.c: ASSERT dn >= 6, nn - dn >= 3; "At most is wrong by one, no cycle": the approximate quotient is corrected, result exact
           /\ FullQ(i, o) = ZTDivQ(i.n, i.d) /\ Fits(o.q, i.nn - i.dn) /\ o.qh \in {"0", "1"}
        \* sb_divappr_q.c: same ASSERTs as sb_div_q; dc_divappr_q.c: ASSERT dn >= 6, nn >= dn + 3; inv_divappr_q.c: ASSERT dn >= 6, nn > dn
     [] f \in {"mpn_sb_divappr_q", "mpn_dc_divappr_q", "mpn_inv_divappr_q"} ->
           /\ Appr(i.n, i.d, FullQ(i, o)) /\ Fits(o.q, i.nn - i.dn) /\ o.qh \in {"0", "1"}
           /\ ("past" \in DOMAIN o => o.past = "5a5a5a5a5a5a5a5a")     \* the (poisoned) limb after the quotient area {qp, nn-dn} is not written
        \* dc_div_qr.c: ASSERT dn >= 6, nn - dn >= 3, normalised; quotient at qp + return value, remainder in the low dn limbs of np
        \* inv_div_qr.c: the same with dinv = mpn_invert(d)
     [] f \in {"mpn_dc_div_qr", "mpn_inv_div_qr"} ->
           /\ QR(i.n, i.d, FullQ(i, o), o.r) /\ Fits(o.q, i.nn - i.dn) /\ o.qh \in {"0", "1"}
        \* dc_div_qr_n.c: {np,2n} by {dp,n}; inv_div_qr_n.c: "Computes the quotient and remainder of { np, 2*dn } by { dp, dn }.
        \* We require dp to be normalised and inv to be a precomputed inverse of { dp, dn } given by mpn_invert."
     [] f \in {"mpn_dc_div_qr_n", "mpn_inv_div_qr_n"} ->
           /\ QR(i.n, i.d, ZAdd(o.q, ZShl(o.qh, W * i.dn)), o.r) /\ Fits(o.q, i.dn) /\ o.qh \in {"0", "1"}
        \* inv_divappr_q_n.c: "Computes an approximate quotient of { np, 2*dn } by { dp, dn } which is either correct or one too large."
     [] f = "mpn_inv_divappr_q_n" ->
           /\ Appr(i.n, i.d, ZAdd(o.q, ZShl(o.qh, W * i.dn))) /\ Fits(o.q, i.dn) /\ o.qh \in {"0", "1"}
        \* invert.c (mpn_is_invert): X*A < B^(2n) and B^(2n) - X*A <= A, where X = B^n + {xp,n}
        \* divrem_2.c: "Divide num (NP/NSIZE) by den (DP/2) and write the NSIZE-2 least significant quotient limbs at QP and the 2 long
        \* remainder at NP.  If QEXTRA_LIMBS is non-zero, generate that many fraction bits ...  Return the most significant limb of the
        \* quotient, this is always 0 or 1."  Preconditions: NSIZE >= 2, most significant bit of the divisor set.
     [] f = "mpn_divrem_2" ->
           /\ QR(ZShl(i.n, W * i.qxn), i.d, ZAdd(o.q, ZShl(o.qh, W * (i.nn - 2 + i.qxn))), o.r)
           /\ Fits(o.q, i.nn - 2 + i.qxn) /\ o.qh \in {"0", "1"}
        \* divexact.c: ASSERT dn > 0, nn >= dn, dp[dn-1] > 0 (and the division is exact); quotient of nn-dn+1 limbs
     [] f = "mpn_divexact" -> ZMul(o.q, i.d) = i.n /\ Fits(o.q, i.nn - i.dn + 1)
        \* ---- Hensel (binary) division, divisor odd, dinv = modlimb_invert(dp[0])
        \* sb_bdiv_q.c: "Computes Q = N / D mod B^nn, with an overflow W.  Destroys N.  D must be odd."  ASSERT dn > 0, nn >= dn
     [] f = "mpn_sb_bdiv_q" -> BdivQ(i.n, i.nn, i.d, i.dn, o.q, o.w)
        \* dc_bdiv_q_n.c: "Computes {np, n} / {dp, n} mod B^n ... Also computes a 2 limb "overflow". See sb_bdiv_q.c"; ASSERT n >= 6
     [] f = "mpn_dc_bdiv_q_n" -> BdivQ(i.n, i.dn, i.d, i.dn, o.q, o.w)
        \* dc_bdiv_q.c: "Computes Q = N / D mod B^nn, destroys N."  ASSERT dn >= 6, nn >= dn, d odd
     [] f = "mpn_dc_bdiv_q" -> Fits(o.q, i.nn) /\ ZLowBits(ZSub(ZMul(o.q, i.d), i.n), W * i.nn) = "0"
        \* sb_bdiv_qr.c (ASSERT dn > 0, nn > dn), dc_bdiv_qr.c (ASSERT dn >= 2, nn - dn >= 1), dc_bdiv_qr_n.c (nn = 2n)
     [] f \in {"mpn_sb_bdiv_qr", "mpn_dc_bdiv_qr", "mpn_dc_bdiv_qr_n"} -> BdivQR(i.n, i.nn, i.d, i.dn, o.q, o.r, o.cy)
        \* bdivmod.c: "Puts the low d/BITS_PER_MP_LIMB limbs of Q = U / V mod 2^d at qp, and returns the high d%BITS_PER_MP_LIMB bits of Q
        \* as the result.  Also, U - Q * V mod 2^(usize*BITS_PER_MP_LIMB) is placed at up."  V odd, usize*64 >= d.
        \* o.u = the whole of {up,usize} afterwards when qp does not overlap; o.uhi = {up + d/64, usize - d/64} (all that survives when qp = up)
     [] f = "mpn_bdivmod" ->
           LET k == i.bits \div W
               Q == ZAdd(o.q, ZShl(o.ret, W * k))
               U1 == ZLowBits(ZSub(i.u, ZMul(Q, i.v)), W * i.un) IN
           /\ Fits(o.q, k) /\ ~ZIsNeg(Q) /\ ZBitLen(Q) <= i.bits
           /\ ZLowBits(ZSub(ZMul(Q, i.v), i.u), i.bits) = "0"
           /\ o.uhi = ZShr(U1, W * k)
           /\ (i.inplace = 0 => o.u = U1)
        \* ---- single-limb divisors
        \* mod_1_1.c / mod_1_2.c / mod_1_3.c: {rem,2} is congruent to {xp,xn} modulo d given db[j] = B^(j+1) mod d, j = 0..k
        \* (ASSERT xn >= k + 2); the callers in divrem_euclidean_r_1.c require (k+1)(d-1) <= B and ASSERT(rem[1] < d) afterwards
     [] f = "mpn_mod_1_k" -> /\ Fits(o.rem, 2) /\ ZMod(o.rem, i.d) = ZMod(i.n, i.d) /\ ZLt(ZShr(o.rem, W), i.d)
        \* divrem_euclidean_r_1.c: mpn_mod_1_{1,2,3}_wrap return {xp,xn} mod d
     [] f \in {"mpn_mod_1_k_wrap", "mpn_divrem_euclidean_r_1"} -> o.r = ZMod(i.n, i.d)
        \* preinv_mod_1.c: ASSERT un >= 1, d normalised, dinv = invert_limb(d); the remainder
     [] f = "mpn_preinv_mod_1" -> o.r = ZMod(i.n, i.d)
        \* preinv_divrem_1.c: mpn_divrem_1 with the inverse of d << shift supplied (ASSERTs: shift = count_leading_zeros(d), dinv = invert_limb(d << shift))
        \* divrem_euclidean_qr_1.c: "(xp, n) = (qp, n)*d + r and 0 <= r < d", qxn = 0
     [] f \in {"mpn_preinv_divrem_1", "mpn_divrem_euclidean_qr_1"} ->
           QR(ZShl(i.n, W * i.qxn), i.d, o.q, o.r) /\ Fits(o.q, i.nn + i.qxn)
        \* divrem_euclidean_qr_2.c: ASSERT xn >= 2, dp normalised; quotient limbs xn-2 at qp, top quotient limb returned, remainder in xp[0..1]
     [] f = "mpn_divrem_euclidean_qr_2" ->
           QR(i.n, i.d, ZAdd(o.q, ZShl(o.qh, W * (i.nn - 2))), o.r) /\ Fits(o.q, i.nn - 2) /\ o.qh \in {"0", "1"}
        \* mod_34lsub1.c: "Calculate a remainder from {p,n} divided by 2^(GMP_NUMB_BITS*3/4)-1.  The remainder is not fully reduced,
        \* it's any limb value congruent to {p,n} modulo that divisor."
     [] f = "mpn_mod_34lsub1" -> LET M == ZSub(ZPow2(48), "1") IN Fits(o.r, 1) /\ ZMod(o.r, M) = ZMod(i.n, M)
        \* divexact_byff.c: "(xp,n) = (qp,n)*(B - 1) - ret*B^n and 0 <= ret < B - 1"
     [] f = "mpn_divexact_byff" -> Hensel1(i.n, i.nn, ZSub(B1, "1"), o.q, o.ret)
        \* divexact_byfobm1.c: "(xp, n) = (qp, n)*f - ret*B^n and 0 <= ret < f"; ASSERT(Bm1of*f + 1 == 0), i.e. Bm1of = (B-1)/f
     [] f = "mpn_divexact_byfobm1" -> Hensel1(i.n, i.nn, i.f, o.q, o.ret)
        \* divrem_hensel_qr_1.c, _1_1.c, _1_2.c (ASSERT n >= 2): "(xp, n) = (qp, n)*d - ret*B^n and 0 <= ret < d", d odd
     [] f \in {"mpn_divrem_hensel_qr_1", "mpn_divrem_hensel_qr_1_1", "mpn_divrem_hensel_qr_1_2"} -> Hensel1(i.n, i.nn, i.d, o.q, o.ret)
        \* divrem_hensel_r_1.c: "same as qr version but with q not stored": the ret of the unique n-limb Q with Q*d = X (mod B^n)
     [] f = "mpn_divrem_hensel_r_1" ->
           LET T == ZAdd(i.n, ZMul(o.ret, Bn(i.nn))) IN ZDivides(i.d, T) /\ Fits(ZTDivQ(T, i.d), i.nn) /\ ~ZIsNeg(o.ret) /\ ZLt(o.ret, i.d)
        \* divrem_hensel_rsh_qr_1.c (no comment; by the code and its use in mpz/bin_uiui.c): the Hensel division of {xp,n} >> s
     [] f \in {"mpn_divrem_hensel_rsh_qr_1", "mpn_divrem_hensel_rsh_qr_1_preinv"} -> Hensel1(ZShr(i.n, i.s), i.nn, i.d, o.q, o.ret)
        \* rsh_divrem_hensel_qr_1.c, _1_1.c, _1_2.c (by the code and its use in divrem_1.c): Q' = the Hensel quotient of {xp,n} - cin,
        \* i.e. Q'*d = X - cin + ret*B^n, and {qp,n} = Q' >> s.  The low s bits of Q' are not stored: low = Q' mod 2^s must exist.
     [] f \in {"mpn_rsh_divrem_hensel_qr_1", "mpn_rsh_divrem_hensel_qr_1_1", "mpn_rsh_divrem_hensel_qr_1_2"} ->
           LET T == ZSub(ZAdd(ZSub(i.n, i.cin), ZMul(o.ret, Bn(i.nn))), ZMul(ZShl(o.q, i.s), i.d))     \* = low * d
               low == ZTDivQ(T, i.d) IN
           /\ ~ZIsNeg(T) /\ ZDivides(i.d, T) /\ ZBitLen(low) <= i.s
           /\ Fits(ZAdd(ZShl(o.q, i.s), low), i.nn)
           /\ ~ZIsNeg(o.ret) /\ (ZLt(i.cin, i.d) => ZLt(o.ret, i.d)) /\ ZLe(o.ret, i.d)
        \* modexact_1c_odd.c: "Calculate an r satisfying r*b^k + a - c == q*d where ... k is either size or size-1 (the caller won't know
        \* which) ... d must be odd, c can be any limb value.  If c<d then r will be in the range 0<=r<d, or if c>=d then 0<=r<=d."
     [] f = "mpn_modexact_1c_odd" ->
           /\ \E k \in {i.nn, i.nn - 1} : ZDivides(i.d, ZSub(ZAdd(ZMul(o.r, Bn(k)), i.n), i.c))
           /\ ~ZIsNeg(o.r) /\ (IF ZLt(i.c, i.d) THEN ZLt(o.r, i.d) ELSE ZLe(o.r, i.d))
        \* divisible_p.c: "Determine whether {ap,asize} is divisible by {dp,dsize}.  Must have both operands normalized, meaning high
        \* limbs non-zero, except that asize==0 is allowed."
     [] f = "mpn_divisible_p" -> Bool(o.ret, ZDivides(i.d, i.a))
=============================================================================
