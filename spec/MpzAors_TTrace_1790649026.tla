---- MODULE MpzAors_TTrace_1790649026 ----
EXTENDS Sequences, TLCExt, MpzAors, Toolbox, Naturals, TLC

_expression ==
    LET MpzAors_TEExpression == INSTANCE MpzAors_TEExpression
    IN MpzAors_TEExpression!expression
----

_trace ==
    LET MpzAors_TETrace == INSTANCE MpzAors_TETrace
    IN MpzAors_TETrace!trace
----

_inv ==
    ~(
        TLCGet("level") = Len(_TETrace)
        /\
        phase = (2)
        /\
        args = (<<1, 2, 2>>)
        /\
        sub = (FALSE)
        /\
        allocs = (<<0, 0, 0>>)
        /\
        vals = (<<-4, -4, -4>>)
    )
----

_init ==
    /\ phase = _TETrace[1].phase
    /\ sub = _TETrace[1].sub
    /\ args = _TETrace[1].args
    /\ vals = _TETrace[1].vals
    /\ allocs = _TETrace[1].allocs
----

_next ==
    /\ \E i,j \in DOMAIN _TETrace:
        /\ \/ /\ j = i + 1
              /\ i = TLCGet("level")
        /\ phase  = _TETrace[i].phase
        /\ phase' = _TETrace[j].phase
        /\ sub  = _TETrace[i].sub
        /\ sub' = _TETrace[j].sub
        /\ args  = _TETrace[i].args
        /\ args' = _TETrace[j].args
        /\ vals  = _TETrace[i].vals
        /\ vals' = _TETrace[j].vals
        /\ allocs  = _TETrace[i].allocs
        /\ allocs' = _TETrace[j].allocs

\* Uncomment the ASSUME below to write the states of the error trace
\* to the given file in Json format. Note that you can pass any tuple
\* to `JsonSerialize`. For example, a sub-sequence of _TETrace.
    \* ASSUME
    \*     LET J == INSTANCE Json
    \*         IN J!JsonSerialize("MpzAors_TTrace_1790649026.json", _TETrace)

=============================================================================

 Note that you can extract this module `MpzAors_TEExpression`
  to a dedicated file to reuse `expression` (the module in the 
  dedicated `MpzAors_TEExpression.tla` file takes precedence 
  over the module `MpzAors_TEExpression` below).

---- MODULE MpzAors_TEExpression ----
EXTENDS Sequences, TLCExt, MpzAors, Toolbox, Naturals, TLC

expression == 
    [
        \* To hide variables of the `MpzAors` spec from the error trace,
        \* remove the variables below.  The trace will be written in the order
        \* of the fields of this record.
        phase |-> phase
        ,sub |-> sub
        ,args |-> args
        ,vals |-> vals
        ,allocs |-> allocs
        
        \* Put additional constant-, state-, and action-level expressions here:
        \* ,_stateNumber |-> _TEPosition
        \* ,_phaseUnchanged |-> phase = phase'
        
        \* Format the `phase` variable as Json value.
        \* ,_phaseJson |->
        \*     LET J == INSTANCE Json
        \*     IN J!ToJson(phase)
        
        \* Lastly, you may build expressions over arbitrary sets of states by
        \* leveraging the _TETrace operator.  For example, this is how to
        \* count the number of times a spec variable changed up to the current
        \* state in the trace.
        \* ,_phaseModCount |->
        \*     LET F[s \in DOMAIN _TETrace] ==
        \*         IF s = 1 THEN 0
        \*         ELSE IF _TETrace[s].phase # _TETrace[s-1].phase
        \*             THEN 1 + F[s-1] ELSE F[s-1]
        \*     IN F[_TEPosition - 1]
    ]

=============================================================================



Parsing and semantic processing can take forever if the trace below is long.
 In this case, it is advised to uncomment the module below to deserialize the
 trace from a generated binary file.

\*
\*---- MODULE MpzAors_TETrace ----
\*EXTENDS IOUtils, MpzAors, TLC
\*
\*trace == IODeserialize("MpzAors_TTrace_1790649026.bin", TRUE)
\*
\*=============================================================================
\*

---- MODULE MpzAors_TETrace ----
EXTENDS MpzAors, TLC

trace == 
    <<
    ([phase |-> 0,args |-> <<1, 1, 1>>,sub |-> FALSE,allocs |-> <<1, 1, 1>>,vals |-> <<0, 0, 0>>]),
    ([phase |-> 1,args |-> <<1, 2, 2>>,sub |-> FALSE,allocs |-> <<1, 1, 1>>,vals |-> <<0, 0, 0>>]),
    ([phase |-> 2,args |-> <<1, 2, 2>>,sub |-> FALSE,allocs |-> <<0, 0, 0>>,vals |-> <<-4, -4, -4>>])
    >>
----


=============================================================================

---- CONFIG MpzAors_TTrace_1790649026 ----
CONSTANTS
    B = 3
    V = 4
    Variant = "wsize_short"

INVARIANT
    _inv

CHECK_DEADLOCK
    \* CHECK_DEADLOCK off because of PROPERTY or INVARIANT above.
    FALSE

INIT
    _init

NEXT
    _next

CONSTANT
    _TETrace <- _trace

ALIAS
    _expression
=============================================================================
\* Generated on Tue Sep 29 02:30:30 UTC 2026