/* mpn_sb_divappr_q writes qp[0] when nn == dn, although the quotient area {qp, nn-dn} is empty.
   mpn/generic/sb_divappr_q.c asserts only  dn > 2, nn >= dn, divisor normalised  (and tests/mpn/t-sb_divappr_q.c draws nn = dn as well);
   the quotient is {qp, nn-dn} plus the returned high limb.  With qn = 0 the final block still executes "qp[0] = q".
   Build:  B=/var/tmp/mpir-verif-cache-h2/6b8313db771e92f1-default
           gcc -O1 -I$B k2_sb_divappr_q_nn_eq_dn.c $B/.libs/libmpir.a -o k2_sb_divappr_q_nn_eq_dn && ./k2_sb_divappr_q_nn_eq_dn
   Expected (contract): qp[0] untouched.  Observed: qp[0] overwritten (prints DEFECT). */
#include <stdio.h>
#include "mpir.h"
#include "gmp-impl.h"
#include "longlong.h"
int main(void) {
  mp_limb_t d[3] = {0x185056f5e3b81958UL, 0, 0x8000000000000000UL}, n[3] = {5, 6, 7}, q[1] = {0x5a5a5a5a5a5a5a5aUL}, dinv, qh;
  mpir_invert_pi1(dinv, d[2], d[1]);
  qh = mpn_sb_divappr_q(q, n, 3, d, 3, dinv);          /* nn = dn = 3: zero quotient limbs */
  printf("qh = %lu, limb after the (empty) quotient area = %016lx\n", (unsigned long)qh, (unsigned long)q[0]);
  if (q[0] != 0x5a5a5a5a5a5a5a5aUL) { printf("DEFECT: mpn_sb_divappr_q wrote qp[0] with nn == dn\n"); return 1; }
  printf("ok\n"); return 0;
}
