#include <iostream>
#include <sstream>
#include <iomanip>
#include "mpirxx.h"
using namespace std;
int main() {
  mpz_class z(123); long n = 123;
  { ostringstream a, b; a << oct << showbase << internal << setw(8) << setfill('*') << z; b << oct << showbase << internal << setw(8) << setfill('*') << n; cout << "|" << a.str() << "| |" << b.str() << "|\n"; }
  { ostringstream a, b; z = 0; n = 0; a << hex << showbase << z; b << hex << showbase << n; cout << "|" << a.str() << "| |" << b.str() << "|\n"; }
  { ostringstream a, b; z = 0; n = 0; a << oct << showbase << z; b << oct << showbase << n; cout << "|" << a.str() << "| |" << b.str() << "|\n"; }
  { ostringstream a, b; z = 5; n = 5; a.setf(ios::fmtflags(0), ios::basefield); b.setf(ios::fmtflags(0), ios::basefield); a << z; b << n; cout << "|" << a.str() << "| |" << b.str() << "|\n"; }
  { ostringstream a, b; z = 5; n = 5; a.setf(ios::hex|ios::oct, ios::basefield); b.setf(ios::hex|ios::oct, ios::basefield); a << showbase<< z; b <<showbase<< n; cout << "|" << a.str() << "| |" << b.str() << "|\n"; }
  { ostringstream a, b; z = 5; n = 5; a.setf(ios::left|ios::internal, ios::adjustfield); b.setf(ios::left|ios::internal, ios::adjustfield); a << showpos<<setw(5)<< z; b <<showpos<<setw(5)<< n; cout << "|" << a.str() << "| |" << b.str() << "|\n"; }
  { ostringstream a, b; z = 5; n = 5; a << showpos<<internal<<hex<<setw(5)<< z; b <<showpos<<hex<<internal<<setw(5)<< n; cout << "|" << a.str() << "| |" << b.str() << "|\n"; }
  { ostringstream a, b; z = 0; n = 0; a << showpos<<internal<<setw(5)<< z; b <<showpos<<internal<<setw(5)<< n; cout << "|" << a.str() << "| |" << b.str() << "|\n"; }
}
