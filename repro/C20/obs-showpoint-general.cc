// observation (not a finding): general float format with showpoint for 0 < |value| < 1 — MPIR counts the zeros in front of the first
// significant digit as digits of the precision; the standard library (printf %#g) does not.  Output: |0.50000| |0.500000|  and  |0.06250| |0.0625000|
#include <iostream>
#include <sstream>
#include "mpirxx.h"
int main() { for (double d : {0.5, 0.0625}) { mpf_class f(d); std::ostringstream a, b; a << std::showpoint << f; b << std::showpoint << d; std::cout << "|" << a.str() << "| |" << b.str() << "|\n"; } }
