/* F-C15-1: mpz_powm writes into the limbs of its MODULUS operand (and restores them before it returns).
   mpn_redc_n -> mpn_mulmod_bnm1 casts the const away and mpn_mulmod_2expm1 masks yp[m-1] / zp[m-1] in place
   ("car = yp[m - 1]; yp[m - 1] &= GMP_NUMB_MASK >> k; ... yp[m - 1] = car;") when the modulus has an odd number n of limbs,
   REDC_1_TO_REDC_N_THRESHOLD <= n (100 here) and mpn_mulmod_bnm1_next_size(n) == n.
   Part 1 (deterministic): the modulus limbs live in a read-only mapping; the call faults.
   Part 2 (real threads): two threads raise their own bases to the same exponent modulo the SAME mpz_t; results are compared with the
   values a single thread computes.  Build: gcc -O1 -I<build> powm_shared_modulus.c <build>/.libs/libmpir.a -lpthread
   exit 0 = no write, no mismatch; exit 1 otherwise. */
#include <stdio.h>
#include <stdlib.h>
#include <string.h>
#include <signal.h>
#include <setjmp.h>
#include <pthread.h>
#include <sys/mman.h>
#include "mpir.h"
static sigjmp_buf jb;
static void on_segv(int s) { (void)s; siglongjmp(jb, 1); }
static mpz_t M, E, X[2], BASE[2];
static volatile int stop; static long mism[2], calls[2];
static void *worker(void *arg) { int t = (int)(long)arg; mpz_t r; mpz_init(r);
  while (!stop) { mpz_powm(r, BASE[t], E, M); calls[t]++; if (mpz_cmp(r, X[t])) mism[t]++; }
  mpz_clear(r); return NULL; }
int main(int argc, char **argv) {
  int n = 101, i, bad = 0, secs = argc > 1 ? atoi(argv[1]) : 10; gmp_randstate_t st; mpz_t r, rom; pthread_t th[2];
  gmp_randinit_default(st); gmp_randseed_ui(st, 7);
  mpz_init(M); mpz_init(E); mpz_init(r);
  mpz_urandomb(M, st, 64 * n); mpz_setbit(M, 64 * n - 1); mpz_setbit(M, 0);        /* odd, exactly n limbs */
  for (i = 0; i < 64 * n; i += 64) mpz_setbit(M, i + 63);                               /* high bits set in every limb: the mask changes the value */
  mpz_urandomb(E, st, 600);
  for (i = 0; i < 2; i++) { mpz_init(BASE[i]); mpz_init(X[i]); mpz_urandomb(BASE[i], st, 64 * n - 3); mpz_powm(X[i], BASE[i], E, M); }
  /* part 1 */
  { size_t bytes = ((size_t)n * 8 + 4095) / 4096 * 4096; char *m = mmap(NULL, bytes, PROT_READ | PROT_WRITE, MAP_PRIVATE | MAP_ANONYMOUS, -1, 0);
    memcpy(m, M->_mp_d, (size_t)n * 8); mprotect(m, bytes, PROT_READ);
    rom->_mp_d = (mp_limb_t *)m; rom->_mp_size = n; rom->_mp_alloc = n;
    signal(SIGSEGV, on_segv);
    if (sigsetjmp(jb, 1) == 0) { mpz_powm(r, BASE[0], E, rom); printf("part 1: modulus in read-only memory: no write\n"); }
    else { printf("part 1: mpz_powm WROTE into the limbs of its modulus operand (fault on a read-only mapping)\n"); bad = 1; }
    signal(SIGSEGV, SIG_DFL); }
  /* part 2 */
  for (i = 0; i < 2; i++) pthread_create(&th[i], NULL, worker, (void *)(long)i);
  { struct timespec ts = {secs, 0}; nanosleep(&ts, NULL); } stop = 1;
  for (i = 0; i < 2; i++) pthread_join(th[i], NULL);
  printf("part 2: %ld + %ld concurrent mpz_powm calls sharing one modulus object: %ld + %ld results differ from the single-threaded value\n", calls[0], calls[1], mism[0], mism[1]);
  if (mism[0] + mism[1]) bad = 1;
  printf(bad ? "FAIL\n" : "OK\n"); return bad; }
