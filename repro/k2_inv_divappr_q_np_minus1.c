/* mpn_inv_divappr_q reads np[-1], one limb BELOW the dividend {np, nn}, when nn - dn >= dn - 1.
   mpn/generic/inv_divappr_q.c: the last block "develops dn-1 quotient limbs plus a guard limb" by calling
   mpn_inv_divappr_q_n (qp, np - dn, ...) with np - dn = (start of the dividend) - 1 (and, for qn = dn - 1, np - qn - 2 = start - 1);
   mpn_inv_divappr_q_n reads the lowest limb of its 2*dn-limb dividend only on its "multiply out to get accurate quotient" path
   (lo == B-1 or B-2), e.g. for a divisor and dividend of all-one limbs.  The asserted domain is dn >= 6, nn > dn, divisor normalised.
   The library's own callers (mpn_tdiv_q, mpn_inv_div_q, mpn_divexact) pass the first limb of a TMP_ALLOC block as np.
   Here the dividend starts at the first limb of a page that follows an inaccessible page, so the stray read faults.
   Build:  B=/var/tmp/mpir-verif-cache-h2/6b8313db771e92f1-default
           gcc -O1 -I$B k2_inv_divappr_q_np_minus1.c $B/.libs/libmpir.a -o k2_inv_divappr_q_np_minus1 && ./k2_inv_divappr_q_np_minus1
   Expected (contract): no access outside {np,nn}, {dp,dn}, {dinv,dn}, {qp,nn-dn}.  Observed: SIGSEGV reading np[-1]. */
#include <stdio.h>
#include <signal.h>
#include <unistd.h>
#include <sys/mman.h>
#include "mpir.h"
#include "gmp-impl.h"
static void on_segv(int s) { static const char m[] = "DEFECT: mpn_inv_divappr_q accessed memory below np (SIGSEGV)\n"; (void)s; write(1, m, sizeof m - 1); _exit(1); }
int main(void) {
  enum { DN = 6, QN = 12, NN = DN + QN };
  long pg = sysconf(_SC_PAGESIZE); unsigned char *m = mmap(NULL, 2 * pg, PROT_READ | PROT_WRITE, MAP_PRIVATE | MAP_ANONYMOUS, -1, 0);
  mp_ptr np = (mp_ptr)(m + pg); mp_limb_t d[DN], inv[DN], q[QN], qh; int i;
  mprotect(m, pg, PROT_NONE);                           /* np[-1] is inaccessible */
  for (i = 0; i < DN; i++) d[i] = ~(mp_limb_t)0;        /* d = B^6 - 1 */
  for (i = 0; i < NN; i++) np[i] = ~(mp_limb_t)0;       /* n = B^18 - 1 */
  mpn_invert(inv, d, DN);
  signal(SIGSEGV, on_segv);
  qh = mpn_inv_divappr_q(q, np, NN, d, DN, inv);
  printf("qh = %lu q[0] = %016lx: no stray access\nok\n", (unsigned long)qh, (unsigned long)q[0]); return 0;
}
