/* mpn_hgcd (n = 3 or 4), b = 2a with a top limb of a below 2: returns 0 ("no reduction is possible") although it has
   subtracted a from b and recorded the step in M.   gcc -I<build> hgcd_double.c <build>/.libs/libmpir.a */
#include <stdio.h>
#include "mpir.h"
#include "gmp-impl.h"
int main(void) {
  mp_size_t n;
  for (n = 3; n <= 5; n++) {
    mp_limb_t a[8] = {0}, b[8] = {0}, m[64], t[64]; struct hgcd_matrix M; mp_size_t r, i;
    for (i = 0; i < n; i++) a[i] = 0x1234567 + i; a[n - 1] = 1; mpn_lshift(b, a, n, 1);
    mpn_hgcd_matrix_init(&M, n, m);
    r = mpn_hgcd(a, b, n, &M, t);
    printf("n=%ld: ret=%ld  b %s  M=(%lu %lu; %lu %lu)\n", (long)n, (long)r, mpn_cmp(a, b, n) == 0 ? "== a now (was 2a)" : "unchanged",
           M.p[0][0][0], M.p[0][1][0], M.p[1][0][0], M.p[1][1][0]);
  }
  return 0;
}
