// C20: stream insertion / extraction of mpz_class and mpq_class under every stream state of the rows TLC enumerates (CxxStreamModel.tla),
// side by side with the standard library on the equal long.  Events are decided by CxxStream.tla (SemN: cxx_ostream, cxx_ostream_q, cxx_istream,
// cxx_istream_q).  Rows file (written by lib/props.py from the TLC output), tab separated:
//   OS base adj showbase showpos upper width fill value(hex numeral) q(1: also format mpq_class values)
//   IS basefield skipws "json string"
#include <cstdio>
#include <cstdlib>
#include <cstring>
#include <sstream>
#include <string>
#include <vector>
#include <iomanip>
#include "mpirxx.h"
extern FILE *out;
using namespace std;
static string esc(const string &s) { string r; for (char c : s) { if (c == '"' || c == '\\') { r += '\\'; r += c; } else if ((unsigned char)c < 0x20) { char b[8]; snprintf(b, sizeof b, "\\u%04x", c); r += b; } else r += c; } return r; }
static string unesc(const string &s) {          // a JSON string literal incl. its quotes
  string r; size_t i = 1;
  while (i + 1 < s.size()) {
    char c = s[i++];
    if (c != '\\') { r += c; continue; }
    char d = s[i++];
    switch (d) { case 't': r += '\t'; break; case 'n': r += '\n'; break; case 'r': r += '\r'; break; case 'f': r += '\f'; break;
      case 'u': r += (char)strtol(s.substr(i, 4).c_str(), 0, 16); i += 4; break; default: r += d; }
  }
  return r;
}
static vector<string> split(const string &l) { vector<string> v; size_t p = 0; for (;;) { size_t q = l.find('\t', p); if (q == string::npos) { v.push_back(l.substr(p)); break; } v.push_back(l.substr(p, q - p)); p = q + 1; } return v; }
static ios::fmtflags basebits(const string &b) { return b == "dec" ? ios::dec : b == "oct" ? ios::oct : b == "hex" ? ios::hex : b == "octhex" ? (ios::oct | ios::hex) : ios::fmtflags(0); }
static ios::fmtflags adjbits(const string &a) { return a == "left" ? ios::left : a == "right" ? ios::right : a == "internal" ? ios::internal : a == "leftint" ? (ios::left | ios::internal) : ios::fmtflags(0); }
static const char *tf(bool b) { return b ? "true" : "false"; }

static void os_row(const vector<string> &f) {
  ios::fmtflags fl = basebits(f[1]) | adjbits(f[2]);
  bool sb = f[3] == "TRUE", sp = f[4] == "TRUE", uc = f[5] == "TRUE";
  if (sb) fl |= ios::showbase; if (sp) fl |= ios::showpos; if (uc) fl |= ios::uppercase;
  int w = atoi(f[6].c_str()); char fill = f[7][0];
  mpz_class z(f[8], 16);
  char st[256]; snprintf(st, sizeof st, "\"st\":{\"base\":\"%s\",\"adj\":\"%s\",\"showbase\":%s,\"showpos\":%s,\"upper\":%s},\"w\":%d,\"fill\":\"%c\"", f[1].c_str(), f[2].c_str(), tf(sb), tf(sp), tf(uc), w, fill);
  { // mpz_class, and the equal long under the same state
    ostringstream a; a.flags(fl); a.width(w); a.fill(fill); a << z; long wa = (long)a.width();
    // a second insertion into the same stream: the width must have been consumed by the first
    a << z; string both = a.str();
    string l; long wl = -1; int havel = z.fits_slong_p();
    if (havel) { ostringstream b; b.flags(fl); b.width(w); b.fill(fill); b << z.get_si(); wl = (long)b.width(); l = b.str(); }
    ostringstream c; c.flags(fl); c.width(w); c.fill(fill); c << z;
    fprintf(out, "{\"e\":\"fn\",\"f\":\"cxx_ostream\",\"i\":{%s,\"v\":\"%s\",\"havel\":%d},\"o\":{\"z\":\"%s\",\"wz\":%ld,\"zz\":\"%s\",\"l\":\"%s\",\"wl\":%ld}}\n", st, z.get_str(16).c_str(), havel,
            esc(c.str()).c_str(), wa, esc(both).c_str(), esc(l).c_str(), wl);
  }
  if (f[9] == "1") for (int d = 0; d < 2; d++) {      // mpq_class with denominator 1 and with a denominator that stays
    mpq_class q(z, d ? 29 : 1); q.canonicalize();
    ostringstream a; a.flags(fl); a.width(w); a.fill(fill); a << q;
    fprintf(out, "{\"e\":\"fn\",\"f\":\"cxx_ostream_q\",\"i\":{%s,\"n\":\"%s\",\"d\":\"%s\"},\"o\":{\"q\":\"%s\",\"wq\":%ld}}\n", st, q.get_num().get_str(16).c_str(), q.get_den().get_str(16).c_str(),
            esc(a.str()).c_str(), (long)a.width());
  }
}

static void is_row(const vector<string> &f) {
  ios::fmtflags fl = basebits(f[1]); bool skip = f[2] == "TRUE"; if (skip) fl |= ios::skipws;
  string text = unesc(f[3]);
  char in[64]; snprintf(in, sizeof in, "\"base\":\"%s\",\"skipws\":%s", f[1].c_str(), tf(skip));
  { istringstream is(text); is.flags(fl); streampos p0 = is.tellg();
    mpz_class z(0xDEAD); is >> z; int ok = is ? 1 : 0, eof = is.eof(); is.clear(); long pos = (long)(is.tellg() - p0); int nx = is.get(); string nxs; if (nx != EOF) nxs += (char)nx;
    istringstream ls(text); ls.flags(fl); long n = 0xDEAD; ls >> n; int lok = ls ? 1 : 0, leof = ls.eof(); ls.clear(); long lpos = (long)(ls.tellg() - p0);
    fprintf(out, "{\"e\":\"fn\",\"f\":\"cxx_istream\",\"i\":{%s,\"s\":\"%s\"},\"o\":{\"ok\":%d,\"v\":\"%s\",\"pos\":%ld,\"eof\":%d,\"next\":\"%s\",\"lok\":%d,\"lv\":\"%s\",\"lpos\":%ld,\"leof\":%d}}\n", in, esc(text).c_str(),
            ok, z.get_str(16).c_str(), pos, eof, esc(nxs).c_str(), lok, mpz_class(n).get_str(16).c_str(), lpos, leof); }
  { istringstream is(text); is.flags(fl); streampos p0 = is.tellg();
    mpq_class q(0xDEAD, 0xBEEF); is >> q; int ok = is ? 1 : 0, eof = is.eof(); is.clear(); long pos = (long)(is.tellg() - p0);
    fprintf(out, "{\"e\":\"fn\",\"f\":\"cxx_istream_q\",\"i\":{%s,\"s\":\"%s\"},\"o\":{\"ok\":%d,\"n\":\"%s\",\"d\":\"%s\",\"pos\":%ld,\"eof\":%d}}\n", in, esc(text).c_str(),
            ok, q.get_num().get_str(16).c_str(), q.get_den().get_str(16).c_str(), pos, eof); }
}

static string fvalj(mpf_srcptr x) {
  int n = x->_mp_size < 0 ? -x->_mp_size : x->_mp_size; string s = "{\"v\":\"";
  if (n == 0) s += "0"; else { if (x->_mp_size < 0) s += "-"; char b[24]; snprintf(b, sizeof b, "%lx", (unsigned long)x->_mp_d[n - 1]); s += b;
    for (int i = n - 2; i >= 0; i--) { snprintf(b, sizeof b, "%016lx", (unsigned long)x->_mp_d[i]); s += b; } }
  char t[96]; snprintf(t, sizeof t, "\",\"sz\":%d,\"exp\":%ld,\"prec\":%d}", (int)x->_mp_size, (long)x->_mp_exp, (int)x->_mp_prec); return s + t; }
static void fs_row(const vector<string> &f) {       // mpf_class extraction next to double extraction
  bool skip = f[1] == "TRUE"; ios::fmtflags fl = ios::dec; if (skip) fl |= ios::skipws;
  string text = unesc(f[2]);
  istringstream is(text); is.flags(fl); streampos p0 = is.tellg();
  mpf_class x(0.0, 128); mpf_set_ui(x.get_mpf_t(), 0xDEAD); is >> x; int ok = is ? 1 : 0, eof = is.eof(); is.clear(); long pos = (long)(is.tellg() - p0);
  istringstream ls(text); ls.flags(fl); double d = 0; ls >> d; int lok = ls ? 1 : 0; ls.clear(); long lpos = (long)(ls.tellg() - p0);
  fprintf(out, "{\"e\":\"fn\",\"f\":\"cxx_istream_f\",\"i\":{\"skipws\":%s,\"s\":\"%s\"},\"o\":{\"ok\":%d,\"f\":%s,\"pos\":%ld,\"eof\":%d,\"lok\":%d,\"lpos\":%ld}}\n", tf(skip), esc(text).c_str(),
          ok, fvalj(x.get_mpf_t()).c_str(), pos, eof, lok, lpos);
}

void stream_section(const char *rows) {
  FILE *f = fopen(rows, "r"); if (!f) { fprintf(stderr, "cannot read %s\n", rows); exit(3); }
  char *line = 0; size_t cap = 0; long k = 0;
  while (getline(&line, &cap, f) > 0) {
    string l(line); while (!l.empty() && (l.back() == '\n')) l.pop_back();
    if (l.empty()) continue;
    if (k % 400 == 0) fprintf(out, "{\"e\":\"reset\",\"drv\":\"cxxstream\",\"x\":%ld,\"seed\":\"0\"}\n", k / 400);
    k++;
    vector<string> v = split(l);
    if (v[0] == "OS" && v.size() == 10) os_row(v);
    else if (v[0] == "IS" && v.size() == 4) is_row(v);
    else if (v[0] == "FS" && v.size() == 3) fs_row(v);
    else { fprintf(stderr, "bad row: %s\n", l.c_str()); exit(3); }
  }
  free(line); fclose(f);
}
