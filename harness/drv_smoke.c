#include "rec.h"
/* straight-line smoke driver: exercises the recorder end to end */
void drv_smoke(int tier, unsigned long seed, const char *extra) {
  int x, i;
  for (x = 0; x < 3; x++) {
    rec_reset("smoke", x, seed);
    for (i = 0; i < 4; i++) callf("mpz_init", i);
    callf("mpz_set_ui", 0, (uint64_t)0xffffffffffffffffULL);
    callf("mpz_set_si", 1, (int64_t)-12345);
    callf("mpz_mul", 2, 0, 0);
    callf("mpz_mul", 2, 2, 2);
    callf("mpz_add", 3, 2, 1);
    callf("mpz_sub", 3, 3, 3);
    callf("mpz_mul", 0, 0, 2);
    callf("mpz_neg", 1, 0);
    callf("mpz_tdiv_qr", 2, 3, 1, 2);
    callf("mpz_get_str", 10, 1); rec_free_str(last_ret.str);
    for (i = 0; i < 4; i++) callf("mpz_clear", i);
    rec_quiesce();
  }
}
