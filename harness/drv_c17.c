/* C17: import/export, raw and text stream I/O under faults.  Streams are fopencookie objects: output streams accept only the
   first `fault` bytes (unbuffered, so every byte position can fail); input streams end after a prefix of the valid bytes. */
#define _GNU_SOURCE
#include "util.h"
#include <stdarg.h>
typedef struct { unsigned char *buf; size_t len, cap, pos; long fault; } mstream;
static ssize_t ms_write(void *c, const char *p, size_t n) {
  mstream *m = c; size_t room, k;
  if (m->fault >= 0) { room = (size_t)m->fault > m->len ? (size_t)m->fault - m->len : 0;
    if (n > room) { k = room; if (m->len + k > m->cap) { m->cap = 2 * (m->len + k) + 64; m->buf = realloc(m->buf, m->cap); } memcpy(m->buf + m->len, p, k); m->len += k; return k ? (ssize_t)k : 0; } }
  if (m->len + n > m->cap) { m->cap = 2 * (m->len + n) + 64; m->buf = realloc(m->buf, m->cap); }
  memcpy(m->buf + m->len, p, n); m->len += n; return n;
}
static ssize_t ms_read(void *c, char *p, size_t n) { mstream *m = c; size_t k = m->len - m->pos < n ? m->len - m->pos : n; memcpy(p, m->buf + m->pos, k); m->pos += k; return k; }
static FILE *ms_open_w(mstream *m, long fault) { cookie_io_functions_t io = {NULL, ms_write, NULL, NULL}; FILE *f; m->cap = 256; m->buf = malloc(m->cap); m->len = 0; m->pos = 0; m->fault = fault; f = fopencookie(m, "w", io); setvbuf(f, NULL, _IONBF, 0); return f; }
static FILE *ms_open_r(mstream *m, const unsigned char *data, size_t len) { cookie_io_functions_t io = {ms_read, NULL, NULL, NULL}; m->buf = malloc(len + 1); memcpy(m->buf, data, len); m->len = len; m->pos = 0; m->fault = -1; return fopencookie(m, "r", io); }
static char *hexbytes(const unsigned char *p, size_t n) { char *s = malloc(2 * n + 1); size_t i; for (i = 0; i < n; i++) sprintf(s + 2 * i, "%02x", p[i]); s[2 * n] = 0; return s; }
static void out_z(const char *k, mpz_srcptr z) { char *h = hex_of_limbs(PTR(z), ABSIZ(z), SIZ(z) < 0); fn_out_str(k, h); free(h); }
static void in_z(const char *k, mpz_srcptr z) { char *h = hex_of_limbs(PTR(z), ABSIZ(z), SIZ(z) < 0); fn_in_str(k, h); free(h); }
static int wf(mpz_srcptr z) { mp_size_t n = ABSIZ(z); return ALLOC(z) >= n && (n == 0 || PTR(z)[n - 1] != 0); }
static void rndv(mpz_ptr z, int limbs, int kind, int neg) { if (!limbs) { mpz_set_ui(z, 0); return; } _mpz_realloc(z, limbs); rnd_limbs(PTR(z), limbs, kind); SIZ(z) = limbs; MPN_NORMALIZE(PTR(z), SIZ(z)); if (neg) SIZ(z) = -SIZ(z); }

void drv_c17_export(int tier, unsigned long seed, const char *extra) {
  shard_t sh = shard_parse(extra); long x = 0; int size, order, endian, nl, li, mis; mpz_t v, w;
  static const int ls[] = {0, 1, 2, 3, 5, 12, 40};
  priv_begin(); mpz_init(v); mpz_init(w); priv_end();
  for (size = 1; size <= 16; size++) for (li = 0; li < (sh.pure ? 3 : 7); li++) {
    x++; if (!MINE(sh, x)) continue;
    if (sh.pure && (size > 2 || li > 1)) continue;
    rec_reset("c17_export", x, seed);
    for (order = -1; order <= 1; order += 2) for (endian = -1; endian <= 1; endian++) for (nl = 0; nl < 6; nl++) {
      int nails = nl == 0 ? 0 : nl == 1 ? 1 : nl == 2 ? 7 : nl == 3 ? 8 * size - 1 : nl == 4 ? (int)rnd_below(8 * size) : (size > 1 ? 8 : 3);
      size_t count = 0, need, i; unsigned char *raw, *buf; char *hb; int kind = (int)rnd_below(NKINDS), guard_ok = 1;
      if (nails >= 8 * size) continue;
      if (size > 4 && !tier && (nl + endian + order + li) % 3) continue;
      if (8 * size - nails < 4 && ls[li] > 3) continue;               /* keep word counts moderate */
      priv_begin(); rndv(v, ls[li], kind, (int)(rnd64() & 1)); priv_end();
      need = (mpz_sizeinbase(v, 2) + (8 * size - nails) - 1) / (8 * size - nails) * size + 64;
      mis = (int)rnd_below(8); raw = malloc(need + 32); memset(raw, 0xEE, need + 32); buf = raw + 8 + mis;
      fn_begin("mpz_export"); in_z("v", v); fn_in_int("order", order); fn_in_int("size", size); fn_in_int("endian", endian); fn_in_int("nails", nails); fn_in_int("mis", mis); fn_mid();
      mpz_export(buf, &count, order, size, endian, nails, v);
      for (i = 0; i < 8 + (size_t)mis; i++) if (raw[i] != 0xEE) guard_ok = 0; for (i = count * size; i < need - 16; i++) if (buf[i] != 0xEE) guard_ok = 0;
      hb = hexbytes(buf, count * size); fn_out_int("count", count); fn_out_str("bytes", hb); fn_out_int("guard", guard_ok); fn_end();
      /* import what was exported, then the same words with garbage in the nail bits */
      { int pass; for (pass = 0; pass < 2; pass++) {
          if (pass == 1) { if (!nails || !count) break; for (i = 0; i < count; i++) { size_t top = endian == 1 ? i * size : i * size + size - 1; buf[top] |= (unsigned char)(0xff << (8 - (nails > 8 ? 8 : nails))); } free(hb); hb = hexbytes(buf, count * size); }
          fn_begin("mpz_import"); fn_in_str("bytes", hb); fn_in_int("count", count); fn_in_int("order", order); fn_in_int("size", size); fn_in_int("endian", endian); fn_in_int("nails", nails); fn_mid();
          priv_begin(); mpz_set_ui(w, 12345); priv_end(); priv_begin(); mpz_import(w, count, order, size, endian, nails, buf); priv_end();
          out_z("v", w); fn_out_int("wf", wf(w)); fn_end(); } }
      free(hb); free(raw);
    }
  }
  priv_begin(); mpz_clear(v); mpz_clear(w); priv_end();
}

/* raw and text streams: every truncation point of a valid byte stream, every failing write position, arbitrary headers */
void drv_c17_stream(int tier, unsigned long seed, const char *extra) {
  shard_t sh = shard_parse(extra); long x = 0; int li, k, s; mpz_t v, w; mpq_t q, q2; mpf_t f1, f2;
  static const int ls[] = {0, 1, 1, 2, 3, 5};
  priv_begin(); mpz_init(v); mpz_init(w); mpq_init(q); mpq_init(q2); mpf_init2(f1, 192); mpf_init2(f2, 192); priv_end();
  for (li = 0; li < 6; li++) for (k = 0; k < (sh.pure ? 2 : (tier ? 40 : 10)); k++) for (s = 0; s < 2; s++) {
    mstream m; FILE *fp; size_t ret, full, t; char *hb; unsigned char *valid; int base;
    x++; if (!MINE(sh, x)) continue;
    rec_reset("c17_stream", x, seed);
    priv_begin(); rndv(v, ls[li], (int)rnd_below(NKINDS), s); if (li == 2) mpz_set_si(v, s ? -(long)rnd_below(300) : (long)rnd_below(300)); priv_end();
    /* ---- out_raw: no fault, then a failing write at every byte position */
    fp = ms_open_w(&m, -1); ret = mpz_out_raw(fp, v); fclose(fp); full = m.len; valid = malloc(full + 1); memcpy(valid, m.buf, full);
    fn_begin("mpz_out_raw"); in_z("v", v); fn_in_int("fault", -1); fn_mid(); hb = hexbytes(m.buf, m.len); fn_out_int("ret", ret); fn_out_str("bytes", hb); fn_end(); free(hb); free(m.buf);
    for (t = 0; t < full; t++) { fn_begin("mpz_out_raw"); in_z("v", v); fn_in_int("fault", t); fn_mid(); fp = ms_open_w(&m, t); ret = mpz_out_raw(fp, v); fclose(fp); hb = hexbytes(m.buf, m.len); fn_out_int("ret", ret); fn_out_str("bytes", hb); fn_end(); free(hb); free(m.buf); }
    /* ---- inp_raw: the valid stream and every truncation of it; destination keeps an old value first */
    for (t = 0; t <= full; t++) {
      hb = hexbytes(valid, t); fn_begin("mpz_inp_raw"); fn_in_str("bytes", hb); fn_mid();
      priv_begin(); mpz_set_si(w, -777); priv_end(); fp = ms_open_r(&m, valid, t); priv_begin(); ret = mpz_inp_raw(w, fp); priv_end(); fclose(fp); free(m.buf);
      fn_out_int("ret", ret); out_z("v", w); fn_out_int("wf", wf(w)); fn_end(); free(hb);
      priv_begin(); mpz_set_ui(w, 5); mpz_mul(w, w, w); priv_end();                      /* the destination can still be reassigned */
    }
    /* arbitrary headers: counts that disagree with the data, leading zero data bytes, negative counts */
    { int h; for (h = 0; h < 6; h++) { unsigned char hd[64]; size_t dl = rnd_below(20), cnt = h == 0 ? dl : h == 1 ? dl + 1 + rnd_below(5) : h == 2 ? (dl ? dl - 1 : 0) : h == 3 ? 0 : rnd_below(40); int neg = (int)(rnd64() & 1), i; int32_t c = neg ? -(int32_t)cnt : (int32_t)cnt;
        hd[0] = (unsigned char)(c >> 24); hd[1] = (unsigned char)(c >> 16); hd[2] = (unsigned char)(c >> 8); hd[3] = (unsigned char)c; for (i = 0; i < (int)dl; i++) hd[4 + i] = (h == 4 && i < 3) ? 0 : (unsigned char)rnd64();
        hb = hexbytes(hd, 4 + dl); fn_begin("mpz_inp_raw"); fn_in_str("bytes", hb); fn_mid();
        fp = ms_open_r(&m, hd, 4 + dl); priv_begin(); ret = mpz_inp_raw(w, fp); priv_end(); fclose(fp); free(m.buf);
        fn_out_int("ret", ret); out_z("v", w); fn_out_int("wf", wf(w)); fn_end(); free(hb); } }
    free(valid);
    /* ---- out_str / inp_str in a seeded base */
    base = (k % 3 == 0) ? -(2 + (int)rnd_below(35)) : 2 + (int)rnd_below(61);
    fp = ms_open_w(&m, -1); ret = mpz_out_str(fp, base, v); fclose(fp); full = m.len; valid = malloc(full + 8); memcpy(valid, m.buf, full); valid[full] = 0;
    fn_begin("mpz_out_str"); in_z("v", v); fn_in_int("base", base); fn_in_int("fault", -1); fn_mid(); fn_out_int("ret", ret); fn_out_strn("text", (char *)m.buf, m.len); fn_end(); free(m.buf);
    for (t = 0; t < full; t++) { fn_begin("mpz_out_str"); in_z("v", v); fn_in_int("base", base); fn_in_int("fault", t); fn_mid(); fp = ms_open_w(&m, t); ret = mpz_out_str(fp, base, v); fclose(fp); fn_out_int("ret", ret); fn_out_strn("text", (char *)m.buf, m.len); fn_end(); free(m.buf); }
    for (t = 0; t <= full + 2; t++) { char txt[4096]; size_t L; int ab = base < 0 ? -base : base;
      /* prefix of the valid text; beyond the end: trailing white space / a terminator character */
      if (full + 8 > sizeof txt - 8) break;
      snprintf(txt, sizeof txt, "%s%.*s%s", (t % 3 == 1) ? " \n" : "", (int)(t <= full ? t : full), (char *)valid, t == full + 1 ? " " : t == full + 2 ? "~9" : ""); L = strlen(txt);
      fn_begin("mpz_inp_str"); fn_in_str("text", txt); fn_in_int("base", ab); fn_mid();
      fp = ms_open_r(&m, (unsigned char *)txt, L); priv_begin(); priv_begin(); mpz_set_si(w, 99); priv_end(); ret = mpz_inp_str(w, fp, ab); priv_end(); fclose(fp); free(m.buf);
      fn_out_int("ret", ret); out_z("v", w); fn_out_int("wf", wf(w)); fn_end(); }
    free(valid);
    /* ---- mpq text round trip and faults */
    priv_begin(); mpz_set(mpq_numref(q), v); rndv(mpq_denref(q), 1 + (int)rnd_below(2), 0, 0); if (!mpz_sgn(mpq_denref(q))) mpz_set_ui(mpq_denref(q), 3); mpq_canonicalize(q); priv_end();
    { int ab = base < 0 ? -base : base;
      fp = ms_open_w(&m, -1); ret = mpq_out_str(fp, base, q); fclose(fp); full = m.len; valid = malloc(full + 1); memcpy(valid, m.buf, full);
      fn_begin("mpq_out_str"); in_z("n", mpq_numref(q)); in_z("d", mpq_denref(q)); fn_in_int("base", base); fn_in_int("fault", -1); fn_mid(); fn_out_int("ret", ret); fn_out_strn("text", (char *)m.buf, m.len); fn_end(); free(m.buf);
      for (t = 0; t < full; t += 1 + full / 12) { fn_begin("mpq_out_str"); in_z("n", mpq_numref(q)); in_z("d", mpq_denref(q)); fn_in_int("base", base); fn_in_int("fault", t); fn_mid(); fp = ms_open_w(&m, t); ret = mpq_out_str(fp, base, q); fclose(fp); fn_out_int("ret", ret); fn_out_strn("text", (char *)m.buf, m.len); fn_end(); free(m.buf); }
      for (t = 0; t <= full; t += (t + 1 + full / 12 > full && t != full) ? full - t : 1 + full / 12) { char txt[4096]; if (full > 4000) break; memcpy(txt, valid, t); txt[t] = 0;
        fn_begin("mpq_inp_str"); fn_in_str("text", txt); in_z("n", mpq_numref(q)); in_z("d", mpq_denref(q)); fn_in_int("base", ab); fn_in_int("whole", t == full); fn_mid();
        fp = ms_open_r(&m, (unsigned char *)txt, t); priv_begin(); ret = mpq_inp_str(q2, fp, ab); priv_end(); fclose(fp); free(m.buf);
        fn_out_int("ret", ret); out_z("n", mpq_numref(q2)); out_z("d", mpq_denref(q2)); fn_out_int("wf", wf(mpq_numref(q2)) && wf(mpq_denref(q2))); fn_end(); if (t == full) break; }
      free(valid); }
    /* ---- mpf: out_str then inp_str through a stream in a power-of-two base (exact digits), and failing writes */
    { static const int pb[] = {2, 4, 8, 16, 32, -16, -2, -32, -8, -4}; int b2 = pb[k % 10], ab2 = b2 < 0 ? -b2 : b2; long fl;      /* negative: upper case digits */
      priv_begin(); mpz_tdiv_r_2exp(w, v, 120); mpf_set_z(f1, w);      /* at most 120 significant bits: every digit is printed at this precision */
      if (k % 2) mpf_div_2exp(f1, f1, rnd_below(90)); else mpf_mul_2exp(f1, f1, rnd_below(90)); priv_end();
      size_t ndg = (k % 3 == 0) ? 70000 : 0;      /* 70000 requested digits: the digit buffer is a heap block (beyond the 65536-byte stack limit of TMP_ALLOC), which a failing write must still release; the text is the same, every digit of a <= 120-bit value in a power-of-two base is significant */
      fp = ms_open_w(&m, -1); ret = mpf_out_str(fp, b2, ndg, f1); fclose(fp); full = m.len;
      for (fl = -1; fl < (long)full; fl += (fl < 0 ? 1 : 1 + (long)full / 10)) { size_t wret, rret = 0; int same = 0; mstream m2;
        fn_begin("mpf_out_inp_str"); fn_in_int("base", b2); fn_in_int("fault", fl); fn_in_int("full", full); fn_mid();
        fp = ms_open_w(&m2, fl); wret = mpf_out_str(fp, b2, ndg, f1); fclose(fp);
        if (fl < 0) { FILE *fr = ms_open_r(&m, m2.buf, m2.len); priv_begin(); rret = mpf_inp_str(f2, fr, -ab2); priv_end(); fclose(fr); same = mpf_cmp(f1, f2) == 0; free(m.buf); if (!same && getenv("HX_DEBUG")) gmp_fprintf(stderr, "DBG base %d f1=%.80Fe (size %d exp %ld) f2=%.80Fe (size %d exp %ld)\n", b2, f1, (int)f1->_mp_size, (long)f1->_mp_exp, f2, (int)f2->_mp_size, (long)f2->_mp_exp); if (!same && getenv("HX_DEBUG")) { int i_; for (i_ = 0; i_ < 5; i_++) fprintf(stderr, " f1[%d]=%lx f2[%d]=%lx", i_, f1->_mp_d[i_], i_, f2->_mp_d[i_]); fprintf(stderr, "\n"); } }
        fn_out_int("wret", wret); fn_out_int("rret", rret); fn_out_int("same", same); fn_out_strn("text", (char *)m2.buf, m2.len); fn_end(); free(m2.buf); } }
    /* ---- gmp_fprintf: -1 when a write fails */
    { char expect[512]; int n = gmp_snprintf(expect, sizeof expect, "[%Zd|%5d|%Zx]", v, 42, v); long fl;
      if (n > 0 && n < (int)sizeof expect) for (fl = -1; fl < n; fl++) { int r;
        fn_begin("gmp_fprintf"); fn_in_str("expect", expect); fn_in_int("fault", fl); fn_mid(); fp = ms_open_w(&m, fl); r = gmp_fprintf(fp, "[%Zd|%5d|%Zx]", v, 42, v); fclose(fp);
        fn_out_int("ret", r); fn_out_strn("text", (char *)m.buf, m.len); fn_end(); free(m.buf); } }
  }
  priv_begin(); mpz_clear(v); mpz_clear(w); mpq_clear(q); mpq_clear(q2); mpf_clear(f1); mpf_clear(f2); priv_end();
}

/* c17_corners: the text and raw stream functions on corner-alphabet operands (every integer of up to 3 limbs over {0, 1, 2^63, 2^64-1}; every
   numerator/denominator PAIR of up to 2 limbs each, plus 3-limb denominators, made canonical) -- no faults, whole round trips.  The limb values that make a
   single-limb shortcut lie about a longer operand (low limb 1 or 0 under higher limbs, all ones) are enumerated here, not hoped for. */
static int corner_z(mpz_ptr z, long t, int n) {        /* tuple index t -> n limbs over the alphabet; returns 0 when the top limb is zero */
  static const mp_limb_t al[4] = {0, 1, (mp_limb_t)1 << 63, ~(mp_limb_t)0}; int k;
  _mpz_realloc(z, n); for (k = 0; k < n; k++) { PTR(z)[k] = al[t & 3]; t >>= 2; } SIZ(z) = n; return PTR(z)[n - 1] != 0;
}
void drv_c17_corners(int tier, unsigned long seed, const char *extra) {
  shard_t sh = shard_parse(extra); long x = 0, tn, td; int nn, nd, bi; mpz_t w; mpq_t q, q2;
  static const int bases[] = {10, 16, 62, -16, 3, 36};
  priv_begin(); mpz_init(w); mpq_init(q); mpq_init(q2); priv_end();
  for (nd = 1; nd <= 3; nd++) for (td = 0; td < (1L << (2 * nd)); td++) for (nn = 1; nn <= (nd == 3 ? 1 : 2); nn++) for (tn = 0; tn < (1L << (2 * nn)); tn++) {
    mstream m; FILE *fp; size_t ret, full; unsigned char *valid; int ok;
    x++; if (!MINE(sh, x)) continue;
    if (sh.pure && (nd > 1 || nn > 1)) continue;
    priv_begin(); ok = corner_z(mpq_denref(q), td, nd) && corner_z(mpq_numref(q), tn, nn); if (ok) { if ((tn + td) & 1) mpz_neg(mpq_numref(q), mpq_numref(q)); mpq_canonicalize(q); } priv_end();
    if (!ok) continue;
    rec_reset("c17_corners", x, seed);
    for (bi = 0; bi < (tier ? 6 : 3); bi++) { int base = bases[(bi + x) % 6], ab = base < 0 ? -base : base; char txt[1024];
      fp = ms_open_w(&m, -1); ret = mpq_out_str(fp, base, q); fclose(fp); full = m.len; valid = malloc(full + 1); memcpy(valid, m.buf, full);
      fn_begin("mpq_out_str"); in_z("n", mpq_numref(q)); in_z("d", mpq_denref(q)); fn_in_int("base", base); fn_in_int("fault", -1); fn_mid(); fn_out_int("ret", ret); fn_out_strn("text", (char *)m.buf, m.len); fn_end(); free(m.buf);
      if (full < sizeof txt - 1) { memcpy(txt, valid, full); txt[full] = 0;
        fn_begin("mpq_inp_str"); fn_in_str("text", txt); in_z("n", mpq_numref(q)); in_z("d", mpq_denref(q)); fn_in_int("base", ab); fn_in_int("whole", 1); fn_mid();
        fp = ms_open_r(&m, (unsigned char *)txt, full); priv_begin(); ret = mpq_inp_str(q2, fp, ab); priv_end(); fclose(fp); free(m.buf);
        fn_out_int("ret", ret); out_z("n", mpq_numref(q2)); out_z("d", mpq_denref(q2)); fn_out_int("wf", wf(mpq_numref(q2)) && wf(mpq_denref(q2))); fn_end(); }
      free(valid);
      /* the denominator alone as an integer: text and raw */
      if (nn == 1 && tn == 1) { mpz_srcptr v = mpq_denref(q); char *hb;
        fp = ms_open_w(&m, -1); ret = mpz_out_str(fp, base, v); fclose(fp); full = m.len;
        fn_begin("mpz_out_str"); in_z("v", v); fn_in_int("base", base); fn_in_int("fault", -1); fn_mid(); fn_out_int("ret", ret); fn_out_strn("text", (char *)m.buf, m.len); fn_end();
        if (full < sizeof txt - 1) { memcpy(txt, m.buf, full); txt[full] = 0; free(m.buf);
          fn_begin("mpz_inp_str"); fn_in_str("text", txt); fn_in_int("base", ab); fn_mid();
          fp = ms_open_r(&m, (unsigned char *)txt, full); priv_begin(); mpz_set_si(w, 99); ret = mpz_inp_str(w, fp, ab); priv_end(); fclose(fp); free(m.buf);
          fn_out_int("ret", ret); out_z("v", w); fn_out_int("wf", wf(w)); fn_end(); } else free(m.buf);
        if (bi == 0) { unsigned char *raw;
          fp = ms_open_w(&m, -1); ret = mpz_out_raw(fp, v); fclose(fp); full = m.len; raw = malloc(full + 1); memcpy(raw, m.buf, full);
          fn_begin("mpz_out_raw"); in_z("v", v); fn_in_int("fault", -1); fn_mid(); hb = hexbytes(m.buf, m.len); fn_out_int("ret", ret); fn_out_str("bytes", hb); fn_end(); free(m.buf);
          fn_begin("mpz_inp_raw"); fn_in_str("bytes", hb); fn_mid();
          fp = ms_open_r(&m, raw, full); priv_begin(); mpz_set_si(w, -777); ret = mpz_inp_raw(w, fp); priv_end(); fclose(fp); free(m.buf);
          fn_out_int("ret", ret); out_z("v", w); fn_out_int("wf", wf(w)); fn_end(); free(hb); free(raw); } }
    }
  }
  priv_begin(); mpz_clear(w); mpq_clear(q); mpq_clear(q2); priv_end();
}

/* R3: replays the (function, value, fault position) behaviours enumerated by TLC (IOModel with EMIT): lines "fn value pos" */
void drv_c17_replay(int tier, unsigned long seed, const char *extra) {
  shard_t sh = shard_parse(extra); const char *path = opt_val(&sh, "file"); FILE *lf; char fn[32]; long v, t, lines = 0; mpz_t z, w;
  if (!path || !(lf = fopen(path, "r"))) { fprintf(stderr, "c17_replay: no file\n"); exit(3); }
  priv_begin(); mpz_init(z); mpz_init(w); priv_end();
  rec_reset("c17_replay", sh.k, seed);
  while (fscanf(lf, "%31s %ld %ld", fn, &v, &t) == 3) {
    mstream m; FILE *fp; size_t ret; char *hb;
    lines++; if (!MINE(sh, lines)) continue;
    priv_begin(); mpz_set_si(z, v); priv_end();
    if (!strcmp(fn, "out_raw")) { size_t full; fp = ms_open_w(&m, -1); mpz_out_raw(fp, z); fclose(fp); full = m.len; free(m.buf);
      fn_begin("mpz_out_raw"); in_z("v", z); fn_in_int("fault", t >= (long)full ? -1 : t); fn_mid(); fp = ms_open_w(&m, t >= (long)full ? -1 : t); ret = mpz_out_raw(fp, z); fclose(fp); hb = hexbytes(m.buf, m.len); fn_out_int("ret", ret); fn_out_str("bytes", hb); fn_end(); free(hb); free(m.buf); }
    else if (!strcmp(fn, "inp_raw")) { unsigned char *valid; size_t full; fp = ms_open_w(&m, -1); mpz_out_raw(fp, z); fclose(fp); full = m.len; valid = m.buf; if ((size_t)t > full) t = full;
      hb = hexbytes(valid, t); fn_begin("mpz_inp_raw"); fn_in_str("bytes", hb); fn_mid(); { mstream r; fp = ms_open_r(&r, valid, t); priv_begin(); mpz_set_si(w, -777); ret = mpz_inp_raw(w, fp); priv_end(); fclose(fp); free(r.buf); }
      fn_out_int("ret", ret); out_z("v", w); fn_out_int("wf", wf(w)); fn_end(); free(hb); free(valid); }
    else if (!strcmp(fn, "out_str")) { size_t full; fp = ms_open_w(&m, -1); mpz_out_str(fp, 10, z); fclose(fp); full = m.len; free(m.buf);
      fn_begin("mpz_out_str"); in_z("v", z); fn_in_int("base", 10); fn_in_int("fault", t >= (long)full ? -1 : t); fn_mid(); fp = ms_open_w(&m, t >= (long)full ? -1 : t); ret = mpz_out_str(fp, 10, z); fclose(fp); fn_out_int("ret", ret); fn_out_strn("text", (char *)m.buf, m.len); fn_end(); free(m.buf); }
    else if (!strcmp(fn, "inp_str")) { char txt[64]; size_t L; gmp_snprintf(txt, sizeof txt, "%Zd", z); L = strlen(txt); if ((size_t)t < L) txt[t] = 0; L = strlen(txt);
      fn_begin("mpz_inp_str"); fn_in_str("text", txt); fn_in_int("base", 10); fn_mid(); fp = ms_open_r(&m, (unsigned char *)txt, L); priv_begin(); mpz_set_si(w, 99); ret = mpz_inp_str(w, fp, 10); priv_end(); fclose(fp); free(m.buf);
      fn_out_int("ret", ret); out_z("v", w); fn_out_int("wf", wf(w)); fn_end(); }
  }
  fclose(lf); priv_begin(); mpz_clear(z); mpz_clear(w); priv_end();
}
