// C20: conversions, constructors from strings/numbers, stream insertion/extraction, get_str agree with the C-level functions.
// Events are validated by the same specification (ParseNum / GetStrText of SemIO / SemZ).
#include <cstdio>
#include <sstream>
#include <string>
#include <iomanip>
#include "mpirxx.h"
extern FILE *out;
static std::string esc(const std::string &s) { std::string r; for (char c : s) { if (c == '"' || c == '\\') { r += '\\'; r += c; } else if ((unsigned char)c < 0x20) { char b[8]; snprintf(b, sizeof b, "\\u%04x", c); r += b; } else r += c; } return r; }
void conv_section(void) {
  static const char *strs[] = {"0", "-0", "123", "-9876543210123456789012345678901234567890", "0x1F", "0b101", "017", " 42", "12a", "", "-", "ffff", "zz", "1 000"};
  static const int bases[] = {0, 10, 16, 2, 8, 36};
  for (const char *s : strs) for (int b : bases) {
    mpz_class z(77); int r = z.set_str(s, b);
    fprintf(out, "{\"e\":\"fn\",\"f\":\"cxx_set_str\",\"i\":{\"s\":\"%s\",\"base\":%d},\"o\":{\"ret\":%d,\"v\":\"%s\"}}\n", esc(s).c_str(), b, r, z.get_str(16).c_str());
    try { mpz_class y(s, b); fprintf(out, "{\"e\":\"fn\",\"f\":\"cxx_ctor_str\",\"i\":{\"s\":\"%s\",\"base\":%d},\"o\":{\"threw\":0,\"v\":\"%s\"}}\n", esc(s).c_str(), b, y.get_str(16).c_str()); }
    catch (std::invalid_argument &) { fprintf(out, "{\"e\":\"fn\",\"f\":\"cxx_ctor_str\",\"i\":{\"s\":\"%s\",\"base\":%d},\"o\":{\"threw\":1,\"v\":\"0\"}}\n", esc(s).c_str(), b); }
  }
  static const char *vals[] = {"0", "1", "-1", "ff", "-123456789abcdef0123456789abcdef", "7fffffffffffffff", "-8000000000000000", "10000000000000000"};
  for (const char *v : vals) {
    mpz_class z(v, 16);
    for (int b = 2; b <= 62; b += (b < 17 ? 1 : 9)) fprintf(out, "{\"e\":\"fn\",\"f\":\"cxx_get_str\",\"i\":{\"v\":\"%s\",\"base\":%d},\"o\":{\"s\":\"%s\"}}\n", z.get_str(16).c_str(), b, esc(z.get_str(b)).c_str());
    { std::ostringstream os; os << z; fprintf(out, "{\"e\":\"fn\",\"f\":\"cxx_get_str\",\"i\":{\"v\":\"%s\",\"base\":10},\"o\":{\"s\":\"%s\"}}\n", z.get_str(16).c_str(), esc(os.str()).c_str()); }
    { std::ostringstream os; os << std::hex << z; fprintf(out, "{\"e\":\"fn\",\"f\":\"cxx_get_str\",\"i\":{\"v\":\"%s\",\"base\":16},\"o\":{\"s\":\"%s\"}}\n", z.get_str(16).c_str(), esc(os.str()).c_str()); }
    { std::ostringstream os; os << z; std::istringstream is(os.str()); mpz_class y; is >> y; fprintf(out, "{\"e\":\"fn\",\"f\":\"cxx_roundtrip\",\"i\":{\"v\":\"%s\"},\"o\":{\"v\":\"%s\"}}\n", z.get_str(16).c_str(), y.get_str(16).c_str()); }
    // conversions to C types agree with the C getters / fits predicates
    fprintf(out, "{\"e\":\"fn\",\"f\":\"cxx_get\",\"i\":{\"v\":\"%s\"},\"o\":{\"fits_si\":%d,\"fits_ui\":%d,\"si\":\"%s\",\"ui\":\"%s\"}}\n", z.get_str(16).c_str(), (int)z.fits_si_p(), (int)z.fits_ui_p(),
            mpz_class(z.get_si()).get_str(16).c_str(), mpz_class(z.get_ui()).get_str(16).c_str());
    // constructors from numbers
    if (z.fits_si_p()) { mpz_class y(z.get_si()); fprintf(out, "{\"e\":\"fn\",\"f\":\"cxx_roundtrip\",\"i\":{\"v\":\"%s\"},\"o\":{\"v\":\"%s\"}}\n", z.get_str(16).c_str(), y.get_str(16).c_str()); }
    { mpq_class q(z, 7); q.canonicalize(); std::ostringstream os; os << q; std::istringstream is(os.str()); mpq_class p; is >> p;
      fprintf(out, "{\"e\":\"fn\",\"f\":\"cxx_roundtrip\",\"i\":{\"v\":\"%s\"},\"o\":{\"v\":\"%s\"}}\n", q.get_num().get_str(16).c_str(), p.get_num().get_str(16).c_str()); }
  }
}
