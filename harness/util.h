#ifndef VERIF_UTIL_H
#define VERIF_UTIL_H
#include "rec.h"
/* shard "k/N[,opt...]" */
typedef struct { int k, n; int pure; char opts[4096]; } shard_t;
shard_t shard_parse(const char *extra);
#define MINE(sh, x) (((x) % (sh).n) == (sh).k)
int opt_has(const shard_t *s, const char *name);

/* guarded limb buffers: slot s (0..GB_SLOTS-1) can hold up to GB_MAX limbs; the returned block either ends exactly at a
   PROT_NONE page (end=1) or starts right after one (end=0), so an access one limb outside faults */
#define GB_SLOTS 10
#define GB_MAX (1L << 19)
mp_ptr gb_get(int slot, mp_size_t n, int end);
void gb_fill(mp_ptr p, mp_size_t n);     /* poison */
char *cbuf_end(size_t bytes);            /* a poisoned byte buffer of exactly that size ending at an inaccessible page (slot GB_SLOTS-1) */

void drv_setz(mpz_ptr z, const char *hex);            /* sets z from a hex numeral without using the library's parser */
void drv_rndz(mpz_ptr z, int limbs, int kind, int neg);
void drv_setf(mpf_ptr f, const char *hexmant, long exp);   /* mantissa limbs from a hex numeral (at most prec+1 limbs, top limb non-zero), exponent in limbs */
char *hex_of_limbs(const mp_limb_t *p, mp_size_t n, int neg);   /* malloc'd */
/* representative operand sizes around a threshold t */
int sizes_around(int *out, int max, const int *thr, int nthr, int lo, int hi);
const char *opt_val(const shard_t *s, const char *key);   /* ",key=value," -> value (static buffer) or NULL */
/* harness-private computations with the library (building operands): allocator events are not logged; every
   temporary must be initialised and cleared inside the same window */
void priv_begin(void); void priv_end(void);
void pool_set_from(int i, mpz_srcptr v);      /* recorded as drv_setz(i, hex of v) */
#endif
