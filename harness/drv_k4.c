/* K4: direct conformance events for the internal building blocks of Toom and FFT multiplication (contracts: spec/SemK4.tla).
   k4_toomeval: mpn_toom_eval_pm1, _pm2, _pm2exp, _pm2rexp, _dgr3_pm1, _dgr3_pm2, mpn_toom_couple_handling
   k4_fftmod:   mpn_normmod_2expp1, mpn_mul_2expmod_2expp1, mpn_div_2expmod_2expp1, mpir_fft_adjust, mpir_fft_adjust_sqrt2,
                mpir_butterfly_lshB / rshB, mpir_fft_butterfly / ifft_butterfly (+ _sqrt2, _twiddle), mpir_fermat_to_mpz, mpir_revbin
   k4_fft:      mpir_fft_split_bits / combine_bits, mpir_fft_radix2 / ifft_radix2, mpir_fft_trunc / ifft_trunc, mpir_fft_negacyclic / ifft_negacyclic,
                mpn_mul_fft_main
   k4_toom:     mpn_toom_interpolate_16pts, mpn_toom3_mul(_n), mpn_toom4_mul(_n), mpn_toom32/42/53_mul, mpn_toom8h_mul, mpn_toom{3,4,8}_sqr_n with exact scratch
   Every operand, result and scratch area is a guarded buffer of exactly the size the routine's source states; the specification decides. */
#include "util.h"

static int k4_sizes(int *out, int tier) {   /* n = 1..30 and a few larger */
  static const int ext_q[] = {33, 47, 64, 100, 250}, ext_t[] = {31, 32, 40, 57, 85, 128, 171, 400, 1000};
  int c = 0, i; for (i = 1; i <= 30; i++) out[c++] = i; for (i = 0; i < 5; i++) out[c++] = ext_q[i]; if (tier) for (i = 0; i < 9; i++) out[c++] = ext_t[i]; return c;
}

/* ------------------------------------------------------------------ k4_toomeval */
/* A polynomial of degree k: pieces 0..k-1 have n limbs, piece k has hn limbs, stored consecutively at x. */
static mp_size_t psize(int i, int k, mp_size_t n, mp_size_t hn) { return i < k ? n : hn; }
/* pieces such that the value at the negative point is exactly zero: for every pair (2j, 2j+1) one piece is 2^sh times the other
   (forward points +-2^sh: even = odd << sh; reversed points +-2^-sh: odd = even << sh); an unpaired top piece is zero */
static void pieces_zero_at_minus(mp_ptr x, int k, mp_size_t n, mp_size_t hn, unsigned sh, int rev) {
  int j; mp_size_t i;
  for (i = 0; i < k * n + hn; i++) x[i] = 0;
  for (j = 0; 2 * j + 1 <= k; j++) {
    mp_size_t se = psize(2 * j, k, n, hn), so = psize(2 * j + 1, k, n, hn), m = se < so ? se : so;
    mp_ptr pe = x + 2 * j * n, po = x + (2 * j + 1) * n, small = rev ? pe : po, big = rev ? po : pe;
    rnd_limbs(small, m, (int)rnd_below(NKINDS)); small[m - 1] &= ~(mp_limb_t)0 >> (sh + 1);
    if (sh) mpn_lshift(big, small, m, sh); else MPN_COPY(big, small, m);
  }
}
enum { TE_PM1, TE_PM2, TE_PM2EXP, TE_PM2REXP, TE_D3PM1, TE_D3PM2 };
static const char *te_name[] = {"mpn_toom_eval_pm1", "mpn_toom_eval_pm2", "mpn_toom_eval_pm2exp", "mpn_toom_eval_pm2rexp", "mpn_toom_eval_dgr3_pm1", "mpn_toom_eval_dgr3_pm2"};
static void ev_toomeval(int which, int k, mp_size_t n, mp_size_t hn, unsigned sh, int kind, int adv, int place) {
  mp_size_t xn = k * n + hn, i; int ret = 0, esh = which == TE_PM1 || which == TE_D3PM1 ? 0 : which == TE_PM2 || which == TE_D3PM2 ? 1 : (int)sh;
  mp_ptr x = gb_get(0, xn, place), rp = gb_get(1, n + 1, place), rm = gb_get(2, n + 1, !place), tp = gb_get(3, n + 1, place);
  rnd_limbs(x, xn, kind);
  switch (adv) {
  case 1: for (i = 0; i < xn; i++) x[i] = ~(mp_limb_t)0; break;                                          /* all-ones pieces */
  case 2: { int j; for (j = 0; j <= k; j++) if (rnd_below(2)) for (i = 0; i < psize(j, k, n, hn); i++) x[j * n + i] = 0; } break;   /* zero pieces */
  case 3: for (i = 0; i < xn; i++) x[i] = 0; x[xn - 1] = (mp_limb_t)1 << 63; if (rnd_below(2)) x[n - 1] = (mp_limb_t)1 << 63; break;    /* single top bit */
  case 4: pieces_zero_at_minus(x, k, n, hn, esh, which == TE_PM2REXP); break;                              /* value at the negative point = 0 */
  case 5: pieces_zero_at_minus(x, k, n, hn, esh, which == TE_PM2REXP); x[0] += 1; break;                   /* ... = +1 (reversed: +2^(s*q)) */
  case 6: pieces_zero_at_minus(x, k, n, hn, esh, which == TE_PM2REXP); x[n] += 1; break;                   /* ... negative by one unit */
  case 7: { int j; for (j = 0; j <= k; j++) for (i = 0; i < psize(j, k, n, hn); i++) x[j * n + i] = (j & 1) ? ~(mp_limb_t)0 : 0; } break;   /* odd pieces all ones, even pieces zero: most negative */
  default: break; }
  fn_begin(te_name[which]); fn_in_limbs("x", x, xn); fn_in_int("k", k); fn_in_int("n", n); fn_in_int("hn", hn); if (which == TE_PM2EXP || which == TE_PM2REXP) fn_in_int("sh", sh);
  fn_mid(); gb_fill(rp, n + 1); gb_fill(rm, n + 1); gb_fill(tp, n + 1);
  switch (which) {
  case TE_PM1: ret = mpn_toom_eval_pm1(rp, rm, k, x, n, hn, tp); break;
  case TE_PM2: ret = mpn_toom_eval_pm2(rp, rm, k, x, n, hn, tp); break;
  case TE_PM2EXP: ret = mpn_toom_eval_pm2exp(rp, rm, k, x, n, hn, sh, tp); break;
  case TE_PM2REXP: ret = mpn_toom_eval_pm2rexp(rp, rm, k, x, n, hn, sh, tp); break;
  case TE_D3PM1: ret = mpn_toom_eval_dgr3_pm1(rp, rm, x, n, hn, tp); break;
  default: ret = mpn_toom_eval_dgr3_pm2(rp, rm, x, n, hn, tp); break; }
  fn_out_limbs("p", rp, n + 1); fn_out_limbs("m", rm, n + 1); fn_out_int("ret", ret); fn_end();
}
/* mpn_toom_couple_handling: {pp,n} = E + O, {np,n} = |E - O| with E = e << ns (even part), O = o << ps (odd part), nsign = E < O */
static void ev_couple(mp_size_t n, mp_size_t off, int ps, int ns, int kind, int adv, int place) {
  mp_ptr pp = gb_get(0, n + off, place), np = gb_get(1, n, place), e = gb_get(2, n, 0), o = gb_get(3, n, 0); int nsign; mp_size_t i;
  rnd_limbs(e, n, kind); rnd_limbs(o, n, (kind + 2) % NKINDS);
  if (adv == 1) for (i = 0; i < n; i++) e[i] = o[i] = ~(mp_limb_t)0;
  if (adv == 2) for (i = 0; i < n; i++) e[i] = 0;
  if (adv == 3) for (i = 0; i < n; i++) o[i] = 0;
  if (adv == 4) for (i = 0; i < n; i++) e[i] = o[i] = 0;
  e[n - 1] &= ~(mp_limb_t)0 >> (ns + 2); o[n - 1] &= ~(mp_limb_t)0 >> (ps + 2);      /* E, O < B^n / 4: the sum and the recomposition stay inside their limbs (the callers' values have a small top limb) */
  if (ns) mpn_lshift(e, e, n, ns); if (ps) mpn_lshift(o, o, n, ps);
  if (adv == 5) { MPN_COPY(o, e, n); if (ps) { mpn_rshift(o, o, n, ps); mpn_lshift(o, o, n, ps); } if (ns) { mpn_rshift(o, o, n, ns); mpn_lshift(o, o, n, ns); } MPN_COPY(e, o, n); }   /* E = O: the difference is zero */
  nsign = mpn_cmp(e, o, n) < 0; if (adv == 5 || adv == 4) nsign = (int)rnd_below(2);
  gb_fill(pp, n + off); mpn_add_n(pp, e, o, n); if (nsign && mpn_cmp(e, o, n) <= 0) mpn_sub_n(np, o, e, n); else mpn_sub_n(np, e, o, n);
  fn_begin("mpn_toom_couple_handling"); fn_in_limbs("p", pp, n); fn_in_limbs("m", np, n); fn_in_int("n", n); fn_in_int("nsign", nsign); fn_in_int("off", off); fn_in_int("ps", ps); fn_in_int("ns", ns);
  fn_mid(); mpn_toom_couple_handling(pp, n, np, nsign, off, ps, ns); fn_out_limbs("r", pp, n + off); fn_out_limbs("np", np, n); fn_end();
}
void drv_k4_toomeval(int tier, unsigned long seed, const char *extra) {
  shard_t sh = shard_parse(extra); long x = 0; int ns[64], nn, i, k, hs, w, kind, adv;
  nn = k4_sizes(ns, tier); if (sh.pure) nn = 3;
  for (i = 0; i < nn; i++) for (k = 3; k <= 13; k++) for (hs = 0; hs < 3; hs++) {
    mp_size_t n = ns[i], hn = hs == 0 ? 1 : hs == 1 ? n : 1 + (mp_size_t)rnd_below(n); int nk = tier ? NKINDS : 1, c = i + k + hs;
    x++; if (!MINE(sh, x)) continue;
    rec_reset("k4_toomeval", x, seed);
    for (w = 0; w < 6; w++) {
      unsigned s = 1 + (unsigned)((c + w) % 4);            /* shifts 1..4 (the callers use 1, 2, 3); ASSERT shift*k < GMP_NUMB_BITS */
      if (w == TE_PM1 && k < 4) continue;                  /* toom_eval_pm1.c: ASSERT(k>3) */
      if ((w == TE_D3PM1 || w == TE_D3PM2) && k != 3 && (c % 4)) continue;     /* degree 3 only: k is ignored; repeated for other contents */
      while (s * k >= 64) s--;
      for (kind = 0; kind < nk; kind++) ev_toomeval(w, (w == TE_D3PM1 || w == TE_D3PM2) ? 3 : k, n, hn, s, tier ? kind : (c + w) % NKINDS, 0, (c + w) & 1);
      for (adv = 1; adv <= 7; adv++) { if (!tier && adv != 1 + (c + w) % 7 && adv != 1 + (c + 3 * w + 3) % 7) continue; ev_toomeval(w, (w == TE_D3PM1 || w == TE_D3PM2) ? 3 : k, n, hn, s, (c + adv) % NKINDS, adv, (c + adv) & 1); }
    }
  }
  /* couple handling: the callers pass n = 2m+1 (+1), off = m, (ps, ns) in {(0,0) (1,0) (1,2) (2,0) (2,4) (3,0) (3,6) (2,1) (4,2) (6,3)} */
  { static const int psns[][2] = {{0, 0}, {1, 0}, {1, 2}, {2, 0}, {2, 4}, {3, 0}, {3, 6}, {2, 1}, {4, 2}, {6, 3}}; int j;
    for (i = 0; i < nn; i++) {
      mp_size_t m = ns[i];
      x++; if (!MINE(sh, x)) continue;
      rec_reset("k4_toomeval", x, seed);
      for (j = 0; j < 10; j++) for (adv = 0; adv <= 5; adv++) { if (!tier && adv && adv != 1 + (i + j) % 5) continue;
        ev_couple(2 * m + 1, m, psns[j][0], psns[j][1], (i + j + adv) % NKINDS, adv, j & 1);
        if (adv == 0) ev_couple(2 * m + 2, m, psns[j][0], psns[j][1], (i + j + 3) % NKINDS, 0, !(j & 1)); }
    }
  }
}
