/* K4: direct conformance events for the internal building blocks of Toom and FFT multiplication (contracts: spec/SemK4.tla).
   k4_toomeval: mpn_toom_eval_pm1, _pm2, _pm2exp, _pm2rexp, _dgr3_pm1, _dgr3_pm2, mpn_toom_couple_handling
   k4_fftmod:   mpn_normmod_2expp1, mpn_mul_2expmod_2expp1, mpn_div_2expmod_2expp1, mpir_fft_adjust, mpir_fft_adjust_sqrt2,
                mpir_butterfly_lshB / rshB, mpir_fft_butterfly / ifft_butterfly (+ _sqrt2, _twiddle), mpir_fermat_to_mpz, mpir_revbin
   k4_fft:      mpir_fft_split_bits / combine_bits, mpir_fft_radix2 / ifft_radix2, mpir_fft_trunc / ifft_trunc, mpir_fft_negacyclic / ifft_negacyclic,
                mpn_mul_fft_main
   k4_toom:     mpn_toom_interpolate_16pts, mpn_toom3_mul(_n), mpn_toom4_mul(_n), mpn_toom32/42/53_mul, mpn_toom8h_mul, mpn_toom{3,4,8}_sqr_n with exact scratch
   Every operand, result and scratch area is a guarded buffer of exactly the size the routine's source states; the specification decides. */
#include "util.h"

static int k4_sizes(int *out, int tier) {   /* n = 1..30 and a few larger */
  static const int ext_q[] = {33, 47, 64, 100, 250}, ext_t[] = {31, 32, 40, 57, 85, 128, 171, 400, 1000};
  int c = 0, i; for (i = 1; i <= 30; i++) out[c++] = i; for (i = 0; i < 5; i++) out[c++] = ext_q[i]; if (tier) for (i = 0; i < 9; i++) out[c++] = ext_t[i]; return c;
}

/* ------------------------------------------------------------------ k4_toomeval */
/* A polynomial of degree k: pieces 0..k-1 have n limbs, piece k has hn limbs, stored consecutively at x. */
static mp_size_t psize(int i, int k, mp_size_t n, mp_size_t hn) { return i < k ? n : hn; }
/* pieces such that the value at the negative point is exactly zero: for every pair (2j, 2j+1) one piece is 2^sh times the other
   (forward points +-2^sh: even = odd << sh; reversed points +-2^-sh: odd = even << sh); an unpaired top piece is zero */
static void pieces_zero_at_minus(mp_ptr x, int k, mp_size_t n, mp_size_t hn, unsigned sh, int rev) {
  int j; mp_size_t i;
  for (i = 0; i < k * n + hn; i++) x[i] = 0;
  for (j = 0; 2 * j + 1 <= k; j++) {
    mp_size_t se = psize(2 * j, k, n, hn), so = psize(2 * j + 1, k, n, hn), m = se < so ? se : so;
    mp_ptr pe = x + 2 * j * n, po = x + (2 * j + 1) * n, small = rev ? pe : po, big = rev ? po : pe;
    rnd_limbs(small, m, (int)rnd_below(NKINDS)); small[m - 1] &= ~(mp_limb_t)0 >> (sh + 1);
    if (sh) mpn_lshift(big, small, m, sh); else MPN_COPY(big, small, m);
  }
}
enum { TE_PM1, TE_PM2, TE_PM2EXP, TE_PM2REXP, TE_D3PM1, TE_D3PM2 };
static const char *te_name[] = {"mpn_toom_eval_pm1", "mpn_toom_eval_pm2", "mpn_toom_eval_pm2exp", "mpn_toom_eval_pm2rexp", "mpn_toom_eval_dgr3_pm1", "mpn_toom_eval_dgr3_pm2"};
static void ev_toomeval(int which, int k, mp_size_t n, mp_size_t hn, unsigned sh, int kind, int adv, int place) {
  mp_size_t xn = k * n + hn, i; int ret = 0, esh = which == TE_PM1 || which == TE_D3PM1 ? 0 : which == TE_PM2 || which == TE_D3PM2 ? 1 : (int)sh;
  mp_ptr x = gb_get(0, xn, place), rp = gb_get(1, n + 1, place), rm = gb_get(2, n + 1, !place), tp = gb_get(3, n + 1, place);
  rnd_limbs(x, xn, kind);
  switch (adv) {
  case 1: for (i = 0; i < xn; i++) x[i] = ~(mp_limb_t)0; break;                                          /* all-ones pieces */
  case 2: { int j; for (j = 0; j <= k; j++) if (rnd_below(2)) for (i = 0; i < psize(j, k, n, hn); i++) x[j * n + i] = 0; } break;   /* zero pieces */
  case 3: for (i = 0; i < xn; i++) x[i] = 0; x[xn - 1] = (mp_limb_t)1 << 63; if (rnd_below(2)) x[n - 1] = (mp_limb_t)1 << 63; break;    /* single top bit */
  case 4: pieces_zero_at_minus(x, k, n, hn, esh, which == TE_PM2REXP); break;                              /* value at the negative point = 0 */
  case 5: pieces_zero_at_minus(x, k, n, hn, esh, which == TE_PM2REXP); x[0] += 1; break;                   /* ... = +1 (reversed: +2^(s*q)) */
  case 6: pieces_zero_at_minus(x, k, n, hn, esh, which == TE_PM2REXP); x[n] += 1; break;                   /* ... negative by one unit */
  case 7: { int j; for (j = 0; j <= k; j++) for (i = 0; i < psize(j, k, n, hn); i++) x[j * n + i] = (j & 1) ? ~(mp_limb_t)0 : 0; } break;   /* odd pieces all ones, even pieces zero: most negative */
  default: break; }
  fn_begin(te_name[which]); fn_in_limbs("x", x, xn); fn_in_int("k", k); fn_in_int("n", n); fn_in_int("hn", hn); if (which == TE_PM2EXP || which == TE_PM2REXP) fn_in_int("sh", sh);
  fn_mid(); gb_fill(rp, n + 1); gb_fill(rm, n + 1); gb_fill(tp, n + 1);
  switch (which) {
  case TE_PM1: ret = mpn_toom_eval_pm1(rp, rm, k, x, n, hn, tp); break;
  case TE_PM2: ret = mpn_toom_eval_pm2(rp, rm, k, x, n, hn, tp); break;
  case TE_PM2EXP: ret = mpn_toom_eval_pm2exp(rp, rm, k, x, n, hn, sh, tp); break;
  case TE_PM2REXP: ret = mpn_toom_eval_pm2rexp(rp, rm, k, x, n, hn, sh, tp); break;
  case TE_D3PM1: ret = mpn_toom_eval_dgr3_pm1(rp, rm, x, n, hn, tp); break;
  default: ret = mpn_toom_eval_dgr3_pm2(rp, rm, x, n, hn, tp); break; }
  fn_out_limbs("p", rp, n + 1); fn_out_limbs("m", rm, n + 1); fn_out_int("ret", ret); fn_end();
}
/* mpn_toom_couple_handling: {pp,n} = E + O, {np,n} = |E - O| with E = e << ns (even part), O = o << ps (odd part), nsign = E < O */
static void ev_couple(mp_size_t n, mp_size_t off, int ps, int ns, int kind, int adv, int place) {
  mp_ptr pp = gb_get(0, n + off, place), np = gb_get(1, n, place), e = gb_get(2, n, 0), o = gb_get(3, n, 0); int nsign; mp_size_t i;
  rnd_limbs(e, n, kind); rnd_limbs(o, n, (kind + 2) % NKINDS);
  if (adv == 1) for (i = 0; i < n; i++) e[i] = o[i] = ~(mp_limb_t)0;
  if (adv == 2) for (i = 0; i < n; i++) e[i] = 0;
  if (adv == 3) for (i = 0; i < n; i++) o[i] = 0;
  if (adv == 4) for (i = 0; i < n; i++) e[i] = o[i] = 0;
  e[n - 1] &= ~(mp_limb_t)0 >> (ns + 2); o[n - 1] &= ~(mp_limb_t)0 >> (ps + 2);      /* E, O < B^n / 4: the sum and the recomposition stay inside their limbs (the callers' values have a small top limb) */
  if (ns) mpn_lshift(e, e, n, ns); if (ps) mpn_lshift(o, o, n, ps);
  if (adv == 5) { MPN_COPY(o, e, n); if (ps) { mpn_rshift(o, o, n, ps); mpn_lshift(o, o, n, ps); } if (ns) { mpn_rshift(o, o, n, ns); mpn_lshift(o, o, n, ns); } MPN_COPY(e, o, n); }   /* E = O: the difference is zero */
  nsign = mpn_cmp(e, o, n) < 0; if (adv == 5 || adv == 4) nsign = (int)rnd_below(2);
  gb_fill(pp, n + off); mpn_add_n(pp, e, o, n); if (nsign && mpn_cmp(e, o, n) <= 0) mpn_sub_n(np, o, e, n); else mpn_sub_n(np, e, o, n);
  fn_begin("mpn_toom_couple_handling"); fn_in_limbs("p", pp, n); fn_in_limbs("m", np, n); fn_in_int("n", n); fn_in_int("nsign", nsign); fn_in_int("off", off); fn_in_int("ps", ps); fn_in_int("ns", ns);
  fn_mid(); mpn_toom_couple_handling(pp, n, np, nsign, off, ps, ns); fn_out_limbs("r", pp, n + off); fn_out_limbs("np", np, n); fn_end();
}
void drv_k4_toomeval(int tier, unsigned long seed, const char *extra) {
  shard_t sh = shard_parse(extra); long x = 0; int ns[64], nn, i, k, hs, w, kind, adv;
  nn = k4_sizes(ns, tier); if (sh.pure) nn = 3;
  for (i = 0; i < nn; i++) for (k = 3; k <= 13; k++) for (hs = 0; hs < 3; hs++) {
    mp_size_t n = ns[i], hn = hs == 0 ? 1 : hs == 1 ? n : 1 + (mp_size_t)rnd_below(n); int nk = tier ? NKINDS : 1, c = i + k + hs;
    if (!tier && hs == (i + k) % 3 && hs != 1) continue;                               /* quick: two of the three top-piece sizes */
    if (n > 30 && k != 3 && k != 4 && k != 7 && k != 8 && k != 12 && !(tier && n < 200)) continue;   /* larger n: the degrees of toom8h / toom8_sqr (p, q - 1) */
    x++; if (!MINE(sh, x)) continue;
    rec_reset("k4_toomeval", x, seed);
    for (w = 0; w < 6; w++) {
      unsigned s = 1 + (unsigned)((c + w) % 4);            /* shifts 1..4 (the callers use 1, 2, 3); ASSERT shift*k < GMP_NUMB_BITS */
      if (w == TE_PM1 && k < 4) continue;                  /* toom_eval_pm1.c: ASSERT(k>3) */
      if ((w == TE_D3PM1 || w == TE_D3PM2) && k != 3 && (c % 4)) continue;     /* degree 3 only: k is ignored; repeated for other contents */
      while (s * k >= 64) s--;
      for (kind = 0; kind < nk; kind++) ev_toomeval(w, (w == TE_D3PM1 || w == TE_D3PM2) ? 3 : k, n, hn, s, tier ? kind : (c + w) % NKINDS, 0, (c + w) & 1);
      for (adv = 1; adv <= 7; adv++) { if (!tier && adv != 1 + (c + w) % 7 && adv != 1 + (c + 3 * w + 3) % 7) continue; ev_toomeval(w, (w == TE_D3PM1 || w == TE_D3PM2) ? 3 : k, n, hn, s, (c + adv) % NKINDS, adv, (c + adv) & 1); }
    }
  }
  /* couple handling: the callers pass n = 2m+1 (+1), off = m, (ps, ns) in {(0,0) (1,0) (1,2) (2,0) (2,4) (3,0) (3,6) (2,1) (4,2) (6,3)} */
  { static const int psns[][2] = {{0, 0}, {1, 0}, {1, 2}, {2, 0}, {2, 4}, {3, 0}, {3, 6}, {2, 1}, {4, 2}, {6, 3}}; int j;
    for (i = 0; i < nn; i++) {
      mp_size_t m = ns[i];
      x++; if (!MINE(sh, x)) continue;
      rec_reset("k4_toomeval", x, seed);
      for (j = 0; j < 10; j++) for (adv = 0; adv <= 5; adv++) { if (!tier && adv && adv != 1 + (i + j) % 5) continue;
        ev_couple(2 * m + 1, m, psns[j][0], psns[j][1], (i + j + adv) % NKINDS, adv, j & 1);
        if (adv == 0) ev_couple(2 * m + 2, m, psns[j][0], psns[j][1], (i + j + 3) % NKINDS, 0, !(j & 1)); }
    }
  }
}

/* ------------------------------------------------------------------ k4_fftmod */
/* Residues mod p = 2^(64*limbs) + 1 are {t, limbs+1} read as a two's complement number (fft/fermat_to_mpz.c: "hi = i[limbs]; if (hi < 0L) mpn_neg_n ..."):
   the top limb is a signed excess.  The in-tree tests draw operands with mpir_random_fermat (gmp-impl.h): limbs random, top limb in (-1024, 1024). */
#define NRES 20
static void res_fill(mp_ptr p, mp_size_t L, int sel) {
  mp_size_t i; mp_limb_t ones = ~(mp_limb_t)0;
  switch (sel) {
  case 0: case 1: case 2: case 3: case 4: case 5: case 6: rnd_limbs(p, L, sel); p[L] = (mp_limb_t)((long)rnd_below(2047) - 1023); break;   /* as mpir_random_fermat */
  case 7: rnd_limbs(p, L, 0); p[L] = 0; break;
  case 8: rnd_limbs(p, L, 3); p[L] = 1; break;
  case 9: rnd_limbs(p, L, 0); p[L] = ones; break;
  case 10: rnd_limbs(p, L, 1); p[L] = 1023; break;
  case 11: rnd_limbs(p, L, 4); p[L] = (mp_limb_t)-1023L; break;
  case 12: for (i = 0; i < L; i++) p[i] = 0; p[L] = 1; break;                  /* 2^(nw) = p - 1 = -1 mod p */
  case 13: for (i = 0; i < L; i++) p[i] = 0; p[0] = 1; p[L] = 1; break;        /* p itself */
  case 14: for (i = 0; i < L; i++) p[i] = 0; p[L] = ones; break;               /* -2^(nw) = 1 mod p */
  case 15: for (i = 0; i <= L; i++) p[i] = ones; break;                        /* -1 */
  case 16: for (i = 0; i <= L; i++) p[i] = 0; break;                           /* 0 */
  case 17: for (i = 0; i < L; i++) p[i] = ones; p[L] = 0; break;               /* 2^(nw) - 1 */
  case 18: for (i = 0; i < L; i++) p[i] = 0; p[L - 1] = (mp_limb_t)1 << 63; p[L] = 0; break;   /* single top bit */
  default: for (i = 0; i < L; i++) p[i] = ones; p[L] = 1; break;               /* 2^(nw+1) - 1 */
  }
}
enum { FM_NORM, FM_MUL, FM_DIV, FM_ADJ, FM_ADJS, FM_LSHB, FM_RSHB, FM_BFLY, FM_IBFLY, FM_BFLYS, FM_IBFLYS, FM_BTW, FM_IBTW };
/* one-operand routines */
static void ev_fm1(int which, mp_size_t L, int sel, long a1, long a2, int inplace, int place) {
  mp_ptr a = gb_get(0, L + 1, place), r = inplace ? a : gb_get(1, L + 1, !place), tmp = gb_get(2, L + 1, place); mp_size_t i;
  res_fill(a, L, sel);
  if (which == FM_NORM && sel < 12 && sel % 3 == 0) a[L] = rnd64();          /* tests/fft/t-normmod_2expp1.c: "mpn_rrandom(nn, state, limbs + 1)": any top limb */
  if (which == FM_NORM && sel == 10) a[L] = ~(mp_limb_t)0 >> 1;
  if (which == FM_NORM && sel == 11) a[L] = (mp_limb_t)1 << 63;
  fn_begin(which == FM_NORM ? "mpn_normmod_2expp1" : which == FM_MUL ? "mpn_mul_2expmod_2expp1" : which == FM_DIV ? "mpn_div_2expmod_2expp1" : which == FM_ADJ ? "mpir_fft_adjust" : "mpir_fft_adjust_sqrt2");
  fn_in_limbs("a", a, L + 1); fn_in_int("limbs", L);
  if (which == FM_MUL || which == FM_DIV) fn_in_int("d", a1);
  if (which == FM_ADJ || which == FM_ADJS) { fn_in_int("i", a1); fn_in_int("w", a2); }
  fn_mid(); if (!inplace) gb_fill(r, L + 1); gb_fill(tmp, L + 1);
  switch (which) {
  case FM_NORM: mpn_normmod_2expp1(a, L); r = a; break;
  case FM_MUL: mpn_mul_2expmod_2expp1(r, a, L, (mp_bitcnt_t)a1); break;
  case FM_DIV: mpn_div_2expmod_2expp1(r, a, L, (mp_bitcnt_t)a1); break;
  case FM_ADJ: mpir_fft_adjust(r, a, a1, L, (mp_bitcnt_t)a2); break;
  default: mpir_fft_adjust_sqrt2(r, a, a1, L, (mp_bitcnt_t)a2, tmp); break; }
  (void)i; fn_out_limbs("r", r, L + 1); fn_end();
}
/* two-operand butterflies: outputs in separate buffers; the inverse forms may clobber their inputs (logged before the call) */
static void ev_fm2(int which, mp_size_t L, int sel1, int sel2, long a1, long a2, int place) {
  static const char *nm[] = {"", "", "", "", "", "mpir_butterfly_lshB", "mpir_butterfly_rshB", "mpir_fft_butterfly", "mpir_ifft_butterfly", "mpir_fft_butterfly_sqrt2", "mpir_ifft_butterfly_sqrt2",
                             "mpir_fft_butterfly_twiddle", "mpir_ifft_butterfly_twiddle"};
  mp_ptr a = gb_get(0, L + 1, place), b = gb_get(1, L + 1, !place), s = gb_get(2, L + 1, place), t = gb_get(3, L + 1, !place), tmp = gb_get(4, L + 1, place);
  res_fill(a, L, sel1); res_fill(b, L, sel2);
  fn_begin(nm[which]); fn_in_limbs("a", a, L + 1); fn_in_limbs("b", b, L + 1); fn_in_int("limbs", L);
  if (which == FM_LSHB || which == FM_RSHB) { fn_in_int("x", a1); fn_in_int("y", a2); }
  else if (which == FM_BTW || which == FM_IBTW) { fn_in_int("b1", a1); fn_in_int("b2", a2); }
  else { fn_in_int("i", a1); fn_in_int("w", a2); }
  fn_mid(); gb_fill(s, L + 1); gb_fill(t, L + 1); gb_fill(tmp, L + 1);
  switch (which) {
  case FM_LSHB: mpir_butterfly_lshB(s, t, a, b, L, a1, a2); break;
  case FM_RSHB: mpir_butterfly_rshB(s, t, a, b, L, a1, a2); break;
  case FM_BFLY: mpir_fft_butterfly(s, t, a, b, a1, L, (mp_bitcnt_t)a2); break;
  case FM_IBFLY: mpir_ifft_butterfly(s, t, a, b, a1, L, (mp_bitcnt_t)a2); break;
  case FM_BFLYS: mpir_fft_butterfly_sqrt2(s, t, a, b, a1, L, (mp_bitcnt_t)a2, tmp); break;
  case FM_IBFLYS: mpir_ifft_butterfly_sqrt2(s, t, a, b, a1, L, (mp_bitcnt_t)a2, tmp); break;
  case FM_BTW: mpir_fft_butterfly_twiddle(s, t, a, b, L, (mp_bitcnt_t)a1, (mp_bitcnt_t)a2); break;
  default: mpir_ifft_butterfly_twiddle(s, t, a, b, L, (mp_bitcnt_t)a1, (mp_bitcnt_t)a2); break; }
  fn_out_limbs("s", s, L + 1); fn_out_limbs("t", t, L + 1); fn_end();
}
static void ev_fermat(mp_size_t L, int sel, int place) {
  mp_ptr a = gb_get(0, L + 1, place); mpz_t m; char *h, *q; long sz;
  res_fill(a, L, sel); if (sel % 4 == 1) a[L] = rnd64();
  fn_begin("mpir_fermat_to_mpz"); fn_in_limbs("a", a, L + 1); fn_in_int("limbs", L); fn_mid();
  priv_begin(); mpz_init(m); mpir_fermat_to_mpz(m, a, L); sz = SIZ(m); h = hex_of_limbs(PTR(m), ABSIZ(m), SIZ(m) < 0); mpz_clear(m); priv_end();
  q = malloc(strlen(h) + 3); sprintf(q, "\"%s\"", h); fn_out_raw("v", q); fn_out_int("sz", sz); fn_end(); free(q); free(h);
}
void drv_k4_fftmod(int tier, unsigned long seed, const char *extra) {
  shard_t sh = shard_parse(extra); long x = 0; int ns[64], nn, i, r, c; static const int ds[] = {0, 1, 31, 32, 63};
  nn = k4_sizes(ns, tier); if (sh.pure) nn = 3;
  for (i = 0; i < nn; i++) for (r = 0; r < (tier ? 6 : 2); r++) {
    mp_size_t L = ns[i]; long wn = 64 * L; int sel;
    x++; if (!MINE(sh, x)) continue;
    rec_reset("k4_fftmod", x, seed);
    for (sel = 0; sel < NRES; sel++) {
      int s2 = (int)rnd_below(NRES), pl = (sel + r) & 1; long d = sel < 5 ? ds[sel] : (long)rnd_below(64), w, n, k, j, ii, b1, b2;
      c = sel + r + i;
      ev_fm1(FM_NORM, L, sel, 0, 0, 1, pl);
      ev_fm1(FM_MUL, L, sel, d, 0, c & 1, pl); ev_fm1(FM_DIV, L, sel, ds[c % 5], 0, !(c & 1), pl);
      if (sel >= 12) { ev_fm1(FM_MUL, L, sel, 63, 0, 1, pl); ev_fm1(FM_DIV, L, sel, 63, 0, 0, pl); ev_fm1(FM_DIV, L, sel, 1, 0, 1, pl); }
      /* FFT parameters as in the tests: limbs*64 = n*w with w = j*k, k a power of two, j dividing limbs */
      j = 1; if (c % 3) { long cand[] = {L, 3, 5, 7, 9, 2, 4}; j = cand[rnd_below(7)]; if (L % j) j = 1; }
      k = 1L << rnd_below(7); w = j * k; n = wn / w;
      ii = c % 4 == 0 ? 0 : c % 4 == 1 ? n - 1 : (long)rnd_below(n);
      ev_fm1(FM_ADJ, L, sel, ii, w, 0, pl);
      if (c % 5 == 0) ev_fm1(FM_ADJ, L, sel, n, w, 0, pl);                          /* i*w = limbs*64: multiplication by -1 (fft/ifft_negacyclic.c passes n - i/2 with i = 0) */
      ev_fm2(FM_BFLY, L, sel, s2, ii, w, pl); ev_fm2(FM_IBFLY, L, s2, sel, ii, w, !pl);
      /* sqrt2 forms: the callers use them for odd w and odd i < 2n only (fft_negacyclic.c / fft_trunc_sqrt2.c: "if (w & 1)" ... i odd) */
      { long jo = j; while (!(jo & 1)) jo >>= 1; if (L % jo) jo = 1; w = jo; n = wn / w; ii = 1 + 2 * (long)rnd_below(n); if (c % 6 == 0) ii = 1; if (c % 6 == 1) ii = 2 * n - 1;
        ev_fm1(FM_ADJS, L, sel, ii, w, 0, pl); ev_fm2(FM_BFLYS, L, sel, s2, ii, w, pl); ev_fm2(FM_IBFLYS, L, s2, sel, ii, w, !pl); }
      { long xx = c % 3 == 0 ? 0 : (long)rnd_below(L), yy = c % 4 == 0 ? 0 : c % 4 == 1 ? xx : (long)rnd_below(L);
        ev_fm2(FM_LSHB, L, sel, s2, xx, yy, pl); ev_fm2(FM_RSHB, L, s2, sel, yy, xx, !pl); }
      b1 = c % 4 == 0 ? 0 : (long)rnd_below(c % 2 ? wn : 2 * wn); b2 = c % 5 == 0 ? wn : (long)rnd_below(c % 3 ? wn : 2 * wn);
      ev_fm2(FM_BTW, L, sel, s2, b1, b2, pl); ev_fm2(FM_IBTW, L, s2, sel, b2, b1, !pl);
      ev_fermat(L, sel, pl);
    }
  }
  /* mpir_revbin: every input for widths 0..8, then samples up to 24 bits */
  x++; if (MINE(sh, x)) { long bits, v;
    rec_reset("k4_fftmod", x, seed);
    for (bits = 0; bits <= 24; bits++) for (v = 0; v < (1L << bits); v += (bits <= 8 ? 1 : 1 + (long)rnd_below((1L << bits) / 40))) {
      fn_begin("mpir_revbin"); fn_in_int("v", v); fn_in_int("bits", bits); fn_mid(); fn_out_int("r", (long)mpir_revbin((mp_limb_t)v, (mp_limb_t)bits)); fn_end(); }
  }
}

/* ------------------------------------------------------------------ k4_toom */
/* The Toom routines and mpn_mul_fft_main entered directly, on the shapes for which mpn_mul / mpn_mul_n / mpn_sqr (mpn/generic/mul.c, mul_n.c) select them
   (the selection below repeats mul.c line by line), with exactly the scratch the dispatcher allocates, on operands built from PIECES of the size the
   routine splits at: all-ones / zero pieces, single top bit, pieces making the evaluation at -1 / -2 zero, just positive, just negative. */
enum { TM_NONE, TM_TOOM3, TM_TOOM32, TM_TOOM42, TM_TOOM4, TM_TOOM53, TM_TOOM8H, TM_FFT };
static int mul_label(mp_size_t un, mp_size_t vn, int *parts) {       /* un > vn: the unbalanced part of mpn_mul */
  mp_size_t k, l;
  if (vn < MUL_KARATSUBA_THRESHOLD) return TM_NONE;
  if (ABOVE_THRESHOLD(un + vn, 2 * MUL_FFT_FULL_THRESHOLD) && ABOVE_THRESHOLD(3 * vn, MUL_FFT_FULL_THRESHOLD)) { *parts = 8; return TM_FFT; }
  k = (un + 3) / 4;
  if (ABOVE_THRESHOLD(un + vn, 2 * MUL_TOOM8H_THRESHOLD) && vn >= 86 && 4 * un <= 13 * vn) { *parts = 8; return TM_TOOM8H; }
  if (ABOVE_THRESHOLD(un + vn, 2 * MUL_TOOM4_THRESHOLD)) {
    if (vn > 3 * k) { *parts = 4; return TM_TOOM4; }
    l = (un + 4) / 5;
    if ((((vn > 9 * k / 4) && (un + vn <= 6 * MUL_TOOM4_THRESHOLD)) || ((vn > 2 * l) && (un + vn > 6 * MUL_TOOM4_THRESHOLD))) && (vn <= 3 * l)) { *parts = 5; return TM_TOOM53; }
  }
  if (ABOVE_THRESHOLD(un + vn, 2 * MUL_TOOM3_THRESHOLD) && vn > k) {
    if (vn < 2 * k) { *parts = 4; return TM_TOOM42; }
    l = (un + 2) / 3; *parts = 3;
    return vn > 2 * l ? TM_TOOM3 : TM_TOOM32;
  }
  return TM_NONE;
}
static void toom_fill(mp_ptr x, mp_size_t xn, int parts, int kind, int adv) {
  mp_size_t ps = (xn + parts - 1) / parts, i; int k = (int)((xn - 1) / ps); mp_size_t hn = xn - k * ps;      /* pieces 0..k-1 of ps limbs, top piece hn limbs */
  rnd_limbs(x, xn, kind);
  switch (adv) {
  case 1: for (i = 0; i < xn; i++) x[i] = ~(mp_limb_t)0; break;
  case 2: { int j; for (j = 0; j <= k; j++) if (rnd_below(2)) for (i = 0; i < (j < k ? ps : hn); i++) x[j * ps + i] = 0; } break;
  case 3: for (i = 0; i < xn; i++) x[i] = 0; x[xn - 1] = (mp_limb_t)1 << 63; break;
  case 4: case 5: case 6: if (k >= 1) { pieces_zero_at_minus(x, k, ps, hn, 0, 0); if (adv == 5) x[0] += 1; if (adv == 6) x[ps] += 1; } break;     /* X(-1) = 0, +1, -1 */
  case 7: case 8: if (k >= 1) { pieces_zero_at_minus(x, k, ps, hn, 1, 0); if (adv == 8) x[ps] += 1; } break;                                   /* X(-2) = 0, negative */
  case 9: if (k >= 1) pieces_zero_at_minus(x, k, ps, hn, 1, 1); break;                                                                         /* X(-1/2) = 0 */
  default: break; }
}
static void ev_toom_mul(int lab, mp_size_t un, mp_size_t vn, int parts, int kind, int adv, int place) {
  mp_ptr a = gb_get(0, un, place), b = gb_get(1, vn, !place), r = gb_get(2, un + vn, place), ws = NULL; const char *f; mp_size_t wn = 0;
  toom_fill(a, un, parts, kind, adv); toom_fill(b, vn, un == vn ? parts : (int)((vn + (un + parts - 1) / parts - 1) / ((un + parts - 1) / parts)), (kind + 3) % NKINDS, adv == 0 ? 0 : 1 + (adv + kind) % 9);
  if (adv == 10) MPN_COPY(b, a, vn);                                               /* equal contents, distinct pointers */
  switch (lab) {
  case TM_TOOM3: f = "mpn_toom3_mul"; wn = MPN_TOOM3_MUL_TSIZE(un); break;     case TM_TOOM32: f = "mpn_toom32_mul"; wn = MPN_TOOM3_MUL_TSIZE(un); break;
  case TM_TOOM42: f = "mpn_toom42_mul"; wn = MPN_TOOM3_MUL_TSIZE(un); break;   case TM_TOOM4: f = "mpn_toom4_mul"; break;
  case TM_TOOM53: f = "mpn_toom53_mul"; break;                                   case TM_TOOM8H: f = "mpn_toom8h_mul"; break;
  default: f = "mpn_mul_fft_main"; break; }
  if (wn) { ws = gb_get(3, wn, 1); gb_fill(ws, wn); }
  fn_begin(f); fn_in_limbs("a", a, un); fn_in_int("an", un); fn_in_limbs("b", b, vn); fn_in_int("bn", vn); fn_mid(); gb_fill(r, un + vn);
  switch (lab) {
  case TM_TOOM3: mpn_toom3_mul(r, a, un, b, vn, ws); break;   case TM_TOOM32: mpn_toom32_mul(r, a, un, b, vn, ws); break;
  case TM_TOOM42: mpn_toom42_mul(r, a, un, b, vn, ws); break; case TM_TOOM4: mpn_toom4_mul(r, a, un, b, vn); break;
  case TM_TOOM53: mpn_toom53_mul(r, a, un, b, vn); break;     case TM_TOOM8H: mpn_toom8h_mul(r, a, un, b, vn); break;
  default: mpn_mul_fft_main(r, a, un, b, vn); break; }
  fn_out_limbs("r", r, un + vn); fn_end();
}
/* balanced forms: which = 0 mul_n route, 1 sqr route */
static void ev_toom_n(int sqr, mp_size_t n, int kind, int adv, int place) {
  mp_ptr a = gb_get(0, n, place), b = gb_get(1, n, !place), r = gb_get(2, 2 * n, place), ws = NULL; const char *f; int parts, which; mp_size_t wn = 0;
  if (!sqr) { if (n < MUL_TOOM3_THRESHOLD) return; which = n < MUL_TOOM4_THRESHOLD ? 0 : n < MUL_TOOM8H_THRESHOLD ? 1 : n < MUL_FFT_FULL_THRESHOLD ? 2 : 3; }
  else { if (n < SQR_TOOM3_THRESHOLD) return; which = n < SQR_TOOM4_THRESHOLD ? 0 : n < SQR_TOOM8_THRESHOLD ? 1 : n < SQR_FFT_FULL_THRESHOLD ? 2 : 3; }
  parts = which == 0 ? 3 : which == 1 ? 4 : 8;
  toom_fill(a, n, parts, kind, adv); toom_fill(b, n, parts, (kind + 3) % NKINDS, adv == 0 ? 0 : 1 + (adv + kind) % 9); if (sqr) MPN_COPY(b, a, n);
  f = sqr ? (which == 0 ? "mpn_toom3_sqr_n" : which == 1 ? "mpn_toom4_sqr_n" : which == 2 ? "mpn_toom8_sqr_n" : "mpn_mul_fft_main")
          : (which == 0 ? "mpn_toom3_mul_n" : which == 1 ? "mpn_toom4_mul_n" : which == 2 ? "mpn_toom8h_mul" : "mpn_mul_fft_main");
  if (which == 0) { wn = sqr ? MPN_TOOM3_SQR_N_TSIZE(n) : MPN_TOOM3_MUL_N_TSIZE(n); ws = gb_get(3, wn, 1); gb_fill(ws, wn); }
  fn_begin(f); fn_in_limbs("a", a, n); fn_in_int("an", n); fn_in_limbs("b", sqr ? a : b, n); fn_in_int("bn", n); fn_mid(); gb_fill(r, 2 * n);
  if (sqr) { if (which == 0) mpn_toom3_sqr_n(r, a, n, ws); else if (which == 1) mpn_toom4_sqr_n(r, a, n); else if (which == 2) mpn_toom8_sqr_n(r, a, n); else mpn_mul_fft_main(r, a, n, a, n); }
  else { if (which == 0) mpn_toom3_mul_n(r, a, b, n, ws); else if (which == 1) mpn_toom4_mul_n(r, a, b, n); else if (which == 2) mpn_toom8h_mul(r, a, n, b, n); else mpn_mul_fft_main(r, a, n, b, n); }
  fn_out_limbs("r", r, 2 * n); fn_end();
}
void drv_k4_toom(int tier, unsigned long seed, const char *extra) {
  shard_t sh = shard_parse(extra); long x = 0; int i, j, adv, sq;
  const int T3 = MUL_TOOM3_THRESHOLD, T4 = MUL_TOOM4_THRESHOLD, T8 = MUL_TOOM8H_THRESHOLD, TF = MUL_FFT_FULL_THRESHOLD, S3 = SQR_TOOM3_THRESHOLD, S4 = SQR_TOOM4_THRESHOLD, S8 = SQR_TOOM8_THRESHOLD, SF = SQR_FFT_FULL_THRESHOLD;
  int nb[40], nnb = 0;
  if (sh.pure) return;
  nb[nnb++] = T3; nb[nnb++] = T3 + 1; nb[nnb++] = T3 + 2; nb[nnb++] = (T3 + T4) / 2; nb[nnb++] = T4 - 1; nb[nnb++] = T4; nb[nnb++] = T4 + 1; nb[nnb++] = T4 + 3; nb[nnb++] = (T4 + T8) / 2; nb[nnb++] = T8 - 1;
  nb[nnb++] = T8; nb[nnb++] = T8 + 1; nb[nnb++] = T8 + 7; nb[nnb++] = 2 * T8 + 3; nb[nnb++] = 1000; nb[nnb++] = TF - 1; nb[nnb++] = TF; nb[nnb++] = TF + 1;
  nb[nnb++] = S3; nb[nnb++] = S3 + 1; nb[nnb++] = S4 - 1; nb[nnb++] = S4; nb[nnb++] = S4 + 2; nb[nnb++] = S8 - 1; nb[nnb++] = S8; nb[nnb++] = S8 + 5; nb[nnb++] = SF - 1; nb[nnb++] = SF; nb[nnb++] = SF + 1;
  if (tier) { nb[nnb++] = T3 + 17; nb[nnb++] = T4 + 31; nb[nnb++] = 3 * T8; nb[nnb++] = 2 * TF; nb[nnb++] = S8 + 100; nb[nnb++] = 2 * SF + 1; }
  for (i = 0; i < nnb; i++) for (sq = 0; sq < 2; sq++) {
    mp_size_t n = nb[i];
    x++; if (!MINE(sh, x)) continue;
    rec_reset("k4_toom", x, seed);
    for (adv = 0; adv <= 10; adv++) { if (n > 1200 && adv != 0 && adv != 1 && adv != 4 + (i % 3) && adv != 7) continue; if (!tier && n > 300 && (adv == 2 || adv == 3 || adv == 9)) continue;
      ev_toom_n(sq, n, (i + adv) % NKINDS, adv, adv & 1); }
  }
  /* unbalanced shapes: un over a list, vn at the fractions where mul.c changes algorithm */
  { static const int uns[] = {110, 131, 150, 180, 200, 257, 300, 399, 520, 700, 1100, 4000, 5000}; static const int num[] = {26, 30, 34, 40, 45, 50, 56, 60, 67, 70, 75, 80, 90, 97}; /* vn = un * num / 100 */
    for (i = 0; i < (tier ? 13 : 12); i++) for (j = 0; j < 14; j++) {
      mp_size_t un = uns[i], vn = (mp_size_t)uns[i] * num[j] / 100; int parts = 3, lab = mul_label(un, vn, &parts);
      if (lab == TM_NONE) continue;
      x++; if (!MINE(sh, x)) continue;
      rec_reset("k4_toom", x, seed);
      for (adv = 0; adv <= 10; adv++) { if (!tier && adv != 0 && adv != 1 && adv != 2 + (i + j) % 9 && adv != 2 + (i + 2 * j + 4) % 9) continue; if (un > 1200 && adv > 1 && adv != 4 && adv != 7) continue;
        ev_toom_mul(lab, un, vn, parts, (i + j + adv) % NKINDS, adv, adv & 1); }
    }
  }
}

/* ------------------------------------------------------------------ k4_fft */
/* Transforms of length 2n over Z/(2^(nw)+1), n = 2^depth, limbs = n*w/64.  Coefficients are canonical residues as the callers provide them
   (fft/mul_trunc_sqrt2.c: mpir_fft_split_bits output; tests/fft/t-fft_ifft_*.c: "mpn_normmod_2expp1(ii[i], limbs)" before the transform). */
static char *arr_json(mp_ptr *ii, long cnt, mp_size_t size) {
  size_t cap = (size_t)cnt * (16 * size + 8) + 8, o = 0; char *js = malloc(cap); long i;
  js[o++] = '['; for (i = 0; i < cnt; i++) { char *h = hex_of_limbs(ii[i], size, 0); o += sprintf(js + o, "%s\"%s\"", i ? "," : "", h); free(h); } js[o++] = ']'; js[o] = 0; return js;
}
static void res_canon(mp_ptr p, mp_size_t L, int c) {
  static const int sels[] = {7, 7, 7, 12, 16, 17, 18, 7};
  res_fill(p, L, sels[c % 8]); if (c % 8 == 1) { rnd_limbs(p, L, 3); p[L] = 0; } if (c % 8 == 2) { rnd_limbs(p, L, 5); p[L] = 0; }
}
enum { XF_FFT, XF_IFFT, XF_TRUNC, XF_ITRUNC, XF_NEGA, XF_INEGA, XF_RT, XF_RTTRUNC, XF_RTNEGA };
static void ev_xform(int which, int depth, mp_size_t w, mp_size_t trunc, int csel) {
  static const char *nm[] = {"mpir_fft_radix2", "mpir_ifft_radix2", "mpir_fft_trunc", "mpir_ifft_trunc", "mpir_fft_negacyclic", "mpir_ifft_negacyclic",
                             "mpir_fft_radix2+mpir_ifft_radix2", "mpir_fft_trunc+mpir_ifft_trunc", "mpir_fft_negacyclic+mpir_ifft_negacyclic"};
  mp_size_t n = (mp_size_t)1 << depth, L = n * w / 64, size = L + 1; long cnt = 2 * n, i, lc;
  mp_ptr base = gb_get(0, cnt * size, 1), t1 = gb_get(1, size, 1), t2 = gb_get(2, size, 0), tmp = gb_get(3, size, 1); mp_ptr *ii = malloc(cnt * sizeof(mp_ptr)); char *js;
  int kindf = which == XF_FFT || which == XF_IFFT || which == XF_RT ? 0 : which == XF_TRUNC || which == XF_ITRUNC || which == XF_RTTRUNC ? 1 : 2;
  for (i = 0; i < cnt; i++) { ii[i] = base + i * size; res_canon(ii[i], L, csel == 0 ? (int)rnd_below(3) : csel == 1 ? (int)rnd_below(8) : csel + (int)i); }
  gb_fill(t1, size); gb_fill(t2, size); gb_fill(tmp, size);
  if (which == XF_IFFT || which == XF_ITRUNC || which == XF_INEGA) {   /* the inverse alone: its input is what the forward transform delivers (computed here, logged as input) */
    if (kindf == 0) mpir_fft_radix2(ii, n, w, &t1, &t2); else if (kindf == 1) mpir_fft_trunc(ii, n, w, &t1, &t2, trunc); else mpir_fft_negacyclic(ii, n, w, &t1, &t2, &tmp); }
  lc = kindf == 1 && which != XF_TRUNC ? trunc : cnt;                  /* mpir_fft_trunc reads all 2n entries' storage but must ignore those from trunc on (t-fft_ifft_trunc.c fills them with random data) */
  fn_begin(nm[which]); js = arr_json(ii, lc, size); fn_in_raw("c", js); free(js); fn_in_int("depth", depth); fn_in_int("n", n); fn_in_int("w", w); fn_in_int("limbs", L); if (kindf == 1) fn_in_int("trunc", trunc);
  fn_mid();
  switch (which) {
  case XF_FFT: mpir_fft_radix2(ii, n, w, &t1, &t2); break;
  case XF_IFFT: mpir_ifft_radix2(ii, n, w, &t1, &t2); break;
  case XF_TRUNC: mpir_fft_trunc(ii, n, w, &t1, &t2, trunc); break;
  case XF_ITRUNC: mpir_ifft_trunc(ii, n, w, &t1, &t2, trunc); break;
  case XF_NEGA: mpir_fft_negacyclic(ii, n, w, &t1, &t2, &tmp); break;
  case XF_INEGA: mpir_ifft_negacyclic(ii, n, w, &t1, &t2, &tmp); break;
  case XF_RT: mpir_fft_radix2(ii, n, w, &t1, &t2); mpir_ifft_radix2(ii, n, w, &t1, &t2); break;
  case XF_RTTRUNC: mpir_fft_trunc(ii, n, w, &t1, &t2, trunc); mpir_ifft_trunc(ii, n, w, &t1, &t2, trunc); break;
  default: mpir_fft_negacyclic(ii, n, w, &t1, &t2, &tmp); mpir_ifft_negacyclic(ii, n, w, &t1, &t2, &tmp); break; }
  js = arr_json(ii, kindf == 1 ? trunc : cnt, size); fn_out_raw("r", js); free(js); fn_end(); free(ii);
}
static void ev_split(mp_size_t total, mp_bitcnt_t bits, int kind, int place) {
  mp_size_t out = (2 * bits - 1) / 64 + 1, size = out + 1; long len = (64 * total - 1) / bits + 1, i, ret;      /* as tests/fft/t-split_combine_bits.c: "limbs = (2*bits - 1)/GMP_LIMB_BITS + 1" */
  mp_ptr x = gb_get(0, total, place), base = gb_get(1, len * size, 1), res = gb_get(2, total, place); mp_ptr *poly = malloc(len * sizeof(mp_ptr)); char *js;
  rnd_limbs(x, total, kind); for (i = 0; i < len; i++) poly[i] = base + i * size; gb_fill(base, len * size);
  fn_begin("mpir_fft_split_bits"); fn_in_limbs("x", x, total); fn_in_int("total", total); fn_in_int("bits", (long)bits); fn_in_int("out", out); fn_mid();
  ret = mpir_fft_split_bits(poly, x, total, bits, out); fn_out_int("len", ret); js = arr_json(poly, len, size); fn_out_raw("c", js); fn_end();
  for (i = 0; i < total; i++) res[i] = 0;                          /* combine ADDS into the result area ("mpn_add(res + skip, res + skip, ...)": the callers clear it first) */
  fn_begin("mpir_fft_combine_bits"); fn_in_raw("c", js); free(js); fn_in_int("len", len); fn_in_int("total", total); fn_in_int("bits", (long)bits); fn_in_int("out", out); fn_mid();
  mpir_fft_combine_bits(res, poly, len, bits, out, total); fn_out_limbs("r", res, total); fn_end();
  /* coefficients as large as a product's: anything below B^out with a zero top limb */
  for (i = 0; i < len; i++) { rnd_limbs(poly[i], out, (kind + (int)i) % NKINDS); poly[i][out] = 0; } for (i = 0; i < total; i++) res[i] = 0;
  js = arr_json(poly, len, size); fn_begin("mpir_fft_combine_bits"); fn_in_raw("c", js); free(js); fn_in_int("len", len); fn_in_int("total", total); fn_in_int("bits", (long)bits); fn_in_int("out", out); fn_mid();
  mpir_fft_combine_bits(res, poly, len, bits, out, total); fn_out_limbs("r", res, total); fn_end(); free(poly);
}
void drv_k4_fft(int tier, unsigned long seed, const char *extra) {
  shard_t sh = shard_parse(extra); long x = 0; int depth, m, cs, k;
  if (sh.pure) return;
  /* small depths: the transform is checked against the DFT definition */
  for (depth = 0; depth <= (tier ? 5 : 4); depth++) for (m = 1; m <= (tier ? 5 : 3); m++) {
    mp_size_t n = (mp_size_t)1 << depth, w = 64 * m / n; if (w * n != 64 * m) continue;
    x++; if (!MINE(sh, x)) continue;
    rec_reset("k4_fft", x, seed);
    for (cs = 0; cs < 3; cs++) {
      ev_xform(XF_FFT, depth, w, 0, cs); ev_xform(XF_IFFT, depth, w, 0, cs);
      if (depth >= 1) { ev_xform(XF_NEGA, depth, w, 0, cs); ev_xform(XF_INEGA, depth, w, 0, cs); }
      for (k = 1; k <= n; k++) { if (n > 4 && k != 1 && k != n && k != n / 2 && k != n / 2 + 1 && k != (mp_size_t)(1 + rnd_below(n))) continue;
        ev_xform(XF_TRUNC, depth, w, 2 * k, cs); ev_xform(XF_ITRUNC, depth, w, 2 * k, cs); }
    }
  }
  /* odd w (the sqrt2 twiddles of the negacyclic transform) needs n = 64: definition check on 128 points, once per w */
  for (m = 1; m <= 3; m += 2) { x++; if (!MINE(sh, x)) continue; rec_reset("k4_fft", x, seed); ev_xform(XF_NEGA, 6, m, 0, 1); ev_xform(XF_INEGA, 6, m, 0, 1); }
  /* larger depths (those of the tests: depth 6.., w 1..5): inverse(forward(x)) = 2n * x per coefficient */
  for (depth = 5; depth <= (tier ? 9 : 7); depth++) for (m = 1; m <= (tier ? 5 : 3); m++) {
    mp_size_t n = (mp_size_t)1 << depth, w = m; if ((w * n) % 64) continue;
    x++; if (!MINE(sh, x)) continue;
    rec_reset("k4_fft", x, seed);
    ev_xform(XF_RT, depth, w, 0, 1); ev_xform(XF_RTNEGA, depth, w, 0, 1);
    for (k = 0; k < 3; k++) ev_xform(XF_RTTRUNC, depth, w, 2 * (1 + (mp_size_t)rnd_below(n)), k);
    ev_xform(XF_RTTRUNC, depth, w, 2 * n, 2); ev_xform(XF_RTTRUNC, depth, w, 2, 2); ev_xform(XF_RTTRUNC, depth, w, n, 1); ev_xform(XF_RTTRUNC, depth, w, n + 2, 1);
  }
  /* split / combine: bit widths 1..200 as the test, plus multiples of 64 (the limb-aligned paths) */
  { static const int tots[] = {1, 2, 3, 7, 20, 64, 333, 1000}; int t, b;
    for (t = 0; t < 8; t++) { x++; if (!MINE(sh, x)) continue; rec_reset("k4_fft", x, seed);
      for (b = 1; b <= 260; b += (tots[t] > 100 ? 37 : tier ? 1 : 7)) { if (tots[t] * 64 / b > (tier ? 3000 : 300)) continue; ev_split(tots[t], b, (t + b) % NKINDS, b & 1); }
      ev_split(tots[t], 64, 1, 0); ev_split(tots[t], 128, 0, 1); ev_split(tots[t], 192, 3, 0); ev_split(tots[t], 63, 1, 1); ev_split(tots[t], 65, 1, 0); }
  }
}
