/* C13: float accuracy and format.  Destination and operand precisions independent (operands longer and shorter than the
   destination), every exponent difference from no overlap through full overlap, nearly cancelling operands, low zero limbs,
   precision changed by mpf_set_prec / mpf_set_prec_raw between operations, aliasing, exact functions. */
#include "util.h"
static const int PRECB[] = {64, 128, 192, 256, 384, 3136};    /* bits requested at init2 -> 2,3,4,5,7,50 limbs */
/* float i := mantissa of n limbs (n <= prec+1) of the given kind, exponent e (limbs), sign */
static void setf(int i, int n, int kind, long e, int neg, int lowzeros) {
  mp_limb_t buf[80]; char *h; int k;
  if (n > PREC(Fp[i]) + 1) n = PREC(Fp[i]) + 1;
  if (n == 0) { callf("drv_setf", i, "0", (int64_t)0); return; }
  rnd_limbs(buf, n, kind); if (!buf[n - 1]) buf[n - 1] = 1 + (rnd64() >> 1);
  for (k = 0; k < lowzeros && k < n - 1; k++) buf[k] = 0;
  h = hex_of_limbs(buf, n, neg); callf("drv_setf", i, h, (int64_t)e); free(h);
}
void drv_c13(int tier, unsigned long seed, const char *extra) {
  shard_t sh = shard_parse(extra); long x = 0; int pd, pa, pb, j, ed;
  int np = sh.pure ? 2 : (tier ? 6 : 5);
  for (pd = 0; pd < np; pd++) for (pa = 0; pa < np; pa++) for (pb = 0; pb < np; pb++) {
    int maxed;
    if (!tier && !sh.pure && ((pa + pb + pd) % 2) && pa != pd) continue;
    x++; if (!MINE(sh, x)) continue;
    if (sh.pure && x % 3) continue;
    rec_reset("c13", x, seed);
    callf("mpf_init2", 0, (uint64_t)PRECB[pa]); callf("mpf_init2", 1, (uint64_t)PRECB[pb]); callf("mpf_init2", 2, (uint64_t)PRECB[pd]); callf("mpf_init2", 3, (uint64_t)PRECB[pd]);
    callf("mpz_init", 0); callf("mpq_init", 0);
    maxed = (int)PREC(Fp[2]) + 3; if (maxed > 9) maxed = 9;
    for (ed = -maxed; ed <= maxed; ed++) {
      int na = 1 + (int)rnd_below(PREC(Fp[0]) + 1), nb = 1 + (int)rnd_below(PREC(Fp[1]) + 1), ka = (int)rnd_below(NKINDS), kb = (int)rnd_below(NKINDS), sa = (int)(rnd64() & 1), sb = (int)(rnd64() & 1);
      long ea = (long)rnd_below(7) - 3;
      if (ed == 0 && PREC(Fp[0]) <= 8) { na = PREC(Fp[0]) + 1; nb = PREC(Fp[1]) + 1; }
      setf(0, na, ka, ea, sa, (int)rnd_below(3) == 0 ? (int)rnd_below(na) : 0);
      setf(1, nb, kb, ea - ed, sb, (int)rnd_below(3) == 0 ? (int)rnd_below(nb) : 0);
      callf("mpf_add", 2, 0, 1); callf("mpf_sub", 2, 0, 1); callf("mpf_sub", 2, 1, 0); callf("mpf_mul", 2, 0, 1);
      callf("mpf_div", 2, 0, 1); callf("mpf_div", 2, 1, 0);
      if (ed % 3 == 0) { /* aliased destinations (precision of the destination = precision of that operand) */
        callf("mpf_set", 3, 0); callf("mpf_add", 3, 3, 1); callf("mpf_set", 3, 1); callf("mpf_sub", 3, 0, 3); callf("mpf_set", 3, 0); callf("mpf_mul", 3, 3, 3);
        callf("mpf_set", 3, 0); callf("mpf_div", 3, 3, 1); callf("mpf_set", 3, 1); callf("mpf_div", 3, 0, 3); callf("mpf_set", 3, 0); callf("mpf_sub", 3, 3, 3); }
      { uint64_t u = rnd_below(3) ? rnd64() >> rnd_below(64) : (uint64_t)rnd_below(5);
        callf("mpf_add_ui", 2, 0, u); callf("mpf_sub_ui", 2, 0, u); callf("mpf_ui_sub", 2, u, 0); callf("mpf_mul_ui", 2, 0, u);
        if (u) callf("mpf_div_ui", 2, 0, u); callf("mpf_ui_div", 2, u, 0); callf("mpf_sqrt_ui", 2, u); }
      if (SIZ(Fp[0]) > 0) callf("mpf_sqrt", 2, 0); else { callf("mpf_abs", 3, 0); callf("mpf_sqrt", 2, 3); }
      callf("mpf_neg", 2, 0); callf("mpf_abs", 2, 1); callf("mpf_mul_2exp", 2, 0, (uint64_t)rnd_below(200)); callf("mpf_div_2exp", 2, 0, (uint64_t)rnd_below(200));
      callf("mpf_floor", 2, 0); callf("mpf_ceil", 2, 0); callf("mpf_trunc", 2, 0); callf("mpf_integer_p", 0); callf("mpf_trunc", 3, 0); callf("mpf_integer_p", 3);
      callf("mpf_cmp", 0, 1); callf("mpf_cmp", 0, 0); callf("mpf_cmp_ui", 0, (uint64_t)rnd_below(100)); callf("mpf_cmp_si", 0, (int64_t)rnd_below(100) - 50); callf("mpf_sgn", 0);
      callf("mpf_get_d", 0); callf("mpf_get_d_2exp", 0); callf("mpf_get_ui", 0); callf("mpf_get_si", 0); callf("mpf_fits_ulong_p", 0); callf("mpf_fits_slong_p", 0); callf("mpf_fits_sint_p", 0); callf("mpf_fits_ushort_p", 0);
      callf("mpz_set_f", 0, 0); callf("mpf_set_z", 2, 0); callf("mpq_set_f", 0, 0); callf("mpf_set_q", 2, 0);
    }
    /* nearly cancelling: x + 1 000.. minus x fff.. */
    for (j = 0; j < 6; j++) {
      int n = (int)PREC(Fp[0]) + 1 > 6 ? 6 : (int)PREC(Fp[0]) + 1, m = (int)PREC(Fp[1]) + 1 > 6 ? 6 : (int)PREC(Fp[1]) + 1, k; mp_limb_t a[8], b[8]; char *h;
      for (k = 0; k < 8; k++) { a[k] = 0; b[k] = ~(mp_limb_t)0; }
      a[n - 1] = rnd64() | 1; if (n > 1) a[n - 2] = j & 1; b[m - 1] = a[n - 1] - (j < 3); if (m > 1 && (j & 2)) b[m - 2] = ~(mp_limb_t)0 - rnd_below(3);
      h = hex_of_limbs(a, n, 0); callf("drv_setf", 0, h, (int64_t)2); free(h); h = hex_of_limbs(b, m, 0); callf("drv_setf", 1, h, (int64_t)2); free(h);
      callf("mpf_sub", 2, 0, 1); callf("mpf_sub", 2, 1, 0); callf("mpf_add", 2, 0, 1); callf("mpf_ui_sub", 2, (uint64_t)a[n - 1], 0);
    }
    /* nearly cancelling with the _ui forms: v = u + tiny (integer limb equal to u, zero limbs below it, a low non-zero limb) */
    for (j = 0; j < 6; j++) {
      int n = (int)PREC(Fp[0]) + 1 > 7 ? 7 : (int)PREC(Fp[0]) + 1, k; mp_limb_t a[8]; char *h; uint64_t u = j < 2 ? 1 + rnd_below(9) : rnd64() | 1;
      if (n < 3) continue;
      for (k = 0; k < 8; k++) a[k] = 0;
      a[n - 1] = u; a[(j % 2) ? 0 : (int)rnd_below(n - 2)] = (j == 5) ? 1 : rnd64() | 1;          /* limbs between the top and the low one are zero */
      h = hex_of_limbs(a, n, j == 4); callf("drv_setf", 0, h, (int64_t)1); free(h);
      callf("mpf_ui_sub", 2, u, 0); callf("mpf_sub_ui", 2, 0, u); callf("mpf_add_ui", 2, 0, u); callf("mpf_set", 3, 0); callf("mpf_ui_sub", 3, u, 3); callf("mpf_set", 3, 0); callf("mpf_sub_ui", 3, 3, u);
      callf("mpf_set_ui", 1, u); callf("mpf_sub", 2, 1, 0); callf("mpf_sub", 2, 0, 1); callf("mpf_cmp_ui", 0, u); callf("mpf_div_ui", 2, 0, u); callf("mpf_ui_div", 2, u, 0);
    }
    /* ... and from below: v = u - tiny = (u-1).ffff..f tail (the exponents differ by one limb when u = 1: 1.000 - 0.fff..) */
    for (j = 0; j < 6; j++) {
      int n = (int)PREC(Fp[0]) + 1 > 7 ? 7 : (int)PREC(Fp[0]) + 1, k; mp_limb_t a[8]; char *h; uint64_t u = j < 3 ? 1 : (j == 3 ? 2 : (rnd64() | 2));
      if (n < 2) continue;
      for (k = 0; k < 8; k++) a[k] = ~(mp_limb_t)0;
      a[0] = (j & 1) ? rnd64() | 1 : ~(mp_limb_t)0 << (int)rnd_below(64);
      if (u == 1) { h = hex_of_limbs(a, n - (j == 2), 0); callf("drv_setf", 0, h, (int64_t)0); free(h); }
      else { a[n - 1] = u - 1; h = hex_of_limbs(a, n, 0); callf("drv_setf", 0, h, (int64_t)1); free(h); }
      callf("mpf_ui_sub", 2, u, 0); callf("mpf_sub_ui", 2, 0, u); callf("mpf_set", 3, 0); callf("mpf_ui_sub", 3, u, 3); callf("mpf_set", 3, 0); callf("mpf_sub_ui", 3, 3, u);
      callf("mpf_set_ui", 1, u); callf("mpf_sub", 2, 1, 0); callf("mpf_sub", 2, 0, 1); callf("mpf_neg", 3, 0); callf("mpf_add_ui", 2, 3, u); callf("mpf_cmp_ui", 0, u);
    }
    /* conversions and precision history */
    { static const double ds[] = {0.0, 1.0, -0.5, 0.1, 1e300, -1e-300, 4.9406564584124654e-324, 123456789.125, -9007199254740993.0, 1.7976931348623157e308};
      for (j = 0; j < 10; j++) { callf("mpf_set_d", 2, ds[j]); callf("mpf_cmp_d", 2, ds[(j + 3) % 10]); callf("mpf_get_d", 2); }
      callf("mpf_set_ui", 2, (uint64_t)rnd64()); callf("mpf_set_si", 2, (int64_t)rnd64());
      callf("drv_rndz", 0, (int)rnd_below(12), 0, (int)(rnd64() & 1)); callf("mpf_set_z", 2, 0);
      callf("mpq_set_ui", 0, (uint64_t)(rnd64() >> 3), (uint64_t)(rnd64() | 1)); callf("mpq_canonicalize", 0); callf("mpf_set_q", 2, 0);
      callf("mpq_set_ui", 0, (uint64_t)3, (uint64_t)((uint64_t)1 << 40)); callf("mpf_set_q", 2, 0);
      setf(0, 1 + (int)rnd_below(3), 0, 2, 0, 0);      /* fits the lowered precision: the value is kept as it is by set_prec_raw */
      callf("mpf_set_prec_raw", 0, (uint64_t)64); callf("mpf_add", 2, 0, 1); callf("mpf_set", 3, 0); callf("mpf_mul", 0, 0, 1); callf("mpf_set_prec_raw", 0, (uint64_t)PRECB[pa]);
      callf("mpf_set_prec", 0, (uint64_t)(PRECB[pa] + 200)); callf("mpf_add", 2, 0, 1); callf("mpf_set_prec", 0, (uint64_t)64); callf("mpf_add", 2, 0, 1); callf("mpf_get_prec", 0);
      callf("mpf_swap", 0, 1); callf("mpf_add", 2, 0, 1); callf("mpf_swap", 2, 2); }
    for (j = 0; j < 4; j++) callf("mpf_clear", j); callf("mpz_clear", 0); callf("mpq_clear", 0);
    rec_quiesce();
  }
}

/* c13_inv: inverse construction.  The operand is computed from the RESULT the call should be next to: u = ceil(J*B^n / v) makes u*v = J*B^n + (less than v), so
   the product of the retained high limbs falls just short of a limb boundary and only the carry out of the discarded low limbs takes it across (mpf_mul_ui,
   mpf_mul); N = Q*v (+-1) with Q = B^n - 1 or B^n puts a quotient on the boundary (mpf_div_ui, mpf_div, mpf_ui_div).  Operand one limb longer than the
   destination precision holds, equal to it, and in place. */
static void setf_z(int i, mpz_srcptr z, long e) { char *h = hex_of_limbs(PTR(z), ABSIZ(z), SIZ(z) < 0); callf("drv_setf", i, h, (int64_t)e); free(h); }
void drv_c13_inv(int tier, unsigned long seed, const char *extra) {
  shard_t sh = shard_parse(extra); long x = 0; int pd, vi, ji, dn;
  static const uint64_t vs[] = {3, 7, 10, 6, 0x100000001UL, 0x8000000000000001UL, 0xffffffffffffffffUL, 12345678901UL};
  static const uint64_t js[] = {1, 7, 10, 0xffffffffffffffffUL, 0x8000000000000000UL};
  for (pd = 0; pd < (sh.pure ? 1 : (tier ? 5 : 4)); pd++) for (vi = 0; vi < 8; vi++) {
    mpz_t U, T, W; int prec;
    x++; if (!MINE(sh, x)) continue;
    rec_reset("c13_inv", x, seed);
    callf("mpf_init2", 0, (uint64_t)(PRECB[pd] + 192)); callf("mpf_init2", 1, (uint64_t)PRECB[pd]); callf("mpf_init2", 2, (uint64_t)PRECB[pd]); callf("mpf_init2", 3, (uint64_t)(PRECB[pd] + 192));
    prec = (int)PREC(Fp[1]);
    priv_begin(); mpz_init(U); mpz_init(T); mpz_init(W); priv_end();
    for (ji = 0; ji < 5; ji++) for (dn = 0; dn <= 2; dn++) { int n = prec + dn, d;       /* u of prec, prec+1, prec+2 limbs (plus possibly one more from J) */
      priv_begin(); mpz_set_ui(T, js[ji]); mpz_mul_2exp(T, T, 64 * (unsigned long)n); mpz_set_ui(W, vs[vi]); mpz_cdiv_q(U, T, W); priv_end();
      if ((int)ABSIZ(U) > (int)PREC(Fp[0]) + 1) continue;
      setf_z(0, U, (long)rnd_below(5) - 2);
      callf("mpf_mul_ui", 1, 0, vs[vi]); callf("mpf_mul_ui", 2, 0, vs[vi]);
      if ((int)ABSIZ(U) <= prec + 1) { setf_z(2, U, 1); callf("mpf_mul_ui", 2, 2, vs[vi]); }                     /* in place, operand filling prec+1 limbs */
      callf("mpf_set", 3, 0); callf("mpf_set_prec_raw", 3, (uint64_t)PRECB[pd]); callf("mpf_mul_ui", 3, 3, vs[vi]); callf("mpf_set_prec_raw", 3, (uint64_t)(PRECB[pd] + 192));   /* in place, longer than the precision */
      /* the same boundary through mpf_mul with a multi-limb second factor W = v*B + 1 */
      priv_begin(); mpz_set_ui(W, vs[vi]); mpz_mul_2exp(W, W, 64); mpz_add_ui(W, W, 1); mpz_cdiv_q(U, T, W); priv_end();
      if (SIZ(U) > 0 && (int)ABSIZ(U) <= (int)PREC(Fp[0]) + 1) { setf_z(0, U, 0); setf_z(3, W, 1); callf("mpf_mul", 1, 0, 3); callf("mpf_mul", 1, 3, 0); callf("mpf_mul", 2, 0, 0); }
      /* quotients on the boundary: N = Q*v + d, Q = B^n - 1 | B^n */
      for (d = -1; d <= 1; d++) { int qk;
        for (qk = 0; qk < 2; qk++) {
          priv_begin(); mpz_set_ui(T, 1); mpz_mul_2exp(T, T, 64 * (unsigned long)n); if (qk == 0) mpz_sub_ui(T, T, 1); mpz_mul_ui(T, T, vs[vi]); if (d > 0) mpz_add_ui(T, T, 1); else if (d < 0) mpz_sub_ui(T, T, 1); priv_end();
          if (SIZ(T) <= 0 || (int)ABSIZ(T) > (int)PREC(Fp[0]) + 1) continue;
          setf_z(0, T, 2); callf("mpf_div_ui", 1, 0, vs[vi]); callf("mpf_set_ui", 3, vs[vi]); callf("mpf_div", 2, 0, 3);
          if (ji == 0) { callf("mpf_ui_div", 1, vs[vi], 0); callf("mpf_set", 3, 0); callf("mpf_div_ui", 3, 3, vs[vi]); } } }
    }
    priv_begin(); mpz_clear(U); mpz_clear(T); mpz_clear(W); priv_end();
    for (ji = 0; ji < 4; ji++) callf("mpf_clear", ji);
    rec_quiesce();
  }
}
