/* C12: rational arithmetic exact and canonical.  Operands built with prescribed common factors between the cross terms
   (every gcd / no-gcd branch of the reduction), integers, zero, negatives, powers of two in numerator or denominator,
   shift counts crossing limb boundaries, all alias partitions; canonicalize on arbitrary pairs incl. negative denominators. */
#include "util.h"
/* sets rational i to canonical num/den built from factor lists: num = s*a*c1*c2, den = b*c3*c4 then divided by gcd privately */
static void setq_priv(int i, mpz_srcptr n, mpz_srcptr d) {
  char *hn = hex_of_limbs(PTR(n), ABSIZ(n), SIZ(n) < 0), *hd = hex_of_limbs(PTR(d), ABSIZ(d), SIZ(d) < 0);
  callf("drv_setq", i, hn, hd); free(hn); free(hd);
}
static void rnd_priv(mpz_ptr z, int limbs, int kind) { if (limbs == 0) { mpz_set_ui(z, 1 + rnd_below(9)); return; } _mpz_realloc(z, limbs + 1); rnd_limbs(PTR(z), limbs, kind); SIZ(z) = limbs; MPN_NORMALIZE(PTR(z), SIZ(z)); if (!SIZ(z)) mpz_set_ui(z, 7); }
static void canon_priv(mpz_ptr n, mpz_ptr d) { mpz_t g; mpz_init(g); mpz_gcd(g, n, d); if (mpz_cmp_ui(g, 1) > 0) { mpz_divexact(n, n, g); mpz_divexact(d, d, g); } if (mpz_sgn(d) < 0) { mpz_neg(n, n); mpz_neg(d, d); } if (!mpz_sgn(n)) mpz_set_ui(d, 1); mpz_clear(g); }

void drv_c12(int tier, unsigned long seed, const char *extra) {
  shard_t sh = shard_parse(extra); long x = 0; int sz, how, j;
  static const int szs_q[] = {0, 1, 2, 3, 5, 9, 20, 60, 200}, szs_p[] = {0, 1, 2};
  const int *szs = sh.pure ? szs_p : szs_q; int ns = sh.pure ? 2 : (tier ? 9 : 8);      /* pure (no Java) validation: one-limb operands, the definitions are slow */
  for (sz = 0; sz < ns; sz++) for (how = 0; how < 12; how++) {
    mpz_t n1, d1, n2, d2, f, g; int L = szs[sz], s1, s2;
    x++; if (!MINE(sh, x)) continue;
    if (sh.pure && (how % 3 || how > 9 || (how == 9 && sz > 1))) continue;
    rec_reset("c12", x, seed);
    for (j = 0; j < 4; j++) callf("mpq_init", j); for (j = 0; j < 2; j++) callf("mpz_init", j);
    for (s1 = 0; s1 < 2; s1++) for (s2 = 0; s2 < 2; s2++) {
      priv_begin(); mpz_init(n1); mpz_init(d1); mpz_init(n2); mpz_init(d2); mpz_init(f); mpz_init(g);
      rnd_priv(n1, L, (int)rnd_below(NKINDS)); rnd_priv(d1, L ? L : 0, 0); rnd_priv(n2, L, 0); rnd_priv(d2, L, (int)rnd_below(NKINDS));
      rnd_priv(f, L > 2 ? L / 2 : (L ? 1 : 0), 0); rnd_priv(g, L > 2 ? L / 3 : (L ? 1 : 0), 0);
      switch (how) {
      case 1: mpz_mul(n1, n1, f); mpz_mul(d2, d2, f); break;                         /* gcd(n1,d2) > 1 */
      case 2: mpz_mul(n2, n2, g); mpz_mul(d1, d1, g); break;                         /* gcd(n2,d1) > 1 */
      case 3: mpz_mul(n1, n1, f); mpz_mul(d2, d2, f); mpz_mul(n2, n2, g); mpz_mul(d1, d1, g); break;
      case 4: mpz_mul(d1, d1, f); mpz_mul(d2, d2, f); break;                         /* common denominator factor (add/sub gcd branch) */
      case 5: mpz_set(d2, d1); break;                                                /* equal denominators */
      case 6: mpz_set_ui(d1, 1); if (rnd64() & 1) mpz_set_ui(d2, 1); break;          /* integers */
      case 7: mpz_set_ui(n1, 0); break;                                              /* zero */
      case 8: mpz_set_ui(d1, 1); mpz_mul_2exp(d1, d1, rnd_below(200)); mpz_mul_2exp(n2, n2, rnd_below(130)); break;   /* powers of two */
      case 9: mpz_set(n2, n1); mpz_set(d2, d1); break;                               /* equal operands */
      case 10: mpz_setbit(n1, 0); mpz_mul_2exp(d1, d1, 64 * (1 + rnd_below(3)) + (s1 ? rnd_below(64) : 0)); break;   /* whole zero limbs below a multi-limb denominator */
      case 11: mpz_setbit(d1, 0); mpz_mul_2exp(n1, n1, 64 * (1 + rnd_below(3)) + (s2 ? rnd_below(64) : 0)); break;   /* ... numerator */
      default: break; }
      if (s1) mpz_neg(n1, n1); if (s2) mpz_neg(n2, n2);
      canon_priv(n1, d1); canon_priv(n2, d2);
      priv_end();
      setq_priv(0, n1, d1); setq_priv(1, n2, d2);
      { static const char *ops[] = {"mpq_add", "mpq_sub", "mpq_mul", "mpq_div"}; int o;
        for (o = 0; o < 4; o++) {
          if (o == 3 && SIZ(mpq_numref(Qp[1])) == 0) continue;
          callf(ops[o], 2, 0, 1);
          callf("mpq_set", 2, 0); callf(ops[o], 2, 2, 1);                 /* rop = op1 */
          callf("mpq_set", 2, 1); callf(ops[o], 2, 0, 2);                 /* rop = op2 */
          if (!(o == 3 && SIZ(mpq_numref(Qp[0])) == 0)) { callf(ops[o], 2, 0, 0); callf("mpq_set", 2, 0); callf(ops[o], 2, 2, 2); }   /* op1 = op2, all three */
        } }
      callf("mpq_neg", 2, 0); callf("mpq_neg", 2, 2); callf("mpq_abs", 2, 0); callf("mpq_abs", 2, 2);
      if (SIZ(mpq_numref(Qp[0]))) { callf("mpq_inv", 2, 0); callf("mpq_set", 2, 0); callf("mpq_inv", 2, 2); }
      { static const int shf[] = {0, 1, 63, 64, 65, 127, 130, 200}; int k;
        for (k = 0; k < 8; k++) { callf("mpq_mul_2exp", 2, 0, (uint64_t)shf[k]); callf("mpq_div_2exp", 2, 0, (uint64_t)shf[k]); }
        callf("mpq_set", 2, 0); callf("mpq_mul_2exp", 2, 2, (uint64_t)rnd_below(300)); callf("mpq_div_2exp", 2, 2, (uint64_t)rnd_below(300));
        if (how == 8 || how >= 10) for (k = 0; k < 8; k++) {       /* in place, every shift class */
          callf("mpq_set", 2, 0); callf("mpq_mul_2exp", 2, 2, (uint64_t)shf[k]); callf("mpq_set", 2, 0); callf("mpq_div_2exp", 2, 2, (uint64_t)shf[k]); } }
      callf("mpq_cmp", 0, 1); callf("mpq_cmp", 1, 0); callf("mpq_equal", 0, 1); callf("mpq_cmp", 0, 0); callf("mpq_equal", 0, 0); callf("mpq_sgn", 0);
      callf("mpq_cmp_ui", 0, (uint64_t)rnd_below(1000), (uint64_t)(1 + rnd_below(1000))); callf("mpq_cmp_si", 0, (int64_t)rnd_below(1000) - 500, (uint64_t)(1 + rnd_below(1000)));
      callf("mpq_get_num", 0, 0); callf("mpq_get_den", 1, 0); callf("mpq_cmp_z", 1, 0); callf("mpq_set_z", 3, 0); callf("mpq_get_d", 0);
      callf("mpq_swap", 0, 1); callf("mpq_swap", 2, 2);
      /* canonicalize arbitrary pairs incl. negative denominators and common factors */
      priv_begin(); mpz_mul(n1, n1, f); mpz_mul(d1, d1, f); if (rnd64() & 1) mpz_neg(d1, d1); if (!mpz_sgn(d1)) mpz_set_si(d1, -3); priv_end();
      setq_priv(3, n1, d1); callf("mpq_canonicalize", 3);
      callf("mpq_set_ui", 3, (uint64_t)rnd64(), (uint64_t)(rnd64() | 1)); callf("mpq_canonicalize", 3);
      callf("mpq_set_si", 3, (int64_t)rnd64(), (uint64_t)(rnd64() >> 8 | 2)); callf("mpq_canonicalize", 3);
      { static const double ds[] = {0.0, 1.0, -0.5, 0.1, 1e300, -1e-300, 4.9406564584124654e-324, 123456789.125, -9007199254740993.0, 1.7976931348623157e308};
        callf("mpq_set_d", 3, ds[(how + s1 + 2 * s2) % 10]); callf("mpq_set_d", 3, ds[rnd_below(10)]); }
      priv_begin(); mpz_clear(n1); mpz_clear(d1); mpz_clear(n2); mpz_clear(d2); mpz_clear(f); mpz_clear(g); priv_end();
    }
    for (j = 0; j < 4; j++) callf("mpq_clear", j); for (j = 0; j < 2; j++) callf("mpz_clear", j);
    rec_quiesce();
  }
}
