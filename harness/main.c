/* hx -- conformance harness: hx <driver> <tier> <seed> <tracefile> [extra]  */
#include "rec.h"
typedef void (*drv_fn)(int tier, unsigned long seed, const char *extra);
#define D(n) void drv_##n(int, unsigned long, const char *);
#include "drivers.def"
#undef D
static const struct { const char *name; drv_fn fn; } drivers[] = {
#define D(n) {#n, drv_##n},
#include "drivers.def"
#undef D
};
int main(int argc, char **argv) {
  unsigned i; int tier; unsigned long seed;
  if (argc < 5) { fprintf(stderr, "usage: hx <driver> quick|thorough <seed> <tracefile> [extra]\n"); return 3; }
  tier = !strcmp(argv[2], "thorough"); seed = strtoul(argv[3], NULL, 0);
  for (i = 0; i < sizeof drivers / sizeof drivers[0]; i++) if (!strcmp(drivers[i].name, argv[1])) {
    rec_init(argv[4]); gw_load(argv[0]); rnd_seed(seed * 0x9e3779b97f4a7c15ULL + i);
    drivers[i].fn(tier, seed, argc > 5 ? argv[5] : "");
    rec_finish();
    fprintf(stderr, "hx %s: %ld events, %ld calls\n", argv[1], n_events, n_calls);
    return 0;
  }
  fprintf(stderr, "unknown driver %s\n", argv[1]); return 3;
}
