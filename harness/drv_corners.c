/* Corner alphabet drivers.  Every operand whose limbs are drawn from a small alphabet of corner values
   {0, 1, 2^63, 2^64-1} (thorough: + 2^64-2, 2^63-1), up to 3 limbs, is formed, and EVERY PAIR of such operands (x signs, x
   exponent differences for floats) is passed to the two-operand functions of a group.  This is the exhaustive enumeration that the
   small-base models (MpzAors, Div2exp, ...) do on the transcription, done on the real library at the real limb width for the limb values
   that make carries, borrows, cancellations, all-ones quotients and normalisation steps happen; each call is decided by MPIR.tla.
     corners_z  [funs=a:b:..]   mpz: add sub mul tdiv_qr fdiv_q cdiv_r mod gcd and ior xor cmp cmpabs (+ divexact on products, addmul/submul)
     corners_f                  mpf: add sub mul div at destination precision 2 and 3 limbs x exponent difference -1..3; _ui forms; cmp
     corners_q                  mpq: add sub mul div cmp equal on canonicalised corner rationals */
#include "util.h"
static const mp_limb_t ALPHA[] = {0, 1, (mp_limb_t)1 << 63, ~(mp_limb_t)0, ~(mp_limb_t)0 - 1, ((mp_limb_t)1 << 63) - 1};
/* the k-th operand over an alphabet of na symbols with at most maxl limbs, top limb non-zero; returns number of limbs (0 when k is past the end) */
static int nth_operand(long k, int na, int maxl, mp_limb_t *out) {
  int l; long cnt;
  for (l = 1; l <= maxl; l++) { int i; cnt = na - 1; for (i = 1; i < l; i++) cnt *= na;
    if (k < cnt) { long t = k; out[l - 1] = ALPHA[1 + t % (na - 1)]; t /= (na - 1); for (i = l - 2; i >= 0; i--) { out[i] = ALPHA[t % na]; t /= na; } return l; }
    k -= cnt; }
  return 0;
}
static long count_operands(int na, int maxl) { long s = 0, c; int l, i; for (l = 1; l <= maxl; l++) { c = na - 1; for (i = 1; i < l; i++) c *= na; s += c; } return s; }
static int wantf(const shard_t *sh, const char *name) {
  const char *fl = opt_val(sh, "funs"); char pat[96], all[4096];
  if (!fl) return 1;
  snprintf(pat, sizeof pat, ":%s:", name); snprintf(all, sizeof all, ":%s:", fl); return strstr(all, pat) != NULL;
}
static void setz_limbs(int i, const mp_limb_t *p, int n, int neg) { char *h = hex_of_limbs(p, n, neg); callf("drv_setz", i, h); free(h); }
static void shrink(int i) { callf("mpz_realloc2", i, (uint64_t)(ABSIZ(Zp[i]) ? (uint64_t)ABSIZ(Zp[i]) * 64 : 1)); }

void drv_corners_z(int tier, unsigned long seed, const char *extra) {
  shard_t sh = shard_parse(extra); int na = sh.pure ? 3 : (tier ? 6 : 4), maxl = sh.pure ? 2 : 3; long N = count_operands(na, maxl), a, b, x = 0; int j;
  static const char *three[] = {"mpz_add", "mpz_sub", "mpz_mul", "mpz_and", "mpz_ior", "mpz_xor", "mpz_gcd", "mpz_tdiv_q", "mpz_tdiv_r", "mpz_fdiv_q", "mpz_fdiv_r", "mpz_cdiv_q", "mpz_cdiv_r", "mpz_mod", "mpz_lcm"};
  for (a = 0; a < N; a++) {
    mp_limb_t ua[4], ub[4]; int la, lb, sa, sb;
    x++; if (!MINE(sh, x)) continue;
    if (sh.pure && a % 3) continue;
    rec_reset("corners_z", x, seed);
    for (j = 0; j < 5; j++) callf("mpz_init", j);
    la = nth_operand(a, na, maxl, ua);
    for (b = 0; b < N; b++) for (sa = 0; sa < 2; sa++) for (sb = 0; sb < 2; sb++) {
      lb = nth_operand(b, na, maxl, ub);
      if (!tier && !sh.pure && (sa * 2 + sb) != (int)((a + b) % 4)) continue;           /* quick: one sign combination per pair, all four over neighbouring pairs */
      setz_limbs(0, ua, la, sa); setz_limbs(1, ub, lb, sb);
      for (j = 0; j < 15; j++) if (wantf(&sh, three[j])) { if ((j >= 7 && j <= 13)) { /* divisor non-zero by construction */ } shrink(2); callf(three[j], 2, 0, 1); }
      if (wantf(&sh, "mpz_tdiv_qr")) { shrink(2); shrink(3); callf("mpz_tdiv_qr", 2, 3, 0, 1); callf("mpz_fdiv_qr", 2, 3, 0, 1); callf("mpz_cdiv_qr", 2, 3, 0, 1); }
      if (wantf(&sh, "mpz_cmp")) { callf("mpz_cmp", 0, 1); callf("mpz_cmpabs", 0, 1); }
      if (wantf(&sh, "mpz_addmul")) { callf("mpz_set", 2, 1); callf("mpz_addmul", 2, 0, 1); callf("mpz_set", 2, 0); callf("mpz_submul", 2, 0, 1); callf("mpz_set", 2, 0); callf("mpz_submul", 2, 2, 1); }
      if (wantf(&sh, "mpz_divexact")) { callf("mpz_mul", 4, 0, 1); shrink(2); callf("mpz_divexact", 2, 4, 1); callf("mpz_divisible_p", 4, 0); callf("mpz_add_ui", 4, 4, (uint64_t)1); callf("mpz_divisible_p", 4, 1); }
      /* in place on the first operand for the additive group: destination = source with the allocation it had */
      if (wantf(&sh, "mpz_add")) { callf("mpz_set", 2, 0); shrink(2); callf("mpz_add", 2, 2, 1); callf("mpz_set", 2, 1); shrink(2); callf("mpz_sub", 2, 0, 2); }
    }
    for (j = 0; j < 5; j++) callf("mpz_clear", j);
    rec_quiesce();
  }
}

static void setf_limbs(int i, const mp_limb_t *p, int n, int neg, long exp) { char *h = hex_of_limbs(p, n, neg); callf("drv_setf", i, h, (int64_t)exp); free(h); }
void drv_corners_f(int tier, unsigned long seed, const char *extra) {
  shard_t sh = shard_parse(extra); int na = sh.pure ? 3 : 4, maxl = sh.pure ? 2 : (tier ? 4 : 3); long N = count_operands(na, maxl), a, b, x = 0; int j, pd;      /* thorough: operands up to two limbs longer than the destination holds */
  static const uint64_t us[] = {1, 2, (uint64_t)1 << 63, ~(uint64_t)0, 3};
  for (pd = 0; pd < (sh.pure ? 1 : 2); pd++) for (a = 0; a < N; a++) {
    mp_limb_t ua[4], ub[4]; int la, lb, sb, ed;
    x++; if (!MINE(sh, x)) continue;
    if (sh.pure && a % 4) continue;
    rec_reset("corners_f", x, seed);
    /* operands may be longer than the destination holds (destination 2 limbs of precision = 3 limbs kept, operands up to 3 limbs; pd = 1: destination one limb more) */
    callf("mpf_init2", 0, (uint64_t)128); callf("mpf_init2", 1, (uint64_t)128); callf("mpf_init2", 2, (uint64_t)(pd ? 128 : 64)); callf("mpf_init2", 3, (uint64_t)(pd ? 128 : 64));
    la = nth_operand(a, na, maxl, ua);
    for (b = 0; b < N; b++) {
      lb = nth_operand(b, na, maxl, ub);
      if (!sh.pure && (a + b) % 3 && (!tier || maxl == 4)) continue;          /* every third pair (quick; thorough at the 4-limb alphabet) */
      for (ed = -1; ed <= 3; ed++) for (sb = 0; sb < 2; sb++) {
        setf_limbs(0, ua, la, 0, 2); setf_limbs(1, ub, lb, sb, 2 - ed);
        callf("mpf_sub", 2, 0, 1); callf("mpf_add", 2, 0, 1);
        if (ed <= 1) { callf("mpf_sub", 2, 1, 0); callf("mpf_cmp", 0, 1); }
        if (ed == 0 && !sb) { callf("mpf_mul", 2, 0, 1); callf("mpf_div", 2, 0, 1); callf("mpf_set", 3, 0); callf("mpf_sub", 3, 3, 1); callf("mpf_set", 3, 1); callf("mpf_sub", 3, 0, 3); }
      }
    }
    /* _ui forms: u in corner scalars against every corner float at exponents 0, 1, 2 */
    for (j = 0; j < 5; j++) { long e;
      for (e = 0; e <= 2; e++) { setf_limbs(0, ua, la, (int)(a & 1), e);
        callf("mpf_ui_sub", 2, us[j], 0); callf("mpf_sub_ui", 2, 0, us[j]); callf("mpf_add_ui", 2, 0, us[j]); callf("mpf_mul_ui", 2, 0, us[j]); callf("mpf_div_ui", 2, 0, us[j]); callf("mpf_ui_div", 2, us[j], 0);
        callf("mpf_cmp_ui", 0, us[j]); callf("mpf_set", 3, 0); callf("mpf_ui_sub", 3, us[j], 3); } }
    for (j = 0; j < 4; j++) callf("mpf_clear", j);
    rec_quiesce();
  }
}

void drv_corners_q(int tier, unsigned long seed, const char *extra) {
  shard_t sh = shard_parse(extra); int na = 4, maxl = 2; long N = count_operands(na, maxl), a, b, x = 0; int j;
  for (a = 0; a < N * N; a += (sh.pure ? 17 : (tier ? 1 : 3))) {
    mp_limb_t n1[4], d1[4], n2[4], d2[4]; int ln1, ld1, ln2, ld2, s;
    x++; if (!MINE(sh, x)) continue;
    rec_reset("corners_q", x, seed);
    for (j = 0; j < 3; j++) callf("mpq_init", j);
    ln1 = nth_operand(a / N, na, maxl, n1); ld1 = nth_operand(a % N, na, maxl, d1);
    for (b = (a * 7) % 5; b < N * N; b += (sh.pure ? 41 : 5)) for (s = 0; s < 2; s++) {
      char *hn, *hd;
      ln2 = nth_operand(b / N, na, maxl, n2); ld2 = nth_operand(b % N, na, maxl, d2);
      hn = hex_of_limbs(n1, ln1, s); hd = hex_of_limbs(d1, ld1, 0); callf("drv_setq", 0, hn, hd); free(hn); free(hd); callf("mpq_canonicalize", 0);
      hn = hex_of_limbs(n2, ln2, 0); hd = hex_of_limbs(d2, ld2, 0); callf("drv_setq", 1, hn, hd); free(hn); free(hd); callf("mpq_canonicalize", 1);
      callf("mpq_add", 2, 0, 1); callf("mpq_sub", 2, 0, 1); callf("mpq_mul", 2, 0, 1); callf("mpq_div", 2, 0, 1); callf("mpq_cmp", 0, 1); callf("mpq_equal", 0, 1);
      callf("mpq_set", 2, 0); callf("mpq_sub", 2, 2, 1); callf("mpq_set", 2, 1); callf("mpq_div", 2, 0, 2); callf("mpq_sub", 2, 0, 0);
    }
    for (j = 0; j < 3; j++) callf("mpq_clear", j);
    rec_quiesce();
  }
}
