/* C19: random numbers: range, reproducibility from the seed, copy equivalence, no gross non-uniformity.
   All three generator kinds (every supported lc_2exp_size, odd and even m2exp), seeds 0, 1, 2^64-1, multi-limb; request sizes
   0, 1, limb boundaries +-1, large; moduli 1, 2^k, 2^k+-1, multi-limb; twin states driven with the same history; copies taken
   at arbitrary points. */
#include "util.h"
static void init_kind(int r, int kind, uint64_t par) {
  switch (kind) { case 0: callf("gmp_randinit_default", r); break; case 1: callf("gmp_randinit_mt", r); break;
    case 2: callf("gmp_randinit_lc_2exp_size", r, par); break;
    default: callf("drv_setz", 7, par & 1 ? "5851f42d4c957f2d" : "41c64e6d"); callf("gmp_randinit_lc_2exp", r, 7, (uint64_t)(12345 + par), (uint64_t)par); }
}
static void seed_state(int r, int sk) {
  if (sk < 3) { static const uint64_t su[] = {0, 1, 0xffffffffffffffffUL}; callf("gmp_randseed_ui", r, su[sk]); }
  else { callf("drv_rndz", 6, 1 + sk, 0, 0); callf("gmp_randseed", r, 6); }
}
static void draw(int r, int what, uint64_t arg, int zdst) {
  switch (what) { case 0: callf("gmp_urandomb_ui", r, arg > 64 ? 64 : arg); break; case 1: callf("gmp_urandomm_ui", r, arg ? arg : 1); break;
    case 2: callf("mpz_urandomb", zdst, r, arg); break; case 3: callf("mpz_rrandomb", zdst, r, arg); break;
    case 4: callf("mpz_urandomm", zdst, r, 5); break; default: callf("mpf_urandomb", 0, r, arg); }
}
void drv_c19_hist(int tier, unsigned long seed, const char *extra) {
  shard_t sh = shard_parse(extra); long x = 0; int kind, sk, j;
  static const uint64_t pars[] = {1, 7, 16, 17, 32, 33, 64, 100, 128, 17, 20, 31, 33, 63, 65, 127, 129, 200};    /* sizes for kind 2 (<=128); m2exp for kind 3: odd and even, not so small that the period makes mpz_urandomm cycle */
  static const uint64_t bitsv[] = {0, 1, 2, 31, 32, 33, 63, 64, 65, 127, 128, 129, 500};
  for (kind = 0; kind < 4; kind++) for (sk = 0; sk < 5; sk++) for (j = 0; j < (kind < 2 ? 2 : 9); j++) {
    uint64_t par = kind == 2 ? pars[j] : pars[9 + j]; int s, step;
    x++; if (!MINE(sh, x)) continue;
    if (sh.pure && x % 10) continue;
    rec_reset("c19_hist", x, seed);
    for (s = 0; s < 8; s++) callf("mpz_init", s); callf("mpf_init2", 0, (uint64_t)(64 + 64 * rnd_below(4)));
    init_kind(0, kind, par); init_kind(1, kind, par);
    seed_state(0, sk); callf(sk < 3 ? "gmp_randseed_ui" : "gmp_randseed", 1, sk < 3 ? (sk == 0 ? (uint64_t)0 : sk == 1 ? (uint64_t)1 : 0xffffffffffffffffUL) : 6);
    /* modulus for urandomm: classes 1, 2^k, 2^k+-1, multi-limb */
    for (step = 0; step < 30; step++) {
      int what = (int)rnd_below(6); uint64_t arg = what < 2 ? (what == 0 ? bitsv[rnd_below(9)] : (rnd_below(2) ? ((uint64_t)1 << rnd_below(64)) + rnd_below(3) - 1 : rnd64() >> rnd_below(64))) : bitsv[rnd_below(13)];
      if (what == 4) { int mk = (int)rnd_below(5); if (mk == 0) callf("drv_setz", 5, "1"); else if (mk == 1) { callf("drv_setz", 5, "1"); callf("mpz_mul_2exp", 5, 5, (uint64_t)(1 + rnd_below(200))); }
        else if (mk == 2) { callf("drv_setz", 5, "1"); callf("mpz_mul_2exp", 5, 5, (uint64_t)(1 + rnd_below(200))); callf(rnd_below(2) ? "mpz_add_ui" : "mpz_sub_ui", 5, 5, (uint64_t)1); if (SIZ(Zp[5]) == 0) callf("drv_setz", 5, "3"); }
        else callf("drv_rndz", 5, 1 + (int)rnd_below(4), (int)rnd_below(NKINDS), 0); if (SIZ(Zp[5]) <= 0) callf("drv_setz", 5, "7"); }
      if (what == 1 && arg == 0) arg = 1;
      /* twin states: the same call on both must give the same output (reproducibility ghost in the specification) */
      draw(0, what, arg, 0); draw(1, what, arg, 1);
      if (step == 14) {   /* re-seeding a state that has been used restarts its history: it must now agree with a FRESH state given the same seed */
        int sk2 = (sk + 1) % 3; static const uint64_t su[] = {0, 1, 0xffffffffffffffffUL};
        callf("gmp_randseed_ui", 0, su[sk2] + (uint64_t)(j == 3 ? 41 : 0)); init_kind(2, kind, par); callf("gmp_randseed_ui", 2, su[sk2] + (uint64_t)(j == 3 ? 41 : 0));
        draw(0, 2, 130, 2); draw(2, 2, 130, 3); draw(0, 0, 64, 2); draw(2, 0, 64, 3); draw(0, 2, 300, 2); draw(2, 2, 300, 3);
        callf("gmp_randclear", 2);
        /* bring the twin back in step */
        callf("gmp_randseed_ui", 1, su[sk2] + (uint64_t)(j == 3 ? 41 : 0)); draw(1, 2, 130, 4); draw(1, 0, 64, 4); draw(1, 2, 300, 4); }
      if (step == 9 || step == 19) { callf("gmp_randinit_set", 2, 0); draw(0, 2, 77, 2); draw(2, 2, 77, 3); draw(1, 2, 77, 4); callf("gmp_randclear", 2); }
      if (what == 4 && step % 4 == 0) { callf("mpz_set", 2, 5); callf("mpz_urandomm", 2, 0, 2); callf("mpz_set", 3, 5); callf("mpz_urandomm", 3, 1, 3); }   /* rop == n */
    }
    callf("gmp_randclear", 0); callf("gmp_randclear", 1);
    for (s = 0; s < 8; s++) callf("mpz_clear", s); callf("mpf_clear", 0);
    rec_quiesce();
  }
  if (sh.pure) return;
  /* unsupported table size */
  x++; if (MINE(sh, x)) { rec_reset("c19_hist", x, seed); callf("gmp_randinit_lc_2exp_size", 0, (uint64_t)129); callf("gmp_randinit_lc_2exp_size", 0, (uint64_t)1000); rec_quiesce(); }
}
/* mpn-level generators and whole-sample statistics (one event carrying all draws) */
/* A copy (gmp_randinit_set) taken after EVERY amount of output from 0 to beyond two internal blocks of the generator (the Mersenne Twister refills
   624 words at a time; the LC generators step once per chunk): original and copy must continue identically (the history key of MPIR.tla travels with
   the copy, so equal calls must give equal outputs), in particular when the copy is taken exactly at a refill boundary. */
void drv_c19_copy(int tier, unsigned long seed, const char *extra) {
  shard_t sh = shard_parse(extra); long x = 0; int kind, pre, s;
  for (kind = 0; kind < 3; kind++) for (pre = 0; pre <= (kind < 2 ? 1300 : 40); pre += (tier || kind == 2 ? 1 : (pre > 470 && pre < 520) || (pre > 1090 && pre < 1150) || pre < 8 ? 1 : 7)) {
    x++; if (!MINE(sh, x)) continue;
    if (sh.pure && x % 300) continue;
    rec_reset("c19_copy", x, seed);
    for (s = 0; s < 4; s++) callf("mpz_init", s);
    init_kind(0, kind == 2 ? 2 : kind, 64); seed_state(0, (int)(x % 3));
    if (pre) callf("mpz_urandomb", 0, 0, (uint64_t)32 * pre);       /* pre words of 32 bits drawn since seeding */
    callf("gmp_randinit_set", 1, 0);
    for (s = 0; s < 3; s++) { callf("mpz_urandomb", 1, 0, (uint64_t)(s == 1 ? 32 : 64)); callf("mpz_urandomb", 2, 1, (uint64_t)(s == 1 ? 32 : 64)); }
    callf("gmp_urandomb_ui", 0, (uint64_t)17); callf("gmp_urandomb_ui", 1, (uint64_t)17);
    callf("gmp_randclear", 0); callf("gmp_randclear", 1);
    for (s = 0; s < 4; s++) callf("mpz_clear", s);
    rec_quiesce();
  }
}
void drv_c19_stats(int tier, unsigned long seed, const char *extra) {
  shard_t sh = shard_parse(extra); long x = 0; int kind, j, bits;
  static const uint64_t pars[] = {16, 32, 64, 128, 64, 101, 128};
  gmp_randstate_t st; mpz_t a, z;
  for (kind = 0; kind < 3; kind++) for (j = 0; j < (kind == 0 ? 1 : (kind == 1 ? 4 : 3)); j++) for (bits = 8; bits <= 72; bits += 32) {
    long N = tier ? 16384 : 8192, i; char **hs;
    x++; if (!MINE(sh, x)) continue;
    rec_reset("c19_stats", x, seed);
    priv_begin(); mpz_init(a); mpz_init(z);
    if (kind == 0) gmp_randinit_mt(st); else if (kind == 1) gmp_randinit_lc_2exp_size(st, pars[j]); else { mpz_set_str(a, "5851f42d4c957f2d14057b7ef767814f", 16); gmp_randinit_lc_2exp(st, a, 1442695040888963407UL, pars[4 + j]); }
    gmp_randseed_ui(st, seed * 7919 + x);
    hs = malloc(N * sizeof *hs);
    for (i = 0; i < N; i++) { mpz_urandomb(z, st, bits); hs[i] = hex_of_limbs(PTR(z), ABSIZ(z), 0); }
    priv_end();
    fn_begin("rand_stats"); fn_in_int("bits", bits); fn_in_int("kind", kind); fn_in_int("par", kind ? (long)pars[kind == 1 ? j : 4 + j] : 0);
    { size_t len = 16 + N * 24, o = 0; char *js = malloc(len); o += sprintf(js + o, "["); for (i = 0; i < N; i++) o += sprintf(js + o, "%s\"%s\"", i ? "," : "", hs[i]); sprintf(js + o, "]"); fn_in_raw("draws", js); free(js); }
    fn_mid(); fn_out_int("n", N); fn_end();
    for (i = 0; i < N; i++) free(hs[i]); free(hs);
    /* mpn-level generators: exact limb count with non-zero top limb; ranges */
    { mp_size_t n; for (n = 1; n <= 20; n += 3) { mp_ptr r = gb_get(0, n + 1, 1), m = gb_get(1, n, 1);
        fn_begin("mpn_randomb"); fn_in_int("n", n); fn_mid(); priv_begin(); mpn_randomb(r, st, n); priv_end(); fn_out_limbs("r", r, n); fn_end();
        fn_begin("mpn_rrandom"); fn_in_int("n", n); fn_mid(); priv_begin(); mpn_rrandom(r, st, n); priv_end(); fn_out_limbs("r", r, n); fn_end();
        { unsigned long nb = 1 + rnd_below(n * 64); fn_begin("mpn_urandomb"); fn_in_int("bits", nb); fn_mid(); priv_begin(); mpn_urandomb(r, st, nb); priv_end(); fn_out_limbs("r", r, (nb + 63) / 64); fn_end(); }
        rnd_limbs(m, n, (int)rnd_below(NKINDS)); if (!m[n - 1]) m[n - 1] = 1;
        fn_begin("mpn_urandomm"); fn_in_limbs("m", m, n); fn_in_int("n", n); fn_mid(); priv_begin(); mpn_urandomm(r, st, m, n); priv_end(); fn_out_limbs("r", r, n); fn_end(); } }
    priv_begin(); gmp_randclear(st); mpz_clear(a); mpz_clear(z); priv_end();
  }
}

/* the obsolete generators that draw from the library's global state (mpn_random, mpn_random2, mpf_random2): same range / format contracts as their
   replacements.  The global state is initialised by one private call first, so that the recorded calls only advance it. */
void drv_c19_old(int tier, unsigned long seed, const char *extra) {
  shard_t sh = shard_parse(extra); long x = 0; int rep, j;
  { mp_limb_t t[2]; priv_begin(); mpn_random(t, 1); priv_end(); }
  for (rep = 0; rep < (sh.pure ? 2 : (tier ? 60 : 16)); rep++) { mp_size_t n;
    x++; if (!MINE(sh, x)) continue;
    rec_reset("c19_old", x, seed);
    for (n = 1; n <= (sh.pure ? 3 : 40); n += (n < 6 ? 1 : 5)) { mp_ptr r = gb_get(0, n, rep & 1);
      fn_begin("mpn_random"); fn_in_int("n", n); fn_mid(); gb_fill(r, n); priv_begin(); mpn_random(r, n); priv_end(); fn_out_limbs("r", r, n); fn_end();
      fn_begin("mpn_random2"); fn_in_int("n", n); fn_mid(); gb_fill(r, n); priv_begin(); mpn_random2(r, n); priv_end(); fn_out_limbs("r", r, n); fn_end(); }
    for (j = 0; j < 3; j++) callf("mpf_init2", j, (uint64_t)(64 + 64 * j * 3));
    for (j = 0; j < (sh.pure ? 6 : 40); j++) { callf("mpf_random2", j % 3, (int64_t)((long)rnd_below(31) - 15), (int64_t)rnd_below(25)); if (!sh.pure) callf("mpf_get_d", j % 3); }
    callf("mpf_random2", 0, (int64_t)0, (int64_t)5); callf("mpf_random2", 1, (int64_t)-300, (int64_t)0); callf("mpf_random2", 2, (int64_t)300, (int64_t)1);
    for (j = 0; j < 3; j++) callf("mpf_clear", j);
    rec_quiesce();
  }
}

/* c19_mcorner: mpz_urandomm / mpz_urandomb / mpz_rrandomb with CORNER moduli and bit counts into destinations in every state: the modulus runs through
   2^k and 2^k +- 1 for k around every limb boundary up to 4 limbs (n = B^j exactly: the result needs one limb fewer than n has) and through the corner-alphabet
   operands; the destination is fresh, or holds a LONGER all-ones value (stale limbs above the result), or IS the modulus (rop == n); twin states must agree
   (reproducibility ghost) whatever the destinations held before. */
void drv_c19_mcorner(int tier, unsigned long seed, const char *extra) {
  shard_t sh = shard_parse(extra); long x = 0; int kind, mi, j;
  static const int ks[] = {1, 2, 31, 32, 33, 63, 64, 65, 127, 128, 129, 191, 192, 193, 256};
  for (kind = 1; kind < 4; kind++) for (mi = 0; mi < 15; mi++) {
    int d, st;
    x++; if (!MINE(sh, x)) continue;
    if (sh.pure && (mi > 6 || kind > 1)) continue;
    rec_reset("c19_mcorner", x, seed);
    for (j = 0; j < 8; j++) callf("mpz_init", j);
    init_kind(0, kind, kind == 2 ? 100 : 129); init_kind(1, kind, kind == 2 ? 100 : 129); seed_state(0, mi % 3); seed_state(1, mi % 3);
    for (d = -1; d <= 1; d++) for (st = 0; st < 3; st++) { int rep;
      callf("drv_setz", 5, "1"); callf("mpz_mul_2exp", 5, 5, (uint64_t)ks[mi]); if (d > 0) callf("mpz_add_ui", 5, 5, (uint64_t)1); else if (d < 0) callf("mpz_sub_ui", 5, 5, (uint64_t)1);
      for (rep = 0; rep < 2; rep++) { int t;
        for (t = 0; t < 2; t++) { int dst = 2 + t;        /* twin t draws into its own destination, prepared the same way */
          if (st == 0) { callf("mpz_clear", dst); callf("mpz_init", dst); }
          else if (st == 1) { callf("drv_rndz", dst, (int)ABSIZ(Zp[5]) + 1 + rep, 1, rep); }
          else callf("mpz_set", dst, 5);
          if (st == 2) callf("mpz_urandomm", dst, t, dst); else callf("mpz_urandomm", dst, t, 5); }
        if (st == 1) { callf("drv_rndz", 2, (int)ABSIZ(Zp[5]) + 2, 1, 0); callf("mpz_urandomb", 2, 0, (uint64_t)(ks[mi] + d)); callf("drv_rndz", 3, 1, 0, 0); callf("mpz_urandomb", 3, 1, (uint64_t)(ks[mi] + d));
                       callf("drv_rndz", 2, (int)ABSIZ(Zp[5]) + 2, 1, 1); callf("mpz_rrandomb", 2, 0, (uint64_t)(ks[mi] + d)); callf("mpz_rrandomb", 3, 1, (uint64_t)(ks[mi] + d)); } } }
    callf("gmp_randclear", 0); callf("gmp_randclear", 1);
    for (j = 0; j < 8; j++) callf("mpz_clear", j);
    rec_quiesce();
  }
}
