/* C07: gcd, gcdext, lcm, invert, Jacobi/Kronecker.  Sizes on both sides of the Lehmer / half-gcd / sub-quadratic crossovers,
   size differences 0..3 and much longer; contents: consecutive Fibonacci pairs (all quotients 1), prescribed quotient
   sequences incl. quotients >= 2^64, huge common factor, equal, multiple, powers of two, zero, negatives; the documented
   special cases |a|=|b|, |b|=2g, b|a. */
#include "util.h"
static void shrinkz(int i) { callf("mpz_realloc2", i, (uint64_t)(ABSIZ(Zp[i]) ? (uint64_t)ABSIZ(Zp[i]) * 64 : 1)); }

/* builds a pair (A,B) in pool variables 0,1: how = 0 random, 1 Fibonacci-like, 2 prescribed quotients (some huge), 3 common factor g*x,g*y,
   4 equal magnitude, 5 b divides a, 6 |b| = 2g, 7 powers of two times odd, 8 one zero */
static void build_pair(int la, int lb, int how, int sa, int sb) {
  mpz_t a, b, t, g; int i;
  priv_begin(); mpz_init(a); mpz_init(b); mpz_init(t); mpz_init(g);
  switch (how) {
  case 1: { unsigned long n = (unsigned long)(la * 64 / 0.6942419) + 1 + rnd_below(3); mpz_fib2_ui(a, b, n); break; }
  case 2: { mpz_set_ui(a, 1 + rnd_below(5)); mpz_set_ui(b, 1);
      while (mpz_size(a) < (size_t)la) { /* (a,b) <- (q*a + b, a) */
        int r = (int)rnd_below(10);
        if (r == 0) { mpz_set_ui(t, rnd64() | 1); mpz_mul_2exp(t, t, 64 + rnd_below(70)); } else if (r < 3) mpz_set_ui(t, rnd64() | ((uint64_t)1 << 63)); else if (r < 6) mpz_set_ui(t, 1); else mpz_set_ui(t, 1 + rnd_below(4));
        mpz_mul(t, t, a); mpz_add(t, t, b); mpz_set(b, a); mpz_set(a, t); }
      break; }
  case 3: { mp_size_t gl = la > 2 ? la * 2 / 3 : 1;       _mpz_realloc(g, gl); rnd_limbs(PTR(g), gl, 0); PTR(g)[gl - 1] |= 1; SIZ(g) = gl;
      _mpz_realloc(a, la); rnd_limbs(PTR(a), la > gl ? la - gl : 1, 0); SIZ(a) = la > gl ? la - gl : 1; MPN_NORMALIZE(PTR(a), SIZ(a)); if (!SIZ(a)) mpz_set_ui(a, 3);
      _mpz_realloc(b, lb + 1); rnd_limbs(PTR(b), lb > gl ? lb - gl : 1, 0); SIZ(b) = lb > gl ? lb - gl : 1; MPN_NORMALIZE(PTR(b), SIZ(b)); if (!SIZ(b)) mpz_set_ui(b, 5);
      mpz_mul(a, a, g); mpz_mul(b, b, g); break; }
  case 9: { /* straddling a power of the limb base: A = B^(la-1) + X, B = q*A + B^(la-1) - Y (X, Y about 0.8 la limbs, q small): the first remainder is one limb
               shorter than the divisor although both are within a factor 2 of B^(la-1); times a common odd factor every other time */
      mp_size_t xl = la > 2 ? la * 4 / 5 : 1;
      _mpz_realloc(t, xl + 1); rnd_limbs(PTR(t), xl, 0); SIZ(t) = xl; MPN_NORMALIZE(PTR(t), SIZ(t));
      mpz_set_ui(a, 1); mpz_mul_2exp(a, a, 64 * (la > 1 ? la - 1 : 1)); mpz_set(b, a); mpz_add(a, a, t);
      _mpz_realloc(t, xl + 1); rnd_limbs(PTR(t), xl, 0); SIZ(t) = xl; MPN_NORMALIZE(PTR(t), SIZ(t)); mpz_sub(b, b, t);
      /* a common odd factor WITHOUT leaving the shape: both parts are rounded down to multiples of cf; both numbers odd (mpn_gcd) */
      { unsigned long cf = (rnd64() & 1) ? 1001 : 1, q = 1 + rnd_below(3) + (rnd_below(4) == 0 ? 9 : 0);
        mpz_sub_ui(a, a, mpz_fdiv_ui(a, cf)); if (mpz_even_p(a)) mpz_sub_ui(a, a, cf % 2 ? cf : 1);
        mpz_sub_ui(b, b, mpz_fdiv_ui(b, cf)); if ((mpz_odd_p(b) != 0) != (q % 2 == 0)) mpz_sub_ui(b, b, cf);
        mpz_addmul_ui(b, a, q); }
      break; }
  default: {
      _mpz_realloc(a, la + 1); if (la) { rnd_limbs(PTR(a), la, (int)rnd_below(NKINDS)); } SIZ(a) = la; MPN_NORMALIZE(PTR(a), SIZ(a));
      _mpz_realloc(b, lb + 1); if (lb) { rnd_limbs(PTR(b), lb, (int)rnd_below(NKINDS)); } SIZ(b) = lb; MPN_NORMALIZE(PTR(b), SIZ(b));
      if (how == 4) mpz_set(b, a);
      else if (how == 5) { if (!SIZ(b)) mpz_set_ui(b, 7); mpz_set_ui(t, 1 + rnd_below(1000)); if (la > lb) mpz_mul_2exp(t, t, 64 * (la - lb)); mpz_mul(a, b, t); }
      else if (how == 6) { /* |b| = 2g: b = 2g, a = g * odd */ if (!SIZ(b)) mpz_set_ui(b, 9); mpz_set(g, b); mpz_mul_2exp(b, g, 1); mpz_set_ui(t, 2 * rnd_below(100000) + 1); mpz_mul(a, g, t); }
      else if (how == 7) { if (!SIZ(a)) mpz_set_ui(a, 1); if (!SIZ(b)) mpz_set_ui(b, 1); mpz_mul_2exp(a, a, rnd_below(200)); mpz_mul_2exp(b, b, rnd_below(200)); }
      else if (how == 8) { if (rnd64() & 1) mpz_set_ui(a, 0); else mpz_set_ui(b, 0); if (rnd_below(4) == 0) { mpz_set_ui(a, 0); mpz_set_ui(b, 0); } }
    }
  }
  if (sa) mpz_neg(a, a); if (sb) mpz_neg(b, b);
  priv_end();
  pool_set_from(0, a); pool_set_from(1, b);
  priv_begin(); mpz_clear(a); mpz_clear(b); mpz_clear(t); mpz_clear(g); priv_end();
}
static void gcd_suite(int small) {
  int j;
  shrinkz(2); callf("mpz_gcd", 2, 0, 1); shrinkz(2); shrinkz(3); shrinkz(4); callf("mpz_gcdext", 2, 3, 4, 0, 1);
  shrinkz(2); shrinkz(3); callf("mpz_gcdext_nt", 2, 3, 0, 1); shrinkz(2); callf("mpz_gcdext_nst", 2, 0, 1);
  shrinkz(2); callf("mpz_lcm", 2, 0, 1);
  callf("mpz_set", 2, 0); callf("mpz_gcd", 2, 2, 1); callf("mpz_set", 2, 1); callf("mpz_gcd", 2, 0, 2);       /* aliased */
  callf("mpz_set", 2, 0); callf("mpz_set", 3, 1); callf("mpz_gcdext", 2, 3, 4, 2, 3);
  if (mpz_cmpabs_ui(Zp[1], 1) > 0) { shrinkz(2); callf("mpz_invert", 2, 0, 1); callf("mpz_set", 2, 0); callf("mpz_invert", 2, 2, 1); }
  callf("mpz_kronecker", 0, 1);
  if (SIZ(Zp[1]) > 0 && (PTR(Zp[1])[0] & 1)) callf("mpz_jacobi", 0, 1);
  if (small) for (j = 0; j < 4; j++) { uint64_t u = j == 0 ? 0 : j == 1 ? 1 : rnd64() >> rnd_below(63); int64_t s = (int64_t)(rnd64() >> rnd_below(63)) * ((rnd64() & 1) ? 1 : -1);
    shrinkz(2); callf("mpz_gcd_ui", 2, 0, u); callf("mpz_gcd_ui_null", 0, u); shrinkz(2); callf("mpz_lcm_ui", 2, 0, u);
    callf("mpz_kronecker_ui", 0, u); callf("mpz_ui_kronecker", u, 0); callf("mpz_kronecker_si", 0, s); callf("mpz_si_kronecker", s, 0); }
}
void drv_c07_mpz(int tier, unsigned long seed, const char *extra) {
  shard_t sh = shard_parse(extra); long x = 0; int i, how, d, sa, sb;
  static const int thr[] = {1, 2, 3, 23, 113};  static const int thr_t[] = {342, 460};
  int ls[60], nl = 0;
  if (sh.pure) { ls[nl++] = 1; ls[nl++] = 2; ls[nl++] = 3; }
  else { nl = sizes_around(ls, 40, thr, 5, 1, 200); if (tier) nl += sizes_around(ls + nl, 12, thr_t, 2, 300, 500); else { ls[nl++] = 343; ls[nl++] = 461; } }
  for (i = 0; i < nl; i++) for (how = 0; how < 10; how++) for (d = 0; d < 5; d++) {
    int la = ls[i], lb = d < 4 ? (la - d > 0 ? la - d : 1) : (la / 4 > 0 ? la / 4 : 1), j;
    if (la > 200 && (how == 2 ? 0 : (d % 2))) continue;
    x++; if (!MINE(sh, x)) continue;
    if (sh.pure && x % 45) continue;
    rec_reset("c07_mpz", x, seed);
    for (j = 0; j < 5; j++) callf("mpz_init", j);
    for (sa = 0; sa < 2; sa++) for (sb = 0; sb < 2; sb++) {
      if (la > 60 && sa != sb) continue;
      build_pair(la, lb, how, sa, sb); gcd_suite(la <= 60);
      if (la <= 60) { callf("mpz_swap", 0, 1); gcd_suite(0); }
    }
    for (j = 0; j < 5; j++) callf("mpz_clear", j);
    rec_quiesce();
  }
}
/* the sub-quadratic reduction step (mpn_hgcd_reduce) is entered only from HGCD_REDUCE_THRESHOLD limbs of half-gcd size: operands of twice (gcdext) and three
   times (gcd) that many limbs, random and straddling a power of the limb base */
void drv_c07_big(int tier, unsigned long seed, const char *extra) {
  shard_t sh = shard_parse(extra); long x = 0; int m, how, j;
  if (sh.pure) return;
  for (m = 2; m <= (tier ? 3 : 2); m++) for (how = 0; how < (tier ? 4 : 2); how++) {       /* quick: the gcdext size only */
    int la = m * HGCD_REDUCE_THRESHOLD + HGCD_REDUCE_THRESHOLD / 3 + (int)rnd_below(40), hw = how == 0 ? 9 : how == 1 ? 0 : how == 2 ? 9 : 3;
    x++; if (!MINE(sh, x)) continue;
    rec_reset("c07_big", x, seed);
    for (j = 0; j < 5; j++) callf("mpz_init", j);
    build_pair(la, la, hw, 0, 0);
    shrinkz(2); callf("mpz_gcd", 2, 0, 1); shrinkz(2); shrinkz(3); shrinkz(4); callf("mpz_gcdext", 2, 3, 4, 0, 1);
    if (m == 2) { callf("mpz_swap", 0, 1); callf("mpz_gcdext_nt", 2, 3, 0, 1); callf("mpz_gcd", 2, 0, 1); }
    for (j = 0; j < 5; j++) callf("mpz_clear", j);
    rec_quiesce();
  }
}
/* mpn level: documented preconditions (U >= V > 0; mpn_gcd: V odd, operands destroyed) */
void drv_c07_mpn(int tier, unsigned long seed, const char *extra) {
  shard_t sh = shard_parse(extra); long x = 0; int i, k;
  static const int ls_q[] = {1, 2, 3, 5, 22, 23, 24, 60, 112, 113, 114, 200, 342, 461}; int nl = sh.pure ? 3 : (tier ? 14 : 12);
  for (i = 0; i < nl; i++) for (k = 0; k < 6; k++) {
    mp_size_t un = ls_q[i], vn = k < 3 ? (un - k > 0 ? un - k : 1) : (un / (k - 1) > 0 ? un / (k - 1) : 1); mp_ptr u, v, g, s, uc, vc; mp_size_t gn, sn; int kind = k % NKINDS;
    x++; if (!MINE(sh, x)) continue;
    rec_reset("c07_mpn", x, seed);
    u = gb_get(0, un + 1, 1); v = gb_get(1, vn + 1, 1); g = gb_get(2, un + 1, 1); s = gb_get(3, un + 2, 1); uc = gb_get(4, un + 1, 1); vc = gb_get(5, vn + 1, 1);
    rnd_limbs(u, un, kind); rnd_limbs(v, vn, (kind + 1) % NKINDS); if (!u[un - 1]) u[un - 1] = 1; if (!v[vn - 1]) v[vn - 1] = 1;
    if (un == vn && mpn_cmp(u, v, un) < 0) { mp_ptr t = u; u = v; v = t; }
    if (k == 5) { /* common factor */ mp_limb_t f = rnd64() | 1; if (un > 1 && vn > 1) { u[un - 1] = mpn_mul_1(u, u, un - 1, f); v[vn - 1] = mpn_mul_1(v, v, vn - 1, f); if (!u[un - 1]) u[un - 1] = 1; if (!v[vn - 1]) v[vn - 1] = 1; if (un == vn && mpn_cmp(u, v, un) < 0) { mp_ptr t = u; u = v; v = t; } } }
    MPN_COPY(uc, u, un); MPN_COPY(vc, v, vn);
    fn_begin("mpn_gcdext"); fn_in_limbs("a", u, un); fn_in_limbs("b", v, vn); fn_in_int("an", un); fn_in_int("bn", vn); fn_mid();
    gn = mpn_gcdext(g, s, &sn, uc, un, vc, vn);
    fn_out_limbs("g", g, gn); { char *h = hex_of_limbs(s, sn < 0 ? -sn : sn, sn < 0); fn_out_str("s", h); free(h); } fn_end();
    v[0] |= 1; MPN_COPY(uc, u, un); MPN_COPY(vc, v, vn);
    if (un > vn || mpn_cmp(u, v, un) >= 0) {
      fn_begin("mpn_gcd"); fn_in_limbs("a", u, un); fn_in_limbs("b", v, vn); fn_in_int("an", un); fn_in_int("bn", vn); fn_mid();
      gn = mpn_gcd(g, uc, un, vc, vn); fn_out_limbs("g", g, gn); fn_end(); }
    { mp_limb_t l = rnd64() >> rnd_below(63), r; if (!l) l = 6;
      fn_begin("mpn_gcd_1"); fn_in_limbs("a", u, un); fn_in_int("an", un); fn_in_u64("b", l); fn_mid(); r = mpn_gcd_1(u, un, l); fn_out_u64("g", r); fn_end(); }
  }
}

/* c07_jac2: Jacobi / Kronecker symbols of TWO-limb (and three-limb, zero middle limb) operands whose limbs are corners for the symbol: low limbs in every class
   mod 8 at both ends of the limb range (the (2|a) factor), high limbs 1..9 / 2^63.. / 2^64-1 so that the DIFFERENCE of two operands has every trailing-zero
   count parity and, for equal low limbs, loses its whole low limb (mpn_jacobi_2's "bl == 0" branch needs a 64-bit limb of b - a to vanish: never with random data).
   All pairs with equal low limbs, a seeded eighth (thorough: all) of the others; signs of both operands. */
void drv_c07_jac2(int tier, unsigned long seed, const char *extra) {
  shard_t sh = shard_parse(extra); long x = 0; int la, ha, lb, hb, mid;
  static const mp_limb_t L[] = {1, 3, 5, 7, 9, 11, ((mp_limb_t)1 << 63) + 1, ((mp_limb_t)1 << 63) + 3, ((mp_limb_t)1 << 63) + 5, ((mp_limb_t)1 << 63) + 7, ~(mp_limb_t)0, ~(mp_limb_t)0 - 2, ~(mp_limb_t)0 - 4, ~(mp_limb_t)0 - 6};
  static const mp_limb_t H[] = {1, 2, 3, 4, 5, 6, 8, 9, (mp_limb_t)1 << 63, ((mp_limb_t)1 << 63) + 1, ((mp_limb_t)1 << 63) + 2, ~(mp_limb_t)0, ~(mp_limb_t)0 - 1};
  for (mid = 0; mid < 2; mid++) for (la = 0; la < 14; la++) for (ha = 0; ha < 13; ha++) {
    x++; if (!MINE(sh, x)) continue;
    if (sh.pure && (la > 1 || ha > 1 || mid)) continue;
    rec_reset("c07_jac2", x, seed);
    { int j; for (j = 0; j < 3; j++) callf("mpz_init", j); }
    for (lb = 0; lb < 14; lb++) for (hb = 0; hb < 13; hb++) { mp_limb_t a[3], b[3]; int n = mid ? 3 : 2, s; char *h;
      if (la != lb && !tier && rnd_below(8)) continue;
      if (mid && la != lb && rnd_below(4)) continue;
      a[0] = L[la]; a[n - 1] = H[ha]; b[0] = L[lb]; b[n - 1] = H[hb]; if (mid) a[1] = b[1] = 0;
      h = hex_of_limbs(a, n, 0); callf("drv_setz", 0, h); free(h); h = hex_of_limbs(b, n, 0); callf("drv_setz", 1, h); free(h);
      callf("mpz_jacobi", 0, 1); callf("mpz_kronecker", 0, 1);
      for (s = 1; s < 4; s++) { if (!tier && s != 1 + (int)((la + hb) % 3)) continue;
        if (s & 1) callf("mpz_neg", 0, 0); if (s & 2) callf("mpz_neg", 1, 1); callf("mpz_kronecker", 0, 1); if (s & 1) callf("mpz_neg", 0, 0); if (s & 2) callf("mpz_neg", 1, 1); }
      /* an even first operand: powers of two in front of the same odd parts */
      if (la == lb) { callf("mpz_mul_2exp", 2, 0, (uint64_t)(1 + (ha + hb) % 70)); callf("mpz_kronecker", 2, 1); callf("mpz_jacobi", 2, 1); }
    }
    { int j; for (j = 0; j < 3; j++) callf("mpz_clear", j); }
    rec_quiesce();
  }
}
