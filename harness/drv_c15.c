/* C15: concurrent use.  K threads run fixed call sequences on private destinations and shared read-only sources, each with its
   own gmp_randstate_t.  A cooperative scheduler lets exactly one thread run between yield points (every entry into the memory
   functions) and forces the schedules TLC enumerated (Threads.tla); each thread records its calls (inputs and outputs) in its
   own buffer, validated afterwards against the sequential specification.  Operand sizes below and above the 65536-byte
   TMP_ALLOC stack/heap switch.  With extra option "free" the threads run unscheduled (used on the ThreadSanitizer build). */
#define _GNU_SOURCE
#include "util.h"
#include <pthread.h>
#define MAXT 4
#define MAXS 64
static int nthr, sched_on, sched[MAXS], nsched, sidx, turn, finished[MAXT];
static pthread_mutex_t mu = PTHREAD_MUTEX_INITIALIZER; static pthread_cond_t cv = PTHREAD_COND_INITIALIZER;
static __thread int me = -1;
static int next_unfinished(int from) { int k; for (k = 0; k < nthr; k++) { int c = (from + k) % nthr; if (!finished[c]) return c; } return -1; }
static void yield_point(void) {
  if (me < 0 || !sched_on) return;
  pthread_mutex_lock(&mu);
  { int want = sidx < nsched ? sched[sidx++] % nthr : (me + 1) % nthr; int nx = next_unfinished(want); if (nx >= 0) turn = nx; }
  pthread_cond_broadcast(&cv);
  while (turn != me) pthread_cond_wait(&cv, &mu);
  pthread_mutex_unlock(&mu);
}
static void *ts_alloc(size_t n) { yield_point(); return malloc(n ? n : 1); }
static void *ts_realloc(void *p, size_t o, size_t n) { yield_point(); return realloc(p, n ? n : 1); }
static void ts_free(void *p, size_t n) { yield_point(); free(p); }

static mpz_t SRC[6];                       /* shared, read-only while the threads run */
typedef struct { int id; unsigned long seed; char *buf; size_t len; char *rnd_par; } targ;
static void zin(const char *k, mpz_srcptr z) { char *h = hex_of_limbs(PTR(z), ABSIZ(z), SIZ(z) < 0); fn_in_str(k, h); free(h); }
/* records one mpz call as a stateless event: {"f":"zcall","i":{"fn":name,"a":[...]},"o":{"o":[...],"ret":..}} */
static void zcall3(const char *name, mpz_ptr r, mpz_srcptr a, mpz_srcptr b, void (*fn)(mpz_ptr, mpz_srcptr, mpz_srcptr)) {
  char *ha = hex_of_limbs(PTR(a), ABSIZ(a), SIZ(a) < 0), *hb = hex_of_limbs(PTR(b), ABSIZ(b), SIZ(b) < 0), *hr, js[64]; size_t L = strlen(ha) + strlen(hb) + 64; char *arr = malloc(L);
  snprintf(arr, L, "[\"0\",\"%s\",\"%s\"]", ha, hb);
  fn_begin("zcall"); fn_in_str("fn", name); fn_in_raw("a", arr); fn_mid();
  fn(r, a, b);
  hr = hex_of_limbs(PTR(r), ABSIZ(r), SIZ(r) < 0); { size_t L2 = strlen(hr) + 32; char *o = malloc(L2); snprintf(o, L2, "[\"%s\",\"0\",\"0\"]", hr); fn_out_raw("o", o); free(o); }
  fn_out_int("ret", 0); fn_end(); free(ha); free(hb); free(hr); free(arr); (void)js;
}
static void *worker(void *vp) {
  targ *t = vp; mpz_t x, y, z; gmp_randstate_t rs; int i; char *rbuf = NULL; size_t rlen = 0; FILE *rf;
  me = t->id;
  pthread_mutex_lock(&mu); while (sched_on && turn != me) pthread_cond_wait(&cv, &mu); pthread_mutex_unlock(&mu);
  tr = open_memstream(&t->buf, &t->len);
  fprintf(tr, "{\"e\":\"reset\",\"drv\":\"c15\",\"x\":%d,\"seed\":\"%lx\"}\n", t->id, t->seed);
  mpz_init(x); mpz_init(y); mpz_init(z); gmp_randinit_default(rs); gmp_randseed_ui(rs, t->seed + 17 * t->id);
  rf = open_memstream(&rbuf, &rlen);
  for (i = 0; i < 6; i++) {
    mpz_srcptr a = SRC[(i + t->id) % 6], b = SRC[(i + 2 * t->id + 1) % 6];
    zcall3("mpz_mul", x, a, b, mpz_mul); zcall3("mpz_add", y, x, a, mpz_add); zcall3("mpz_gcd", z, a, b, mpz_gcd);
    if (mpz_sgn(b)) { zcall3("mpz_tdiv_q", z, x, b, mpz_tdiv_q); zcall3("mpz_mod", z, x, b, mpz_mod); }
    zcall3("mpz_and", z, a, b, mpz_and); zcall3("mpz_sub", y, y, x, mpz_sub);
    { char *s = mpz_get_str(NULL, 10, y); size_t L = strlen(s); void (*ff)(void *, size_t); mp_get_memory_functions(NULL, NULL, &ff); ff(s, L + 1); }
    mpz_urandomb(z, rs, 200 + 64 * i); gmp_fprintf(rf, "%Zx,", z);          /* private random state: must reproduce the serial stream */
    { char b2[256]; gmp_snprintf(b2, sizeof b2, "%Zd|%d", SRC[0], i); }
  }
  fclose(rf); t->rnd_par = rbuf;
  mpz_clear(x); mpz_clear(y); mpz_clear(z); gmp_randclear(rs);
  fclose(tr); tr = NULL;
  pthread_mutex_lock(&mu); finished[me] = 1; { int nx = next_unfinished((me + 1) % nthr); if (nx >= 0) turn = nx; } pthread_cond_broadcast(&cv); pthread_mutex_unlock(&mu);
  return NULL;
}
static char *serial_rand(int id, unsigned long seed) {
  gmp_randstate_t rs; mpz_t z; char *rbuf = NULL; size_t rlen = 0; FILE *rf = open_memstream(&rbuf, &rlen); int i;
  mpz_init(z); gmp_randinit_default(rs); gmp_randseed_ui(rs, seed + 17 * id);
  for (i = 0; i < 6; i++) { mpz_urandomb(z, rs, 200 + 64 * i); gmp_fprintf(rf, "%Zx,", z); }
  fclose(rf); mpz_clear(z); gmp_randclear(rs); return rbuf;
}
void drv_c15(int tier, unsigned long seed, const char *extra) {
  shard_t sh = shard_parse(extra); const char *path = opt_val(&sh, "file"); FILE *f = path ? fopen(path, "r") : NULL; char line[512]; long n = 0; int freerun = opt_has(&sh, "free");
  FILE *mainout = tr; int big;
  rec_threaded = 1; rec_alloc_logging(0);
  mp_set_memory_functions(ts_alloc, ts_realloc, ts_free);
  for (big = 0; big < 2; big++) {
    int rounds = 0;
    if (f) rewind(f);
    while (freerun ? rounds < (tier ? 40 : 8) : (f && fgets(line, sizeof line, f))) {
      pthread_t th[MAXT]; targ ta[MAXT]; int i; char *p;
      n++; rounds++; if (!MINE(sh, n)) continue;
      if (big && rounds > (tier ? 12 : 3)) break;            /* large operands: a few schedules only (trace volume) */
      nthr = 0; nsched = 0; sidx = 0;
      if (freerun) { nthr = 4; sched_on = 0; }
      else { for (p = line; *p && nsched < MAXS; p++) if (*p >= '1' && *p <= '4') { sched[nsched] = *p - '1'; if (sched[nsched] + 1 > nthr) nthr = sched[nsched] + 1; nsched++; } sched_on = 1; if (nthr < 2) continue; }
      /* shared sources: small (stack temporaries) or above the 65536-byte TMP_ALLOC switch (heap temporaries) */
      for (i = 0; i < 6; i++) { int limbs = big ? 4200 + 37 * i : 3 + 5 * i; mpz_init(SRC[i]); _mpz_realloc(SRC[i], limbs); rnd_limbs(PTR(SRC[i]), limbs, i % NKINDS); SIZ(SRC[i]) = limbs; MPN_NORMALIZE(PTR(SRC[i]), SIZ(SRC[i])); if (i == 3) SIZ(SRC[i]) = -SIZ(SRC[i]); if (!SIZ(SRC[i])) mpz_set_ui(SRC[i], 5); }
      for (i = 0; i < nthr; i++) finished[i] = 0;
      turn = nsched ? sched[0] % nthr : 0;
      for (i = 0; i < nthr; i++) { ta[i].id = i; ta[i].seed = seed + n; ta[i].buf = NULL; ta[i].len = 0; ta[i].rnd_par = NULL; pthread_create(&th[i], NULL, worker, &ta[i]); }
      for (i = 0; i < nthr; i++) pthread_join(th[i], NULL);
      sched_on = 0; tr = mainout;
      for (i = 0; i < nthr; i++) { char *ser;
        fwrite(ta[i].buf, 1, ta[i].len, tr); free(ta[i].buf);
        ser = serial_rand(i, seed + n);
        fn_begin("thr_rand"); fn_in_str("seq", ser); fn_in_int("thread", i); fn_mid(); fn_out_str("par", ta[i].rnd_par ? ta[i].rnd_par : ""); fn_end(); free(ser); free(ta[i].rnd_par); n_calls += 40; }
      for (i = 0; i < 6; i++) mpz_clear(SRC[i]);
    }
  }
  if (f) fclose(f);
}

/* write inventory by size class: hidden static state may exist only on a path taken above some operand size (a scratch buffer "kept off the
   stack" in the long-times-short multiplication, a cached table of powers in radix conversion ...).  One call of every size-dispatching public
   function in each size class (balanced, long x 2..16 limbs, long x 17.., beyond each threshold); the global-write detector watches every call. */
void drv_c15_sizes(int tier, unsigned long seed, const char *extra) {
  shard_t sh = shard_parse(extra); long x = 0; int i, j;
  static const int big[] = {30, 120, 501, 700, 1100, 2300}, small[] = {1, 2, 3, 16, 17, 40};
  if (sh.pure) return;
  for (i = 0; i < 6; i++) { x++; if (!MINE(sh, x)) continue;
    rec_reset("c15_sizes", x, seed);
    for (j = 0; j < 5; j++) callf("mpz_init", j);
    for (j = 0; j < 6; j++) { int un = big[i], vn = small[j];
      callf("drv_rndz", 0, un, (int)rnd_below(NKINDS), 0); callf("drv_rndz", 1, vn, (int)rnd_below(NKINDS), (int)rnd_below(2));
      callf("mpz_mul", 2, 0, 1); callf("mpz_mul", 2, 1, 0); callf("mpz_tdiv_qr", 2, 3, 0, 1); callf("mpz_addmul", 2, 0, 1); callf("mpz_gcd", 2, 0, 1); }
    callf("drv_rndz", 1, big[i], 0, 0); callf("mpz_mul", 2, 0, 1); callf("mpz_mul", 2, 0, 0); callf("mpz_tdiv_qr", 2, 3, 2, 1); callf("mpz_gcd", 3, 0, 1); callf("mpz_sqrt", 3, 0);
    callf("drv_rndz", 1, big[i] / 2 + 1, 0, 0); callf("mpz_mul", 2, 0, 1); callf("mpz_tdiv_q", 2, 0, 1); callf("mpz_mod", 3, 0, 1);
    if (big[i] <= 700) { callf("mpz_setbit", 1, (uint64_t)0); callf("mpz_set_ui", 3, (uint64_t)(65537 + rnd_below(100))); callf("mpz_powm", 2, 0, 3, 1); }
    callf("mpz_get_str", 10, 0); { char *s = last_ret.str; callf("mpz_set_str", 2, s, 10); rec_free_str(s); }
    callf("mpz_get_str", 7, 0); rec_free_str(last_ret.str);
    callf("mpz_root", 2, 0, (uint64_t)3); callf("mpz_set_ui", 3, (uint64_t)3); callf("mpz_pow_ui", 3, 3, (uint64_t)big[i]); callf("mpz_perfect_square_p", 3);
    callf("mpz_fac_ui", 2, (uint64_t)(big[i] * 3)); callf("mpz_bin_uiui", 2, (uint64_t)(big[i] * 9), (uint64_t)(big[i] * 2)); callf("mpz_fib_ui", 2, (uint64_t)(big[i] * 50));
    for (j = 0; j < 5; j++) callf("mpz_clear", j);
    rec_quiesce();
  }
}
