/* C04 (limb-level access and the remaining lifecycle functions): mpz_limbs_read / write / modify / finish protocols,
   mpz_roinit_n, mpz_getlimbn, _mpz_realloc, mpz_inits / mpz_clears / mpq_inits / mpq_clears, mpz_init_set_ux/sx, interleaved with
   arithmetic on the same variables so that every later call meets the allocation the limb-level call left behind. */
#include "util.h"
void drv_c04_limbs(int tier, unsigned long seed, const char *extra) {
  shard_t sh = shard_parse(extra); long x = 0; int sz, rep, j;
  static const int szs[] = {0, 1, 2, 3, 5, 17, 40};
  int ns = sh.pure ? 3 : 7, reps = sh.pure ? 2 : (tier ? 12 : 4);
  for (sz = 0; sz < ns; sz++) for (rep = 0; rep < reps; rep++) {
    int L = szs[sz];
    x++; if (!MINE(sh, x)) continue;
    rec_reset("c04_limbs", x, seed);
    callf("mpz_inits", 0, 1, 2); callf("mpz_init_set_ux", 3, (uint64_t)rnd64()); callf("mpz_init_set_sx", 4, (int64_t)rnd64()); callf("mpz_init2", 5, (uint64_t)(1 + rnd_below(300)));
    callf("mpq_inits", 0, 1, 2); callf("mpq_set_ui", 1, (uint64_t)3, (uint64_t)7); callf("mpq_add", 0, 1, 1);
    for (j = 0; j < (sh.pure ? 3 : 10); j++) {
      int neg = (int)rnd_below(2), extra_l = (int)rnd_below(4), k;
      callf("drv_rndz", 1, L, (int)rnd_below(NKINDS), (int)rnd_below(2));
      /* write: destination of any previous allocation (shrunk, exact or roomy) */
      switch (rnd_below(3)) { case 0: callf("mpz_realloc2", 0, (uint64_t)1); break; case 1: callf("mpz_realloc", 0, (uint64_t)(L + rnd_below(3))); break; default: break; }
      if (ABSIZ(Zp[1]) + extra_l >= 1) { callf("mpz_limbs_write_finish", 0, 1, (uint64_t)extra_l, neg); callf("mpz_add", 2, 0, 1); callf("mpz_mul", 2, 0, 0); }
      /* read every limb back, and one past the end through getlimbn */
      for (k = 0; k < ABSIZ(Zp[0]) && k < 6; k++) { callf("mpz_limbs_read", 0, (uint64_t)k); callf("mpz_getlimbn", 0, (uint64_t)k); }
      callf("mpz_getlimbn", 0, (uint64_t)ABSIZ(Zp[0])); callf("mpz_getlimbn", 0, (uint64_t)(ABSIZ(Zp[0]) + 5)); callf("mpz_size", 0);
      /* modify: grow in place keeping the old limbs (new top limb zero or not), or no growth */
      if (ABSIZ(Zp[0]) + extra_l >= 1) callf("mpz_limbs_modify_finish", 0, (uint64_t)extra_l, (uint64_t)(rnd_below(3) ? rnd64() : 0)); callf("mpz_sub", 2, 0, 1);
      if (ABSIZ(Zp[0]) >= 1) callf("mpz_limbs_modify_finish", 0, (uint64_t)0, (uint64_t)0); callf("mpz_neg", 0, 0);
      callf("mpz_limbs_modify_finish", 0, (uint64_t)1, (uint64_t)0);      /* finish must normalise the zero top limb away */
      /* read-only integers as operands */
      callf("mpz_roinit_n_add", 2, 1, 0, (uint64_t)extra_l); callf("mpz_roinit_n_add", 2, 0, 0, (uint64_t)0);
      /* _mpz_realloc: below, at and above the current size */
      callf("mpz_realloc", 0, (uint64_t)(ABSIZ(Zp[0]) + rnd_below(3))); callf("mpz_add_ui", 0, 0, (uint64_t)rnd64());
      callf("mpz_realloc", 2, (uint64_t)(ABSIZ(Zp[2]) > 1 ? ABSIZ(Zp[2]) - 1 : 0)); callf("mpz_mul", 2, 0, 1); callf("mpz_realloc", 2, (uint64_t)0); callf("mpz_set", 2, 0);
      callf("mpz_swap", 0, 2); callf("mpz_mul_2exp", 5, 0, (uint64_t)rnd_below(200)); callf("mpz_realloc2", 5, (uint64_t)1);
    }
    callf("mpz_clear", 3); callf("mpz_init_set", 3, 0); callf("mpz_add", 3, 3, 1);
    callf("mpq_clears", 0, 1, 2); callf("mpz_clears", 0, 1, 2); callf("mpz_clear", 3); callf("mpz_clear", 4); callf("mpz_clear", 5);
    rec_quiesce();
  }
}
