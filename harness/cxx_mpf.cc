// C20: operator<< of mpf_class against the standard library's operator<< on the equal double, for values k/2^j that both hold exactly, under every
// combination of floatfield {none, fixed, scientific} x precision x showpoint x showpos x uppercase x width/adjustfield.  Decided by
// CxxStream!MpfOstreamOK (SemN: cxx_ostream_f): the two texts are equal whenever the requested digits represent the value without rounding.
#include <cstdio>
#include <cmath>
#include <sstream>
#include <string>
#include <iomanip>
#include "mpirxx.h"
extern FILE *out;
using namespace std;
static string escf(const string &s) { string r; for (char c : s) { if (c == '"' || c == '\\') { r += '\\'; r += c; } else r += c; } return r; }
void mpf_stream_section(void) {
  static const struct { long k; int j; } vals[] = {{0, 0}, {1, 0}, {-1, 0}, {3, 1}, {-11, 2}, {8001, 3}, {1, 4}, {123456, 0}, {1, 9}, {1000000, 0}, {3145728, 0}, {5, 10}, {255, 8}, {-99999, 0},
                                                  {1, 20}, {7, 0}, {1234567, 7}, {-5, 1}, {1, 1}, {100, 0}, {12345678, 0}, {1, 14}, {9, 3}};
  static const char *ffs[] = {"none", "fixed", "sci"}; static const int precs[] = {0, 1, 2, 3, 6, 10, 17};
  static const char *adjs[] = {"right", "left", "internal"};
  long n = 0;
  for (auto &v : vals) {
    mpf_class f(0, 128); mpf_set_si(f.get_mpf_t(), v.k); mpf_div_2exp(f.get_mpf_t(), f.get_mpf_t(), v.j); double d = ldexp((double)v.k, -v.j);
    fprintf(out, "{\"e\":\"reset\",\"drv\":\"cxxfstream\",\"x\":%ld,\"seed\":\"0\"}\n", n++);
    for (int ff = 0; ff < 3; ff++) for (int prec : precs) for (int sp = 0; sp < 2; sp++) for (int spos = 0; spos < 2; spos++) for (int uc = 0; uc < 2; uc++) for (int wa = 0; wa < 4; wa++) {
      int w = wa ? 14 : 0; const char *adj = adjs[wa ? wa - 1 : 0];
      ios::fmtflags fl = ios::dec | (ff == 1 ? ios::fixed : ff == 2 ? ios::scientific : ios::fmtflags(0)) | (wa == 2 ? ios::left : wa == 3 ? ios::internal : ios::right);
      if (sp) fl |= ios::showpoint; if (spos) fl |= ios::showpos; if (uc) fl |= ios::uppercase;
      ostringstream a, b; a.flags(fl); a.precision(prec); a.width(w); a.fill('*'); b.flags(fl); b.precision(prec); b.width(w); b.fill('*');
      a << f; b << d;
      fprintf(out, "{\"e\":\"fn\",\"f\":\"cxx_ostream_f\",\"i\":{\"ff\":\"%s\",\"prec\":%d,\"showpoint\":%d,\"showpos\":%d,\"upper\":%d,\"w\":%d,\"adj\":\"%s\",\"k\":\"%s\",\"j\":%d},\"o\":{\"f\":\"%s\",\"d\":\"%s\",\"wf\":%ld}}\n",
              ffs[ff], prec, sp, spos, uc, w, adj, mpz_class(v.k).get_str(16).c_str(), v.j, escf(a.str()).c_str(), escf(b.str()).c_str(), (long)a.width());
    }
  }
}
