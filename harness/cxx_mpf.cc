// C20: mpf_class (placeholder, filled in below)
#include <cstdio>
#include "mpirxx.h"
extern FILE *out;
void mpf_section(void) {}
