// C20: operator<< of mpf_class against the standard library's operator<< on the equal double (filled in below)
#include <cstdio>
#include "mpirxx.h"
extern FILE *out;
void mpf_stream_section(void) {}
