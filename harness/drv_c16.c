/* C16: factorials, binomials, Fibonacci/Lucas, factor removal, primality.  Arguments from 0 through every table / loop /
   algorithm crossover; bin_ui with negative and multi-limb n; primality on all small n, neighbourhoods of 2^32, 2^53, 2^64,
   Carmichael numbers, strong pseudoprimes, prime squares, products of close primes. */
#include "util.h"
static void shrinkz(int i) { callf("mpz_realloc2", i, (uint64_t)(ABSIZ(Zp[i]) ? (uint64_t)ABSIZ(Zp[i]) * 64 : 1)); }
void drv_c16_comb(int tier, unsigned long seed, const char *extra) {
  shard_t sh = shard_parse(extra); long x = 0, ncalls = 0; uint64_t n, k; int j, started = 0;
  uint64_t dense = sh.pure ? 30 : (tier ? 1400 : 420);
  /* dense sweep covers every table limit; then the larger regime switches */
  static const uint64_t bigs[] = {896, 897, 898, 899, 900, 1500, 2047, 2048, 4999, 10000, 30011}, bigs_t[] = {65537, 100003};
  for (n = 0; n <= dense + 11 + (tier ? 2 : 0); n++) {
    uint64_t v = n <= dense ? n : (n - dense - 1 < 11 ? bigs[n - dense - 1] : bigs_t[n - dense - 12]);
    if (sh.pure && n > dense) break;
    x++; if (!MINE(sh, x)) continue;
    if (started && ncalls % 8 == 0) { for (j = 0; j < 3; j++) callf("mpz_clear", j); rec_quiesce(); started = 0; }
    if (!started) { rec_reset("c16_comb", x, seed); for (j = 0; j < 3; j++) callf("mpz_init", j); started = 1; }
    ncalls++;
    shrinkz(0); callf("mpz_fac_ui", 0, v); shrinkz(0); callf("mpz_2fac_ui", 0, v); shrinkz(0); callf("mpz_primorial_ui", 0, v);
    if (v <= 3000) { shrinkz(0); callf("mpz_mfac_uiui", 0, v, (uint64_t)(1 + rnd_below(9))); shrinkz(0); callf("mpz_mfac_uiui", 0, v, (uint64_t)(3 + v / 2)); }
    if (v <= 20000) { shrinkz(0); callf("mpz_fib_ui", 0, v); shrinkz(0); shrinkz(1); callf("mpz_fib2_ui", 0, 1, v); shrinkz(0); callf("mpz_lucnum_ui", 0, v); shrinkz(0); shrinkz(1); callf("mpz_lucnum2_ui", 0, 1, v); }
  }
  if (started) { for (j = 0; j < 3; j++) callf("mpz_clear", j); rec_quiesce(); }
}
void drv_c16_bin(int tier, unsigned long seed, const char *extra) {
  shard_t sh = shard_parse(extra); long x = 0; uint64_t n, k; int j, t;
  uint64_t dense = sh.pure ? 14 : (tier ? 130 : 70);
  for (n = 0; n <= dense; n++) {
    x++; if (!MINE(sh, x)) continue;
    rec_reset("c16_bin", x, seed); for (j = 0; j < 3; j++) callf("mpz_init", j);
    for (k = 0; k <= n + 2; k++) { shrinkz(0); callf("mpz_bin_uiui", 0, n, k); if (k <= 40) { callf("mpz_set_ui", 1, n); shrinkz(0); callf("mpz_bin_ui", 0, 1, k); callf("mpz_neg", 1, 1); shrinkz(0); callf("mpz_bin_ui", 0, 1, k); } }
    for (j = 0; j < 3; j++) callf("mpz_clear", j); rec_quiesce();
  }
  if (sh.pure) return;
  /* region boundaries of mpz_bin_uiui: large n with small k, k around the table limits, n/16, n/2; bin_ui with multi-limb and negative n */
  { static const uint64_t ns[] = {131, 200, 255, 256, 257, 500, 1000, 1023, 1024, 1025, 4096, 10007, 65535, 65536, 1000003, 0xffffffffUL, 0x100000000UL, 0xffffffffffffffffUL, 0x8000000000000000UL};
    static const uint64_t ks[] = {0, 1, 2, 3, 7, 8, 24, 25, 26, 33, 34, 35, 66, 67, 68, 70, 71, 100, 500, 1000};
    for (t = 0; t < 19; t++) {
      x++; if (!MINE(sh, x)) continue;
      rec_reset("c16_bin", x, seed); for (j = 0; j < 3; j++) callf("mpz_init", j);
      for (j = 0; j < 20; j++) { uint64_t kk = ks[j]; if (ns[t] > 100000 && kk > 70) continue; if (ns[t] > 0xffffffffUL && kk > 35) continue;
        shrinkz(0); callf("mpz_bin_uiui", 0, ns[t], kk);
        if (ns[t] <= 70000 && ns[t] >= kk) { shrinkz(0); callf("mpz_bin_uiui", 0, ns[t], ns[t] - kk); if (kk < 26) { shrinkz(0); callf("mpz_bin_uiui", 0, ns[t], ns[t] / 2 + kk - 12); shrinkz(0); callf("mpz_bin_uiui", 0, ns[t], ns[t] / 16 + kk); } }
        if (kk <= 35) { callf("drv_rndz", 1, 1 + (int)rnd_below(3), 0, (int)(rnd64() & 1)); shrinkz(0); callf("mpz_bin_ui", 0, 1, kk); callf("mpz_set", 0, 1); callf("mpz_bin_ui", 0, 0, kk); } }
      for (j = 0; j < 3; j++) callf("mpz_clear", j); rec_quiesce();
    } }
  /* bin_ui with n next to a power of the limb base (low limb smaller / larger than k, n - k crossing the limb boundary), both signs */
  { int jl, ci, sgn, ki; static const int cs[] = {0, 1, 2, 5, 30, 31};
    for (jl = 1; jl <= 2; jl++) { x++; if (!MINE(sh, x)) continue;
      rec_reset("c16_bin", x, seed); for (j = 0; j < 3; j++) callf("mpz_init", j);
      for (ci = 0; ci < 6; ci++) for (sgn = 0; sgn < 4; sgn++) { int c = cs[ci]; uint64_t kl[9]; int nk = 0;
        kl[nk++] = 0; kl[nk++] = 1; kl[nk++] = 2; if (c > 1) kl[nk++] = c - 1; kl[nk++] = c; kl[nk++] = c + 1; kl[nk++] = 7; kl[nk++] = 20; kl[nk++] = 33;
        callf("mpz_set_ui", 1, (uint64_t)1); callf("mpz_mul_2exp", 1, 1, (uint64_t)(64 * jl));
        if (sgn & 1) callf("mpz_sub_ui", 1, 1, (uint64_t)c); else callf("mpz_add_ui", 1, 1, (uint64_t)c);        /* B^j - c or B^j + c */
        if (sgn & 2) callf("mpz_neg", 1, 1);
        for (ki = 0; ki < nk; ki++) { shrinkz(0); callf("mpz_bin_ui", 0, 1, kl[ki]); if (ki % 3 == 0) { callf("mpz_set", 0, 1); callf("mpz_bin_ui", 0, 0, kl[ki]); } } }
      for (j = 0; j < 3; j++) callf("mpz_clear", j); rec_quiesce(); } }
  /* the prime-sieve (Goetgheluck) region k > 1000, k > n/16: runs of consecutive n (every residue, n = 2p, n prime, n = p^2 ...) */
  { static const uint64_t gk[] = {1001, 1013, 1500, 2500}; int gi, seg;
    for (gi = 0; gi < 4; gi++) for (seg = 0; seg < 3; seg++) {
      uint64_t kk = gk[gi], n0 = seg == 0 ? 2 * kk : seg == 1 ? 5 * kk + 3 : 16 * kk - 45, nn; int cnt = seg == 0 ? 70 : 44;
      x++; if (!MINE(sh, x)) continue;
      if (!tier && gi >= 2 && seg == 1) continue;
      rec_reset("c16_bin", x, seed); for (j = 0; j < 3; j++) callf("mpz_init", j);
      for (nn = n0; nn < n0 + (uint64_t)cnt; nn++) { shrinkz(0); callf("mpz_bin_uiui", 0, nn, kk); if ((nn & 7) == 0) { shrinkz(0); callf("mpz_bin_uiui", 0, nn, nn - kk - 1); } }
      for (j = 0; j < 3; j++) callf("mpz_clear", j); rec_quiesce();
    } }
  /* remove: high multiplicities, multi-limb factors */
  for (t = 0; t < 24; t++) {
    x++; if (!MINE(sh, x)) continue;
    rec_reset("c16_remove", x, seed); for (j = 0; j < 4; j++) callf("mpz_init", j);
    for (j = 0; j < 6; j++) { uint64_t mult = j == 0 ? 0 : j == 1 ? 1 : rnd_below(t < 12 ? 200 : 12);
      if (t < 12) callf("mpz_set_ui", 1, (uint64_t)(2 + rnd_below(t < 6 ? 10 : 1000000))); else callf("drv_rndz", 1, 1 + (int)rnd_below(4), 0, 0);
      if (mpz_cmp_ui(Zp[1], 2) < 0) callf("mpz_set_ui", 1, (uint64_t)2);
      callf("drv_rndz", 2, 1 + (int)rnd_below(5), 0, (int)(rnd64() & 1)); callf("mpz_pow_ui", 3, 1, mult); callf("mpz_mul", 2, 2, 3);
      shrinkz(0); callf("mpz_remove", 0, 2, 1); callf("mpz_set", 0, 2); callf("mpz_remove", 0, 0, 1); }
    for (j = 0; j < 4; j++) callf("mpz_clear", j); rec_quiesce();
  }
}
static void prime_suite(int full) {
  callf("mpz_probab_prime_p", 0, 25); callf("mpz_probab_prime_p", 0, 5 + (int)rnd_below(40));
  callf("mpz_probable_prime_p", 0, 0, 25 + (int)rnd_below(10), (uint64_t)(rnd_below(2) ? 0 : rnd_below(3000)));
  callf("mpz_likely_prime_p", 0, 0, (uint64_t)(rnd_below(2) ? 0 : rnd_below(3000)));
  callf("mpz_miller_rabin", 0, 5 + (int)rnd_below(25), 0); callf("mpz_millerrabin", 0, 5 + (int)rnd_below(25));
  if (full) { callf("mpz_nextprime", 1, 0); callf("mpz_next_prime_candidate", 1, 0, 0); callf("mpz_set", 1, 0); callf("mpz_nextprime", 1, 1); }
}
void drv_c16_prime(int tier, unsigned long seed, const char *extra) {
  shard_t sh = shard_parse(extra); long x = 0; uint64_t n; int j, t;
  uint64_t dense = sh.pure ? 60 : (tier ? 65536 : 7000);
  static const char *special[] = { /* Carmichael numbers, strong pseudoprimes (base 2, bases 2..7), prime squares, close prime products, large primes / composites */
    "231", "451", "6c1", "9a1", "b41", "19a1", "22a1", "2961", "3d91", "7ff", "ccd", "fc1", "1255", "1ed5", "2b29", "2e2f", "3b8c3", "31d0ed1",
    "5f7a4d661", "b9f9c5b2ca5", "ad9c8f7f4e8a1", "1e1db8a5ea6f4a25" /* 3215031751 etc. */, "bfcd2be1" , "fffffffb", "ffffffef", "100000007", "fffffffd", "fffe0001", "1fffffffffffff", "20000000000001",
    "ffffffffffffffc5", "ffffffffffffffff", "10000000000000001", "1000000000000000d", "fffffffe00000001", "ffffffffd00000021d", "1ffffffffffffffffffffffffffffffff", "7fffffffffffffffffffffffffffffff",
    "fffffffffffffffffffffffffffffffeffffffffffffffff", "10000000000000000000000000000000000000000000000000000000000000129", "c9", "3b9aca07", "de0b6b3a7640001",
    "8bd", "a7d21", "5cc89b9a9d", "3d3c8bd9f1cf5"};
  for (n = 0; n <= dense; n += 40) {
    uint64_t m;
    x++; if (!MINE(sh, x)) continue;
    rec_reset("c16_prime", x, seed); for (j = 0; j < 3; j++) callf("mpz_init", j); callf("gmp_randinit_default", 0); callf("gmp_randseed_ui", 0, (uint64_t)(seed + x));
    for (m = n; m < n + 40 && m <= dense; m++) { callf("mpz_set_ui", 0, m); prime_suite(m % 8 == 0 || m < 200); }
    for (j = 0; j < 3; j++) callf("mpz_clear", j); callf("gmp_randclear", 0); rec_quiesce();
  }
  if (sh.pure) return;
  for (t = 0; t < (int)(sizeof special / sizeof special[0]) + 12; t++) {
    int ns = (int)(sizeof special / sizeof special[0]);
    x++; if (!MINE(sh, x)) continue;
    rec_reset("c16_prime", x, seed); for (j = 0; j < 3; j++) callf("mpz_init", j); callf("gmp_randinit_default", 0); callf("gmp_randseed_ui", 0, (uint64_t)(seed * 31 + x));
    if (t < ns) { int d; for (d = -2; d <= 2; d++) { callf("drv_setz", 0, special[t]); if (d > 0) callf("mpz_add_ui", 0, 0, (uint64_t)d); else if (d < 0 && mpz_cmp_ui(Zp[0], 2) > 0) callf("mpz_sub_ui", 0, 0, (uint64_t)(-d)); prime_suite(1); }
      /* its square and the product with the next prime */
      callf("drv_setz", 0, special[t]); if (mpz_sizeinbase(Zp[0], 2) < 200) { callf("mpz_nextprime", 1, 0); callf("mpz_nextprime", 2, 1); callf("mpz_mul", 0, 1, 2); prime_suite(0); callf("mpz_mul", 0, 1, 1); prime_suite(0); } }
    else { /* Chernick Carmichael numbers (6k+1)(12k+1)(18k+1) with all three prime, found with the library and checked by the oracle */
      uint64_t k0 = 1 + rnd_below(3000); int found = 0; 
      while (found < 2 && k0 < 200000) { uint64_t a = 6 * k0 + 1, b = 12 * k0 + 1, c = 18 * k0 + 1; int i, ok = 1; uint64_t ps[3]; ps[0] = a; ps[1] = b; ps[2] = c;
        for (i = 0; i < 3 && ok; i++) { uint64_t d; for (d = 2; d * d <= ps[i]; d++) if (ps[i] % d == 0) { ok = 0; break; } }
        if (ok) { callf("mpz_set_ui", 0, a); callf("mpz_mul_ui", 0, 0, b); callf("mpz_mul_ui", 0, 0, c); prime_suite(1); found++; }
        k0++; } }
    for (j = 0; j < 3; j++) callf("mpz_clear", j); callf("gmp_randclear", 0); rec_quiesce();
  }
}
/* R3: (n,k) pairs next to a region boundary of the mpz_bin_uiui dispatch, printed by the BinDispatch model */
void drv_c16_binshapes(int tier, unsigned long seed, const char *extra) {
  shard_t sh = shard_parse(extra); const char *path = opt_val(&sh, "file"); FILE *f; long n, k, lines = 0, cnt = 0; int j;
  if (!path || !(f = fopen(path, "r"))) { fprintf(stderr, "c16_binshapes: no file\n"); exit(3); }
  while (fscanf(f, "%ld %ld", &n, &k) == 2) {
    lines++; if (!MINE(sh, lines)) continue;
    if (cnt % 25 == 0) { if (cnt) { callf("mpz_clear", 0); rec_quiesce(); } rec_reset("c16_binshapes", lines, seed); callf("mpz_init", 0); }
    cnt++;
    callf("mpz_realloc2", 0, (uint64_t)1); callf("mpz_bin_uiui", 0, (uint64_t)n, (uint64_t)k);
  }
  if (cnt) { callf("mpz_clear", 0); rec_quiesce(); }
  fclose(f);
}

/* c16_psp: composites that the library's own candidate filter accepts.  mpz_next_prime_candidate = trial division by the primes below 1000, a Fermat test to
   base 210 and two Miller-Rabin rounds; the composites that survive it are products p*q, q = k(p-1)+1, p, q > 1000, with 210^(n-1) = 1 (mod n).  The driver
   finds such n privately (arithmetic only: the oracle decides primality) and asks for the next prime / candidate from just below each, and from n itself;
   those with a prime at n+2 or n+4.. are where a search that resumes "after" a rejected candidate can step over a prime. */
void drv_c16_psp(int tier, unsigned long seed, const char *extra) {
  shard_t sh = shard_parse(extra); long x = 0; unsigned long p, pmax = sh.pure ? 3000 : (tier ? 400000 : 90000); int j;
  mpz_t n, t, b; unsigned long found[4096]; unsigned long long fk[4096]; int nf = 0, i;
  priv_begin(); mpz_init(n); mpz_init(t); mpz_init(b);
  for (p = 1009; p < pmax && nf < 4000; p += 2) { unsigned long k;
    mpz_set_ui(t, p); if (!mpz_probab_prime_p(t, 10)) continue;
    for (k = 2; k <= 8; k++) { unsigned long q = k * (p - 1) + 1;
      mpz_set_ui(t, q); if (!mpz_probab_prime_p(t, 10)) continue;
      mpz_set_ui(n, p); mpz_mul_ui(n, n, q); mpz_sub_ui(t, n, 1); mpz_set_ui(b, 210); mpz_powm(b, b, t, n);
      if (mpz_cmp_ui(b, 1) != 0) continue;
      if (nf < 4000) { found[nf] = p; fk[nf] = k; nf++; } } }
  priv_end();
  for (i = 0; i < nf; i += 12) {
    x++; if (!MINE(sh, x)) continue;
    rec_reset("c16_psp", x, seed); for (j = 0; j < 3; j++) callf("mpz_init", j); callf("gmp_randinit_default", 0); callf("gmp_randseed_ui", 0, (uint64_t)(seed + x));
    for (j = i; j < i + 12 && j < nf; j++) { char hx[40]; unsigned __int128 v = (unsigned __int128)found[j] * (fk[j] * (found[j] - 1) + 1); 
      snprintf(hx, sizeof hx, "%lx%016lx", (unsigned long)(v >> 64), (unsigned long)v); { char *h = hx; while (*h == '0' && h[1]) h++; callf("drv_setz", 0, h); }
      callf("mpz_sub_ui", 1, 0, (uint64_t)1); callf("mpz_nextprime", 2, 1); callf("mpz_next_prime_candidate", 2, 1, 0);      /* from n-1: the first candidate is n */
      callf("mpz_sub_ui", 1, 0, (uint64_t)(2 + 2 * rnd_below(20))); callf("mpz_nextprime", 2, 1);
      callf("mpz_nextprime", 2, 0); callf("mpz_set", 2, 0); callf("mpz_nextprime", 2, 2);
      callf("mpz_probab_prime_p", 0, 25); callf("mpz_probable_prime_p", 0, 0, 25, (uint64_t)0); callf("mpz_likely_prime_p", 0, 0, (uint64_t)0); callf("mpz_miller_rabin", 0, 25, 0); }
    for (j = 0; j < 3; j++) callf("mpz_clear", j); callf("gmp_randclear", 0); rec_quiesce();
  }
  priv_begin(); mpz_clear(n); mpz_clear(t); mpz_clear(b); priv_end();
}
