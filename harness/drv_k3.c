/* K3: direct conformance events for the internal gcd-side kernels (contracts: spec/SemK3.tla, NOTES-SemK3.md).
   k3_hgcd2:  mpn_hgcd2, mpn_hgcd2_jacobi, mpn_hgcd_mul_matrix1_vector, mpn_matrix22_mul1_inverse_vector
   k3_matrix: mpn_matrix22_mul, mpn_hgcd_matrix_init, mpn_hgcd_matrix_update_q, mpn_hgcd_matrix_mul_1, mpn_hgcd_matrix_mul, mpn_hgcd_matrix_adjust
   k3_hgcd:   mpn_hgcd, mpn_hgcd_appr, mpn_hgcd_jacobi, mpn_hgcd_step, mpn_gcd_subdiv_step (recording hook)
   k3_gcdext: mpn_gcdext_1, mpn_gcdext_lehmer_n, mpn_gcd_subdiv_step with mpn_gcdext_hook, mpn_gcd_1
   k3_jacobi: mpn_jacobi_base, mpn_jacobi_2, mpn_jacobi_n
   Every operand, result, matrix and scratch area is a guarded buffer of exactly the size the source states; the specification decides. */
#include "util.h"

static int k3_sizes(int *out, int max, int lo, int dense, const int *thr, int nthr, const int *ext, int next, int hi) {
  int c = 0, i, j, d;
  for (i = lo; i <= dense && i <= hi && c < max; i++) out[c++] = i;
  for (i = 0; i < nthr; i++) for (d = -2; d <= 2; d++) { int v = thr[i] + d, dup = 0; if (v < lo || v > hi) continue; for (j = 0; j < c; j++) if (out[j] == v) dup = 1; if (!dup && c < max) out[c++] = v; }
  for (i = 0; i < next; i++) { int v = ext[i], dup = 0; if (v < lo || v > hi) continue; for (j = 0; j < c; j++) if (out[j] == v) dup = 1; if (!dup && c < max) out[c++] = v; }
  for (i = 1; i < c; i++) { int v = out[i]; for (j = i; j > 0 && out[j - 1] > v; j--) out[j] = out[j - 1]; out[j] = v; }
  return c;
}

/* ------------------------------------------------------------------ operand construction (harness-private use of mpz) */
static void z_to_limbs(mp_ptr p, mp_size_t n, mpz_srcptr z) { mp_size_t i, zn = mpz_size(z); for (i = 0; i < n; i++) p[i] = i < zn ? PTR(z)[i] : 0; }
static void z_rnd(mpz_ptr z, mp_size_t n, int kind) { mp_size_t k = n; if (ALLOC(z) < n + 1) _mpz_realloc(z, n + 1); rnd_limbs(PTR(z), n, kind); MPN_NORMALIZE(PTR(z), k); SIZ(z) = k; }
static void z_rnd_bits(mpz_ptr q, unsigned qb) { /* exactly qb bits, qb >= 1 */
  mp_size_t n = (qb + 63) / 64; z_rnd(q, n, 0); if (ALLOC(q) < n) _mpz_realloc(q, n);
  { mp_ptr p = PTR(q); mp_size_t i; unsigned top = (qb - 1) % 64; for (i = SIZ(q); i < n; i++) p[i] = 0; p[n - 1] &= (top == 63 ? ~(mp_limb_t)0 : (((mp_limb_t)1 << (top + 1)) - 1)); p[n - 1] |= (mp_limb_t)1 << top; SIZ(q) = n; }
}
/* a > b >= 0 with a of exactly n limbs whose Euclidean quotient sequence is chosen: (a,b) <- (q a + b, a) starting from (g, 0).
   mode 0: all quotients 1 (consecutive Fibonacci-like numbers), 1: all B-1, 2: alternately 1 and B-1, 3: random bit lengths 1..64,
   4: now and then a quotient of 1..3 limbs (B^k exactly among them), 5: 2^k and 2^k-1.   gsel: the gcd (1, one limb, about n/3 limbs) */
static void build_cf(mpz_ptr a, mpz_ptr b, mp_size_t n, int mode, int gsel) {
  mpz_t q, t; unsigned long target = 64UL * n, step = 0; mpz_init(q); mpz_init(t);
  if (gsel == 0 || n < 2) mpz_set_ui(a, 1); else if (gsel == 1) mpz_set_ui(a, rnd64() | 1); else { z_rnd(a, n / 3 + 1, 0); if (!SIZ(a)) mpz_set_ui(a, 1); }
  mpz_set_ui(b, 0);
  for (;; step++) { unsigned long bl = mpz_sizeinbase(a, 2), room, qb = 1; int exact = 0;
    if (bl + 1 >= target) break;
    room = target - bl - 1;
    switch (mode) {
    case 0: qb = 1; break;
    case 1: qb = 64; exact = 2; break;
    case 2: qb = (step & 1) ? 64 : 1; exact = 2; break;
    case 3: qb = 1 + rnd_below(64); break;
    case 4: if (step % 5 == 2) { qb = 64 * (1 + rnd_below(3)) + 1; exact = rnd_below(3) == 0; } else qb = 1 + rnd_below(8); break;
    default: qb = 1 + rnd_below(70); exact = 1 + (step & 1); break;
    }
    if (qb > room) qb = room;
    if (qb == 0) break;
    if (exact == 1) { mpz_set_ui(q, 1); mpz_mul_2exp(q, q, qb - 1); }                      /* 2^(qb-1) */
    else if (exact == 2) { mpz_set_ui(q, 1); mpz_mul_2exp(q, q, qb); mpz_sub_ui(q, q, 1); }   /* 2^qb - 1 */
    else z_rnd_bits(q, (unsigned)qb);
    mpz_mul(t, q, a); mpz_add(t, t, b); mpz_swap(b, a); mpz_swap(a, t);
  }
  mpz_clear(q); mpz_clear(t);
}
#define NCLS 19
static void gen_pair(mp_ptr a, mp_ptr b, mp_size_t n, int cls) {
  mp_size_t i;
  if (cls < 7) { rnd_limbs(a, n, cls); rnd_limbs(b, n, (cls + 3) % NKINDS); }
  else if (cls <= 12) { static const int md[] = {0, 1, 2, 3, 4, 5}, gs[] = {0, 0, 1, 2, 0, 1}; mpz_t x, y; int m = md[cls - 7];
    if (m == 0 && n > 300) m = 3;
    priv_begin(); mpz_init(x); mpz_init(y); build_cf(x, y, n, m, gs[cls - 7]); z_to_limbs(a, n, x); z_to_limbs(b, n, y); mpz_clear(x); mpz_clear(y); priv_end(); }
  else switch (cls) {
  case 13: { mp_size_t bn = 1 + (mp_size_t)rnd_below((n + 1) / 2); rnd_limbs(a, n, 0); MPN_ZERO(b, n); rnd_limbs(b, bn, 0); break; }      /* b tiny relative to a */
  case 14: rnd_limbs(a, n, 0); MPN_COPY(b, a, n); if (n >= 2) rnd_limbs(b, n / 2, 0); else b[0] ^= 5; break;                               /* equal high limbs */
  case 15: rnd_limbs(a, n, 0); MPN_COPY(b, a, n); break;                                                                                   /* a = b */
  case 16: MPN_ZERO(a, n); MPN_ZERO(b, n);                                                                                                 /* B^(n-1) + r and B^(n-1) - r' */
    if (n >= 2) { a[n - 1] = 1; a[0] = rnd_below(1000); for (i = 0; i < n - 1; i++) b[i] = ~(mp_limb_t)0; b[0] -= rnd_below(1000); }
    else { a[0] = ((mp_limb_t)1 << 63) + rnd_below(1000); b[0] = ((mp_limb_t)1 << 63) - 1 - rnd_below(1000); }
    break;
  case 17: rnd_limbs(a, n, 1); rnd_limbs(b, n, 1); b[0] -= rnd64() | 1; break;                                                             /* all ones, difference one limb */
  default: rnd_limbs(a, n, 0); a[n - 1] >>= 1; MPN_COPY(b, a, n); mpn_add_1(b, b, n, 1); break;                                            /* b = a + 1 */
  }
  if (!(a[n - 1] | b[n - 1])) a[n - 1] = 1 + rnd_below(3);
  if (rnd64() & 1) for (i = 0; i < n; i++) { mp_limb_t t = a[i]; a[i] = b[i]; b[i] = t; }
}
/* b = 2a exactly: mpn_gcd_subdiv_step with s > 0 records the subtraction and returns 0 (NOTES-K3.md, Observations); kept out of the s > 0 events */
static int is_double(mp_srcptr a, mp_srcptr b, mp_size_t n) {
  mp_ptr t = gb_get(8, n + 1, 0); int r;
  t[n] = mpn_lshift(t, a, n, 1); r = t[n] == 0 && mpn_cmp(t, b, n) == 0; if (r) return 1;
  t[n] = mpn_lshift(t, b, n, 1); return t[n] == 0 && mpn_cmp(t, a, n) == 0;
}

/* state of the Jacobi computation (mpn/generic/jacobi.c decode_table): bits = 2 * row + e */
static const unsigned char k3_jtab[13][2] = {{0,1},{0,3},{1,1},{1,3},{2,1},{2,3},{3,1},{3,3},{1,0},{1,2},{3,0},{3,2},{3,3}};
static int jac_bits(unsigned a, unsigned b, int e, int alt) { int r, first = -1; a &= 3; b &= 3;
  for (r = 0; r < 13; r++) if (k3_jtab[r][0] == a && k3_jtab[r][1] == b) { if (first < 0) first = r; if (alt && r != first) return 2 * r + e; }
  return first < 0 ? -1 : 2 * first + e; }

static void in_m1(const struct hgcd_matrix1 *M) { fn_in_u64("u00", M->u[0][0]); fn_in_u64("u01", M->u[0][1]); fn_in_u64("u10", M->u[1][0]); fn_in_u64("u11", M->u[1][1]); }
static void out_m1(const struct hgcd_matrix1 *M) { fn_out_u64("u00", M->u[0][0]); fn_out_u64("u01", M->u[0][1]); fn_out_u64("u10", M->u[1][0]); fn_out_u64("u11", M->u[1][1]); }
/* a struct hgcd_matrix: every element over its whole area of `alloc` limbs (anything left above M->n would show) */
static void in_M(const char *pre, const struct hgcd_matrix *M, mp_size_t al) { char k[16]; int i;
  snprintf(k, sizeof k, "%sn", pre); fn_in_int(k, M->n);
  for (i = 0; i < 4; i++) { snprintf(k, sizeof k, "%s%d%d", pre, i >> 1, i & 1); fn_in_limbs(k, M->p[i >> 1][i & 1], al); } }
static void out_M(const char *pre, const struct hgcd_matrix *M, mp_size_t al) { char k[16]; int i;
  snprintf(k, sizeof k, "%sn", pre); fn_out_int(k, M->n);
  for (i = 0; i < 4; i++) { snprintf(k, sizeof k, "%s%d%d", pre, i >> 1, i & 1); fn_out_limbs(k, M->p[i >> 1][i & 1], al); } }

/* ------------------------------------------------------------------ k3_hgcd2 */
static void ev_vec(const struct hgcd_matrix1 *M, mp_limb_t ah, mp_limb_t al, mp_limb_t bh, mp_limb_t bl, mp_size_t n, int kind) {
  /* the use mpn_hgcd_step / mpn_gcdext_lehmer_n make of a successful mpn_hgcd2: M^-1 applied to n-limb numbers whose two top limbs were the arguments,
     then M applied to a cofactor pair */
  int place = kind & 1; mp_ptr a = gb_get(0, n, place), b = gb_get(1, n, place), r = gb_get(2, n, place), u0, u1, u2; mp_size_t rn, un = n > 2 ? n - 2 : 1;
  rnd_limbs(a, n, kind); rnd_limbs(b, n, (kind + 2) % NKINDS); a[n - 1] = ah; a[n - 2] = al; b[n - 1] = bh; b[n - 2] = bl;
  fn_begin("mpn_matrix22_mul1_inverse_vector"); in_m1(M); fn_in_limbs("a", a, n); fn_in_limbs("b", b, n); fn_in_int("n", n); fn_mid(); gb_fill(r, n);
  rn = mpn_matrix22_mul1_inverse_vector(M, r, a, b, n); fn_out_int("ret", rn); fn_out_limbs("r", r, n); fn_out_limbs("b", b, n); fn_end();
  u0 = gb_get(3, un, !place); u1 = gb_get(4, un + 1, !place); u2 = gb_get(5, un + 1, !place);
  rnd_limbs(u0, un, (kind + 1) % NKINDS); rnd_limbs(u1, un, (kind + 4) % NKINDS);
  fn_begin("mpn_hgcd_mul_matrix1_vector"); in_m1(M); fn_in_limbs("a", u0, un); fn_in_limbs("b", u1, un); fn_in_int("n", un); fn_mid(); gb_fill(u2, un + 1); u1[un] = 0x5a5a5a5a5a5a5a5aUL;
  rn = mpn_hgcd_mul_matrix1_vector(M, u2, u0, u1, un); fn_out_int("ret", rn); fn_out_limbs("r", u2, un + 1); fn_out_limbs("b", u1, un + 1); fn_end();
}
static long ev_hgcd2(mp_limb_t ah, mp_limb_t al, mp_limb_t bh, mp_limb_t bl, int vec) {
  struct hgcd_matrix1 M, MJ; int ret, rj, bits; unsigned bo;
  memset(&M, 0x5a, sizeof M); memset(&MJ, 0x5a, sizeof MJ);
  fn_begin("mpn_hgcd2"); fn_in_u64("ah", ah); fn_in_u64("al", al); fn_in_u64("bh", bh); fn_in_u64("bl", bl); fn_mid();
  ret = mpn_hgcd2(ah, al, bh, bl, &M); fn_out_int("ret", ret); if (ret) out_m1(&M); fn_end();
  bits = jac_bits((unsigned)al, (unsigned)bl, (int)(rnd64() & 1), (int)(rnd64() & 1));
  if (bits >= 0) { bo = (unsigned)bits;
    fn_begin("mpn_hgcd2_jacobi"); fn_in_u64("ah", ah); fn_in_u64("al", al); fn_in_u64("bh", bh); fn_in_u64("bl", bl); fn_in_int("bits", bits); fn_mid();
    rj = mpn_hgcd2_jacobi(ah, al, bh, bl, &MJ, &bo); fn_out_int("ret", rj); fn_out_int("bits", (long)bo); if (rj) out_m1(&MJ); fn_end(); }
  if (ret && vec) { ev_vec(&M, ah, al, bh, bl, 2, vec % NKINDS); ev_vec(&M, ah, al, bh, bl, 3 + (mp_size_t)rnd_below(6), (vec + 1) % NKINDS); }
  return 2;
}
void drv_k3_hgcd2(int tier, unsigned long seed, const char *extra) {
  shard_t sh = shard_parse(extra); long x = 0; int i, j, k, l, c;
  static const mp_limb_t alpha[] = {0, 1, 2, 3, 0xffffffffUL, (mp_limb_t)1 << 32, ((mp_limb_t)1 << 32) + 1, ((mp_limb_t)1 << 33) - 1, (mp_limb_t)1 << 33, ((mp_limb_t)1 << 63) - 1, (mp_limb_t)1 << 63, ((mp_limb_t)1 << 63) + 1, ~(mp_limb_t)0 - 1, ~(mp_limb_t)0};
  const int NA = sh.pure ? 5 : 14;
  /* part 1: every combination of the corner alphabet in the four limbs (the high limbs decide the early exits, the half-limb switch and the top-bit branch of div2) */
  for (i = 0; i < NA; i++) for (j = 0; j < NA; j++) {
    x++; if (!MINE(sh, x)) continue;
    rec_reset("k3_hgcd2", x, seed);
    for (k = 0; k < NA; k++) for (l = 0; l < NA; l++) { if (!tier && !sh.pure && ((k + l + i) % 3) && k != l) continue; ev_hgcd2(alpha[i], alpha[k], alpha[j], alpha[l], (k == l) ? 1 + (i + j) % 7 : 0); }
  }
  if (sh.pure) return;
  /* part 2: seeded contents: limb kinds, chosen quotient sequences (all ones, huge, mixed), equal high limbs, a = b, neighbours */
  for (c = 0; c < (tier ? 240 : 60); c++) {
    x++; if (!MINE(sh, x)) continue;
    rec_reset("k3_hgcd2", x, seed);
    for (k = 0; k < 40; k++) { mp_limb_t a[2], b[2]; int cls = (c + k) % NCLS, sft;
      gen_pair(a, b, 2, cls);
      ev_hgcd2(a[1], a[0], b[1], b[0], 1 + k % 7);
      sft = (int)rnd_below(63); if (sft) { mp_limb_t ah = a[1] >> sft, bh = b[1] >> sft; ev_hgcd2(ah, a[0], bh, b[0], k % 5 == 0 ? 1 + k % 7 : 0); }      /* not normalised */
    }
  }
}

/* ------------------------------------------------------------------ k3_matrix */
/* a matrix with non-negative elements and determinant 1 whose largest element has exactly k limbs: I times elementary column operations */
static void build_M(mpz_t m[4], mp_size_t k, int mode, int firstcol) {
  mpz_t q; int col = firstcol & 1; unsigned long target = 64UL * k, step = 0; mpz_init(q);
  mpz_set_ui(m[0], 1); mpz_set_ui(m[1], 0); mpz_set_ui(m[2], 0); mpz_set_ui(m[3], 1);
  for (;; step++, col ^= 1) { unsigned long bl = 0, room, qb; int e;
    for (e = 0; e < 4; e++) if (mpz_sizeinbase(m[e], 2) > bl) bl = mpz_sizeinbase(m[e], 2);
    if (bl + 1 >= target) break;
    room = target - bl - 1;
    qb = mode == 0 ? 1 : mode == 1 ? 64 : mode == 2 ? ((step & 1) ? 63 : 1) : 1 + rnd_below(64);
    if (qb > room) qb = room; if (!qb) break;
    z_rnd_bits(q, (unsigned)qb); if (mode == 1) { mpz_set_ui(q, 1); mpz_mul_2exp(q, q, qb); mpz_sub_ui(q, q, 1); }
    mpz_addmul(m[col], q, m[1 - col]); mpz_addmul(m[2 + col], q, m[3 - col]);       /* column col += q * column 1-col */
  }
  mpz_clear(q);
}
static void M_place(struct hgcd_matrix *M, mpz_t m[4], mp_size_t alloc, int slot0, int place) { int e; mp_size_t mn = 1;
  for (e = 0; e < 4; e++) { mp_ptr p = gb_get(slot0 + e, alloc, place); z_to_limbs(p, alloc, m[e]); M->p[e >> 1][e & 1] = p; if ((mp_size_t)mpz_size(m[e]) > mn) mn = mpz_size(m[e]); }
  M->alloc = alloc; M->n = mn;
}
static void ev_m22(mp_size_t rn, mp_size_t mn, int kind, int place) {
  mp_ptr r[4], m[4], tp; int e; mp_size_t it = mpn_matrix22_mul_itch(rn, mn); char k[4] = "r0";
  for (e = 0; e < 4; e++) { r[e] = gb_get(e, rn + mn + 1, place); m[e] = gb_get(4 + e, mn, !place); rnd_limbs(r[e], rn, (kind + e) % NKINDS); rnd_limbs(m[e], mn, (kind + 2 * e + 1) % NKINDS); gb_fill(r[e] + rn, mn + 1); }
  if (kind == 7) { for (e = 0; e < 4; e++) { rnd_limbs(r[e], rn, 1); rnd_limbs(m[e], mn, 1); } }                  /* everything all ones: the largest sums and carries */
  if (kind == 8) { MPN_COPY(r[3], r[2], rn); MPN_COPY(m[3], m[2], mn); }                                           /* r3 - r2 = 0, m3 - m2 = 0 (Strassen differences vanish) */
  if (kind == 9) { MPN_ZERO(r[0], rn); MPN_ZERO(m[1], mn); MPN_ZERO(r[3], rn); }
  tp = gb_get(8, it, place);
  fn_begin("mpn_matrix22_mul"); for (e = 0; e < 4; e++) { k[0] = 'r'; k[1] = '0' + e; fn_in_limbs(k, r[e], rn); } for (e = 0; e < 4; e++) { k[0] = 'm'; k[1] = '0' + e; fn_in_limbs(k, m[e], mn); }
  fn_in_int("rn", rn); fn_in_int("mn", mn); fn_mid(); gb_fill(tp, it);
  mpn_matrix22_mul(r[0], r[1], r[2], r[3], rn, m[0], m[1], m[2], m[3], mn, tp);
  for (e = 0; e < 4; e++) { k[0] = 'r'; k[1] = '0' + e; fn_out_limbs(k, r[e], rn + mn + 1); } fn_end();
}
static void ev_minit(mp_size_t n, int place) {
  mp_size_t it = MPN_HGCD_MATRIX_INIT_ITCH(n); mp_ptr p = gb_get(0, it, place); struct hgcd_matrix M;
  fn_begin("mpn_hgcd_matrix_init"); fn_in_int("n", n); fn_mid(); gb_fill(p, it); memset(&M, 0x5a, sizeof M);
  mpn_hgcd_matrix_init(&M, n, p);
  fn_out_int("alloc", M.alloc); fn_out_int("sep", (long)(M.p[0][1] - M.p[0][0] == M.alloc && M.p[1][0] - M.p[0][1] == M.alloc && M.p[1][1] - M.p[1][0] == M.alloc && M.p[0][0] == p)); out_M("m", &M, M.alloc); fn_end();
}
static void ev_mops(mp_size_t k, mp_size_t k1, int mode, int place) {
  mpz_t m[4], m1[4], q; struct hgcd_matrix M, M1; struct hgcd_matrix1 S; int e, col; mp_size_t qn, alloc, tn; mp_ptr tp, qp;
  priv_begin(); for (e = 0; e < 4; e++) { mpz_init(m[e]); mpz_init(m1[e]); } mpz_init(q);
  build_M(m, k, mode, mode & 1);
  /* update_q: "Update column COL, adding in Q * column (1-COL). Temporary storage: qn + n <= M->alloc" */
  for (col = 0; col < 2; col++) { const mp_size_t qns[] = {1, 1, 2, k, k + 3}; int v;
    for (v = 0; v < 5; v++) { qn = qns[v]; if (qn < 1) continue;
      z_rnd(q, qn, v == 1 ? 1 : (mode + v) % NKINDS); if (SIZ(q) < qn) { PTR(q)[qn - 1] = 1; SIZ(q) = qn; }
      alloc = k + qn + 2; M_place(&M, m, alloc, 0, place); tn = qn + M.n; tp = gb_get(8, tn, place); qp = gb_get(4, qn, !place); MPN_COPY(qp, PTR(q), qn);
      fn_begin("mpn_hgcd_matrix_update_q"); in_M("m", &M, alloc); fn_in_limbs("q", qp, qn); fn_in_int("qn", qn); fn_in_int("col", col); fn_in_int("alloc", alloc); fn_mid(); gb_fill(tp, tn);
      priv_end(); mpn_hgcd_matrix_update_q(&M, qp, qn, col, tp); priv_begin(); out_M("m", &M, alloc); fn_end(); } }
  /* mul_1: a single-limb matrix as mpn_hgcd2 returns them (elements below 2^63) */
  { mpz_t s[4]; for (e = 0; e < 4; e++) mpz_init(s[e]); build_M(s, 1, (mode + 1) % 4, !(mode & 1));
    for (e = 0; e < 4; e++) { S.u[e >> 1][e & 1] = mpz_get_ui(s[e]) >> 1; } /* halving keeps no determinant: mul_1 states none, only the element bound */
    if (mode & 1) for (e = 0; e < 4; e++) S.u[e >> 1][e & 1] = mpz_get_ui(s[e]) & (~(mp_limb_t)0 >> 1);
    for (e = 0; e < 4; e++) mpz_clear(s[e]);
    alloc = k + 2; M_place(&M, m, alloc, 0, place); tp = gb_get(8, M.n, place);
    fn_begin("mpn_hgcd_matrix_mul_1"); in_M("m", &M, alloc); in_m1(&S); fn_in_int("alloc", alloc); fn_mid(); gb_fill(tp, M.n);
    priv_end(); mpn_hgcd_matrix_mul_1(&M, &S, tp); priv_begin(); out_M("m", &M, alloc); fn_end(); }
  /* mul: M1 starts with the other column than M ended with (the callers' situation, hgcd_matrix.c: "we can't have M ending with a large power and M1 starting with a large power of the same matrix") */
  build_M(m1, k1, (mode + 2) % 4, mode & 1);
  alloc = k + k1 + 1; M_place(&M, m, alloc, 0, place); M_place(&M1, m1, k1, 4, !place); tn = 3 * (M.n + M1.n) + 5; tp = gb_get(8, tn, place);
  fn_begin("mpn_hgcd_matrix_mul"); in_M("m", &M, alloc); in_M("s", &M1, k1); fn_in_int("alloc", alloc); fn_mid(); gb_fill(tp, tn);
  priv_end(); mpn_hgcd_matrix_mul(&M, &M1, tp); priv_begin(); out_M("m", &M, alloc); fn_end();
  for (e = 0; e < 4; e++) { mpz_clear(m[e]); mpz_clear(m1[e]); } mpz_clear(q); priv_end();
}
/* mpn_hgcd_matrix_adjust the way mpn_hgcd_reduce uses it: M from mpn_hgcd on the high n-p limbs, then "Multiplies the least significant p limbs of (a;b) by M^-1" */
static void ev_adjust(mp_size_t n, mp_size_t p, int cls, int place) {
  mp_ptr a = gb_get(0, n + 1, place), b = gb_get(1, n + 1, place), mp, tp, t2; struct hgcd_matrix M; mp_size_t nn, r, ms = MPN_HGCD_MATRIX_INIT_ITCH(n - p), ts = mpn_hgcd_itch(n - p), t2s;
  gen_pair(a + p, b + p, n - p, cls); rnd_limbs(a, p, cls % NKINDS); rnd_limbs(b, p, (cls + 1) % NKINDS); a[n] = b[n] = 0x5a5a5a5a5a5a5a5aUL;
  mp = gb_get(2, ms, place); tp = gb_get(3, ts, place); gb_fill(mp, ms); gb_fill(tp, ts);
  mpn_hgcd_matrix_init(&M, n - p, mp); nn = mpn_hgcd(a + p, b + p, n - p, &M, tp);
  if (nn <= 0) return;
  t2s = 2 * (p + M.n); t2 = gb_get(4, t2s, !place);
  fn_begin("mpn_hgcd_matrix_adjust"); in_M("m", &M, M.alloc); fn_in_int("n", p + nn); fn_in_limbs("a", a, p + nn); fn_in_limbs("b", b, p + nn); fn_in_int("p", p); fn_mid(); gb_fill(t2, t2s);
  r = mpn_hgcd_matrix_adjust(&M, p + nn, a, b, p, t2); fn_out_int("ret", r); fn_out_limbs("a", a, r); fn_out_limbs("b", b, r); fn_end();
}
void drv_k3_matrix(int tier, unsigned long seed, const char *extra) {
  shard_t sh = shard_parse(extra); long x = 0; int ns[200], nn, i, j, kind; const int S = MATRIX22_STRASSEN_THRESHOLD;
  const int thr[] = {S, 2 * S}; const int ext_q[] = {50, 64, 100, 135}, ext_t[] = {57, 80, 128, 200, 342, 460, 700};
  if (sh.pure) { ns[0] = 1; ns[1] = 2; ns[2] = 3; nn = 3; } else { nn = k3_sizes(ns, 150, 1, 40, thr, 2, ext_q, 4, 2000); if (tier) nn += k3_sizes(ns + nn, 40, 41, 0, NULL, 0, ext_t, 7, 2000); }
  /* matrix22_mul: square shapes, and each rn against the mn around the Strassen threshold */
  for (i = 0; i < nn; i++) { mp_size_t rn = ns[i]; const int mns[] = {1, 2, S - 1, S, S + 1, 2 * S + 1, (int)rn - 1, (int)rn + 1, 3 * (int)rn};
    x++; if (!MINE(sh, x)) continue;
    rec_reset("k3_matrix", x, seed);
    for (kind = 0; kind < (sh.pure ? 2 : 10); kind++) ev_m22(rn, rn, kind, kind & 1);
    for (j = 0; j < 9; j++) { mp_size_t mn = mns[j]; if (mn < 1 || mn > 700 || (sh.pure && mn > 3)) continue; ev_m22(rn, mn, (int)((rn + j) % 10), j & 1); if (rn <= 60) ev_m22(mn, rn, (int)((rn + j + 3) % 10), !(j & 1)); }
    ev_minit(rn, 0); ev_minit(rn, 1);
  }
  /* struct hgcd_matrix operations */
  for (i = 0; i < nn; i++) { mp_size_t k = ns[i]; int mode; if (k > (tier ? 250 : 70)) continue;
    x++; if (!MINE(sh, x)) continue;
    rec_reset("k3_matrix", x, seed);
    for (mode = 0; mode < (sh.pure ? 2 : 4); mode++) { if (mode == 0 && k > 40) continue; ev_mops(k, k, mode, mode & 1); if (k > 1) ev_mops(k, 1 + (mp_size_t)rnd_below(k), mode, !(mode & 1)); ev_mops(k, k + 1, (mode + 1) % 4 ? (mode + 1) % 4 : 3, mode & 1); }
  }
  if (sh.pure) return;
  /* hgcd_matrix_adjust */
  for (i = 0; i < nn; i++) { mp_size_t n = ns[i]; int cls; if (n < 6 || n > (tier ? 700 : 135)) continue;
    x++; if (!MINE(sh, x)) continue;
    rec_reset("k3_matrix", x, seed);
    for (cls = 0; cls < NCLS; cls++) { mp_size_t p = cls % 3 == 0 ? n / 2 : cls % 3 == 1 ? 2 * n / 3 : 1 + (mp_size_t)rnd_below(n - 4); if (n - p < 3) p = n - 3; ev_adjust(n, p, cls, cls & 1); }
  }
}

/* ------------------------------------------------------------------ k3_hgcd */
enum { H_HGCD, H_APPR, H_JAC, H_STEP };
static void ev_hgcd(int which, mp_size_t n, int cls, int place, mp_size_t s_step) {
  mp_ptr a = gb_get(0, n, place), b = gb_get(1, n, place), mp, tp; struct hgcd_matrix M; long ret; int bits = 0; unsigned bo = 0;
  mp_size_t ms = MPN_HGCD_MATRIX_INIT_ITCH(n), ts = which == H_APPR ? mpn_hgcd_appr_itch(n) : mpn_hgcd_itch(n);
  gen_pair(a, b, n, cls);
  if (which == H_JAC) { if (!((a[0] | b[0]) & 1)) b[0] |= 1; bits = jac_bits((unsigned)a[0], (unsigned)b[0], (int)(rnd64() & 1), (int)(rnd64() & 1)); bo = (unsigned)bits; }
  if (is_double(a, b, n)) return;
  mp = gb_get(2, ms, place); tp = gb_get(3, ts, !place);
  fn_begin(which == H_HGCD ? "mpn_hgcd" : which == H_APPR ? "mpn_hgcd_appr" : which == H_JAC ? "mpn_hgcd_jacobi" : "mpn_hgcd_step");
  fn_in_limbs("a", a, n); fn_in_limbs("b", b, n); fn_in_int("n", n); if (which == H_JAC) fn_in_int("bits", bits); if (which == H_STEP) fn_in_int("s", s_step);
  fn_mid(); gb_fill(mp, ms); gb_fill(tp, ts); mpn_hgcd_matrix_init(&M, n, mp);
  switch (which) {
  case H_HGCD: ret = mpn_hgcd(a, b, n, &M, tp); break;
  case H_APPR: ret = mpn_hgcd_appr(a, b, n, &M, tp); break;
  case H_JAC: ret = mpn_hgcd_jacobi(a, b, n, &M, &bo, tp); break;
  default: ret = mpn_hgcd_step(n, a, b, s_step, &M, tp);
  }
  fn_out_int("ret", ret); if (which == H_JAC) fn_out_int("bits", (long)bo);
  if (which != H_APPR) { fn_out_limbs("a", a, ret > 0 ? ret : n); fn_out_limbs("b", b, ret > 0 ? ret : n); }          /* mpn_hgcd_appr: "Destroys inputs." */
  out_M("m", &M, M.alloc); fn_end();
}
/* mpn_gcd_subdiv_step with a hook that records what it is told */
struct k3_hook { int n; char buf[8][3]; mp_limb_t *g[8], *q[8]; mp_size_t gn[8], qn[8]; int d[8]; };
static void k3_rec_hook(void *p, mp_srcptr gp, mp_size_t gn, mp_srcptr qp, mp_size_t qn, int d) {
  struct k3_hook *h = p; int i = h->n; if (i >= 8) { h->n++; return; }
  h->g[i] = NULL; h->q[i] = NULL; h->gn[i] = gn; h->qn[i] = qn; h->d[i] = d;
  if (gp) { h->g[i] = malloc(8 * (gn + 1)); MPN_COPY(h->g[i], gp, gn); }
  if (qp) { h->q[i] = malloc(8 * (qn + 1)); MPN_COPY(h->q[i], qp, qn); }
  h->n++;
}
static void out_hook(struct k3_hook *h) { char *s; size_t sl; FILE *m = open_memstream(&s, &sl); int i;
  fputc('[', m);
  for (i = 0; i < h->n && i < 8; i++) { char *hg = h->g[i] ? hex_of_limbs(h->g[i], h->gn[i], 0) : NULL, *hq = h->q[i] ? hex_of_limbs(h->q[i], h->qn[i], 0) : NULL;
    fprintf(m, "%s{\"hg\":%d,\"g\":\"%s\",\"hq\":%d,\"q\":\"%s\",\"d\":%d}", i ? "," : "", hg ? 1 : 0, hg ? hg : "0", hq ? 1 : 0, hq ? hq : "0", h->d[i]);
    free(hg); free(hq); free(h->g[i]); free(h->q[i]); }
  fputc(']', m); fclose(m); fn_out_raw("hook", s); fn_out_int("calls", h->n); free(s);
}
static void ev_subdiv(mp_size_t n, mp_size_t s, int cls, int place) {
  mp_ptr a = gb_get(0, n, place), b = gb_get(1, n, place), tp = gb_get(2, MPN_GCD_SUBDIV_STEP_ITCH(n), !place); struct k3_hook h; long ret;
  gen_pair(a, b, n, cls); if (s > 0 && is_double(a, b, n)) return;
  if (cls == NCLS) { MPN_ZERO(b, n); a[n - 1] |= 1; }        /* one input zero at the start (s = 0 only) */
  h.n = 0;
  fn_begin("mpn_gcd_subdiv_step"); fn_in_limbs("a", a, n); fn_in_limbs("b", b, n); fn_in_int("n", n); fn_in_int("s", s); fn_mid(); gb_fill(tp, n);
  ret = mpn_gcd_subdiv_step(a, b, n, s, k3_rec_hook, &h, tp);
  fn_out_int("ret", ret); if (ret > 0 || s > 0) { fn_out_limbs("a", a, ret > 0 ? ret : n); fn_out_limbs("b", b, ret > 0 ? ret : n); }
  out_hook(&h); fn_end();
}
void drv_k3_hgcd(int tier, unsigned long seed, const char *extra) {
  shard_t sh = shard_parse(extra); long x = 0; int ns[220], nn, i, cls;
  const int thr[] = {HGCD_THRESHOLD, HGCD_APPR_THRESHOLD}, thr_t[] = {2 * HGCD_THRESHOLD, 4 * HGCD_THRESHOLD, GCDEXT_DC_THRESHOLD, GCD_DC_THRESHOLD};
  const int ext_q[] = {48, 56, 64, 80, 100, 128, 135}, ext_t[] = {150, 180, 300, 600, 1000, 1500};
  if (sh.pure) { ns[0] = 1; ns[1] = 2; ns[2] = 3; ns[3] = 4; nn = 4; }
  else { nn = k3_sizes(ns, 150, 1, 40, thr, 2, ext_q, 7, (int)(1.2 * HGCD_THRESHOLD)); if (tier) nn += k3_sizes(ns + nn, 60, 41, 0, thr_t, 4, ext_t, 6, 3000); }
  for (i = 0; i < nn; i++) for (cls = 0; cls < NCLS; cls += (sh.pure ? 4 : 1)) { mp_size_t n = ns[i];
    if (n > 700 && cls % 3) continue;
    x++; if (!MINE(sh, x)) continue;
    rec_reset("k3_hgcd", x, seed);
    ev_hgcd(H_HGCD, n, cls, cls & 1, 0); ev_hgcd(H_APPR, n, cls, !(cls & 1), 0); ev_hgcd(H_JAC, n, cls, cls & 1, 0);
    if (n >= 2) { mp_size_t s = n / 2 + 1; if (n > s) ev_hgcd(H_STEP, n, cls, cls & 1, s); if (n - 1 > s) ev_hgcd(H_STEP, n, (cls + 5) % NCLS, !(cls & 1), n - 1); if (n - 2 > s) ev_hgcd(H_STEP, n, (cls + 9) % NCLS, cls & 1, n - 2); }
    if (n <= 300) { ev_subdiv(n, 0, cls, cls & 1); ev_subdiv(n, n / 2 + 1 < n ? n / 2 + 1 : n - 1 > 0 ? n - 1 : 0, (cls + 7) % NCLS, !(cls & 1)); if (n > 2) ev_subdiv(n, n - 1, (cls + 11) % NCLS, cls & 1); if (cls == 0) ev_subdiv(n, 0, NCLS, 1); }
  }
  if (tier && !sh.pure) { /* mpn_hgcd_reduce's second branch (mpn_hgcd_appr + hgcd_matrix_apply) needs n >= HGCD_REDUCE_THRESHOLD */
    const int big[] = {HGCD_REDUCE_THRESHOLD - 1, HGCD_REDUCE_THRESHOLD, HGCD_REDUCE_THRESHOLD + 1, (int)(1.3 * HGCD_REDUCE_THRESHOLD)}; const int cl[] = {0, 3, 10, 14, 16};
    for (i = 0; i < 4; i++) for (cls = 0; cls < 5; cls++) { x++; if (!MINE(sh, x)) continue; if (big[i] > 20000) continue;
      rec_reset("k3_hgcd", x, seed); ev_hgcd(H_HGCD, big[i], cl[cls], cls & 1, 0); ev_hgcd(H_APPR, big[i], cl[cls], cls & 1, 0); if (cls < 2) ev_hgcd(H_JAC, big[i], cl[cls], cls & 1, 0); }
  }
}

/* ------------------------------------------------------------------ k3_gcdext */
static void ev_gcdext1(mp_limb_t u, mp_limb_t v) { mp_limb_signed_t s = 0x5a5a5a5a, t = 0x5a5a5a5a; mp_limb_t g;
  fn_begin("mpn_gcdext_1"); fn_in_u64("a", u); fn_in_u64("b", v); fn_mid(); g = mpn_gcdext_1(&s, &t, u, v);
  fn_out_u64("g", g); { char bs[40]; snprintf(bs, sizeof bs, "\"%s%lx\"", s < 0 ? "-" : "", (unsigned long)(s < 0 ? -(mp_limb_t)s : (mp_limb_t)s)); fn_out_raw("s", bs);
    snprintf(bs, sizeof bs, "\"%s%lx\"", t < 0 ? "-" : "", (unsigned long)(t < 0 ? -(mp_limb_t)t : (mp_limb_t)t)); fn_out_raw("t", bs); }
  fn_end();
  fn_begin("mpn_gcd_1"); fn_in_u64("a", u); fn_in_u64("b", v); fn_mid(); g = mpn_gcd_1(&u, 1, v); fn_out_u64("g", g); fn_end();
}
static void ev_lehmer(mp_size_t n, int cls, int place) {
  mp_ptr a = gb_get(0, n, place), b = gb_get(1, n, place), g = gb_get(2, n, place), u = gb_get(3, n + 1, !place), tp = gb_get(4, MPN_GCDEXT_LEHMER_N_ITCH(n), place), ac = gb_get(5, n, 0), bc = gb_get(6, n, 0);
  mp_size_t us = 0x5a5a5a, gn; char *h;
  gen_pair(a, b, n, cls);
  { mp_size_t an = n, bn = n; MPN_NORMALIZE(a, an); MPN_NORMALIZE(b, bn); if (!an) a[0] = 1; if (!bn) b[0] = 1; }     /* both operands positive */
  if (cls == NCLS) { MPN_COPY(b, a, n); }
  MPN_COPY(ac, a, n); MPN_COPY(bc, b, n);
  fn_begin("mpn_gcdext_lehmer_n"); fn_in_limbs("a", a, n); fn_in_limbs("b", b, n); fn_in_int("n", n); fn_mid(); gb_fill(g, n); gb_fill(u, n + 1); gb_fill(tp, MPN_GCDEXT_LEHMER_N_ITCH(n));
  gn = mpn_gcdext_lehmer_n(g, u, &us, a, b, n, tp);
  fn_out_int("gn", gn); fn_out_limbs("g", g, gn); fn_out_int("un", us); h = hex_of_limbs(u, ABS(us), us < 0); { char *q = malloc(strlen(h) + 3); sprintf(q, "\"%s\"", h); fn_out_raw("s", q); free(q); } free(h); fn_end();
  /* one mpn_gcd_subdiv_step with the cofactor hook of mpn_gcdext (mpn_gcdext_hook), from u0 = 0, u1 = 1 */
  { struct gcdext_ctx ctx; mp_ptr u0 = gb_get(7, 3 * (n + 1), 0), u1 = u0 + n + 1, u2 = u1 + n + 1; long r; mp_size_t usz = 0x5a5a5a;
    MPN_COPY(a, ac, n); MPN_COPY(b, bc, n); MPN_ZERO(u0, 3 * (n + 1)); u1[0] = 1;
    ctx.gp = g; ctx.up = u; ctx.usize = &usz; ctx.un = 1; ctx.u0 = u0; ctx.u1 = u1; ctx.tp = u2; ctx.gn = 0;
    fn_begin("mpn_gcdext_hook"); fn_in_limbs("a", a, n); fn_in_limbs("b", b, n); fn_in_int("n", n); fn_mid(); gb_fill(g, n); gb_fill(u, n + 1); gb_fill(tp, n);
    r = mpn_gcd_subdiv_step(a, b, n, 0, mpn_gcdext_hook, &ctx, tp);
    fn_out_int("ret", r);
    if (r == 0) { fn_out_limbs("g", g, ctx.gn); fn_out_int("gn", ctx.gn); h = hex_of_limbs(u, ABS(usz), usz < 0); { char *q = malloc(strlen(h) + 3); sprintf(q, "\"%s\"", h); fn_out_raw("s", q); free(q); } free(h); }
    else { fn_out_limbs("a", a, r); fn_out_limbs("b", b, r); fn_out_limbs("u0", u0, ctx.un); fn_out_limbs("u1", u1, ctx.un); fn_out_int("un", ctx.un); }
    fn_end(); }
}
void drv_k3_gcdext(int tier, unsigned long seed, const char *extra) {
  shard_t sh = shard_parse(extra); long x = 0; int ns[200], nn, i, j, cls, c;
  static const mp_limb_t alpha[] = {1, 2, 3, 4, 0xffffffffUL, (mp_limb_t)1 << 32, ((mp_limb_t)1 << 62), ((mp_limb_t)1 << 63) - 1, (mp_limb_t)1 << 63, ((mp_limb_t)1 << 63) + 1, ~(mp_limb_t)0 - 1, ~(mp_limb_t)0, 0x5555555555555555UL, 0xaaaaaaaaaaaaaaaaUL};
  const int thr[] = {GCDEXT_DC_THRESHOLD}; const int ext_q[] = {48, 64, 100, 135}, ext_t[] = {200, 460, 600};
  x++; if (MINE(sh, x)) { rec_reset("k3_gcdext", x, seed); for (i = 0; i < 14; i++) for (j = 0; j < 14; j++) ev_gcdext1(alpha[i], alpha[j]); }
  for (c = 0; c < (sh.pure ? 1 : tier ? 40 : 10); c++) { x++; if (!MINE(sh, x)) continue; rec_reset("k3_gcdext", x, seed);
    for (j = 0; j < 100; j++) { mp_limb_t a[1], b[1]; gen_pair(a, b, 1, (c + j) % NCLS); if (!a[0]) a[0] = 1; if (!b[0]) b[0] = 1; ev_gcdext1(a[0], b[0]);
      { unsigned sa = rnd_below(64), sb = rnd_below(64); mp_limb_t u = a[0] >> sa, v = b[0] >> sb; if (u && v) ev_gcdext1(u, v); } } }
  if (sh.pure) { ns[0] = 1; ns[1] = 2; ns[2] = 3; nn = 3; } else { nn = k3_sizes(ns, 150, 1, 40, NULL, 0, ext_q, 4, 2000); if (tier) nn += k3_sizes(ns + nn, 40, 41, 0, thr, 1, ext_t, 3, 2000); }
  for (i = 0; i < nn; i++) { mp_size_t n = ns[i];
    x++; if (!MINE(sh, x)) continue;
    rec_reset("k3_gcdext", x, seed);
    for (cls = 0; cls <= NCLS; cls += (sh.pure ? 5 : 1)) ev_lehmer(n, cls, cls & 1);
  }
}

/* ------------------------------------------------------------------ k3_jacobi */
static void ev_jbase(mp_limb_t a, mp_limb_t b, int bit) {
  int r; b |= 1; if (b == 1) b = 3;                           /* "a restricted range of inputs accepted, namely b>1, b odd" */
  fn_begin("mpn_jacobi_base"); fn_in_u64("a", a); fn_in_u64("b", b); fn_in_int("bit", bit); fn_mid(); r = mpn_jacobi_base(a, b, bit); fn_out_int("ret", r); fn_end();
}
static void ev_j2(mp_limb_t ah, mp_limb_t al, mp_limb_t bh, mp_limb_t bl, unsigned bit) {
  mp_ptr a = gb_get(0, 2, 1), b = gb_get(1, 2, 1); int r; a[0] = al; a[1] = ah; b[0] = bl | 1; b[1] = bh;
  fn_begin("mpn_jacobi_2"); fn_in_limbs("a", a, 2); fn_in_limbs("b", b, 2); fn_in_int("bit", bit); fn_mid(); r = mpn_jacobi_2(a, b, bit); fn_out_int("ret", r); fn_end();
}
static void ev_jn(mp_size_t n, int cls, int place) {
  mp_ptr a = gb_get(0, n, place), b = gb_get(1, n, place); unsigned bits; int r, s = (int)(rnd64() & 1);
  gen_pair(a, b, n, cls); b[0] |= 1;
  if (!(a[n - 1] | b[n - 1])) a[n - 1] = 1;
  bits = mpn_jacobi_init((unsigned)a[0], (unsigned)b[0], (unsigned)s);
  fn_begin("mpn_jacobi_n"); fn_in_limbs("a", a, n); fn_in_limbs("b", b, n); fn_in_int("n", n); fn_in_int("s", s); fn_in_int("bits", bits); fn_mid();
  r = mpn_jacobi_n(a, b, n, bits); fn_out_int("ret", r); fn_end();
}
void drv_k3_jacobi(int tier, unsigned long seed, const char *extra) {
  shard_t sh = shard_parse(extra); long x = 0; int ns[200], nn, i, j, k, l, cls, c;
  static const mp_limb_t alpha[] = {0, 1, 2, 3, 4, 5, 7, 8, 9, 15, 0xffffffffUL, (mp_limb_t)1 << 32, ((mp_limb_t)1 << 63) - 1, (mp_limb_t)1 << 63, ((mp_limb_t)1 << 63) + 1, ~(mp_limb_t)0 - 2, ~(mp_limb_t)0 - 1, ~(mp_limb_t)0};
  const int thr[] = {GCD_DC_THRESHOLD}; const int ext_q[] = {48, 64, 100, 135}, ext_t[] = {200, 342, 600, 1000};
  x++; if (MINE(sh, x)) { rec_reset("k3_jacobi", x, seed); for (i = 0; i < 18; i++) for (j = 0; j < 18; j++) for (k = 0; k < 4; k++) ev_jbase(alpha[i], alpha[j], k); }
  for (i = 0; i < (sh.pure ? 3 : 18); i++) { x++; if (!MINE(sh, x)) continue; rec_reset("k3_jacobi", x, seed);
    for (j = 0; j < 18; j++) for (k = 0; k < 18; k++) for (l = 0; l < 18; l++) { if (!tier && (j + k + l + i) % 4 && !(j == l)) continue; ev_j2(alpha[i], alpha[k], alpha[j], alpha[l], (unsigned)((k + l) & 1)); } }
  for (c = 0; c < (sh.pure ? 1 : tier ? 40 : 10); c++) { x++; if (!MINE(sh, x)) continue; rec_reset("k3_jacobi", x, seed);
    for (j = 0; j < 120; j++) { mp_limb_t a[2], b[2]; gen_pair(a, b, 2, (c + j) % NCLS); ev_j2(a[1], a[0], b[1], b[0], (unsigned)(j & 1)); ev_jbase(a[0], b[0], j & 3); ev_jbase(a[1] >> rnd_below(64), b[0] >> rnd_below(63), (j >> 1) & 3);
      if (j % 3 == 0) ev_j2(0, a[0], 0, b[0], 0); if (j % 3 == 1) ev_j2(a[1], a[0], 0, b[0], 1); } }
  if (sh.pure) { ns[0] = 1; ns[1] = 2; ns[2] = 3; nn = 3; } else { nn = k3_sizes(ns, 150, 1, 40, NULL, 0, ext_q, 4, 2000); if (tier) nn += k3_sizes(ns + nn, 40, 41, 0, thr, 1, ext_t, 4, 2000); }
  for (i = 0; i < nn; i++) { mp_size_t n = ns[i];
    x++; if (!MINE(sh, x)) continue;
    rec_reset("k3_jacobi", x, seed);
    for (cls = 0; cls < NCLS; cls += (sh.pure ? 5 : 1)) { ev_jn(n, cls, cls & 1); if (n <= 40) ev_jn(n, cls, !(cls & 1)); }
  }
}
