/* K1: direct conformance events for internal multiplication-side and modular-arithmetic kernels (contracts: spec/SemK1.tla).
   k1_mullow: mpn_mullow_n, mpn_mullow_n_basecase, mpn_mullow_basecase, mpn_mulhigh_n     k1_sqr: mpn_sqr
   k1_mulmid: mpn_mulmid_basecase, mpn_mulmid, mpn_mulmid_n, mpn_toom42_mulmid
   k1_mulmod: mpn_mulmod_2expm1, mpn_mulmod_2expp1_basecase (= mpn_mulmod_2expp1), mpn_mulmod_Bexpp1
   k1_redc: mpn_redc_1, mpn_redc_2, mpn_redc_n     k1_inv: mpn_binvert, mpn_invert     k1_pow: mpn_powlo, mpn_pow_1, mpn_powm
   Every operand, result and scratch area is a guarded buffer of exactly the documented size; the specification decides. */
#include "util.h"

/* sizes: every n in lo..dense, then each threshold -2..+2, then the listed extras; sorted, unique, <= hi */
static int k1_sizes(int *out, int max, int lo, int dense, const int *thr, int nthr, const int *ext, int next, int hi) {
  int c = 0, i, j, d;
  for (i = lo; i <= dense && i <= hi && c < max; i++) out[c++] = i;
  for (i = 0; i < nthr; i++) for (d = -2; d <= 2; d++) { int v = thr[i] + d, dup = 0; if (v < lo || v > hi) continue; for (j = 0; j < c; j++) if (out[j] == v) dup = 1; if (!dup && c < max) out[c++] = v; }
  for (i = 0; i < next; i++) { int v = ext[i], dup = 0; if (v < lo || v > hi) continue; for (j = 0; j < c; j++) if (out[j] == v) dup = 1; if (!dup && c < max) out[c++] = v; }
  for (i = 1; i < c; i++) { int v = out[i]; for (j = i; j > 0 && out[j - 1] > v; j--) out[j] = out[j - 1]; out[j] = v; }
  return c;
}
static int lg_ceil(unsigned long b) { int l = 0; while (((unsigned long)1 << l) < b) l++; return l; }
/* -1/m0 mod B and 1/(m1:m0) mod B^2 by Newton iteration in the harness (not the library's tables) */
static mp_limb_t inv64(mp_limb_t m) { mp_limb_t x = m; int i; for (i = 0; i < 6; i++) x *= 2 - m * x; return x; }
static void inv128(mp_limb_t *r, mp_limb_t m0, mp_limb_t m1) {
  unsigned __int128 m = ((unsigned __int128)m1 << 64) | m0, x = inv64(m0); x *= 2 - m * x; x *= 2 - m * x; r[0] = (mp_limb_t)x; r[1] = (mp_limb_t)(x >> 64);
}

/* ------------------------------------------------------------------ k1_mullow */
static void ev_mullow(mp_size_t n, int kind, int place, int adv) {
  mp_ptr a = gb_get(0, n, place), b = gb_get(1, n, place), r = gb_get(2, 2 * n, place);
  rnd_limbs(a, n, kind); rnd_limbs(b, n, adv == 1 ? kind : (kind + 3) % NKINDS);
  if (adv == 2) { /* product whose limb n-1 is within n of B-1: mulhigh's error bound test "rp[n-1] + n-2 < B" fails or just passes */
    mp_size_t i; for (i = 0; i < n; i++) a[i] = 0; a[n - 1] = 1; b[0] = ~(mp_limb_t)0 - rnd_below(n + 2); }
  if (adv == 3) { MPN_COPY(b, a, n); }                                   /* equal operand values */
  if (adv == 4) { mp_size_t i; for (i = 0; i < n / 2; i++) a[i] = b[i] = 0; }      /* zero low halves */
  fn_begin("mpn_mullow_n"); fn_in_limbs("a", a, n); fn_in_limbs("b", b, n); fn_in_int("n", n); fn_mid(); gb_fill(r, 2 * n); mpn_mullow_n(r, a, b, n); fn_out_limbs("r", r, n); fn_end();
  if (n <= 300) { fn_begin("mpn_mullow_n_basecase"); fn_in_limbs("a", a, n); fn_in_limbs("b", b, n); fn_in_int("n", n); fn_mid(); gb_fill(r, 2 * n); mpn_mullow_n_basecase(r, a, b, n); fn_out_limbs("r", r, n); fn_end(); }
  fn_begin("mpn_mulhigh_n"); fn_in_limbs("a", a, n); fn_in_limbs("b", b, n); fn_in_int("n", n); fn_mid(); gb_fill(r, 2 * n); mpn_mulhigh_n(r, a, b, n); fn_out_limbs("hi", r + n, n); fn_end();
}
static void ev_mullow_bc(mp_size_t xn, mp_size_t yn, mp_size_t n, int kind, int place) {
  mp_ptr a = gb_get(0, xn, place), b = gb_get(1, yn, place), r = gb_get(2, xn + yn, place);
  rnd_limbs(a, xn, kind); rnd_limbs(b, yn, (kind + 2) % NKINDS);
  fn_begin("mpn_mullow_basecase"); fn_in_limbs("a", a, xn); fn_in_int("an", xn); fn_in_limbs("b", b, yn); fn_in_int("bn", yn); fn_in_int("n", n); fn_mid();
  gb_fill(r, xn + yn); mpn_mullow_basecase(r, a, xn, b, yn, n); fn_out_limbs("r", r, n); fn_end();
}
void drv_k1_mullow(int tier, unsigned long seed, const char *extra) {
  shard_t sh = shard_parse(extra); long x = 0; int ns[200], nn, i, kind, adv;
  const int thr[] = {MULLOW_BASECASE_THRESHOLD, MULLOW_DC_THRESHOLD, 2 * MULLOW_DC_THRESHOLD, MULHIGH_BASECASE_THRESHOLD, MULHIGH_DC_THRESHOLD, 2 * MULHIGH_DC_THRESHOLD,
                     MUL_KARATSUBA_THRESHOLD, MUL_TOOM3_THRESHOLD, MUL_TOOM4_THRESHOLD, MUL_TOOM8H_THRESHOLD, MULLOW_MUL_THRESHOLD, MULHIGH_MUL_THRESHOLD};
  const int ext_q[] = {45, 50, 57, 64, 71, 80, 90, 110, 128, 143, 170, 200, 300, 420, 640, 1000, 1500}, ext_t[] = {47, 53, 61, 67, 75, 85, 120, 135, 160, 185, 220, 260, 350, 500, 800, 1200, 1800, 2200, 2600, 3000, 4100};
  if (sh.pure) { ns[0] = 1; ns[1] = 2; ns[2] = 3; nn = 3; }
  else { nn = k1_sizes(ns, 150, 1, 40, thr, 12, ext_q, 17, 5000); if (tier) nn = nn + k1_sizes(ns + nn, 40, 41, 0, NULL, 0, ext_t, 21, 5000); }
  for (i = 0; i < nn; i++) for (kind = 0; kind < (sh.pure ? 2 : NKINDS); kind++) {
    mp_size_t n = ns[i];
    if (n > 400 && kind != 0 && kind != 1 && kind != 3) continue;
    x++; if (!MINE(sh, x)) continue;
    rec_reset("k1_mullow", x, seed);
    for (adv = 0; adv < (sh.pure ? 2 : 5); adv++) { if (n > 400 && adv > 2) continue; if (!sh.pure && kind > 1 && adv != 0 && adv != 2 && adv != 1 + kind % 4) continue; ev_mullow(n, kind, (adv + kind) & 1, adv); }
    if ((n <= 24 && (kind < 2 || kind == 5 || n <= 6)) || (n <= 64 && kind == 0)) { mp_size_t yn, m; /* mpn_mullow_basecase: 0 < yn <= xn <= n <= xn + yn */
      for (yn = 1; yn <= n; yn++) { if (yn > 4 && yn < n - 1 && yn != n / 2 && (yn & (yn - 1))) continue;
        m = n; ev_mullow_bc(n, yn, m, kind, 0); m = n + yn; ev_mullow_bc(n, yn, m, kind, 1);
        if (yn > 1) { m = n + 1 + (mp_size_t)rnd_below(yn - 1); ev_mullow_bc(n, yn, m, (kind + 1) % NKINDS, 1); } } }
  }
}

/* ------------------------------------------------------------------ k1_sqr */
void drv_k1_sqr(int tier, unsigned long seed, const char *extra) {
  shard_t sh = shard_parse(extra); long x = 0; int ns[220], nn, i, kind, place;
  const int thr[] = {SQR_BASECASE_THRESHOLD, SQR_KARATSUBA_THRESHOLD, 2 * SQR_KARATSUBA_THRESHOLD, SQR_TOOM3_THRESHOLD, SQR_TOOM4_THRESHOLD, SQR_TOOM8_THRESHOLD, SQR_FFT_FULL_THRESHOLD};
  const int ext_q[] = {44, 52, 60, 64, 72, 80, 100, 128, 150, 180, 200, 270, 400, 512, 700, 1000, 1500, 2500}, ext_t[] = {42, 46, 56, 68, 76, 95, 110, 120, 140, 165, 190, 215, 250, 300, 360, 450, 600, 850, 1200, 1800, 2048, 3000, 4096, 6000};
  if (sh.pure) { ns[0] = 1; ns[1] = 2; ns[2] = 3; nn = 3; }
  else { nn = k1_sizes(ns, 160, 1, 40, thr, 7, ext_q, 18, 7000); if (tier) nn = nn + k1_sizes(ns + nn, 40, 41, 0, NULL, 0, ext_t, 24, 7000); }
  for (i = 0; i < nn; i++) {
    mp_size_t n = ns[i];
    x++; if (!MINE(sh, x)) continue;
    rec_reset("k1_sqr", x, seed);
    for (kind = 0; kind < (sh.pure ? 2 : NKINDS); kind++) for (place = 0; place < 2; place++) {
      mp_ptr a = gb_get(0, n, place), r = gb_get(1, 2 * n, place);
      if (n > 600 && (kind + place) % 3) continue;
      rnd_limbs(a, n, kind); if (place && kind == 4) a[n - 1] = 0;                     /* the operand need not be normalised */
      fn_begin("mpn_sqr"); fn_in_limbs("a", a, n); fn_in_int("n", n); fn_mid(); gb_fill(r, 2 * n); mpn_sqr(r, a, n); fn_out_limbs("r", r, 2 * n); fn_end();
    }
  }
}

/* ------------------------------------------------------------------ k1_mulmid */
enum { MM_BASE, MM_GEN, MM_N, MM_T42 };
static void ev_mulmid(int which, mp_size_t an, mp_size_t bn, int kind, int place) {
  mp_size_t rn = an - bn + 3; mp_ptr a = gb_get(0, an, place), b = gb_get(1, bn, place), r = gb_get(2, rn, place), s;
  rnd_limbs(a, an, kind); rnd_limbs(b, bn, kind == 1 ? 1 : (kind + 4) % NKINDS);
  fn_begin(which == MM_BASE ? "mpn_mulmid_basecase" : which == MM_GEN ? "mpn_mulmid" : which == MM_N ? "mpn_mulmid_n" : "mpn_toom42_mulmid");
  fn_in_limbs("a", a, an); fn_in_int("an", an); fn_in_limbs("b", b, bn); fn_in_int("bn", bn); fn_mid(); gb_fill(r, rn);
  switch (which) {
  case MM_BASE: mpn_mulmid_basecase(r, a, an, b, bn); break;
  case MM_GEN: mpn_mulmid(r, a, an, b, bn); break;
  case MM_N: mpn_mulmid_n(r, a, b, bn); break;
  default: s = gb_get(3, mpn_toom42_mulmid_itch(bn), place); gb_fill(s, mpn_toom42_mulmid_itch(bn)); mpn_toom42_mulmid(r, a, b, bn, s);
  }
  fn_out_limbs("r", r, rn); fn_end();
}
void drv_k1_mulmid(int tier, unsigned long seed, const char *extra) {
  shard_t sh = shard_parse(extra); long x = 0; int ns[200], nn, i, kind, j;
  const int T = MULMID_TOOM42_THRESHOLD, CH = 200 + MULMID_TOOM42_THRESHOLD;
  const int thr[] = {T, 2 * T, 4 * T}; const int ext_q[] = {46, 55, 64, 90, 100, 128, 200, 300}, ext_t[] = {43, 50, 59, 67, 81, 95, 110, 120, 160, 180, 240, 260, 400, 576, 600, 1000};
  if (sh.pure) { ns[0] = 1; ns[1] = 2; ns[2] = 3; nn = 3; }
  else { nn = k1_sizes(ns, 150, 1, 40, thr, 3, ext_q, 8, 2000); if (tier) nn = nn + k1_sizes(ns + nn, 40, 41, 0, NULL, 0, ext_t, 16, 2000); }
  /* part 1: the n-by-(2n-1) forms and the basecase on the same shapes and on unbalanced ones */
  for (i = 0; i < nn; i++) for (kind = 0; kind < (sh.pure ? 2 : NKINDS); kind++) {
    mp_size_t n = ns[i];
    if (n > 150 && kind > 3) continue;
    x++; if (!MINE(sh, x)) continue;
    rec_reset("k1_mulmid", x, seed);
    ev_mulmid(MM_N, 2 * n - 1, n, kind, kind & 1);
    if (n >= 4) ev_mulmid(MM_T42, 2 * n - 1, n, kind, !(kind & 1));
    if (n <= 150) ev_mulmid(MM_BASE, 2 * n - 1, n, kind, kind & 1);
    ev_mulmid(MM_GEN, 2 * n - 1, n, kind, !(kind & 1));
    if (n <= 80 && (kind < 3 || n <= 12)) { const int ds[] = {0, 1, 2, 3, 5, 8, 17}; for (j = 0; j < (sh.pure ? 3 : 7); j++) { ev_mulmid(MM_BASE, n + ds[j], n, (kind + j) % NKINDS, j & 1); ev_mulmid(MM_GEN, n + ds[j], n, (kind + j) % NKINDS, !(j & 1)); }
      if (!sh.pure) { ev_mulmid(MM_BASE, 3 * n + 1, n, kind, 0); ev_mulmid(MM_GEN, 5 * n, n, kind, 1); } }
  }
  if (sh.pure) return;
  /* part 2: the region decompositions of mpn_mulmid (bn below/above the toom42 threshold, wide and tall regions cut into chunks) */
  { const int bns[] = {1, 2, 7, T - 1, T, T + 1, T + 9, 2 * T, 2 * T + 1, 3 * T + 5, CH - 1, CH, CH + 1, CH + 40, 2 * CH, 2 * CH + 3};
    for (i = 0; i < 16; i++) { int bn = bns[i]; int rns[24], nr = 0;
      rns[nr++] = 1; rns[nr++] = 2; rns[nr++] = T - 1; rns[nr++] = T; rns[nr++] = T + 1; rns[nr++] = bn > 1 ? bn - 1 : 3; rns[nr++] = bn; rns[nr++] = bn + 1; rns[nr++] = 2 * bn; rns[nr++] = 2 * bn + 1; rns[nr++] = 3 * bn + T / 2;
      rns[nr++] = CH - bn > 0 ? CH - bn : 5; rns[nr++] = CH - bn + 1 > 0 ? CH - bn + 1 : 6; rns[nr++] = CH + 5; rns[nr++] = 2 * CH + 1; if (tier) { rns[nr++] = 3 * CH + 7; rns[nr++] = 5 * bn + 3; rns[nr++] = 4 * bn; }
      for (j = 0; j < nr; j++) { int rn = rns[j]; if (rn < 1 || (long)rn * bn > (tier ? 400000 : 120000)) continue;
        x++; if (!MINE(sh, x)) continue;
        rec_reset("k1_mulmid", x, seed);
        for (kind = 0; kind < ((long)rn * bn > 20000 ? 2 : 4); kind++) ev_mulmid(MM_GEN, rn + bn - 1, bn, kind == 2 ? 5 : kind, (kind + j) & 1);
      } } }
}

/* ------------------------------------------------------------------ k1_mulmod */
static void mask_top(mp_ptr p, mp_size_t n, unsigned long b) { unsigned k = (unsigned)(64 * n - b); if (k) p[n - 1] &= ~(mp_limb_t)0 >> k; }
static void set_pow2(mp_ptr p, mp_size_t n, unsigned long e) { mp_size_t i; for (i = 0; i < n; i++) p[i] = 0; p[e / 64] = (mp_limb_t)1 << (e % 64); }
static void ev_2expm1(unsigned long b, int kind, int place, int adv) {
  mp_size_t n = (b + 63) / 64, tn = 5 * (n + lg_ceil(b)); mp_ptr y = gb_get(0, n, place), z = gb_get(1, n, place), r = gb_get(2, n, place), t = gb_get(3, tn, place);
  rnd_limbs(y, n, kind); rnd_limbs(z, n, adv == 1 ? 1 : (kind + 3) % NKINDS); mask_top(y, n, b); mask_top(z, n, b);
  if (adv == 2) { MPN_COPY(z, y, n); }
  if (adv == 3) { rnd_limbs(y, n, 1); mask_top(y, n, b); }                  /* 2^b - 1: the second representation of zero */
  if (adv == 4 && b > 1) { set_pow2(y, n, b / 2); set_pow2(z, n, b - b / 2); mpn_sub_1(z, z, n, 1); }
  fn_begin("mpn_mulmod_2expm1"); fn_in_limbs("a", y, n); fn_in_limbs("b", z, n); fn_in_int("bits", (long)b); fn_mid(); gb_fill(r, n); gb_fill(t, tn);
  mpn_mulmod_2expm1(r, y, z, b, t); fn_out_limbs("r", r, n); fn_end();
}
static void ev_2expp1(unsigned long b, int kind, int place, int adv) {
  mp_size_t n = (b + 63) / 64; mp_ptr y = gb_get(0, n, place), z = gb_get(1, n, place), r = gb_get(2, n, place), t = gb_get(3, 2 * n, place); int c = 0, ret;
  rnd_limbs(y, n, kind); rnd_limbs(z, n, adv == 1 ? 1 : (kind + 3) % NKINDS); mask_top(y, n, b); mask_top(z, n, b);
  if (adv == 2) { MPN_COPY(z, y, n); }
  if (adv == 3) { unsigned long e = rnd_below(b + 1); if (e == b) { MPN_ZERO(y, n); c |= 2; } else set_pow2(y, n, e); e = b - e; if (e == b) { MPN_ZERO(z, n); c |= 1; } else set_pow2(z, n, e); }     /* y*z = 2^b = -1 */
  if (adv == 4) { MPN_ZERO(y, n); c |= 2; }                                /* y = 2^b */
  if (adv == 5) { MPN_ZERO(z, n); c |= 1; if (kind == 2) { MPN_ZERO(y, n); y[0] = 1; } }
  if (adv == 6) { MPN_ZERO(y, n); MPN_ZERO(z, n); c = 3; }
  if (adv == 7) r = t;                                                      /* result on top of the scratch area (permitted: same or separate) */
  fn_begin("mpn_mulmod_2expp1_basecase"); fn_in_limbs("a", y, n); fn_in_limbs("b", z, n); fn_in_int("c", c); fn_in_int("bits", (long)b); fn_mid(); if (r != t) gb_fill(r, n); gb_fill(t, 2 * n);
  ret = (adv == 2 && kind == 0) ? mpn_mulmod_2expp1_basecase(r, y, y, c, b, t) : mpn_mulmod_2expp1_basecase(r, y, z, c, b, t); fn_out_limbs("r", r, n); fn_out_int("ret", ret); fn_end();
}
static void ev_Bexpp1(mp_size_t n, int kind, int place, int adv) {
  mp_ptr y = gb_get(0, n + 1, place), z = gb_get(1, n + 1, place), r = gb_get(2, n + 1, place), t = gb_get(3, 2 * n, place); int ret;
  rnd_limbs(y, n, kind); rnd_limbs(z, n, adv == 1 ? 1 : (kind + 3) % NKINDS); y[n] = z[n] = 0;
  if (adv == 2) { MPN_ZERO(y, n); y[n] = 1; } if (adv == 3) { MPN_ZERO(z, n); z[n] = 1; } if (adv == 4) { MPN_ZERO(y, n); y[n] = 1; MPN_ZERO(z, n); z[n] = 1; }
  if (adv == 5) { unsigned long e = rnd_below(64 * n), f = 64 * n - e; set_pow2(y, n + 1, e); set_pow2(z, n + 1, f); }
  if (adv == 6) { MPN_ZERO(y, n + 1); y[0] = 1; MPN_ZERO(z, n); z[n] = 1; if (kind & 1) { mp_ptr w = y; y = z; z = w; } }      /* 1 * B^n: the result is B^n itself */
  if (adv == 7) r = y;                                                                                          /* in place, as the FFT code calls it */
  fn_begin("mpn_mulmod_Bexpp1"); fn_in_limbs("a", y, n + 1); fn_in_limbs("b", z, n + 1); fn_in_int("n", n); fn_mid(); if (r != y) gb_fill(r, n + 1); gb_fill(t, 2 * n);
  ret = mpn_mulmod_Bexpp1(r, y, z, n, t); fn_out_limbs("r", r, n + 1); fn_out_int("ret", ret); fn_end();
}
void drv_k1_mulmod(int tier, unsigned long seed, const char *extra) {
  shard_t sh = shard_parse(extra); long x = 0; unsigned long bs[600]; int nb = 0, i, kind, adv; mp_size_t n;
  const int T = MULMOD_2EXPM1_THRESHOLD;
  if (sh.pure) { bs[nb++] = 1; bs[nb++] = 63; bs[nb++] = 64; bs[nb++] = 130; }
  else { unsigned long b; const int ns_q[] = {48, 64, 100, 128, 129, 200, 256, 400, 512}, ns_t[] = {45, 56, 72, 96, 150, 192, 300, 384, 640, 768, 1024, 1500, 2048};
    for (b = 1; b <= (tier ? 260 : 132); b++) bs[nb++] = b;
    for (n = 3; n <= 40; n++) { if (n == 3 && !tier) n = 4; bs[nb++] = 64 * n; bs[nb++] = 64 * n - 2; bs[nb++] = 64 * n - 62; if (n >= T - 2 || tier) { bs[nb++] = 64 * n - 1; bs[nb++] = 64 * n - 30; bs[nb++] = 64 * n - 36; } }
    for (i = 0; i < 9; i++) { n = ns_q[i]; bs[nb++] = 64 * n; bs[nb++] = 64 * n - 2; bs[nb++] = 64 * n - 34; bs[nb++] = 64 * n - 61; }
    if (tier) for (i = 0; i < 13; i++) { n = ns_t[i]; bs[nb++] = 64 * n; bs[nb++] = 64 * n - 4; bs[nb++] = 64 * n - 26; bs[nb++] = 64 * n - 63; } }
  for (i = 0; i < nb; i++) {
    unsigned long b = bs[i]; x++; if (!MINE(sh, x)) continue;
    rec_reset("k1_mulmod", x, seed);
    for (kind = 0; kind < (sh.pure ? 2 : NKINDS); kind++) { if (b > 64 * 300 && kind > 3) continue; if (!sh.pure && (b <= 132 ? (kind == 2 || kind == 4 || kind == 6) && b > 8 : (b / 2 + kind) % 2 != 0 && kind > 1)) continue;
      for (adv = 0; adv < (sh.pure ? 2 : 5); adv++) if (adv == 0 || (adv + kind) % 3 == 0 || (b < 70 && kind < 2)) ev_2expm1(b, kind, (adv + kind) & 1, adv);
      for (adv = 0; adv < (sh.pure ? 4 : 8); adv++) if (adv == 0 || adv == 3 || (adv + kind) % 3 == 0 || (b < 70 && kind < 2)) ev_2expp1(b, kind, (adv + kind) & 1, adv); }
  }
  if (sh.pure) return;
  /* sizes at which mpn_mulmod_2expp1_basecase hands over to the FFT (whole limbs, n above the cutoff, n an FFT size) */
  { int found = 0; for (n = FFT_MULMOD_2EXPP1_CUTOFF - 1; n < 4000 && found < (tier ? 8 : 3); n++) { if (n > FFT_MULMOD_2EXPP1_CUTOFF + 1 && n != mpir_fft_adjust_limbs(n)) continue; if (n > FFT_MULMOD_2EXPP1_CUTOFF + 1) found++;
      x++; if (!MINE(sh, x)) continue;
      rec_reset("k1_mulmod", x, seed);
      for (kind = 0; kind < 4; kind++) for (adv = 0; adv < 4; adv++) ev_2expp1(64 * n, kind, adv & 1, adv); } }
  /* mpn_mulmod_Bexpp1: whole-limb modulus B^n + 1, operands of n+1 limbs (fully reduced) */
  { int found = 0; for (n = 1; n < 4000 && found < (tier ? 8 : 3); n++) { if (n > 40 && n < FFT_MULMOD_2EXPP1_CUTOFF - 1 && n % 16) continue; if (n > FFT_MULMOD_2EXPP1_CUTOFF && n != mpir_fft_adjust_limbs(n)) continue; if (n > FFT_MULMOD_2EXPP1_CUTOFF) found++;
      x++; if (!MINE(sh, x)) continue;
      rec_reset("k1_mulmod", x, seed);
      for (kind = 0; kind < (n > 40 ? 3 : NKINDS); kind++) for (adv = 0; adv < 8; adv++) if (adv < 2 || kind < 2 || adv == 7) ev_Bexpp1(n, kind, (adv + kind) & 1, adv); } }
}

/* ------------------------------------------------------------------ k1_redc */
static void mk_T(mp_ptr t, mp_srcptr m, mp_size_t n, int how, int kind) {
  /* how 0: product of two residues below m (the use in mpn_powm); 1: any 2n limbs of the given kind; 2: all ones; 3: zero; 4: m * B^n - 1; 5: n-limb value with zero upper half */
  mp_ptr u = gb_get(7, n, 1), v = gb_get(8, n, 1); mp_size_t i;
  switch (how) {
  case 0: rnd_limbs(u, n, kind); rnd_limbs(v, n, (kind + 2) % NKINDS); if (mpn_cmp(u, m, n) >= 0) mpn_sub_1(u, m, n, 1); if (mpn_cmp(v, m, n) >= 0) mpn_sub_1(v, m, n, 1); mpn_mul_n(t, u, v, n); break;
  case 1: rnd_limbs(t, 2 * n, kind); break;
  case 2: rnd_limbs(t, 2 * n, 1); break;
  case 3: MPN_ZERO(t, 2 * n); break;
  case 4: MPN_ZERO(t, n); MPN_COPY(t + n, m, n); mpn_sub_1(t, t, 2 * n, 1); break;
  default: rnd_limbs(t, n, kind); for (i = n; i < 2 * n; i++) t[i] = 0;
  }
}
static void mk_mod(mp_ptr m, mp_size_t n, int kind, int variant) {
  rnd_limbs(m, n, kind);
  if (variant == 1) m[n - 1] |= (mp_limb_t)1 << 63; else if (variant == 2) { m[n - 1] >>= 1 + rnd_below(62); }
  if (m[n - 1] == 0) m[n - 1] = 1;
  m[0] |= 1;
}
void drv_k1_redc(int tier, unsigned long seed, const char *extra) {
  shard_t sh = shard_parse(extra); long x = 0; int ns[200], nn, i, kind, how;
  const int thr[] = {15, 100, MULMOD_2EXPM1_THRESHOLD, MULLOW_DC_THRESHOLD, 2 * FFT_MULMOD_2EXPP1_CUTOFF}; const int ext_q[] = {48, 64, 80, 128, 150, 200, 300, 384, 520}, ext_t[] = {44, 56, 72, 90, 115, 170, 230, 270, 350, 450, 640, 800, 1030, 1500};
  if (sh.pure) { ns[0] = 1; ns[1] = 2; ns[2] = 3; nn = 3; }
  else { nn = k1_sizes(ns, 150, 1, 40, thr, 5, ext_q, 9, 2000); if (tier) nn = nn + k1_sizes(ns + nn, 40, 41, 0, NULL, 0, ext_t, 14, 2000); }
  for (i = 0; i < nn; i++) for (kind = 0; kind < (sh.pure ? 2 : NKINDS); kind++) {
    mp_size_t n = ns[i];
    if (n > 150 && kind > 3) continue;
    x++; if (!MINE(sh, x)) continue;
    rec_reset("k1_redc", x, seed);
    for (how = 0; how < (sh.pure ? 3 : 6); how++) { if (kind >= 3 && how > 1 && how != kind % 6) continue;
      int place = (how + kind) & 1; mp_ptr m = gb_get(0, n, place), t0 = gb_get(1, 2 * n, place), t = gb_get(2, 2 * n, place), r = gb_get(3, n, place), ip; mp_limb_t mi2[2], np;
      mk_mod(m, n, kind, how % 3); mk_T(t0, m, n, how, (kind + how) % NKINDS);
      np = -inv64(m[0]);
      { MPN_COPY(t, t0, 2 * n);
        fn_begin("mpn_redc_1"); fn_in_limbs("t", t0, 2 * n); fn_in_limbs("m", m, n); fn_in_int("n", n); fn_in_u64("inv", np); fn_mid(); gb_fill(r, n); mpn_redc_1(r, t, m, n, np); fn_out_limbs("r", r, n); fn_end(); }
      { inv128(mi2, m[0], n > 1 ? m[1] : 0); mi2[0] = -mi2[0]; mi2[1] = ~mi2[1]; MPN_COPY(t, t0, 2 * n);
        fn_begin("mpn_redc_2"); fn_in_limbs("t", t0, 2 * n); fn_in_limbs("m", m, n); fn_in_int("n", n); fn_in_limbs("inv", mi2, 2); fn_mid(); gb_fill(r, n); mpn_redc_2(r, t, m, n, mi2); fn_out_limbs("r", r, n); fn_end(); }
      if (n > 8) { mp_size_t itch = mpn_binvert_itch(n); mp_ptr s = gb_get(5, itch, 1); ip = gb_get(4, n, place); mpn_binvert(ip, m, n, s); MPN_COPY(t, t0, 2 * n);     /* the inverse is an input: the contract restates what it must be */
        fn_begin("mpn_redc_n"); fn_in_limbs("t", t0, 2 * n); fn_in_limbs("m", m, n); fn_in_int("n", n); fn_in_limbs("inv", ip, n); fn_mid(); gb_fill(r, n); mpn_redc_n(r, t, m, n, ip); fn_out_limbs("r", r, n); fn_end(); }
    }
  }
}

/* ------------------------------------------------------------------ k1_inv */
void drv_k1_inv(int tier, unsigned long seed, const char *extra) {
  shard_t sh = shard_parse(extra); long x = 0; int ns[220], nn, i, kind, place;
  const int thr[] = {DC_BDIV_Q_THRESHOLD, BINV_NEWTON_THRESHOLD, 2 * BINV_NEWTON_THRESHOLD, 2 * FFT_MULMOD_2EXPP1_CUTOFF, 1500 /* WRAP_AROUND_BOUND of invert.c */};
  const int ext_q[] = {48, 64, 90, 128, 200, 400, 512, 800, 1203, 2000}, ext_t[] = {44, 56, 72, 100, 150, 180, 230, 350, 450, 700, 1000, 1800, 2405, 3001, 4000};
  if (sh.pure) { ns[0] = 1; ns[1] = 2; ns[2] = 3; nn = 3; }
  else { nn = k1_sizes(ns, 160, 1, 40, thr, 5, ext_q, 10, 5000); if (tier) nn = nn + k1_sizes(ns + nn, 40, 41, 0, NULL, 0, ext_t, 15, 5000); }
  for (i = 0; i < nn; i++) {
    mp_size_t n = ns[i];
    x++; if (!MINE(sh, x)) continue;
    rec_reset("k1_inv", x, seed);
    for (kind = 0; kind < (sh.pure ? 2 : NKINDS + 3); kind++) { mp_size_t itch = mpn_binvert_itch(n); mp_ptr u, r, s;
      if (n > 500 && kind % 3 == 2) continue;
      place = kind & 1; u = gb_get(0, n, place); r = gb_get(1, n, place); s = gb_get(2, itch, place);
      /* 2-adic inverse of an odd number */
      if (kind < NKINDS) rnd_limbs(u, n, kind); else if (kind == NKINDS) { MPN_ZERO(u, n); } else if (kind == NKINDS + 1) { rnd_limbs(u, n, 1); u[0] = ~(mp_limb_t)0 - 2; } else { MPN_ZERO(u, n); u[n - 1] = (mp_limb_t)1 << 63; }
      u[0] |= 1;
      fn_begin("mpn_binvert"); fn_in_limbs("a", u, n); fn_in_int("n", n); fn_mid(); gb_fill(r, n); gb_fill(s, itch); mpn_binvert(r, u, n, s); fn_out_limbs("r", r, n); fn_end();
      /* approximate reciprocal of a normalised number */
      if (kind < NKINDS) rnd_limbs(u, n, kind); else if (kind == NKINDS) { MPN_ZERO(u, n); } else if (kind == NKINDS + 1) { MPN_ZERO(u, n); u[0] = 1; } else { rnd_limbs(u, n, 1); u[0] = ~(mp_limb_t)0 - rnd_below(3); }
      u[n - 1] |= (mp_limb_t)1 << 63;
      fn_begin("mpn_invert"); fn_in_limbs("a", u, n); fn_in_int("n", n); fn_mid(); gb_fill(r, n); mpn_invert(r, u, n); fn_out_limbs("r", r, n); fn_end();
    }
  }
}

/* ------------------------------------------------------------------ k1_pow */
static void mk_exp(mp_ptr e, mp_size_t en, int kind, int shape) {
  /* shape 0: of the given kind; 1: all ones; 2: a single top bit; 3: small top limb */
  rnd_limbs(e, en, shape == 1 ? 1 : kind);
  if (shape == 2) { MPN_ZERO(e, en); e[en - 1] = (mp_limb_t)1 << rnd_below(64); }
  if (shape == 3) e[en - 1] = 1 + rnd_below(7);
  if (e[en - 1] == 0) e[en - 1] = 1; if (en == 1 && e[0] < 2) e[0] = 2 + rnd_below(5);
}
void drv_k1_pow(int tier, unsigned long seed, const char *extra) {
  shard_t sh = shard_parse(extra); long x = 0; int ns[200], nn, i, kind, j;
  const int thr[] = {100 /* REDC_1_TO_REDC_N */, MULLOW_DC_THRESHOLD, SQR_KARATSUBA_THRESHOLD}; const int ext_q[] = {48, 64, 80, 128, 150, 200}, ext_t[] = {44, 56, 72, 90, 115, 170, 256, 300, 400};
  const int ens[] = {1, 1, 2, 3, 1, 4, 2, 11, 1, 29};        /* exponent limbs: window sizes 1..6 of powlo/powm (bit-length classes 7, 25, 81, 241, 673, 1793) */
  if (sh.pure) { ns[0] = 1; ns[1] = 2; ns[2] = 3; nn = 3; }
  else { nn = k1_sizes(ns, 150, 1, 40, thr, 3, ext_q, 6, 2000); if (tier) nn = nn + k1_sizes(ns + nn, 40, 41, 0, NULL, 0, ext_t, 9, 2000); }
  for (i = 0; i < nn; i++) for (kind = 0; kind < (sh.pure ? 2 : NKINDS); kind++) {
    mp_size_t n = ns[i];
    if (n > 60 && kind > 3) continue;
    x++; if (!MINE(sh, x)) continue;
    rec_reset("k1_pow", x, seed);
    for (j = 0; j < (sh.pure ? 2 : (n > 60 ? 5 : 10)); j++) { if (!sh.pure && n > 16 && kind > 1 && j != kind && j != (kind + 5) % 10 && j != 0) continue;
      int place = (j + kind) & 1; mp_size_t en = ens[j], bn, itch, tn; mp_ptr b, e, m, r, t;
      if (en > 4 && n > 40) en = 4; if (sh.pure) en = 1;
      /* low n limbs of a power */
      b = gb_get(0, n, place); e = gb_get(1, en, place); r = gb_get(2, n, place); t = gb_get(3, 3 * n, place);
      rnd_limbs(b, n, kind); if (j == 4) b[0] |= 1; if (j == 6) b[0] &= ~(mp_limb_t)1; mk_exp(e, en, (kind + j) % NKINDS, j % 4); if (sh.pure || j == 8) { e[0] = 2 + rnd_below(j == 8 ? 5 : 60); }
      fn_begin("mpn_powlo"); fn_in_limbs("b", b, n); fn_in_limbs("e", e, en); fn_in_int("en", en); fn_in_int("n", n); fn_mid(); gb_fill(r, n); gb_fill(t, 3 * n); mpn_powlo(r, b, e, en, n, t); fn_out_limbs("r", r, n); fn_end();
      /* power modulo an odd number; base shorter than, as long as, longer than the modulus */
      bn = j % 3 == 0 ? n : j % 3 == 1 ? 1 + (mp_size_t)rnd_below(n) : n + 1 + (mp_size_t)rnd_below(n + 2);
      itch = mpn_binvert_itch(n); tn = itch > 2 * n ? itch : 2 * n;
      b = gb_get(0, bn, place); m = gb_get(4, n, place); t = gb_get(3, tn, place);
      rnd_limbs(b, bn, kind); if (!b[bn - 1]) b[bn - 1] = 1; mk_mod(m, n, (kind + j) % NKINDS, j % 3);
      if (j == 5) { MPN_ZERO(m, n); m[n - 1] = n > 1 ? 1 : 0; m[0] |= 1; if (n == 1) m[0] = 1; }                /* m = B^(n-1) + 1, and m = 1 for one limb */
      if (j == 7 && bn >= n) { MPN_ZERO(b, bn); MPN_COPY(b + bn - n, m, n); }                                    /* base a multiple of the modulus */
      fn_begin("mpn_powm"); fn_in_limbs("b", b, bn); fn_in_int("bn", bn); fn_in_limbs("e", e, en); fn_in_int("en", en); fn_in_limbs("m", m, n); fn_in_int("n", n); fn_mid(); gb_fill(r, n); gb_fill(t, tn);
      mpn_powm(r, b, bn, e, en, m, n, t); fn_out_limbs("r", r, n); fn_end();
    }
    /* mpn_pow_1: whole power with a one-limb exponent; result and scratch areas have the result's limb count + 1 */
    if (n <= 40) { const unsigned long exps[] = {0, 1, 2, 3, 4, 5, 6, 7, 8, 9, 15, 16, 17, 31, 33, 64, 100, 127, 255, 1000};
      for (j = 0; j < (sh.pure ? 6 : 20); j++) { unsigned long ex = exps[j]; mp_size_t bn = n, rn, need; mp_ptr b, r, t; int place = j & 1; mpz_t zb, zr;
        if ((long)bn * (long)ex > (tier ? 2400 : 700)) continue; if (kind >= 4 && j % 3) continue; if (n > 8 && kind > 0 && (j + kind) % 2) continue;
        b = gb_get(0, bn, place); rnd_limbs(b, bn, kind); if (!b[bn - 1]) b[bn - 1] = 1 + rnd_below(9);
        if (j % 5 == 4) { b[bn - 1] = 1 + rnd_below(3); }
        priv_begin(); mpz_init(zr); zb->_mp_d = b; zb->_mp_size = (int)bn; zb->_mp_alloc = (int)bn; mpz_pow_ui(zr, zb, ex); need = ABSIZ(zr) + 1; mpz_clear(zr); priv_end();
        if (ex == 1 && need < bn + 1) need = bn + 1;
        r = gb_get(2, need, place); t = gb_get(3, need, place);
        fn_begin("mpn_pow_1"); fn_in_limbs("b", b, bn); fn_in_int("bn", bn); fn_in_u64("e", ex); fn_mid(); gb_fill(r, need); gb_fill(t, need); rn = mpn_pow_1(r, b, bn, ex, t);
        fn_out_limbs("r", r, rn > 0 && rn <= need ? rn : 0); fn_out_int("rn", rn); fn_end(); } }
  }
}
