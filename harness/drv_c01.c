/* C01: multiplication in every regime.  Shapes come from the TLC dispatch model (file=...: "label un vn" lines = every
   (un,vn) next to a dispatch boundary under the thresholds of the tree under test); FFT parameter pairs from FFTParams
   (fft=...: "n1 n2 depth w kind").  Contents: all-ones, single bit, runs, corners, uniform, equal operands. */
#include "util.h"

static void log_mul(const char *f, mp_srcptr a, mp_size_t an, mp_srcptr b, mp_size_t bn) {
  fn_begin(f); fn_in_limbs("a", a, an); fn_in_int("an", an); fn_in_limbs("b", b, bn); fn_in_int("bn", bn); fn_mid();
}
static void out_mul(mp_srcptr r, mp_size_t n) { fn_out_limbs("r", r, n); fn_end(); }

static void mul_shape(const char *label, mp_size_t un, mp_size_t vn, int kind, int place) {
  mp_ptr a = gb_get(0, un, place), b = gb_get(1, vn, place), r = gb_get(2, un + vn, place), ws; mp_limb_t top;
  rnd_limbs(a, un, kind); rnd_limbs(b, vn, kind == 1 ? 1 : (kind + 3) % NKINDS);
  gb_fill(r, un + vn);
  log_mul("mpn_mul", a, un, b, vn); top = mpn_mul(r, a, un, b, vn); fn_out_u64("top", top); out_mul(r, un + vn);
  /* the selected algorithm entered directly (inside the domain the model established) */
  if (!strcmp(label, "toom42")) { ws = gb_get(3, MPN_TOOM3_MUL_TSIZE(un), 1); gb_fill(r, un + vn); log_mul("mpn_toom42_mul", a, un, b, vn); mpn_toom42_mul(r, a, un, b, vn, ws); out_mul(r, un + vn); }
  else if (!strcmp(label, "toom32")) { ws = gb_get(3, MPN_TOOM3_MUL_TSIZE(un), 1); gb_fill(r, un + vn); log_mul("mpn_toom32_mul", a, un, b, vn); mpn_toom32_mul(r, a, un, b, vn, ws); out_mul(r, un + vn); }
  else if (!strcmp(label, "toom3")) { ws = gb_get(3, MPN_TOOM3_MUL_TSIZE(un), 1); gb_fill(r, un + vn); log_mul("mpn_toom3_mul", a, un, b, vn); mpn_toom3_mul(r, a, un, b, vn, ws); out_mul(r, un + vn); }
  else if (!strcmp(label, "toom4")) { gb_fill(r, un + vn); log_mul("mpn_toom4_mul", a, un, b, vn); mpn_toom4_mul(r, a, un, b, vn); out_mul(r, un + vn); }
  else if (!strcmp(label, "toom53")) { gb_fill(r, un + vn); log_mul("mpn_toom53_mul", a, un, b, vn); mpn_toom53_mul(r, a, un, b, vn); out_mul(r, un + vn); }
  else if (!strcmp(label, "toom8h") || !strcmp(label, "toom8h_n")) { gb_fill(r, un + vn); log_mul("mpn_toom8h_mul", a, un, b, vn); mpn_toom8h_mul(r, a, un, b, vn); out_mul(r, un + vn); }
  else if (!strcmp(label, "kara_n")) { ws = gb_get(3, MPN_KARA_MUL_N_TSIZE(un), 1); gb_fill(r, 2 * un); log_mul("mpn_kara_mul_n", a, un, b, un); mpn_kara_mul_n(r, a, b, un, ws); out_mul(r, 2 * un); }
  else if (!strcmp(label, "toom3_n")) { ws = gb_get(3, MPN_TOOM3_MUL_N_TSIZE(un), 1); gb_fill(r, 2 * un); log_mul("mpn_toom3_mul_n", a, un, b, un); mpn_toom3_mul_n(r, a, b, un, ws); out_mul(r, 2 * un); }
  else if (!strcmp(label, "toom4_n")) { gb_fill(r, 2 * un); log_mul("mpn_toom4_mul_n", a, un, b, un); mpn_toom4_mul_n(r, a, b, un); out_mul(r, 2 * un); }
  else if (!strcmp(label, "basecase") || !strcmp(label, "basecase_n")) { gb_fill(r, un + vn); log_mul("mpn_mul_basecase", a, un, b, vn); mpn_mul_basecase(r, a, un, b, vn); out_mul(r, un + vn); }
  if (un > vn) {
    /* the shorter operand is a prefix of the longer one, SAME POINTER (mpn_mul only forbids overlap with the destination) */
    gb_fill(r, un + vn); log_mul("mpn_mul", a, un, a, vn); top = mpn_mul(r, a, un, a, vn); fn_out_u64("top", top); out_mul(r, un + vn);
  }
  if (un == vn) {
    /* same object: the squaring path */
    gb_fill(r, 2 * un); log_mul("mpn_mul", a, un, a, un); top = mpn_mul(r, a, un, a, un); fn_out_u64("top", top); out_mul(r, 2 * un);
    gb_fill(r, 2 * un); log_mul("mpn_sqr", a, un, a, un); mpn_sqr(r, a, un); out_mul(r, 2 * un);
    gb_fill(r, 2 * un); log_mul("mpn_mul_n", a, un, b, un); mpn_mul_n(r, a, b, un); out_mul(r, 2 * un);
  }
}

void drv_c01_shapes(int tier, unsigned long seed, const char *extra) {
  shard_t sh = shard_parse(extra); const char *path = opt_val(&sh, "file"); FILE *f; char label[64]; long un, vn, x = 0, lines = 0;
  if (!path || !(f = fopen(path, "r"))) { fprintf(stderr, "c01_shapes: no shape file\n"); exit(3); }
  while (fscanf(f, "%63s %ld %ld", label, &un, &vn) == 3) {
    lines++; if (!MINE(sh, lines)) continue;
    if (x % 12 == 0) rec_reset("c01_shapes", lines, seed);
    x++;
    mul_shape(label, un, vn, 1, 1);                             /* all ones: maximal carries / coefficients */
    mul_shape(label, un, vn, (int)((lines + seed) % NKINDS), (int)(lines & 1));
  }
  fclose(f);
}

/* single-limb multiplies: every n mod 8 several periods, carry chains, in place */
void drv_c01_mul1(int tier, unsigned long seed, const char *extra) {
  shard_t sh = shard_parse(extra); long x = 0; mp_size_t n; int kind, w, place;
  mp_size_t maxn = sh.pure ? 5 : (tier ? 140 : 70);
  for (n = 1; n <= maxn; n++) for (kind = 0; kind < NKINDS; kind++) {
    x++; if (!MINE(sh, x)) continue;
    if (sh.pure && kind > 2) continue;
    rec_reset("c01_mul1", x, seed);
    for (place = 0; place < 2; place++) for (w = 0; w < 4; w++) {
      mp_ptr a = gb_get(0, n, place), r = gb_get(2, n, place); mp_limb_t v = rnd_limb_pattern(w), cy;
      rnd_limbs(a, n, kind);
      fn_begin("mpn_mul_1"); fn_in_limbs("a", a, n); fn_in_int("n", n); fn_in_u64("b", v); fn_mid(); gb_fill(r, n); cy = mpn_mul_1(r, a, n, v); fn_out_limbs("r", r, n); fn_out_u64("cy", cy); fn_end();
      rnd_limbs(r, n, (kind + w) % NKINDS);
      fn_begin("mpn_addmul_1"); fn_in_limbs("a", a, n); fn_in_limbs("r0", r, n); fn_in_int("n", n); fn_in_u64("b", v); fn_mid(); cy = mpn_addmul_1(r, a, n, v); fn_out_limbs("r", r, n); fn_out_u64("cy", cy); fn_end();
      fn_begin("mpn_submul_1"); fn_in_limbs("a", a, n); fn_in_limbs("r0", r, n); fn_in_int("n", n); fn_in_u64("b", v); fn_mid(); cy = mpn_submul_1(r, a, n, v); fn_out_limbs("r", r, n); fn_out_u64("cy", cy); fn_end();
      /* in place mul_1 */
      fn_begin("mpn_mul_1"); fn_in_limbs("a", a, n); fn_in_int("n", n); fn_in_u64("b", v); fn_mid(); cy = mpn_mul_1(a, a, n, v); fn_out_limbs("r", a, n); fn_out_u64("cy", cy); fn_end();
    }
  }
}

/* FFT: every (depth,w) the parameter selection can produce, entered directly and through mpn_mul */
void drv_c01_fft(int tier, unsigned long seed, const char *extra) {
  shard_t sh = shard_parse(extra); const char *path = opt_val(&sh, "fft"); FILE *f; char kind[16]; long n1, n2, depth, w, lines = 0; int pass;
  if (!path || !(f = fopen(path, "r"))) { fprintf(stderr, "c01_fft: no parameter file\n"); exit(3); }
  while (fscanf(f, "%ld %ld %ld %ld %15s", &n1, &n2, &depth, &w, kind) == 5) {
    lines++; if (!MINE(sh, lines)) continue;
    rec_reset("c01_fft", lines, seed);
    for (pass = 0; pass < 10; pass++) {
      mp_ptr a = gb_get(0, n1, 1), b = gb_get(1, n2, 1), r = gb_get(2, n1 + n2, 1); mp_limb_t top;
      /* passes 0,1: all ones / mixed; 2..9: one operand an exact power of two (a transformed coefficient is then exactly
         2^(nw) = -1 mod 2^(nw)+1 for many bit positions), the other uniform, runs or all ones */
      if (pass < 2) { rnd_limbs(a, n1, pass ? (int)((lines + seed) % NKINDS) : 1); rnd_limbs(b, n2, pass ? 3 : 1); }
      else if (pass & 1) { rnd_limbs(a, n1, 2); rnd_limbs(b, n2, pass == 3 ? 1 : pass == 5 ? 3 : 0); }
      else { rnd_limbs(a, n1, pass == 2 ? 1 : pass == 4 ? 3 : 0); rnd_limbs(b, n2, 2); }
      gb_fill(r, n1 + n2);
      fn_begin(!strcmp(kind, "mfa") ? "mpn_mul_mfa_trunc_sqrt2" : "mpn_mul_trunc_sqrt2");
      fn_in_limbs("a", a, n1); fn_in_int("an", n1); fn_in_limbs("b", b, n2); fn_in_int("bn", n2); fn_in_int("depth", depth); fn_in_int("w", w); fn_mid();
      if (!strcmp(kind, "mfa")) mpn_mul_mfa_trunc_sqrt2(r, a, n1, b, n2, depth, w); else mpn_mul_trunc_sqrt2(r, a, n1, b, n2, depth, w);
      out_mul(r, n1 + n2);
      if (pass == 0) {
        gb_fill(r, n1 + n2); log_mul("mpn_mul", a, n1, b, n2); top = mpn_mul(r, a, n1, b, n2); fn_out_u64("top", top); out_mul(r, n1 + n2);
        if (n1 == n2) { gb_fill(r, 2 * n1); log_mul("mpn_sqr", a, n1, a, n1); mpn_sqr(r, a, n1); out_mul(r, 2 * n1); }
        else { /* same pointer, different lengths: not a squaring */
          gb_fill(r, n1 + n2); log_mul("mpn_mul", a, n1, a, n2); top = mpn_mul(r, a, n1, a, n2); fn_out_u64("top", top); out_mul(r, n1 + n2);
          gb_fill(r, n1 + n2); fn_begin(!strcmp(kind, "mfa") ? "mpn_mul_mfa_trunc_sqrt2" : "mpn_mul_trunc_sqrt2");
          fn_in_limbs("a", a, n1); fn_in_int("an", n1); fn_in_limbs("b", a, n2); fn_in_int("bn", n2); fn_in_int("depth", depth); fn_in_int("w", w); fn_mid();
          if (!strcmp(kind, "mfa")) mpn_mul_mfa_trunc_sqrt2(r, a, n1, a, n2, depth, w); else mpn_mul_trunc_sqrt2(r, a, n1, a, n2, depth, w);
          out_mul(r, n1 + n2); }
      }
    }
  }
  fclose(f);
}

/* mpz level: signs, zero, aliasing, _ui/_si extremes, accumulate forms, destinations shrunk */
static void shrinkz(int i) { callf("mpz_realloc2", i, (uint64_t)(ABSIZ(Zp[i]) ? (uint64_t)ABSIZ(Zp[i]) * 64 : 1)); }
void drv_c01_mpz(int tier, unsigned long seed, const char *extra) {
  shard_t sh = shard_parse(extra); long x = 0; int la, lb, sa, sb, i, k;
  static const int sizes_q[] = {0, 1, 2, 3, 9, 16, 17, 18, 40, 97, 98, 99, 147, 148, 150, 240};
  static const int sizes_p[] = {0, 1, 2, 4};
  const int *sizes = sh.pure ? sizes_p : sizes_q; int ns = sh.pure ? 4 : (tier ? 16 : 12);
  static const uint64_t uis[] = {0, 1, 3, 0xffffffffUL, 0x100000001UL, 0x8000000000000000UL, 0xffffffffffffffffUL};
  static const int64_t sis[] = {0, 1, -1, 0x7fffffff, -0x80000000L, 0x7fffffffffffffffL, -0x7fffffffffffffffL - 1};
  for (i = 0; i < ns; i++) for (k = 0; k < ns; k++) {
    la = sizes[i]; lb = sizes[k]; x++; if (!MINE(sh, x)) continue;
    rec_reset("c01_mpz", x, seed);
    for (sa = 0; sa < 5; sa++) callf("mpz_init", sa);
    for (sa = 0; sa < 2; sa++) for (sb = 0; sb < 2; sb++) {
      int kind = rnd_below(NKINDS), j;
      callf("drv_rndz", 0, la, kind, sa); callf("drv_rndz", 1, lb, (kind + 2) % NKINDS, sb);
      shrinkz(2); callf("mpz_mul", 2, 0, 1);
      callf("mpz_set", 2, 0); shrinkz(2); callf("mpz_mul", 2, 2, 1);        /* w = u */
      callf("mpz_set", 2, 1); shrinkz(2); callf("mpz_mul", 2, 0, 2);        /* w = v */
      shrinkz(2); callf("mpz_mul", 2, 0, 0);                                /* u = v : squaring */
      callf("mpz_set", 2, 0); shrinkz(2); callf("mpz_mul", 2, 2, 2);        /* all the same */
      callf("drv_rndz", 3, (int)rnd_below(la + lb + 2), 0, (int)(rnd64() & 1));
      callf("mpz_set", 4, 3); shrinkz(4); callf("mpz_addmul", 4, 0, 1);
      callf("mpz_set", 4, 3); shrinkz(4); callf("mpz_submul", 4, 0, 1);
      callf("mpz_set", 4, 0); callf("mpz_addmul", 4, 4, 1); callf("mpz_submul", 4, 4, 4);
      for (j = 0; j < 7; j++) {
        shrinkz(2); callf("mpz_mul_ui", 2, 0, uis[j]); shrinkz(2); callf("mpz_mul_si", 2, 0, sis[j]);
        callf("mpz_set", 4, 3); shrinkz(4); callf("mpz_addmul_ui", 4, 0, uis[j]);
        callf("mpz_set", 4, 3); shrinkz(4); callf("mpz_submul_ui", 4, 0, uis[j]);
      }
      callf("mpz_set", 2, 0); callf("mpz_mul_ui", 2, 2, uis[6]); callf("mpz_mul_si", 2, 2, sis[6]);
    }
    for (sa = 0; sa < 5; sa++) callf("mpz_clear", sa);
    rec_quiesce();
  }
}

/* Piece-structured corner operands.  A Toom-k routine splits each operand into k pieces and evaluates signed sums of them: whether a difference
   is zero or negative, a piece zero or all ones, a carry out of an evaluation point, is decided by the PIECES.  For one size in each regime
   (Karatsuba, Toom-3, Toom-4, Toom-8.5, balanced and the unbalanced ratios) every piece is drawn from {zero, all ones, one, top bit}: all
   combinations where that is affordable, a seeded sample of them otherwise.  Product through mpn_mul / mpn_mul_n / mpn_sqr (the dispatch picks the regime). */
static void fill_pieces(mp_ptr p, mp_size_t n, int k, unsigned long code) {
  mp_size_t L = (n + k - 1) / k, i; int j;
  for (j = 0; j < k; j++) { int sym = (int)(code % 4); mp_size_t lo = j * L, hi = lo + L > n ? n : lo + L; code /= 4;
    for (i = lo; i < hi; i++) p[i] = sym == 1 ? ~(mp_limb_t)0 : 0;
    if (hi > lo) { if (sym == 2) p[lo] = 1; else if (sym == 3) p[hi - 1] = (mp_limb_t)1 << 63; } }
}
void drv_c01_pieces(int tier, unsigned long seed, const char *extra) {
  shard_t sh = shard_parse(extra); long x = 0; int ci;
  struct { int k; mp_size_t n; long want; } cfg[] = {
    {2, (MUL_KARATSUBA_THRESHOLD + MUL_TOOM3_THRESHOLD) / 2, 256}, {3, (MUL_TOOM3_THRESHOLD + MUL_TOOM4_THRESHOLD) / 2 + 1, 1200}, {4, (MUL_TOOM4_THRESHOLD + MUL_TOOM8H_THRESHOLD) / 2 + 1, 700},
    {8, MUL_TOOM8H_THRESHOLD + 67, 400}, {3, MUL_TOOM3_THRESHOLD + 2, 500}, {4, MUL_TOOM4_THRESHOLD + 3, 400} };
  if (sh.pure) return;
  for (ci = 0; ci < 6; ci++) {
    int k = cfg[ci].k; mp_size_t n = cfg[ci].n; unsigned long ncode = 1, t, per; long want = tier ? cfg[ci].want * 4 : cfg[ci].want, done = 0; int j;
    for (j = 0; j < k; j++) ncode *= 4;                 /* codes per operand */
    per = 60;
    for (t = 0; done < want; t++) {
      unsigned long ca, cb; mp_size_t bn; mp_ptr a, b, r; int ub;
      if (ncode * ncode <= (unsigned long)want) { if (t >= ncode * ncode) break; ca = t % ncode; cb = t / ncode; } else { ca = rnd_below(ncode); cb = rnd_below(ncode); }
      done++;
      if (done % per == 1) { x++; if (MINE(sh, x)) rec_reset("c01_pieces", x, seed); }
      if (!MINE(sh, x)) continue;
      ub = (int)(t % 5); bn = ub == 3 ? (n * 2) / 3 + 1 : ub == 4 ? n / 2 + 2 : n;             /* balanced mostly; 3:2 and 2:1 shapes (toom32 / toom42 / toom53 regions) */
      a = gb_get(0, n, (int)(t & 1)); b = gb_get(1, bn, (int)(t & 1)); r = gb_get(2, n + bn, 1);
      fill_pieces(a, n, k, ca); fill_pieces(b, bn, k, cb);
      gb_fill(r, n + bn); log_mul("mpn_mul", a, n, b, bn); { mp_limb_t top = mpn_mul(r, a, n, b, bn); fn_out_u64("top", top); } out_mul(r, n + bn);
      if (bn == n && t % 3 == 0) { gb_fill(r, 2 * n); log_mul("mpn_mul_n", a, n, b, n); mpn_mul_n(r, a, b, n); out_mul(r, 2 * n); }
      if (t % 7 == 0) { mp_ptr r2 = gb_get(3, 2 * n, 1); gb_fill(r2, 2 * n); log_mul("mpn_sqr", a, n, a, n); mpn_sqr(r2, a, n); out_mul(r2, 2 * n); }
    }
  }
}
