#define _GNU_SOURCE
#include "util.h"
#include <sys/mman.h>
#include <unistd.h>

shard_t shard_parse(const char *extra) {
  shard_t s; const char *c;
  s.k = 0; s.n = 1; s.pure = 0; s.opts[0] = 0;
  if (extra && *extra) { sscanf(extra, "%d/%d", &s.k, &s.n); c = strchr(extra, ','); if (c) { snprintf(s.opts, sizeof s.opts, ",%s,", c + 1); } }
  if (s.n < 1) s.n = 1;
  s.pure = strstr(s.opts, ",pure,") != NULL;
  return s;
}
int opt_has(const shard_t *s, const char *name) { char b[64]; snprintf(b, sizeof b, ",%s,", name); return strstr(s->opts, b) != NULL; }

static unsigned char *gb_base[GB_SLOTS];
static long pg;
mp_ptr gb_get(int slot, mp_size_t n, int end) {
  size_t bytes = (size_t)GB_MAX * 8, span;
  if (!pg) pg = sysconf(_SC_PAGESIZE);
  if (n > GB_MAX) { fprintf(stderr, "gb_get: %ld limbs too large\n", (long)n); exit(3); }
  span = ((bytes + pg - 1) / pg) * pg;
  if (!gb_base[slot]) {
    unsigned char *m = mmap(NULL, span + 2 * pg, PROT_READ | PROT_WRITE, MAP_PRIVATE | MAP_ANONYMOUS, -1, 0);
    if (m == MAP_FAILED) { perror("mmap"); exit(3); }
    mprotect(m, pg, PROT_NONE); mprotect(m + pg + span, pg, PROT_NONE);
    gb_base[slot] = m;
  }
  if (end) return (mp_ptr)(gb_base[slot] + pg + span - (size_t)n * 8);
  return (mp_ptr)(gb_base[slot] + pg);
}
char *cbuf_end(size_t bytes) { mp_size_t nl = (mp_size_t)((bytes + 7) / 8) + 1; mp_ptr b = gb_get(GB_SLOTS - 1, nl, 1); char *p = (char *)(b + nl) - bytes; memset(p, 0x5a, bytes); return p; }
void gb_fill(mp_ptr p, mp_size_t n) { mp_size_t i; for (i = 0; i < n; i++) p[i] = 0x5a5a5a5a5a5a5a5aUL; }

static int hv(int c) { return c >= '0' && c <= '9' ? c - '0' : c >= 'a' && c <= 'f' ? c - 'a' + 10 : c >= 'A' && c <= 'F' ? c - 'A' + 10 : -1; }
void drv_setz(mpz_ptr z, const char *hex) {
  int neg = 0; size_t len, i; mp_size_t n; mp_ptr p;
  if (*hex == '-') { neg = 1; hex++; }
  while (*hex == '0' && hex[1]) hex++;
  len = strlen(hex); n = (len + 15) / 16;
  if (len == 1 && hex[0] == '0') { SIZ(z) = 0; return; }
  if (ALLOC(z) < n) _mpz_realloc(z, n);
  p = PTR(z);
  for (i = 0; i < (size_t)n; i++) p[i] = 0;
  for (i = 0; i < len; i++) { int d = hv(hex[len - 1 - i]); p[i / 16] |= (mp_limb_t)d << (4 * (i % 16)); }
  while (n > 0 && p[n - 1] == 0) n--;
  SIZ(z) = neg ? -n : n;
}
void drv_rndz(mpz_ptr z, int limbs, int kind, int neg) {
  mp_size_t n = limbs; mp_ptr p;
  if (n == 0) { SIZ(z) = 0; return; }
  if (ALLOC(z) < n) _mpz_realloc(z, n);
  p = PTR(z); rnd_limbs(p, n, kind);
  if (kind != 0 && kind != 1 && kind != 6 && p[n - 1] == 0) p[n - 1] = 1 + (rnd64() >> 1);
  while (n > 0 && p[n - 1] == 0) n--;
  SIZ(z) = neg ? -n : n;
}
char *hex_of_limbs(const mp_limb_t *p, mp_size_t n, int neg) {
  char *s, *q;
  while (n > 0 && p[n - 1] == 0) n--;
  s = malloc(16 * (n > 0 ? n : 1) + 3); q = s;
  if (n == 0) { strcpy(s, "0"); return s; }
  if (neg) *q++ = '-';
  q += sprintf(q, "%lx", (unsigned long)p[n - 1]);
  for (n -= 2; n >= 0; n--) q += sprintf(q, "%016lx", (unsigned long)p[n]);
  return s;
}
int sizes_around(int *out, int max, const int *thr, int nthr, int lo, int hi) {
  int c = 0, i, d, j;
  for (i = 0; i < nthr; i++) for (d = -2; d <= 2; d++) { int v = thr[i] + d, dup = 0; if (v < lo || v > hi) continue; for (j = 0; j < c; j++) if (out[j] == v) dup = 1; if (!dup && c < max) out[c++] = v; }
  return c;
}

const char *opt_val(const shard_t *s, const char *key) {
  static char buf[4096]; char pat[64]; const char *p, *e;
  snprintf(pat, sizeof pat, ",%s=", key); p = strstr(s->opts, pat);
  if (!p) return NULL; p += strlen(pat); e = strchr(p, ','); if (!e) e = p + strlen(p);
  snprintf(buf, sizeof buf, "%.*s", (int)(e - p), p); return buf;
}

static int priv_depth;
void priv_begin(void) { if (priv_depth++ == 0) rec_alloc_logging(0); }
void priv_end(void) { if (--priv_depth == 0) rec_alloc_logging(1); }
void pool_set_from(int i, mpz_srcptr v) {
  char *h = hex_of_limbs(PTR(v), ABSIZ(v), SIZ(v) < 0);
  callf("drv_setz", i, h); free(h);
}

void drv_setf(mpf_ptr f, const char *hex, long exp) {
  int neg = 0; size_t len, i; mp_size_t n; mp_ptr p = PTR(f);
  if (*hex == '-') { neg = 1; hex++; }
  while (*hex == '0' && hex[1]) hex++;
  len = strlen(hex); n = (len + 15) / 16;
  if (len == 1 && hex[0] == '0') { SIZ(f) = 0; EXP(f) = 0; return; }
  if (n > PREC(f) + 1) { fprintf(stderr, "drv_setf: mantissa too long\n"); exit(3); }
  for (i = 0; i < (size_t)n; i++) p[i] = 0;
  for (i = 0; i < len; i++) { int c = hex[len - 1 - i], d = c <= '9' ? c - '0' : (c | 32) - 'a' + 10; p[i / 16] |= (mp_limb_t)d << (4 * (i % 16)); }
  SIZ(f) = neg ? -n : n; EXP(f) = exp;
}
